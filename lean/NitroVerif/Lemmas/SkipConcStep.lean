import NitroVerif.Lemmas.SkipConcInv
/-!
  Thread-local invariant `TInv`, its stability under heap evolution, and the main preservation lemma:
  every segment (`stepThread`) and every call entry (`startOp`) of every thread keeps `HInv`, evolves the heap
  by `Ext` (H3, permanence of marks) and re-establishes the thread's own `TInv`.
-/
namespace NitroVerif.SkipConc
open NitroVerif

/-- every entry of the action buffer is a published node -/
def BufOK (h : Heap) (preds succs : List Nat) : Prop :=
  0 < preds.length ∧ 0 < succs.length ∧ (∀ i, preds.getD i 0 < h.length) ∧ (∀ i, succs.getD i 0 < h.length) ∧
  -- a recorded successor of level j has that level (or is the tail)
  (∀ j, j ≤ Gen.maxLevel → succs.getD j 0 = 1 ∨ (word? h (succs.getD j 0) j).isSome)

/-- every iterator of the thread sits on published nodes -/
def ItersOK (h : Heap) (iters : List (Nat × Iter)) : Prop :=
  ∀ p ∈ iters, p.2.prev < h.length ∧ p.2.curr < h.length

def ContInv (h : Heap) (th : Thread) (item : Nat) : Cont → Prop
  | .insFirst lvl => lvl ≤ Gen.maxLevel
  | .insRetry lvl => lvl ≤ Gen.maxLevel
  | .insRelink x lvl i => x < h.length ∧ keyOf h x = .fin item ∧ 1 ≤ i ∧ i ≤ lvl ∧ lvl ≤ Gen.maxLevel ∧
      heightOf h x = lvl
  | .insSuccDeleted x lvl i => x < h.length ∧ keyOf h x = .fin item ∧ 1 ≤ i ∧ i ≤ lvl ∧ lvl ≤ Gen.maxLevel ∧
      heightOf h x = lvl
  | .insUnlink x _ => x < h.length ∧ keyOf h x = .fin item
  /- the re-search of Iterator.Next looks for the item of the node under the cursor -/
  | .iterNext it => keyOf h (th.iter it).curr = .fin item
  /- so does the Seek of Refresh -/
  | .iterRefresh it => keyOf h (th.iter it).curr = .fin item
  | _ => True

/-- findPath: `prev`, `curr` are published and `key prev < item` -/
def FPInv (h : Heap) (th : Thread) (fp : FP) : Prop :=
  fp.prev < h.length ∧ fp.curr < h.length ∧ Key.lt (keyOf h fp.prev) (.fin fp.item) ∧
    ContInv h th fp.item fp.cont ∧ fp.i ≤ Gen.maxLevel

/-- in the level loop `curr` was read from a level-`i` word, so it has that level (or is the tail) -/
def CurrLv (h : Heap) (fp : FP) : Prop := fp.curr = 1 ∨ (word? h fp.curr fp.i).isSome

def PCInv (h : Heap) (th : Thread) : PC → Prop
  | .idle => True
  | .newLevel _ req level => level < req ∧ req ≤ Gen.maxLevel
  | .findLevel fp => FPInv h th fp
  | .findNext fp _ => FPInv h th fp ∧ CurrLv h fp
  | .helpDelete fp next => FPInv h th fp ∧ word? h fp.curr fp.i = some (next, true)
  | .insPublish item lvl =>
    Key.lt (keyOf h (th.pred 0)) (.fin item) ∧ Key.lt (.fin item) (keyOf h (th.succ 0)) ∧ lvl ≤ Gen.maxLevel
  | .insUpRead item x lvl i => x < h.length ∧ keyOf h x = .fin item ∧ 1 ≤ i ∧ i ≤ lvl ∧ lvl ≤ Gen.maxLevel ∧
      heightOf h x = lvl
  | .insUpLink item x lvl i next => x < h.length ∧ keyOf h x = .fin item ∧ 1 ≤ i ∧ next < h.length ∧ i ≤ lvl ∧
      lvl ≤ Gen.maxLevel ∧ heightOf h x = lvl
  | .softMark _ n i next _ =>
    n < h.length ∧ next < h.length ∧ ∀ l p m, i < l → word? h n l = some (p, m) → m = true
  | .delSearch _ => True
  | .iterNext it => ∃ k, keyOf h (th.iter it).curr = .fin k
  | .iterHelp it next =>
    word? h (th.iter it).curr 0 = some (next, true) ∧ ∃ k, keyOf h (th.iter it).curr = .fin k
  | .iterRefresh it => ∃ k, keyOf h (th.iter it).curr = .fin k

def TInv (h : Heap) (th : Thread) : Prop :=
  BufOK h th.preds th.succs ∧ ItersOK h th.iters ∧ PCInv h th th.pc

/-! ### iterators -/

theorem ItersOK.setIter {h : Heap} {l : List (Nat × Iter)} (b : ItersOK h l) (it : Nat) (v : Iter)
    (hv : v.prev < h.length ∧ v.curr < h.length) : ItersOK h (SkipConc.setIter l it v) := by
  induction l with
  | nil => intro p hp; simp [SkipConc.setIter] at hp; subst hp; exact hv
  | cons a r ih =>
    intro p hp
    unfold SkipConc.setIter at hp
    split at hp
    · simp at hp
      rcases hp with rfl | hp
      · exact hv
      · exact b p (by simp [hp])
    · simp at hp
      rcases hp with rfl | hp
      · exact b _ (by simp)
      · exact ih (fun q hq => b q (by simp [hq])) p hp

theorem ItersOK.iter {h : Heap} {th : Thread} (b : ItersOK h th.iters) (hl : 2 ≤ h.length) (it : Nat) :
    (th.iter it).prev < h.length ∧ (th.iter it).curr < h.length := by
  unfold Thread.iter Thread.iter?
  cases hf : th.iters.find? (fun p => p.1 == it) with
  | none => simp; omega
  | some p => simp; exact b p (List.mem_of_find?_eq_some hf)

theorem find?_setIter (l : List (Nat × Iter)) (it : Nat) (v : Iter) (it' : Nat) :
    ((SkipConc.setIter l it v).find? fun p => p.1 == it') =
      if it' = it then some (it, v) else l.find? fun p => p.1 == it' := by
  induction l with
  | nil =>
    simp only [SkipConc.setIter, List.find?_cons, List.find?_nil]
    by_cases h : it' = it
    · subst h; simp
    · have : (it == it') = false := by simp; exact fun e => h e.symm
      simp [h, this]
  | cons a r ih =>
    unfold SkipConc.setIter
    by_cases ha : (a.1 == it) = true
    · rw [if_pos ha]
      have ha' : a.1 = it := by simpa using ha
      simp only [List.find?_cons]
      by_cases h : it' = it
      · subst h; simp
      · have h1 : (it == it') = false := by simp; exact fun e => h e.symm
        have h2 : (a.1 == it') = false := by rw [ha']; exact h1
        simp [h, h1, h2]
    · rw [if_neg ha]
      simp only [List.find?_cons]
      by_cases h : it' = it
      · subst h
        have : (a.1 == it') = false := by simpa using ha
        rw [this, ih]
      · cases hh : (a.1 == it')
        · simp only []; rw [ih, if_neg h]
        · simp [h]

theorem iter_setIter_self (th : Thread) (it : Nat) (v : Iter) : (th.setIter it v).iter it = v := by
  simp [Thread.iter, Thread.iter?, Thread.setIter, find?_setIter]

theorem lt_of_keyOf_fin {h : Heap} {c k : Nat} (hk : keyOf h c = .fin k) : c < h.length := by
  by_cases hc : c < h.length
  · exact hc
  · have : keyOf h c = .pos := by unfold keyOf; rw [List.getElem?_eq_none (by omega)]
    rw [this] at hk; simp at hk

theorem iter_eq_of_iters {th' : Thread} {l : List (Nat × Iter)} {it : Nat} {v : Iter}
    (h : th'.iters = SkipConc.setIter l it v) : th'.iter it = v := by
  simp [Thread.iter, Thread.iter?, h, find?_setIter]

theorem moveIter_iter (th : Thread) (it p c : Nat) :
    (th.moveIter it p c).iter it = { (th.iter it) with prev := p, curr := c, valid := true } :=
  iter_eq_of_iters (l := th.iters) rfl

theorem ItersOK.moveIter {h : Heap} {th : Thread} (b : ItersOK h th.iters) (it : Nat) {p c : Nat}
    (hp : p < h.length) (hc : c < h.length) : ItersOK h (th.moveIter it p c).iters :=
  b.setIter _ _ ⟨hp, hc⟩

/-! ### stability under heap evolution -/

theorem BufOK.ext {h h' : Heap} {p s : List Nat} (e : Ext h h') (b : BufOK h p s) : BufOK h' p s :=
  ⟨b.1, b.2.1, fun i => Nat.lt_of_lt_of_le (b.2.2.1 i) e.len, fun i => Nat.lt_of_lt_of_le (b.2.2.2.1 i) e.len,
   fun j hj => by
     rcases b.2.2.2.2 j hj with h1 | h1
     · exact .inl h1
     · exact .inr (by rw [e.dom _ _ (b.2.2.2.1 j)]; exact h1)⟩

theorem ItersOK.ext {h h' : Heap} {l : List (Nat × Iter)} (e : Ext h h') (b : ItersOK h l) : ItersOK h' l :=
  fun p hp => ⟨Nat.lt_of_lt_of_le (b p hp).1 e.len, Nat.lt_of_lt_of_le (b p hp).2 e.len⟩

theorem ContInv.ext {h h' : Heap} {th : Thread} {item : Nat} {c : Cont} (e : Ext h h') (b : ContInv h th item c) :
    ContInv h' th item c := by
  cases c <;> simp only [ContInv] at * <;> try trivial
  · exact ⟨Nat.lt_of_lt_of_le b.1 e.len, by rw [e.key _ b.1]; exact b.2.1, b.2.2.1, b.2.2.2.1, b.2.2.2.2.1,
      by rw [e.height _ b.1]; exact b.2.2.2.2.2⟩
  · exact ⟨Nat.lt_of_lt_of_le b.1 e.len, by rw [e.key _ b.1]; exact b.2.1, b.2.2.1, b.2.2.2.1, b.2.2.2.2.1,
      by rw [e.height _ b.1]; exact b.2.2.2.2.2⟩
  · exact ⟨Nat.lt_of_lt_of_le b.1 e.len, by rw [e.key _ b.1]; exact b.2⟩
  · rw [e.key _ (lt_of_keyOf_fin b)]; exact b
  · rw [e.key _ (lt_of_keyOf_fin b)]; exact b

theorem FPInv.ext {h h' : Heap} {th : Thread} {fp : FP} (e : Ext h h') (b : FPInv h th fp) : FPInv h' th fp :=
  ⟨Nat.lt_of_lt_of_le b.1 e.len, Nat.lt_of_lt_of_le b.2.1 e.len, by rw [e.key _ b.1]; exact b.2.2.1,
   b.2.2.2.1.ext e, b.2.2.2.2⟩

theorem CurrLv.ext {h h' : Heap} {fp : FP} (e : Ext h h') (hc : fp.curr < h.length) (b : CurrLv h fp) :
    CurrLv h' fp := by
  rcases b with b | b
  · exact .inl b
  · exact .inr (by rw [e.dom _ _ hc]; exact b)

theorem TInv.ext {h h' : Heap} {th : Thread} (e : Ext h h') (b : TInv h th) : TInv h' th := by
  obtain ⟨hb, hi, hp⟩ := b
  refine ⟨hb.ext e, hi.ext e, ?_⟩
  cases hpc : th.pc <;> rw [hpc] at hp <;> simp only [PCInv] at * <;> try trivial
  · exact hp.ext e
  · exact ⟨hp.1.ext e, hp.2.ext e hp.1.2.1⟩
  · exact ⟨hp.1.ext e, e.marked _ _ _ hp.2⟩
  · have h0 := hb.2.2.1 0
    have h1 := hb.2.2.2.1 0
    simp only [Thread.pred, Thread.succ]
    rw [e.key _ h0, e.key _ h1]; exact hp
  · exact ⟨Nat.lt_of_lt_of_le hp.1 e.len, by rw [e.key _ hp.1]; exact hp.2.1, hp.2.2.1, hp.2.2.2.1, hp.2.2.2.2.1,
      by rw [e.height _ hp.1]; exact hp.2.2.2.2.2⟩
  · exact ⟨Nat.lt_of_lt_of_le hp.1 e.len, by rw [e.key _ hp.1]; exact hp.2.1, hp.2.2.1,
      Nat.lt_of_lt_of_le hp.2.2.2.1 e.len, hp.2.2.2.2.1, hp.2.2.2.2.2.1,
      by rw [e.height _ hp.1]; exact hp.2.2.2.2.2.2⟩
  · refine ⟨Nat.lt_of_lt_of_le hp.1 e.len, Nat.lt_of_lt_of_le hp.2.1 e.len, ?_⟩
    intro l p m hl hw
    have hs : (word? h _ l).isSome := (e.dom _ l hp.1).mp (by rw [hw]; rfl)
    obtain ⟨⟨p', m'⟩, hw'⟩ := Option.isSome_iff_exists.mp hs
    have hm : m' = true := hp.2.2 l p' m' hl hw'
    subst hm
    have := e.marked _ _ _ hw'
    rw [this] at hw; simp at hw; exact hw.2
  · obtain ⟨k, hk⟩ := hp
    exact ⟨k, by rw [e.key _ (lt_of_keyOf_fin hk)]; exact hk⟩
  · obtain ⟨hw, k, hk⟩ := hp
    exact ⟨e.marked _ _ _ hw, k, by rw [e.key _ (lt_of_keyOf_fin hk)]; exact hk⟩
  · obtain ⟨k, hk⟩ := hp
    exact ⟨k, by rw [e.key _ (lt_of_keyOf_fin hk)]; exact hk⟩

/-! ### what a good segment result is -/

/-- the result of a segment started from heap `h0`: invariant kept, heap evolved legally, own locals fine -/
def Good (h0 : Heap) (r : Res) : Prop :=
  HInv r.1.heap ∧ Ext h0 r.1.heap ∧ TInv r.1.heap r.2.1

/-- the head has every level up to MaxLevel -/
theorem HInv.head_word {h : Heap} (H : HInv h) {l : Nat} (hl : l ≤ Gen.maxLevel) : (word? h 0 l).isSome :=
  H.full 0 l (by have := H.len; omega) (by omega) (by rw [H.headHeight]; exact hl)

/-- what `getNext` returns at a level the head has: a node that has this level, or the tail -/
theorem HInv.getNext_lv {h : Heap} (H : HInv h) (n l : Nat) (hl : l ≤ Gen.maxLevel) :
    (getNext h n l).1 = 1 ∨ (word? h (getNext h n l).1 l).isSome := by
  unfold getNext
  cases hw : word? h n l with
  | none => simp; exact H.head_word hl
  | some w => obtain ⟨p, m⟩ := w; simp; exact H.hl _ _ _ _ hw

theorem startFind_good {h0 : Heap} {sh : Shared} {th : Thread} (item : Nat) (cont : Cont)
    (H : HInv sh.heap) (hlv : sh.level ≤ Gen.maxLevel) (e : Ext h0 sh.heap) (hb : BufOK sh.heap th.preds th.succs)
    (hi : ItersOK sh.heap th.iters) (hc : ContInv sh.heap th item cont) :
    Good h0 (startFind sh th item cont) := by
  refine ⟨H, e, hb, hi, ?_⟩
  simp only [startFind, PCInv, FPInv, headId]
  have := H.len
  refine ⟨by omega, by omega, ?_, hc, hlv⟩
  rw [H.headKey]; exact Key.neg_lt_fin _

theorem insFinished_good {h0 : Heap} {sh : Shared} {th : Thread} (lvl : Nat)
    (H : HInv sh.heap) (e : Ext h0 sh.heap) (hb : BufOK sh.heap th.preds th.succs)
    (hi : ItersOK sh.heap th.iters) : Good h0 (insFinished sh th lvl) :=
  ⟨H, e, hb, hi, trivial⟩

theorem softScan_spec (h : Heap) (n : Nat) : ∀ i j next, softScan h n i = some (j, next) →
    j ≤ i ∧ next = (getNext h n j).1 ∧ ∀ l, j < l → l ≤ i → (getNext h n l).2 = true
  | 0, j, next, hs => by
    simp only [softScan] at hs
    split at hs
    · simp at hs
    · simp at hs; obtain ⟨rfl, rfl⟩ := hs
      exact ⟨Nat.le_refl _, rfl, fun l h1 h2 => by omega⟩
  | i + 1, j, next, hs => by
    simp only [softScan] at hs
    split at hs
    · rename_i hm
      obtain ⟨h1, h2, h3⟩ := softScan_spec h n i j next hs
      refine ⟨by omega, h2, fun l hl1 hl2 => ?_⟩
      by_cases hl : l ≤ i
      · exact h3 l hl1 hl
      · have : l = i + 1 := by omega
        subst this; exact hm
    · simp at hs; obtain ⟨rfl, rfl⟩ := hs
      exact ⟨Nat.le_refl _, rfl, fun l h1 h2 => by omega⟩

theorem enterSoft_good {h0 : Heap} {sh : Shared} {th : Thread} (item n i : Nat) (marked : Bool)
    (H : HInv sh.heap) (e : Ext h0 sh.heap) (hb : BufOK sh.heap th.preds th.succs)
    (hi : ItersOK sh.heap th.iters) (hn : n < sh.heap.length)
    (hup : ∀ l p m, i < l → word? sh.heap n l = some (p, m) → m = true) :
    Good h0 (enterSoft sh th item n i marked) := by
  unfold enterSoft
  split
  · rename_i j next hs
    obtain ⟨h1, h2, h3⟩ := softScan_spec _ _ _ _ _ hs
    refine ⟨H, e, hb, hi, ?_⟩
    simp only [PCInv]
    refine ⟨hn, by rw [h2]; exact H.getNext_lt _ _, fun l p m hl hw => ?_⟩
    by_cases hli : l ≤ i
    · have := word?_of_getNext_marked (h3 l hl hli)
      rw [this] at hw; simp at hw; exact hw.2
    · exact hup l p m (by omega) hw
  · split
    · exact ⟨H, e, hb, hi, trivial⟩
    · exact ⟨H, e, hb, hi, trivial⟩

theorem afterNext_sh (sh : Shared) (th : Thread) (it : Nat) : (afterNext sh th it).1 = sh := by
  unfold afterNext
  simp only []
  split
  · split <;> rfl
  · rfl

/-- the end of Iterator.Next (count, and the start of Refresh up to ITER_REFRESH) -/
theorem afterNext_good {h0 : Heap} {sh : Shared} {th : Thread} (it : Nat)
    (H : HInv sh.heap) (e : Ext h0 sh.heap) (hb : BufOK sh.heap th.preds th.succs)
    (hi : ItersOK sh.heap th.iters) : Good h0 (afterNext sh th it) := by
  have hI := hi.iter H.len it
  unfold afterNext
  simp only []
  split
  · split
    · rename_i k hk
      refine ⟨H, e, hb, hi.setIter _ _ hI, k, ?_⟩
      have h1 : ∀ t' : Thread, t'.iters = SkipConc.setIter th.iters it
          { (th.iter it) with count := (th.iter it).count + 1 } → keyOf sh.heap (t'.iter it).curr = .fin k := by
        intro t' ht'; rw [iter_eq_of_iters ht']; exact hk
      exact h1 _ rfl
    · exact ⟨H, e, hb, hi.setIter _ _ hI, trivial⟩
  · exact ⟨H, e, hb, hi.setIter _ _ hI, trivial⟩

theorem finishFind_good {h0 : Heap} {sh : Shared} {th : Thread} (item : Nat) (found : Bool) (cont : Cont)
    (H : HInv sh.heap) (e : Ext h0 sh.heap) (hb : BufOK sh.heap th.preds th.succs)
    (hi : ItersOK sh.heap th.iters) (hc : ContInv sh.heap th item cont)
    (hk : found = false → Key.lt (keyOf sh.heap (th.pred 0)) (.fin item) ∧
                          Key.lt (.fin item) (keyOf sh.heap (th.succ 0)))
    (hfk : found = true → keyOf sh.heap (th.succ 0) = .fin item) :
    Good h0 (finishFind sh th item found cont) := by
  have hp0 : th.pred 0 < sh.heap.length := hb.2.2.1 0
  have hs0 : th.succ 0 < sh.heap.length := hb.2.2.2.1 0
  cases cont <;> simp only [finishFind]
  · split
    · exact ⟨H, e, hb, hi, trivial⟩
    · rename_i hf
      have := hk (by simpa using hf)
      exact ⟨H, e, hb, hi, this.1, this.2, hc⟩
  · split
    · exact ⟨H, e, hb, hi, trivial⟩
    · rename_i hf
      have := hk (by simpa using hf)
      exact ⟨H, e, hb, hi, this.1, this.2, hc⟩
  · exact ⟨H, e, hb, hi, hc⟩
  · exact ⟨H, e, hb, hi, hc⟩
  · exact insFinished_good _ H e hb hi
  · split
    · refine enterSoft_good _ _ _ _ H e hb hi hs0 ?_
      intro l p m hl hw
      have := H.wordLevel _ _ _ hw
      omega
    · exact ⟨H, e, hb, hi, trivial⟩
  · exact ⟨H, e, hb, hi, trivial⟩
  · exact ⟨H, e, hb, hi, trivial⟩
  · rename_i it
    split
    · rename_i hf
      refine ⟨H, e, hb, hi.moveIter it hp0 hs0, item, ?_⟩
      have hfound : found = true := by
        cases found
        · simp at hf
        · rfl
      have : ({ th.moveIter it (th.pred 0) (th.succ 0) with pc := PC.iterNext it } : Thread).iter it =
          (th.moveIter it (th.pred 0) (th.succ 0)).iter it := rfl
      rw [this, moveIter_iter]
      exact hfk hfound
    · exact afterNext_good (th := th.moveIter it (th.pred 0) (th.succ 0)) it H e hb (hi.moveIter it hp0 hs0)
  · exact ⟨H, e, hb, hi.moveIter _ hp0 hs0, trivial⟩
  · exact ⟨H, e, hb, hi.moveIter _ hp0 hs0, trivial⟩

theorem getD_set_self {l : List Nat} {i v : Nat} (hi : i < l.length) : (l.set i v).getD i 0 = v := by
  simp [List.getD, hi]

theorem getD_set_ne {l : List Nat} {i j v : Nat} (hij : i ≠ j) : (l.set i v).getD j 0 = l.getD j 0 := by
  simp [List.getD, hij]

theorem getD_set_lt {l : List Nat} {i v n : Nat} (hv : v < n) (hl : ∀ j, l.getD j 0 < n) (j : Nat) :
    (l.set i v).getD j 0 < n := by
  have := hl j
  simp only [List.getD, List.getElem?_set] at *
  split
  · split
    · simpa using hv
    · simp; omega
  · exact this

/-- recording `curr` as the successor of level `i` keeps the buffer good -/
theorem BufOK.record {h : Heap} {preds succs : List Nat} (hb : BufOK h preds succs) {i prev curr : Nat}
    (hp : prev < h.length) (hc : curr < h.length) (hlv : curr = 1 ∨ (word? h curr i).isSome) :
    BufOK h (preds.set i prev) (succs.set i curr) := by
  refine ⟨by simpa using hb.1, by simpa using hb.2.1, getD_set_lt hp hb.2.2.1, getD_set_lt hc hb.2.2.2.1, ?_⟩
  intro j hj
  by_cases hij : i = j
  · subst hij
    by_cases hil : i < succs.length
    · rw [getD_set_self hil]; exact hlv
    · rw [List.set_eq_of_length_le (by omega)]; exact hb.2.2.2.2 i hj
  · rw [getD_set_ne hij]; exact hb.2.2.2.2 j hj

theorem afterRead_good {h0 : Heap} {sh : Shared} {th : Thread} (fp : FP) (next : Nat) (deleted : Bool)
    (H : HInv sh.heap) (e : Ext h0 sh.heap) (hb : BufOK sh.heap th.preds th.succs)
    (hi : ItersOK sh.heap th.iters) (hf : FPInv sh.heap th fp) (hcl : CurrLv sh.heap fp)
    (hn : next < sh.heap.length)
    (hnl : next = 1 ∨ (word? sh.heap next fp.i).isSome)
    (hd : deleted = true → word? sh.heap fp.curr fp.i = some (next, true)) :
    Good h0 (afterRead sh th fp next deleted) := by
  unfold afterRead
  obtain ⟨f1, f2, f3, f4, f5⟩ := hf
  split
  · rename_i hdel
    exact ⟨H, e, hb, hi, ⟨f1, f2, f3, f4, f5⟩, hd hdel⟩
  · simp only []
    split
    · rename_i hadv
      refine ⟨H, e, hb, hi, ?_⟩
      simp only [PCInv, FPInv, CurrLv]
      exact ⟨⟨f2, hn, (compare_neg_iff _ _).mp ((findAdvance_iff _).mp hadv), f4, f5⟩, hnl⟩
    · rename_i hadv
      have hb1 : BufOK sh.heap (th.preds.set fp.i fp.prev) (th.succs.set fp.i fp.curr) := hb.record f1 f2 hcl
      split
      · rename_i i hi'
        refine ⟨H, e, hb1, hi, ?_⟩
        simp only [PCInv, FPInv]
        exact ⟨f1, f2, f3, f4, by omega⟩
      · rename_i hi0
        refine finishFind_good _ _ _ H e hb1 hi f4 ?_ ?_
        rotate_left
        · intro hfd
          simp only [Thread.succ]
          rw [hi0, getD_set_self hb.2.1]
          exact (compare_zero_iff _ _).mp ((findFound_iff _).mp hfd)
        intro hnf
        simp only [Thread.pred, Thread.succ]
        rw [hi0, getD_set_self hb.1, getD_set_self hb.2.1]
        refine ⟨f3, (compare_pos_iff _ _).mp ?_⟩
        have h1 : ¬ compare (keyOf sh.heap fp.curr) (.fin fp.item) < 0 := fun c => hadv ((findAdvance_iff _).mpr c)
        have h2 : ¬ compare (keyOf sh.heap fp.curr) (.fin fp.item) = 0 := by
          intro c
          have := (findFound_iff _).mpr c
          rw [this] at hnf; simp at hnf
        omega

/-! ### the segments -/

theorem stepFindLevel_good {sh : Shared} {th : Thread} (fp : FP) (H : HInv sh.heap) (hT : TInv sh.heap th)
    (hpc : th.pc = .findLevel fp) : Good sh.heap (stepFindLevel sh th fp) := by
  obtain ⟨hb, hi, hp⟩ := hT
  rw [hpc] at hp
  obtain ⟨f1, f2, f3, f4, f5⟩ := hp
  refine ⟨H, Ext.refl _, hb, hi, ?_⟩
  simp only [stepFindLevel, PCInv, FPInv, CurrLv]
  exact ⟨⟨f1, H.getNext_lt _ _, f3, f4, f5⟩, H.getNext_lv _ _ f5⟩

theorem stepFindNext_good {sh : Shared} {th : Thread} (fp : FP) (reread : Bool) (H : HInv sh.heap)
    (hT : TInv sh.heap th) (hpc : th.pc = .findNext fp reread) :
    Good sh.heap (stepFindNext sh th fp reread) := by
  obtain ⟨hb, hi, hp⟩ := hT
  rw [hpc] at hp
  obtain ⟨⟨f1, f2, f3, f4, f5⟩, hcl⟩ := hp
  unfold stepFindNext
  generalize hfp1 : (if reread = true then { fp with curr := (getNext sh.heap fp.prev fp.i).1 } else fp) = fp1
  have hF : FPInv sh.heap th fp1 ∧ CurrLv sh.heap fp1 := by
    rw [← hfp1]
    split
    · exact ⟨⟨f1, H.getNext_lt _ _, f3, f4, f5⟩, H.getNext_lv _ _ f5⟩
    · exact ⟨⟨f1, f2, f3, f4, f5⟩, hcl⟩
  simp only []
  refine afterRead_good _ _ _ H (Ext.refl _) hb hi hF.1 hF.2 (H.getNext_lt _ _) (H.getNext_lv _ _ hF.1.2.2.2.2) ?_
  intro hm
  exact word?_of_getNext_marked hm

theorem helpStats_heap (sh : Shared) (h' : Heap) (ok : Bool) (l c : Nat) : (helpStats sh h' ok l c).heap = h' := by
  unfold helpStats; split <;> rfl

theorem helpStats_level (sh : Shared) (h' : Heap) (ok : Bool) (l c : Nat) :
    (helpStats sh h' ok l c).level = sh.level := by
  unfold helpStats; split <;> rfl

/-- the unlink CAS of helpDelete keeps the heap invariant -/
theorem unlink_HInv {h : Heap} (H : HInv h) {prev curr next i : Nat} (hw : word? h curr i = some (next, true)) :
    HInv (dcas h prev i curr next false).1 := by
  by_cases hs : (dcas h prev i curr next false).2 = true
  · rw [dcas_ok_heap _ _ _ _ _ _ hs]
    have hp := (dcas_ok_iff ..).mp hs
    refine H.setUnmarked hp (H.lt_of_word hw) ?_ (H.hl _ _ _ _ hw)
    intro hi0; subst hi0
    exact Key.lt_trans (H.h5 _ _ _ hp) (H.h5 _ _ _ hw)
  · rw [dcas_fail _ _ _ _ _ _ (by simpa using hs)]; exact H

theorem stepHelpDelete_good {sh : Shared} {th : Thread} (fp : FP) (next : Nat) (H : HInv sh.heap)
    (hlv : sh.level ≤ Gen.maxLevel)
    (hT : TInv sh.heap th) (hpc : th.pc = .helpDelete fp next) :
    Good sh.heap (stepHelpDelete sh th fp next) := by
  have hp0 := hT.2.2
  rw [hpc] at hp0
  have e := Ext.dcas sh.heap fp.prev fp.i fp.curr next false
  have H' := unlink_HInv H (prev := fp.prev) hp0.2
  obtain ⟨hb, hi, hp⟩ := hT.ext e
  rw [hpc] at hp
  obtain ⟨⟨f1, f2, f3, f4, f5⟩, hw'⟩ := hp
  unfold stepHelpDelete
  simp only []
  split
  · refine ⟨?_, ?_, ?_, ?_, ?_⟩
    · simpa [helpStats_heap] using H'
    · simpa [helpStats_heap] using e
    · simpa [helpStats_heap] using hb
    · simpa [helpStats_heap] using hi
    · simp only [PCInv, helpStats_heap, CurrLv]
      exact ⟨⟨f1, f2, f3, f4, f5⟩, .inr (by rw [hw']; rfl)⟩
  · refine ⟨?_, ?_, ?_, ?_, ?_⟩
    · simpa [bumpReadConflicts, helpStats_heap] using H'
    · simpa [bumpReadConflicts, helpStats_heap] using e
    · simpa [bumpReadConflicts, helpStats_heap] using hb
    · simpa [bumpReadConflicts, helpStats_heap] using hi
    · simp only [PCInv, FPInv, bumpReadConflicts, helpStats_heap, helpStats_level, headId]
      have := H'.len
      refine ⟨by omega, f2, ?_, f4, hlv⟩
      rw [H'.headKey]; exact Key.neg_lt_fin _

theorem newNode_getElem? (th : Thread) (item lvl l : Nat) {w : Nat × Bool}
    (hw : (newNode th item lvl).next[l]? = some w) : l ≤ lvl ∧ w = (th.succ l, false) := by
  simp only [newNode, List.getElem?_map] at hw
  by_cases hl : l < lvl + 1
  · simp [List.getElem?_range hl] at hw; exact ⟨by omega, hw.symm⟩
  · have : (List.range (lvl + 1))[l]? = none := by simp; omega
    simp [this] at hw

theorem newNode_isSome (th : Thread) (item lvl l : Nat) (hl : l ≤ lvl) : ((newNode th item lvl).next[l]?).isSome := by
  simp only [newNode, List.getElem?_map]
  have : l < lvl + 1 := by omega
  simp [List.getElem?_range this]

/-- the publish CAS (with the materialisation of the node) keeps the heap invariant -/
theorem publish_HInv {h : Heap} (H : HInv h) (th : Thread) (item lvl : Nat)
    (hb : BufOK h th.preds th.succs) (hlvl : lvl ≤ Gen.maxLevel)
    (hk1 : Key.lt (keyOf h (th.pred 0)) (.fin item)) (hk2 : Key.lt (.fin item) (keyOf h (th.succ 0)))
    (hw : word? h (th.pred 0) 0 = some (th.succ 0, false)) :
    HInv (setWord h (th.pred 0) 0 (h.length, false) ++ [newNode th item lvl]) := by
  have hp : th.pred 0 < h.length := hb.2.2.1 0
  rw [setWord_append h _ hp]
  have HA : HInv (h ++ [newNode th item lvl]) := by
    refine H.append _ item rfl ?_ ?_ ?_ (by simp [newNode]) ?_ ?_
    · intro l w hw'; exact (newNode_getElem? _ _ _ _ hw').1
    · intro l p m hw'
      have := (newNode_getElem? _ _ _ _ hw').2
      simp at this
      exact ⟨by rw [this.1]; exact hb.2.2.2.1 l, this.2⟩
    · intro p m hw'
      have := (newNode_getElem? _ _ _ _ hw').2
      simp at this
      rw [this.1]; exact hk2
    · intro l hl; exact newNode_isSome _ _ _ _ hl
    · intro l p m hw'
      have h1 := newNode_getElem? _ _ _ _ hw'
      have := h1.2
      simp at this
      rw [this.1]; exact hb.2.2.2.2 l (by omega)
  refine HA.setUnmarked (e := th.succ 0) ?_ (by simp) ?_ ?_
  · rw [word?_append_lt h _ hp]; exact hw
  · intro _
    rw [keyOf_append_lt h _ hp, keyOf_append_new]
    exact hk1
  · exact .inr (by rw [word?_append_new]; simp [newNode])

theorem stepInsPublish_good {sh : Shared} {th : Thread} (item lvl : Nat) (H : HInv sh.heap)
    (hlv : sh.level ≤ Gen.maxLevel)
    (hT : TInv sh.heap th) (hpc : th.pc = .insPublish item lvl) :
    Good sh.heap (stepInsPublish sh th item lvl) := by
  obtain ⟨hb, hi, hp⟩ := hT
  rw [hpc] at hp
  obtain ⟨hk1, hk2, hlvl⟩ := hp
  unfold stepInsPublish
  simp only []
  split
  · rename_i hs
    have hw := (dcas_ok_iff ..).mp hs
    rw [dcas_ok_heap _ _ _ _ _ _ hs]
    have H' := publish_HInv H th item lvl hb hlvl hk1 hk2 hw
    have e : Ext sh.heap (setWord sh.heap (th.pred 0) 0 (sh.heap.length, false) ++ [newNode th item lvl]) :=
      (Ext.setWord hw _).trans (Ext.append _ _)
    have hx : sh.heap.length <
        (setWord sh.heap (th.pred 0) 0 (sh.heap.length, false) ++ [newNode th item lvl]).length := by
      simp [length_setWord]
    have hkx : keyOf (setWord sh.heap (th.pred 0) 0 (sh.heap.length, false) ++ [newNode th item lvl])
        sh.heap.length = .fin item := by
      have := keyOf_append_new (setWord sh.heap (th.pred 0) 0 (sh.heap.length, false)) (newNode th item lvl)
      rw [length_setWord] at this
      rw [this]; rfl
    have hhx : heightOf (setWord sh.heap (th.pred 0) 0 (sh.heap.length, false) ++ [newNode th item lvl])
        sh.heap.length = lvl := by
      have := heightOf_append_new (setWord sh.heap (th.pred 0) 0 (sh.heap.length, false)) (newNode th item lvl)
      rw [length_setWord] at this
      rw [this]; rfl
    split
    · rename_i h1l
      exact ⟨H', e, hb.ext e, hi.ext e, hx, hkx, Nat.le_refl _, h1l, hlvl, hhx⟩
    · exact insFinished_good _ H' e (hb.ext e) (hi.ext e)
  · exact startFind_good _ _ H hlv (Ext.refl _) hb hi hlvl

theorem insCheckSucc_good {h0 : Heap} {sh : Shared} {th : Thread} (item x lvl i next : Nat)
    (H : HInv sh.heap) (hlv : sh.level ≤ Gen.maxLevel) (e : Ext h0 sh.heap)
    (hb : BufOK sh.heap th.preds th.succs)
    (hi : ItersOK sh.heap th.iters) (hx : x < sh.heap.length) (hkx : keyOf sh.heap x = .fin item) (h1 : 1 ≤ i)
    (hil : i ≤ lvl) (hlvl : lvl ≤ Gen.maxLevel) (hhx : heightOf sh.heap x = lvl)
    (hn : next < sh.heap.length) : Good h0 (insCheckSucc sh th item x lvl i next) := by
  unfold insCheckSucc
  split
  · exact startFind_good _ _ H hlv e hb hi ⟨hx, hkx, h1, hil, hlvl, hhx⟩
  · exact ⟨H, e, hb, hi, hx, hkx, h1, hn, hil, hlvl, hhx⟩

theorem stepInsUpRead_good {sh : Shared} {th : Thread} (item x lvl i : Nat) (H : HInv sh.heap)
    (hlv : sh.level ≤ Gen.maxLevel)
    (hT : TInv sh.heap th) (hpc : th.pc = .insUpRead item x lvl i) :
    Good sh.heap (stepInsUpRead sh th item x lvl i) := by
  obtain ⟨hb, hi, hp⟩ := hT
  rw [hpc] at hp
  obtain ⟨hx, hkx, h1, hil, hlvl, hhx⟩ := hp
  have hs : th.succ i < sh.heap.length := hb.2.2.2.1 i
  have hsl : th.succ i = 1 ∨ (word? sh.heap (th.succ i) i).isSome := hb.2.2.2.2 i (by omega)
  unfold stepInsUpRead
  simp only []
  split
  · exact insFinished_good _ H (Ext.refl _) hb hi
  · split
    · have e := Ext.dcas sh.heap x i (getNext sh.heap x i).1 (th.succ i) false
      have H' : HInv (dcas sh.heap x i (getNext sh.heap x i).1 (th.succ i) false).1 := by
        by_cases hs' : (dcas sh.heap x i (getNext sh.heap x i).1 (th.succ i) false).2 = true
        · rw [dcas_ok_heap _ _ _ _ _ _ hs']
          exact H.setUnmarked ((dcas_ok_iff ..).mp hs') hs (by omega) hsl
        · rw [dcas_fail _ _ _ _ _ _ (by simpa using hs')]; exact H
      split
      · exact insCheckSucc_good (sh := { sh with heap := _ }) _ _ _ _ _ H' hlv e (hb.ext e) (hi.ext e)
          (Nat.lt_of_lt_of_le hx e.len) (by rw [e.key _ hx]; exact hkx) h1 hil hlvl
          (by rw [e.height _ hx]; exact hhx) (Nat.lt_of_lt_of_le hs e.len)
      · exact insFinished_good _ H' e (hb.ext e) (hi.ext e)
    · exact insCheckSucc_good _ _ _ _ _ H hlv (Ext.refl _) hb hi hx hkx h1 hil hlvl hhx hs

theorem stepInsUpLink_good {sh : Shared} {th : Thread} (item x lvl i next : Nat) (H : HInv sh.heap)
    (hlv : sh.level ≤ Gen.maxLevel)
    (hT : TInv sh.heap th) (hpc : th.pc = .insUpLink item x lvl i next) :
    Good sh.heap (stepInsUpLink sh th item x lvl i next) := by
  obtain ⟨hb, hi, hp⟩ := hT
  rw [hpc] at hp
  obtain ⟨hx, hkx, h1, hn, hil, hlvl, hhx⟩ := hp
  have hx1 : x ≠ 1 := by
    intro e; rw [e, H.tailKey] at hkx; simp at hkx
  have hxl : (word? sh.heap x i).isSome := H.full x i hx hx1 (by rw [hhx]; exact hil)
  have e := Ext.dcas sh.heap (th.pred i) i next x false
  have H' : HInv (dcas sh.heap (th.pred i) i next x false).1 := by
    by_cases hs' : (dcas sh.heap (th.pred i) i next x false).2 = true
    · rw [dcas_ok_heap _ _ _ _ _ _ hs']
      exact H.setUnmarked ((dcas_ok_iff ..).mp hs') hx (by omega) (.inr hxl)
    · rw [dcas_fail _ _ _ _ _ _ (by simpa using hs')]; exact H
  have hx' := Nat.lt_of_lt_of_le hx e.len
  have hkx' : keyOf (dcas sh.heap (th.pred i) i next x false).1 x = .fin item := by rw [e.key _ hx]; exact hkx
  have hhx' : heightOf (dcas sh.heap (th.pred i) i next x false).1 x = lvl := by rw [e.height _ hx]; exact hhx
  unfold stepInsUpLink
  simp only []
  split
  · split
    · exact startFind_good (sh := { sh with heap := _ }) _ _ H' hlv e (hb.ext e) (hi.ext e) ⟨hx', hkx'⟩
    · split
      · rename_i hil1
        exact ⟨H', e, hb.ext e, hi.ext e, hx', hkx', by omega, hil1, hlvl, hhx'⟩
      · exact insFinished_good _ H' e (hb.ext e) (hi.ext e)
  · exact startFind_good (sh := { sh with heap := _ }) _ _ H' hlv e (hb.ext e) (hi.ext e)
      ⟨hx', hkx', h1, hil, hlvl, hhx'⟩

theorem stepSoftMark_good {sh : Shared} {th : Thread} (item n i next : Nat) (marked : Bool) (H : HInv sh.heap)
    (hT : TInv sh.heap th) (hpc : th.pc = .softMark item n i next marked) :
    Good sh.heap (stepSoftMark sh th item n i next marked) := by
  have hp0 := hT.2.2
  rw [hpc] at hp0
  have e := Ext.dcas sh.heap n i next next true
  have H' : HInv (dcas sh.heap n i next next true).1 := by
    by_cases hs' : (dcas sh.heap n i next next true).2 = true
    · rw [dcas_ok_heap _ _ _ _ _ _ hs']
      exact H.setMark ((dcas_ok_iff ..).mp hs') hp0.2.2
    · rw [dcas_fail _ _ _ _ _ _ (by simpa using hs')]; exact H
  obtain ⟨hb, hi, hp⟩ := hT.ext e
  rw [hpc] at hp
  unfold stepSoftMark
  simp only []
  refine enterSoft_good _ _ _ _ ?_ ?_ ?_ ?_ ?_ ?_
  · split <;> exact H'
  · split <;> exact e
  · split <;> exact hb
  · split <;> exact hi
  · split <;> exact hp.1
  · split <;> exact hp.2.2

theorem stepNewLevel_good {sh : Shared} {th : Thread} (item req level : Nat) (H : HInv sh.heap)
    (hlv : sh.level ≤ Gen.maxLevel)
    (hT : TInv sh.heap th) (hpc : th.pc = .newLevel item req level) :
    Good sh.heap (stepNewLevel sh th item req level) := by
  obtain ⟨hb, hi, hp⟩ := hT
  rw [hpc] at hp
  obtain ⟨h1, h2⟩ := hp
  unfold stepNewLevel
  split
  · exact startFind_good (sh := { sh with level := level + 1 }) _ _ H (by simp only []; omega) (Ext.refl _) hb hi
      (by simp only [ContInv]; omega)
  · exact startFind_good _ _ H hlv (Ext.refl _) hb hi (by simp only [ContInv]; omega)

theorem stepIterNext_good {sh : Shared} {th : Thread} (it : Nat) (H : HInv sh.heap)
    (hT : TInv sh.heap th) (hpc : th.pc = .iterNext it) : Good sh.heap (stepIterNext sh th it) := by
  obtain ⟨hb, hi, hp⟩ := hT
  rw [hpc] at hp
  have hI := hi.iter H.len it
  unfold stepIterNext
  simp only []
  split
  · rename_i hm
    exact ⟨H, Ext.refl _, hb, hi, word?_of_getNext_marked hm, hp⟩
  · exact afterNext_good (th := th.moveIter it _ _) it H (Ext.refl _) hb (hi.moveIter it hI.2 (H.getNext_lt _ _))

theorem stepIterHelp_good {sh : Shared} {th : Thread} (it next : Nat) (H : HInv sh.heap)
    (hlv : sh.level ≤ Gen.maxLevel)
    (hT : TInv sh.heap th) (hpc : th.pc = .iterHelp it next) :
    Good sh.heap (stepIterHelp sh th it next) := by
  have hp0' := hT.2.2
  rw [hpc] at hp0'
  simp only [PCInv] at hp0'
  have hp0 := hp0'.1
  have e := Ext.dcas sh.heap (th.iter it).prev 0 (th.iter it).curr next false
  have H' := unlink_HInv H (prev := (th.iter it).prev) hp0
  obtain ⟨hb, hi, hp1⟩ := hT.ext e
  rw [hpc] at hp1
  obtain ⟨_, k, hk⟩ := hp1
  have hI := hi.iter H'.len it
  have hn : next < (dcas sh.heap (th.iter it).prev 0 (th.iter it).curr next false).1.length :=
    Nat.lt_of_lt_of_le (H.lt_of_word hp0) e.len
  unfold stepIterHelp
  simp only []
  split
  · refine afterNext_good (th := th.moveIter it _ _) it ?_ ?_ ?_ ?_
    · simpa [helpStats_heap] using H'
    · simpa [helpStats_heap] using e
    · simpa [helpStats_heap, Thread.moveIter, Thread.setIter] using hb
    · simp only [helpStats_heap]
      exact hi.moveIter it hI.1 hn
  · refine startFind_good _ _ ?_ ?_ ?_ ?_ ?_ ?_
    rotate_right
    · simp only [ContInv, bumpReadConflicts, helpStats_heap]
      rw [hk]; rfl
    · simpa [bumpReadConflicts, helpStats_heap] using H'
    · simpa [bumpReadConflicts, helpStats_level] using hlv
    · simpa [bumpReadConflicts, helpStats_heap] using e
    · simpa [bumpReadConflicts, helpStats_heap] using hb
    · simpa [bumpReadConflicts, helpStats_heap] using hi

theorem stepIterRefresh_good {sh : Shared} {th : Thread} (it : Nat) (H : HInv sh.heap)
    (hlv : sh.level ≤ Gen.maxLevel)
    (hT : TInv sh.heap th) (hpc : th.pc = .iterRefresh it) : Good sh.heap (stepIterRefresh sh th it) := by
  obtain ⟨hb, hi, hp⟩ := hT
  rw [hpc] at hp
  obtain ⟨k, hk⟩ := hp
  unfold stepIterRefresh
  refine startFind_good _ _ H hlv (Ext.refl _) hb hi ?_
  simp only [ContInv]
  rw [hk]; rfl

/-- MAIN: every segment of every thread keeps the heap invariant, evolves the heap legally (H3: a marked word
    never changes; marks are permanent; keys and heights are immutable) and re-establishes its own locals. -/
theorem stepThread_good {sh : Shared} {th : Thread} (H : HInv sh.heap) (hlv : sh.level ≤ Gen.maxLevel)
    (hT : TInv sh.heap th) : Good sh.heap (stepThread sh th) := by
  unfold stepThread
  split
  · exact ⟨H, Ext.refl _, hT⟩
  · rename_i hpc; exact stepNewLevel_good _ _ _ H hlv hT hpc
  · rename_i hpc; exact stepFindLevel_good _ H hT hpc
  · rename_i hpc; exact stepFindNext_good _ _ H hT hpc
  · rename_i hpc; exact stepHelpDelete_good _ _ H hlv hT hpc
  · rename_i hpc; exact stepInsPublish_good _ _ H hlv hT hpc
  · rename_i hpc; exact stepInsUpRead_good _ _ _ _ H hlv hT hpc
  · rename_i hpc; exact stepInsUpLink_good _ _ _ _ _ H hlv hT hpc
  · rename_i hpc; exact stepSoftMark_good _ _ _ _ _ H hT hpc
  · exact startFind_good _ _ H hlv (Ext.refl _) hT.1 hT.2.1 trivial
  · rename_i hpc; exact stepIterNext_good _ H hT hpc
  · rename_i hpc; exact stepIterHelp_good _ _ H hlv hT hpc
  · rename_i hpc; exact stepIterRefresh_good _ H hlv hT hpc

/-! ### the list level stays within MaxLevel -/

theorem startFind_level (sh : Shared) (th : Thread) (item : Nat) (c : Cont) :
    (startFind sh th item c).1.level = sh.level := rfl

theorem enterSoft_level (sh : Shared) (th : Thread) (item n i : Nat) (m : Bool) :
    (enterSoft sh th item n i m).1.level = sh.level := by
  unfold enterSoft
  split
  · rfl
  · split <;> rfl

theorem finishFind_level (sh : Shared) (th : Thread) (item : Nat) (found : Bool) (c : Cont) :
    (finishFind sh th item found c).1.level = sh.level := by
  cases c <;> simp only [finishFind]
  · split <;> rfl
  · split <;> rfl
  · rfl
  · split
    · rw [enterSoft_level]
    · rfl
  · split
    · rfl
    · rw [afterNext_sh]

theorem afterRead_level (sh : Shared) (th : Thread) (fp : FP) (next : Nat) (d : Bool) :
    (afterRead sh th fp next d).1.level = sh.level := by
  unfold afterRead
  split
  · rfl
  · simp only []
    split
    · rfl
    · split
      · rfl
      · exact finishFind_level ..

theorem insCheckSucc_level (sh : Shared) (th : Thread) (item x lvl i next : Nat) :
    (insCheckSucc sh th item x lvl i next).1.level = sh.level := by
  unfold insCheckSucc; split <;> rfl

/-- `s.level` never exceeds MaxLevel (NewLevel bumps it only below the clamped request) -/
theorem stepThread_level {sh : Shared} {th : Thread} (hlv : sh.level ≤ Gen.maxLevel) (hT : TInv sh.heap th) :
    (stepThread sh th).1.level ≤ Gen.maxLevel ∧ sh.level ≤ (stepThread sh th).1.level := by
  have hp := hT.2.2
  unfold stepThread
  split
  · exact ⟨hlv, Nat.le_refl _⟩
  · rename_i item req level hpc
    rw [hpc] at hp
    unfold stepNewLevel
    split
    · rename_i heq
      simp only [startFind_level]
      exact ⟨by have := hp.1; have := hp.2; omega, by omega⟩
    · exact ⟨hlv, Nat.le_refl _⟩
  · exact ⟨hlv, Nat.le_refl _⟩
  · unfold stepFindNext; rw [afterRead_level]; exact ⟨hlv, Nat.le_refl _⟩
  · unfold stepHelpDelete; simp only []
    split
    · simp only [helpStats_level]; exact ⟨hlv, Nat.le_refl _⟩
    · simp only [bumpReadConflicts, helpStats_level]; exact ⟨hlv, Nat.le_refl _⟩
  · unfold stepInsPublish; simp only []
    split
    · split
      · exact ⟨hlv, Nat.le_refl _⟩
      · exact ⟨hlv, Nat.le_refl _⟩
    · exact ⟨hlv, Nat.le_refl _⟩
  · unfold stepInsUpRead; simp only []
    split
    · exact ⟨hlv, Nat.le_refl _⟩
    · split
      · split
        · rw [insCheckSucc_level]; exact ⟨hlv, Nat.le_refl _⟩
        · exact ⟨hlv, Nat.le_refl _⟩
      · rw [insCheckSucc_level]; exact ⟨hlv, Nat.le_refl _⟩
  · unfold stepInsUpLink; simp only []
    split
    · split
      · exact ⟨hlv, Nat.le_refl _⟩
      · split
        · exact ⟨hlv, Nat.le_refl _⟩
        · exact ⟨hlv, Nat.le_refl _⟩
    · exact ⟨hlv, Nat.le_refl _⟩
  · unfold stepSoftMark; simp only []
    rw [enterSoft_level]
    split <;> exact ⟨hlv, Nat.le_refl _⟩
  · exact ⟨hlv, Nat.le_refl _⟩
  · unfold stepIterNext; simp only []
    split
    · exact ⟨hlv, Nat.le_refl _⟩
    · rw [afterNext_sh]; exact ⟨hlv, Nat.le_refl _⟩
  · unfold stepIterHelp; simp only []
    split
    · rw [afterNext_sh]; simp only [helpStats_level]; exact ⟨hlv, Nat.le_refl _⟩
    · simp only [startFind_level, bumpReadConflicts, helpStats_level]; exact ⟨hlv, Nat.le_refl _⟩
  · exact ⟨hlv, Nat.le_refl _⟩

end NitroVerif.SkipConc
