/-
  The invariant is preserved by the steps that touch the allocator's books: the free jobs,
  `start t put k v` (item allocation) and the PUT_INSERT step (node allocation; rejected Puts free both).
-/
import NitroVerif.Lemmas.MvccConcStepJ

namespace NitroVerif.MvccConc
open NitroVerif
open NitroVerif.Mvcc (isAlive Sorted Chains)

theorem blocksOf_nodup : ∀ (l : List Nat), l.Nodup → (blocksOf l).Nodup
  | [], _ => by simp [blocksOf]
  | m :: r, hn => by
    have hn' := List.nodup_cons.mp hn
    have ih := blocksOf_nodup r hn'.2
    have hnot : ∀ b, (b = Blk.item m ∨ b = Blk.node m) → b ∉ blocksOf r := by
      intro b hb hm
      obtain ⟨k, hk, hbk⟩ := mem_blocksOf.mp hm
      rcases hb with rfl | rfl <;> rcases hbk with h | h <;> simp at h <;> exact hn'.1 (h ▸ hk)
    show (([Blk.item m, Blk.node m] ++ blocksOf r)).Nodup
    rw [List.nodup_append]
    refine ⟨by simp, ih, ?_⟩
    intro a ha b hb
    simp at ha
    intro he; subst he
    exact hnot a ha hb

theorem frOwned_nodup_of_le {frJobs : List FrJob} {j : Nat} {job : FrJob} (hj : frJobs[j]? = some job)
    (hpc : job.pc = .recv) (hle : ∀ n, (frOwned frJobs).count n ≤ 1) : job.list.Nodup := by
  rw [List.nodup_iff_count]
  intro n
  have := count_flatMap_ge frOwn n (List.mem_of_getElem? hj)
  have h1 := hle n
  unfold frOwned at h1
  have h2 : frOwn job = job.list := by simp [frOwn, hpc]
  rw [h2] at this; omega

theorem inv_stepFr {σ : State} {j : Nat} (h : Inv σ) : Inv (stepFr σ j).1 := by
  unfold stepFr
  cases hj : σ.frJobs[j]? with
  | none => exact h
  | some job =>
    simp only
    split
    · -- FREE_RECV
      rename_i hpc
      have hfrown : frOwn job = job.list := by simp [frOwn, hpc]
      have hfrown' : frOwn ({ job with pc := .done } : FrJob) = [] := by simp [frOwn]
      have hown := h.own
      have hcnt : ∀ m, ownC σ.store σ.threads σ.gcJobs σ.sess σ.freeSeq (σ.frJobs.set j { job with pc := .done }) m +
          job.list.count m = ownC σ.store σ.threads σ.gcJobs σ.sess σ.freeSeq σ.frJobs m := by
        intro m
        unfold ownC sessfr
        have := frOwned_set hj { job with pc := .done } m
        rw [hfrown, hfrown'] at this
        simp only [List.count_nil] at this
        omega
      have hge : ∀ m, job.list.count m ≤ (frOwned σ.frJobs).count m := by
        intro m
        have := count_flatMap_ge frOwn m (List.mem_of_getElem? hj)
        rw [hfrown] at this; exact this
      have hnd : job.list.Nodup := by
        rw [List.nodup_iff_count]
        intro m
        have h1 := hown.le m
        have h2 := hge m
        unfold ownC sessfr at h1; omega
      have hpos : ∀ m ∈ job.list, 0 < ownC σ.store σ.threads σ.gcJobs σ.sess σ.freeSeq σ.frJobs m := by
        intro m hm
        have h1 := hge m
        have h2 : 0 < job.list.count m := List.count_pos_iff.mpr hm
        unfold ownC sessfr; omega
      have hblocks : ∀ m ∈ job.list, Blk.item m ∈ σ.allocd ∧ Blk.node m ∈ σ.allocd ∧
          Blk.item m ∉ σ.freed ∧ Blk.node m ∉ σ.freed := by
        intro m hm
        have hp := hpos m hm
        have hlt := hown.lt m hp
        refine ⟨(hown.a_item m).mpr hlt, (hown.a_node m).mpr ⟨hlt, ?_⟩, ?_, ?_⟩
        · intro hr
          have h1 := reserved_count hr
          have h2 := hown.le m
          have h3 : 0 < (frOwned σ.frJobs).count m := by
            have := hge m
            have : 0 < job.list.count m := List.count_pos_iff.mpr hm
            omega
          unfold ownC sessfr at h2; omega
        · intro hf; have := ((hown.f_item m).mp hf).2; omega
        · intro hf; have := ((hown.f_node m).mp hf).2; omega
      obtain ⟨hfreed, hbad⟩ := freeNodes_spec job.list σ hnd hblocks
      refine Inv.mk' (store := σ.store) (unl := σ.unlinked) (cur := σ.currSn) (items := σ.itemsCount)
        (writers := σ.writers) (snaps := σ.snaps) (threads := σ.threads) (nextId := σ.nextId) (gcFlag := σ.gcFlag)
        (gcJobs := σ.gcJobs) (sess := σ.sess) (fs := σ.freeSeq)
        (frJobs := σ.frJobs.set j { job with pc := .done }) (iters := σ.iters) (allocd := σ.allocd)
        (freed := σ.freed ++ blocksOf job.list) (bad := σ.bad)
        (by simp) (by simp) (by simp) (by simp) (by simp) (by simp) (by simp) (by simp) (by simp)
        (by simp) (by simp) (by simp) (by simp) (by simp) (by simp) (by simp; exact hfreed)
        (by simp; exact hbad) h.store h.pc h.garb ?_ h.tok h.prot
      have hmemL : ∀ m, m ∈ job.list ↔ 0 < job.list.count m := fun m => List.count_pos_iff.symm
      have hfree_iff : ∀ m, (m < σ.nextId ∧
            ownC σ.store σ.threads σ.gcJobs σ.sess σ.freeSeq (σ.frJobs.set j { job with pc := .done }) m = 0) ↔
          ((m < σ.nextId ∧ ownC σ.store σ.threads σ.gcJobs σ.sess σ.freeSeq σ.frJobs m = 0) ∨ m ∈ job.list) := by
        intro m
        have h1 := hcnt m
        have h2 := hown.le m
        constructor
        · rintro ⟨hlt, h0⟩
          by_cases hm : m ∈ job.list
          · exact Or.inr hm
          · have : job.list.count m = 0 := List.count_eq_zero.mpr hm
            exact Or.inl ⟨hlt, by omega⟩
        · rintro (⟨hlt, h0⟩ | hm)
          · exact ⟨hlt, by omega⟩
          · have := (hmemL m).mp hm
            exact ⟨hown.lt m (hpos m hm), by omega⟩
      refine ⟨fun m => by have := hcnt m; have := hown.le m; omega,
        fun m hm => hown.lt m (by have := hcnt m; omega), hown.a_item, hown.a_node, ?_, ?_, ?_, hown.a_nodup, ?_,
        hown.bad⟩
      · intro m
        rw [hfree_iff, List.mem_append, hown.f_item, mem_blocksOf]
        constructor
        · rintro (h1 | ⟨k, hk, hb⟩)
          · exact Or.inl h1
          · rcases hb with hb | hb <;> simp at hb
            subst hb; exact Or.inr hk
        · rintro (h1 | h1)
          · exact Or.inl h1
          · exact Or.inr ⟨m, h1, Or.inl rfl⟩
      · intro m
        rw [hfree_iff, List.mem_append, hown.f_node, mem_blocksOf]
        constructor
        · rintro (h1 | ⟨k, hk, hb⟩)
          · exact Or.inl h1
          · rcases hb with hb | hb <;> simp at hb
            subst hb; exact Or.inr hk
        · rintro (h1 | h1)
          · exact Or.inl h1
          · exact Or.inr ⟨m, h1, Or.inr rfl⟩
      · refine ⟨hown.sent.1, hown.sent.2.1, ?_, ?_⟩
        · intro hm
          rcases List.mem_append.mp hm with hm | hm
          · exact hown.sent.2.2.1 hm
          · obtain ⟨k, _, hb⟩ := mem_blocksOf.mp hm
            rcases hb with hb | hb <;> simp at hb
        · intro hm
          rcases List.mem_append.mp hm with hm | hm
          · exact hown.sent.2.2.2 hm
          · obtain ⟨k, _, hb⟩ := mem_blocksOf.mp hm
            rcases hb with hb | hb <;> simp at hb
      · rw [List.nodup_append]
        refine ⟨hown.f_nodup, blocksOf_nodup _ hnd, ?_⟩
        intro a ha b hb he
        subst he
        obtain ⟨k, hk, hbk⟩ := mem_blocksOf.mp hb
        have := hblocks k hk
        rcases hbk with rfl | rfl
        · exact this.2.2.1 ha
        · exact this.2.2.2 ha
    · -- FREE_DONE
      rename_i hpc
      refine ⟨h.store, h.pc, h.garb, ?_, h.tok, h.prot⟩
      refine h.own.congr ?_ (fun _ => Iff.rfl)
      intro m
      show ownC σ.store σ.threads σ.gcJobs σ.sess σ.freeSeq (σ.frJobs.set j { job with pc := .finished }) m = _
      unfold ownC sessfr
      have := frOwned_set hj { job with pc := .finished } m
      have h1 : frOwn job = [] := by simp [frOwn, hpc]
      have h2 : frOwn ({ job with pc := .finished } : FrJob) = [] := by simp [frOwn]
      rw [h1, h2] at this
      omega
    · exact h

end NitroVerif.MvccConc
