import NitroVerif.Gen.Guards
/-!
  Characterisation of the generated codec guards (item.go / file.go).  Every proof about the codec
  model goes through these named lemmas (never through unfolding `Gen.*`), so a change of the Go
  constant or condition breaks the lemma with that name.
-/
namespace NitroVerif.Codec.GenLemmas
open NitroVerif

/-- item.go EncodeItem: the writer frames with a 4-byte length -/
theorem encodeLenWidth_eq : Gen.encodeLenWidth = 4 := rfl
/-- item.go DecodeItem, `ver == 0`: 2-byte length -/
theorem decodeLenWidthV0_eq : Gen.decodeLenWidthV0 = 2 := rfl
/-- item.go DecodeItem, `ver != 0`: 4-byte length -/
theorem decodeLenWidthV1_eq : Gen.decodeLenWidthV1 = 4 := rfl
/-- the v1 reader reads the width the writer writes -/
theorem decodeLenWidthV1_eq_encode : Gen.decodeLenWidthV1 = Gen.encodeLenWidth := rfl
/-- item.go DecodeItem: `l > 0` — an item follows iff the length is positive -/
theorem decodeHasItem_iff (l : Nat) : Gen.decodeHasItem l = true ↔ 0 < l := by
  simp [Gen.decodeHasItem]
theorem decodeHasItem_zero : Gen.decodeHasItem 0 = false := by
  simp [Gen.decodeHasItem]
theorem decodeHasItem_false_iff (l : Nat) : Gen.decodeHasItem l = false ↔ l = 0 := by
  simp [Gen.decodeHasItem]
/-- item.go KVToBytes/KVFromBytes/CompareKV: 2-byte key length -/
theorem kvLenWidth_eq : Gen.kvLenWidth = 2 := rfl

/-- item.go EncodeItem: `binary.BigEndian.PutUint32` -/
theorem encodeBigEndian_eq : Gen.encodeBigEndian = true := rfl
/-- item.go DecodeItem: `binary.BigEndian.Uint16/Uint32` -/
theorem decodeBigEndian_eq : Gen.decodeBigEndian = true := rfl
/-- the reader reads lengths in the byte order the writer writes them -/
theorem decodeBigEndian_eq_encode : Gen.decodeBigEndian = Gen.encodeBigEndian := rfl
/-- item.go KVToBytes/KVFromBytes/CompareKV: `binary.LittleEndian` -/
theorem kvLittleEndian_eq : Gen.kvLittleEndian = true := rfl
/-- file.go (*rawFileWriter).Close: the terminator is written through WriteItem, then the buffer
    is flushed, then the file is closed (the second Close is the error path of Flush) -/
theorem skeleton_rawFileWriterClose_ok :
    Gen.skeleton_rawFileWriterClose = ["f.WriteItem", "f.w.Flush", "f.fd.Close", "f.fd.Close"] := rfl

end NitroVerif.Codec.GenLemmas
