/-
  Every operation of the sequential engine preserves the invariant; hence it holds in every
  reachable state.
-/
import NitroVerif.Lemmas.MvccInvGC

namespace NitroVerif.Mvcc
open NitroVerif SetSpec

/-! ### association lists -/

theorem alookup_mem {α : Type} {n : Nat} {a : α} : ∀ {l : List (Nat × α)}, alookup n l = some a → (n, a) ∈ l
  | [], h => by simp [alookup] at h
  | (m, b) :: r, h => by
    unfold alookup at h
    split at h
    · rename_i hm; simp at h; subst hm; subst h; simp
    · exact List.mem_cons_of_mem _ (alookup_mem h)

theorem mem_aerase {α : Type} {n : Nat} {l : List (Nat × α)} {p : Nat × α} :
    p ∈ aerase n l ↔ p ∈ l ∧ p.1 ≠ n := by
  unfold aerase; simp [List.mem_filter]

theorem mem_aset {α : Type} {n : Nat} {a : α} {p : Nat × α} : ∀ {l : List (Nat × α)},
    p ∈ aset n a l → p = (n, a) ∨ p ∈ l
  | [], h => by simp [aset] at h; exact Or.inl h
  | (m, b) :: r, h => by
    unfold aset at h
    split at h
    · rcases List.mem_cons.mp h with h1 | h1
      · exact Or.inl h1
      · exact Or.inr (List.mem_cons_of_mem _ h1)
    · rcases List.mem_cons.mp h with h1 | h1
      · exact Or.inr (by rw [h1]; simp)
      · rcases mem_aset h1 with h2 | h2
        · exact Or.inl h2
        · exact Or.inr (List.mem_cons_of_mem _ h2)

theorem itersOn_nonneg (n : Nat) (l : List (Nat × Iter)) : 0 ≤ itersOn n l := by
  unfold itersOn; omega

theorem itersOn_cons (n : Nat) (p : Nat × Iter) (l : List (Nat × Iter)) :
    itersOn n (p :: l) = (if p.2.sn = n then 1 else 0) + itersOn n l := by
  unfold itersOn
  by_cases h : p.2.sn = n
  · simp [h]; omega
  · simp [h]

theorem itersOn_aerase_le (n i : Nat) : ∀ (l : List (Nat × Iter)), itersOn n (aerase i l) ≤ itersOn n l
  | [] => by simp [aerase]
  | p :: r => by
    have ih := itersOn_aerase_le n i r
    unfold aerase at ih ⊢
    rw [List.filter_cons]
    split
    · rw [itersOn_cons, itersOn_cons]; omega
    · rw [itersOn_cons]; split <;> omega

/-- erasing a name under which an iterator on `n` is registered frees at least one reference -/
theorem itersOn_aerase_lt {n i : Nat} {it : Iter} : ∀ {l : List (Nat × Iter)}, (i, it) ∈ l → it.sn = n →
    itersOn n (aerase i l) + 1 ≤ itersOn n l
  | [], h, _ => by simp at h
  | p :: r, h, hn => by
    unfold aerase
    rw [List.filter_cons]
    rcases List.mem_cons.mp h with h1 | h1
    · subst h1
      simp only [bne_self_eq_false, Bool.false_eq_true, if_false]
      rw [itersOn_cons]
      have := itersOn_aerase_le n i r
      unfold aerase at this
      simp [hn]; omega
    · have ih := itersOn_aerase_lt h1 hn
      unfold aerase at ih
      split
      · rw [itersOn_cons, itersOn_cons]; omega
      · rw [itersOn_cons]; split <;> omega

theorem aset_of_lookup_none {α : Type} {i : Nat} {a : α} : ∀ {l : List (Nat × α)}, alookup i l = none →
    aset i a l = l ++ [(i, a)]
  | [], _ => rfl
  | (m, b) :: r, h => by
    unfold alookup at h
    by_cases hm : m = i
    · simp [hm] at h
    · simp only [hm, if_false] at h
      simp [aset, hm, aset_of_lookup_none h]

theorem itersOn_append (n : Nat) (l r : List (Nat × Iter)) :
    itersOn n (l ++ r) = itersOn n l + itersOn n r := by
  unfold itersOn; simp [List.filter_append]

/-- replacing a registered iterator by one on the same snapshot keeps the reference accounting -/
theorem itersOn_aset_same (n : Nat) {i : Nat} {it it' : Iter} (hsn : it'.sn = it.sn) :
    ∀ {l : List (Nat × Iter)}, alookup i l = some it → itersOn n (aset i it' l) = itersOn n l
  | [], h => by simp [alookup] at h
  | (m, b) :: r, h => by
    unfold alookup at h
    by_cases hm : m = i
    · simp [hm] at h; subst h
      simp only [aset, hm, if_true]
      rw [itersOn_cons, itersOn_cons]; simp [hsn]
    · simp only [hm, if_false] at h
      simp only [aset, hm, if_false]
      rw [itersOn_cons, itersOn_cons, itersOn_aset_same n hsn h]

/-! ### iterator bookkeeping changes only -/

theorem inv_setIters {σ : State} (h : Inv σ) (iters' : List (Nat × Iter))
    (hit : ∀ p ∈ iters', ∃ s ∈ σ.snaps, s.sn = p.2.sn ∧ ∀ v, p.2.cur = some v → v.norm ∈ s.content)
    (hle : ∀ n, itersOn n iters' ≤ itersOn n σ.iters) : Inv { σ with iters := iters' } :=
  ⟨h.sorted, h.chains, h.count, h.snaps, h.view, h.garb,
   ⟨hit, fun s hs => Int.le_trans (hle s.sn) (h.iters.refs s hs)⟩, h.handles⟩

/-- what is known about a registered iterator -/
theorem iter_ctx {σ : State} (h : Inv σ) {i : Nat} {it : Iter} (hi : alookup i σ.iters = some it) :
    ∃ s ∈ σ.snaps, s.sn = it.sn ∧ 0 < s.rc ∧ view σ.store it.sn = s.content ∧
      ∀ v, it.cur = some v → v.norm ∈ s.content := by
  have hm := alookup_mem hi
  obtain ⟨s, hs, hsn, hc⟩ := h.iters.snap _ hm
  have h1 := h.iters.refs s hs
  have h2 : 1 ≤ itersOn s.sn σ.iters := by
    have := itersOn_aerase_lt hm hsn.symm
    have := itersOn_nonneg s.sn (aerase i σ.iters)
    omega
  have hrc : 0 < s.rc := by omega
  exact ⟨s, hs, hsn, hrc, by rw [← hsn]; exact h.view s hs hrc, hc⟩

theorem norm_mem_view {store : List Ver} {sn : Nat} {w : Ver} (hw : w ∈ vis store sn) :
    w.norm ∈ view store sn := List.mem_map.mpr ⟨w, hw, rfl⟩

theorem of_norm_mem_view {store : List Ver} {sn : Nat} {v : Ver} (hv : v.norm ∈ view store sn) :
    ∃ v' ∈ vis store sn, v'.key = v.key ∧ v'.born = v.born ∧ v'.val = v.val := by
  obtain ⟨v', hv', he⟩ := List.mem_map.mp hv
  refine ⟨v', hv', ?_⟩
  unfold Ver.norm at he
  have h1 := congrArg Ver.key he
  have h2 := congrArg Ver.born he
  have h3 := congrArg Ver.val he
  simp at h1 h2 h3
  exact ⟨h1, h2, h3⟩

/-- replacing a registered iterator by one on the same snapshot standing on a visible version -/
theorem inv_setIter {σ : State} (h : Inv σ) {i : Nat} {it it' : Iter} (hi : alookup i σ.iters = some it)
    (hsn : it'.sn = it.sn) (hcur : ∀ w, it'.cur = some w → w ∈ vis σ.store it.sn ∨ it.cur = some w) :
    Inv (setIter σ i it').1 := by
  obtain ⟨s, hs, hsn', hrc, hview, hc⟩ := iter_ctx h hi
  have hm := alookup_mem hi
  unfold setIter
  apply inv_setIters h
  · intro p hp
    rcases mem_aset hp with rfl | hp'
    · refine ⟨s, hs, by simp [hsn, hsn'], ?_⟩
      intro w hw
      rcases hcur w hw with h1 | h1
      · rw [← hview]; exact norm_mem_view h1
      · exact hc w h1
    · exact h.iters.snap p hp'
  · intro n
    rw [itersOn_aset_same n hsn hi]; exact Int.le_refl _

/-! ### Open / Close -/

theorem front_updSnap {snaps : List Snap} {g s : Nat} {f : Snap → Snap}
    (hf : ∀ z, (f z).st = z.st ∧ (f z).sn = z.sn)
    (h : ∀ z ∈ snaps, z.sn = g + 1 → z.st = .live) :
    ∀ y ∈ updSnap s f snaps, y.sn = g + 1 → y.st = .live := by
  intro y hy hys
  obtain ⟨z, hz, rfl⟩ := mem_updSnap hy
  by_cases hzs : z.sn = s
  · simp only [hzs, if_true] at hys ⊢
    rw [(hf z).1]; rw [(hf z).2] at hys; exact h z hz hys
  · simp only [hzs, if_false] at hys ⊢
    exact h z hz hys

theorem inv_open {σ : State} (h : Inv σ) {s : Nat} {x : Snap} (hx : findSnap s σ.snaps = some x)
    (hrc : x.rc ≠ 0) (iters' : List (Nat × Iter))
    (hit : ∀ p ∈ iters', ∃ s ∈ σ.snaps, s.sn = p.2.sn ∧ ∀ v, p.2.cur = some v → v.norm ∈ s.content)
    (hrefs : itersOn s iters' ≤ x.rc + 1)
    (hother : ∀ n, n ≠ s → itersOn n iters' ≤ itersOn n σ.iters) :
    Inv { (openSnap σ s) with iters := iters' } := by
  have ⟨hxm, _⟩ := findSnap_some hx
  have hx0 := h.snaps.rc x hxm
  have hpos : 0 < x.rc := by omega
  have hp := pre_updSnap h hx (fun y => { y with rc := y.rc + 1 }) iters' rfl rfl rfl rfl
    (by simp; omega) (by simp; exact ⟨fun _ => by omega, fun _ => hx0.2.mpr hpos⟩)
    (by simp) (fun _ => hpos) hit (by simpa using hrefs) hother
  exact hp.inv (front_updSnap (fun _ => ⟨rfl, rfl⟩) h.snaps.front)

theorem inv_close {σ : State} (h : Inv σ) {s : Nat} {x : Snap} (hx : findSnap s σ.snaps = some x)
    (iters' : List (Nat × Iter))
    (hit : ∀ p ∈ iters', ∃ s ∈ σ.snaps, s.sn = p.2.sn ∧ ∀ v, p.2.cur = some v → v.norm ∈ s.content)
    (hrefs : itersOn s iters' ≤ x.rc - 1)
    (hother : ∀ n, n ≠ s → itersOn n iters' ≤ itersOn n σ.iters) :
    Inv (closeSnap { σ with iters := iters' } s x.rc) := by
  have ⟨hxm, _⟩ := findSnap_some hx
  have hx0 := h.snaps.rc x hxm
  have hnn := itersOn_nonneg s iters'
  have hpos : 0 < x.rc := by omega
  unfold closeSnap
  split
  · rename_i hret
    have hz : x.rc - 1 = 0 := (closeRetire_iff _).mp hret
    have hlive : x.st = .live := hx0.2.mpr hpos
    have hp := pre_updSnap h hx (fun y => { y with rc := y.rc - 1, st := .retired }) iters' rfl rfl rfl rfl
      (by simp; omega) (by simp; omega) (by simp [hlive]) (by simp; omega) hit
      (by simpa using hrefs) hother
    exact inv_gc hp
  · rename_i hret
    have hz : x.rc - 1 ≠ 0 := fun hz => hret ((closeRetire_iff _).mpr hz)
    have hp := pre_updSnap h hx (fun y => { y with rc := y.rc - 1 }) iters' rfl rfl rfl rfl
      (by simp; omega) (by simp; exact ⟨fun _ => by omega, fun _ => hx0.2.mpr hpos⟩)
      (by simp) (fun _ => hpos) hit (by simpa using hrefs) hother
    exact hp.inv (front_updSnap (fun _ => ⟨rfl, rfl⟩) h.snaps.front)

/-- taking a reference and giving it back changes nothing -/
theorem withRef_eq (σ : State) (s : Nat) {rc : Int} (hrc : rc ≠ 0) : withRef σ s rc = σ := by
  unfold withRef closeSnap
  have : Gen.closeRetire (rc + 1 - 1) = false := by
    cases h : Gen.closeRetire (rc + 1 - 1)
    · rfl
    · have := (closeRetire_iff _).mp h; omega
  simp only [this, Bool.false_eq_true, if_false, openSnap]
  have hs : updSnap s (fun y => { y with rc := y.rc - 1 })
      (updSnap s (fun y => { y with rc := y.rc + 1 }) σ.snaps) = σ.snaps := by
    unfold updSnap
    rw [List.map_map]
    conv => rhs; rw [← List.map_id σ.snaps]
    apply List.map_congr_left
    intro z _
    simp only [Function.comp, id]
    by_cases hz : z.sn = s
    · subst hz
      simp only [if_true]
      cases z
      simp only [Snap.mk.injEq, true_and, and_true]
      omega
    · simp [hz]
  rw [hs]

/-! ### the step function -/

theorem inv_step {σ : State} (h : Inv σ) (op : Op) : Inv (step σ op).1 := by
  cases op with
  | put w k v =>
    simp only [step]; split
    · rename_i hw; exact inv_put h k v hw
    · exact h
  | del w k =>
    simp only [step]; split
    · rename_i hw; exact inv_del h hw k
    · exact h
  | get w k => simp only [step]; split <;> exact h
  | getnode w k hn =>
    simp only [step]; split
    · split
      · rename_i x hx
        rw [getNode_eq h] at hx
        have ⟨hxm, _, _⟩ := aliveOf_some hx
        refine ⟨h.sorted, h.chains, h.count, h.snaps, h.view, h.garb, h.iters, ?_⟩
        intro p hp hgone
        rcases mem_aset hp with rfl | hp'
        · exact Or.inr ⟨x, hxm, rfl, rfl⟩
        · exact h.handles p hp' hgone
      · refine ⟨h.sorted, h.chains, h.count, h.snaps, h.view, h.garb, h.iters, ?_⟩
        intro p hp hgone
        exact h.handles p (mem_aerase.mp hp).1 hgone
    · exact h
  | delnode w hn =>
    simp only [step]; split
    · rename_i hw
      split
      · exact inv_delHandle h hw _
      · exact h
    · exact h
  | snap => exact inv_newSnapshot h
  | «open» s =>
    simp only [step]; split
    · rename_i x hx
      split
      · exact h
      · rename_i hr
        have hrc : x.rc ≠ 0 := fun h0 => hr ((openRefuse_iff _).mpr h0)
        have ⟨hxm, hxs⟩ := findSnap_some hx
        have := h.iters.refs x hxm
        exact inv_open h hx hrc σ.iters h.iters.snap (by rw [hxs] at this; omega) (fun _ _ => Int.le_refl _)
    · exact h
  | close s =>
    simp only [step]; split
    · rename_i x hx
      split
      · rename_i hc
        exact inv_close h hx σ.iters h.iters.snap (by omega) (fun _ _ => Int.le_refl _)
      · exact h
    · exact h
  | count s => simp only [step]; split <;> exact h
  | items => exact h
  | scan s rate =>
    simp only [step]; split
    · rename_i x hx
      split
      · exact h
      · rename_i hr
        rw [withRef_eq σ s (fun h0 => hr ((openRefuse_iff _).mpr h0))]; exact h
    · exact h
  | itNew i s =>
    simp only [step]; split
    · rename_i x hx hi
      split
      · exact h
      · rename_i hr
        have hrc : x.rc ≠ 0 := fun h0 => hr ((openRefuse_iff _).mpr h0)
        have ⟨hxm, hxs⟩ := findSnap_some hx
        have href := h.iters.refs x hxm
        apply inv_open h hx hrc
        · intro p hp
          rcases mem_aset hp with rfl | hp'
          · exact ⟨x, hxm, hxs, by simp [newIter]⟩
          · exact h.iters.snap p hp'
        · rw [aset_of_lookup_none hi, itersOn_append, itersOn_cons]
          simp [newIter, itersOn]; rw [hxs] at href; simp [itersOn] at href; omega
        · intro n hn
          rw [aset_of_lookup_none hi, itersOn_append, itersOn_cons]
          simp [newIter, Ne.symm hn, itersOn]
    · exact h
  | itRate i r =>
    simp only [step]; split
    · rename_i it hi
      exact inv_setIter (it' := { it with rate := r }) h hi rfl (fun w hw => Or.inr hw)
    · exact h
  | itFirst i =>
    simp only [step]; split
    · rename_i it hi
      apply inv_setIter h hi (by simp)
      intro w hw
      rw [seekFirst_cur] at hw
      exact Or.inl (List.mem_of_mem_head? hw)
    · exact h
  | itSeek i k =>
    simp only [step]; split
    · rename_i it hi
      apply inv_setIter h hi (by simp)
      intro w hw
      rw [seek_cur h.sorted] at hw
      exact Or.inl (List.mem_of_find?_eq_some hw)
    · exact h
  | itNext i =>
    simp only [step]; split
    · rename_i it hi
      split
      · rename_i v hv
        obtain ⟨s, _, _, _, hview, hc⟩ := iter_ctx h hi
        obtain ⟨v', hv', hk, hb, _⟩ := of_norm_mem_view (by rw [hview]; exact hc v hv)
        apply inv_setIter h hi (by simp)
        intro w hw
        rw [next_cur h.sorted h.chains hv hv' hk hb] at hw
        exact Or.inl (List.mem_of_find?_eq_some hw)
      · exact h
    · exact h
  | itRefresh i =>
    simp only [step]; split
    · rename_i it hi
      apply inv_setIter h hi (by simp)
      intro w hw
      cases hcur : it.cur with
      | none => unfold Iter.refresh at hw; rw [hcur] at hw; simp only at hw; rw [hcur] at hw; cases hw
      | some v =>
        obtain ⟨s, _, _, _, hview, hc⟩ := iter_ctx h hi
        obtain ⟨v', hv', hk, _, _⟩ := of_norm_mem_view (by rw [hview]; exact hc v hcur)
        rw [refresh_cur h.sorted h.chains hcur hv' hk] at hw
        simp at hw; subst hw
        exact Or.inl hv'
    · exact h
  | itClose i =>
    simp only [step]; split
    · rename_i it hi
      split
      · rename_i x hx
        have hm := alookup_mem hi
        have ⟨hxm, hxs⟩ := findSnap_some hx
        apply inv_close h hx
        · intro p hp; exact h.iters.snap p (mem_aerase.mp hp).1
        · have := itersOn_aerase_lt hm hxs.symm
          have h2 := h.iters.refs x hxm
          rw [hxs] at h2 this
          omega
        · intro n _; exact itersOn_aerase_le n i σ.iters
      · exact h
    · exact h
  | visit s pivots rate fail =>
    simp only [step]; split
    · rename_i x hx
      split
      · exact h
      · rename_i hr
        rw [withRef_eq σ s (fun h0 => hr ((openRefuse_iff _).mpr h0))]; exact h
    · exact h

theorem inv_reachable {n : Nat} {σ : State} (hr : Reachable n σ) : Inv σ := by
  induction hr with
  | init => exact inv_init n
  | step op _ ih => exact inv_step ih op

end NitroVerif.Mvcc
