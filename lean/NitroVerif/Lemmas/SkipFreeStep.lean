import NitroVerif.Lemmas.SkipFreeInv
/-!
  M5F: what `settle` (the barrier steps at the end of a segment) does to the pool and to the call records.
-/
namespace NitroVerif.SkipFree
open NitroVerif NitroVerif.SkipConc

theorem Bar_relRefresh {s : Sys} (hL : Last s) (t : Nat) (c : Call) : Bar s (relRefresh s t c) := by
  unfold relRefresh
  split
  · exact Bar_release hL _ _
  · exact Bar.refl hL

theorem Bar_relCall {s : Sys} (hL : Last s) (t : Nat) (c : Call) : Bar s (relCall s t c) := by
  unfold relCall
  split
  · exact Bar_release hL _ _
  · exact Bar.refl hL

theorem flushCall_spec {s : Sys} (hL : Last s) (c : Call) (pre : PC) :
    (flushCall s c pre).base = s.base ∧ (flushCall s c pre).calls = s.calls ∧ Last (flushCall s c pre) ∧
      (pool (flushCall s c pre) = pool s ∨ ∃ n, pool (flushCall s c pre) = pool s ++ [n] ∧ c.delf = true ∧
        inClean pre = true ∧ c.node = some n) := by
  unfold flushCall
  split
  · rename_i hd
    simp only [Bool.and_eq_true] at hd
    split
    · rename_i n hn
      obtain ⟨f1, f2, f3, f4⟩ := flush_spec hL n
      exact ⟨f1, f2, f3, .inr ⟨n, f4, hd.1, hd.2, hn⟩⟩
    · exact ⟨rfl, rfl, hL, .inl rfl⟩
  · exact ⟨rfl, rfl, hL, .inl rfl⟩

theorem nodeAfter_idle (c : Call) : nodeAfter c .idle = c.node := rfl

theorem settle_idle {s : Sys} (hL : Last s) (t : Nat) (pre : PC) (hpc : pcOf s t = .idle) :
    (settle s t pre).base = s.base ∧ Last (settle s t pre) ∧ (settle s t pre).calls = s.calls.set t {} ∧
      (pool (settle s t pre) = pool s ∨ ∃ n, pool (settle s t pre) = pool s ++ [n] ∧ (callOf s t).delf = true ∧
        inClean pre = true ∧ (callOf s t).node = some n) := by
  simp only [settle, hpc, refreshIter, isIdle, if_true, nodeAfter_idle]
  have h3 := Bar_relRefresh hL t (callOf s t)
  have h4 := Bar_relCall h3.last t (callOf s t)
  have h34 := h3.trans h4
  obtain ⟨f1, f2, f3, f4⟩ := flushCall_spec h34.last (callOf s t) pre
  refine ⟨f1.trans h34.base, ?_, by rw [f2, h34.calls], ?_⟩
  · obtain ⟨ini, la, h⟩ := f3; exact ⟨ini, la, h⟩
  · rcases f4 with f4 | ⟨n, f4, h⟩
    · exact .inl (f4.trans h34.pool)
    · exact .inr ⟨n, by show pool (flushCall _ _ _) = _; rw [f4, h34.pool], h⟩

theorem settle_busy {s : Sys} (hL : Last s) (t : Nat) (pre : PC) (hpc : pcOf s t ≠ .idle) :
    (settle s t pre).base = s.base ∧ Last (settle s t pre) ∧ pool (settle s t pre) = pool s ∧
      ∃ c2, (settle s t pre).calls = s.calls.set t c2 ∧ c2.delf = (callOf s t).delf ∧
        c2.node = nodeAfter (callOf s t) (pcOf s t) := by
  have hid : isIdle (pcOf s t) = false := by
    cases h : isIdle (pcOf s t) with
    | false => rfl
    | true => exact absurd ((isIdle_iff _).mp h) hpc
  simp only [settle, hid]
  cases hr : refreshIter (pcOf s t) with
  | none =>
    simp only [Bool.false_eq_true, if_false]
    refine ⟨?_, ?_, ?_, ⟨{ (callOf s t) with node := nodeAfter (callOf s t) (pcOf s t) }, ?_, ?_, ?_⟩⟩ <;>
      first | rfl | trivial | exact hL
  | some it =>
    simp only []
    have hb : Bar s (setIterTok (acquire s (.it t it)) t it (curTok s)) :=
      (Bar_acquire hL _).trans (Bar_setIterTok (Bar_acquire hL _).last _ _ _)
    refine ⟨hb.base, ?_, hb.pool, ⟨Call.mk (callOf s t).tok (callOf s t).delf
      (nodeAfter (callOf s t) (pcOf s t)) (some (it, iterTok s t it)), ?_, rfl, rfl⟩⟩
    · obtain ⟨ini, la, h⟩ := hb.last; exact ⟨ini, la, h⟩
    · show (setIterTok (acquire s (.it t it)) t it (curTok s)).calls.set t _ = _
      rw [hb.calls]

end NitroVerif.SkipFree

namespace NitroVerif.SkipFree
open NitroVerif NitroVerif.SkipConc

theorem Last_of_eq {s s' : Sys} (h : Last s) (h1 : s'.sess = s.sess) (h2 : s'.freeSeq = s.freeSeq) : Last s' := by
  obtain ⟨ini, la, a, b, c, d⟩ := h
  exact ⟨ini, la, by rw [h1, a], b, c, by rw [h2]; exact d⟩

theorem pool_of_eq {s s' : Sys} (h1 : s'.sess = s.sess) (h2 : s'.freeSeq = s.freeSeq) (h3 : s'.freed = s.freed) :
    pool s' = pool s := by
  simp only [pool, h1, h2, h3]

/-- the barrier step at the entry of a call leaves the pool alone -/
theorem enter_spec {s : Sys} (hL : Last s) (t : Nat) (op : Op) :
    Last (enter s t op) ∧ pool (enter s t op) = pool s ∧ (enter s t op).base = s.base := by
  have hthr : Last { acquire s (.thr t) with calls := s.calls.set t { tok := some (curTok s) } } ∧
      pool { acquire s (.thr t) with calls := s.calls.set t { tok := some (curTok s) } } = pool s ∧
      ({ acquire s (.thr t) with calls := s.calls.set t { tok := some (curTok s) } } : Sys).base = s.base := by
    have hb := Bar_acquire hL (.thr t)
    exact ⟨Last_of_eq hb.last rfl rfl, (pool_of_eq rfl rfl rfl).trans hb.pool, rfl⟩
  have hit : ∀ it, Last (match iterTok s t it with
      | some _ => s
      | none => setIterTok (acquire s (.it t it)) t it (curTok s)) ∧
      pool (match iterTok s t it with
      | some _ => s
      | none => setIterTok (acquire s (.it t it)) t it (curTok s)) = pool s ∧
      (match iterTok s t it with
      | some _ => s
      | none => setIterTok (acquire s (.it t it)) t it (curTok s)).base = s.base := by
    intro it
    split
    · exact ⟨hL, rfl, rfl⟩
    · have hb := (Bar_acquire hL (.it t it)).trans (Bar_setIterTok (Bar_acquire hL _).last t it (curTok s))
      exact ⟨hb.last, hb.pool, hb.base⟩
  cases op with
  | delf k => exact hthr
  | base bop =>
    cases bop with
    | ins k l => exact hthr
    | del k => exact hthr
    | look k => exact hthr
    | itFirst it => exact hit it
    | itSeek it k => exact hit it
    | itNext it => exact ⟨hL, rfl, rfl⟩
    | itInterval it n => exact ⟨hL, rfl, rfl⟩
    | itRefresh it => exact ⟨hL, rfl, rfl⟩
    | itClose it =>
      simp only [enter]
      split
      · rename_i tok _
        have hb := (Bar_release hL tok (.it t it)).trans (Bar_dropIterTok (Bar_release hL tok (.it t it)).last t it)
        exact ⟨hb.last, hb.pool, hb.base⟩
      · exact ⟨hL, rfl, rfl⟩

theorem pcOf_of_get {s : Sys} {t : Nat} {th : Thread} (h : s.base.threads[t]? = some th) : pcOf s t = th.pc := by
  simp [pcOf, List.getD, h]

/-- one action: the current session stays open, and the pool grows by at most one node — the `curr` of a `delf` of
    thread `t` that returns from its cleaning search (DeleteNode2 said `true`) in this segment -/
theorem act_pool {s : Sys} (hL : Last s) (a : Action) :
    Last (s.act a) ∧ (pool (s.act a) = pool s ∨ ∃ t n, a = .step t ∧ pool (s.act a) = pool s ++ [n] ∧
      (callOf s t).delf = true ∧ inClean (pcOf s t) = true ∧ (callOf s t).node = some n ∧
      pcOf (s.act a) t = .idle) := by
  cases a with
  | start t op =>
    simp only [Sys.act, Sys.start]
    split
    · obtain ⟨e1, e2, _⟩ := enter_spec hL t op
      generalize hs2 : ({ enter s t op with
          calls := (enter s t op).calls.set t { (callOf (enter s t op) t) with delf := op.isDelf },
          base := ((enter s t op).base.start t op.toBase).1 } : Sys) = s2
      have hL2 : Last s2 := by subst hs2; exact Last_of_eq e1 rfl rfl
      have hp2 : pool s2 = pool s := by subst hs2; exact (pool_of_eq rfl rfl rfl).trans e2
      by_cases hpc : pcOf s2 t = .idle
      · obtain ⟨_, g2, _, g4⟩ := settle_idle hL2 t .idle hpc
        refine ⟨g2, .inl ?_⟩
        rcases g4 with g4 | ⟨n, _, _, hc, _⟩
        · exact g4.trans hp2
        · simp [inClean] at hc
      · obtain ⟨_, g2, g3, _⟩ := settle_busy hL2 t .idle hpc
        exact ⟨g2, .inl (g3.trans hp2)⟩
    · exact ⟨hL, .inl rfl⟩
  | step t =>
    simp only [Sys.act, Sys.step]
    split
    · exact ⟨hL, .inl rfl⟩
    · rename_i th hth
      split
      · exact ⟨hL, .inl rfl⟩
      · generalize hs2 : ({ s with base := (s.base.step t).1 } : Sys) = s2
        have hL2 : Last s2 := by subst hs2; exact Last_of_eq hL rfl rfl
        have hp2 : pool s2 = pool s := by subst hs2; rfl
        have hc2 : callOf s2 t = callOf s t := by subst hs2; rfl
        by_cases hpc : pcOf s2 t = .idle
        · obtain ⟨g1, g2, _, g4⟩ := settle_idle hL2 t th.pc hpc
          refine ⟨g2, ?_⟩
          rcases g4 with g4 | ⟨n, g4, hd, hc, hn⟩
          · exact .inl (g4.trans hp2)
          · refine .inr ⟨t, n, rfl, by rw [g4, hp2], by rw [← hc2]; exact hd, by rw [pcOf_of_get hth]; exact hc,
              by rw [← hc2]; exact hn, ?_⟩
            simp only [pcOf] at hpc ⊢
            rw [g1]; exact hpc
        · obtain ⟨_, g2, g3, _⟩ := settle_busy hL2 t th.pc hpc
          exact ⟨g2, .inl (g3.trans hp2)⟩

theorem Last_init (n : Nat) : Last (Sys.init n) := ⟨[], {}, rfl, rfl, rfl, Nat.le_refl _⟩

theorem run_last {s : Sys} (hL : Last s) (as : List Action) : Last (s.run as) := by
  induction as generalizing s with
  | nil => exact hL
  | cons a r ih => exact ih (act_pool hL a).1

/-- the freed nodes are the first `freed.length` nodes ever handed to the barrier -/
theorem freed_prefix (s : Sys) : s.freed <+: pool s := ⟨_, rfl⟩

end NitroVerif.SkipFree

namespace NitroVerif.SkipFree
open NitroVerif NitroVerif.SkipConc

/-- in state `s` the next segment of thread `t` ends a `delf` whose DeleteNode2 said `true` on node `x`
    (it returns from the cleaning search): `Release(tok); FlushSession(x)` run in that segment -/
def Flushes (s : Sys) (t x : Nat) : Prop :=
  (callOf s t).delf = true ∧ inClean (pcOf s t) = true ∧ (callOf s t).node = some x ∧ pcOf (s.step t) t = .idle

theorem run_cons (s : Sys) (a : Action) (r : List Action) : s.run (a :: r) = (s.act a).run r := rfl

theorem run_pool_nodup {s : Sys} (hL : Last s) (hN : (pool s).Nodup) (as : List Action)
    (hOne : ∀ k t x, Flushes (s.run (as.take k)) t x → x ∉ pool (s.run (as.take k))) :
    (pool (s.run as)).Nodup := by
  induction as generalizing s with
  | nil => exact hN
  | cons a r ih =>
    rw [run_cons]
    refine ih (act_pool hL a).1 ?_ (fun k t x h => hOne (k + 1) t x (by simpa [run_cons] using h))
    rcases (act_pool hL a).2 with h | ⟨t, x, rfl, h, h1, h2, h3, h4⟩
    · rw [h]; exact hN
    · rw [h]
      have hx := hOne 0 t x ⟨h1, h2, h3, h4⟩
      simp only [List.take_zero] at hx
      rw [List.nodup_append]
      refine ⟨hN, by simp, ?_⟩
      intro a ha b hb
      simp only [List.mem_singleton] at hb
      subst hb
      intro e; subst e; exact hx ha

theorem run_pool_origin {s : Sys} (hL : Last s) (as : List Action) (x : Nat) (hx : x ∈ pool (s.run as)) :
    x ∈ pool s ∨ ∃ k t, k < as.length ∧ Flushes (s.run (as.take k)) t x := by
  induction as generalizing s with
  | nil => exact .inl hx
  | cons a r ih =>
    rw [run_cons] at hx
    rcases ih (act_pool hL a).1 hx with h | ⟨k, t, hk, hf⟩
    · rcases (act_pool hL a).2 with e | ⟨t, y, rfl, e, h1, h2, h3, h4⟩
      · rw [e] at h; exact .inl h
      · rw [e, List.mem_append, List.mem_singleton] at h
        rcases h with h | rfl
        · exact .inl h
        · exact .inr ⟨0, t, by simp, h1, h2, h3, h4⟩
    · exact .inr ⟨k + 1, t, by simp; omega, by simpa [run_cons] using hf⟩

theorem pool_init (n : Nat) : pool (Sys.init n) = [] := rfl

end NitroVerif.SkipFree
