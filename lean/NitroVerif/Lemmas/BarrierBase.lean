import NitroVerif.Model.Barrier
import NitroVerif.Lemmas.BarrierGen
/-!
  Counting infrastructure for the M4 invariants.  Every fact about "the threads" is phrased as a
  sum over the thread list (`cnt f st`), so that a step of thread `i`, which replaces one entry
  of the list, changes every such quantity by `f t' - f t` (`cnt_step`), for any number of threads.
-/
namespace NitroVerif.Barrier
open NitroVerif

/-- Bool as 0/1 (an opaque atom for `omega`) -/
def b2n (b : Bool) : Nat := if b then 1 else 0
@[simp] theorem b2n_true : b2n true = 1 := rfl
@[simp] theorem b2n_false : b2n false = 0 := rfl
theorem b2n_le (b : Bool) : b2n b ≤ 1 := by cases b <;> simp
theorem b2n_eq_one {b : Bool} : b2n b = 1 ↔ b = true := by cases b <;> simp
theorem b2n_eq_zero {b : Bool} : b2n b = 0 ↔ b = false := by cases b <;> simp

/-! ### sums over the thread list -/

def cnt (f : Th → Nat) (st : St) : Nat := (st.ths.map f).sum

theorem sum_set {α} (f : α → Nat) (l : List α) (i : Nat) (t t' : α) (h : l[i]? = some t) :
    ((l.set i t').map f).sum + f t = (l.map f).sum + f t' := by
  induction l generalizing i with
  | nil => simp at h
  | cons x xs ih =>
    cases i with
    | zero => simp at h; subst h; simp; omega
    | succ j => simp at h; have := ih j h; simp at *; omega

/-- effect of a step of thread `i` on any thread sum -/
theorem cnt_step (f : Th → Nat) (st st1 : St) (i : Nat) (t t' : Th)
    (h1 : st1.ths = st.ths) (h : st.ths[i]? = some t) :
    cnt f (setT st1 i t') + f t = cnt f st + f t' := by
  unfold cnt setT; simp only [h1]; exact sum_set f st.ths i t t' h

/-- rewriting form of `cnt_step` (truncated subtraction; `cnt_ge_mem` bounds the subtrahend) -/
theorem cnt_step' (st st1 : St) (i : Nat) (t t' : Th)
    (h1 : st1.ths = st.ths) (h : st.ths[i]? = some t) (f : Th → Nat) :
    cnt f (setT st1 i t') = cnt f st + f t' - f t := by
  have := cnt_step f st st1 i t t' h1 h; omega

theorem sum_le_sum {α} (f g : α → Nat) (l : List α) (h : ∀ u, f u ≤ g u) :
    (l.map f).sum ≤ (l.map g).sum := by
  induction l with
  | nil => simp
  | cons x xs ih => have := h x; simp; omega

theorem cnt_le_cnt (f g : Th → Nat) (st : St) (h : ∀ u, f u ≤ g u) : cnt f st ≤ cnt g st :=
  sum_le_sum f g st.ths h

theorem sum_le_except {α} (f g : α → Nat) (l : List α) (i : Nat) (t : α) (h : ∀ u, f u ≤ g u)
    (ht : l[i]? = some t) : (l.map f).sum + g t ≤ (l.map g).sum + f t := by
  induction l generalizing i with
  | nil => simp at ht
  | cons x xs ih =>
    cases i with
    | zero => simp at ht; subst ht; have := sum_le_sum f g xs h; simp; omega
    | succ j => simp at ht; have := ih j ht; have := h x; simp; omega

/-- pointwise `f ≤ g`, with the contribution of one known member taken out -/
theorem cnt_le_except (f g : Th → Nat) (st : St) (i : Nat) (t : Th) (h : ∀ u, f u ≤ g u)
    (ht : st.ths[i]? = some t) : cnt f st + g t ≤ cnt g st + f t :=
  sum_le_except f g st.ths i t h ht

theorem sum_ge_mem {α} (f : α → Nat) (l : List α) (i : Nat) (t : α) (ht : l[i]? = some t) :
    f t ≤ (l.map f).sum := by
  induction l generalizing i with
  | nil => simp at ht
  | cons x xs ih =>
    cases i with
    | zero => simp at ht; subst ht; simp
    | succ j => simp at ht; have := ih j ht; simp; omega

theorem cnt_ge_mem (f : Th → Nat) (st : St) (i : Nat) (t : Th) (ht : st.ths[i]? = some t) :
    f t ≤ cnt f st := sum_ge_mem f st.ths i t ht

theorem sum_eq_zero_of {α} (f : α → Nat) (l : List α) (h : ∀ u ∈ l, f u = 0) : (l.map f).sum = 0 := by
  induction l with
  | nil => simp
  | cons x xs ih => simp at h ⊢; exact ⟨h.1, ih h.2⟩

theorem cnt_eq_zero_of (f : Th → Nat) (st : St) (h : ∀ u ∈ st.ths, f u = 0) : cnt f st = 0 :=
  sum_eq_zero_of f st.ths h

/-! ### state accessors -/

@[simp] theorem setT_sess (st : St) (i : Nat) (t : Th) : (setT st i t).sess = st.sess := rfl
@[simp] theorem setT_cur (st : St) (i : Nat) (t : Th) : (setT st i t).cur = st.cur := rfl
@[simp] theorem setT_activeSeqno (st : St) (i : Nat) (t : Th) : (setT st i t).activeSeqno = st.activeSeqno := rfl
@[simp] theorem setT_freeSeqno (st : St) (i : Nat) (t : Th) : (setT st i t).freeSeqno = st.freeSeqno := rfl
@[simp] theorem setT_freeq (st : St) (i : Nat) (t : Th) : (setT st i t).freeq = st.freeq := rfl
@[simp] theorem setT_flag (st : St) (i : Nat) (t : Th) : (setT st i t).flag = st.flag := rfl
@[simp] theorem setT_mutex (st : St) (i : Nat) (t : Th) : (setT st i t).mutex = st.mutex := rfl
@[simp] theorem setT_numAllocated (st : St) (i : Nat) (t : Th) : (setT st i t).numAllocated = st.numAllocated := rfl
@[simp] theorem setT_numFreed (st : St) (i : Nat) (t : Th) : (setT st i t).numFreed = st.numFreed := rfl
@[simp] theorem setT_panicked (st : St) (i : Nat) (t : Th) : (setT st i t).panicked = st.panicked := rfl
@[simp] theorem setT_log (st : St) (i : Nat) (t : Th) : (setT st i t).log = st.log := rfl
@[simp] theorem setT_tagged (st : St) (i : Nat) (t : Th) : (setT st i t).tagged = st.tagged := rfl
@[simp] theorem setT_flStarted (st : St) (i : Nat) (t : Th) : (setT st i t).flStarted = st.flStarted := rfl
@[simp] theorem setT_flDone (st : St) (i : Nat) (t : Th) : (setT st i t).flDone = st.flDone := rfl
@[simp] theorem getS_setT (st : St) (i : Nat) (t : Th) (s : Nat) : getS (setT st i t) s = getS st s := rfl

@[simp] theorem setS_ths (st : St) (a : Nat) (x : Sess) : (setS st a x).ths = st.ths := rfl
@[simp] theorem setS_cur (st : St) (a : Nat) (x : Sess) : (setS st a x).cur = st.cur := rfl
@[simp] theorem setS_activeSeqno (st : St) (a : Nat) (x : Sess) : (setS st a x).activeSeqno = st.activeSeqno := rfl
@[simp] theorem setS_freeSeqno (st : St) (a : Nat) (x : Sess) : (setS st a x).freeSeqno = st.freeSeqno := rfl
@[simp] theorem setS_freeq (st : St) (a : Nat) (x : Sess) : (setS st a x).freeq = st.freeq := rfl
@[simp] theorem setS_flag (st : St) (a : Nat) (x : Sess) : (setS st a x).flag = st.flag := rfl
@[simp] theorem setS_mutex (st : St) (a : Nat) (x : Sess) : (setS st a x).mutex = st.mutex := rfl
@[simp] theorem setS_numAllocated (st : St) (a : Nat) (x : Sess) : (setS st a x).numAllocated = st.numAllocated := rfl
@[simp] theorem setS_numFreed (st : St) (a : Nat) (x : Sess) : (setS st a x).numFreed = st.numFreed := rfl
@[simp] theorem setS_panicked (st : St) (a : Nat) (x : Sess) : (setS st a x).panicked = st.panicked := rfl
@[simp] theorem setS_log (st : St) (a : Nat) (x : Sess) : (setS st a x).log = st.log := rfl
@[simp] theorem setS_tagged (st : St) (a : Nat) (x : Sess) : (setS st a x).tagged = st.tagged := rfl
@[simp] theorem setS_flStarted (st : St) (a : Nat) (x : Sess) : (setS st a x).flStarted = st.flStarted := rfl
@[simp] theorem setS_flDone (st : St) (a : Nat) (x : Sess) : (setS st a x).flDone = st.flDone := rfl
@[simp] theorem setS_sess_length (st : St) (a : Nat) (x : Sess) : (setS st a x).sess.length = st.sess.length := by
  simp [setS]

theorem getS_setS (st : St) (a s : Nat) (x : Sess) (ha : a < st.sess.length) :
    getS (setS st a x) s = if a = s then x else getS st s := by
  unfold getS setS
  by_cases h : a = s
  · subst h; simp [ha]
  · simp [h]

theorem getS_setS_same (st : St) (a : Nat) (x : Sess) (ha : a < st.sess.length) :
    getS (setS st a x) a = x := by simp [getS_setS st a a x ha]

theorem getS_setS_ne (st : St) (a s : Nat) (x : Sess) (h : a ≠ s) :
    getS (setS st a x) s = getS st s := by
  unfold getS setS; simp [h]

/-- a session outside the list reads as the default session -/
theorem getS_default (st : St) (s : Nat) (h : st.sess.length ≤ s) : getS st s = {} := by
  unfold getS; simp [List.getElem?_eq_none h]

/-- appending a fresh session -/
theorem getS_append (st st1 : St) (s : Nat) (h : st1.sess = st.sess ++ [({} : Sess)]) :
    getS st1 s = getS st s := by
  unfold getS; rw [h]
  simp only [List.getD_eq_getElem?_getD]
  by_cases hs : s < st.sess.length
  · simp [List.getElem?_append_left hs]
  · have h1 : st.sess.length ≤ s := Nat.le_of_not_lt hs
    rw [List.getElem?_eq_none h1]
    by_cases h2 : s = st.sess.length
    · subst h2; simp
    · have h3 : (st.sess ++ [({} : Sess)]).length ≤ s := by simp; omega
      rw [List.getElem?_eq_none h3]

@[simp] theorem destruct_sess (st : St) (a : Nat) : (destruct st a).sess = st.sess := rfl
@[simp] theorem destruct_ths (st : St) (a : Nat) : (destruct st a).ths = st.ths := rfl
@[simp] theorem destruct_cur (st : St) (a : Nat) : (destruct st a).cur = st.cur := rfl
@[simp] theorem destruct_activeSeqno (st : St) (a : Nat) : (destruct st a).activeSeqno = st.activeSeqno := rfl
@[simp] theorem destruct_freeSeqno (st : St) (a : Nat) : (destruct st a).freeSeqno = st.freeSeqno + 1 := rfl
@[simp] theorem destruct_freeq (st : St) (a : Nat) : (destruct st a).freeq = st.freeq.erase a := rfl
@[simp] theorem destruct_flag (st : St) (a : Nat) : (destruct st a).flag = st.flag := rfl
@[simp] theorem destruct_mutex (st : St) (a : Nat) : (destruct st a).mutex = st.mutex := rfl
@[simp] theorem destruct_numAllocated (st : St) (a : Nat) : (destruct st a).numAllocated = st.numAllocated := rfl
@[simp] theorem destruct_numFreed (st : St) (a : Nat) : (destruct st a).numFreed = st.numFreed + 1 := rfl
@[simp] theorem destruct_panicked (st : St) (a : Nat) : (destruct st a).panicked = st.panicked := rfl
@[simp] theorem destruct_log (st : St) (a : Nat) :
    (destruct st a).log = st.log ++ [((getS st a).seqno, (getS st a).obj)] := rfl
@[simp] theorem destruct_tagged (st : St) (a : Nat) : (destruct st a).tagged = st.tagged := rfl
@[simp] theorem destruct_flStarted (st : St) (a : Nat) : (destruct st a).flStarted = st.flStarted := rfl
@[simp] theorem destruct_flDone (st : St) (a : Nat) : (destruct st a).flDone = st.flDone := rfl
@[simp] theorem getS_destruct (st : St) (a s : Nat) : getS (destruct st a) s = getS st s := rfl

@[simp] theorem tagGlobals_sess (st : St) (o : Nat) : (tagGlobals st o).sess = st.sess := rfl
@[simp] theorem tagGlobals_ths (st : St) (o : Nat) : (tagGlobals st o).ths = st.ths := rfl
@[simp] theorem tagGlobals_cur (st : St) (o : Nat) : (tagGlobals st o).cur = st.cur := rfl
@[simp] theorem tagGlobals_activeSeqno (st : St) (o : Nat) : (tagGlobals st o).activeSeqno = st.activeSeqno + 1 := rfl
@[simp] theorem tagGlobals_freeSeqno (st : St) (o : Nat) : (tagGlobals st o).freeSeqno = st.freeSeqno := rfl
@[simp] theorem tagGlobals_freeq (st : St) (o : Nat) : (tagGlobals st o).freeq = st.freeq := rfl
@[simp] theorem tagGlobals_flag (st : St) (o : Nat) : (tagGlobals st o).flag = st.flag := rfl
@[simp] theorem tagGlobals_mutex (st : St) (o : Nat) : (tagGlobals st o).mutex = st.mutex := rfl
@[simp] theorem tagGlobals_numAllocated (st : St) (o : Nat) : (tagGlobals st o).numAllocated = st.numAllocated + 1 := rfl
@[simp] theorem tagGlobals_numFreed (st : St) (o : Nat) : (tagGlobals st o).numFreed = st.numFreed := rfl
@[simp] theorem tagGlobals_panicked (st : St) (o : Nat) : (tagGlobals st o).panicked = st.panicked := rfl
@[simp] theorem tagGlobals_log (st : St) (o : Nat) : (tagGlobals st o).log = st.log := rfl
@[simp] theorem tagGlobals_tagged (st : St) (o : Nat) : (tagGlobals st o).tagged = st.tagged ++ [o] := rfl
@[simp] theorem tagGlobals_flStarted (st : St) (o : Nat) : (tagGlobals st o).flStarted = st.flStarted := rfl
@[simp] theorem tagGlobals_flDone (st : St) (o : Nat) : (tagGlobals st o).flDone = st.flDone := rfl
@[simp] theorem getS_tagGlobals (st : St) (o s : Nat) : getS (tagGlobals st o) s = getS st s := rfl

/-! ### session updates -/
@[simp] theorem addLive_live (x : Sess) (d : Int) : (x.addLive d).live = x.live + d := rfl
@[simp] theorem addLive_closed (x : Sess) (d : Int) : (x.addLive d).closed = x.closed := rfl
@[simp] theorem addLive_seqno (x : Sess) (d : Int) : (x.addLive d).seqno = x.seqno := rfl
@[simp] theorem addLive_obj (x : Sess) (d : Int) : (x.addLive d).obj = x.obj := rfl
@[simp] theorem addLive_flushed (x : Sess) (d : Int) : (x.addLive d).flushed = x.flushed := rfl
@[simp] theorem incClosed_live (x : Sess) : x.incClosed.live = x.live := rfl
@[simp] theorem incClosed_closed (x : Sess) : x.incClosed.closed = x.closed + 1 := rfl
@[simp] theorem incClosed_seqno (x : Sess) : x.incClosed.seqno = x.seqno := rfl
@[simp] theorem incClosed_obj (x : Sess) : x.incClosed.obj = x.obj := rfl
@[simp] theorem incClosed_flushed (x : Sess) : x.incClosed.flushed = x.flushed := rfl
@[simp] theorem tag_live (x : Sess) (o a : Nat) : (x.tag o a).live = x.live := rfl
@[simp] theorem tag_closed (x : Sess) (o a : Nat) : (x.tag o a).closed = x.closed := rfl
@[simp] theorem tag_seqno (x : Sess) (o a : Nat) : (x.tag o a).seqno = a := rfl
@[simp] theorem tag_obj (x : Sess) (o a : Nat) : (x.tag o a).obj = o := rfl
@[simp] theorem tag_flushed (x : Sess) (o a : Nat) : (x.tag o a).flushed = x.flushed := rfl
@[simp] theorem flush_live (x : Sess) : x.flush.live = x.live + Gen.flushAdd := rfl
@[simp] theorem flush_closed (x : Sess) : x.flush.closed = x.closed := rfl
@[simp] theorem flush_seqno (x : Sess) : x.flush.seqno = x.seqno := rfl
@[simp] theorem flush_obj (x : Sess) : x.flush.obj = x.obj := rfl
@[simp] theorem flush_flushed (x : Sess) : x.flush.flushed = true := rfl

@[simp] theorem default_live : ({} : Sess).live = 0 := rfl
@[simp] theorem default_closed : ({} : Sess).closed = 0 := rfl
@[simp] theorem default_seqno : ({} : Sess).seqno = 0 := rfl
@[simp] theorem default_obj : ({} : Sess).obj = 0 := rfl
@[simp] theorem default_flushed : ({} : Sess).flushed = false := rfl

theorem off_val : Gen.barrierFlushOffset = 1073741823 := barrierFlushOffset_val
theorem flushAdd_val : Gen.flushAdd = 1073741824 := by decide

/-! ### lists of tokens -/

theorem count_eraseIdx (l : List Nat) (i s x : Nat) (h : l[i]? = some s) :
    (l.eraseIdx i).count x + (if s = x then 1 else 0) = l.count x := by
  induction l generalizing i with
  | nil => simp at h
  | cons y ys ih =>
    cases i with
    | zero => simp at h; subst h; simp [List.count_cons]
    | succ j =>
      simp at h; have := ih j h
      simp [List.count_cons] at this ⊢; omega

theorem mem_of_getElem? (l : List Nat) (i s : Nat) (h : l[i]? = some s) : s ∈ l :=
  List.mem_of_getElem? h

end NitroVerif.Barrier
