/-
  `Nitro.Close()` at quiescence: every block still live belongs to a linked node or is a sentinel, and
  `shutdown` returns each of them exactly once.
-/
import NitroVerif.Lemmas.MvccConcSafe

namespace NitroVerif.MvccConc
open NitroVerif

theorem flatMap_eq_nil_of_forall {α β : Type} {l : List α} {g : α → List β} (h : ∀ a ∈ l, g a = []) :
    l.flatMap g = [] := by
  induction l with
  | nil => rfl
  | cons x xs ih =>
    rw [List.flatMap_cons, h x (List.mem_cons_self), ih (fun a ha => h a (List.mem_cons_of_mem _ ha))]
    rfl

structure Quiet (σ : State) : Prop where
  threads : ∀ pc ∈ σ.threads, pc = .idle
  gc : ∀ j ∈ σ.gcJobs, j.pc = .finished
  fr : ∀ j ∈ σ.frJobs, j.pc = .finished
  iters : σ.iters = []
  held : ∀ s ∈ σ.snaps, s.held = false

theorem quiescent_spec {σ : State} (hq : quiescent σ = true) : Quiet σ := by
  unfold quiescent at hq
  simp only [Bool.and_eq_true, List.all_eq_true, Bool.not_eq_true', List.any_eq_false, List.isEmpty_iff,
    beq_iff_eq, gcPending, frPending, bne_iff_ne, ne_eq, Decidable.not_not, Bool.not_eq_eq_eq_not,
    Bool.not_true] at hq
  obtain ⟨⟨⟨⟨h1, h2⟩, h3⟩, h4⟩, h5⟩ := hq
  exact ⟨h1, fun j hj => by simpa using h2 j hj, fun j hj => by simpa using h3 j hj, h4, fun s hs => by
    simpa using h5 s hs⟩

/-- at quiescence only the store owns nodes -/
theorem own_quiet {σ : State} (h : Inv σ) (hq : Quiet σ) :
    (∀ n, own σ n = (storeIds σ.store).count n) ∧ ∀ n, ¬ reserved σ.threads n := by
  have hthr : thrOwned σ.threads = [] := by
    unfold thrOwned
    exact flatMap_eq_nil_of_forall (fun pc hpc => by rw [hq.threads pc hpc]; rfl)
  have hgc : gcOwned σ.gcJobs = [] := by
    unfold gcOwned
    exact flatMap_eq_nil_of_forall (fun j hj => by simp [gcOwn, hq.gc j hj])
  have hfr : frOwned σ.frJobs = [] := by
    unfold frOwned
    exact flatMap_eq_nil_of_forall (fun j hj => by simp [frOwn, hq.fr j hj])
  -- nobody holds a token
  have hhold : ∀ (i : Nat) (s : Sess), σ.sess[i]? = some s → s.holders = [] := by
    intro i s hs
    cases hh : s.holders with
    | nil => rfl
    | cons hd tl =>
      exfalso
      have hc := (h.tok.conv i s hs).2 hd (by rw [hh]; exact List.mem_cons_self)
      cases hd with
      | thr t =>
        obtain ⟨pc, hpc, htk⟩ := hc
        have := hq.threads pc (List.mem_of_getElem? hpc)
        subst this; simp [Pc.tok] at htk
      | it t j =>
        obtain ⟨it, hm, _⟩ := hc
        rw [hq.iters] at hm; simp at hm
  -- so every flushed session is destructed
  have hfs : σ.freeSeq + 1 = σ.sess.length := by
    have hlt := h.tok.lt
    have hg : σ.sess[σ.freeSeq]? = some σ.sess[σ.freeSeq] := List.getElem?_eq_getElem hlt
    have hterm := h.tok.fix _ hg
    have hho := hhold _ _ hg
    have hfl : σ.sess[σ.freeSeq].flushed = false := by
      cases hb : σ.sess[σ.freeSeq].flushed
      · rfl
      · simp [Sess.terminated, hb, hho] at hterm
    have := h.tok.flushed _ _ hg
    cases Nat.lt_or_ge (σ.freeSeq + 1) σ.sess.length with
    | inl hl => have := this.mpr hl; rw [hfl] at this; cases this
    | inr hge => omega
  have hsess : sessOwned σ.sess σ.freeSeq = [] := by
    unfold sessOwned
    apply flatMap_eq_nil_of_forall
    intro s hs
    obtain ⟨i, hi⟩ := mem_iff_get.mp hs
    rw [List.getElem?_drop] at hi
    have hil : σ.freeSeq + i < σ.sess.length := (List.getElem?_eq_some_iff.mp hi).1
    have hfl : s.flushed = false := by
      cases hb : s.flushed
      · rfl
      · have := (h.tok.flushed _ s hi).mp hb; omega
    exact h.tok.nolist _ s hi hfl
  refine ⟨?_, ?_⟩
  · intro n
    unfold own ownC sessfr
    rw [hthr, hgc, hfr, hsess]; simp
  · rintro n ⟨k, v, b, hm⟩
    have := hq.threads _ hm; cases this

/-- the allocator's books after `Close()` -/
theorem shutdown_books {σ : State} (h : Inv σ) (hq : quiescent σ = true) :
    (shutdown σ).1.bad = [] ∧
    (shutdown σ).1.allocd = σ.allocd ∧
    (shutdown σ).1.freed = σ.freed ++ blocksOf (storeIds σ.store) ++ [Blk.head] ++ [Blk.tail] ∧
    (shutdown σ).1.freed.Nodup ∧
    (∀ b, b ∈ (shutdown σ).1.freed ↔ b ∈ (shutdown σ).1.allocd) := by
  have hQ := quiescent_spec hq
  have ⟨hownq, hnores⟩ := own_quiet h hQ
  have hown := h.own
  have hids := h.store.ids
  have hblocks : ∀ m ∈ storeIds σ.store, Blk.item m ∈ σ.allocd ∧ Blk.node m ∈ σ.allocd ∧
      Blk.item m ∉ σ.freed ∧ Blk.node m ∉ σ.freed := by
    intro m hm
    obtain ⟨x, hx, rfl⟩ := List.mem_map.mp hm
    have hl := live_of_linked h hx
    rw [isLive_iff, isLive_iff] at hl
    exact ⟨hl.1.1, hl.2.1, hl.1.2, hl.2.2⟩
  obtain ⟨hfreed, hbad⟩ := freeNodes_spec (storeIds σ.store) σ hids hblocks
  have hhead1 : Blk.head ∉ (freeNodes σ (storeIds σ.store)).freed := by
    rw [hfreed]; intro hm
    rcases List.mem_append.mp hm with hm | hm
    · exact hown.sent.2.2.1 hm
    · obtain ⟨k, _, hb⟩ := mem_blocksOf.mp hm; rcases hb with hb | hb <;> cases hb
  have e1 := free_live (σ := freeNodes σ (storeIds σ.store)) (b := .head) (by simp; exact hown.sent.1) hhead1
  have htail1 : Blk.tail ∉ (free (freeNodes σ (storeIds σ.store)) .head).freed := by
    rw [e1.1, hfreed]; intro hm
    rcases List.mem_append.mp hm with hm | hm
    · rcases List.mem_append.mp hm with hm | hm
      · exact hown.sent.2.2.2 hm
      · obtain ⟨k, _, hb⟩ := mem_blocksOf.mp hm; rcases hb with hb | hb <;> cases hb
    · simp at hm
  have e2 := free_live (σ := free (freeNodes σ (storeIds σ.store)) .head) (b := .tail)
    (by rw [e1.2.2]; simp; exact hown.sent.2.1) htail1
  have hstate : (shutdown σ).1 =
      { (free (free (freeNodes σ (σ.store.map (·.id))) .head) .tail) with down := true } := by
    unfold shutdown; simp [hq]
  have hfr : (shutdown σ).1.freed = σ.freed ++ blocksOf (storeIds σ.store) ++ [Blk.head] ++ [Blk.tail] := by
    rw [hstate]; show (free (free (freeNodes σ (storeIds σ.store)) .head) .tail).freed = _
    rw [e2.1, e1.1, hfreed]
  have hal : (shutdown σ).1.allocd = σ.allocd := by
    rw [hstate]; show (free (free (freeNodes σ (storeIds σ.store)) .head) .tail).allocd = _
    rw [e2.2.2, e1.2.2]; simp
  have hbd : (shutdown σ).1.bad = [] := by
    rw [hstate]; show (free (free (freeNodes σ (storeIds σ.store)) .head) .tail).bad = _
    rw [e2.2.1, e1.2.1, hbad]; exact hown.bad
  refine ⟨hbd, hal, hfr, ?_, ?_⟩
  · rw [hfr]
    have hnd1 : (σ.freed ++ blocksOf (storeIds σ.store)).Nodup := by
      rw [List.nodup_append]
      refine ⟨hown.f_nodup, blocksOf_nodup _ hids, ?_⟩
      intro a ha b hb he; subst he
      obtain ⟨k, hk, hbk⟩ := mem_blocksOf.mp hb
      have := hblocks k hk
      rcases hbk with rfl | rfl
      · exact this.2.2.1 ha
      · exact this.2.2.2 ha
    have hnd2 : (σ.freed ++ blocksOf (storeIds σ.store) ++ [Blk.head]).Nodup := by
      rw [List.nodup_append]
      refine ⟨hnd1, by simp, ?_⟩
      intro a ha b hb he
      simp at hb; subst hb; subst he
      rw [← hfreed] at ha; exact hhead1 ha
    rw [List.nodup_append]
    refine ⟨hnd2, by simp, ?_⟩
    intro a ha b hb he
    simp at hb; subst hb; subst he
    rw [← hfreed, ← e1.1] at ha; exact htail1 ha
  · intro b
    rw [hfr, hal]
    simp only [List.mem_append, List.mem_singleton, mem_blocksOf]
    cases b with
    | head => simp [hown.sent.1]
    | tail => simp [hown.sent.2.1]
    | item n =>
      rw [hown.a_item, hown.f_item]
      constructor
      · rintro (((h1 | ⟨m, hm, hb⟩) | h1) | h1)
        · exact h1.1
        · rcases hb with hb | hb <;> simp at hb
          subst hb
          obtain ⟨x, hx, rfl⟩ := List.mem_map.mp hm
          exact (h.store.id_lt x hx).1
        · cases h1
        · cases h1
      · intro hlt
        left; left
        by_cases hz : (storeIds σ.store).count n = 0
        · left; exact ⟨hlt, by have := hownq n; unfold own at this; omega⟩
        · right
          exact ⟨n, List.count_pos_iff.mp (by omega), Or.inl rfl⟩
    | node n =>
      rw [hown.a_node, hown.f_node]
      constructor
      · rintro (((h1 | ⟨m, hm, hb⟩) | h1) | h1)
        · exact ⟨h1.1, hnores n⟩
        · rcases hb with hb | hb <;> simp at hb
          subst hb
          obtain ⟨x, hx, rfl⟩ := List.mem_map.mp hm
          exact ⟨(h.store.id_lt x hx).1, hnores _⟩
        · cases h1
        · cases h1
      · rintro ⟨hlt, _⟩
        left; left
        by_cases hz : (storeIds σ.store).count n = 0
        · left; exact ⟨hlt, by have := hownq n; unfold own at this; omega⟩
        · right
          exact ⟨n, List.count_pos_iff.mp (by omega), Or.inr rfl⟩

/-- what every reachable state (shut down or not) satisfies about the allocator's books -/
structure Books (σ : State) : Prop where
  bad : σ.bad = []
  f_nodup : σ.freed.Nodup
  a_nodup : σ.allocd.Nodup
  sub : ∀ b ∈ σ.freed, b ∈ σ.allocd

theorem books_of_inv {σ : State} (h : Inv σ) : Books σ := by
  refine ⟨h.own.bad, h.own.f_nodup, h.own.a_nodup, ?_⟩
  intro b hb
  cases b with
  | head => exact absurd hb h.own.sent.2.2.1
  | tail => exact absurd hb h.own.sent.2.2.2
  | item n => exact (h.own.a_item n).mpr ((h.own.f_item n).mp hb).1
  | node n =>
    have := (h.own.f_node n).mp hb
    refine (h.own.a_node n).mpr ⟨this.1, ?_⟩
    intro hr
    have h1 := reserved_count hr
    unfold ownC at this; omega

theorem books_reachable {fx : Bool} {nw nr : Nat} {σ : State} (hr : ReachableFx fx nw nr σ) : Books σ := by
  induction hr with
  | init => exact books_of_inv (inv_init nw nr fx)
  | @step σ a hr ih =>
    by_cases hdown : σ.down = true
    · rw [step_down hdown]; exact ih
    · have hd0 : σ.down = false := by simpa using hdown
      have hinv := inv_reachable hr hd0
      by_cases ha : a = .shutdown
      · subst ha
        have hst : step σ .shutdown = shutdown σ := by unfold step; simp [hd0]
        rw [hst]
        by_cases hq : quiescent σ = true
        · have ⟨h1, h2, _, h4, h5⟩ := shutdown_books hinv hq
          exact ⟨h1, h4, by rw [h2]; exact hinv.own.a_nodup, fun b hb => (h5 b).mp hb⟩
        · have : (shutdown σ).1 = σ := by unfold shutdown; simp [hq]
          rw [this]; exact ih
      · exact books_of_inv (inv_step hinv a ha)

end NitroVerif.MvccConc
