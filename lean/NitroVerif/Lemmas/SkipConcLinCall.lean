import NitroVerif.Lemmas.SkipConcLinStep
/-!
  CALLS in a history and the history invariant that assembles the per-call linearization points.

  * `StartsAt n as t op s`   action `s` is an accepted call entry `start t op` (thread `t` exists and is idle);
  * `InCall n as t op s j`   … and thread `t` is busy at every position in `(s, j]`: at position `j` it is still
                             inside the call entered at `s` (an in-flight call);
  * `Call n as t op s e out` … and action `e` is the segment of `t` that returns (`t` idle at `e + 1`), printing `out`.

  `InsPoint n as t k p` / `DelPoint n as t k p`: action `p` is a segment of thread `t` that adds `k` to (removes `k`
  from) the abstract set, `k` being absent (present) just before.  `NoOwnChange n as t a b`: no segment of `t` at a
  position strictly between `a` and `b` changes the abstract set.

  `ev_invariant`: at every position, every in-flight call carries the evidence `PhaseEv` of its phase (its unique
  point so far, or none yet; where its search started; which node it is marking and when that node was seen live).
  `call_spec`: a completed call satisfies `RetSpec`.  `changes_spec`: every change of the abstract trace is the
  point of an in-flight Insert / Delete call of the thread that took the step.
-/
namespace NitroVerif.SkipConc
open NitroVerif

/-! ### threads along a history -/

def actor : Action → Nat
  | .start t _ => t
  | .step t => t

theorem act_threads_ne (s : Sys) (a : Action) {t : Nat} (h : actor a ≠ t) :
    (s.act a).threads[t]? = s.threads[t]? := by
  cases a with
  | start t' op =>
    simp only [actor] at h
    simp only [Sys.act]
    unfold Sys.start
    split
    · rfl
    · split
      · simp only []; exact List.getElem?_set_ne h
      · rfl
  | step t' =>
    simp only [actor] at h
    simp only [Sys.act]
    unfold Sys.step
    split
    · rfl
    · split
      · rfl
      · simp only []; exact List.getElem?_set_ne h

theorem isIdle_false_iff (pc : PC) : isIdle pc = false ↔ pc ≠ .idle := by
  constructor
  · intro h hp; rw [hp] at h; simp [isIdle] at h
  · intro h
    cases hi : isIdle pc with
    | false => rfl
    | true => exact absurd ((isIdle_iff _).mp hi) h

theorem Sys.step_busy_out {s : Sys} {t : Nat} {th : Thread} (h : s.threads[t]? = some th) (hi : th.pc ≠ .idle) :
    (s.step t).2 = (stepThread s.sh th).2.2 := by
  unfold Sys.step; rw [h]
  cases hp : th.pc <;> simp_all

theorem lt_of_getElem?_some {α : Type} {l : List α} {t : Nat} {x : α} (h : l[t]? = some x) : t < l.length := by
  by_cases hl : t < l.length
  · exact hl
  · rw [List.getElem?_eq_none (by omega)] at h; simp at h

theorem thrAt_succ_none {n : Nat} {as : List Action} {t j : Nat} (h : as[j]? = none) :
    thrAt n as t (j + 1) = thrAt n as t j := by
  unfold thrAt; rw [stAt_succ_none h]

theorem thrAt_succ_ne {n : Nat} {as : List Action} {t j : Nat} {a : Action} (h : as[j]? = some a)
    (hne : actor a ≠ t) : thrAt n as t (j + 1) = thrAt n as t j := by
  unfold thrAt; rw [stAt_succ_some h]; exact act_threads_ne _ _ hne

/-- a call entry on a busy thread is refused: nothing changes -/
theorem stAt_succ_start_busy {n : Nat} {as : List Action} {t j : Nat} {op : Op} {th : Thread}
    (h : as[j]? = some (.start t op)) (hth : thrAt n as t j = some th) (hb : isIdle th.pc = false) :
    stAt n as (j + 1) = stAt n as j := by
  rw [stAt_succ_some h]; exact Sys.start_busy hth hb

/-- a segment requested of an idle thread is refused: nothing changes -/
theorem stAt_succ_step_idle {n : Nat} {as : List Action} {t j : Nat} {th : Thread}
    (h : as[j]? = some (.step t)) (hth : thrAt n as t j = some th) (hb : isIdle th.pc = true) :
    stAt n as (j + 1) = stAt n as j := by
  rw [stAt_succ_some h]; exact Sys.step_idle hth ((isIdle_iff _).mp hb)

theorem stAt_succ_absent {n : Nat} {as : List Action} {t j : Nat} {a : Action}
    (h : as[j]? = some a) (ha : actor a = t) (hth : thrAt n as t j = none) :
    stAt n as (j + 1) = stAt n as j := by
  rw [stAt_succ_some h]
  cases a with
  | start t' op => simp only [actor] at ha; subst ha; exact Sys.start_none hth
  | step t' => simp only [actor] at ha; subst ha; exact Sys.step_none hth

/-- the segment of a busy thread -/
theorem own_step {n : Nat} {as : List Action} {t j : Nat} {th : Thread} (haj : as[j]? = some (.step t))
    (hth : thrAt n as t j = some th) (hb : isIdle th.pc = false) :
    thrAt n as t (j + 1) = some (stepThread (stAt n as j).sh th).2.1 ∧
    heapAt n as (j + 1) = (stepThread (stAt n as j).sh th).1.heap ∧
    ((stAt n as j).step t).2 = (stepThread (stAt n as j).sh th).2.2 := by
  have hne := (isIdle_false_iff _).mp hb
  unfold thrAt heapAt
  rw [stAt_succ_some haj]
  simp only [Sys.act]
  rw [Sys.step_busy hth hne]
  exact ⟨List.getElem?_set_self (lt_of_getElem?_some hth), rfl, Sys.step_busy_out hth hne⟩

/-- the accepted entry of a call -/
theorem own_start {n : Nat} {as : List Action} {t j : Nat} {op : Op} {th : Thread}
    (haj : as[j]? = some (.start t op)) (hth : thrAt n as t j = some th) (hb : isIdle th.pc = true) :
    thrAt n as t (j + 1) = some (startOp (stAt n as j).sh th op).2.1 ∧ heapAt n as (j + 1) = heapAt n as j := by
  unfold thrAt heapAt
  rw [stAt_succ_some haj]
  simp only [Sys.act]
  rw [Sys.start_idle hth hb]
  exact ⟨List.getElem?_set_self (lt_of_getElem?_some hth), startOp_heap ..⟩

/-! ### calls -/

def BusyAt (n : Nat) (as : List Action) (t i : Nat) : Prop :=
  ∃ th, thrAt n as t i = some th ∧ isIdle th.pc = false

def IdleAt (n : Nat) (as : List Action) (t i : Nat) : Prop :=
  ∃ th, thrAt n as t i = some th ∧ isIdle th.pc = true

/-- action `s` is an accepted call entry of thread `t` -/
def StartsAt (n : Nat) (as : List Action) (t : Nat) (op : Op) (s : Nat) : Prop :=
  as[s]? = some (.start t op) ∧ IdleAt n as t s

/-- at position `j` thread `t` is inside the call it entered at action `s` -/
def InCall (n : Nat) (as : List Action) (t : Nat) (op : Op) (s j : Nat) : Prop :=
  StartsAt n as t op s ∧ s < j ∧ ∀ i, s < i → i ≤ j → BusyAt n as t i

/-- a completed call: entered at action `s`, returned by action `e` with the printed line `out` -/
structure Call (n : Nat) (as : List Action) (t : Nat) (op : Op) (s e : Nat) (out : String) : Prop where
  inCall : InCall n as t op s e
  step : as[e]? = some (.step t)
  idle : IdleAt n as t (e + 1)
  out : ((stAt n as e).step t).2 = out

/-- action `p` leaves the abstract set as it is -/
def AbsSame (n : Nat) (as : List Action) (p : Nat) : Prop := ∀ k, absAt n as (p + 1) k ↔ absAt n as p k

/-- no segment of `t` strictly between `a` and `b` changes the abstract set -/
def NoOwnChange (n : Nat) (as : List Action) (t a b : Nat) : Prop :=
  ∀ p, a < p → p < b → as[p]? = some (.step t) → AbsSame n as p

/-- action `p` is a segment of `t` that adds `k`, absent just before -/
def InsPoint (n : Nat) (as : List Action) (t k p : Nat) : Prop :=
  as[p]? = some (.step t) ∧ ¬ absAt n as p k ∧ ∀ k', absAt n as (p + 1) k' ↔ (absAt n as p k' ∨ k' = k)

/-- action `p` is a segment of `t` that removes `k`, present just before -/
def DelPoint (n : Nat) (as : List Action) (t k p : Nat) : Prop :=
  as[p]? = some (.step t) ∧ absAt n as p k ∧ ∀ k', absAt n as (p + 1) k' ↔ (absAt n as p k' ∧ k' ≠ k)

/-- the call entered at `s` has had its point `p` (property `P`), and no other change of its own, before `j` -/
def Done (P : Nat → Prop) (n : Nat) (as : List Action) (t s j : Nat) : Prop :=
  ∃ p, s < p ∧ p < j ∧ P p ∧ NoOwnChange n as t s p ∧ NoOwnChange n as t p j

theorem AbsSame.of_unmSame {n : Nat} {as : List Action} {p : Nat}
    (u : UnmSame (heapAt n as p) (heapAt n as (p + 1))) : AbsSame n as p :=
  fun k => u.abs (heap_ext_succ n as p) k

theorem NoOwnChange.nil (n : Nat) (as : List Action) (t a : Nat) : NoOwnChange n as t a (a + 1) :=
  fun p h1 h2 _ => by omega

theorem NoOwnChange.snoc {n : Nat} {as : List Action} {t a j : Nat} (h : NoOwnChange n as t a j)
    (hj : as[j]? = some (.step t) → AbsSame n as j) : NoOwnChange n as t a (j + 1) := by
  intro p h1 h2 h3
  by_cases hp : p = j
  · subst hp; exact hj h3
  · exact h p h1 (by omega) h3

theorem Done.snoc {P : Nat → Prop} {n : Nat} {as : List Action} {t s j : Nat} (h : Done P n as t s j)
    (hj : as[j]? = some (.step t) → AbsSame n as j) : Done P n as t s (j + 1) := by
  obtain ⟨p, h1, h2, h3, h4, h5⟩ := h
  exact ⟨p, h1, by omega, h3, h4, h5.snoc hj⟩

/-- the evidence an in-flight call carries, by phase (`s` = its entry, `j` = the current position) -/
def PhaseEv (n : Nat) (as : List Action) (t s j : Nat) : Phase → Prop
  | .idle => False
  | .insPre _ => NoOwnChange n as t s j
  | .insPost k => Done (InsPoint n as t k) n as t s j
  | .delFind _ L => L = (heapAt n as (s + 1)).length ∧ NoOwnChange n as t s j
  | .delMark k nd m => keyOf (heapAt n as j) nd = .fin k ∧
      (m = false → NoOwnChange n as t s j ∧ ∃ q, s < q ∧ q ≤ j ∧ unmarked0 (heapAt n as q) nd) ∧
      (m = true → marked0 (heapAt n as j) nd ∧ Done (DelPoint n as t k) n as t s j)
  | .delClean k => Done (DelPoint n as t k) n as t s j
  | .look _ L => L = (heapAt n as (s + 1)).length ∧ NoOwnChange n as t s j
  | .iter => NoOwnChange n as t s j

/-- the evidence of the in-flight call `op` entered at `s`, at position `j`, the thread being at `pc` -/
def Ev (n : Nat) (as : List Action) (t : Nat) (op : Op) (s j : Nat) (pc : PC) : Prop :=
  kindOf (phase pc) = opKind op ∧ PhaseEv n as t s j (phase pc)

theorem PhaseEv.snoc {n : Nat} {as : List Action} {t s j : Nat} {ph : Phase} (h : PhaseEv n as t s j ph)
    (hj : as[j]? = some (.step t) → AbsSame n as j) : PhaseEv n as t s (j + 1) ph := by
  cases ph with
  | idle => exact h
  | insPre k => exact NoOwnChange.snoc h hj
  | insPost k => exact Done.snoc h hj
  | delFind k L => exact ⟨h.1, h.2.snoc hj⟩
  | delMark k nd m =>
    obtain ⟨h1, h2, h3⟩ := h
    have e1 := heap_ext_succ n as j
    refine ⟨(e1.key nd (lt_of_keyOf_fin h1)).trans h1, fun hm => ?_, fun hm => ?_⟩
    · obtain ⟨h4, q, h5, h6, h7⟩ := h2 hm
      exact ⟨h4.snoc hj, q, h5, by omega, h7⟩
    · obtain ⟨h4, h5⟩ := h3 hm
      exact ⟨marked0_ext e1 h4, h5.snoc hj⟩
  | delClean k => exact Done.snoc h hj
  | look k L => exact ⟨h.1, h.2.snoc hj⟩
  | iter => exact NoOwnChange.snoc h hj

theorem PhaseEv_start {n : Nat} {as : List Action} (t s : Nat) {L : Nat} (op : Op)
    (hL : L = (heapAt n as (s + 1)).length) : PhaseEv n as t s (s + 1) (startPhase L op) := by
  cases op with
  | ins k lvl => exact NoOwnChange.nil _ _ _ _
  | del k => exact ⟨hL, NoOwnChange.nil _ _ _ _⟩
  | look k => exact ⟨hL, NoOwnChange.nil _ _ _ _⟩
  | itFirst it => exact NoOwnChange.nil _ _ _ _
  | itSeek it k => exact NoOwnChange.nil _ _ _ _
  | itNext it => exact NoOwnChange.nil _ _ _ _
  | itClose it => exact NoOwnChange.nil _ _ _ _
  | itInterval it m => exact NoOwnChange.nil _ _ _ _
  | itRefresh it => exact NoOwnChange.nil _ _ _ _

/-! ### what a completed call guarantees -/

/-- the specification of a completed call (entered at `s`, returned by action `e`, printed `out`), by kind:
    Insert true  — exactly one own change, at its point `p ∈ (s, e]`: `k` absent before, added by that step;
    Insert false — no own change; `k` present at a position `q ∈ (s, e]`;
    Delete true  — exactly one own change, at its point `p ∈ (s, e]`: `k` present before, removed by that step;
    Delete false — no own change; `k` absent at a position `q ∈ (s, e]` (miss, or lost mark race);
    Lookup       — no own change; `k` present / absent at a position `q ∈ (s, e]` according to the answer;
    iterator     — no own change. -/
def RetSpec (n : Nat) (as : List Action) (t s e : Nat) (out : String) : Kind → Prop
  | .none => False
  | .ins k =>
    (out = "ret true" ∧ ∃ p, s < p ∧ p ≤ e ∧ InsPoint n as t k p ∧ NoOwnChange n as t s p ∧
      NoOwnChange n as t p (e + 1)) ∨
    (out = "ret false" ∧ NoOwnChange n as t s (e + 1) ∧ ∃ q, s < q ∧ q ≤ e ∧ absAt n as q k)
  | .del k =>
    (out = "ret true" ∧ ∃ p, s < p ∧ p ≤ e ∧ DelPoint n as t k p ∧ NoOwnChange n as t s p ∧
      NoOwnChange n as t p (e + 1)) ∨
    (out = "ret false" ∧ NoOwnChange n as t s (e + 1) ∧ ∃ q, s < q ∧ q ≤ e ∧ ¬ absAt n as q k)
  | .look k => NoOwnChange n as t s (e + 1) ∧
    ((out = "ret true" ∧ ∃ q, s < q ∧ q ≤ e ∧ absAt n as q k) ∨
     (out = "ret false" ∧ ∃ q, s < q ∧ q ≤ e ∧ ¬ absAt n as q k))
  | .iter => NoOwnChange n as t s (e + 1)

theorem not_idle_of_phase {pc' : PC} {ph : Phase} (hp : phase pc' = ph) (hne : ph ≠ .idle) : pc' ≠ .idle := by
  intro h; rw [h] at hp; exact hne hp.symm

/-- the thread's own segment, case "the call goes on in phase `ph'`" -/
theorem ev_stay {n : Nat} {as : List Action} {t s j : Nat} {pc' : PC} {out : String} {ph ph' : Phase}
    (hp : phase pc' = ph') (hne : ph' ≠ .idle) (hk : kindOf ph' = kindOf ph)
    (hev' : PhaseEv n as t s (j + 1) ph') :
    (pc' ≠ .idle → kindOf (phase pc') = kindOf ph ∧ PhaseEv n as t s (j + 1) (phase pc')) ∧
    (pc' = .idle → RetSpec n as t s j out (kindOf ph)) :=
  ⟨fun _ => by rw [hp]; exact ⟨hk, hev'⟩, fun hi => absurd hi (not_idle_of_phase hp hne)⟩

/-- the thread's own segment, case "the call returns" -/
theorem ev_ret {n : Nat} {as : List Action} {t s j : Nat} {pc' : PC} {out : String} {ph : Phase}
    (hi : pc' = .idle) (hr : RetSpec n as t s j out (kindOf ph)) :
    (pc' ≠ .idle → kindOf (phase pc') = kindOf ph ∧ PhaseEv n as t s (j + 1) (phase pc')) ∧
    (pc' = .idle → RetSpec n as t s j out (kindOf ph)) :=
  ⟨fun h => absurd hi h, fun _ => hr⟩

/-- THE STEP OF THE HISTORY INVARIANT for the thread's own segment: from the evidence at position `j` and the
    transition lemma, the evidence at `j + 1` if the call goes on, the specification if it returns -/
theorem ev_own {n : Nat} {as : List Action} {t s j : Nat} {ph : Phase} {pc' : PC} {out : String} (hsj : s < j)
    (haj : as[j]? = some (.step t)) (hev : PhaseEv n as t s j ph)
    (htr : Trans (heapAt n as j) (heapAt n as (j + 1)) pc' out ph) :
    (pc' ≠ .idle → kindOf (phase pc') = kindOf ph ∧ PhaseEv n as t s (j + 1) (phase pc')) ∧
    (pc' = .idle → RetSpec n as t s j out (kindOf ph)) := by
  have hI := stAt_invR n as j
  have e1 := heap_ext_succ n as j
  have same : UnmSame (heapAt n as j) (heapAt n as (j + 1)) → as[j]? = some (.step t) → AbsSame n as j :=
    fun u _ => AbsSame.of_unmSame u
  cases ph with
  | idle => exact absurd hev id
  | insPre k =>
    rcases htr with ⟨u, hp⟩ | ⟨u, hi, ho, ha⟩ | ⟨pe, hp | ⟨hi, ho⟩⟩
    · exact ev_stay hp (by intro h; cases h) rfl (NoOwnChange.snoc hev (same u))
    · exact ev_ret hi (.inr ⟨ho, NoOwnChange.snoc hev (same u), j, hsj, Nat.le_refl _, ha⟩)
    · have point : InsPoint n as t k j := ⟨haj, (pe.abs e1).1, (pe.abs e1).2⟩
      exact ev_stay hp (by intro h; cases h) rfl ⟨j, hsj, Nat.lt_succ_self _, point, hev, NoOwnChange.nil _ _ _ _⟩
    · have point : InsPoint n as t k j := ⟨haj, (pe.abs e1).1, (pe.abs e1).2⟩
      exact ev_ret hi (.inl ⟨ho, j, hsj, Nat.le_refl _, point, hev, NoOwnChange.nil _ _ _ _⟩)
  | insPost k =>
    rcases htr with ⟨u, hp | ⟨hi, ho⟩⟩
    · exact ev_stay hp (by intro h; cases h) rfl (Done.snoc hev (same u))
    · obtain ⟨p, h1, h2, h3, h4, h5⟩ := hev
      exact ev_ret hi (.inl ⟨ho, p, h1, by omega, h3, h4, h5.snoc (same u)⟩)
  | delFind k L =>
    rcases htr with ⟨u, hp | ⟨nd, hp, hun, hk⟩ | ⟨hi, ho, hm⟩⟩
    · exact ev_stay hp (by intro h; cases h) rfl ⟨hev.1, hev.2.snoc (same u)⟩
    · refine ev_stay hp (by intro h; cases h) rfl ⟨(e1.key nd (lt_of_keyOf_fin hk)).trans hk, fun _ => ?_, fun h => ?_⟩
      · exact ⟨hev.2.snoc (same u), j, hsj, by omega, hun⟩
      · cases h
    · obtain ⟨q, hq1, hq2, hq3⟩ := absent_instant n as (a := s + 1) (b := j) (k := k) (by omega)
        (fun m hml => hm m (by rw [hev.1]; exact hml))
      exact ev_ret hi (.inr ⟨ho, hev.2.snoc (same u), q, by omega, hq2, hq3⟩)
  | delMark k nd m =>
    obtain ⟨hkey, hf, ht⟩ := hev
    have hkey' : keyOf (heapAt n as (j + 1)) nd = .fin k := (e1.key nd (lt_of_keyOf_fin hkey)).trans hkey
    rcases htr with ⟨me, hp⟩ | ⟨u, hp | ⟨hm, hp⟩ | ⟨hm, hi, ho, hmk⟩⟩
    · -- this segment wins the level-0 mark of `nd`
      cases m with
      | true => exact absurd me.2.1 (not_unmarked0_of_marked0 (ht rfl).1)
      | false =>
        have hab := me.abs hI.1.1 hI.2 e1 hkey
        have point : DelPoint n as t k j := ⟨haj, hab.1, hab.2⟩
        have hdone : Done (DelPoint n as t k) n as t s (j + 1) :=
          ⟨j, hsj, Nat.lt_succ_self _, point, (hf rfl).1, NoOwnChange.nil _ _ _ _⟩
        rcases hp with hp | hp
        · exact ev_stay hp (by intro h; cases h) rfl ⟨hkey', (fun h => by cases h), fun _ => ⟨me.2.2.1, hdone⟩⟩
        · exact ev_stay hp (by intro h; cases h) rfl hdone
    · exact ev_stay hp (by intro h; cases h) rfl (PhaseEv.snoc (ph := .delMark k nd m) ⟨hkey, hf, ht⟩ (same u))
    · exact ev_stay hp (by intro h; cases h) rfl ((ht hm).2.snoc (same u))
    · -- the loser of a mark race: the node it found live is marked now; someone marked it inside the interval
      obtain ⟨hno, q, hq1, hq2, hqu⟩ := hf hm
      obtain ⟨p, hp1, hp2, hp3, hp4⟩ := unmarked_crossing n as (i := q) (j := j + 1) (by omega) hqu
        (not_unmarked0_of_marked0 hmk)
      have hpj : p ≠ j := by
        intro e; subst e; exact hp4 ((u.2 nd).mpr hp3)
      have hple : p ≤ j := by omega
      have hkp : keyOf (heapAt n as p) nd = .fin k := by
        rw [← (heap_ext n as hple).key nd (unmarked0_lt hp3)]; exact hkey
      have habs := absent_after_mark n as (mark_of_crossing n as hp3 hp4) hkp
      exact ev_ret hi (.inr ⟨ho, hno.snoc (same u), p + 1, by omega, by omega, habs⟩)
  | delClean k =>
    rcases htr with ⟨u, hp | ⟨hi, ho⟩⟩
    · exact ev_stay hp (by intro h; cases h) rfl (Done.snoc hev (same u))
    · obtain ⟨p, h1, h2, h3, h4, h5⟩ := hev
      exact ev_ret hi (.inl ⟨ho, p, h1, by omega, h3, h4, h5.snoc (same u)⟩)
  | look k L =>
    rcases htr with ⟨u, hp | ⟨hi, ho, ha⟩ | ⟨hi, ho, hm⟩⟩
    · exact ev_stay hp (by intro h; cases h) rfl ⟨hev.1, hev.2.snoc (same u)⟩
    · exact ev_ret hi ⟨hev.2.snoc (same u), .inl ⟨ho, j, hsj, Nat.le_refl _, ha⟩⟩
    · obtain ⟨q, hq1, hq2, hq3⟩ := absent_instant n as (a := s + 1) (b := j) (k := k) (by omega)
        (fun m hml => hm m (by rw [hev.1]; exact hml))
      exact ev_ret hi ⟨hev.2.snoc (same u), .inr ⟨ho, q, by omega, hq2, hq3⟩⟩
  | iter =>
    rcases htr with ⟨u, hp | hi⟩
    · exact ev_stay hp (by intro h; cases h) rfl (NoOwnChange.snoc hev (same u))
    · exact ev_ret hi (NoOwnChange.snoc hev (same u))

/-- the transition lemma at a position of a history -/
theorem trans_at {n : Nat} {as : List Action} {t j : Nat} {th : Thread} (hth : thrAt n as t j = some th) :
    Trans (heapAt n as j) (stepThread (stAt n as j).sh th).1.heap (stepThread (stAt n as j).sh th).2.1.pc
      (stepThread (stAt n as j).sh th).2.2 (phase th.pc) := by
  have hI := stAt_invS n as j
  have hm := List.mem_of_getElem? hth
  exact stepThread_trans hI.1.1.1 hI.1.2 (hI.1.1.2 th hm) (hI.2 th hm)

theorem InCall.busy {n : Nat} {as : List Action} {t : Nat} {op : Op} {s j : Nat} (h : InCall n as t op s j) :
    BusyAt n as t j := h.2.2 j h.2.1 (Nat.le_refl _)

theorem InCall.prev {n : Nat} {as : List Action} {t : Nat} {op : Op} {s j : Nat} (h : InCall n as t op s (j + 1))
    (hsj : s < j) : InCall n as t op s j :=
  ⟨h.1, hsj, fun i h1 h2 => h.2.2 i h1 (by omega)⟩

/-- HISTORY INVARIANT: every in-flight call carries the evidence of its phase -/
theorem ev_invariant (n : Nat) (as : List Action) :
    ∀ j t op s th, InCall n as t op s j → thrAt n as t j = some th → Ev n as t op s j th.pc := by
  intro j
  induction j with
  | zero => intro t op s th h; exact absurd h.2.1 (by omega)
  | succ j ih =>
    intro t op s th' hc hth'
    obtain ⟨thb, hthb, hbusy'⟩ := hc.busy
    rw [hth'] at hthb
    have hthb' : th' = thb := by simpa using hthb
    subst hthb'
    by_cases hsj : s = j
    · -- the call has just been entered
      subst hsj
      obtain ⟨haj, th0, hth0, hidle0⟩ := hc.1
      obtain ⟨h1, h2⟩ := own_start haj hth0 hidle0
      rw [hth'] at h1
      have h1' : th' = (startOp (stAt n as s).sh th0 op).2.1 := by simpa using h1
      have hpc' : th'.pc ≠ .idle := (isIdle_false_iff _).mp hbusy'
      rcases startOp_phase (stAt n as s).sh th0 op ((isIdle_iff _).mp hidle0) with h | h
      · rw [← h1'] at h; exact absurd h hpc'
      · rw [← h1'] at h
        unfold Ev
        rw [h]
        exact ⟨kindOf_startPhase _ _, PhaseEv_start t s op (by rw [h2]; rfl)⟩
    · have hsj' : s < j := by have := hc.2.1; omega
      have hc0 := hc.prev hsj'
      obtain ⟨th, hth, hbusy⟩ := hc0.busy
      have hev := ih t op s th hc0 hth
      -- the thread is untouched by this action
      have lift : thrAt n as t (j + 1) = thrAt n as t j → as[j]? ≠ some (.step t) → Ev n as t op s (j + 1) th'.pc := by
        intro hsame hne
        rw [hsame, hth] at hth'
        have : th = th' := by simpa using hth'
        subst this
        exact ⟨hev.1, hev.2.snoc (fun h => absurd h hne)⟩
      cases haj : as[j]? with
      | none => exact lift (thrAt_succ_none haj) (by rw [haj]; simp)
      | some a =>
        by_cases hat : actor a = t
        · cases a with
          | start t' op' =>
            simp only [actor] at hat; subst hat
            refine lift ?_ (by rw [haj]; simp)
            unfold thrAt; rw [stAt_succ_start_busy haj hth hbusy]
          | step t' =>
            simp only [actor] at hat; subst hat
            obtain ⟨h1, h2, _⟩ := own_step haj hth hbusy
            rw [hth'] at h1
            have h1' : th' = (stepThread (stAt n as j).sh th).2.1 := by simpa using h1
            have htr := trans_at hth
            rw [← h2, ← h1'] at htr
            have := (ev_own hsj' haj hev.2 htr).1 ((isIdle_false_iff _).mp hbusy')
            exact ⟨this.1.trans hev.1, this.2⟩
        · refine lift (thrAt_succ_ne haj hat) ?_
          intro h; rw [haj] at h; simp at h; subst h; exact hat rfl

/-- a completed call satisfies its specification -/
theorem call_spec {n : Nat} {as : List Action} {t : Nat} {op : Op} {s e : Nat} {out : String}
    (c : Call n as t op s e out) : RetSpec n as t s e out (opKind op) := by
  obtain ⟨th, hth, hbusy⟩ := c.inCall.busy
  have hev := ev_invariant n as e t op s th c.inCall hth
  obtain ⟨h1, h2, h3⟩ := own_step c.step hth hbusy
  obtain ⟨thi, hthi, hidle⟩ := c.idle
  rw [h1] at hthi
  have hthi' : (stepThread (stAt n as e).sh th).2.1 = thi := by simpa using hthi
  have htr := trans_at hth
  rw [← h2, ← h3, c.out] at htr
  have := (ev_own c.inCall.2.1 c.step hev.2 htr).2 (by rw [hthi']; exact (isIdle_iff _).mp hidle)
  rw [hev.1] at this
  exact this

/-! ### every busy thread is inside a call; every change is the point of a call -/

theorem thrAt_zero_idle {n : Nat} {as : List Action} {t : Nat} {th : Thread} (h : thrAt n as t 0 = some th) :
    isIdle th.pc = true := by
  unfold thrAt at h
  rw [stAt_zero] at h
  simp only [Sys.init, Sys.initWith, List.getElem?_replicate] at h
  split at h
  · simp at h; rw [← h]; rfl
  · simp at h

/-- a busy thread is inside a call: some accepted entry lies behind it with the thread busy ever since -/
theorem busy_inCall (n : Nat) (as : List Action) :
    ∀ j t, BusyAt n as t j → ∃ op s, InCall n as t op s j := by
  intro j
  induction j with
  | zero =>
    intro t ⟨th, hth, hb⟩
    rw [thrAt_zero_idle hth] at hb; simp at hb
  | succ j ih =>
    intro t hb'
    by_cases hb : BusyAt n as t j
    · obtain ⟨op, s, hc⟩ := ih t hb
      refine ⟨op, s, hc.1, by have := hc.2.1; omega, fun i h1 h2 => ?_⟩
      by_cases hi : i = j + 1
      · subst hi; exact hb'
      · exact hc.2.2 i h1 (by omega)
    · -- not busy at `j`, busy at `j + 1`: action `j` is an accepted entry
      have same : thrAt n as t (j + 1) = thrAt n as t j → False := by
        intro h; obtain ⟨th, hth, hbb⟩ := hb'; rw [h] at hth; exact hb ⟨th, hth, hbb⟩
      have same' : stAt n as (j + 1) = stAt n as j → False := by
        intro h; apply same; unfold thrAt; rw [h]
      cases haj : as[j]? with
      | none => exact absurd (thrAt_succ_none haj) same
      | some a =>
        by_cases hat : actor a = t
        · cases hth : thrAt n as t j with
          | none => exact absurd (stAt_succ_absent haj hat hth) same'
          | some th =>
            have hidle : isIdle th.pc = true := by
              cases hi : isIdle th.pc with
              | true => rfl
              | false => exact absurd ⟨th, hth, hi⟩ hb
            cases a with
            | step t' =>
              simp only [actor] at hat; subst hat
              exact absurd (stAt_succ_step_idle haj hth hidle) same'
            | start t' op =>
              simp only [actor] at hat; subst hat
              refine ⟨op, j, ⟨haj, th, hth, hidle⟩, Nat.lt_succ_self _, fun i h1 h2 => ?_⟩
              have : i = j + 1 := by omega
              subst this; exact hb'
        · exact absurd (thrAt_succ_ne haj hat) same

theorem opKind_ins {op : Op} {k : Nat} (h : Kind.ins k = opKind op) : ∃ lvl, op = .ins k lvl := by
  cases op <;> simp [opKind] at h
  rename_i k' lvl; exact ⟨lvl, by rw [h]⟩

theorem opKind_del {op : Op} {k : Nat} (h : Kind.del k = opKind op) : op = .del k := by
  cases op <;> simp [opKind] at h
  rw [h]

/-- NO CHANGE WITHOUT A CALL: every action either leaves the abstract set alone, or is the segment of a thread that
    is inside an Insert k call and adds the absent `k`, or inside a Delete k call and removes the present `k` -/
theorem changes_spec (n : Nat) (as : List Action) (p : Nat) :
    AbsSame n as p ∨
    ∃ t op s, InCall n as t op s p ∧ as[p]? = some (.step t) ∧
      ((∃ k lvl, op = .ins k lvl ∧ InsPoint n as t k p) ∨ (∃ k, op = .del k ∧ DelPoint n as t k p)) := by
  have hI := stAt_invR n as p
  have e1 := heap_ext_succ n as p
  rcases step_class n as p with u | ⟨t, th, k, lvl, haj, hth, hpc, pe⟩ | ⟨t, th, item, nd, next, marked, haj, hth, hpc, me⟩
  · exact .inl (AbsSame.of_unmSame u)
  · have hb : BusyAt n as t p := ⟨th, hth, by rw [hpc]; rfl⟩
    obtain ⟨op, s, hc⟩ := busy_inCall n as p t hb
    have hev := ev_invariant n as p t op s th hc hth
    rw [hpc] at hev
    obtain ⟨lvl', rfl⟩ := opKind_ins hev.1
    exact .inr ⟨t, _, s, hc, haj, .inl ⟨k, lvl', rfl, haj, (pe.abs e1).1, (pe.abs e1).2⟩⟩
  · have hb : BusyAt n as t p := ⟨th, hth, by rw [hpc]; rfl⟩
    obtain ⟨op, s, hc⟩ := busy_inCall n as p t hb
    have hev := ev_invariant n as p t op s th hc hth
    rw [hpc] at hev
    have hop := opKind_del hev.1
    subst hop
    have hab := me.abs hI.1.1 hI.2 e1 hev.2.1
    exact .inr ⟨t, _, s, hc, haj, .inr ⟨item, rfl, haj, hab.1, hab.2⟩⟩

theorem InsPoint.changes {n : Nat} {as : List Action} {t k p : Nat} (h : InsPoint n as t k p) : ¬ AbsSame n as p := by
  intro hs
  have h1 : absAt n as (p + 1) k := (h.2.2 k).mpr (.inr rfl)
  exact h.2.1 ((hs k).mp h1)

theorem DelPoint.changes {n : Nat} {as : List Action} {t k p : Nat} (h : DelPoint n as t k p) : ¬ AbsSame n as p := by
  intro hs
  have h1 : ¬ absAt n as (p + 1) k := fun h' => ((h.2.2 k).mp h').2 rfl
  exact h1 ((hs k).mpr h.2.1)

/-- a position holds at most one in-flight call per thread: the entry is determined -/
theorem InCall.unique {n : Nat} {as : List Action} {t : Nat} {op op' : Op} {s s' j : Nat}
    (h : InCall n as t op s j) (h' : InCall n as t op' s' j) : s = s' ∧ op = op' := by
  have key : ∀ {op op' : Op} {s s' : Nat}, InCall n as t op s j → InCall n as t op' s' j → ¬ s < s' := by
    intro op op' s s' h h' hlt
    obtain ⟨th, hth, hidle⟩ := h'.1.2
    obtain ⟨th2, hth2, hb⟩ := h.2.2 s' hlt (by have := h'.2.1; omega)
    rw [hth] at hth2
    have : th = th2 := by simpa using hth2
    subst this; rw [hidle] at hb; simp at hb
  have hs : s = s' := by
    have h1 := key h h'
    have h2 := key h' h
    omega
  subst hs
  have := h.1.1.symm.trans h'.1.1
  simp at this
  exact ⟨rfl, this⟩

/-- a call has one return: the first position after its entry at which the thread is idle -/
theorem Call.unique_end {n : Nat} {as : List Action} {t : Nat} {op op' : Op} {s e e' : Nat} {out out' : String}
    (c : Call n as t op s e out) (c' : Call n as t op' s e' out') : e = e' := by
  have key : ∀ {op op' : Op} {e e' : Nat} {out out' : String}, Call n as t op s e out → Call n as t op' s e' out' →
      ¬ e < e' := by
    intro op op' e e' out out' c c' hlt
    obtain ⟨th, hth, hidle⟩ := c.idle
    obtain ⟨th2, hth2, hb⟩ := c'.inCall.2.2 (e + 1) (by have := c.inCall.2.1; omega) (by omega)
    rw [hth] at hth2
    have : th = th2 := by simpa using hth2
    subst this; rw [hidle] at hb; simp at hb
  have h1 := key c c'
  have h2 := key c' c
  omega

/-- an in-flight call has not returned: a completed call with the same entry ends at or after the position -/
theorem InCall.le_end {n : Nat} {as : List Action} {t : Nat} {op op' : Op} {s j e : Nat} {out : String}
    (h : InCall n as t op s j) (c : Call n as t op' s e out) : j ≤ e := by
  by_cases hle : j ≤ e
  · exact hle
  · exfalso
    obtain ⟨th, hth, hidle⟩ := c.idle
    obtain ⟨th2, hth2, hb⟩ := h.2.2 (e + 1) (by have := c.inCall.2.1; omega) (by omega)
    rw [hth] at hth2
    have : th = th2 := by simpa using hth2
    subst this; rw [hidle] at hb; simp at hb

end NitroVerif.SkipConc
