import NitroVerif.Lemmas.SkipConcScanInv
/-!
  Whole-scan reasoning, part 3: where a call on the iterator leaves the cursor (`arrive_reach`: on the level-0 chain
  from the head, in the state of the return), and the invariant `MonoInv` behind `C15_monotone`:

  * `MonoF h positions stamps`: each position and the next one satisfy `Rel` (strictly larger key, or the same
    key with the earlier node marked and the later node published after the earlier one was returned);
  * (an explicit refresh that lands on the node that is already the last position appends nothing and renews the stamp
    of that position, see `Ghost.onStep`; one that lands on another node appends it, and `Rel` holds for it)
  * `Uniq h b L` for the last position `b` returned in a state with `L` published nodes: every OTHER node among
    the first `L` with the key of `b` is marked.  It holds when `b` is returned because `b` is then on the level-0
    chain from the head, as is every unmarked node, and the chain is strictly sorted; it is stable because marks
    are permanent.  It is what makes "an equal key comes from a node published later" provable.
-/
namespace NitroVerif.SkipConc
open NitroVerif

theorem Key.not_lt_cases {a b : Key} : ¬ Key.lt a b → a = b ∨ Key.lt b a := by
  cases a <;> cases b <;> simp [Key.lt] <;> omega

theorem Key.lt_of_lt_of_not_lt {a b c : Key} : Key.lt a b → ¬ Key.lt c b → Key.lt a c := by
  cases a <;> cases b <;> cases c <;> simp [Key.lt] <;> omega

theorem searchOf_ne {pc : PC} {fp : FP} (h : searchOf pc = some fp) : pc ≠ .idle ∧ ∀ it, pc ≠ .iterRefresh it := by
  cases pc <;> simp [searchOf] at h <;> simp

theorem stepHelpDelete_search (sh : Shared) (th : Thread) (fp : FP) (next : Nat) :
    ∃ fp', searchOf (stepHelpDelete sh th fp next).2.1.pc = some fp' ∧ fp'.item = fp.item ∧
      fp'.startLen = fp.startLen ∧ fp'.cont = fp.cont ∧ (stepHelpDelete sh th fp next).2.1.iters = th.iters := by
  unfold stepHelpDelete
  simp only []
  split
  · exact ⟨_, rfl, rfl, rfl, rfl, rfl⟩
  · exact ⟨_, rfl, rfl, rfl, rfl, rfl⟩

/-- the word under the cursor at ITER_NEXT -/
theorem iterNext_word {sh : Shared} {th : Thread} {it : Nat} (H : HInv sh.heap) (hT : TInv sh.heap th)
    (hpc : th.pc = .iterNext it) :
    ∃ p m, word? sh.heap (th.iter it).curr 0 = some (p, m) := by
  have hp := hT.2.2
  rw [hpc] at hp
  obtain ⟨k, hk⟩ := hp
  have hc := lt_of_keyOf_fin hk
  have hc1 : (th.iter it).curr ≠ 1 := by
    intro e; rw [e, H.tailKey] at hk; simp at hk
  obtain ⟨⟨p, m⟩, hw⟩ := Option.isSome_iff_exists.mp (H.word0 _ hc hc1)
  exact ⟨p, m, hw⟩

/-- WHERE A CALL LEAVES THE CURSOR: when a segment of a call on iterator `it` returns, or parks before the automatic
    refresh, the cursor is on the level-0 chain from the head in the resulting state; when the segment was the end
    of a findPath, the cursor is the tail or unmarked at level 0 -/
theorem arrive_reach {sh : Shared} {th : Thread} {it : Nat} (H : HInv sh.heap) (R : ReachInv sh.heap)
    (hT : TInv sh.heap th) (R' : ReachInv (stepThread sh th).1.heap)
    (hown : pcIter th.pc = some it)
    (hpc : (stepThread sh th).2.1.pc = .idle ∨ (stepThread sh th).2.1.pc = .iterRefresh it) :
    Reach (stepThread sh th).1.heap 0 ((stepThread sh th).2.1.iter it).curr ∧
    ((searchOf th.pc).isSome → ((stepThread sh th).2.1.iter it).curr = 1 ∨
      unmarked0 (stepThread sh th).1.heap ((stepThread sh th).2.1.iter it).curr) := by
  have notSearch : ∀ fp', searchOf (stepThread sh th).2.1.pc = some fp' → False := by
    intro fp' h
    obtain ⟨h1, h2⟩ := searchOf_ne h
    rcases hpc with h3 | h3
    · exact h1 h3
    · exact h2 it h3
  cases hp : th.pc <;> rw [hp] at hown <;> simp [pcIter] at hown
  · -- FIND_LEVEL
    rename_i fp
    have hst : stepThread sh th = stepFindLevel sh th fp := by unfold stepThread; rw [hp]
    exact absurd (show searchOf (stepThread sh th).2.1.pc = some _ by rw [hst]; rfl) (fun h => notSearch _ h)
  · -- FIND_NEXT
    rename_i fp rr
    have hst : stepThread sh th = stepFindNext sh th fp rr := by unfold stepThread; rw [hp]
    rcases stepFindNext_cases sh th fp rr with ⟨fp', hpc', _⟩ | ⟨hi0, hm, hadv, heq⟩
    · exfalso
      refine notSearch fp' ?_
      rw [hst]
      rcases hpc' with h | ⟨n, h⟩ | h <;> rw [h] <;> rfl
    · have hb := hT.1
      obtain ⟨hlt, hlive⟩ := search_end_live H fp rr hp hT hi0 hm
      rw [hst, heq]
      generalize hc : (if rr = true then (getNext sh.heap fp.prev fp.i).1 else fp.curr) = c at hm hadv heq hlt hlive ⊢
      generalize hth1 : ({ th with preds := th.preds.set 0 fp.prev, succs := th.succs.set 0 c } : Thread) = th1
      have hsucc : th1.succ 0 = c := by
        rw [← hth1]; simp only [Thread.succ]; exact getD_set_self hb.2.1
      obtain ⟨f1, f2, _⟩ := finishFind_own sh th1 fp.item
        (Gen.findFound (compare (keyOf sh.heap c) (.fin fp.item))) it fp.cont hown
      rw [f1, f2, hsucc]
      refine ⟨?_, fun _ => hlive⟩
      rcases hlive with h1 | hu
      · rw [h1]; exact R.1
      · exact R.2 c hu
  · -- HELP_DELETE
    rename_i fp next
    have hst : stepThread sh th = stepHelpDelete sh th fp next := by unfold stepThread; rw [hp]
    obtain ⟨fp', h, _⟩ := stepHelpDelete_search sh th fp next
    exact absurd (show searchOf (stepThread sh th).2.1.pc = some fp' by rw [hst]; exact h) (fun h => notSearch _ h)
  · -- ITER_NEXT
    subst hown
    rename_i it'
    have hst : stepThread sh th = stepIterNext sh th it' := by unfold stepThread; rw [hp]
    refine ⟨?_, fun h => by simp [searchOf] at h⟩
    by_cases hmk : (getNext sh.heap (th.iter it').curr 0).2 = true
    · exfalso
      rw [hst, stepIterNext_marked hmk] at hpc
      rcases hpc with h | h <;> simp at h
    · rw [hst, stepIterNext_unmarked hmk]
      obtain ⟨h1, h2, _⟩ := afterNext_move sh th it' (th.iter it').curr (getNext sh.heap (th.iter it').curr 0).1
      rw [h1, h2]
      obtain ⟨p, m, hw⟩ := iterNext_word H hT hp
      rw [getNext_of_word hw] at hmk ⊢
      simp at hmk
      subst hmk
      exact (R.2 _ ⟨p, hw⟩).trans (.single hw)
  · -- HELP_DELETE of Next
    subst hown
    rename_i it' next
    have hst : stepThread sh th = stepIterHelp sh th it' next := by unfold stepThread; rw [hp]
    refine ⟨?_, fun h => by simp [searchOf] at h⟩
    by_cases hok : (dcas sh.heap (th.iter it').prev 0 (th.iter it').curr next false).2 = true
    · rw [hst, stepIterHelp_ok hok] at R' ⊢
      obtain ⟨h1, h2, _⟩ := afterNext_move
        (helpStats sh (dcas sh.heap (th.iter it').prev 0 (th.iter it').curr next false).1
          (dcas sh.heap (th.iter it').prev 0 (th.iter it').curr next false).2 0 (th.iter it').curr)
        th it' (th.iter it').prev next
      rw [h1] at R'
      rw [h1, h2]
      rw [helpStats_heap] at R' ⊢
      have hw : word? (dcas sh.heap (th.iter it').prev 0 (th.iter it').curr next false).1 (th.iter it').prev 0 =
          some (next, false) := by
        rw [word?_dcas_ok hok]; simp
      exact (R'.2 _ ⟨next, hw⟩).trans (.single hw)
    · exfalso
      obtain ⟨_, fp, hth, _⟩ := stepIterHelp_fail (sh := sh) (th := th) (it := it') (next := next) hok
      refine notSearch fp ?_
      rw [hst, hth]; rfl
  · -- ITER_REFRESH
    subst hown
    rename_i it'
    have hst : stepThread sh th = stepIterRefresh sh th it' := by unfold stepThread; rw [hp]
    exact absurd (show searchOf (stepThread sh th).2.1.pc = some _ by rw [hst]; rfl) (fun h => notSearch _ h)

/-! ### the monotonicity invariant -/

/-- position `c` (returned in a state with `L` published nodes) and the next position `c'` -/
def Rel (h : Heap) (c L c' : Nat) : Prop :=
  Key.lt (keyOf h c) (keyOf h c') ∨ (keyOf h c = keyOf h c' ∧ marked0 h c ∧ L ≤ c')

/-- `Rel` along the list of positions (`stamps` = number of published nodes at each return) -/
def MonoF (h : Heap) : List Nat → List Nat → Prop
  | c :: ps, L :: ss => (∀ c', ps.head? = some c' → Rel h c L c') ∧ MonoF h ps ss
  | _, _ => True

/-- every other node among the first `L` that carries the key of `b` is marked -/
def Uniq (h : Heap) (b L : Nat) : Prop := ∀ n, n < L → n ≠ b → keyOf h n = keyOf h b → ¬ unmarked0 h n

/-- the last position against the item a findPath of the iterator searches -/
def RelK (h : Heap) (b k : Nat) : Prop := Key.lt (keyOf h b) (.fin k) ∨ (keyOf h b = .fin k ∧ marked0 h b)

theorem marked0.ext {h h' : Heap} (e : Ext h h') {n : Nat} (m : marked0 h n) : marked0 h' n := by
  obtain ⟨p, hp⟩ := m
  exact ⟨p, e.marked _ _ _ hp⟩

theorem Rel.ext {h h' : Heap} (e : Ext h h') {c L c' : Nat} (hc : c < h.length) (hc' : c' < h.length)
    (r : Rel h c L c') : Rel h' c L c' := by
  unfold Rel at *
  rw [e.key c hc, e.key c' hc']
  rcases r with r | ⟨r1, r2, r3⟩
  · exact .inl r
  · exact .inr ⟨r1, r2.ext e, r3⟩

theorem RelK.ext {h h' : Heap} (e : Ext h h') {b k : Nat} (hb : b < h.length) (r : RelK h b k) : RelK h' b k := by
  unfold RelK at *
  rw [e.key b hb]
  rcases r with r | ⟨r1, r2⟩
  · exact .inl r
  · exact .inr ⟨r1, r2.ext e⟩

theorem Uniq.ext {h h' : Heap} (e : Ext h h') {b L : Nat} (hL : L ≤ h.length) (hb : b < h.length)
    (u : Uniq h b L) : Uniq h' b L := by
  intro n hn hne hk hu
  have hnl : n < h.length := Nat.lt_of_lt_of_le hn hL
  rw [e.key n hnl, e.key b hb] at hk
  exact u n hn hne hk (unmarked0_back e hnl hu)

theorem MonoF.ext {h h' : Heap} (e : Ext h h') : ∀ (ps ss : List Nat), (∀ c ∈ ps, c < h.length) →
    MonoF h ps ss → MonoF h' ps ss
  | [], _, _, _ => by simp [MonoF]
  | _ :: _, [], _, _ => by simp [MonoF]
  | c :: ps, L :: ss, hb, m => by
    simp only [MonoF] at m ⊢
    refine ⟨fun c' hc' => ?_, MonoF.ext e ps ss (fun x hx => hb x (by simp [hx])) m.2⟩
    have hmem : c' ∈ ps := by
      cases ps with
      | nil => simp at hc'
      | cons a r => simp at hc'; simp [hc']
    exact (m.1 c' hc').ext e (hb c (by simp)) (hb c' (by simp [hmem]))

theorem MonoF_snoc {h : Heap} (b L c' L' : Nat) (hrel : Rel h b L c') : ∀ (ps0 ss0 : List Nat),
    ps0.length = ss0.length → MonoF h (ps0 ++ [b]) (ss0 ++ [L]) → MonoF h (ps0 ++ [b] ++ [c']) (ss0 ++ [L] ++ [L'])
  | [], [], _, _ => by
    simp [MonoF]
    exact hrel
  | [], _ :: _, hl, _ => by simp at hl
  | _ :: _, [], hl, _ => by simp at hl
  | p :: ps, s :: ss, hl, m => by
    simp only [List.cons_append, MonoF] at m ⊢
    refine ⟨fun x hx => m.1 x ?_, MonoF_snoc b L c' L' hrel ps ss (by simpa using hl) m.2⟩
    cases ps with
    | nil => simpa using hx
    | cons a r => simpa using hx

theorem uniq_of_reach {h : Heap} (H : HInv h) (R : ReachInv h) {c : Nat} (hr : Reach h 0 c) (L : Nat) :
    Uniq h c L := by
  intro n _ hne hk hu
  rcases (R.2 n hu).det hr with r | r
  · rcases r.key H with e | l
    · exact hne e
    · rw [hk] at l; exact Key.lt_irrefl _ l
  · rcases r.key H with e | l
    · exact hne e.symm
    · rw [hk] at l; exact Key.lt_irrefl _ l

/-- the end of a findPath of the iterator: from `RelK` against the searched item to `Rel` against the node findPath
    stops at (key ≥ item; the tail or unmarked) -/
theorem rel_of_search_end {h : Heap} (H : HInv h) {b L k c : Nat} (r : RelK h b k) (u : Uniq h b L)
    (hge : ¬ Key.lt (keyOf h c) (.fin k)) (hlive : c = 1 ∨ unmarked0 h c) : Rel h b L c := by
  rcases r with r | ⟨r1, r2⟩
  · exact .inl (Key.lt_of_lt_of_not_lt r hge)
  · rcases Key.not_lt_cases hge with e | l
    · refine .inr ⟨by rw [r1, e], r2, ?_⟩
      have hu : unmarked0 h c := by
        rcases hlive with h1 | hu
        · rw [h1, H.tailKey] at e; simp at e
        · exact hu
      have hne : c ≠ b := fun ec => not_unmarked0_of_marked0 r2 (ec ▸ hu)
      by_cases hlt : c < L
      · exact absurd hu (u c hlt hne (by rw [e, r1]))
      · omega
    · exact .inl (by rw [r1]; exact l)

/-- the end of the findPath of an EXPLICIT refresh (searched item = key of the last position `b`, which need not be
    marked): findPath stops at `b` itself, or at a node related to `b` by `Rel` -/
theorem rel_or_same_of_search_end {h : Heap} (H : HInv h) (R : ReachInv h) {b L k c : Nat} (hb : b < h.length)
    (hkb : keyOf h b = .fin k) (u : Uniq h b L) (hge : ¬ Key.lt (keyOf h c) (.fin k))
    (hlive : c = 1 ∨ unmarked0 h c) : Rel h b L c ∨ c = b := by
  by_cases hcb : c = b
  · exact .inr hcb
  · refine .inl ?_
    rcases Key.not_lt_cases hge with e | l
    · have hu : unmarked0 h c := by
        rcases hlive with h1 | hu
        · rw [h1, H.tailKey] at e; simp at e
        · exact hu
      have hb1 : b ≠ 1 := by
        intro e1; rw [e1, H.tailKey] at hkb; simp at hkb
      obtain ⟨⟨p, m⟩, hw⟩ := Option.isSome_iff_exists.mp (H.word0 b hb hb1)
      have hmk : marked0 h b := by
        cases m with
        | true => exact ⟨p, hw⟩
        | false =>
          exfalso
          exact uniq_of_reach H R (R.2 c hu) (b + 1) b (by omega) (fun e2 => hcb e2.symm) (by rw [hkb, e]) ⟨p, hw⟩
      refine .inr ⟨by rw [hkb, e], hmk, ?_⟩
      by_cases hlt : c < L
      · exact absurd hu (u c hlt hcb (by rw [e, hkb]))
      · omega
    · exact .inl (by rw [hkb]; exact l)

theorem MonoF_last_stamp {h : Heap} (b L L' : Nat) : ∀ (ps0 ss0 : List Nat),
    ps0.length = ss0.length → MonoF h (ps0 ++ [b]) (ss0 ++ [L]) → MonoF h (ps0 ++ [b]) (ss0 ++ [L'])
  | [], [], _, _ => by simp [MonoF]
  | [], _ :: _, hl, _ => by simp at hl
  | _ :: _, [], hl, _ => by simp at hl
  | p :: ps, s :: ss, hl, m => by
    simp only [List.cons_append, MonoF] at m ⊢
    exact ⟨m.1, MonoF_last_stamp b L L' ps ss (by simpa using hl) m.2⟩

def MonoInv (h : Heap) (g : Ghost) (it : Nat) (th : Thread) : Prop :=
  g.positions.length = g.stamps.length ∧ (∀ c ∈ g.positions, c < h.length) ∧ MonoF h g.positions g.stamps ∧
  ((g.positions = [] ∧ ∃ fp, searchOf th.pc = some fp ∧ fp.cont = .iterSeek it) ∨
   (∃ ps0 ss0 b L, g.positions = ps0 ++ [b] ∧ g.stamps = ss0 ++ [L] ∧ L ≤ h.length ∧ Uniq h b L ∧
      (((pcIter th.pc ≠ some it ∨ th.pc = .iterNext it ∨ ∃ n, th.pc = .iterHelp it n) ∧ (th.iter it).curr = b) ∨
       (th.pc = .iterRefresh it ∧ (th.iter it).curr < h.length ∧
          (Rel h b L (th.iter it).curr ∨ (g.refreshing = true ∧ (th.iter it).curr = b))) ∨
       (∃ fp, searchOf th.pc = some fp ∧ (fp.cont = .iterNext it ∨ fp.cont = .iterRefresh it) ∧
          (RelK h b fp.item ∨ (g.refreshing = true ∧ keyOf h b = .fin fp.item)) ∧
          (fp.cont = .iterNext it → (th.iter it).curr = b)))))

theorem mem_snoc_lt {ps0 : List Nat} {b n : Nat} {ps : List Nat} (hp : ps = ps0 ++ [b]) (hb : ∀ c ∈ ps, c < n) :
    b < n := hb b (by rw [hp]; simp)

theorem MonoInv.stable {h h' : Heap} {ev : Event} (_H : HInv h) (e : Ext h h') (_s : HStep h ev h') {g : Ghost}
    {it : Nat} {th : Thread} (b : MonoInv h g it th) : MonoInv h' g it th := by
  obtain ⟨hlen, hbd, hm, ph⟩ := b
  refine ⟨hlen, fun c hc => Nat.lt_of_lt_of_le (hbd c hc) e.len, hm.ext e _ _ hbd, ?_⟩
  rcases ph with ph | ⟨ps0, ss0, b, L, hp, hs, hL, hu, ph⟩
  · exact .inl ph
  · have hbl : b < h.length := mem_snoc_lt hp hbd
    refine .inr ⟨ps0, ss0, b, L, hp, hs, Nat.le_trans hL e.len, hu.ext e hL hbl, ?_⟩
    rcases ph with ph | ⟨h1, hc, h2⟩ | ⟨fp, h1, h2, h3, h4⟩
    · exact .inl ph
    · refine .inr (.inl ⟨h1, Nat.lt_of_lt_of_le hc e.len, ?_⟩)
      rcases h2 with h2 | h2
      · exact .inl (h2.ext e hbl hc)
      · exact .inr h2
    · refine .inr (.inr ⟨fp, h1, h2, ?_, h4⟩)
      rcases h3 with h3 | ⟨h3, h5⟩
      · exact .inl (h3.ext e hbl)
      · exact .inr ⟨h3, by rw [e.key b hbl]; exact h5⟩

/-- a call of the scan arrives at a new cursor related to the last position: it returns (the position is appended)
    or parks before the automatic refresh -/
theorem MonoInv.arrive {g : Ghost} {it : Nat} {th : Thread} {r : Res} {ps0 ss0 : List Nat} {b L : Nat}
    (hown : pcIter th.pc = some it) (hlen : g.positions.length = g.stamps.length)
    (hbd : ∀ c ∈ g.positions, c < r.1.heap.length) (hm : MonoF r.1.heap g.positions g.stamps)
    (hp : g.positions = ps0 ++ [b]) (hs : g.stamps = ss0 ++ [L]) (hL : L ≤ r.1.heap.length)
    (hu : Uniq r.1.heap b L) (H' : HInv r.1.heap) (R' : ReachInv r.1.heap)
    (hc : (r.2.1.iter it).curr < r.1.heap.length) (hreach : Reach r.1.heap 0 (r.2.1.iter it).curr)
    (hrel : Rel r.1.heap b L (r.2.1.iter it).curr ∨ (g.refreshing = true ∧ (r.2.1.iter it).curr = b))
    (hpc : r.2.1.pc = .idle ∨ r.2.1.pc = .iterRefresh it) : MonoInv r.1.heap (g.onStep it th r) it r.2.1 := by
  rcases hpc with h | h
  · obtain ⟨_, _, _, _, hpos⟩ := g.onStep_ret it th r hown (by rw [h]; rfl)
    have hl0 : ps0.length = ss0.length := by
      rw [hp, hs] at hlen; simpa using hlen
    have hlast : g.positions.getLast? = some b := by rw [hp]; exact List.getLast?_concat
    unfold MonoInv
    rcases hpos with ⟨e1, e2, _, hsame⟩ | ⟨e1, e2, hnot⟩
    · -- an explicit refresh has returned on the last position: nothing is appended, its stamp is renewed
      rw [hlast] at hsame
      have hcb : (r.2.1.iter it).curr = b := by simpa using hsame.symm
      have hs2 : g.stamps.dropLast ++ [r.1.heap.length] = ss0 ++ [r.1.heap.length] := by rw [hs]; simp
      rw [e1, e2, hs2, hp]
      rw [hp] at hbd hm
      rw [hs] at hm
      refine ⟨by simp [hl0], hbd, MonoF_last_stamp b L _ ps0 ss0 hl0 hm, .inr ⟨ps0, ss0, b, _, rfl, rfl,
        Nat.le_refl _, uniq_of_reach H' R' (hcb ▸ hreach) _, .inl ⟨.inl (by rw [h]; simp [pcIter]), hcb⟩⟩⟩
    · have hrel' : Rel r.1.heap b L (r.2.1.iter it).curr := by
        rcases hrel with hrel | ⟨hr, hcb⟩
        · exact hrel
        · exact absurd ⟨hr, by rw [hlast, hcb]⟩ hnot
      rw [e1, e2]
      refine ⟨by simp [hlen], ?_, ?_, .inr ⟨g.positions, g.stamps, _, _, rfl, rfl, Nat.le_refl _,
        uniq_of_reach H' R' hreach _, .inl ⟨.inl (by rw [h]; simp [pcIter]), rfl⟩⟩⟩
      · intro c hcm
        simp only [List.mem_append, List.mem_singleton] at hcm
        rcases hcm with hcm | hcm
        · exact hbd c hcm
        · rw [hcm]; exact hc
      · rw [hp, hs] at hm ⊢
        exact MonoF_snoc b L _ _ hrel' ps0 ss0 hl0 hm
  · rw [g.onStep_stay it th r (by rw [h]; rfl)]
    exact ⟨hlen, hbd, hm, .inr ⟨ps0, ss0, b, L, hp, hs, hL, hu, .inr (.inl ⟨h, hc, hrel⟩)⟩⟩

/-- Seek returns: the first position of the scan -/
theorem MonoInv.arrive_seek {g : Ghost} {it : Nat} {th : Thread} {r : Res}
    (hown : pcIter th.pc = some it) (hlen : g.positions.length = g.stamps.length) (hp : g.positions = [])
    (H' : HInv r.1.heap) (R' : ReachInv r.1.heap)
    (hc : (r.2.1.iter it).curr < r.1.heap.length) (hreach : Reach r.1.heap 0 (r.2.1.iter it).curr)
    (hpc : r.2.1.pc = .idle) : MonoInv r.1.heap (g.onStep it th r) it r.2.1 := by
  have hs : g.stamps = [] := by
    rw [hp] at hlen
    exact List.eq_nil_of_length_eq_zero hlen.symm
  obtain ⟨_, _, _, _, hpos⟩ := g.onStep_ret it th r hown (by rw [hpc]; rfl)
  have hpos' : (g.onStep it th r).positions = [(r.2.1.iter it).curr] ∧
      (g.onStep it th r).stamps = [r.1.heap.length] := by
    rcases hpos with ⟨_, _, _, hl⟩ | ⟨e1, e2, _⟩
    · rw [hp] at hl; simp at hl
    · rw [e1, e2, hp, hs]; exact ⟨rfl, rfl⟩
  unfold MonoInv
  rw [hpos'.1, hpos'.2]
  refine ⟨rfl, ?_, by simp [MonoF], .inr ⟨[], [], _, _, rfl, rfl, Nat.le_refl _,
    uniq_of_reach H' R' hreach _, .inl ⟨.inl (by rw [hpc]; simp [pcIter]), rfl⟩⟩⟩
  intro c hcm
  simp at hcm
  rw [hcm]; exact hc

theorem mono_step_own {sh : Shared} {th : Thread} {g : Ghost} {it : Nat} {ev : Event} (H : HInv sh.heap)
    (R : ReachInv sh.heap) (hT : TInv sh.heap th) (_hS : SInv sh.heap th)
    (e : Ext sh.heap (stepThread sh th).1.heap) (hs : HStep sh.heap ev (stepThread sh th).1.heap)
    (H' : HInv (stepThread sh th).1.heap) (R' : ReachInv (stepThread sh th).1.heap)
    (hT' : TInv (stepThread sh th).1.heap (stepThread sh th).2.1) (inv : MonoInv sh.heap g it th) :
    MonoInv (stepThread sh th).1.heap (g.onStep it th (stepThread sh th)) it (stepThread sh th).2.1 := by
  have invS := inv.stable H e hs
  have hc'' : ((stepThread sh th).2.1.iter it).curr < (stepThread sh th).1.heap.length :=
    (hT'.2.1.iter H'.len it).2
  obtain ⟨hlen, hbd, hm, ph⟩ := invS
  by_cases hown : pcIter th.pc = some it
  rotate_left
  · -- not inside a call on `it`
    rw [g.onStep_other it th _ hown]
    obtain ⟨h1, h2⟩ := step_other (sh := sh) hown
    have hi := iter_of_iter? h2
    refine ⟨hlen, hbd, hm, ?_⟩
    rcases ph with ⟨_, fp, hf, hcn⟩ | ⟨ps0, ss0, b, L, hp, hs', hL, hu, ph⟩
    · exact absurd (by rw [pcIter_of_searchOf hf, hcn]; rfl) hown
    · refine .inr ⟨ps0, ss0, b, L, hp, hs', hL, hu, ?_⟩
      rcases ph with ⟨_, hcur⟩ | ⟨hpc, _⟩ | ⟨fp, hf, hcn, _⟩
      · exact .inl ⟨.inl h1, by rw [hi]; exact hcur⟩
      · exact absurd (by rw [hpc]; rfl) hown
      · exact absurd (by rw [pcIter_of_searchOf hf]; rcases hcn with h | h <;> rw [h] <;> rfl) hown
  -- inside a call on `it`
  have areach := fun hpc => (arrive_reach H R hT R' hown hpc).1
  -- findPath goes on
  have goOn : ∀ fp fp', searchOf th.pc = some fp → searchOf (stepThread sh th).2.1.pc = some fp' →
      fp'.item = fp.item → fp'.cont = fp.cont → (stepThread sh th).2.1.iters = th.iters →
      MonoInv (stepThread sh th).1.heap (g.onStep it th (stepThread sh th)) it (stepThread sh th).2.1 := by
    intro fp fp' hf hf' hitem hcont hiters
    rw [g.onStep_stay it th _ (isIdle_of_searchOf hf')]
    have hi : (stepThread sh th).2.1.iter it = th.iter it := iter_of_iter? (iter?_of_iters hiters it)
    refine ⟨hlen, hbd, hm, ?_⟩
    rcases ph with ⟨hpos, fp1, hf1, hcn⟩ | ⟨ps0, ss0, b, L, hp, hs', hL, hu, ph⟩
    · rw [hf] at hf1; simp at hf1; subst hf1
      exact .inl ⟨hpos, fp', hf', by rw [hcont]; exact hcn⟩
    · refine .inr ⟨ps0, ss0, b, L, hp, hs', hL, hu, ?_⟩
      rcases ph with ⟨hp3, _⟩ | ⟨hpc, _⟩ | ⟨fp1, hf1, hcn, hrk, hcur⟩
      · exfalso
        rcases hp3 with h | h | ⟨n, h⟩
        · exact h hown
        · rw [h] at hf; simp [searchOf] at hf
        · rw [h] at hf; simp [searchOf] at hf
      · rw [hpc] at hf; simp [searchOf] at hf
      · rw [hf] at hf1; simp at hf1; subst hf1
        refine .inr (.inr ⟨fp', hf', by rw [hcont]; exact hcn, by rw [hitem]; exact hrk, fun hc => ?_⟩)
        rw [hi]; exact hcur (by rw [← hcont]; exact hc)
  -- the phase data when the cursor rests on the last position
  have atCursor : (th.pc = .iterNext it ∨ ∃ n, th.pc = .iterHelp it n) →
      ∃ ps0 ss0 b L, g.positions = ps0 ++ [b] ∧ g.stamps = ss0 ++ [L] ∧ L ≤ (stepThread sh th).1.heap.length ∧
        Uniq (stepThread sh th).1.heap b L ∧ (th.iter it).curr = b := by
    intro hpc
    have hns : searchOf th.pc = none := by
      rcases hpc with h | ⟨n, h⟩ <;> rw [h] <;> rfl
    have hnr : th.pc ≠ .iterRefresh it := by
      rcases hpc with h | ⟨n, h⟩ <;> rw [h] <;> simp
    rcases ph with ⟨_, fp, hf, _⟩ | ⟨ps0, ss0, b, L, hp, hs', hL, hu, ph⟩
    · rw [hns] at hf; simp at hf
    · rcases ph with ⟨_, hcur⟩ | ⟨hpc', _⟩ | ⟨fp, hf, _⟩
      · exact ⟨ps0, ss0, b, L, hp, hs', hL, hu, hcur⟩
      · exact absurd hpc' hnr
      · rw [hns] at hf; simp at hf
  cases hpc : th.pc <;> rw [hpc] at hown <;> simp [pcIter] at hown
  · -- FIND_LEVEL
    rename_i fp
    have hst : stepThread sh th = stepFindLevel sh th fp := by unfold stepThread; rw [hpc]
    exact goOn fp { fp with curr := (getNext sh.heap fp.prev fp.i).1 } (by rw [hpc]; rfl) (by rw [hst]; rfl) rfl rfl
      (by rw [hst]; rfl)
  · -- FIND_NEXT
    rename_i fp rr
    have hst : stepThread sh th = stepFindNext sh th fp rr := by unfold stepThread; rw [hpc]
    rcases stepFindNext_cases sh th fp rr with ⟨fp', hpc', h2, _, h4, h5⟩ | ⟨hi0, hmk, hadv, heq⟩
    · refine goOn fp fp' (by rw [hpc]; rfl) ?_ h2 h4 (by rw [hst]; exact h5)
      rw [hst]
      rcases hpc' with h | ⟨n, h⟩ | h <;> rw [h] <;> rfl
    · -- findPath returns
      have hb := hT.1
      obtain ⟨_, hlive⟩ := search_end_live H fp rr hpc hT hi0 hmk
      have hown0 : pcIter th.pc = some it := by rw [hpc]; exact hown
      generalize hc : (if rr = true then (getNext sh.heap fp.prev fp.i).1 else fp.curr) = c at hmk hadv heq hlive
      have hheap : (stepThread sh th).1 = sh ∧ ((stepThread sh th).2.1.iter it).curr = c ∧
          ((stepThread sh th).2.1.pc = .idle ∨
           (fp.cont = .iterNext it ∧ ((stepThread sh th).2.1.pc = .iterRefresh it ∨
              ((stepThread sh th).2.1.pc = .iterNext it ∧ c = (th.iter it).curr)))) := by
        rw [hst, heq]
        generalize hth1 : ({ th with preds := th.preds.set 0 fp.prev, succs := th.succs.set 0 c } : Thread) = th1
        have hsucc : th1.succ 0 = c := by
          rw [← hth1]; simp only [Thread.succ]; exact getD_set_self hb.2.1
        have hiter : th1.iter it = th.iter it := by rw [← hth1]; rfl
        obtain ⟨f1, f2, f3⟩ := finishFind_own sh th1 fp.item
          (Gen.findFound (compare (keyOf sh.heap c) (.fin fp.item))) it fp.cont hown
        rw [hsucc, hiter] at f3
        rw [hsucc] at f2
        exact ⟨f1, f2, f3⟩
      obtain ⟨e1, e2, e3⟩ := hheap
      have hge : ¬ Key.lt (keyOf (stepThread sh th).1.heap ((stepThread sh th).2.1.iter it).curr) (.fin fp.item) := by
        rw [e1, e2]
        intro c
        exact hadv ((findAdvance_iff _).mpr ((compare_neg_iff _ _).mpr c))
      have hlive' : ((stepThread sh th).2.1.iter it).curr = 1 ∨
          unmarked0 (stepThread sh th).1.heap ((stepThread sh th).2.1.iter it).curr := by
        rw [e1, e2]; exact hlive
      rcases ph with ⟨hpos, fp1, hf1, hcn⟩ | ⟨ps0, ss0, b, L, hp, hs', hL, hu, ph⟩
      · -- Seek returns
        rw [hpc] at hf1; simp [searchOf] at hf1; subst hf1
        have hidle : (stepThread sh th).2.1.pc = .idle := by
          rcases e3 with h | ⟨h, _⟩
          · exact h
          · rw [hcn] at h; simp at h
        exact MonoInv.arrive_seek hown0 hlen hpos H' R' hc'' (areach (.inl hidle)) hidle
      · rcases ph with ⟨hp3, _⟩ | ⟨hpc', _⟩ | ⟨fp1, hf1, hcn, hrk, hcur⟩
        · exfalso
          rcases hp3 with h | h | ⟨n, h⟩
          · exact h hown0
          · rw [hpc] at h; simp at h
          · rw [hpc] at h; simp at h
        · rw [hpc] at hpc'; simp at hpc'
        · rw [hpc] at hf1; simp [searchOf] at hf1; subst hf1
          have hrel : Rel (stepThread sh th).1.heap b L ((stepThread sh th).2.1.iter it).curr ∨
              (g.refreshing = true ∧ ((stepThread sh th).2.1.iter it).curr = b) := by
            rcases hrk with hrk | ⟨hr, hkb⟩
            · exact .inl (rel_of_search_end H' hrk hu hge hlive')
            · rcases rel_or_same_of_search_end H' R' (mem_snoc_lt hp hbd) hkb hu hge hlive' with h | h
              · exact .inl h
              · exact .inr ⟨hr, h⟩
          rcases e3 with h | ⟨hcont, h | ⟨h, hsame⟩⟩
          · exact MonoInv.arrive hown0 hlen hbd hm hp hs' hL hu H' R' hc'' (areach (.inl h)) hrel (.inl h)
          · exact MonoInv.arrive hown0 hlen hbd hm hp hs' hL hu H' R' hc'' (areach (.inr h)) hrel (.inr h)
          · rw [g.onStep_stay it th _ (by rw [h]; rfl)]
            refine ⟨hlen, hbd, hm, .inr ⟨ps0, ss0, b, L, hp, hs', hL, hu, .inl ⟨.inr (.inl h), ?_⟩⟩⟩
            rw [e2, hsame]; exact hcur hcont
  · -- HELP_DELETE
    rename_i fp next
    have hst : stepThread sh th = stepHelpDelete sh th fp next := by unfold stepThread; rw [hpc]
    obtain ⟨fp', h1, h2, _, h4, h5⟩ := stepHelpDelete_search sh th fp next
    exact goOn fp fp' (by rw [hpc]; rfl) (by rw [hst]; exact h1) h2 h4 (by rw [hst]; exact h5)
  · -- ITER_NEXT
    subst hown
    rename_i it'
    have hst : stepThread sh th = stepIterNext sh th it' := by unfold stepThread; rw [hpc]
    have hown0 : pcIter th.pc = some it' := by rw [hpc]; rfl
    obtain ⟨ps0, ss0, b, L, hp, hs', hL, hu, hcur⟩ := atCursor (.inl hpc)
    by_cases hmk : (getNext sh.heap (th.iter it').curr 0).2 = true
    · have hst' := hst.trans (stepIterNext_marked hmk)
      rw [g.onStep_stay it' th _ (by rw [hst']; rfl)]
      refine ⟨hlen, hbd, hm, .inr ⟨ps0, ss0, b, L, hp, hs', hL, hu, .inl ⟨.inr (.inr ⟨(getNext sh.heap (th.iter it').curr 0).1, ?_⟩), ?_⟩⟩⟩
      · rw [hst']
      · rw [hst']; exact hcur
    · have hst' := hst.trans (stepIterNext_unmarked hmk)
      obtain ⟨h1, h2, h3⟩ := afterNext_move sh th it' (th.iter it').curr (getNext sh.heap (th.iter it').curr 0).1
      rw [← hst'] at h1 h2 h3
      refine MonoInv.arrive hown0 hlen hbd hm hp hs' hL hu H' R' hc'' (areach h3) (.inl ?_) h3
      obtain ⟨p, m, hw⟩ := iterNext_word H hT hpc
      rw [h2, h1, getNext_of_word hw, ← hcur]
      exact .inl (H.h5 _ _ _ hw)
  · -- HELP_DELETE of Next
    subst hown
    rename_i it' next
    have hst : stepThread sh th = stepIterHelp sh th it' next := by unfold stepThread; rw [hpc]
    have hown0 : pcIter th.pc = some it' := by rw [hpc]; rfl
    obtain ⟨ps0, ss0, b, L, hp, hs', hL, hu, hcur⟩ := atCursor (.inr ⟨_, hpc⟩)
    have hpp := hT.2.2
    rw [hpc] at hpp
    obtain ⟨hw, k, hk⟩ := hpp
    by_cases hok : (dcas sh.heap (th.iter it').prev 0 (th.iter it').curr next false).2 = true
    · have hst' := hst.trans (stepIterHelp_ok hok)
      obtain ⟨_, h2, h3⟩ := afterNext_move
        (helpStats sh (dcas sh.heap (th.iter it').prev 0 (th.iter it').curr next false).1
          (dcas sh.heap (th.iter it').prev 0 (th.iter it').curr next false).2 0 (th.iter it').curr)
        th it' (th.iter it').prev next
      rw [← hst'] at h2 h3
      refine MonoInv.arrive hown0 hlen hbd hm hp hs' hL hu H' R' hc'' (areach h3) (.inl ?_) h3
      rw [h2, ← hcur]
      exact .inl (H'.h5 _ _ _ (e.marked _ _ _ hw))
    · obtain ⟨hh, fp, hth, hcont, _, hitem⟩ :=
        stepIterHelp_fail (sh := sh) (th := th) (it := it') (next := next) hok
      rw [← hst] at hh hth
      rw [g.onStep_stay it' th _ (by rw [hth]; rfl)]
      refine ⟨hlen, hbd, hm, .inr ⟨ps0, ss0, b, L, hp, hs', hL, hu,
        .inr (.inr ⟨fp, by rw [hth]; rfl, .inl hcont, ?_, fun _ => by rw [hth]; exact hcur⟩)⟩⟩
      refine .inl (.inr ⟨?_, ?_⟩)
      · rw [hh, hitem, ← hcur, hk]; rfl
      · rw [hh, ← hcur]; exact ⟨next, hw⟩
  · -- ITER_REFRESH
    subst hown
    rename_i it'
    have hst : stepThread sh th = stepIterRefresh sh th it' := by unfold stepThread; rw [hpc]
    have hpp := hT.2.2
    rw [hpc] at hpp
    obtain ⟨k, hk⟩ := hpp
    rw [g.onStep_stay it' th _ (by rw [hst]; rfl)]
    refine ⟨hlen, hbd, hm, ?_⟩
    rcases ph with ⟨_, fp, hf, _⟩ | ⟨ps0, ss0, b, L, hp, hs', hL, hu, ph⟩
    · rw [hpc] at hf; simp [searchOf] at hf
    · refine .inr ⟨ps0, ss0, b, L, hp, hs', hL, hu, ?_⟩
      rcases ph with ⟨hp3, _⟩ | ⟨_, _, hrel⟩ | ⟨fp, hf, _⟩
      · exfalso
        rcases hp3 with h | h | ⟨n, h⟩
        · rw [hpc] at h; exact h rfl
        · rw [hpc] at h; simp at h
        · rw [hpc] at h; simp at h
      · refine .inr (.inr ⟨_, by rw [hst]; rfl, .inr rfl, ?_, fun hc => ?_⟩)
        · have hheap : (stepThread sh th).1.heap = sh.heap := by rw [hst]; rfl
          rw [hheap] at hrel ⊢
          show RelK sh.heap b (itemOfKey (keyOf sh.heap (th.iter it').curr)) ∨
            (g.refreshing = true ∧ keyOf sh.heap b = .fin (itemOfKey (keyOf sh.heap (th.iter it').curr)))
          rw [hk]
          show RelK sh.heap b k ∨ (g.refreshing = true ∧ keyOf sh.heap b = .fin k)
          rcases hrel with hrel | ⟨hr, hcb⟩
          · unfold Rel at hrel
            rw [hk] at hrel
            rcases hrel with r | ⟨r1, r2, _⟩
            · exact .inl (.inl r)
            · exact .inl (.inr ⟨r1, r2⟩)
          · exact .inr ⟨hr, by rw [← hcb]; exact hk⟩
        · simp at hc
      · rw [hpc] at hf; simp [searchOf] at hf

/-- the entry of an explicit refresh: accepted (parked at ITER_REFRESH, nothing else changed) or refused -/
theorem startOp_itRefresh_cases (sh : Shared) (th : Thread) (it : Nat) :
    startOp sh th (.itRefresh it) = (sh, { th with pc := .iterRefresh it }, "at ITER_REFRESH") ∨
    startOp sh th (.itRefresh it) = (sh, th, "bad-op") := by
  simp only [startOp]
  split
  · split
    · exact .inl rfl
    · exact .inr rfl
  · exact .inr rfl

theorem mono_start_own {sh : Shared} {th : Thread} {g : Ghost} {it : Nat} (H : HInv sh.heap)
    (R : ReachInv sh.heap) (hidle : th.pc = .idle) (op : Op) (hT' : TInv sh.heap (startOp sh th op).2.1)
    (inv : g.active = true → MonoInv sh.heap g it th) :
    (g.onStart it sh th op).active = true →
      MonoInv sh.heap (g.onStart it sh th op) it (startOp sh th op).2.1 := by
  have hid : pcIter th.pc ≠ some it := by rw [hidle]; simp [pcIter]
  -- the phase of an idle thread
  have rest : g.active = true → g.positions.length = g.stamps.length ∧ (∀ c ∈ g.positions, c < sh.heap.length) ∧
      MonoF sh.heap g.positions g.stamps ∧
      ∃ ps0 ss0 b L, g.positions = ps0 ++ [b] ∧ g.stamps = ss0 ++ [L] ∧ L ≤ sh.heap.length ∧ Uniq sh.heap b L ∧
        (th.iter it).curr = b := by
    intro hact
    obtain ⟨hlen, hbd, hm, ph⟩ := inv hact
    refine ⟨hlen, hbd, hm, ?_⟩
    rcases ph with ⟨_, fp, hf, _⟩ | ⟨ps0, ss0, b, L, hp, hs', hL, hu, ph⟩
    · rw [hidle] at hf; simp [searchOf] at hf
    · rcases ph with ⟨_, hcur⟩ | ⟨hpc, _⟩ | ⟨fp, hf, _⟩
      · exact ⟨ps0, ss0, b, L, hp, hs', hL, hu, hcur⟩
      · rw [hidle] at hpc; simp at hpc
      · rw [hidle] at hf; simp [searchOf] at hf
  -- a new thread state with the same cursor, not inside a call on `it`, or parked at ITER_NEXT
  have same : ∀ th' : Thread, (pcIter th'.pc ≠ some it ∨ th'.pc = .iterNext it) →
      (th'.iter it).curr = (th.iter it).curr → g.active = true → MonoInv sh.heap g it th' := by
    intro th' hp hcur hact
    obtain ⟨hlen, hbd, hm, ps0, ss0, b, L, hp0, hs', hL, hu, hc⟩ := rest hact
    refine ⟨hlen, hbd, hm, .inr ⟨ps0, ss0, b, L, hp0, hs', hL, hu, .inl ⟨?_, by rw [hcur]; exact hc⟩⟩⟩
    rcases hp with h | h
    · exact .inl h
    · exact .inr (.inl h)
  have other : opIter op ≠ some it → g.onStart it sh th op = g →
      (g.onStart it sh th op).active = true →
      MonoInv sh.heap (g.onStart it sh th op) it (startOp sh th op).2.1 := by
    intro ho hg hact
    rw [hg] at hact ⊢
    obtain ⟨h1, h2⟩ := startOp_other sh th op hidle ho
    exact same _ (.inl h1) (by rw [iter_of_iter? h2]) hact
  cases op with
  | ins k lvl => exact other (by simp [opIter]) rfl
  | del k => exact other (by simp [opIter]) rfl
  | look k => exact other (by simp [opIter]) rfl
  | itFirst it' =>
    by_cases hi : it' = it
    · subst hi
      intro _
      have hcur : ((startOp sh th (.itFirst it')).2.1.iter it').curr = (getNext sh.heap headId 0).1 := by
        simp only [startOp]
        rw [moveIter_iter]
      have hlt : ((startOp sh th (.itFirst it')).2.1.iter it').curr < sh.heap.length :=
        (hT'.2.1.iter H.len it').2
      have hreach : Reach sh.heap 0 ((startOp sh th (.itFirst it')).2.1.iter it').curr := by
        rw [hcur]
        obtain ⟨⟨p, m⟩, hw⟩ := Option.isSome_iff_exists.mp (H.word0 0 (by have := H.len; omega) (by omega))
        show Reach sh.heap 0 (getNext sh.heap 0 0).1
        rw [getNext_of_word hw]
        exact .single hw
      simp only [Ghost.onStart]
      refine ⟨rfl, ?_, by simp [MonoF], .inr ⟨[], [], _, _, rfl, rfl, Nat.le_refl _,
        uniq_of_reach H R hreach _, .inl ⟨.inl ?_, rfl⟩⟩⟩
      · intro c hcm
        simp at hcm
        rw [hcm]; exact hlt
      · simp only [startOp]
        exact hid
    · refine other ?_ ?_
      · simp [opIter]; exact hi
      · simp only [Ghost.onStart, if_neg hi]
  | itSeek it' x =>
    by_cases hi : it' = it
    · subst hi
      intro _
      simp only [Ghost.onStart, startOp]
      exact ⟨rfl, by simp, by simp [MonoF], .inl ⟨rfl, _, rfl, rfl⟩⟩
    · refine other ?_ ?_
      · simp [opIter]; exact hi
      · simp only [Ghost.onStart, if_neg hi]
  | itNext it' =>
    by_cases hi : it' = it
    · subst hi
      intro hact
      simp only [Ghost.onStart] at hact ⊢
      simp only [startOp]
      split
      · split
        · exact same _ (.inr rfl) rfl hact
        · exact same _ (.inl hid) rfl hact
      · exact same _ (.inl hid) rfl hact
    · refine other ?_ rfl
      simp [opIter]; exact hi
  | itClose it' =>
    by_cases hi : it' = it
    · subst hi
      intro hact
      simp [Ghost.onStart] at hact
    · refine other ?_ ?_
      · simp [opIter]; exact hi
      · simp only [Ghost.onStart, if_neg hi]
  | itInterval it' n =>
    by_cases hi : it' = it
    · subst hi
      intro hact
      simp only [Ghost.onStart] at hact ⊢
      simp only [startOp]
      split
      · rename_i I hI
        have hIt : th.iter it' = I := by simp [Thread.iter, hI]
        split
        · refine same _ (.inl hid) ?_ hact
          rw [iter_setIter_self, hIt]
        · exact same _ (.inl hid) rfl hact
      · exact same _ (.inl hid) rfl hact
    · refine other ?_ rfl
      simp [opIter]; exact hi
  | itRefresh it' =>
    by_cases hi : it' = it
    · subst hi
      intro hact
      simp only [Ghost.onStart, if_true] at hact ⊢
      obtain ⟨hlen, hbd, hm, ps0, ss0, b, L, hp0, hs', hL, hu, hc⟩ := rest hact
      have hlt : ((startOp sh th (.itRefresh it')).2.1.iter it').curr < sh.heap.length :=
        (hT'.2.1.iter H.len it').2
      rcases startOp_itRefresh_cases sh th it' with hst | hst
      · -- accepted: parked at ITER_REFRESH with the cursor on the last position
        rw [hst] at hlt ⊢
        exact ⟨hlen, hbd, hm, .inr ⟨ps0, ss0, b, L, hp0, hs', hL, hu, .inr (.inl ⟨rfl, hlt, .inr ⟨rfl, hc⟩⟩)⟩⟩
      · -- refused: nothing happens
        rw [hst]
        exact ⟨hlen, hbd, hm, .inr ⟨ps0, ss0, b, L, hp0, hs', hL, hu, .inl ⟨.inl hid, hc⟩⟩⟩
    · refine other ?_ ?_
      · simp [opIter]; exact hi
      · simp only [Ghost.onStart, if_neg hi]

abbrev MonoSys := SysP MonoInv

theorem actG_mono {t it : Nat} {s : Sys} {g : Ghost} (hI : InvS s) (b : MonoSys t it s g) (a : Action) :
    MonoSys t it (s.act a) (ghostAct t it s g a) :=
  actG_pred (P := MonoInv) (fun H e s b => b.stable H e s)
    (fun H R hT hS e hs H' R' hT' inv => mono_step_own H R hT hS e hs H' R' hT' inv)
    (fun H R _ hidle op hT' inv hact => mono_start_own H R hidle op hT' inv hact) hI b a

/-- the monotonicity invariant holds along every instrumented run -/
theorem runG_mono {t it : Nat} {s : Sys} {g : Ghost} (hI : InvS s) (b : MonoSys t it s g) (as : List Action) :
    InvS (Sys.runG t it (s, g) as).1 ∧ MonoSys t it (Sys.runG t it (s, g) as).1 (Sys.runG t it (s, g) as).2 :=
  runG_pred (P := MonoInv) actG_mono hI b as

end NitroVerif.SkipConc
