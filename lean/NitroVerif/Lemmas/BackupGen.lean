import NitroVerif.Gen.Guards
/-!
  Characterisation of the generated definitions the backup model (M7) relies on.  The proofs about
  `load`, the delta insertion and the store effects go through these named lemmas, so a change of the
  Go condition or of the order of the file-system calls breaks the lemma with that name.
-/
namespace NitroVerif.Backup.GenLemmas
open NitroVerif

/-- nitro.go LoadFromDisk: `hasChecksums && checksums[i] != rdr.Checksum()` -/
theorem checksumMismatch_iff (has : Bool) (stored actual : Nat) :
    Gen.checksumMismatch has stored actual = true ↔ has = true ∧ stored ≠ actual := by
  simp [Gen.checksumMismatch]

theorem checksumMismatch_false_iff (has : Bool) (stored actual : Nat) :
    Gen.checksumMismatch has stored actual = false ↔ (has = true → stored = actual) := by
  cases has <;> simp [Gen.checksumMismatch]

/-- without a checksums file nothing is rejected -/
theorem checksumMismatch_unchecked (stored actual : Nat) :
    Gen.checksumMismatch false stored actual = false := by
  simp [Gen.checksumMismatch]

/-- with a checksums file a stored checksum 0 IS checked (the fix of D7: no "0 = unchecked") -/
theorem checksumMismatch_checked (stored actual : Nat) :
    Gen.checksumMismatch true stored actual = decide (stored ≠ actual) := by
  simp [Gen.checksumMismatch]

theorem checksumMismatch_self (has : Bool) (s : Nat) : Gen.checksumMismatch has s s = false := by
  simp [Gen.checksumMismatch]

/-- nitro.go LoadFromDisk, delta part: the same test -/
theorem deltaChecksumMismatch_iff (has : Bool) (stored actual : Nat) :
    Gen.deltaChecksumMismatch has stored actual = true ↔ has = true ∧ stored ≠ actual := by
  simp [Gen.deltaChecksumMismatch]

theorem deltaChecksumMismatch_false_iff (has : Bool) (stored actual : Nat) :
    Gen.deltaChecksumMismatch has stored actual = false ↔ (has = true → stored = actual) := by
  cases has <;> simp [Gen.deltaChecksumMismatch]

theorem deltaChecksumMismatch_self (has : Bool) (s : Nat) :
    Gen.deltaChecksumMismatch has s s = false := by
  simp [Gen.deltaChecksumMismatch]

theorem deltaChecksumMismatch_eq (has : Bool) (stored actual : Nat) :
    Gen.deltaChecksumMismatch has stored actual = Gen.checksumMismatch has stored actual := rfl

/-- nitro.go newInsertCompare on two restored items (bornSn = 0 on both sides): the key comparison -/
theorem insertCompare_restored (c : Int) : Gen.insertCompare c 0 0 = c := by
  unfold Gen.insertCompare
  split
  · rename_i h; simp at h; simp [h]
  · rfl

/-- nitro.go newExistCompare on two restored items (deadSn = 0 on both sides): the key comparison -/
theorem existCompare_restored (c : Int) : Gen.existCompare c 0 0 = c := by
  simp [Gen.existCompare]

/-- skiplist.go findPath: advance while `cmpVal < 0` -/
theorem findAdvance_iff (c : Int) : Gen.findAdvance c = true ↔ c < 0 := by
  simp [Gen.findAdvance]

/-- skiplist.go findPath: found when `cmpVal == 0` -/
theorem findFound_iff (c : Int) : Gen.findFound c = true ↔ c = 0 := by
  simp [Gen.findFound]

/-- nitro.go StoreToDisk: the order of its calls.  Deferred calls run in reverse order of their
    `defer` statements: (1) snap.Close, (2) data writers' Close, (3) delta writers' Close,
    (4) delta terminate handshake + delta manifests — so at return: (4), (3), (2), (1).
    In program order: MkdirAll(data); Open of every data shard; [delta: MkdirAll(delta), Open of every
    delta shard, changeDeltaWrState(init), snap.Close]; nitro.json; Visitor (WriteItem);
    files.json; checksums.json. -/
theorem skeleton_StoreToDisk_ok :
    Gen.skeleton_StoreToDisk =
      ["defer", "snap.Close", "m.Lock", "m.Unlock", "defer", "m.Unlock", "os.MkdirAll",
       "defer", "w.Close", "w.Open",
       "defer", "w.Close", "os.MkdirAll", "dw.Open", "m.changeDeltaWrState", "snap.Close",
       "defer", "m.changeDeltaWrState", "ioutil.WriteFile(files.json)", "ioutil.WriteFile(checksums.json)",
       "w.WriteItem", "ioutil.WriteFile(nitro.json)", "m.Visitor",
       "ioutil.WriteFile(files.json)", "ioutil.WriteFile(checksums.json)"] := rfl

/-- file.go (*rawFileWriter).Close: terminator through WriteItem, Flush, fd.Close (the other
    fd.Close is on the error path of Flush) -/
theorem skeleton_rawFileWriterClose_ok :
    Gen.skeleton_rawFileWriterClose = ["f.WriteItem", "f.w.Flush", "f.fd.Close", "f.fd.Close"] := rfl

/-- nitro.go LoadFromDisk: the order of its calls (three manifests parsed, shard files opened,
    dispatch, Assemble; then the delta part: two manifests, open, Insert2, dispatch; NewSnapshot) -/
theorem skeleton_LoadFromDisk_ok :
    Gen.skeleton_LoadFromDisk =
      ["json.Unmarshal", "json.Unmarshal", "json.Unmarshal", "defer", "r.Close", "r.Open", "defer",
       "send(wchan)", "close", "old.FreeNode", "old.FreeNode", "b.Assemble",
       "json.Unmarshal", "json.Unmarshal", "defer", "r.Close", "r.Open", "defer",
       "w.store.Insert2", "w.freeItem", "atomic.AddUint64(m.restoreStats.DeltaRestored)",
       "atomic.AddUint64(m.restoreStats.DeltaRestoreFailed)", "send(wchan)", "close", "m.NewSnapshot"] := rfl

end NitroVerif.Backup.GenLemmas
