import NitroVerif.Gen.Shapes
/-!
  Pinned control shapes, area Mvcc: the functions of /repo the models of this area mirror have, today, exactly
  these shapes (tools/gofacts/shapes.go).  `Gen/Shapes.lean` is regenerated from the working tree on every run; a change
  of an operator, bound, call, early return or loop in one of these functions breaks the lemma named after it.
  Expectations are maintained by hand (bootstrap: `go run . -shape-lemmas Mvcc`).
-/
namespace NitroVerif.ShapeTie.Mvcc
open NitroVerif.Gen.Shape

/-- nitro.go `*Writer.Put` -/
theorem shape_Put_ok : Mvcc_Put =
    ["Put2"] := rfl

/-- nitro.go `*Writer.Put2` -/
theorem shape_Put2_ok : Mvcc_Put2 =
    ["newItem", "GetCurrSn", "Insert2", "if-else()", "++", "freeItem", "return()"] := rfl

/-- nitro.go `*Writer.Delete` -/
theorem shape_WriterDelete_ok : Mvcc_WriterDelete =
    ["Delete2", "return()"] := rfl

/-- nitro.go `*Writer.Delete2` -/
theorem shape_Delete2_ok : Mvcc_Delete2 =
    ["GetAccesBarrier", "Acquire", "defer", "Release", "if(!= nil)", "GetNode", "return(_,_)", "DeleteNode", "return(nil,false)"] := rfl

/-- nitro.go `*Writer.DeleteNode` -/
theorem shape_WriterDeleteNode_ok : Mvcc_WriterDeleteNode =
    ["defer", "if()", "--", "GetCurrSn", "Item", "if(==)", "DeleteNode", "if()", "SetLink", "GetAccesBarrier", "FlushSession", "return()", "CompareAndSwapUint32", "if()", "SetLink", "if-else(== nil)", "SetLink", "return()"] := rfl

/-- nitro.go `*Writer.GetNode` -/
theorem shape_GetNode_ok : Mvcc_GetNode =
    ["NewIterator", "defer", "Close", "newItem", "GetCurrSn", "if()", "SeekWithCmp", "return(_)", "GetNode", "return(nil)"] := rfl

/-- nitro.go `.newInsertCompare` -/
theorem shape_newInsertCompare_ok : Mvcc_newInsertCompare =
    ["return(_)", "if(== 0)", "keyCmp", "Bytes", "Bytes", "return(_)"] := rfl

/-- nitro.go `.newIterCompare` -/
theorem shape_newIterCompare_ok : Mvcc_newIterCompare =
    ["return(_)", "return(_)", "keyCmp", "Bytes", "Bytes"] := rfl

/-- nitro.go `.newExistCompare` -/
theorem shape_newExistCompare_ok : Mvcc_newExistCompare =
    ["return(_)", "if(!= 0 || != 0)", "return(1)", "return(_)", "keyCmp", "Bytes", "Bytes"] := rfl

/-- nitro.go `.defaultKeyCmp` -/
theorem shape_defaultKeyCmp_ok : Mvcc_defaultKeyCmp =
    ["return(_)", "Compare"] := rfl

/-- nitro.go `.CompareNitro` -/
theorem shape_CompareNitro_ok : Mvcc_CompareNitro =
    ["return(_)"] := rfl

/-- nitro.go `.CompareSnapshot` -/
theorem shape_CompareSnapshot_ok : Mvcc_CompareSnapshot =
    ["return(_)"] := rfl

/-- nitro.go `*Nitro.NewSnapshot` -/
theorem shape_NewSnapshot_ok : Mvcc_NewSnapshot =
    ["MakeBuf", "defer", "FreeBuf", "for(!= nil)", "if-else(== nil)", "if(!= nil)", "SetLink", "Merge", "AddInt64", "GetCurrSn", "ItemsCount", "Insert", "AddUint32", "if(==)", "return(nil,_)", "return(_,nil)"] := rfl

/-- nitro.go `*Snapshot.Open` -/
theorem shape_SnapshotOpen_ok : Mvcc_SnapshotOpen =
    ["for()", "LoadInt32", "if(== 0)", "return(false)", "if(+ 1)", "CompareAndSwapInt32", "return(true)"] := rfl

/-- nitro.go `*Snapshot.Close` -/
theorem shape_SnapshotClose_ok : Mvcc_SnapshotClose =
    ["AddInt32", "if(== 0)", "MakeBuf", "defer", "FreeBuf", "Delete", "Insert", "GC"] := rfl

/-- nitro.go `*Snapshot.NewIterator` -/
theorem shape_SnapshotNewIterator_ok : Mvcc_SnapshotNewIterator =
    ["return(_)", "NewIterator"] := rfl

/-- nitro.go `*Nitro.collectDead` -/
theorem shape_collectDead_ok : Mvcc_collectDead =
    ["MakeBuf", "MakeBuf", "defer", "FreeBuf", "defer", "FreeBuf", "NewIterator", "defer", "Close", "for()", "SeekFirst", "Valid", "Next", "GetNode", "Item", "if(!= + 1)", "GetLastGCSn", "return()", "StoreUint32", "send", "DeleteNode"] := rfl

/-- nitro.go `*Nitro.GC` -/
theorem shape_GC_ok : Mvcc_GC =
    ["for(0 1)", "CompareAndSwapInt32", "collectDead", "CompareAndSwapInt32", "if(!)", "hasCollectableSnapshot", "break"] := rfl

/-- nitro.go `*Nitro.hasCollectableSnapshot` -/
theorem shape_hasCollectableSnapshot_ok : Mvcc_hasCollectableSnapshot =
    ["MakeBuf", "defer", "FreeBuf", "NewIterator", "defer", "Close", "SeekFirst", "if(!)", "Valid", "return(false)", "Get", "return(_)", "GetLastGCSn"] := rfl

/-- nitro.go `*Nitro.collectionWorker` -/
theorem shape_collectionWorker_ok : Mvcc_collectionWorker =
    ["MakeBuf", "defer", "FreeBuf", "defer", "Done", "for()", "select", "comm", "doCheckpoint", "comm", "if(!)", "close", "return()", "for(!= nil)", "GetLink", "doDeltaWrite", "Item", "DeleteNode", "Merge", "GetAccesBarrier", "FlushSession"] := rfl

/-- nitro.go `*Nitro.freeWorker` -/
theorem shape_freeWorker_ok : Mvcc_freeWorker =
    ["range", "for(!= nil)", "GetLink", "Item", "freeItem", "FreeNode", "Merge", "Done"] := rfl

/-- nitro.go `*Nitro.newBSDestructor` -/
theorem shape_newBSDestructor_ok : Mvcc_newBSDestructor =
    ["return(_)", "if(!= nil)", "send"] := rfl

/-- nitro.go `*Nitro.ptrToItem` -/
theorem shape_ptrToItem_ok : Mvcc_ptrToItem =
    ["newItem", "Bytes", "return(_)"] := rfl

/-- nitro.go `*Nitro.Close` -/
theorem shape_NitroClose_ok : Mvcc_NitroClose =
    ["for(!= 0)", "GetStats", "GetStats", "Sleep", "Lock", "Unlock", "for(! 0 1)", "CompareAndSwapInt32", "Sleep", "close", "MakeBuf", "defer", "FreeBuf", "Delete", "if()", "MakeBuf", "defer", "FreeBuf", "Wait", "close", "Wait", "NewIterator", "defer", "Close", "SeekFirst", "if()", "Valid", "GetNode", "Next", "for(!= nil)", "freeItem", "Item", "FreeNode", "if()", "Valid", "GetNode", "Next", "FreeNode", "HeadNode", "FreeNode", "TailNode"] := rfl

/-- nitro.go `*Nitro.newWriter` -/
theorem shape_newWriter_ok : Mvcc_newWriter =
    ["New", "NewSource", "Int", "MakeBuf", "IsLocal", "IsLocal", "IsLocal", "return(_)"] := rfl

/-- nitro.go `*Nitro.ItemsCount` -/
theorem shape_ItemsCount_ok : Mvcc_ItemsCount =
    ["return(_)", "LoadInt64"] := rfl

/-- iterator.go `*Iterator.skipUnwanted` -/
theorem shape_skipUnwanted_ok : Mvcc_skipUnwanted =
    ["label loop", "if(!)", "Valid", "return()", "Get", "if(> || > 0 && <=)", "Next", "++", "goto loop"] := rfl

/-- iterator.go `*Iterator.SeekFirst` -/
theorem shape_IterSeekFirst_ok : Mvcc_IterSeekFirst =
    ["SeekFirst", "skipUnwanted"] := rfl

/-- iterator.go `*Iterator.Seek` -/
theorem shape_IterSeek_ok : Mvcc_IterSeek =
    ["newItem", "Seek", "skipUnwanted"] := rfl

/-- iterator.go `*Iterator.Valid` -/
theorem shape_IterValid_ok : Mvcc_IterValid =
    ["return(_)", "Valid"] := rfl

/-- iterator.go `*Iterator.Next` -/
theorem shape_IterNext_ok : Mvcc_IterNext =
    ["Next", "++", "skipUnwanted", "if(> 0 && >)", "Refresh"] := rfl

/-- iterator.go `*Iterator.Refresh` -/
theorem shape_IterRefresh_ok : Mvcc_IterRefresh =
    ["if()", "Valid", "ptrToItem", "Item", "GetNode", "Close", "NewIterator", "Seek", "skipUnwanted"] := rfl

/-- iterator.go `*Iterator.SetRefreshRate` -/
theorem shape_IterSetRefreshRate_ok : Mvcc_IterSetRefreshRate =
    [] := rfl

/-- iterator.go `*Iterator.Close` -/
theorem shape_IterClose_ok : Mvcc_IterClose =
    ["Close", "FreeBuf", "Close"] := rfl

/-- iterator.go `*Nitro.NewIterator` -/
theorem shape_NitroNewIterator_ok : Mvcc_NitroNewIterator =
    ["if(!)", "Open", "return(nil)", "MakeBuf", "return(_)", "NewIterator"] := rfl

/-- item.go `*Nitro.newItem` -/
theorem shape_newItem_ok : Mvcc_newItem =
    ["allocItem", "Bytes", "return(_)"] := rfl

/-- item.go `*Nitro.freeItem` -/
theorem shape_freeItem_ok : Mvcc_freeItem =
    ["if()", "freeFun"] := rfl

/-- item.go `*Nitro.allocItem` -/
theorem shape_allocItem_ok : Mvcc_allocItem =
    ["if-else()", "mallocFun", "return()"] := rfl

/-- nitro.go `.DefaultConfig` -/
theorem shape_DefaultConfig_ok : Mvcc_DefaultConfig =
    ["SetKeyComparator", "return(_)"] := rfl

/-- nitro.go `*Config.SetKeyComparator` -/
theorem shape_SetKeyComparator_ok : Mvcc_SetKeyComparator =
    ["newInsertCompare", "newIterCompare", "newExistCompare"] := rfl

/-- nitro.go `*Config.UseMemoryMgmt` -/
theorem shape_UseMemoryMgmt_ok : Mvcc_UseMemoryMgmt =
    ["if(== || ==)"] := rfl

/-- nitro.go `*Config.UseDeltaInterleaving` -/
theorem shape_UseDeltaInterleaving_ok : Mvcc_UseDeltaInterleaving =
    [] := rfl

/-- nitro.go `.NewWithConfig` -/
theorem shape_NewWithConfig_ok : Mvcc_NewWithConfig =
    ["New", "New", "AddInt64", "NewWithConfig", "newStoreConfig", "initSizeFuns", "MakeBuf", "defer", "FreeBuf", "Insert", "return(_)"] := rfl

/-- nitro.go `*Nitro.newStoreConfig` -/
theorem shape_newStoreConfig_ok : Mvcc_newStoreConfig =
    ["DefaultConfig", "if()", "newBSDestructor", "return(_)"] := rfl

/-- nitro.go `*Nitro.initSizeFuns` -/
theorem shape_initSizeFuns_ok : Mvcc_initSizeFuns =
    ["SetItemSizeFunc", "SetItemSizeFunc", "SetItemSizeFunc"] := rfl

/-- nitro.go `*Nitro.NewWriter` -/
theorem shape_NewWriter_ok : Mvcc_NewWriter =
    ["newWriter", "Init", "Add", "go", "collectionWorker", "if()", "Add", "go", "freeWorker", "return(_)"] := rfl

/-- nitro.go `*Nitro.GetSnapshots` -/
theorem shape_GetSnapshots_ok : Mvcc_GetSnapshots =
    ["MakeBuf", "defer", "FreeBuf", "NewIterator", "SeekFirst", "for()", "Valid", "Next", "Get", "return(_)"] := rfl

end NitroVerif.ShapeTie.Mvcc
