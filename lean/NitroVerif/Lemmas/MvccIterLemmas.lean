/-
  Iterator positioning on a sorted store with V2 lifetimes, expressed on the list of versions
  visible at the iterator's snapshot number (`vis s sn`).
-/
import NitroVerif.Lemmas.MvccStoreOps

namespace NitroVerif.Mvcc
open NitroVerif

/-- the visible versions, in physical order -/
def vis (s : List Ver) (sn : Nat) : List Ver := s.filter (visible sn)

def KeyLt (a b : Ver) : Prop := a.key < b.key

theorem find?_congr' {α : Type} {p q : α → Bool} : ∀ {l : List α}, (∀ a ∈ l, p a = q a) →
    l.find? p = l.find? q
  | [], _ => rfl
  | x :: xs, h => by
    have hx := h x (by simp)
    have ih := find?_congr' (l := xs) (fun a ha => h a (List.mem_cons_of_mem _ ha))
    simp [List.find?_cons, hx, ih]

/-- one visible version per key -/
theorem visible_unique {cur : Nat} {s : List Ver} (hc : Chains cur s) {sn : Nat} {a b : Ver}
    (ha : a ∈ s) (hb : b ∈ s) (hva : visible sn a = true) (hvb : visible sn b = true)
    (hk : a.key = b.key) : a.born = b.born := by
  have h1 := hc.2 a ha b hb hk
  have h2 := hc.2 b hb a ha hk.symm
  have h3 := (visible_iff sn a).mp hva
  have h4 := (visible_iff sn b).mp hvb
  omega

theorem vis_keySorted {cur : Nat} {s : List Ver} (hs : Sorted s) (hc : Chains cur s) (sn : Nat) :
    (vis s sn).Pairwise KeyLt := by
  have h := sorted_filter hs (visible sn)
  apply List.Pairwise.imp_of_mem _ h
  intro a b ha hb hab
  have ha' := List.mem_filter.mp ha
  have hb' := List.mem_filter.mp hb
  unfold KeyLt
  unfold vlt at hab
  rcases hab with h1 | h1
  · exact h1
  · have := visible_unique hc ha'.1 hb'.1 ha'.2 hb'.2 h1.1; omega

theorem skipList_fst (sn : Nat) : ∀ (l : List Ver) (c : Int),
    (skipList sn l c).1 = (l.filter (visible sn)).head?
  | [], _ => rfl
  | x :: xs, c => by
    unfold skipList
    by_cases h : Gen.skipUnwanted x.born x.dead sn = true
    · have : visible sn x = false := by unfold visible; simp [h]
      simp [h, this, skipList_fst sn xs]
    · have h' : Gen.skipUnwanted x.born x.dead sn = false := by simpa using h
      have : visible sn x = true := by unfold visible; simp [h']
      simp [h', this]

@[simp] theorem skipFrom_sn (it : Iter) (r : List Ver) (c : Int) : (it.skipFrom r c).sn = it.sn := rfl
@[simp] theorem skipFrom_rate (it : Iter) (r : List Ver) (c : Int) : (it.skipFrom r c).rate = it.rate := rfl
theorem skipFrom_cur (it : Iter) (r : List Ver) (c : Int) :
    (it.skipFrom r c).cur = (r.filter (visible it.sn)).head? := by
  unfold Iter.skipFrom; simp [skipList_fst]

@[simp] theorem seekFirst_sn (s : List Ver) (it : Iter) : (it.seekFirst s).sn = it.sn := rfl
@[simp] theorem seek_sn (s : List Ver) (k : Nat) (it : Iter) : (it.seek s k).sn = it.sn := rfl
@[simp] theorem refresh_sn (s : List Ver) (it : Iter) : (it.refresh s).sn = it.sn := by
  unfold Iter.refresh; split <;> rfl
@[simp] theorem refresh_rate (s : List Ver) (it : Iter) : (it.refresh s).rate = it.rate := by
  unfold Iter.refresh; split <;> rfl
@[simp] theorem next_sn (s : List Ver) (it : Iter) : (it.next s).sn = it.sn := by
  unfold Iter.next; split
  · simp only; split <;> simp
  · rfl

theorem seekFirst_cur (s : List Ver) (it : Iter) : (it.seekFirst s).cur = (vis s it.sn).head? := by
  unfold Iter.seekFirst vis; rw [skipFrom_cur]

theorem seek_cur {s : List Ver} (hs : Sorted s) (k : Nat) (it : Iter) :
    (it.seek s k).cur = (vis s it.sn).find? (fun x => decide (k ≤ x.key)) := by
  unfold Iter.seek vis
  rw [skipFrom_cur, seekRest_eq hs, List.head?_filter, List.find?_filter, List.find?_filter]
  apply find?_congr'
  intro a _
  simp only [Bool.decide_and, Bool.decide_eq_true, Bool.and_comm]

/-- in a key-sorted list the first element with key ≥ that of a member is the member -/
theorem find_ge_self : ∀ {l : List Ver}, l.Pairwise KeyLt → ∀ {w : Ver}, w ∈ l →
    l.find? (fun x => decide (w.key ≤ x.key)) = some w
  | [], _, _, hw => by simp at hw
  | x :: xs, h, w, hw => by
    have hx := List.pairwise_cons.mp h
    rcases List.mem_cons.mp hw with rfl | hw'
    · simp
    · have : x.key < w.key := hx.1 w hw'
      have hn : decide (w.key ≤ x.key) = false := by simp; omega
      simp only [List.find?_cons, hn]
      exact find_ge_self hx.2 hw'

/-- `Refresh` on a cursor standing on (a copy of) a visible version stays there -/
theorem refresh_cur {cur : Nat} {s : List Ver} (hs : Sorted s) (hc : Chains cur s) {it : Iter}
    {v v' : Ver} (hcur : it.cur = some v) (hv' : v' ∈ vis s it.sn) (hk : v'.key = v.key) :
    (it.refresh s).cur = some v' := by
  unfold Iter.refresh
  rw [hcur]
  simp only
  rw [skipFrom_cur, seekRest_eq hs, List.head?_filter, List.find?_filter]
  have := find_ge_self (vis_keySorted hs hc it.sn) hv'
  unfold vis at this
  rw [List.find?_filter] at this
  rw [← this]
  apply find?_congr'
  intro a _
  simp [hk, and_comm]

/-- physical `Next` followed by `skipUnwanted`: the first visible version with a larger key -/
theorem next_skip_cur {cur : Nat} {s : List Ver} (hs : Sorted s) (hc : Chains cur s) {it : Iter}
    {v v' : Ver} (hv' : v' ∈ vis s it.sn) (hk : v'.key = v.key) (hb : v'.born = v.born) (c : Int) :
    (it.skipFrom (afterRest v s) c).cur = (vis s it.sn).find? (fun x => decide (v.key < x.key)) := by
  rw [skipFrom_cur, afterRest_eq hs, List.head?_filter, List.find?_filter]
  unfold vis
  rw [List.find?_filter]
  apply find?_congr'
  intro a ha
  have hv'' := List.mem_filter.mp hv'
  by_cases hva : visible it.sn a = true
  · have e := insLt_iff v a
    by_cases hl : v.key < a.key
    · have : insLt v a = true := e.mpr (Or.inl hl)
      simp [this, hva, hl]
    · have : insLt v a = false := by
        cases h : insLt v a
        · rfl
        · have := e.mp h
          unfold vlt at this
          rcases this with h1 | h1
          · exact absurd h1 hl
          · have := visible_unique hc hv''.1 ha hv''.2 hva (by omega); omega
      simp [this, hl]
  · simp [hva]

theorem next_cur {cur : Nat} {s : List Ver} (hs : Sorted s) (hc : Chains cur s) {it : Iter}
    {v v' : Ver} (hcur : it.cur = some v) (hv' : v' ∈ vis s it.sn) (hk : v'.key = v.key)
    (hb : v'.born = v.born) :
    (it.next s).cur = (vis s it.sn).find? (fun x => decide (v.key < x.key)) := by
  unfold Iter.next
  rw [hcur]
  simp only
  have h1 := next_skip_cur hs hc (it := it) hv' hk hb (it.count + 1)
  split
  · -- automatic refresh
    simp only
    cases h2 : (it.skipFrom (afterRest v s) (it.count + 1)).cur with
    | none =>
      unfold Iter.refresh; rw [h2]; simp only; rw [h2, ← h1, h2]
    | some w =>
      have hw : w ∈ vis s it.sn := by
        rw [h1] at h2; exact List.mem_of_find?_eq_some h2
      have := refresh_cur hs hc (it := it.skipFrom (afterRest v s) (it.count + 1)) h2
        (by simpa using hw) rfl
      rw [this, ← h1, h2]
  · exact h1

/-- the first element with a larger key than a member is its successor -/
theorem find_gt_split : ∀ {pre : List Ver} {v : Ver} {rest : List Ver},
    (pre ++ v :: rest).Pairwise KeyLt →
    (pre ++ v :: rest).find? (fun x => decide (v.key < x.key)) = rest.head?
  | [], v, rest, h => by
    have hx := List.pairwise_cons.mp h
    simp only [List.nil_append, List.find?_cons]
    simp
    cases rest with
    | nil => rfl
    | cons y ys =>
      have : v.key < y.key := hx.1 y (by simp)
      simp [this]
  | x :: pre, v, rest, h => by
    have hx := List.pairwise_cons.mp h
    have : x.key < v.key := hx.1 v (by simp)
    have hn : decide (v.key < x.key) = false := by simp; omega
    simp only [List.cons_append, List.find?_cons, hn]
    exact find_gt_split hx.2

end NitroVerif.Mvcc
