/-
  The state invariant of the M6 model (DESIGN.md A.2: V1–V3, G1–G3, S1, It1) and small facts
  about the bookkeeping functions.
-/
import NitroVerif.Lemmas.MvccScanLemmas

namespace NitroVerif.Mvcc
open NitroVerif SetSpec

/-- V3: counters -/
def CountInv (store : List Ver) (writers : List Writer) (items : Int) : Prop :=
  items + (writers.map (·.count)).sum = ((store.filter isAlive).length : Nat)

/-- snapshot numbering, reference counts, collection frontier (G2) -/
structure SnapInv (snaps : List Snap) (cur lastGC : Nat) : Prop where
  lt : ∀ s ∈ snaps, 0 < s.sn ∧ s.sn < cur
  all : ∀ n, 0 < n → n < cur → ∃ s ∈ snaps, s.sn = n
  inc : snaps.Pairwise (fun a b => a.sn < b.sn)
  rc : ∀ s ∈ snaps, 0 ≤ s.rc ∧ (s.st = .live ↔ 0 < s.rc)
  gclt : lastGC < cur
  coll : ∀ s ∈ snaps, (s.st = .collected ↔ s.sn ≤ lastGC)
  front : ∀ s ∈ snaps, s.sn = lastGC + 1 → s.st = .live
  cnt : ∀ s ∈ snaps, s.count = (s.content.length : Nat)

/-- S1: an open snapshot sees what it saw at creation -/
def ViewInv (store : List Ver) (snaps : List Snap) : Prop :=
  ∀ s ∈ snaps, 0 < s.rc → view store s.sn = s.content

/-- `g` is in the garbage list of some writer -/
def InGc (writers : List Writer) (g : Ver) : Prop := ∃ w ∈ writers, g ∈ w.gc

/-- G1/G3: where the dead versions are accounted, and what the garbage lists may name -/
structure GarbInv (store : List Ver) (writers : List Writer) (snaps : List Snap) (cur lastGC : Nat) : Prop where
  wgc : ∀ v ∈ store, v.dead = cur → ∃ g, InGc writers g ∧ sameId v g = true
  sgc : ∀ v ∈ store, v.dead ≠ 0 → v.dead < cur →
          ∃ s ∈ snaps, s.sn = v.dead ∧ ∃ g ∈ s.gclist, sameId v g = true
  wsound : ∀ g, InGc writers g → g.born < cur ∧ ∀ v ∈ store, sameId v g = true → v.dead = cur
  ssound : ∀ s ∈ snaps, s.st ≠ .collected → ∀ g ∈ s.gclist,
          g.born < s.sn ∧ ∀ v ∈ store, sameId v g = true → v.dead = s.sn
  exact : ∀ v ∈ store, v.dead ≠ 0 → lastGC < v.dead
  /-- nothing named by a garbage list that has not been collected yet has been unlinked -/
  wpres : ∀ g, InGc writers g → ∃ v ∈ store, sameId v g = true
  spres : ∀ s ∈ snaps, s.st ≠ .collected → ∀ g ∈ s.gclist, ∃ v ∈ store, sameId v g = true

/-- It1: an iterator stands on a version of its snapshot's content and owns one reference -/
structure IterInv (iters : List (Nat × Iter)) (snaps : List Snap) : Prop where
  snap : ∀ p ∈ iters, ∃ s ∈ snaps, s.sn = p.2.sn ∧ ∀ v, p.2.cur = some v → v.norm ∈ s.content
  refs : ∀ s ∈ snaps, itersOn s.sn iters ≤ s.rc

/-- a handle not marked `gone` points to a present node or to one born in an earlier epoch -/
def HandleInv (handles : List (Nat × Handle)) (store : List Ver) (cur : Nat) : Prop :=
  ∀ p ∈ handles, p.2.gone = false →
    p.2.born < cur ∨ ∃ v ∈ store, v.key = p.2.key ∧ v.born = p.2.born

structure Inv (σ : State) : Prop where
  sorted : Sorted σ.store
  chains : Chains σ.currSn σ.store
  count : CountInv σ.store σ.writers σ.itemsCount
  snaps : SnapInv σ.snaps σ.currSn σ.lastGCSn
  view : ViewInv σ.store σ.snaps
  garb : GarbInv σ.store σ.writers σ.snaps σ.currSn σ.lastGCSn
  iters : IterInv σ.iters σ.snaps
  handles : HandleInv σ.handles σ.store σ.currSn

theorem inv_init (n : Nat) : Inv (init n) := by
  refine ⟨?_, ?_, ?_, ?_, ?_, ?_, ?_, ?_⟩
  · exact List.Pairwise.nil
  · exact ⟨by simp [init], by simp [init]⟩
  · simp only [CountInv, init]
    induction n with
    | zero => simp
    | succ n ih => simp [List.replicate_succ] at ih ⊢
  · refine ⟨by simp [init], ?_, by simp [init], by simp [init], by simp [init], by simp [init],
      by simp [init], by simp [init]⟩
    intro k h1 h2; simp [init] at h2; omega
  · intro s hs; simp [init] at hs
  · have hno : ∀ g, ¬ InGc (init n).writers g := by
      rintro g ⟨w, hw, hg⟩
      simp [init] at hw
      rw [hw.2] at hg; simp at hg
    exact ⟨by simp [init], by simp [init], fun g hg => absurd hg (hno g), by simp [init], by simp [init],
      fun g hg => absurd hg (hno g), by simp [init]⟩
  · exact ⟨by simp [init], by simp [init]⟩
  · intro p hp; simp [init] at hp

/-! ### snapshot lookup -/

theorem findSnap_some {snaps : List Snap} {s : Nat} {x : Snap} (h : findSnap s snaps = some x) :
    x ∈ snaps ∧ x.sn = s := by
  unfold findSnap at h
  have := List.find?_some h
  simp at this
  exact ⟨List.mem_of_find?_eq_some h, this⟩

theorem findSnap_none {snaps : List Snap} {s : Nat} (h : findSnap s snaps = none) :
    ∀ x ∈ snaps, x.sn ≠ s := by
  intro x hx hs
  unfold findSnap at h
  have := List.find?_eq_none.mp h x hx
  simp [hs] at this

theorem snap_unique {snaps : List Snap} (h : snaps.Pairwise (fun a b => a.sn < b.sn)) {a b : Snap}
    (ha : a ∈ snaps) (hb : b ∈ snaps) (hs : a.sn = b.sn) : a = b := by
  rcases pairwise_mem_trichotomy h ha hb with h | h | h
  · exact h
  · omega
  · omega

theorem mem_updSnap {snaps : List Snap} {s : Nat} {f : Snap → Snap} {y : Snap}
    (h : y ∈ updSnap s f snaps) : ∃ x ∈ snaps, y = if x.sn = s then f x else x := by
  unfold updSnap at h
  obtain ⟨x, hx, rfl⟩ := List.mem_map.mp h
  exact ⟨x, hx, rfl⟩

theorem updSnap_pairwise {snaps : List Snap} (h : snaps.Pairwise (fun a b => a.sn < b.sn)) (s : Nat)
    (f : Snap → Snap) (hf : ∀ x, (f x).sn = x.sn) :
    (updSnap s f snaps).Pairwise (fun a b => a.sn < b.sn) := by
  unfold updSnap
  apply List.Pairwise.map _ _ h
  intro a b hab
  split <;> split <;> simp [hf, hab]

/-! ### writers -/

theorem sum_updWriter (w : Nat) (f : Writer → Writer) (d : Int) (hf : ∀ x, (f x).count = x.count + d) :
    ∀ (l : List Writer), w < l.length →
      ((updWriter w f l).map (·.count)).sum = (l.map (·.count)).sum + d := by
  intro l hw
  unfold updWriter
  rw [List.getElem?_eq_getElem hw]
  simp only
  induction l generalizing w with
  | nil => simp at hw
  | cons x xs ih =>
    cases w with
    | zero => simp [hf]; omega
    | succ w =>
      simp at hw
      have := ih w (by omega)
      simp at this ⊢
      omega

theorem mem_updWriter {w : Nat} {f : Writer → Writer} {l : List Writer} {y : Writer}
    (h : y ∈ updWriter w f l) : y ∈ l ∨ ∃ x ∈ l, y = f x := by
  unfold updWriter at h
  split at h
  · rename_i x hx
    rcases List.mem_or_eq_of_mem_set h with h | h
    · exact Or.inl h
    · exact Or.inr ⟨x, List.mem_of_getElem? hx, h⟩
  · exact Or.inl h

theorem updWriter_length (w : Nat) (f : Writer → Writer) (l : List Writer) :
    (updWriter w f l).length = l.length := by
  unfold updWriter; split <;> simp

/-- a writer that exists before the update is still there, possibly updated -/
theorem updWriter_mem_of_mem {w : Nat} {f : Writer → Writer} {l : List Writer} {x : Writer}
    (hx : x ∈ l) : x ∈ updWriter w f l ∨ f x ∈ updWriter w f l := by
  unfold updWriter
  split
  · rename_i y hy
    obtain ⟨i, hi, rfl⟩ := List.getElem_of_mem hx
    by_cases hiw : i = w
    · subst hiw
      right
      have : y = l[i] := by
        rw [List.getElem?_eq_getElem hi] at hy; simp at hy; exact hy.symm
      subst this
      exact List.mem_iff_getElem.mpr ⟨i, by simpa using hi, by simp⟩
    · left
      exact List.mem_iff_getElem.mpr ⟨i, by simpa using hi, by simp [Ne.symm hiw]⟩
  · exact Or.inl hx

theorem updWriter_f_mem {w : Nat} {f : Writer → Writer} {l : List Writer} (hw : w < l.length) :
    ∃ x ∈ l, f x ∈ updWriter w f l := by
  unfold updWriter
  rw [List.getElem?_eq_getElem hw]
  exact ⟨l[w], List.getElem_mem hw, List.mem_iff_getElem.mpr ⟨w, by simpa using hw, by simp⟩⟩

theorem inGc_updWriter_same {w : Nat} {f : Writer → Writer} {l : List Writer} (hf : ∀ x, (f x).gc = x.gc)
    (g : Ver) : InGc (updWriter w f l) g ↔ InGc l g := by
  constructor
  · rintro ⟨y, hy, hg⟩
    rcases mem_updWriter hy with h | ⟨x, hx, rfl⟩
    · exact ⟨y, h, hg⟩
    · rw [hf] at hg; exact ⟨x, hx, hg⟩
  · rintro ⟨x, hx, hg⟩
    rcases updWriter_mem_of_mem (w := w) (f := f) hx with h | h
    · exact ⟨x, h, hg⟩
    · exact ⟨f x, h, by rw [hf]; exact hg⟩

theorem inGc_updWriter_app {w : Nat} {f : Writer → Writer} {l : List Writer} {g0 : Ver}
    (hw : w < l.length) (hf : ∀ x, (f x).gc = x.gc ++ [g0]) (g : Ver) :
    InGc (updWriter w f l) g ↔ InGc l g ∨ g = g0 := by
  constructor
  · rintro ⟨y, hy, hg⟩
    rcases mem_updWriter hy with h | ⟨x, hx, rfl⟩
    · exact Or.inl ⟨y, h, hg⟩
    · rw [hf] at hg
      rcases List.mem_append.mp hg with h | h
      · exact Or.inl ⟨x, hx, h⟩
      · simp at h; exact Or.inr h
  · rintro (⟨x, hx, hg⟩ | rfl)
    · rcases updWriter_mem_of_mem (w := w) (f := f) hx with h | h
      · exact ⟨x, h, hg⟩
      · exact ⟨f x, h, by rw [hf]; exact List.mem_append_left _ hg⟩
    · obtain ⟨x, _, hx⟩ := updWriter_f_mem (f := f) hw
      exact ⟨f x, hx, by rw [hf]; simp⟩

end NitroVerif.Mvcc
