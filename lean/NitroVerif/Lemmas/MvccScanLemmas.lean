/-
  Full scans and Visitor shards: the fuelled loops deliver exactly the visible versions of their
  key range; the shards of a Visitor partition the visible versions.
-/
import NitroVerif.Lemmas.MvccIterLemmas

namespace NitroVerif.Mvcc
open NitroVerif

/-- the item is before the end item of the shard -/
def inRange (e : Option Nat) (v : Ver) : Bool :=
  match e with
  | some ek => !decide (ek ≤ v.key)
  | none => true

/-- what a shard loop does on the list of visible versions from its start position on -/
def shardSpec (e fail : Option Nat) : List Ver → List Ver × Bool
  | [] => ([], false)
  | v :: r =>
    if inRange e v then
      if fail = some v.key then ([], true)
      else (v :: (shardSpec e fail r).1, (shardSpec e fail r).2)
    else ([], false)

theorem endStop_iff (v : Ver) (endItem : Option Ver) :
    endReached endItem v = !inRange (endItem.map (·.key)) v := by
  cases endItem with
  | none => rfl
  | some e =>
    simp only [endReached, Option.map, inRange, visitorEndCmp_eq, cmpOf, Bool.not_not]
    have h1 := visitorEndStop_iff (iterCmp v e)
    have h2 := iterCmp_nonneg v e
    rw [Bool.eq_iff_iff]; simp only [decide_eq_true_eq]; exact h1.trans h2

theorem shardLoop_eq {cur : Nat} {s : List Ver} (hs : Sorted s) (hc : Chains cur s)
    (endItem : Option Ver) (fail : Option Nat) :
    ∀ (fuel : Nat) (it : Iter) (pre rest : List Ver), vis s it.sn = pre ++ rest →
      it.cur = rest.head? → rest.length < fuel →
      shardLoop s endItem fail fuel it = shardSpec (endItem.map (·.key)) fail rest
  | 0, _, _, _, _, _, hf => by omega
  | fuel + 1, it, pre, rest, hv, hcur, hf => by
    unfold shardLoop
    cases rest with
    | nil => simp at hcur; rw [hcur]; rfl
    | cons v rest' =>
      simp at hcur
      rw [hcur]
      simp only
      rw [endStop_iff]
      unfold shardSpec
      cases hr : inRange (endItem.map (·.key)) v
      · simp
      · simp only [Bool.not_true, Bool.false_eq_true, if_false, if_true]
        by_cases hfl : fail = some v.key
        · simp [hfl]
        · simp only [hfl, if_false]
          have hvm : v ∈ vis s it.sn := by rw [hv]; simp
          have hn := next_cur hs hc hcur hvm rfl rfl
          have hks := vis_keySorted hs hc it.sn
          rw [hv] at hn hks
          rw [find_gt_split hks] at hn
          have ih := shardLoop_eq hs hc endItem fail fuel (it.next s) (pre ++ [v]) rest'
            (by simp [hv]) hn (by simp at hf; omega)
          rw [ih]

theorem shardSpec_none : ∀ (l : List Ver), shardSpec none none l = (l, false)
  | [] => rfl
  | v :: r => by simp [shardSpec, inRange, shardSpec_none r]

theorem scanLoop_eq_shard (s : List Ver) : ∀ (fuel : Nat) (it : Iter),
    scanLoop s fuel it = (shardLoop s none none fuel it).1
  | 0, _ => rfl
  | fuel + 1, it => by
    unfold scanLoop shardLoop
    cases it.cur with
    | none => rfl
    | some v => simp [scanLoop_eq_shard s fuel, endReached]

theorem vis_length_le (s : List Ver) (sn : Nat) : (vis s sn).length ≤ s.length :=
  List.length_filter_le _ _

/-- C01/C09: a full scan delivers exactly the visible versions, whatever the refresh rate -/
theorem scanAll_eq {cur : Nat} {s : List Ver} (hs : Sorted s) (hc : Chains cur s) (sn : Nat) (rate : Int) :
    scanAll s sn rate = vis s sn := by
  unfold scanAll
  rw [scanLoop_eq_shard]
  have := shardLoop_eq hs hc none none (s.length + 1) ((newIter sn rate).seekFirst s) [] (vis s sn)
    rfl (by rw [seekFirst_cur]; rfl) (by have := vis_length_le s sn; omega)
  rw [this]; simp [shardSpec_none]

/-! ### key ranges of a key-sorted list -/

theorem keysplit {l : List Ver} (hl : l.Pairwise KeyLt) (k : Nat) :
    l.takeWhile (fun x => decide (x.key < k)) ++ l.filter (fun x => decide (k ≤ x.key)) = l := by
  have h := dropWhile_eq_filter KeyLt (fun x => decide (x.key < k)) l hl (by
    intro a b hab ha; unfold KeyLt at hab; simp at ha ⊢; omega)
  have h2 : l.filter (fun x => decide (k ≤ x.key)) = l.filter (fun x => !decide (x.key < k)) := by
    apply List.filter_congr; intro x _
    by_cases hx : x.key < k
    · have : ¬ k ≤ x.key := by omega
      simp [hx, this]
    · have : k ≤ x.key := by omega
      simp [hx, this]
  rw [h2, ← h]; exact List.takeWhile_append_dropWhile

/-- the versions a shard starts from -/
def fromStart (start : Option Ver) (l : List Ver) : List Ver :=
  match start with
  | none => l
  | some p => l.filter (fun x => decide (p.key ≤ x.key))

theorem fromStart_sorted {l : List Ver} (hl : l.Pairwise KeyLt) (start : Option Ver) :
    (fromStart start l).Pairwise KeyLt := by
  cases start with
  | none => exact hl
  | some p => exact List.Pairwise.filter _ hl

theorem runShard_eq {cur : Nat} {s : List Ver} (hs : Sorted s) (hc : Chains cur s) (sn : Nat) (rate : Int)
    (fail : Option Nat) (start endItem : Option Ver) :
    runShard s sn rate fail start endItem =
      shardSpec (endItem.map (·.key)) fail (fromStart start (vis s sn)) := by
  unfold runShard
  have hks := vis_keySorted hs hc sn
  cases start with
  | none =>
    simp only [fromStart]
    exact shardLoop_eq hs hc endItem fail (s.length + 1) ((newIter sn rate).seekFirst s) [] (vis s sn)
      rfl (by rw [seekFirst_cur]; rfl) (by have := vis_length_le s sn; omega)
  | some p =>
    simp only [fromStart]
    apply shardLoop_eq hs hc endItem fail (s.length + 1) ((newIter sn rate).seek s p.key)
      ((vis s sn).takeWhile (fun x => decide (x.key < p.key)))
    · simp only [seek_sn, newIter]; exact (keysplit hks p.key).symm
    · rw [seek_cur hs, List.head?_filter]; rfl
    · have h1 := vis_length_le s sn
      have h2 := List.length_filter_le (fun x => decide (p.key ≤ x.key)) (vis s sn)
      omega

/-- no version in the shard's range has the failing key: the shard delivers its range -/
theorem shardSpec_ok (e fail : Option Nat) : ∀ (l : List Ver),
    (∀ v ∈ l, fail ≠ some v.key) → shardSpec e fail l = (l.takeWhile (inRange e), false)
  | [], _ => rfl
  | v :: r, h => by
    have hv := h v (by simp)
    have ih := shardSpec_ok e fail r (fun x hx => h x (List.mem_cons_of_mem _ hx))
    unfold shardSpec
    cases hr : inRange e v
    · simp [hr]
    · simp [hr, hv, ih]

/-- a version in the shard's range has the failing key: the shard reports the error -/
theorem shardSpec_err (e : Option Nat) (fk : Nat) : ∀ (l : List Ver),
    (∃ v ∈ l.takeWhile (inRange e), v.key = fk) → (shardSpec e (some fk) l).2 = true
  | [], h => by simp at h
  | v :: r, h => by
    unfold shardSpec
    cases hr : inRange e v
    · simp [hr] at h
    · simp only [if_true]
      by_cases hk : v.key = fk
      · simp [hk]
      · have hne : ¬ (some fk = some v.key) := by simp; omega
        simp only [hne, if_false]
        apply shardSpec_err e fk r
        simp [hr] at h
        rcases h with h | h
        · exact absurd h hk
        · obtain ⟨x, hx, hxk⟩ := h; exact ⟨x, hx, hxk⟩

/-- the kept pivots are strictly increasing (above the start item) -/
def StartLt : Option Ver → Ver → Prop
  | none, _ => True
  | some q, p => q.key < p.key

def PivotsOk : Option Ver → List Ver → Prop
  | _, [] => True
  | st, p :: ps => StartLt st p ∧ PivotsOk (some p) ps

theorem filterPivots_ok (s : List Ver) (sn : Nat) : ∀ (ps : List Ver) (prev : Option Ver),
    PivotsOk prev (filterPivots s sn prev ps)
  | [], prev => by cases prev <;> simp [filterPivots, PivotsOk]
  | p :: ps, prev => by
    unfold filterPivots
    by_cases h : (((newIter sn 0).seek s p.key).cur.isSome && pivotBigger prev p) = true
    · rw [if_pos h]
      cases prev with
      | none => exact ⟨trivial, filterPivots_ok s sn ps (some p)⟩
      | some q =>
        refine ⟨?_, filterPivots_ok s sn ps (some p)⟩
        show q.key < p.key
        simp only [Bool.and_eq_true] at h
        have h2 := h.2
        simp only [pivotBigger] at h2
        rw [visitorPivotCmp_eq] at h2
        exact (iterCmp_pos p q).mp ((visitorPivotKeep_iff _).mp h2)
    · rw [if_neg h]; exact filterPivots_ok s sn ps prev

theorem takeWhile_inRange_none (l : List Ver) : l.takeWhile (inRange none) = l := by
  induction l with
  | nil => rfl
  | cons x xs ih => simp [List.takeWhile_cons, inRange, ih]

theorem fromStart_step {l : List Ver} (hl : l.Pairwise KeyLt) (start : Option Ver) (p : Ver)
    (h : StartLt start p) :
    (fromStart start l).takeWhile (inRange (some p.key)) ++ fromStart (some p) l = fromStart start l := by
  have hw := fromStart_sorted hl start
  have e1 : inRange (some p.key) = fun x => decide (x.key < p.key) := by
    funext x; simp only [inRange]
    by_cases hx : x.key < p.key
    · have : ¬ p.key ≤ x.key := by omega
      simp [hx, this]
    · have : p.key ≤ x.key := by omega
      simp [hx, this]
  have e2 : fromStart (some p) l = (fromStart start l).filter (fun x => decide (p.key ≤ x.key)) := by
    cases start with
    | none => rfl
    | some q =>
      simp only [fromStart, List.filter_filter]
      apply List.filter_congr; intro x _
      have h : q.key < p.key := h
      by_cases hx : p.key ≤ x.key
      · have : q.key ≤ x.key := by omega
        simp [hx, this]
      · simp [hx]
  rw [e1, e2]; exact keysplit hw p.key

/-- C10 (no failing callback hit): the shards, in order, concatenate to the visible versions -/
theorem runShards_ok {cur : Nat} {s : List Ver} (hs : Sorted s) (hc : Chains cur s) (sn : Nat) (rate : Int)
    (fail : Option Nat) (hnf : ∀ v ∈ vis s sn, fail ≠ some v.key) :
    ∀ (ps : List Ver) (start : Option Ver), PivotsOk start ps →
      ((runShards s sn rate fail start ps).map (·.1)).flatten = fromStart start (vis s sn) ∧
      (runShards s sn rate fail start ps).any (·.2) = false
  | [], start, _ => by
    have hsub : ∀ v ∈ fromStart start (vis s sn), fail ≠ some v.key := by
      intro v hv; apply hnf
      cases start with
      | none => exact hv
      | some p => exact (List.mem_filter.mp hv).1
    simp [runShards, runShard_eq hs hc, shardSpec_ok _ _ _ hsub]
    exact takeWhile_inRange_none _
  | p :: ps, start, hp => by
    have hsub : ∀ v ∈ fromStart start (vis s sn), fail ≠ some v.key := by
      intro v hv; apply hnf
      cases start with
      | none => exact hv
      | some p => exact (List.mem_filter.mp hv).1
    have hp' : StartLt start p ∧ PivotsOk (some p) ps := hp
    have ih := runShards_ok hs hc sn rate fail hnf ps (some p) hp'.2
    have hstep := fromStart_step (vis_keySorted hs hc sn) start p hp'.1
    simp only [runShards, List.map_cons, List.flatten_cons, List.any_cons, runShard_eq hs hc,
      shardSpec_ok _ _ _ hsub, Option.map, ih.1, ih.2, Bool.or_false]
    exact ⟨hstep, trivial⟩

/-- C10 (a callback fails on a visible key): some shard reports the error -/
theorem runShards_err {cur : Nat} {s : List Ver} (hs : Sorted s) (hc : Chains cur s) (sn : Nat) (rate : Int)
    (fk : Nat) :
    ∀ (ps : List Ver) (start : Option Ver), PivotsOk start ps →
      (∃ v ∈ fromStart start (vis s sn), v.key = fk) →
      (runShards s sn rate (some fk) start ps).any (·.2) = true
  | [], start, _, hex => by
    simp only [runShards, List.any_cons, List.any_nil, Bool.or_false, runShard_eq hs hc, Option.map]
    apply shardSpec_err
    rw [takeWhile_inRange_none]; exact hex
  | p :: ps, start, hp, hex => by
    have hp' : StartLt start p ∧ PivotsOk (some p) ps := hp
    have hstep := fromStart_step (vis_keySorted hs hc sn) start p hp'.1
    simp only [runShards, List.any_cons, runShard_eq hs hc, Option.map, Bool.or_eq_true]
    obtain ⟨v, hv, hvk⟩ := hex
    rw [← hstep] at hv
    rcases List.mem_append.mp hv with h | h
    · left; exact shardSpec_err _ _ _ ⟨v, h, hvk⟩
    · right; exact runShards_err hs hc sn rate fk ps (some p) hp'.2 ⟨v, h, hvk⟩

theorem ascending_of_keySorted : ∀ {l : List Ver}, l.Pairwise KeyLt → ascending l = true
  | [], _ => rfl
  | [_], _ => rfl
  | a :: b :: r, h => by
    have ha := List.pairwise_cons.mp h
    have : a.key < b.key := ha.1 b (by simp)
    simp [ascending, this, ascending_of_keySorted ha.2]

end NitroVerif.Mvcc
