import NitroVerif.Lemmas.SkipSeqBuildRun
/-!
  The restore of `LoadFromDisk` as the code does it, on the pointer heap of M3: one `NewSegment` per
  shard file, the loaders' `Segment.Add` calls in ANY interleaving that keeps each shard's file order
  (`Shuffle`), `Builder.Assemble(segments...)` in file order.

  This file: the scripts (`news`, `shardAdds`, `fillFrom`, `Shuffle`), what a shuffle adds to every
  segment, and the state the filling phase reaches (`fill_state`).
-/
namespace NitroVerif.SkipSeq
open NitroVerif

/-- `segments[i] = b.NewSegment()` for every listed file -/
def news (n : Nat) : List BOp := List.replicate n BOp.new

/-- the calls of the loader of shard `i`: `segments[i].Add(itm)` for every decoded item in file
    order; an item is its key and the level request the random source answers for it -/
def shardAdds (i : Nat) (sh : List (Int × Nat)) : List BOp := sh.map fun p => BOp.add i p.1 p.2

/-- the loaders run one after the other, shard `i`, then `i+1`, … -/
def fillFrom : Nat → List (List (Int × Nat)) → List BOp
  | _, [] => []
  | i, sh :: r => shardAdds i sh ++ fillFrom (i + 1) r

/-- `ops` is an interleaving of the loaders of `shards`: at every step some loader `i` whose shard
    is not exhausted adds its next item to ITS segment `i` -/
inductive Shuffle : List (List (Int × Nat)) → List BOp → Prop
  | done {shards : List (List (Int × Nat))} : (∀ sh ∈ shards, sh = []) → Shuffle shards []
  | step {shards : List (List (Int × Nat))} {ops : List BOp} (i : Nat) (k : Int) (l : Nat)
      (rest : List (Int × Nat)) : shards[i]? = some ((k, l) :: rest) →
      Shuffle (shards.set i rest) ops → Shuffle shards (BOp.add i k l :: ops)

theorem getD_eq_nil_of_all_nil {α : Type} {ls : List (List α)} (h : ∀ l ∈ ls, l = []) (i : Nat) :
    ls.getD i [] = [] := by
  rw [List.getD_eq_getElem?_getD]
  cases hi : ls[i]? with
  | none => rfl
  | some l => exact h l (List.mem_of_getElem? hi)

/-- a shuffle adds to segment `i` exactly the keys of shard `i`, in file order -/
theorem Shuffle.addedKeys {shards : List (List (Int × Nat))} {ops : List BOp} (h : Shuffle shards ops) :
    ∀ (n : Nat), shards.length ≤ n → ∀ i, addedKeys i n ops = (shards.getD i []).map (·.1) := by
  induction h with
  | done hall =>
    intro n _ i
    rw [getD_eq_nil_of_all_nil hall]; rfl
  | @step shards ops j k l rest hj _ ih =>
    intro n hn i
    have hjl : j < shards.length := (List.getElem?_eq_some_iff.mp hj).1
    have hj2 : shards[j] = (k, l) :: rest := (List.getElem?_eq_some_iff.mp hj).2
    have ih' := ih n (by simpa using hn) i
    simp only [SkipSeq.addedKeys]
    by_cases hij : j = i
    · subst hij
      rw [if_pos ⟨rfl, by omega⟩, ih']
      simp [List.getD_eq_getElem?_getD, hjl, hj2]
    · rw [if_neg (fun hh => hij hh.1), ih']
      simp [List.getD_eq_getElem?_getD, List.getElem?_set_ne hij]

theorem shuffle_fillFrom_aux : ∀ (shards pre : List (List (Int × Nat))), (∀ sh ∈ pre, sh = []) →
    Shuffle (pre ++ shards) (fillFrom pre.length shards) := by
  intro shards
  induction shards with
  | nil => intro pre hpre; exact Shuffle.done (by simpa using hpre)
  | cons sh r ih =>
    intro pre hpre
    induction sh with
    | nil =>
      have := ih (pre ++ [[]]) (by
        intro s hs
        rcases List.mem_append.mp hs with h | h
        · exact hpre s h
        · simpa using h)
      simpa [fillFrom, shardAdds, List.append_assoc] using this
    | cons p rest ihs =>
      rcases p with ⟨k, l⟩
      simp only [fillFrom, shardAdds, List.map_cons, List.cons_append]
      refine Shuffle.step pre.length k l rest (by simp) ?_
      have hset : (pre ++ ((k, l) :: rest) :: r).set pre.length rest = pre ++ rest :: r := by simp
      rw [hset]
      exact ihs

/-- the loaders running one after the other is one of the interleavings -/
theorem shuffle_fillFrom (shards : List (List (Int × Nat))) : Shuffle shards (fillFrom 0 shards) :=
  shuffle_fillFrom_aux shards [] (by simp)

/-- two consecutive steps of DIFFERENT loaders can be exchanged: the result is an interleaving of the
    same shards again -/
theorem Shuffle.swap {i j : Nat} (hij : i ≠ j) (k k' : Int) (l l' : Nat) (b : List BOp) :
    ∀ (a : List BOp) (shards : List (List (Int × Nat))),
    Shuffle shards (a ++ BOp.add i k l :: BOp.add j k' l' :: b) →
    Shuffle shards (a ++ BOp.add j k' l' :: BOp.add i k l :: b) := by
  intro a
  induction a with
  | nil =>
    intro shards h
    cases h with
    | step _ _ _ rest hi h2 =>
      cases h2 with
      | step _ _ _ rest' hj h3 =>
        rw [List.getElem?_set_ne hij] at hj
        refine Shuffle.step j k' l' rest' hj (Shuffle.step i k l rest ?_ ?_)
        · rw [List.getElem?_set_ne (Ne.symm hij)]; exact hi
        · rw [List.set_comm _ _ (Ne.symm hij)]; exact h3
  | cons op a ih =>
    intro shards h
    cases h with
    | step i0 k0 l0 rest hi h2 => exact Shuffle.step i0 k0 l0 rest hi (ih _ h2)

/-! ### running the filling phase -/

theorem addedKeys_news (i : Nat) (adds : List BOp) : ∀ (n m : Nat),
    addedKeys i m (news n ++ adds) = addedKeys i (m + n) adds := by
  intro n
  induction n with
  | zero => intro m; simp [news]
  | succ n ih =>
    intro m
    have : news (n + 1) ++ adds = BOp.new :: (news n ++ adds) := by simp [news, List.replicate_succ]
    rw [this, addedKeys, ih]
    congr 1; omega

theorem grun_append : ∀ (a b : List BOp) (st : SL × List (Segment × List Nat)),
    grun st (a ++ b) = grun (grun st a) b := by
  intro a
  induction a with
  | nil => intro b st; rfl
  | cons op a ih => intro b st; simp only [List.cons_append, grun]; exact ih b _

theorem grun_news (n : Nat) : ∀ (st : SL × List (Segment × List Nat)),
    (grun st (news n)).2.length = st.2.length + n := by
  induction n with
  | zero => intro st; simp [news, grun]
  | succ n ih =>
    intro st
    have : news (n + 1) = BOp.new :: news n := by simp [news, List.replicate_succ]
    rw [this, grun, ih]
    simp [gstep]; omega

theorem gstep_add_length (st : SL × List (Segment × List Nat)) (i : Nat) (k : Int) (l : Nat) :
    (gstep st (BOp.add i k l)).2.length = st.2.length := by
  simp only [gstep]
  cases st.2[i]? <;> simp

theorem Shuffle.grun_length {shards : List (List (Int × Nat))} {ops : List BOp} (h : Shuffle shards ops) :
    ∀ (st : SL × List (Segment × List Nat)), (grun st ops).2.length = st.2.length := by
  induction h with
  | done _ => intro st; rfl
  | step i k l rest _ _ ih =>
    intro st
    rw [grun, ih, gstep_add_length]

theorem allNodes_map (segs : List (Segment × List Nat)) (f : Nat → Int) :
    (allNodes segs).map f = (segs.map fun e => e.2.map f).flatten := by
  simp [allNodes, List.map_flatten, List.map_map, Function.comp_def]

/-- the state after `n` `NewSegment` calls and any interleaving of the loaders of `shards`: a consistent
    build state (the erasure of which is the executable state) with one segment per shard, whose node
    lists carry, concatenated in file order, exactly the keys of the concatenated shards -/
theorem fill_state (shards : List (List (Int × Nat))) (adds : List BOp) (hsh : Shuffle shards adds) :
    let g := grun (SL.init, []) (news shards.length ++ adds)
    BuildOK g.1 g.2 ∧
    (g.1, g.2.map (·.1)) = brun (SL.init, []) (news shards.length ++ adds) ∧
    g.2.length = shards.length ∧
    (g.2.map fun e => e.2.map (ikey g.1.nodes)) = shards.map (·.map (·.1)) ∧
    (allNodes g.2).map (ikey g.1.nodes) = shards.flatten.map (·.1) := by
  intro g
  rcases grun_ok (news shards.length ++ adds) (SL.init, []) buildOK_init with ⟨hb, hk⟩
  have hlen : g.2.length = shards.length := by
    show (grun (SL.init, []) (news shards.length ++ adds)).2.length = _
    rw [grun_append, hsh.grun_length, grun_news]; simp
  have hsegs : (g.2.map fun e => e.2.map (ikey g.1.nodes)) = shards.map (·.map (·.1)) := by
    apply List.ext_getElem (by simp [hlen])
    intro i h1 h2
    have h1' : i < g.2.length := by simpa using h1
    have hki := hk i
    rw [addedKeys_news] at hki
    simp only [List.length_nil, Nat.zero_add] at hki
    rw [hsh.addedKeys shards.length (Nat.le_refl _) i] at hki
    simp only [segKeys, List.getD_eq_getElem?_getD] at hki
    simp only [List.map_nil, List.getElem?_nil, Option.getD_none, List.nil_append] at hki
    have e1 : (g.2.map (·.2))[i]? = some (g.2[i]).2 := by
      rw [List.getElem?_map, List.getElem?_eq_getElem h1']; rfl
    have e2 : shards[i]? = some shards[i] := List.getElem?_eq_getElem (by omega)
    have hki' : List.map (ikey g.1.nodes) (((g.2.map (·.2))[i]?).getD [])
        = List.map (·.1) ((shards[i]?).getD []) := hki
    rw [e1, e2] at hki'
    simpa using hki'
  refine ⟨hb, by simpa using grun_erase (news shards.length ++ adds) (SL.init, []), hlen, hsegs, ?_⟩
  rw [allNodes_map, hsegs, List.map_flatten]

/-! ### each loader only touches its own segment -/

/-- `Segment.Add` on segment `i` leaves every other segment record as it is -/
theorem bstep_add_other (st : SL × List Segment) (i j : Nat) (k : Int) (l : Nat) (hij : i ≠ j) :
    (bstep st (BOp.add i k l)).2[j]? = st.2[j]? := by
  simp only [bstep]
  cases h : st.2[i]? with
  | none => rfl
  | some seg => simp [List.getElem?_set_ne hij]

theorem setNext_getElem?_ne (h : Heap) (n l m : Nat) (v : Nat × Bool) (hm : n ≠ m) :
    (setNext h n l v)[m]? = h[m]? := by
  unfold setNext
  cases hn : h[n]? with
  | none => rfl
  | some nd => simp [List.getElem?_set_ne hm]

/-- the linking loop writes only into the nodes the segment's `tail` array points at -/
theorem segLink_frame (x m : Nat) : ∀ (n l : Nat) (h : Heap) (seg : Segment),
    (∀ l', l ≤ l' → seg.tail.getD l' nilId ≠ m) → (segLink x n l h seg).1[m]? = h[m]? := by
  intro n
  induction n with
  | zero => intro l h seg _; rfl
  | succ n ih =>
    intro l h seg hm
    simp only [segLink]
    rw [ih]
    · by_cases ht : (seg.tail.getD l nilId != nilId) = true
      · rw [if_pos ht]; exact setNext_getElem?_ne _ _ _ _ _ (hm l (Nat.le_refl _))
      · rw [if_neg ht]
    · intro l' hl'
      simp only
      rw [getD_set_ne _ _ _ _ _ (by omega)]
      exact hm l' (by omega)

/-- `Segment.Add` changes no existing heap cell except the ones its own segment's `tail` array
    points at (the last node of each of ITS chains): the other loaders' nodes are not written -/
theorem segAdd_frame (s : SL) (seg : Segment) (k : Key) (req m : Nat) (hm : m < s.nodes.length)
    (hnt : ∀ l, seg.tail.getD l nilId ≠ m) :
    (segAdd s seg k req).1.nodes[m]? = s.nodes[m]? := by
  unfold segAdd
  simp only
  refine Eq.trans (segLink_frame _ m _ _ _ _ ?_) ?_
  · intro l' _; exact hnt l'
  simp only [newNode]
  have hn : (newLevel s req).1.nodes = s.nodes := by
    unfold newLevel; simp only; split <;> rfl
  rw [hn, List.getElem?_append_left hm]

end NitroVerif.SkipSeq
