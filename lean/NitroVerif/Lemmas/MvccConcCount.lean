/-
  Counting lemmas over `List.set` / `List.modify` / `flatMap` used for the ownership and garbage
  invariants of the small-step M6 model (core Lean only).
-/
namespace NitroVerif.MvccConc

theorem modify_eq_set {α : Type} (f : α → α) : ∀ (l : List α) (i : Nat) (a : α), l[i]? = some a →
    l.modify i f = l.set i (f a)
  | [], i, a, h => by simp at h
  | x :: xs, 0, a, h => by simp at h; subst h; rfl
  | x :: xs, i + 1, a, h => by
    simp at h
    simp [List.modify_succ_cons, modify_eq_set f xs i a h]

theorem modify_eq_self {α : Type} (f : α → α) : ∀ (l : List α) (i : Nat), l[i]? = none → l.modify i f = l
  | [], i, _ => by simp
  | x :: xs, 0, h => by simp at h
  | x :: xs, i + 1, h => by
    simp at h
    simp [List.modify_succ_cons, modify_eq_self f xs i (by simpa using h)]

theorem count_flatMap_set {α : Type} (g : α → List Nat) (n : Nat) : ∀ (l : List α) (i : Nat) (a b : α),
    l[i]? = some a →
    ((l.set i b).flatMap g).count n + (g a).count n = (l.flatMap g).count n + (g b).count n
  | [], i, a, b, h => by simp at h
  | x :: xs, 0, a, b, h => by
    simp at h; subst h
    simp [List.flatMap_cons, List.count_append]; omega
  | x :: xs, i + 1, a, b, h => by
    simp at h
    have ih := count_flatMap_set g n xs i a b h
    simp [List.flatMap_cons, List.count_append]; omega

theorem count_flatMap_modify {α : Type} (g : α → List Nat) (n : Nat) (f : α → α) (l : List α) (i : Nat) (a : α)
    (h : l[i]? = some a) :
    ((l.modify i f).flatMap g).count n + (g a).count n = (l.flatMap g).count n + (g (f a)).count n := by
  rw [modify_eq_set f l i a h]; exact count_flatMap_set g n l i a (f a) h

/-- a modification that does not change what `g` sees -/
theorem flatMap_modify_same {α β : Type} (g : α → List β) (f : α → α) (hf : ∀ a, g (f a) = g a) :
    ∀ (l : List α) (i : Nat), (l.modify i f).flatMap g = l.flatMap g
  | [], i => by simp
  | x :: xs, 0 => by simp [List.flatMap_cons, hf]
  | x :: xs, i + 1 => by simp [List.modify_succ_cons, List.flatMap_cons, flatMap_modify_same g f hf xs i]

theorem drop_modify_same {α β : Type} (g : α → List β) (f : α → α) (hf : ∀ a, g (f a) = g a) (k : Nat) :
    ∀ (l : List α) (i : Nat), ((l.modify i f).drop k).flatMap g = (l.drop k).flatMap g := by
  induction k with
  | zero => intro l i; simpa using flatMap_modify_same g f hf l i
  | succ k ih =>
    intro l i
    cases l with
    | nil => simp
    | cons x xs =>
      cases i with
      | zero => simp
      | succ i => simpa [List.modify_succ_cons] using ih xs i

theorem count_flatMap_pos {α : Type} {g : α → List Nat} {n : Nat} {l : List α} :
    0 < (l.flatMap g).count n ↔ ∃ a ∈ l, n ∈ g a := by
  rw [List.count_pos_iff, List.mem_flatMap]

theorem count_flatMap_ge {α : Type} (g : α → List Nat) (n : Nat) {l : List α} {a : α} (h : a ∈ l) :
    (g a).count n ≤ (l.flatMap g).count n := by
  induction l with
  | nil => simp at h
  | cons x xs ih =>
    simp only [List.flatMap_cons, List.count_append]
    rcases List.mem_cons.mp h with rfl | h
    · omega
    · have := ih h; omega

theorem sum_map_set {α : Type} (f : α → Int) : ∀ (l : List α) (i : Nat) (a b : α), l[i]? = some a →
    ((l.set i b).map f).sum + f a = (l.map f).sum + f b
  | [], i, a, b, h => by simp at h
  | x :: xs, 0, a, b, h => by
    simp at h; subst h
    simp; omega
  | x :: xs, i + 1, a, b, h => by
    simp at h
    have ih := sum_map_set f xs i a b h
    simp only [List.set_cons_succ, List.map_cons, List.sum_cons]; omega

theorem count_flatMap_reverse {α : Type} (g : α → List Nat) (n : Nat) (l : List α) :
    (l.reverse.flatMap g).count n = (l.flatMap g).count n := by
  induction l with
  | nil => rfl
  | cons x xs ih =>
    simp only [List.reverse_cons, List.flatMap_append, List.flatMap_cons, List.flatMap_nil, List.count_append,
      List.append_nil, ih]
    omega

theorem flatMap_map_const_nil {α β γ : Type} (l : List α) (c : β) (g : β → List γ) (hg : g c = []) :
    (l.map (fun _ => c)).flatMap g = [] := by
  induction l with
  | nil => rfl
  | cons x xs ih => simp [List.flatMap_cons, hg, ih]

theorem getElem?_mem_of {α : Type} {l : List α} {i : Nat} {a : α} (h : l[i]? = some a) : a ∈ l :=
  List.mem_of_getElem? h

/-- two different positions holding elements that both contribute `n` give count at least 2 -/
theorem count_flatMap_two {α : Type} (g : α → List Nat) (n : Nat) : ∀ (l : List α) (i j : Nat) (a b : α),
    i ≠ j → l[i]? = some a → l[j]? = some b → n ∈ g a → n ∈ g b → 2 ≤ (l.flatMap g).count n
  | [], i, j, a, b, _, h, _, _, _ => by simp at h
  | x :: xs, 0, 0, a, b, hij, _, _, _, _ => absurd rfl hij
  | x :: xs, 0, j + 1, a, b, _, hi, hj, ha, hb => by
    simp at hi hj; subst hi
    have h1 : 0 < (g x).count n := List.count_pos_iff.mpr ha
    have h2 : 0 < (xs.flatMap g).count n := count_flatMap_pos.mpr ⟨b, List.mem_of_getElem? hj, hb⟩
    simp only [List.flatMap_cons, List.count_append]; omega
  | x :: xs, i + 1, 0, a, b, _, hi, hj, ha, hb => by
    simp at hi hj; subst hj
    have h1 : 0 < (g x).count n := List.count_pos_iff.mpr hb
    have h2 : 0 < (xs.flatMap g).count n := count_flatMap_pos.mpr ⟨a, List.mem_of_getElem? hi, ha⟩
    simp only [List.flatMap_cons, List.count_append]; omega
  | x :: xs, i + 1, j + 1, a, b, hij, hi, hj, ha, hb => by
    simp at hi hj
    have := count_flatMap_two g n xs i j a b (by omega) hi hj ha hb
    simp only [List.flatMap_cons, List.count_append]; omega

end NitroVerif.MvccConc
