/-
  `collectDead`: what one in-order collection pass does to the snapshot list, the frontier and the
  physical store.
-/
import NitroVerif.Lemmas.MvccInvSnap

namespace NitroVerif.Mvcc
open NitroVerif SetSpec

/-- the snapshots a pass that ends with frontier `g'` collects -/
def collectedBy (g' : Nat) (s : Snap) : Bool := decide (s.st = .retired) && decide (s.sn ≤ g')

def markCollected (g' : Nat) (s : Snap) : Snap :=
  if collectedBy g' s then { s with st := .collected } else s

/-- the versions a pass removes -/
def removedBy (L : List Snap) (g' : Nat) (v : Ver) : Bool :=
  L.any (fun s => collectedBy g' s && s.gclist.any (fun x => sameId v x))

/-- nothing can be collected: no retired snapshot carries the next number -/
theorem collectDead_stuck : ∀ (L : List Snap) (g : Nat) (store : List Ver),
    (∀ s ∈ L, s.st = .retired → s.sn ≠ g + 1) → collectDead L g store = (L, g, store)
  | [], _, _, _ => rfl
  | s :: rest, g, store, h => by
    unfold collectDead
    by_cases hr : s.st = .retired
    · have : Gen.gcStop s.sn g = true := by
        cases hg : Gen.gcStop s.sn g
        · exact absurd ((gcStop_false_iff _ _).mp hg) (h s (by simp) hr)
        · rfl
      simp [hr, this]
    · have ih := collectDead_stuck rest g store (fun x hx => h x (List.mem_cons_of_mem _ hx))
      simp [hr, ih]

structure CollectPost (L : List Snap) (g : Nat) (store : List Ver) : Prop where
  ge : g ≤ (collectDead L g store).2.1
  range : ∀ n, g < n → n ≤ (collectDead L g store).2.1 → ∃ s ∈ L, s.st = .retired ∧ s.sn = n
  snaps : (collectDead L g store).1 = L.map (markCollected (collectDead L g store).2.1)
  store : (collectDead L g store).2.2 =
            store.filter (fun v => !removedBy L (collectDead L g store).2.1 v)

theorem collectedBy_false_of_gt {g' : Nat} {s : Snap} (h : s.st = .retired → g' < s.sn) :
    collectedBy g' s = false := by
  unfold collectedBy
  by_cases hr : s.st = .retired
  · have := h hr; simp [hr]; omega
  · simp [hr]

theorem collectDead_post : ∀ (L : List Snap) (g : Nat) (store : List Ver),
    L.Pairwise (fun a b => a.sn < b.sn) → (∀ s ∈ L, s.st ≠ .collected → g < s.sn) →
    CollectPost L g store
  | [], g, store, _, _ => by
    refine ⟨Nat.le_refl _, ?_, rfl, ?_⟩
    · intro n h1 h2; simp [collectDead] at h2; omega
    · simp only [collectDead, removedBy, List.any_nil, Bool.not_false]
      exact (List.filter_eq_self.mpr (fun _ _ => rfl)).symm
  | s :: rest, g, store, hinc, hgt => by
    have hi := List.pairwise_cons.mp hinc
    by_cases hr : s.st = .retired
    · by_cases hstop : Gen.gcStop s.sn g = true
      · -- stop: nothing changes
        have e : collectDead (s :: rest) g store = (s :: rest, g, store) := by
          unfold collectDead; simp [hr, hstop]
        have hnone : ∀ x ∈ s :: rest, collectedBy g x = false := by
          intro x hx; apply collectedBy_false_of_gt
          intro hxr; exact hgt x hx (by rw [hxr]; decide)
        refine ⟨by rw [e]; exact Nat.le_refl _, ?_, ?_, ?_⟩
        · intro n h1 h2; rw [e] at h2; simp at h2; omega
        · rw [e]; simp only
          conv => lhs; rw [← List.map_id (s :: rest)]
          apply List.map_congr_left
          intro x hx; simp [markCollected, hnone x hx]
        · rw [e]; simp only
          symm; apply List.filter_eq_self.mpr
          intro v _
          simp only [removedBy, Bool.not_eq_true', List.any_eq_false]
          intro x hx; simp [hnone x hx]
      · -- collect `s`, continue with frontier `s.sn`
        have hstop' : Gen.gcStop s.sn g = false := by simpa using hstop
        have hsn : s.sn = g + 1 := (gcStop_false_iff _ _).mp hstop'
        have ih := collectDead_post rest s.sn (removeAll store s.gclist) hi.2
          (fun x hx _ => hi.1 x hx)
        have e : collectDead (s :: rest) g store =
            ({ s with st := .collected } :: (collectDead rest s.sn (removeAll store s.gclist)).1,
             (collectDead rest s.sn (removeAll store s.gclist)).2.1,
             (collectDead rest s.sn (removeAll store s.gclist)).2.2) := by
          conv => lhs; unfold collectDead
          simp [hr, hstop']
        have hcs : collectedBy (collectDead rest s.sn (removeAll store s.gclist)).2.1 s = true := by
          have := ih.ge; simp [collectedBy, hr]; omega
        refine ⟨?_, ?_, ?_, ?_⟩
        · rw [e]; simp only; have := ih.ge; omega
        · intro n h1 h2
          rw [e] at h2; simp only at h2
          by_cases hn : n = s.sn
          · exact ⟨s, by simp, hr, hn.symm⟩
          · obtain ⟨x, hx, hxr, hxs⟩ := ih.range n (by omega) h2
            exact ⟨x, List.mem_cons_of_mem _ hx, hxr, hxs⟩
        · rw [e]; simp only [List.map_cons]
          rw [← ih.snaps]
          simp [markCollected, hcs]
        · rw [e]; simp only
          rw [ih.store]
          generalize (collectDead rest s.sn (removeAll store s.gclist)).2.1 = g' at hcs ⊢
          unfold removeAll
          rw [List.filter_filter]
          apply List.filter_congr
          intro v _
          simp [removedBy, hcs, Bool.and_comm]
    · -- not retired: skip
      have ih := collectDead_post rest g store hi.2 (fun x hx => hgt x (List.mem_cons_of_mem _ hx))
      have e : collectDead (s :: rest) g store =
          (s :: (collectDead rest g store).1, (collectDead rest g store).2.1,
           (collectDead rest g store).2.2) := by
        conv => lhs; unfold collectDead
        simp [hr]
      have hcs : ∀ g', collectedBy g' s = false := by intro g'; simp [collectedBy, hr]
      refine ⟨?_, ?_, ?_, ?_⟩
      · rw [e]; exact ih.ge
      · intro n h1 h2
        rw [e] at h2
        obtain ⟨x, hx, hxr, hxs⟩ := ih.range n h1 h2
        exact ⟨x, List.mem_cons_of_mem _ hx, hxr, hxs⟩
      · rw [e]; simp only [List.map_cons]
        rw [← ih.snaps]
        simp [markCollected, hcs]
      · rw [e]; simp only
        rw [ih.store]
        apply List.filter_congr
        intro v _
        simp [removedBy, hcs]

/-- after a pass the snapshot carrying the next number (if any) is live -/
theorem collectDead_front : ∀ (L : List Snap) (g : Nat) (store : List Ver),
    L.Pairwise (fun a b => a.sn < b.sn) → (∀ s ∈ L, s.st ≠ .collected → g < s.sn) →
    (∀ s ∈ L, s.st = .collected → s.sn ≤ g) →
    (∀ s ∈ L, ∀ n, g < n → n < s.sn → ∃ s' ∈ L, s'.sn = n) →
    ∀ s ∈ L, s.sn = (collectDead L g store).2.1 + 1 → s.st = .live
  | [], _, _, _, _, _, _ => by intro s hs; simp at hs
  | s :: rest, g, store, hinc, hgt, hcol, hq => by
    have hi := List.pairwise_cons.mp hinc
    have hpost := collectDead_post (s :: rest) g store hinc hgt
    by_cases hr : s.st = .retired
    · by_cases hstop : Gen.gcStop s.sn g = true
      · have e : collectDead (s :: rest) g store = (s :: rest, g, store) := by
          unfold collectDead; simp [hr, hstop]
        intro x hx hxs
        rw [e] at hxs; simp only at hxs
        have hsg := hgt s (by simp) (by rw [hr]; decide)
        have hne : s.sn ≠ g + 1 := by
          intro h; have := (gcStop_false_iff s.sn g).mpr h; rw [this] at hstop; cases hstop
        rcases List.mem_cons.mp hx with rfl | hx'
        · exact absurd hxs hne
        · have := hi.1 x hx'; omega
      · have hstop' : Gen.gcStop s.sn g = false := by simpa using hstop
        have hsn : s.sn = g + 1 := (gcStop_false_iff _ _).mp hstop'
        have e : (collectDead (s :: rest) g store).2.1 =
            (collectDead rest s.sn (removeAll store s.gclist)).2.1 := by
          conv => lhs; unfold collectDead
          simp [hr, hstop']
        have ih := collectDead_front rest s.sn (removeAll store s.gclist) hi.2
          (fun x hx _ => hi.1 x hx)
          (fun x hx hc => by have := hcol x (List.mem_cons_of_mem _ hx) hc; have := hi.1 x hx; omega)
          (fun x hx n h1 h2 => by
            obtain ⟨y, hy, hys⟩ := hq x (List.mem_cons_of_mem _ hx) n (by omega) h2
            rcases List.mem_cons.mp hy with rfl | hy'
            · omega
            · exact ⟨y, hy', hys⟩)
        intro x hx hxs
        rw [e] at hxs
        have hge := (collectDead_post rest s.sn (removeAll store s.gclist) hi.2
          (fun x hx _ => hi.1 x hx)).ge
        rcases List.mem_cons.mp hx with rfl | hx'
        · omega
        · exact ih x hx' hxs
    · have e : (collectDead (s :: rest) g store).2.1 = (collectDead rest g store).2.1 := by
        conv => lhs; unfold collectDead
        simp [hr]
      by_cases hc : s.st = .collected
      · have hsg := hcol s (by simp) hc
        have ih := collectDead_front rest g store hi.2
          (fun x hx => hgt x (List.mem_cons_of_mem _ hx))
          (fun x hx => hcol x (List.mem_cons_of_mem _ hx))
          (fun x hx n h1 h2 => by
            obtain ⟨y, hy, hys⟩ := hq x (List.mem_cons_of_mem _ hx) n h1 h2
            rcases List.mem_cons.mp hy with rfl | hy'
            · omega
            · exact ⟨y, hy', hys⟩)
        intro x hx hxs
        rw [e] at hxs
        have hge := (collectDead_post rest g store hi.2
          (fun x hx => hgt x (List.mem_cons_of_mem _ hx))).ge
        rcases List.mem_cons.mp hx with rfl | hx'
        · omega
        · exact ih x hx' hxs
      · -- `s` is live and above the frontier: the pass is stuck
        have hlive : s.st = .live := by
          cases h : s.st <;> simp_all
        have hsg := hgt s (by simp) hc
        have hstuck := collectDead_stuck rest g store (fun x hx _ => by have := hi.1 x hx; omega)
        intro x hx hxs
        rw [e, hstuck] at hxs; simp only at hxs
        rcases List.mem_cons.mp hx with rfl | hx'
        · exact hlive
        · have := hi.1 x hx'; omega

end NitroVerif.Mvcc
