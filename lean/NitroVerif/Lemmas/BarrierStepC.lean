import NitroVerif.Lemmas.BarrierTac
import NitroVerif.Lemmas.BarrierQueue
/-!
  Preservation of `Inv` — part C: the queue part of `Release`
  (REL_INSERT, REL_TRYLOCK, CL_READ, CL_PROC, REL_UNLOCK, REL_RECHECK).
-/
namespace NitroVerif.Barrier
set_option linter.unusedSimpArgs false
set_option linter.unusedVariables false

/-- a terminated session is allocated, flushed, numbered `id + 1`, and its object is the one given to
    the flush with that number -/
theorem closed_facts {st : St} (h : Inv st) (s : Nat) (hc : 1 ≤ (getS st s).closed) :
    s < st.sess.length ∧ s < st.activeSeqno ∧ (getS st s).seqno = s + 1 ∧
      st.tagged[s]? = some (getS st s).obj ∧ b2n (getS st s).flushed = 1 := by
  have h1 := h.closed s (Or.inl hc)
  have h2 := h.flushedlt s h1.1
  have h3 := h.numbering s h2
  refine ⟨?_, h2, h3.1, h3.2, h1.1⟩
  false_or_by_contra; rename_i hlt
  have := getS_default st s (by omega)
  rw [this] at hc; simp at hc

theorem queued_closed {st : St} (h : Inv st) (s : Nat) (hq : s ∈ st.freeq) : 1 ≤ (getS st s).closed := by
  have hp := h.place s
  have : 0 < st.freeq.count s := List.count_pos_iff.mpr hq
  omega

theorem head_mem {q : List Nat} {s : Nat} (hq : q.head? = some s) : ∃ r, q = s :: r := by
  cases q with
  | nil => simp at hq
  | cons a r => simp at hq; subst hq; exact ⟨r, rfl⟩

theorem pcProc_le_pcFlag (s : Nat) (u : Th) : onPc (pcProc s) u ≤ onPc pcFlag u := by
  unfold onPc; cases u.pc <;> simp [barsimp]
  split <;> omega

theorem leaf_relInsert {st : St} {i : Nat} {t : Th} {s0 : Nat} {k : Cont} (h : Inv st)
    (ht : st.ths[i]? = some t) (hpc : t.pc = .relInsert s0 k) :
    ∃ q, qinsert (fun a => (getS st a).seqno) s0 st.freeq = some q ∧
      Inv (setT { st with freeq := q } i { t with pc := .relTryLock k }) := by
  have mem := fun f => cnt_ge_mem f st i t ht
  have m1 := mem (onPc (pcInsert s0)); have m3 := mem (refT s0)
  simp [barsimp, hpc] at m1 m3
  have hpl := h.place s0
  have hc0 : 1 ≤ (getS st s0).closed := by omega
  have hn : st.freeq.count s0 = 0 := by omega
  have hfs : st.freeSeqno ≤ s0 := by omega
  obtain ⟨q, hq, hsorted, hcq, hhead⟩ := qinsert_spec (fun a => (getS st a).seqno) s0 st.freeq
    (by
      intro x hx
      rcases List.mem_cons.mp hx with rfl | hx
      · exact (closed_facts h _ hc0).2.2.1
      · exact (closed_facts h x (queued_closed h x hx)).2.2.1)
    h.sorted hn
  refine ⟨q, hq, ?_⟩
  have key := cnt_step' st { st with freeq := q } i t { t with pc := .relTryLock k } rfl ht
  have gS : ∀ s, getS { st with freeq := q } s = getS st s := fun _ => rfl
  bar_auto_s [gS, hcq]
  case proc =>
    intro s hp
    simp [key, barsimp, hpc] at hp
    obtain ⟨hh, hs⟩ := h.proc s hp
    refine ⟨?_, by simpa using hs⟩
    obtain ⟨r, hr⟩ := head_mem hh
    have : 0 < st.freeq.count s := by rw [hr]; simp
    have hne : s ≠ s0 := by intro e; subst e; omega
    exact hhead s hh (by omega)

theorem leaf_relTryLock_fail {st : St} {i : Nat} {t : Th} {k : Cont} (h : Inv st)
    (ht : st.ths[i]? = some t) (hpc : t.pc = .relTryLock k) :
    Inv (setT st i { t with pc := afterCont k }) := by
  have key := cnt_step' st st i t { t with pc := afterCont k } rfl ht
  have mem := fun f => cnt_ge_mem f st i t ht
  have m1 := mem (onPc pcMutex); have m2 := mem (onPc pcPast)
  simp [barsimp, hpc] at m1 m2
  bar_auto []

theorem leaf_relTryLock_ok {st : St} {i : Nat} {t : Th} {k : Cont} (h : Inv st)
    (ht : st.ths[i]? = some t) (hpc : t.pc = .relTryLock k) (hf : ¬ st.flag = true) :
    Inv (setT { st with flag := true } i { t with pc := .clRead true k }) := by
  have key := cnt_step' st { st with flag := true } i t { t with pc := .clRead true k } rfl ht
  have gS : ∀ s, getS { st with flag := true } s = getS st s := fun _ => rfl
  have hfl := h.flag
  simp at hf
  simp [hf] at hfl
  bar_auto [gS]

theorem headReady_some {st : St} (h : Inv st) {s : Nat} (hr : headReady st = some s) :
    st.freeq.head? = some s ∧ s = st.freeSeqno := by
  unfold headReady at hr
  split at hr
  · simp at hr
  · rename_i a r hq
    split at hr
    · simp at hr
    · rename_i hstop
      simp at hr; subst hr
      simp only [Bool.not_eq_true] at hstop
      rw [cleanupStop_eq_false_iff] at hstop
      have := (closed_facts h a (queued_closed h a (by simp [hq]))).2.2.1
      simp [hq]; omega

theorem leaf_clRead_proc {st : St} {i : Nat} {t : Th} {b : Bool} {k : Cont} {s0 : Nat} (h : Inv st)
    (ht : st.ths[i]? = some t) (hpc : t.pc = .clRead b k) (hr : headReady st = some s0) :
    Inv (setT st i { t with pc := .clProc s0 k }) := by
  have key := cnt_step' st st i t { t with pc := .clProc s0 k } rfl ht
  obtain ⟨hh, hs⟩ := headReady_some h hr
  obtain ⟨r, hq⟩ := head_mem hh
  have hs0 := (closed_facts h s0 (queued_closed h s0 (by simp [hq]))).1
  bar_auto_s []
  case proc =>
    intro s hp
    by_cases e : s0 = s
    · subst e; exact ⟨by simpa using hh, by simpa using hs⟩
    · simp [key, barsimp, hpc, e] at hp
      simpa using h.proc s hp

theorem leaf_clRead_exit {st : St} {i : Nat} {t : Th} {b : Bool} {k : Cont} (h : Inv st)
    (ht : st.ths[i]? = some t) (hpc : t.pc = .clRead b k) :
    Inv (setT st i { t with pc := .relUnlock k }) := by
  have key := cnt_step' st st i t { t with pc := .relUnlock k } rfl ht
  bar_auto []

theorem leaf_clProc {st : St} {i : Nat} {t : Th} {k : Cont} {s0 : Nat} (h : Inv st)
    (ht : st.ths[i]? = some t) (hpc : t.pc = .clProc s0 k) :
    Inv (setT (destruct st s0) i { t with pc := .clRead false k }) := by
  have key := cnt_step' st (destruct st s0) i t { t with pc := .clRead false k } rfl ht
  have mem := fun f => cnt_ge_mem f st i t ht
  have m1 := mem (onPc (pcProc s0)); have m3 := mem (refT s0)
  simp [barsimp, hpc] at m1 m3
  obtain ⟨hh, hs⟩ := h.proc s0 m1
  obtain ⟨r, hq⟩ := head_mem hh
  have hc0 := queued_closed h s0 (by simp [hq])
  obtain ⟨hs0, hact, hseq, hobj, hfl⟩ := closed_facts h s0 hc0
  have hpl := h.place s0
  have hP1 : cnt (onPc (pcProc s0)) st ≤ 1 := by
    have := cnt_le_cnt _ _ st (pcProc_le_pcFlag s0)
    have := h.flag; have := b2n_le st.flag; omega
  have her : st.freeq.erase s0 = r := by rw [hq]; simp
  have hcq : ∀ x, r.count x = st.freeq.count x - (if s0 = x then 1 else 0) := by
    intro x; have := count_tail s0 r x; rw [hq]; omega
  have hc1 : st.freeq.count s0 = 1 := by
    have : 0 < st.freeq.count s0 := by rw [hq]; simp
    omega
  bar_auto_s [her, hcq]
  case sorted =>
    have := h.sorted; rw [hq, List.pairwise_cons] at this
    simpa [her] using this.2
  case logseq =>
    simp [h.logseq, hseq, List.range'_concat]; omega
  case logobj =>
    simp [h.logobj, List.take_add_one, ← hs, hobj]

theorem leaf_relUnlock_fixed {st : St} {i : Nat} {t : Th} {k : Cont} (h : Inv st)
    (ht : st.ths[i]? = some t) (hpc : t.pc = .relUnlock k) :
    Inv (setT { st with flag := false } i { t with pc := .relRecheck k }) := by
  have key := cnt_step' st { st with flag := false } i t { t with pc := .relRecheck k } rfl ht
  have gS : ∀ s, getS { st with flag := false } s = getS st s := fun _ => rfl
  have mem := fun f => cnt_ge_mem f st i t ht
  have m1 := mem (onPc pcFlag)
  simp [barsimp, hpc] at m1
  have hfl := h.flag; have := b2n_le st.flag
  bar_auto [gS]

theorem leaf_relUnlock_orig {st : St} {i : Nat} {t : Th} {k : Cont} (h : Inv st)
    (ht : st.ths[i]? = some t) (hpc : t.pc = .relUnlock k) :
    Inv (setT { st with flag := false } i { t with pc := afterCont k }) := by
  have key := cnt_step' st { st with flag := false } i t { t with pc := afterCont k } rfl ht
  have gS : ∀ s, getS { st with flag := false } s = getS st s := fun _ => rfl
  have mem := fun f => cnt_ge_mem f st i t ht
  have m1 := mem (onPc pcFlag); have m2 := mem (onPc pcMutex); have m3 := mem (onPc pcPast)
  simp [barsimp, hpc] at m1 m2 m3
  have hfl := h.flag; have := b2n_le st.flag
  bar_auto [gS]

theorem leaf_relRecheck_again {st : St} {i : Nat} {t : Th} {k : Cont} (h : Inv st)
    (ht : st.ths[i]? = some t) (hpc : t.pc = .relRecheck k) :
    Inv (setT st i { t with pc := .relTryLock k }) := by
  have key := cnt_step' st st i t { t with pc := .relTryLock k } rfl ht
  bar_auto []

theorem leaf_relRecheck_done {st : St} {i : Nat} {t : Th} {k : Cont} (h : Inv st)
    (ht : st.ths[i]? = some t) (hpc : t.pc = .relRecheck k) :
    Inv (setT st i { t with pc := afterCont k }) := by
  have key := cnt_step' st st i t { t with pc := afterCont k } rfl ht
  have mem := fun f => cnt_ge_mem f st i t ht
  have m1 := mem (onPc pcMutex); have m2 := mem (onPc pcPast)
  simp [barsimp, hpc] at m1 m2
  bar_auto []

end NitroVerif.Barrier
