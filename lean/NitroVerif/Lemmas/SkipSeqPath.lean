import NitroVerif.Lemmas.SkipSeqHeap
/-!
  Pointer chains.  `Path h mk l xs` : consecutive elements of `xs` are linked at level `l`, and the
  link word of every source node `a` carries the deleted flag `mk a`.  A level of the skiplist is
  `Path h mk l (head :: X ++ [tail])`; the representation invariant `Rep` says that level `l` is the
  level-0 list filtered by `height ≥ l`.
-/
namespace NitroVerif.SkipSeq
open NitroVerif

def Path (h : Heap) (mk : Nat → Bool) (l : Nat) : List Nat → Prop
  | [] => True
  | [_] => True
  | a :: b :: r => getNext h a l = (b, mk a) ∧ Path h mk l (b :: r)

@[simp] theorem path_nil (h : Heap) (mk : Nat → Bool) (l : Nat) : Path h mk l [] = True := rfl
@[simp] theorem path_single (h : Heap) (mk : Nat → Bool) (l a : Nat) : Path h mk l [a] = True := rfl
@[simp] theorem path_cons_cons (h : Heap) (mk : Nat → Bool) (l a b : Nat) (r : List Nat) :
    Path h mk l (a :: b :: r) = (getNext h a l = (b, mk a) ∧ Path h mk l (b :: r)) := rfl

theorem path_append_cons {h : Heap} {mk : Nat → Bool} {l : Nat} (X : List Nat) (b : Nat) (Y : List Nat) :
    Path h mk l (X ++ b :: Y) ↔ Path h mk l (X ++ [b]) ∧ Path h mk l (b :: Y) := by
  induction X with
  | nil => simp
  | cons a X ih =>
    cases X with
    | nil => simp
    | cons c X' =>
      simp only [List.cons_append, path_cons_cons] at ih ⊢
      rw [ih]; exact and_assoc.symm

theorem path_tail {h : Heap} {mk : Nat → Bool} {l a : Nat} {r : List Nat} (hp : Path h mk l (a :: r)) :
    Path h mk l r := by
  cases r with
  | nil => simp
  | cons b r => exact hp.2

/-- the path only reads the link words of its elements -/
theorem path_congr {h h' : Heap} {mk mk' : Nat → Bool} {l : Nat} (xs : List Nat)
    (hx : ∀ a ∈ xs, getNext h' a l = getNext h a l ∧ mk' a = mk a) :
    Path h' mk' l xs ↔ Path h mk l xs := by
  induction xs with
  | nil => simp
  | cons a r ih =>
    cases r with
    | nil => simp
    | cons b r' =>
      have ha := hx a (by simp)
      simp only [path_cons_cons, ha.1, ha.2]
      rw [ih (fun c hc => hx c (List.mem_cons_of_mem _ hc))]

/-- …and not the link word of its last element -/
theorem path_congr_snoc {h h' : Heap} {mk mk' : Nat → Bool} {l : Nat} (X : List Nat) (p : Nat)
    (hx : ∀ a ∈ X, getNext h' a l = getNext h a l ∧ mk' a = mk a) :
    Path h' mk' l (X ++ [p]) ↔ Path h mk l (X ++ [p]) := by
  induction X with
  | nil => simp
  | cons a r ih =>
    have ha := hx a (by simp)
    have ih' := ih (fun c hc => hx c (List.mem_cons_of_mem _ hc))
    cases r with
    | nil => simp [ha.1, ha.2]
    | cons b r' =>
      simp only [List.cons_append, path_cons_cons, ha.1, ha.2] at ih' ⊢
      rw [ih']

theorem path_head_link {h : Heap} {mk : Nat → Bool} {l a z : Nat} {X : List Nat}
    (hp : Path h mk l (a :: X ++ [z])) : getNext h a l = ((X.head?).getD z, mk a) := by
  cases X with
  | nil => simpa using hp
  | cons b r => simpa using hp.1

/-- the link of the last node before `z` -/
theorem path_last_link {h : Heap} {mk : Nat → Bool} {l z : Nat} (X : List Nat) (a : Nat)
    (hp : Path h mk l (a :: X ++ [z])) :
    getNext h ((X.getLast?).getD a) l = (z, mk ((X.getLast?).getD a)) := by
  induction X generalizing a with
  | nil => simpa using hp
  | cons b r ih =>
    have := ih b (path_tail hp)
    cases r with
    | nil => simpa using this
    | cons c r' =>
      rw [List.getLast?_cons_cons]
      cases hq : (c :: r').getLast? with
      | none => simp at hq
      | some q => simpa [hq] using this

/-- every element but the last has the flag `mk` on its link word -/
theorem path_mem_flag {h : Heap} {mk : Nat → Bool} {l z : Nat} (X : List Nat)
    (hp : Path h mk l (X ++ [z])) : ∀ a ∈ X, (getNext h a l).2 = mk a := by
  induction X with
  | nil => simp
  | cons b r ih =>
    intro a ha
    rcases List.mem_cons.mp ha with rfl | ha'
    · cases r with
      | nil => have := hp.1; simp [this]
      | cons c r' => have := hp.1; simp [this]
    · exact ih (path_tail hp) a ha'

/-! ### surgery -/

/-- linking a node `x` (already pointing to `c`) between `p` and `c` -/
theorem path_link {h : Heap} {mk : Nat → Bool} {l p c x : Nat} (X Y : List Nat)
    (hp : Path h mk l (X ++ p :: c :: Y))
    (hpX : p ∉ X) (hpY : p ∉ c :: Y) (hxp : x ≠ p)
    (hx : getNext h x l = (c, mk x)) (hslot : l < nextLen h p) :
    Path (setNext h p l (x, mk p)) mk l (X ++ p :: x :: c :: Y) := by
  have hsame : ∀ a, a ≠ p → getNext (setNext h p l (x, mk p)) a l = getNext h a l :=
    fun a ha => getNext_setNext_ne (Or.inl (Ne.symm ha))
  rw [path_append_cons] at hp ⊢
  refine ⟨?_, ?_⟩
  · rw [path_congr_snoc X p (mk := mk)]
    · exact hp.1
    · intro a ha; exact ⟨hsame a (fun e => hpX (e ▸ ha)), rfl⟩
  · simp only [path_cons_cons]
    refine ⟨getNext_setNext_same hslot, ?_, ?_⟩
    · rw [hsame x hxp]; exact hx
    · rw [path_congr (c :: Y) (mk := mk)]
      · exact path_tail hp.2
      · intro a ha; exact ⟨hsame a (fun e => hpY (e ▸ ha)), rfl⟩

/-- unlinking `d` between `p` and `n` -/
theorem path_unlink {h : Heap} {mk : Nat → Bool} {l p d n : Nat} (X Y : List Nat)
    (hp : Path h mk l (X ++ p :: d :: n :: Y))
    (hpX : p ∉ X) (hpY : p ∉ n :: Y) (hslot : l < nextLen h p) :
    Path (setNext h p l (n, mk p)) mk l (X ++ p :: n :: Y) := by
  have hsame : ∀ a, a ≠ p → getNext (setNext h p l (n, mk p)) a l = getNext h a l :=
    fun a ha => getNext_setNext_ne (Or.inl (Ne.symm ha))
  rw [path_append_cons] at hp ⊢
  refine ⟨?_, ?_⟩
  · rw [path_congr_snoc X p (mk := mk)]
    · exact hp.1
    · intro a ha; exact ⟨hsame a (fun e => hpX (e ▸ ha)), rfl⟩
  · simp only [path_cons_cons]
    refine ⟨getNext_setNext_same hslot, ?_⟩
    rw [path_congr (n :: Y) (mk := mk)]
    · exact path_tail (path_tail hp.2)
    · intro a ha; exact ⟨hsame a (fun e => hpY (e ▸ ha)), rfl⟩

/-- a store into a slot of another level, or of a node outside the path, is invisible -/
theorem path_frame {h : Heap} {mk : Nat → Bool} {l n m : Nat} {v : Nat × Bool} (xs : List Nat)
    (hfr : m ≠ l ∨ n ∉ xs) : Path (setNext h n m v) mk l xs ↔ Path h mk l xs := by
  apply path_congr
  intro a ha
  refine ⟨?_, rfl⟩
  apply getNext_setNext_ne
  rcases hfr with h1 | h1
  · right; exact h1
  · left; intro e; exact h1 (e ▸ ha)

/-! ### level lists -/

def nomk : Nat → Bool := fun _ => false

def lvlGe (h : Heap) (l n : Nat) : Bool := decide (l ≤ levelOf h n)

/-- the nodes of `L` whose height reaches level `l` -/
def LL (h : Heap) (L : List Nat) (l : Nat) : List Nat := L.filter (lvlGe h l)

theorem LL_append (h : Heap) (A B : List Nat) (l : Nat) : LL h (A ++ B) l = LL h A l ++ LL h B l := by
  simp [LL]

theorem LL_cons (h : Heap) (a : Nat) (B : List Nat) (l : Nat) :
    LL h (a :: B) l = if l ≤ levelOf h a then a :: LL h B l else LL h B l := by
  simp [LL, List.filter_cons, lvlGe]

theorem mem_LL {h : Heap} {L : List Nat} {l n : Nat} : n ∈ LL h L l ↔ n ∈ L ∧ l ≤ levelOf h n := by
  simp [LL, lvlGe]

theorem LL_zero (h : Heap) (L : List Nat) : LL h L 0 = L := by
  simp [LL, lvlGe]

theorem LL_congr {h h' : Heap} {L : List Nat} (l : Nat) (hl : ∀ n ∈ L, levelOf h' n = levelOf h n) :
    LL h' L l = LL h L l := by
  unfold LL
  apply List.filter_congr
  intro n hn; simp [lvlGe, hl n hn]

theorem LL_eq_nil {h : Heap} {L : List Nat} {l : Nat} (hl : ∀ n ∈ L, levelOf h n < l) : LL h L l = [] := by
  simp only [LL, List.filter_eq_nil_iff, lvlGe, decide_eq_true_eq]
  intro n hn; have := hl n hn; omega

/-- last node before the search key on level `l` (`head` if none) -/
def predAt (h : Heap) (A : List Nat) (l : Nat) : Nat := ((LL h A l).getLast?).getD headId

/-- first node at or after the search key on level `l` (`tail` if none) -/
def succAt (h : Heap) (B : List Nat) (l : Nat) : Nat := ((LL h B l).head?).getD tailId

theorem predAt_mem (h : Heap) (A : List Nat) (l : Nat) :
    predAt h A l = headId ∨ (predAt h A l ∈ A ∧ l ≤ levelOf h (predAt h A l)) := by
  unfold predAt
  cases hl : (LL h A l).getLast? with
  | none => left; rfl
  | some p =>
    right
    have : p ∈ LL h A l := List.mem_of_getLast? hl
    simpa using mem_LL.mp this

theorem succAt_mem (h : Heap) (B : List Nat) (l : Nat) :
    succAt h B l = tailId ∨ (succAt h B l ∈ B ∧ l ≤ levelOf h (succAt h B l)) := by
  unfold succAt
  cases hl : (LL h B l).head? with
  | none => left; rfl
  | some p =>
    right
    have : p ∈ LL h B l := List.mem_of_head? hl
    simpa using mem_LL.mp this

/-- descending one level: the search resumes at `predAt (l+1)`, which lies on level `l`, and the
    stretch `P` from there to the level-`l` predecessor consists of nodes of `A` -/
theorem pred_descend {h : Heap} {mk : Nat → Bool} {l c : Nat} (A R : List Nat)
    (hp : Path h mk l (headId :: LL h A l ++ c :: R)) :
    ∃ P, Path h mk l (predAt h A (l + 1) :: P ++ [c]) ∧ (∀ p ∈ P, p ∈ A ∧ l ≤ levelOf h p) ∧
      (P.getLast?).getD (predAt h A (l + 1)) = predAt h A l ∧ P.length ≤ A.length := by
  have hlen : (LL h A l).length ≤ A.length := List.length_filter_le _ _
  cases hl : (LL h A (l + 1)).getLast? with
  | none =>
    refine ⟨LL h A l, ?_, ?_, ?_, hlen⟩
    · have : predAt h A (l + 1) = headId := by simp [predAt, hl]
      rw [this]
      have := (path_append_cons (headId :: LL h A l) c R).mp (by simpa using hp)
      simpa using this.1
    · intro p hp'; exact mem_LL.mp hp'
    · simp [predAt, hl]
  | some p =>
    have hpm : p ∈ LL h A (l + 1) := List.mem_of_getLast? hl
    have hpm' : p ∈ LL h A l := by
      rcases mem_LL.mp hpm with ⟨h1, h2⟩
      exact mem_LL.mpr ⟨h1, by omega⟩
    rcases List.append_of_mem hpm' with ⟨X, P, hXP⟩
    have hlenP : P.length ≤ A.length := by
      have : (LL h A l).length = X.length + (P.length + 1) := by rw [hXP]; simp
      omega
    refine ⟨P, ?_, ?_, ?_, hlenP⟩
    · have hpe : predAt h A (l + 1) = p := by simp [predAt, hl]
      rw [hpe]
      rw [hXP] at hp
      have h1 := (path_append_cons (headId :: X) p (P ++ c :: R)).mp (by simpa using hp)
      have h2 := (path_append_cons (p :: P) c R).mp (by simpa using h1.2)
      simpa using h2.1
    · intro q hq
      have : q ∈ LL h A l := by rw [hXP]; simp [hq]
      exact mem_LL.mp this
    · have hpe : predAt h A (l + 1) = p := by simp [predAt, hl]
      rw [hpe]
      unfold predAt
      rw [hXP]
      cases P with
      | nil => simp
      | cons q P' =>
        simp [List.getLast?_append, List.getLast?_cons_cons]
        cases hq : (q :: P').getLast? with
        | none => simp at hq
        | some z => simp

end NitroVerif.SkipSeq
