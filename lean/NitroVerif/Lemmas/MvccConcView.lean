/-
  C01 along concurrent histories (part 1): the view of a snapshot number, and a normal form of every
  action of the small-step machine — either a "quiet" action (the epoch, the collection frontier, the
  snapshots and the iterator table are untouched; the store changes in one of four described ways; no
  collector starts or stops) or one of the named functions of `Model/MvccConc.lean`.
-/
import NitroVerif.Lemmas.MvccConcIter6

namespace NitroVerif.MvccConc
open NitroVerif
open NitroVerif.Mvcc (Ver Sorted Chains vlt visible)

/-- what snapshot number `sn` sees of the store: the versions the reader's `skipUnwanted` does not skip, in
    store order, without their (mutable) death mark -/
def viewOf (σ : State) (sn : Nat) : List Ver := Mvcc.view (vers σ.store) sn

/-- snapshot number `sn` is open: it is in the snapshot table with a positive reference count -/
def openSn (σ : State) (sn : Nat) : Prop := ∃ s ∈ σ.snaps, s.sn = sn ∧ 0 < s.rc

/-- the thread is the collector -/
def Pc.isColl : Pc → Bool
  | .collectSend _ _ => true
  | _ => false

def Same (σ σ' : State) : Prop :=
  σ'.currSn = σ.currSn ∧ σ'.lastGCSn = σ.lastGCSn ∧ σ'.snaps = σ.snaps ∧ σ'.iters = σ.iters

/-- at most one thread moves, and neither from nor to the collector's program counter -/
def ThrQuiet (σ σ' : State) : Prop :=
  σ'.threads = σ.threads ∨
  ∃ t pc0 pc', σ.threads[t]? = some pc0 ∧ σ'.threads = σ.threads.set t pc' ∧ pc0.isColl = false ∧
    pc'.isColl = false

/-- how a quiet action changes the store -/
def StoreCh (σ σ' : State) : Prop :=
  σ'.store = σ.store ∨
  (∃ n k v, σ'.store = insertN σ.store ⟨⟨k, v, σ.currSn, 0⟩, n⟩) ∨
  (∃ n x, findNode σ.store n = some x ∧ σ'.store = removeNode σ.store n ∧
      (x.ver.born = σ.currSn ∨ n ∈ garbJ σ.gcJobs)) ∨
  (∃ n x, findNode σ.store n = some x ∧ x.ver.dead = 0 ∧ σ'.store = markDeadNode σ.store n σ.currSn)

def QStep (σ σ' : State) : Prop :=
  Same σ σ' ∧ ThrQuiet σ σ' ∧ (∀ n, n ∈ garbJ σ'.gcJobs → n ∈ garbJ σ.gcJobs) ∧ StoreCh σ σ'

/-- the response hands no item (and no end-of-scan) to a reader -/
def NoItem (r : Resp) : Prop := ∀ c, r ≠ .ret (.item c)

/-- the normal form of an action -/
def Cases (σ : State) (a : Act) (p : State × Resp) : Prop :=
  (QStep σ p.1 ∧ NoItem p.2) ∨
  (a = .snap ∧ writersIdle σ = true ∧ p = snap σ) ∨
  (∃ t s, a = .close t s ∧ σ.threads[t]? = some .idle ∧ p = startClose σ t s) ∨
  (∃ t i s, a = .itNew t i s ∧ σ.threads[t]? = some .idle ∧ p = itNew σ t i s) ∨
  (∃ t i, a = .itFirst t i ∧ σ.threads[t]? = some .idle ∧ p = itFirst σ t i) ∨
  (∃ t i, a = .itClose t i ∧ σ.threads[t]? = some .idle ∧ p = itClose σ t i) ∨
  (∃ t sn after, a = .step t ∧ σ.threads[t]? = some (.collectSend sn after) ∧ p = stepCollect σ t sn after) ∨
  (∃ t i, a = .step t ∧ σ.threads[t]? = some (.iterNext i) ∧ p = stepIter σ t i)

theorem garbJ_set_sub {gcJobs : List GcJob} {j : Nat} {job job' : GcJob} (hj : gcJobs[j]? = some job)
    (hsub : ∀ n, n ∈ job'.todo → n ∈ job.todo) : ∀ n, n ∈ garbJ (gcJobs.set j job') → n ∈ garbJ gcJobs := by
  intro n hn
  unfold garbJ at hn ⊢
  obtain ⟨x, hx, hnx⟩ := List.mem_flatMap.mp hn
  rcases mem_set_cases hx with rfl | hx'
  · exact List.mem_flatMap.mpr ⟨job, List.mem_of_getElem? hj, hsub n hnx⟩
  · exact List.mem_flatMap.mpr ⟨x, hx', hnx⟩

theorem QStep.refl (σ : State) : QStep σ σ :=
  ⟨⟨rfl, rfl, rfl, rfl⟩, Or.inl rfl, fun _ h => h, Or.inl rfl⟩

/-- the common form of a quiet action: nothing but the store, the jobs' bookkeeping and one thread's
    program counter changes -/
theorem QStep.mk' {σ σ' : State} (e1 : σ'.currSn = σ.currSn) (e2 : σ'.lastGCSn = σ.lastGCSn)
    (e3 : σ'.snaps = σ.snaps) (e4 : σ'.iters = σ.iters) (ht : ThrQuiet σ σ')
    (hg : ∀ n, n ∈ garbJ σ'.gcJobs → n ∈ garbJ σ.gcJobs) (hs : StoreCh σ σ') : QStep σ σ' :=
  ⟨⟨e1, e2, e3, e4⟩, ht, hg, hs⟩

theorem step_cases {σ : State} (hi : Inv σ) (hd : σ.down = false) (a : Act) : Cases σ a (step σ a) := by
  have ni : ∀ {r : Resp}, (∀ c, r ≠ .ret (.item c)) → NoItem r := fun h => h
  have bad : ∀ (a : Act), Cases σ a (σ, .bad) :=
    fun a => Or.inl ⟨QStep.refl σ, by intro c h; cases h⟩
  have uaf : ∀ (a : Act), Cases σ a (σ, .uaf) :=
    fun a => Or.inl ⟨QStep.refl σ, by intro c h; cases h⟩
  -- a quiet action of thread `t` standing at `pc0`
  have qt : ∀ (a : Act) (σ' : State) (r : Resp) (t : Nat) (pc0 pc' : Pc), σ.threads[t]? = some pc0 →
      pc0.isColl = false → pc'.isColl = false →
      σ'.threads = σ.threads.set t pc' → σ'.currSn = σ.currSn →
      σ'.lastGCSn = σ.lastGCSn → σ'.snaps = σ.snaps → σ'.iters = σ.iters → σ'.gcJobs = σ.gcJobs →
      StoreCh σ σ' → NoItem r → Cases σ a (σ', r) := by
    intro a σ' r t pc0 pc' hg h0 h' e0 e1 e2 e3 e4 e5 hs hr
    exact Or.inl ⟨QStep.mk' e1 e2 e3 e4 (Or.inr ⟨t, pc0, pc', hg, e0, h0, h'⟩) (by rw [e5]; exact fun _ h => h) hs,
      hr⟩
  rw [step_eq_of_not_down hd]
  cases a with
  | snap =>
    simp only
    split
    · rename_i h; exact Or.inr (Or.inl ⟨rfl, h, rfl⟩)
    · exact bad _
  | put t k v =>
    simp only
    split
    · rename_i h
      have hidle := isIdle_spec (by simp at h; exact h.2)
      exact qt _ _ _ t .idle _ hidle rfl rfl rfl rfl rfl rfl rfl rfl (Or.inl rfl) (by intro c h; cases h)
    · exact bad _
  | del t k =>
    simp only
    split
    · rename_i h
      have hidle := isIdle_spec (by simp at h; exact h.2)
      unfold startDel
      split
      · exact Or.inl ⟨QStep.mk' rfl rfl rfl rfl (Or.inl rfl) (fun _ h => h) (Or.inl rfl), by intro c h; cases h⟩
      · split
        · exact qt _ _ _ t .idle _ hidle rfl rfl rfl rfl rfl rfl rfl rfl (Or.inl rfl) (by intro c h; cases h)
        · exact qt _ _ _ t .idle _ hidle rfl rfl rfl rfl rfl rfl rfl rfl (Or.inl rfl) (by intro c h; cases h)
    · exact bad _
  | get t k =>
    simp only
    split
    · exact Or.inl ⟨QStep.refl σ, by intro c h; cases h⟩
    · exact bad _
  | close t s =>
    simp only
    split
    · rename_i h; exact Or.inr (Or.inr (Or.inl ⟨t, s, rfl, isIdle_spec h, rfl⟩))
    · exact bad _
  | itNew t i s =>
    simp only
    split
    · rename_i h
      exact Or.inr (Or.inr (Or.inr (Or.inl ⟨t, i, s, rfl, isIdle_spec (by simp at h; exact h.2), rfl⟩)))
    · exact bad _
  | itFirst t i =>
    simp only
    split
    · rename_i h
      exact Or.inr (Or.inr (Or.inr (Or.inr (Or.inl ⟨t, i, rfl, isIdle_spec (by simp at h; exact h.2), rfl⟩))))
    · exact bad _
  | itNext t i =>
    simp only
    split
    · rename_i h
      have hidle := isIdle_spec (by simp at h; exact h.2)
      unfold itNext
      split
      · split
        · exact qt _ _ _ t .idle _ hidle rfl rfl rfl rfl rfl rfl rfl rfl (Or.inl rfl) (by intro c h; cases h)
        · exact bad _
      · exact bad _
    · exact bad _
  | itClose t i =>
    simp only
    split
    · rename_i h
      exact Or.inr (Or.inr (Or.inr (Or.inr (Or.inr (Or.inl
        ⟨t, i, rfl, isIdle_spec (by simp at h; exact h.2), rfl⟩)))))
    · exact bad _
  | step t =>
    simp only
    unfold stepThread
    split
    · -- PUT_INSERT
      rename_i n k v b hg
      have ⟨_, hb⟩ := hi.pc.put t n k v b hg
      subst hb
      unfold stepPut
      split
      · exact uaf _
      · simp only [alloc_store]
        split
        · exact qt _ _ _ t _ .idle hg rfl rfl
            (by simp) (by simp) (by simp) (by simp) (by simp) (by simp) (Or.inl (by simp)) (by intro c h; cases h)
        · exact qt _ _ _ t _ _ hg rfl rfl
            rfl rfl rfl rfl rfl rfl (Or.inr (Or.inl ⟨n, k, v, rfl⟩)) (by intro c h; cases h)
    · -- DEL_NODE_PHYS
      rename_i n tok k hg
      unfold stepDelPhys
      split
      · exact uaf _
      · cases hf : findNode σ.store n with
        | none =>
          exact qt _ _ _ t _ _ hg rfl rfl rfl rfl rfl rfl rfl rfl (Or.inl rfl) (by intro c h; cases h)
        | some x =>
          have ⟨hx, hid⟩ := findNode_some hf
          have := ((hi.pc.phys t n tok k hg).2.2.2 x hx hid).2
          exact qt _ _ _ t _ _ hg rfl rfl
            rfl rfl rfl rfl rfl rfl (Or.inr (Or.inr (Or.inl ⟨n, x, hf, rfl, Or.inl this⟩))) (by intro c h; cases h)
    · -- DEL_NODE_FLUSH
      rename_i n tok k hg
      exact qt _ _ _ t _ _ hg rfl rfl rfl rfl rfl rfl rfl rfl (Or.inl rfl) (by intro c h; cases h)
    · -- DEL_NODE_CAS
      rename_i n tok k hg
      unfold stepDelCas casWin casLose
      split
      · exact uaf _
      · cases hf : findNode σ.store n with
        | some x =>
          simp only
          split
          · rename_i hd0
            exact qt _ _ _ t _ _ hg rfl rfl
              rfl rfl rfl rfl rfl rfl (Or.inr (Or.inr (Or.inr ⟨n, x, hf, hd0, rfl⟩))) (by intro c h; cases h)
          · exact qt _ _ _ t _ _ hg rfl rfl rfl rfl rfl rfl rfl rfl (Or.inl rfl) (by intro c h; cases h)
        | none =>
          simp only
          split
          · split
            · exact qt _ _ _ t _ _ hg rfl rfl rfl rfl rfl rfl rfl rfl (Or.inl rfl) (by intro c h; cases h)
            · exact qt _ _ _ t _ _ hg rfl rfl rfl rfl rfl rfl rfl rfl (Or.inl rfl) (by intro c h; cases h)
          · exact qt _ _ _ t _ _ hg rfl rfl rfl rfl rfl rfl rfl rfl (Or.inl rfl) (by intro c h; cases h)
    · rename_i sn after hg
      exact Or.inr (Or.inr (Or.inr (Or.inr (Or.inr (Or.inr (Or.inl ⟨t, sn, after, rfl, hg, rfl⟩))))))
    · rename_i i hg
      exact Or.inr (Or.inr (Or.inr (Or.inr (Or.inr (Or.inr (Or.inr ⟨t, i, rfl, hg, rfl⟩))))))
    · exact bad _
  | gc j =>
    simp only
    unfold stepGc
    cases hj : σ.gcJobs[j]? with
    | none => exact bad _
    | some job =>
      simp only
      have keep : ∀ (pc' : GcPc) (r : Resp), NoItem r → Cases σ (.gc j) (setGc σ j { job with pc := pc' }, r) := by
        intro pc' r hr
        exact Or.inl ⟨QStep.mk' rfl rfl rfl rfl (Or.inl rfl)
          (garbJ_set_sub hj (fun _ h => h)) (Or.inl rfl), hr⟩
      split
      · split
        · exact keep _ _ (by intro c h; cases h)
        · exact keep _ _ (by intro c h; cases h)
      · split
        · rename_i n r htd
          split
          · exact uaf _
          · have hsub : ∀ m, m ∈ r → m ∈ job.todo := by intro m hm; rw [htd]; exact List.mem_cons_of_mem _ hm
            have hnin : n ∈ garbJ σ.gcJobs := by
              unfold garbJ
              exact List.mem_flatMap.mpr ⟨job, List.mem_of_getElem? hj, by rw [htd]; simp⟩
            cases hf : findNode σ.store n with
            | none =>
              simp only
              split
              · exact Or.inl ⟨QStep.mk' rfl rfl rfl rfl (Or.inl rfl)
                  (garbJ_set_sub hj hsub) (Or.inl rfl), by intro c h; cases h⟩
              · exact Or.inl ⟨QStep.mk' rfl rfl rfl rfl (Or.inl rfl)
                  (garbJ_set_sub hj hsub) (Or.inl rfl), by intro c h; cases h⟩
            | some x =>
              simp only
              split
              · exact Or.inl ⟨QStep.mk' rfl rfl rfl rfl (Or.inl rfl)
                  (garbJ_set_sub hj hsub) (Or.inr (Or.inr (Or.inl ⟨n, x, hf, rfl, Or.inr hnin⟩))),
                  by intro c h; cases h⟩
              · exact Or.inl ⟨QStep.mk' rfl rfl rfl rfl (Or.inl rfl)
                  (garbJ_set_sub hj hsub) (Or.inr (Or.inr (Or.inl ⟨n, x, hf, rfl, Or.inr hnin⟩))),
                  by intro c h; cases h⟩
        · exact keep _ _ (by intro c h; cases h)
      · exact Or.inl ⟨QStep.mk' rfl rfl rfl rfl (Or.inl rfl)
          (garbJ_set_sub (gcJobs := σ.gcJobs) hj (fun _ h => h)) (Or.inl rfl), by intro c h; cases h⟩
      · exact keep _ _ (by intro c h; cases h)
      · exact bad _
  | fr j =>
    simp only
    unfold stepFr
    split
    · split
      · exact Or.inl ⟨QStep.mk' (by simp [setFr]) (by simp [setFr]) (by simp [setFr]) (by simp [setFr])
          (Or.inl (by simp [setFr])) (by simp [setFr]) (Or.inl (by simp [setFr])), by intro c h; cases h⟩
      · exact Or.inl ⟨QStep.mk' rfl rfl rfl rfl (Or.inl rfl) (fun _ h => h) (Or.inl rfl),
          by intro c h; cases h⟩
      · exact bad _
    · exact bad _
  | shutdown =>
    simp only
    unfold shutdown
    split
    · exact Or.inl ⟨QStep.mk' (by simp) (by simp) (by simp) (by simp) (Or.inl (by simp)) (by simp)
        (Or.inl (by simp)), by intro c h; cases h⟩
    · exact bad _

end NitroVerif.MvccConc
