/-
  Tools for the linearization proof: what the specification answers in a state related by `Abs`, the
  replay of the losers' linearization points, the phase of a bystander.
-/
import NitroVerif.Lemmas.MvccConcFrame

namespace NitroVerif.MvccConc
open NitroVerif
open NitroVerif.SetSpec (Op Out)
open NitroVerif.Mvcc (Ver Sorted Chains)

/-! ### the specification's answers -/

theorem lookupN_val {store : List Node} {cur : Nat} (hs : Sorted (vers store)) (hc : Chains cur (vers store))
    (k v : Nat) : (lookupN store ⟨k, v, cur, 0⟩).map (·.ver) = Mvcc.aliveOf (vers store) k := by
  rw [lookupN_map, Mvcc.lookup_eq_aliveOf hs hc]

theorem spec_get {σ : State} {sp : SetSpec.State} (hi : Inv σ) (habs : Abs σ sp) {t : Nat}
    (ht : t < σ.writers.length) (k : Nat) :
    SetSpec.step sp (.get t k) = (sp, .val ((lookupN σ.store (probe σ k 0)).map (·.ver.val))) := by
  have hl := lookupN_val hi.store.sorted hi.store.chains k 0
  simp only [SetSpec.step, habs.nw, ht, if_true, habs.alive, Mvcc.findKey_abs]
  unfold probe
  rw [← hl]
  cases lookupN σ.store ⟨k, 0, σ.currSn, 0⟩ <;> rfl

theorem spec_del_absent {σ : State} {sp : SetSpec.State} (habs : Abs σ sp) {t : Nat}
    (ht : t < σ.writers.length) {k : Nat} (hno : ∀ y ∈ vers σ.store, y.key = k → y.dead ≠ 0) :
    SetSpec.step sp (.del t k) = (sp, .bool false) := by
  have : Mvcc.aliveOf (vers σ.store) k = none := by
    unfold Mvcc.aliveOf
    apply List.find?_eq_none.mpr
    intro x hx; simp
    intro hk; exact hno x hx hk
  simp only [SetSpec.step, habs.nw, ht, if_true, habs.alive, Mvcc.findKey_abs, this, Option.map_none]

theorem spec_del_none {σ : State} {sp : SetSpec.State} (hi : Inv σ) (habs : Abs σ sp) {t : Nat}
    (ht : t < σ.writers.length) {k : Nat} (hl : lookupN σ.store (probe σ k 0) = none) :
    SetSpec.step sp (.del t k) = (sp, .bool false) := by
  apply spec_del_absent habs ht
  have h1 := lookupN_val hi.store.sorted hi.store.chains k 0
  unfold probe at hl
  rw [hl] at h1
  exact Mvcc.aliveOf_none h1.symm

theorem spec_del_some {σ : State} {sp : SetSpec.State} (hi : Inv σ) (habs : Abs σ sp) {t : Nat}
    (ht : t < σ.writers.length) {x : Node} (hx : x ∈ σ.store) (hd : x.ver.dead = 0) :
    (SetSpec.step sp (.del t x.ver.key)).2 = .bool true ∧
    (SetSpec.step sp (.del t x.ver.key)).1.alive = SetSpec.removeKey x.ver.key sp.alive ∧
    (SetSpec.step sp (.del t x.ver.key)).1.nwriters = sp.nwriters ∧
    (SetSpec.step sp (.del t x.ver.key)).1.epoch = sp.epoch := by
  have hxv : x.ver ∈ vers σ.store := List.mem_map.mpr ⟨x, hx, rfl⟩
  have := Mvcc.aliveOf_eq_some hi.store.sorted hi.store.chains hxv rfl hd
  simp only [SetSpec.step, habs.nw, ht, if_true, habs.alive, Mvcc.findKey_abs, this, Option.map_some,
    SetSpec.delEntry, Mvcc.entryOf]
  exact ⟨trivial, trivial, trivial, trivial⟩

theorem spec_put {σ : State} {sp : SetSpec.State} (hi : Inv σ) (habs : Abs σ sp) {t : Nat}
    (ht : t < σ.writers.length) (k v : Nat) :
    (SetSpec.step sp (.put t k v)).2 = .bool (lookupN σ.store ⟨k, v, σ.currSn, 0⟩).isNone ∧
    (SetSpec.step sp (.put t k v)).1.nwriters = sp.nwriters ∧
    (SetSpec.step sp (.put t k v)).1.epoch = sp.epoch ∧
    (SetSpec.step sp (.put t k v)).1.alive =
      (if (lookupN σ.store ⟨k, v, σ.currSn, 0⟩).isNone then SetSpec.ins ⟨k, v, σ.currSn⟩ sp.alive else sp.alive) := by
  have hl := lookupN_val hi.store.sorted hi.store.chains k v
  simp only [SetSpec.step, habs.nw, ht, if_true, habs.alive, Mvcc.findKey_abs, ← hl, habs.epoch]
  cases lookupN σ.store ⟨k, v, σ.currSn, 0⟩ <;> simp [habs.nw, habs.epoch, habs.alive]

/-- a failing Delete of an absent key leaves the specification alone -/
theorem replay_failed_dels (k : Nat) : ∀ (l : List Ev) (sp : SetSpec.State),
    (∀ e ∈ l, ∃ t', e = .lin t' (.del t' k) (.bool false) ∧ t' < sp.nwriters) →
    SetSpec.findKey k sp.alive = none → replay sp l = some sp
  | [], _, _, _ => rfl
  | e :: es, sp, hl, hk => by
    obtain ⟨t', rfl, ht'⟩ := hl e (List.mem_cons_self)
    have hstep : SetSpec.step sp (.del t' k) = (sp, .bool false) := by
      simp only [SetSpec.step, ht', if_true, hk]
    simp only [replay, specStep, linOp, hstep, and_self, if_true]
    exact replay_failed_dels k es sp (fun e he => hl e (List.mem_cons_of_mem _ he)) hk

/-! ### phases -/

def Ev.thread : Ev → Option Nat
  | .call t _ => some t
  | .lin t _ _ => some t
  | .ret t _ => some t
  | .snap _ => none

theorem phaseStep_other {t : Nat} {e : Ev} (h : e.thread ≠ some t) (p : Phase) : phaseStep t p e = p := by
  cases e with
  | snap r => rfl
  | call t' op => simp [Ev.thread] at h; simp [phaseStep, h]
  | lin t' op r => simp [Ev.thread] at h; simp [phaseStep, h]
  | ret t' r => simp [Ev.thread] at h; simp [phaseStep, h]

theorem phaseOf_others {t : Nat} {l : List Ev} (h : ∀ e ∈ l, e.thread ≠ some t) (p : Phase) : phaseOf t p l = p := by
  induction l generalizing p with
  | nil => rfl
  | cons e es ih =>
    unfold phaseOf
    rw [List.foldl_cons, phaseStep_other (h e List.mem_cons_self)]
    exact ih (fun e he => h e (List.mem_cons_of_mem _ he)) p

theorem phaseOf_filterMap (f : Nat → Option Ev) (hf : ∀ i e, f i = some e → e.thread = some i) (t : Nat) :
    ∀ (l : List Nat), l.Nodup → ∀ p, phaseOf t p (l.filterMap f) =
      if t ∈ l then (match f t with | some e => phaseStep t p e | none => p) else p
  | [], _, p => rfl
  | i :: l, hn, p => by
    have hn' := List.nodup_cons.mp hn
    have ih := phaseOf_filterMap f hf t l hn'.2
    by_cases hit : i = t
    · subst hit
      have hnot : i ∉ l := hn'.1
      cases hfi : f i with
      | none =>
        simp only [List.filterMap_cons, hfi, List.mem_cons, true_or, if_true]
        rw [ih, if_neg hnot]
      | some e =>
        simp only [List.filterMap_cons, hfi, List.mem_cons, true_or, if_true]
        unfold phaseOf
        rw [List.foldl_cons]
        have := ih (phaseStep i p e)
        unfold phaseOf at this
        rw [this, if_neg hnot]
    · have hmem : (t ∈ i :: l) ↔ t ∈ l := by
        simp [List.mem_cons]; intro h; exact absurd h.symm hit
      cases hfi : f i with
      | none =>
        simp only [List.filterMap_cons, hfi]
        rw [ih]; simp only [hmem]
      | some e =>
        simp only [List.filterMap_cons, hfi]
        unfold phaseOf
        rw [List.foldl_cons]
        have he : e.thread ≠ some t := by rw [hf i e hfi]; simp [hit]
        rw [phaseStep_other he]
        have := ih p
        unfold phaseOf at this
        rw [this]; simp only [hmem]

theorem loserEv_thread (σ : State) (t n i : Nat) (e : Ev) (h : loserEv σ t n i = some e) : e.thread = some i := by
  unfold loserEv at h
  split at h
  · cases h
  · split at h
    · split at h
      · injection h with h; subst h; rfl
      · cases h
    · split at h
      · injection h with h; subst h; rfl
      · cases h
    · cases h

/-- the phase of thread `t'` after the losers of node `n` have been linearized -/
theorem phaseOf_losers (σ : State) (t n t' : Nat) (p : Phase) :
    phaseOf t' p (losers σ t n) =
      match loserEv σ t n t' with
      | some e => phaseStep t' p e
      | none => p := by
  unfold losers
  rw [phaseOf_filterMap _ (loserEv_thread σ t n) t' _ List.nodup_range]
  by_cases hlt : t' < σ.threads.length
  · simp [List.mem_range, hlt]
  · have hnone : loserEv σ t n t' = none := by
      unfold loserEv
      split
      · rfl
      · have : σ.threads[t']? = none := List.getElem?_eq_none_iff.mpr (by omega)
        simp [this]
    simp [List.mem_range, hlt, hnone]

/-- a bystander: same program counter, and what it knows about its node is unchanged -/
theorem PhaseOK.store_change {σ σ' : State} {t' : Nat} {p : Phase} (hthr : σ'.threads[t']? = σ.threads[t']?)
    (hphys : ∀ n tok k, σ.threads[t']? = some (Pc.delPhys n tok k) →
      (n ∈ storeIds σ'.store ↔ n ∈ storeIds σ.store))
    (hcas : ∀ n tok k, σ.threads[t']? = some (Pc.delCas n tok k) → (AliveIn σ'.store n ↔ AliveIn σ.store n))
    (h : PhaseOK σ t' p) : PhaseOK σ' t' p := by
  cases p with
  | idle => intro pc hg; rw [hthr] at hg; exact h pc hg
  | called op =>
    rcases h with ⟨n, k, v, b, hg, ho⟩ | ⟨n, tok, k, hg, ho, hm⟩ | ⟨n, tok, k, hg, ho, hm⟩
    · exact Or.inl ⟨n, k, v, b, by rw [hthr]; exact hg, ho⟩
    · exact Or.inr (Or.inl ⟨n, tok, k, by rw [hthr]; exact hg, ho, (hphys n tok k hg).mpr hm⟩)
    · exact Or.inr (Or.inr ⟨n, tok, k, by rw [hthr]; exact hg, ho, (hcas n tok k hg).mpr hm⟩)
  | decided op res =>
    rcases h with ⟨n, tok, k, hg, ho, hr, hm⟩ | ⟨n, tok, k, hg, ho, hr⟩ | ⟨n, tok, k, hg, ho, hr, hm⟩
    · exact Or.inl ⟨n, tok, k, by rw [hthr]; exact hg, ho, hr, fun h' => hm ((hphys n tok k hg).mp h')⟩
    · exact Or.inr (Or.inl ⟨n, tok, k, by rw [hthr]; exact hg, ho, hr⟩)
    · exact Or.inr (Or.inr ⟨n, tok, k, by rw [hthr]; exact hg, ho, hr, fun h' => hm ((hcas n tok k hg).mp h')⟩)
  | broken => exact h

end NitroVerif.MvccConc
