import NitroVerif.Lemmas.SkipConcStep
/-!
  M5: the call entries (`startOp`) — no heap write, no level change, good locals afterwards.
  (Split off `SkipConcStep.lean`, which holds the same facts for the segments.)
-/
namespace NitroVerif.SkipConc
open NitroVerif

/-- a call entry does not write the heap -/
theorem startOp_heap (sh : Shared) (th : Thread) (op : Op) : (startOp sh th op).1.heap = sh.heap := by
  cases op <;> simp only [startOp]
  · split <;> rfl
  · rfl
  · rfl
  · rfl
  · split
    · split <;> rfl
    · rfl
  · split <;> rfl
  · split
    · split <;> rfl
    · rfl
  · split
    · split <;> rfl
    · rfl

theorem startOp_level (sh : Shared) (th : Thread) (op : Op) : (startOp sh th op).1.level = sh.level := by
  cases op <;> simp only [startOp]
  · split <;> rfl
  · rfl
  · rfl
  · rfl
  · split
    · split <;> rfl
    · rfl
  · split <;> rfl
  · split
    · split <;> rfl
    · rfl
  · split
    · split <;> rfl
    · rfl

/-- a call entry leaves the thread with good locals -/
theorem startOp_good {sh : Shared} {th : Thread} (op : Op) (H : HInv sh.heap) (hlv : sh.level ≤ Gen.maxLevel)
    (hT : TInv sh.heap th) (hidle : th.pc = .idle) : Good sh.heap (startOp sh th op) := by
  obtain ⟨hb, hi, _⟩ := hT
  cases op <;> simp only [startOp]
  · rename_i k lvl
    split
    · rename_i hbump
      exact ⟨H, Ext.refl _, hb, hi, (newLevelBump_iff _ _).mp hbump, newLevelClamp_le _⟩
    · exact startFind_good _ _ H hlv (Ext.refl _) hb hi (newLevelClamp_le _)
  · exact startFind_good _ _ H hlv (Ext.refl _) hb hi trivial
  · exact startFind_good _ _ H hlv (Ext.refl _) hb hi trivial
  · refine ⟨H, Ext.refl _, hb, ?_, ?_⟩
    · exact hi.moveIter _ (by have := H.len; simp [headId]; omega) (H.getNext_lt _ _)
    · simp only [Thread.moveIter, Thread.setIter, hidle, PCInv]
  · exact startFind_good _ _ H hlv (Ext.refl _) hb hi trivial
  · split
    · rename_i it x I hI
      split
      · rename_i k hk
        refine ⟨H, Ext.refl _, hb, hi, k, ?_⟩
        have : ({ th with pc := PC.iterNext it } : Thread).iter it = I := by
          have h2 : ({ th with pc := PC.iterNext it } : Thread).iter? it = th.iter? it := rfl
          simp only [Thread.iter, h2, hI]; rfl
        rw [this]; exact hk
      · exact ⟨H, Ext.refl _, hb, hi, by rw [hidle]; trivial⟩
    · exact ⟨H, Ext.refl _, hb, hi, by rw [hidle]; trivial⟩
  · split
    · refine ⟨H, Ext.refl _, hb, ?_, by simp only [hidle, PCInv]⟩
      intro p hp
      exact hi p (List.mem_filter.mp hp).1
    · exact ⟨H, Ext.refl _, hb, hi, by rw [hidle]; trivial⟩
  · split
    · rename_i it n x I hI
      split
      · refine ⟨H, Ext.refl _, hb, ?_, by simp only [Thread.setIter, hidle, PCInv]⟩
        have hm : (it, I) ∈ th.iters := by
          unfold Thread.iter? at hI
          cases hf : th.iters.find? (fun p => p.1 == it) with
          | none => simp [hf] at hI
          | some p =>
            simp [hf] at hI
            have h1 := List.mem_of_find?_eq_some hf
            have h2 := List.find?_some hf
            simp at h2
            rw [← hI, ← h2]; exact h1
        exact hi.setIter _ _ (hi _ hm)
      · exact ⟨H, Ext.refl _, hb, hi, by rw [hidle]; trivial⟩
    · exact ⟨H, Ext.refl _, hb, hi, by rw [hidle]; trivial⟩
  · -- explicit Refresh: parks at ITER_REFRESH with the cursor on an item
    split
    · rename_i it x I hI
      split
      · rename_i k hk
        refine ⟨H, Ext.refl _, hb, hi, k, ?_⟩
        have : ({ th with pc := PC.iterRefresh it } : Thread).iter it = I := by
          have h2 : ({ th with pc := PC.iterRefresh it } : Thread).iter? it = th.iter? it := rfl
          simp only [Thread.iter, h2, hI]; rfl
        rw [this]; exact hk
      · exact ⟨H, Ext.refl _, hb, hi, by rw [hidle]; trivial⟩
    · exact ⟨H, Ext.refl _, hb, hi, by rw [hidle]; trivial⟩

end NitroVerif.SkipConc
