import NitroVerif.Spec.OrdSet
/-!
  Facts about the ordered-set specification (`Spec/OrdSet.lean`).
-/
namespace NitroVerif.OrdSet

theorem member_iff (x : Int) (l : List Int) : member x l = true ↔ x ∈ l := by
  simp [member]

theorem member_eq_decide (x : Int) (l : List Int) : member x l = decide (x ∈ l) := by
  by_cases h : x ∈ l
  · rw [decide_eq_true h]; exact (member_iff x l).mpr h
  · rw [decide_eq_false h]
    cases hm : member x l with
    | false => rfl
    | true => exact absurd ((member_iff x l).mp hm) h

/-- inserting between a lower and an upper part -/
theorem insert_split (k : Int) : ∀ (as bs : List Int), (∀ a ∈ as, a < k) → (∀ b ∈ bs, k < b) →
    insert k (as ++ bs) = as ++ k :: bs := by
  intro as
  induction as with
  | nil =>
    intro bs _ hb
    cases bs with
    | nil => rfl
    | cons b r =>
      have := hb b (by simp)
      simp [insert, this]
  | cons a r ih =>
    intro bs ha hb
    have h1 := ha a (by simp)
    have h2 : ¬ k < a := by omega
    have h3 : ¬ k = a := by omega
    simp only [List.cons_append, insert, h2, h3, if_false]
    rw [ih bs (fun x hx => ha x (List.mem_cons_of_mem _ hx)) hb]

/-- deleting the middle element -/
theorem delete_split (k : Int) (as bs : List Int) (ha : ∀ a ∈ as, a < k) (hb : ∀ b ∈ bs, k < b) :
    delete k (as ++ k :: bs) = as ++ bs := by
  unfold delete
  rw [List.filter_append, List.filter_cons]
  have e1 : as.filter (fun x => decide (x ≠ k)) = as := by
    rw [List.filter_eq_self]; intro a h; have := ha a h; simp; omega
  have e2 : bs.filter (fun x => decide (x ≠ k)) = bs := by
    rw [List.filter_eq_self]; intro b h; have := hb b h; simp; omega
  rw [e1, e2]; simp

theorem insert_asc {k : Int} : ∀ {l : List Int}, Asc l → Asc (insert k l) := by
  intro l
  induction l with
  | nil => intro _; simp [insert, Asc]
  | cons y r ih =>
    intro h
    unfold Asc at h ih ⊢
    have h' := List.pairwise_cons.mp h
    unfold insert
    by_cases h1 : k < y
    · simp only [h1, if_true]
      rw [List.pairwise_cons]
      refine ⟨?_, h⟩
      intro b hb
      rcases List.mem_cons.mp hb with rfl | hb'
      · exact h1
      · have := h'.1 b hb'; omega
    · by_cases h2 : k = y
      · subst h2
        rw [if_neg (Int.lt_irrefl k), if_pos rfl]; exact h
      · simp only [h1, h2, if_false]
        rw [List.pairwise_cons]
        refine ⟨?_, ih h'.2⟩
        intro b hb
        have hmem : b = k ∨ b ∈ r := by
          clear ih h h' 
          induction r with
          | nil => simp [insert] at hb; exact Or.inl hb
          | cons z t iht =>
            unfold insert at hb
            by_cases g1 : k < z
            · simp only [g1, if_true] at hb
              rcases List.mem_cons.mp hb with e | e
              · exact Or.inl e
              · exact Or.inr e
            · by_cases g2 : k = z
              · subst g2
                rw [if_neg (Int.lt_irrefl k), if_pos rfl] at hb; exact Or.inr hb
              · simp only [g1, g2, if_false] at hb
                rcases List.mem_cons.mp hb with e | e
                · exact Or.inr (by rw [e]; simp)
                · rcases iht e with e' | e'
                  · exact Or.inl e'
                  · exact Or.inr (List.mem_cons_of_mem _ e')
        rcases hmem with rfl | hb'
        · omega
        · exact h'.1 b hb'

theorem delete_asc {k : Int} {l : List Int} (h : Asc l) : Asc (delete k l) :=
  List.Pairwise.filter _ h

end NitroVerif.OrdSet
