import NitroVerif.Lemmas.BarrierStep
/-!
  L2 (responsibility), for the fixed protocol: whenever the head of the free queue is the next
  session in order, some thread is still going to look at the head (it is at REL_TRYLOCK, CL_READ,
  CL_PROC, REL_UNLOCK or REL_RECHECK).  Holds with the `stale` action enabled.
  The original protocol (`fixed = false`) breaks it at REL_UNLOCK.
-/
namespace NitroVerif.Barrier
set_option linter.unusedSimpArgs false
set_option linter.unusedVariables false

theorem pcFlag_le_pcResp (u : Th) : onPc pcFlag u ≤ onPc pcResp u := by
  unfold onPc; cases u.pc <;> simp [barsimp]

/-- a step that leaves the queue and `freeSeqno` alone and does not leave the responsible set -/
theorem resp_mono {st st1 : St} {i : Nat} {t t' : Th} (hq : st1.freeq = st.freeq)
    (hf : st1.freeSeqno = st.freeSeqno) (h1 : st1.ths = st.ths) (ht : st.ths[i]? = some t)
    (hm : pcResp t.pc ≤ pcResp t'.pc) (hr : Resp st) : Resp (setT st1 i t') := by
  intro s hh hs
  simp [hq, hf] at hh hs
  have := hr s hh hs
  have key := cnt_step' st st1 i t t' h1 ht (onPc pcResp)
  have := cnt_ge_mem (onPc pcResp) st i t ht
  simp [onPc] at *
  omega

/-- a step after which the stepping thread itself is in the responsible set -/
theorem resp_self {st st1 : St} {i : Nat} {t t' : Th}
    (h1 : st1.ths = st.ths) (ht : st.ths[i]? = some t)
    (hm : 1 ≤ pcResp t'.pc) : Resp (setT st1 i t') := by
  intro s _ _
  have key := cnt_step' st st1 i t t' h1 ht (onPc pcResp)
  have := cnt_ge_mem (onPc pcResp) st i t ht
  simp [onPc] at *
  omega

theorem hasReady_false {st : St} (h : Inv st) (hr : ¬ hasReady st = true) {s : Nat}
    (hh : st.freeq.head? = some s) (hs : s = st.freeSeqno) : False := by
  obtain ⟨r, hq⟩ := head_mem hh
  unfold hasReady at hr
  rw [hq] at hr
  simp only [readyHead_iff] at hr
  have := (closed_facts h s (queued_closed h s (by simp [hq]))).2.2.1
  omega

theorem execStep_resp {st st1 : St} {i : Nat} {t t' : Th} (h : Inv st) (hr : Resp st)
    (ht : st.ths[i]? = some t) (he : execStep true st t = some (st1, t')) : Resp (setT st1 i t') := by
  unfold execStep at he
  split at he
  · simp at he
  · rename_i hpc
    simp at he; obtain ⟨rfl, rfl⟩ := he
    exact resp_mono rfl rfl rfl ht (by simp [barsimp, hpc]) hr
  · rename_i s hpc
    simp only [] at he
    split at he
    · simp at he
    · split at he
      · simp at he; obtain ⟨rfl, rfl⟩ := he
        exact resp_mono (by simp) (by simp) rfl ht (by simp [barsimp, hpc]) hr
      · simp at he; obtain ⟨rfl, rfl⟩ := he
        exact resp_mono (by simp) (by simp) rfl ht (by simp [barsimp, hpc]) hr
  · rename_i s k hpc
    simp only [] at he
    split at he
    · simp at he; obtain ⟨rfl, rfl⟩ := he
      exact resp_mono (by simp) (by simp) rfl ht (by simp [barsimp, hpc]) hr
    · rename_i hv
      split at he
      · rename_i hp
        exact (leaf_relDec_nopanic h ht hpc hv hp).elim
      · simp at he; obtain ⟨rfl, rfl⟩ := he
        exact resp_mono (by simp) (by simp) rfl ht (by simp [barsimp, hpc]) hr
  · rename_i s k hpc
    simp only [] at he
    split at he
    · simp at he; obtain ⟨rfl, rfl⟩ := he
      exact resp_mono (by simp) (by simp) rfl ht (by simp [barsimp, hpc]) hr
    · simp at he; obtain ⟨rfl, rfl⟩ := he
      exact resp_mono (by simp) (by simp) rfl ht (by simp [barsimp, hpc]) hr
  · rename_i s k hpc
    split at he
    · simp at he; obtain ⟨rfl, rfl⟩ := he
      exact resp_self rfl ht (by simp [barsimp])
    · simp at he; obtain ⟨rfl, rfl⟩ := he
      exact resp_mono rfl rfl rfl ht (by simp [barsimp, hpc]) hr
  · rename_i k hpc
    split at he
    · rename_i hf
      simp at he; obtain ⟨rfl, rfl⟩ := he
      -- the try-lock failed: the flag holder is responsible
      intro s _ _
      have key := cnt_step' st st i t { t with pc := afterCont k } rfl ht (onPc pcResp)
      have hex := cnt_le_except _ _ st i t pcFlag_le_pcResp ht
      have hfl := h.flag
      simp [hf] at hfl
      simp [barsimp, hpc] at key hex ⊢
      omega
    · simp at he; obtain ⟨rfl, rfl⟩ := he
      exact resp_self rfl ht (by simp [barsimp])
  · rename_i b k hpc
    split at he
    · simp at he; obtain ⟨rfl, rfl⟩ := he
      exact resp_self rfl ht (by simp [barsimp])
    · simp at he; obtain ⟨rfl, rfl⟩ := he
      exact resp_self rfl ht (by simp [barsimp])
  · rename_i s k hpc
    simp at he; obtain ⟨rfl, rfl⟩ := he
    exact resp_self rfl ht (by simp [barsimp])
  · rename_i k hpc
    simp at he; obtain ⟨rfl, rfl⟩ := he
    exact resp_self rfl ht (by simp [barsimp])
  · rename_i k hpc
    split at he
    · simp at he; obtain ⟨rfl, rfl⟩ := he
      exact resp_self rfl ht (by simp [barsimp])
    · rename_i hnr
      simp at he; obtain ⟨rfl, rfl⟩ := he
      -- the re-check saw a head that is not ready: nothing to be responsible for
      intro s hh hs
      exact (hasReady_false h hnr (by simpa using hh) (by simpa using hs)).elim
  · rename_i obj hpc
    split at he
    · simp at he
    · simp at he; obtain ⟨rfl, rfl⟩ := he
      exact resp_mono rfl rfl rfl ht (by simp [barsimp, hpc]) hr
  · rename_i obj hpc
    simp at he; obtain ⟨rfl, rfl⟩ := he
    exact resp_mono rfl rfl rfl ht (by simp [barsimp, hpc]) hr
  · rename_i s obj hpc
    simp at he; obtain ⟨rfl, rfl⟩ := he
    exact resp_mono (by simp) (by simp) rfl ht (by simp [barsimp, hpc]) hr
  · rename_i s hpc
    simp at he; obtain ⟨rfl, rfl⟩ := he
    exact resp_mono (by simp) (by simp) rfl ht (by simp [barsimp, hpc]) hr
  · rename_i hpc
    simp at he; obtain ⟨rfl, rfl⟩ := he
    exact resp_mono rfl rfl rfl ht (by simp [barsimp, hpc]) hr

theorem exec_resp {st st1 : St} {i : Nat} {t t' : Th} {a : Act} (h : Inv st) (hr : Resp st)
    (ht : st.ths[i]? = some t) (he : exec true st t a = some (st1, t')) : Resp (setT st1 i t') := by
  cases a with
  | step => exact execStep_resp h hr ht he
  | start op =>
    simp only [exec] at he
    unfold execStart at he
    split at he
    · rename_i hpc
      split at he
      · simp at he; obtain ⟨rfl, rfl⟩ := he
        exact resp_mono rfl rfl rfl ht (by simp [barsimp, hpc]) hr
      · split at he
        · simp at he; obtain ⟨rfl, rfl⟩ := he
          exact resp_mono rfl rfl rfl ht (by simp [barsimp, hpc]) hr
        · simp at he
      · simp at he; obtain ⟨rfl, rfl⟩ := he
        exact resp_mono rfl rfl rfl ht (by simp [barsimp, hpc]) hr
    · simp at he
  | stale =>
    simp only [exec] at he
    unfold execStale at he
    split at he
    · simp at he; obtain ⟨rfl, rfl⟩ := he
      exact resp_self rfl ht (by simp [barsimp])
    · simp at he

theorem step_resp {st st' : St} {i : Nat} {a : Act} (h : Inv st) (hr : Resp st)
    (hs : step true st i a = some st') : Resp st' := by
  unfold step at hs
  split at hs
  · simp at hs
  · rename_i t ht
    split at hs
    · simp at hs
    · rename_i st1 t' he
      simp at hs; subst hs
      exact exec_resp h hr ht he

theorem init_resp (n : Nat) : Resp (init n) := by
  intro s hh; simp [init] at hh

theorem run_resp {sched : List (Nat × Act)} {st st' : St} (h : Inv st) (hr : Resp st)
    (hrun : run true st sched = some st') : Resp st' := by
  induction sched generalizing st with
  | nil => simp [run] at hrun; subst hrun; exact hr
  | cons x r ih =>
    obtain ⟨i, a⟩ := x
    simp only [run] at hrun
    split at hrun
    · simp at hrun
    · rename_i st1 hs
      exact ih (step_inv h hs) (step_resp h hr hs) hrun

theorem reachable_resp {n : Nat} {st : St} (hr : Reachable true n st) : Resp st := by
  obtain ⟨sched, hs⟩ := hr
  exact run_resp (init_inv n) (init_resp n) hs

end NitroVerif.Barrier
