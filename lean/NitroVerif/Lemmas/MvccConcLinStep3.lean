/-
  One step of the machine against the specification (part 3): `start t del k` and the PUT_INSERT step.
-/
import NitroVerif.Lemmas.MvccConcLinStep2

namespace NitroVerif.MvccConc
open NitroVerif
open NitroVerif.SetSpec (Op Out)
open NitroVerif.Mvcc (Ver Sorted Chains isAlive)

theorem phaseOf_cons (t : Nat) (p : Phase) (e : Ev) (l : List Ev) :
    phaseOf t p (e :: l) = phaseOf t (phaseStep t p e) l := rfl

/-- `start t del k` -/
theorem stepOK_del {σ : State} {sp : SetSpec.State} (hi : Inv σ) (hd : σ.down = false) (habs : Abs σ sp) (t k : Nat) :
    StepOK σ sp (.del t k) := by
  by_cases hg : (isWriter σ t && isIdle σ t) = true
  · have hacc : accepted σ t = true := by rw [accepted_eq hd]; exact hg
    simp only [Bool.and_eq_true] at hg
    have hw := isWriter_spec hg.1
    have hidle := isIdle_spec hg.2
    have hst : step σ (.del t k) = startDel σ t k := by
      rw [step_eq_of_not_down hd]; simp only [hg.1, hg.2, Bool.and_self, if_true]
    cases hl : lookupN σ.store (probe σ k 0) with
    | none =>
      have hresp : (startDel σ t k).2 = .ret (.bool false) := by unfold startDel; simp only [hl]
      have hs1 : (step σ (.del t k)).1 = σ := by rw [hst]; exact startDel_none_state hi hidle hl
      have hev : events σ (.del t k) =
          [.call t (.del t k), .lin t (.del t k) (.bool false), .ret t (.bool false)] := by
        simp only [events, calls, lins, rets, hacc, if_true, hst, hresp, retOut, Option.map_some, hl,
          Option.isNone_none, Bool.and_self, Option.toList_some, List.cons_append, List.nil_append]
      refine ⟨⟨sp, ?_, by rw [hs1]; exact habs⟩, ?_⟩
      · rw [hev]
        simp only [replay, specStep, linOp, spec_del_none hi habs hw hl, and_self, if_true]
      · intro t' p hp
        rw [hev, hs1]
        by_cases he : t' = t
        · subst he
          have := phase_of_idle hidle hp
          subst this
          simp [phaseOf, phaseStep]; exact hp
        · rw [phaseOf_others (by
            intro e hm; simp at hm
            rcases hm with rfl | rfl | rfl <;> simp [Ev.thread] <;> exact fun h => he h.symm)]
          exact hp
    | some x =>
      have ⟨hxm, hxk, hxd⟩ := lookupN_spec hi.store.sorted hi.store.chains hl
      have hxid : x.id ∈ storeIds σ.store := List.mem_map.mpr ⟨x, hxm, rfl⟩
      -- the successor state
      have hshape : ∃ pc', (pc' = Pc.delPhys x.id (curTok σ) k ∨ pc' = Pc.delCas x.id (curTok σ) k) ∧
          (startDel σ t k).1 = setPc (acquire σ (.thr t)) t pc' ∧ retOut (startDel σ t k).2 = none := by
        unfold startDel
        simp only [hl]
        split
        · exact ⟨_, Or.inl rfl, rfl, rfl⟩
        · exact ⟨_, Or.inr rfl, rfl, rfl⟩
      obtain ⟨pc', hpc', hstate, hret⟩ := hshape
      have hev : events σ (.del t k) = [.call t (.del t k)] := by
        simp only [events, calls, lins, rets, hacc, if_true, hst, hret, hl, Option.isNone_some, Bool.and_false,
          Bool.false_eq_true, if_false, Option.map_none, Option.toList_none, List.append_nil]
      refine ⟨⟨sp, by rw [hev]; rfl, ?_⟩, ?_⟩
      · rw [hst, hstate]; exact ⟨habs.nw, habs.alive, habs.epoch⟩
      · intro t' p hp
        rw [hev, hst, hstate]
        by_cases he : t' = t
        · subst he
          have := phase_of_idle hidle hp
          subst this
          simp only [phaseOf, List.foldl_cons, List.foldl_nil, phaseStep, if_true]
          have hget : (setPc (acquire σ (.thr t')) t' pc').threads[t']? = some pc' := get_set_self hidle
          rcases hpc' with rfl | rfl
          · exact Or.inr (Or.inl ⟨x.id, curTok σ, k, hget, rfl, hxid⟩)
          · exact Or.inr (Or.inr ⟨x.id, curTok σ, k, hget, rfl, x, hxm, rfl, hxd⟩)
        · rw [phaseOf_others (by intro e hm; simp at hm; subst hm; simp [Ev.thread]; exact fun h => he h.symm)]
          exact hp.store_change (get_set_ne _ (fun h => he h.symm)) (fun _ _ _ _ => Iff.rfl)
            (fun _ _ _ _ => Iff.rfl)
  · have hacc : accepted σ t = false := by rw [accepted_eq hd]; simpa using hg
    have hev : events σ (.del t k) = [] := by simp [events, calls, lins, rets, hacc]
    exact stepOK_same hev (by rw [step_eq_of_not_down hd]; simp only [hg]; rfl) habs

/-- the phase of a thread parked at PUT_INSERT -/
theorem phase_of_put {σ : State} {t n k v b : Nat} {p : Phase} (hg : σ.threads[t]? = some (.putInsert n k v b))
    (hp : PhaseOK σ t p) : p = .called (.put t k v) := by
  cases p with
  | idle => exact absurd (hp _ hg) (by simp [Pc.isWop])
  | called op =>
    rcases hp with ⟨_, _, _, _, hg', ho⟩ | ⟨_, _, _, hg', _⟩ | ⟨_, _, _, hg', _⟩
    · rw [hg] at hg'; injection hg' with h1; injection h1 with _ h3 h4 _; subst h3; subst h4; rw [ho]
    · rw [hg] at hg'; cases hg'
    · rw [hg] at hg'; cases hg'
  | decided op res =>
    rcases hp with ⟨_, _, _, hg', _⟩ | ⟨_, _, _, hg', _⟩ | ⟨_, _, _, hg', _⟩ <;> (rw [hg] at hg'; cases hg')
  | broken => exact hp.elim

theorem aliveIn_insertN {s : List Node} {x : Node} {m : Nat} (hne : m ≠ x.id) :
    AliveIn (insertN s x) m ↔ AliveIn s m := by
  constructor
  · rintro ⟨y, hy, h1, h2⟩
    rcases mem_insertN.mp hy with rfl | hy
    · exact absurd h1.symm hne
    · exact ⟨y, hy, h1, h2⟩
  · rintro ⟨y, hy, h1, h2⟩; exact ⟨y, mem_insertN.mpr (Or.inr hy), h1, h2⟩

theorem storeIds_insertN {s : List Node} {x : Node} {m : Nat} (hne : m ≠ x.id) :
    m ∈ storeIds (insertN s x) ↔ m ∈ storeIds s := by
  constructor
  · intro hm
    obtain ⟨y, hy, he⟩ := List.mem_map.mp hm
    rcases mem_insertN.mp hy with rfl | hy
    · exact absurd he.symm hne
    · exact List.mem_map.mpr ⟨y, hy, he⟩
  · intro hm
    obtain ⟨y, hy, he⟩ := List.mem_map.mp hm
    exact List.mem_map.mpr ⟨y, mem_insertN.mpr (Or.inr hy), he⟩

/-- the PUT_INSERT step -/
theorem stepOK_stepPut {σ : State} {sp : SetSpec.State} (hi : Inv σ) (hd : σ.down = false) (habs : Abs σ sp)
    {t n k v b : Nat} (hg : σ.threads[t]? = some (.putInsert n k v b)) : StepOK σ sp (.step t) := by
  have ⟨hw, hb⟩ := hi.pc.put t n k v b hg
  subst hb
  have hlive := live_of_put hi hg
  have hres_n : reserved σ.threads n := ⟨k, v, σ.currSn, List.mem_of_getElem? hg⟩
  have hst : step σ (.step t) = stepPut σ t n k v σ.currSn := by
    rw [step_eq_of_not_down hd]; simp only [stepThread, hg]
  have hwop : (Pc.putInsert n k v σ.currSn).isWop = true := rfl
  -- shape of the successor
  have hshape : (stepPut σ t n k v σ.currSn).2 = .ret (.bool (lookupN σ.store ⟨k, v, σ.currSn, 0⟩).isNone) ∧
      (stepPut σ t n k v σ.currSn).1.threads = σ.threads.set t .idle ∧
      (stepPut σ t n k v σ.currSn).1.currSn = σ.currSn ∧
      (stepPut σ t n k v σ.currSn).1.writers.length = σ.writers.length ∧
      (stepPut σ t n k v σ.currSn).1.store =
        (if (lookupN σ.store ⟨k, v, σ.currSn, 0⟩).isNone then insertN σ.store ⟨⟨k, v, σ.currSn, 0⟩, n⟩ else σ.store) := by
    unfold stepPut
    simp only [hlive, Bool.not_true, Bool.false_eq_true, if_false, alloc_store]
    cases lookupN σ.store ⟨k, v, σ.currSn, 0⟩ with
    | none => simp [updWriter_length]
    | some y => simp
  obtain ⟨hresp, hthr, hcur, hwl, hstore⟩ := hshape
  have hev : events σ (.step t) =
      [.lin t (.put t k v) (.bool (lookupN σ.store ⟨k, v, σ.currSn, 0⟩).isNone),
       .ret t (.bool (lookupN σ.store ⟨k, v, σ.currSn, 0⟩).isNone)] := by
    simp only [events, calls, lins, rets, hd, hg, hwop, hst, hresp, retOut, Bool.false_eq_true, if_false,
      Bool.not_false, Bool.and_self, if_true, Option.map_some, Option.toList_some, List.nil_append,
      List.cons_append]
  have ⟨hs1, hs2, hs3, hs4⟩ := spec_put hi habs hw k v
  refine ⟨⟨(SetSpec.step sp (.put t k v)).1, ?_, ?_⟩, ?_⟩
  · rw [hev]
    simp only [replay, specStep, linOp, hs1, and_self, if_true]
  · rw [hst]
    refine ⟨by rw [hs2, hwl]; exact habs.nw, ?_, by rw [hs3, hcur]; exact habs.epoch⟩
    rw [hs4, hstore]
    cases hl : lookupN σ.store ⟨k, v, σ.currSn, 0⟩ with
    | some y => simp only [Option.isNone_some, Bool.false_eq_true, if_false]; exact habs.alive
    | none =>
      simp only [Option.isNone_none, if_true]
      rw [vers_insertN, habs.alive]
      have hlook : Mvcc.lookup (vers σ.store) ⟨k, v, σ.currSn, 0⟩ = none := by rw [← lookupN_map, hl]; rfl
      rw [Mvcc.lookup_eq_aliveOf hi.store.sorted hi.store.chains] at hlook
      exact (Mvcc.absAlive_insertAt hi.store.sorted k v (Mvcc.aliveOf_none hlook)).symm
  · intro t' p hp
    rw [hev, hst]
    by_cases he : t' = t
    · subst he
      have := phase_of_put hg hp
      subst this
      simp only [phaseOf, List.foldl_cons, List.foldl_nil, phaseStep, if_true]
      intro pc hgpc
      rw [hthr, get_set_self hg] at hgpc
      injection hgpc with h1; subst h1; rfl
    · rw [phaseOf_others (by
        intro e hm; simp at hm
        rcases hm with rfl | rfl <;> simp [Ev.thread] <;> exact fun h => he h.symm)]
      refine hp.store_change (by rw [hthr, get_set_ne _ (fun h => he h.symm)]) ?_ ?_
      · intro m tok k' hgm
        have hnr := (hi.pc.phys t' m tok k' hgm).2.2.1
        have hne : m ≠ n := fun h => hnr (h ▸ hres_n)
        rw [hstore]; split
        · exact storeIds_insertN (x := ⟨⟨k, v, σ.currSn, 0⟩, n⟩) hne
        · exact Iff.rfl
      · intro m tok k' hgm
        have hnr := (hi.pc.cas t' m tok k' hgm).2.2.1
        have hne : m ≠ n := fun h => hnr (h ▸ hres_n)
        rw [hstore]; split
        · exact aliveIn_insertN (x := ⟨⟨k, v, σ.currSn, 0⟩, n⟩) hne
        · exact Iff.rfl

end NitroVerif.MvccConc
