/-
  Refinement, snapshot operations: NewSnapshot, Open, Close, Count, ItemsCount, full scan.
-/
import NitroVerif.Lemmas.MvccSimWrite

namespace NitroVerif.Mvcc
open NitroVerif SetSpec

theorem absAlive_length (s : List Ver) : (absAlive s).length = (s.filter isAlive).length := by
  simp [absAlive]

theorem sim_snap {σ : State} (h : Inv σ) : Refines σ .snap := by
  unfold Refines
  simp only [SetSpec.step, step, newSnapshot]
  have hcnt : σ.itemsCount + (σ.writers.map (·.count)).sum = ((absAlive σ.store).length : Nat) := by
    rw [absAlive_length]; exact h.count
  refine Prod.ext (state_ext ?_ rfl rfl ?_ ?_ rfl rfl) ?_
  · simp [abs]
  · simp only [abs, List.length_map]; exact hcnt.symm
  · simp only [abs, List.map_append, List.map_cons, List.map_nil, absSnap]
    rw [absAlive_items h.chains]
  · simp only [abs, List.length_map]
    rw [hcnt]

theorem rc_abs (x : Snap) : (absSnap x).rc = x.rc := rfl

theorem sim_open {σ : State} (_h : Inv σ) (s : Nat) : Refines σ (.open s) := by
  unfold Refines
  simp only [SetSpec.step, step]
  have hf : SetSpec.findSnap s (abs σ).snaps = (findSnap s σ.snaps).map absSnap := findSnap_abs s σ.snaps
  rw [hf]
  cases hx : findSnap s σ.snaps with
  | none => rfl
  | some x =>
    simp only [Option.map, rc_abs]
    by_cases hrc : x.rc = 0
    · have ho : Gen.openRefuse 0 = true := (openRefuse_iff 0).mpr rfl
      simp [hrc, ho]
    · have : Gen.openRefuse x.rc = false := by
        cases ho : Gen.openRefuse x.rc
        · rfl
        · exact absurd ((openRefuse_iff _).mp ho) hrc
      simp only [hrc, this, if_false, Bool.false_eq_true]
      refine Prod.ext (state_ext rfl rfl rfl rfl ?_ rfl rfl) rfl
      simp only [abs, openSnap]
      exact (updSnap_abs s _ _ (fun _ => rfl) σ.snaps).symm

/-- the state reached by a retiring `Close`, before `GC()` -/
theorem pre_retire {σ : State} (h : Inv σ) {s : Nat} {x : Snap} (hx : findSnap s σ.snaps = some x)
    (iters' : List (Nat × Iter))
    (hit : ∀ p ∈ iters', ∃ s ∈ σ.snaps, s.sn = p.2.sn ∧ ∀ v, p.2.cur = some v → v.norm ∈ s.content)
    (hrefs : itersOn s iters' ≤ x.rc - 1)
    (hother : ∀ n, n ≠ s → itersOn n iters' ≤ itersOn n σ.iters) (hz : x.rc - 1 = 0) :
    PreGC { σ with snaps := updSnap s (fun y => { y with rc := y.rc - 1, st := .retired }) σ.snaps,
                   iters := iters' } := by
  have ⟨hxm, _⟩ := findSnap_some hx
  have hx0 := h.snaps.rc x hxm
  have hpos : 0 < x.rc := by omega
  have hlive : x.st = .live := hx0.2.mpr hpos
  exact pre_updSnap h hx (fun y => { y with rc := y.rc - 1, st := .retired }) iters' rfl rfl rfl rfl
    (by simp; omega) (by simp; omega) (by simp [hlive]) (by simp; omega) hit
    (by simpa using hrefs) hother

theorem abs_closeSnap {σ : State} (h : Inv σ) {s : Nat} {x : Snap} (hx : findSnap s σ.snaps = some x)
    (iters' : List (Nat × Iter))
    (hit : ∀ p ∈ iters', ∃ s ∈ σ.snaps, s.sn = p.2.sn ∧ ∀ v, p.2.cur = some v → v.norm ∈ s.content)
    (hrefs : itersOn s iters' ≤ x.rc - 1)
    (hother : ∀ n, n ≠ s → itersOn n iters' ≤ itersOn n σ.iters) :
    abs (closeSnap { σ with iters := iters' } s x.rc) =
      { abs σ with snaps := SetSpec.updSnap s (fun y => { y with rc := y.rc - 1 }) (abs σ).snaps,
                   iters := iters'.map absIter } := by
  unfold closeSnap
  split
  · rename_i hret
    have hz : x.rc - 1 = 0 := (closeRetire_iff _).mp hret
    have hp := pre_retire h hx iters' hit hrefs hother hz
    have ⟨hg1, hg2⟩ := gc_abs hp
    apply state_ext
    · rfl
    · simp only [abs, absAlive]; rw [hg1]
    · rfl
    · rfl
    · simp only [abs]; rw [hg2]
      exact updSnap_abs s _ _ (fun _ => rfl) σ.snaps
    · rfl
    · simp only [abs]
      apply List.map_congr_left
      intro p _
      unfold absHandle
      rw [hasAlive_congr hg1]
  · apply state_ext <;> try rfl
    simp only [abs]
    exact updSnap_abs s _ _ (fun _ => rfl) σ.snaps

theorem sim_close {σ : State} (h : Inv σ) (s : Nat) : Refines σ (.close s) := by
  unfold Refines
  simp only [SetSpec.step, step]
  have hf : SetSpec.findSnap s (abs σ).snaps = (findSnap s σ.snaps).map absSnap := findSnap_abs s σ.snaps
  rw [hf]
  cases hx : findSnap s σ.snaps with
  | none => rfl
  | some x =>
    simp only [Option.map, rc_abs]
    have hio : SetSpec.itersOn s (abs σ).iters = itersOn s σ.iters := itersOn_abs s σ.iters
    rw [hio]
    by_cases hc : x.rc - itersOn s σ.iters > 0
    · simp only [hc, if_true]
      have := abs_closeSnap h hx σ.iters h.iters.snap (by omega) (fun _ _ => Int.le_refl _)
      refine Prod.ext ?_ rfl
      simp only
      rw [this]
      rfl
    · simp only [hc, if_false]

theorem sim_count {σ : State} (h : Inv σ) (s : Nat) : Refines σ (.count s) := by
  unfold Refines
  simp only [SetSpec.step, step]
  have hf : SetSpec.findSnap s (abs σ).snaps = (findSnap s σ.snaps).map absSnap := findSnap_abs s σ.snaps
  rw [hf]
  cases hx : findSnap s σ.snaps with
  | none => rfl
  | some x =>
    have ⟨hxm, _⟩ := findSnap_some hx
    simp only [Option.map, absSnap, List.length_map]
    rw [h.snaps.cnt x hxm]

theorem sim_items {σ : State} : Refines σ .items := rfl

/-- what an open snapshot shows, as items -/
theorem content_items {σ : State} (h : Inv σ) {s : Nat} {x : Snap} (hx : findSnap s σ.snaps = some x)
    (hrc : x.rc ≠ 0) : x.content.map Ver.item = (vis σ.store s).map Ver.item := by
  have ⟨hxm, hxs⟩ := findSnap_some hx
  have := (h.snaps.rc x hxm).1
  rw [← h.view x hxm (by omega), hxs, view_item]

theorem sim_scan {σ : State} (h : Inv σ) (s : Nat) (rate : Int) : Refines σ (.scan s rate) := by
  unfold Refines
  simp only [SetSpec.step, step]
  have hf : SetSpec.findSnap s (abs σ).snaps = (findSnap s σ.snaps).map absSnap := findSnap_abs s σ.snaps
  rw [hf]
  cases hx : findSnap s σ.snaps with
  | none => rfl
  | some x =>
    simp only [Option.map, rc_abs]
    by_cases hrc : x.rc = 0
    · have ho : Gen.openRefuse 0 = true := (openRefuse_iff 0).mpr rfl
      simp [hrc, ho]
    · have : Gen.openRefuse x.rc = false := by
        cases ho : Gen.openRefuse x.rc
        · rfl
        · exact absurd ((openRefuse_iff _).mp ho) hrc
      simp only [hrc, this, if_false, Bool.false_eq_true]
      rw [withRef_eq σ s hrc, scanAll_eq h.sorted h.chains]
      simp only [absSnap]
      rw [content_items h hx hrc]

end NitroVerif.Mvcc
