import NitroVerif.Lemmas.BarrierTac
import NitroVerif.Lemmas.BarrierStepC
/-!
  Preservation of `Inv` — part D: `FlushSession` (FL_LOCK, FL_SWAP, FL_TAG, FL_ADD, FL_UNLOCK).
-/
namespace NitroVerif.Barrier
set_option linter.unusedSimpArgs false
set_option linter.unusedVariables false

theorem pcPend_le_pcMutex (s : Nat) (u : Th) : onPc (pcPend s) u ≤ onPc pcMutex u := by
  unfold onPc; cases u.pc <;> simp [barsimp] <;> split <;> omega

theorem pcTag_le_pcMutex (u : Th) : onPc pcTag u ≤ onPc pcMutex u := by
  unfold onPc; cases u.pc <;> simp [barsimp]

theorem unitsT_le_refT (s : Nat) (u : Th) : unitsT s u ≤ refT s u := by
  unfold unitsT refT; cases u.pc <;> simp [barsimp]

theorem realT_le_refT (s : Nat) (u : Th) : realT s u ≤ refT s u := by
  unfold realT refT; cases u.pc <;> simp [barsimp]
  rename_i a k; have := contReal_le k; split <;> omega

theorem pcPend_le_refT (s : Nat) (u : Th) : onPc (pcPend s) u ≤ refT s u := by
  unfold onPc refT; cases u.pc <;> simp [barsimp] <;> omega

theorem pcClosed_le_refT (s : Nat) (u : Th) : onPc (pcClosed s) u ≤ refT s u := by
  unfold onPc refT; cases u.pc <;> simp [barsimp] <;> omega

theorem pcInsert_le_refT (s : Nat) (u : Th) : onPc (pcInsert s) u ≤ refT s u := by
  unfold onPc refT; cases u.pc <;> simp [barsimp] <;> omega

theorem pcProc_le_refT (s : Nat) (u : Th) : onPc (pcProc s) u ≤ refT s u := by
  unfold onPc refT; cases u.pc <;> simp [barsimp] <;> omega

/-- the destructor never runs ahead of the flushes -/
theorem freeSeqno_le_active {st : St} (h : Inv st) : st.freeSeqno ≤ st.activeSeqno := by
  false_or_by_contra; rename_i hc
  have hp := h.place (st.freeSeqno - 1)
  have hcl : 1 ≤ (getS st (st.freeSeqno - 1)).closed := by omega
  have := (closed_facts h _ hcl).2.1
  omega

theorem leaf_flLock {st : St} {i : Nat} {t : Th} {obj : Nat} (h : Inv st)
    (ht : st.ths[i]? = some t) (hpc : t.pc = .flLock obj) (hm : ¬ st.mutex = true) :
    Inv (setT { st with mutex := true } i { t with pc := .flSwap obj }) := by
  have key := cnt_step' st { st with mutex := true } i t { t with pc := .flSwap obj } rfl ht
  have gS : ∀ s, getS { st with mutex := true } s = getS st s := fun _ => rfl
  have mem := fun f => cnt_ge_mem f st i t ht
  have m1 := mem (onPc pcLock)
  simp [barsimp, hpc] at m1
  have hmu := h.mutex
  simp at hm
  simp [hm] at hmu
  bar_auto [gS]

theorem leaf_flSwap {st : St} {i : Nat} {t : Th} {obj : Nat} (h : Inv st)
    (ht : st.ths[i]? = some t) (hpc : t.pc = .flSwap obj) :
    Inv (setT { st with sess := st.sess ++ [{}], cur := st.sess.length } i
      { t with pc := .flTag st.cur obj }) := by
  have key := cnt_step' st { st with sess := st.sess ++ [{}], cur := st.sess.length } i t
    { t with pc := .flTag st.cur obj } rfl ht
  have gS : ∀ s, getS { st with sess := st.sess ++ [{}], cur := st.sess.length } s = getS st s :=
    fun s => getS_append st _ s rfl
  have hcl := h.curlen
  have hmu := h.mutex; have hmle := b2n_le st.mutex
  have hnew : cnt (refT st.sess.length) st = 0 := h.range _ (Nat.le_refl _)
  have hdef := getS_default st st.sess.length (Nat.le_refl _)
  generalize hs0c : st.cur = s0 at *
  bar_auto_s [gS]
  case range =>
    intro s hs; simp at hs
    have hold := h.range s (by omega)
    have : ¬ s0 = s := by omega
    simp [key, barsimp, hpc, this]; exact hold
  case count =>
    intro s hs; simp at hs
    by_cases hlt : s < st.sess.length
    · have hold := h.count s hlt
      simpa [key, barsimp, hpc, gS] using hold
    · have e : s = st.sess.length := by omega
      subst e
      have := cnt_le_cnt _ _ st (unitsT_le_refT st.sess.length)
      have hu : cnt (unitsT st.sess.length) st = 0 := by omega
      simp [key, barsimp, hpc, gS, hdef, hu]
  case pend =>
    intro s hs; simp at hs
    by_cases hlt : s < st.sess.length
    · have hold := h.pend s hlt
      by_cases e : s0 = s
      · subst e; simp [key, barsimp, hpc, gS, hs0c] at hold ⊢; omega
      · simp [key, barsimp, hpc, gS, hs0c, e] at hold ⊢; omega
    · have e : s = st.sess.length := by omega
      subst e
      have := cnt_le_cnt _ _ st (pcPend_le_refT st.sess.length)
      have hu : cnt (onPc (pcPend st.sess.length)) st = 0 := by omega
      have : ¬ s0 = st.sess.length := by omega
      simp [key, barsimp, hpc, gS, hdef, hu, this]
  case pendcur =>
    intro s
    by_cases e : s0 = s
    · subst e; right; simp; omega
    · left
      have := cnt_le_except _ _ st i t (pcPend_le_pcMutex s) ht
      simp [barsimp, hpc] at this
      simp [key, barsimp, hpc, e]; omega

theorem leaf_flTag {st : St} {i : Nat} {t : Th} {s0 obj : Nat} (h : Inv st)
    (ht : st.ths[i]? = some t) (hpc : t.pc = .flTag s0 obj) :
    Inv (setT (setS (tagGlobals st obj) s0 ((getS st s0).tag obj (st.activeSeqno + 1))) i
      { t with pc := .flAdd s0 }) := by
  have key := cnt_step' st (setS (tagGlobals st obj) s0 ((getS st s0).tag obj (st.activeSeqno + 1))) i t
    { t with pc := .flAdd s0 } rfl ht
  have hs0 : s0 < st.sess.length := ref_lt h ht s0 (by simp [barsimp, hpc])
  have gS : ∀ s, getS (setS (tagGlobals st obj) s0 ((getS st s0).tag obj (st.activeSeqno + 1))) s
      = if s0 = s then (getS st s0).tag obj (st.activeSeqno + 1) else getS st s :=
    fun s => getS_setS (tagGlobals st obj) s0 s _ hs0
  have mem := fun f => cnt_ge_mem f st i t ht
  have m1 := mem (onPc (pcPend s0)); have m2 := mem (onPc pcTag); have m3 := mem (onPc pcMutex)
  simp [barsimp, hpc] at m1 m2 m3
  have hmu := h.mutex; have hmle := b2n_le st.mutex
  have hpc0 := h.pendcur s0
  have htm := cnt_le_cnt _ _ st pcTag_le_pcMutex
  have hact := h.active
  have hs0a : s0 = st.activeSeqno := by omega
  have hfa := freeSeqno_le_active h
  have htl := h.tagged
  bar_auto_s [gS]
  case numbering =>
    intro s hs; simp at hs
    by_cases e : s0 = s
    · subst e
      have hg := gS s0
      simp only [if_true] at hg
      rw [getS_setT, hg]
      have : (st.tagged ++ [obj])[s0]? = some obj := by
        rw [hs0a, ← htl]; simp
      simp [this]; omega
    · have hold := h.numbering s (by omega)
      have : s < st.tagged.length := by omega
      simpa [gS, e, List.getElem?_append_left this] using hold
  case logobj =>
    simp [h.logobj]
    rw [List.take_append_of_le_length (by omega)]

theorem leaf_flAdd {st : St} {i : Nat} {t : Th} {s0 : Nat} (h : Inv st)
    (ht : st.ths[i]? = some t) (hpc : t.pc = .flAdd s0) :
    Inv (setT (setS st s0 (getS st s0).flush) i { t with pc := .relDec s0 .retFlush }) := by
  have key := cnt_step' st (setS st s0 (getS st s0).flush) i t { t with pc := .relDec s0 .retFlush } rfl ht
  have hs0 : s0 < st.sess.length := ref_lt h ht s0 (by simp [barsimp, hpc])
  have gS := fun s => getS_setS st s0 s (getS st s0).flush hs0
  have mem := fun f => cnt_ge_mem f st i t ht
  have m1 := mem (onPc (pcPend s0)); have m3 := mem (onPc pcMutex)
  simp [barsimp, hpc] at m1 m3
  have hmu := h.mutex; have hmle := b2n_le st.mutex
  have hpc0 := h.pendcur s0
  have hpe := h.pend s0 hs0
  have htm := cnt_le_except _ _ st i t pcTag_le_pcMutex ht
  simp [barsimp, hpc] at htm
  have hact := h.active
  have hc0 := h.count s0 hs0
  have hcl := h.closed s0
  have hfv := flushAdd_val
  bar_auto_s [gS, hfv]

theorem leaf_flUnlock {st : St} {i : Nat} {t : Th} (h : Inv st)
    (ht : st.ths[i]? = some t) (hpc : t.pc = .flUnlock) :
    Inv (setT { st with mutex := false, flDone := st.flDone + 1 } i { t with pc := .idle }) := by
  have key := cnt_step' st { st with mutex := false, flDone := st.flDone + 1 } i t { t with pc := .idle } rfl ht
  have gS : ∀ s, getS { st with mutex := false, flDone := st.flDone + 1 } s = getS st s := fun _ => rfl
  have mem := fun f => cnt_ge_mem f st i t ht
  have m1 := mem (onPc pcMutex); have m2 := mem (onPc pcPast)
  simp [barsimp, hpc] at m1 m2
  have hmu := h.mutex; have hmle := b2n_le st.mutex
  bar_auto [gS]

end NitroVerif.Barrier
