/-
  Unlinking a node (skiplist `DeleteNode` by a same-epoch delete or by a collection worker) and
  freeing lists of nodes: effect on the store invariants and on the allocator's books.
-/
import NitroVerif.Lemmas.MvccConcStepC2

namespace NitroVerif.MvccConc
open NitroVerif
open NitroVerif.Mvcc (Ver Sorted Chains isAlive)

/-! ### unlinking -/

theorem length_filter_removeNode (p : Node → Bool) : ∀ (s : List Node) (x : Node), (storeIds s).Nodup → x ∈ s →
    ((removeNode s x.id).filter p).length + (if p x then 1 else 0) = (s.filter p).length
  | [], x, _, hx => by simp at hx
  | y :: ys, x, hn, hx => by
    simp only [storeIds, List.map_cons, List.nodup_cons] at hn
    rcases List.mem_cons.mp hx with rfl | hx'
    · have hrm : removeNode (x :: ys) x.id = ys := by
        have : removeNode ys x.id = ys := removeNode_of_not_mem hn.1
        unfold removeNode at this ⊢
        simp [List.filter_cons, this]
      rw [hrm, List.filter_cons]
      split <;> simp
    · have hne : y.id ≠ x.id := by
        intro he; apply hn.1; rw [he]; exact List.mem_map.mpr ⟨x, hx', rfl⟩
      have hrm : removeNode (y :: ys) x.id = y :: removeNode ys x.id := by
        unfold removeNode; simp [List.filter_cons, hne]
      have ih := length_filter_removeNode p ys x hn.2 hx'
      rw [hrm, List.filter_cons, List.filter_cons]
      split
      · simp only [List.length_cons]; omega
      · exact ih

theorem alive_removeNode {s : List Node} (hn : (storeIds s).Nodup) {n : Nat} {x : Node} (hf : findNode s n = some x) :
    (((vers (removeNode s n)).filter isAlive).length : Nat) + (if x.ver.dead = 0 then 1 else 0) =
      ((vers s).filter isAlive).length := by
  have ⟨hx, hid⟩ := findNode_some hf
  subst hid
  have := length_filter_removeNode (fun y => isAlive y.ver) s x hn hx
  unfold vers
  rw [List.filter_map, List.filter_map, List.length_map, List.length_map]
  have he : (isAlive ∘ fun (y : Node) => y.ver) = fun y => isAlive y.ver := rfl
  rw [he]
  have hd : isAlive x.ver = true ↔ x.ver.dead = 0 := by simp [isAlive]
  by_cases h0 : x.ver.dead = 0
  · simp only [h0, if_true] at this ⊢
    simp only [hd.mpr h0, if_true] at this
    exact this
  · simp only [h0, if_false] at this ⊢
    have : isAlive x.ver = false := by
      cases hb : isAlive x.ver
      · rfl
      · exact absurd (hd.mp hb) h0
    simp_all

theorem storeIds_removeNode_nodup {s : List Node} (hn : (storeIds s).Nodup) (n : Nat) :
    (storeIds (removeNode s n)).Nodup := by
  unfold storeIds removeNode
  exact List.Nodup.sublist ((List.filter_sublist).map _) hn

theorem not_mem_storeIds_removeNode (s : List Node) (n : Nat) : n ∉ storeIds (removeNode s n) := by
  intro h
  obtain ⟨y, hy, he⟩ := List.mem_map.mp h
  exact (mem_removeNode.mp hy).2 he

theorem mem_storeIds_removeNode {s : List Node} {n m : Nat} (h : m ∈ storeIds s) (hne : m ≠ n) :
    m ∈ storeIds (removeNode s n) := by
  obtain ⟨y, hy, he⟩ := List.mem_map.mp h
  exact List.mem_map.mpr ⟨y, mem_removeNode.mpr ⟨hy, by omega⟩, he⟩

theorem storeIds_removeNode_sub {s : List Node} {n m : Nat} (h : m ∈ storeIds (removeNode s n)) : m ∈ storeIds s := by
  obtain ⟨y, hy, he⟩ := List.mem_map.mp h
  exact List.mem_map.mpr ⟨y, (mem_removeNode.mp hy).1, he⟩

/-- the store part of the invariant after unlinking node `n`; the caller accounts for the counters -/
theorem StoreInv.remove {store unl : List Node} {cur : Nat} {items items' : Int} {writers writers' : List Writer}
    {snaps : List Snap} {threads : List Pc} {nextId : Nat}
    (h : StoreInv store unl cur items writers snaps threads nextId) {n : Nat} {x : Node}
    (hf : findNode store n = some x)
    (hcnt : items' + (writers'.map (·.count)).sum = (((vers (removeNode store n)).filter isAlive).length : Nat)) :
    StoreInv (removeNode store n) (unl ++ [x]) cur items' writers' snaps threads nextId := by
  have ⟨hx, hid⟩ := findNode_some hf
  have hv := vers_removeNode h.sorted h.ids hf
  refine ⟨?_, ?_, hcnt, h.cur_pos, storeIds_removeNode_nodup h.ids n, ?_, ?_, h.snaps_inc, h.snaps_lt, h.rc_dead⟩
  · rw [hv]; exact Mvcc.sorted_filter h.sorted _
  · rw [hv]; exact Mvcc.chains_filter h.chains _
  · intro y hy
    rcases List.mem_append.mp hy with hy | hy
    · have := h.unl y hy
      exact ⟨fun hm => this.1 (storeIds_removeNode_sub hm), this.2⟩
    · simp at hy; subst hy
      rw [hid]
      exact ⟨not_mem_storeIds_removeNode store n, by rw [← hid]; exact h.id_lt y hx⟩
  · intro y hy
    exact h.id_lt y (mem_removeNode.mp hy).1

/-! ### freeing a list of nodes -/

def blocksOf (l : List Nat) : List Blk := l.flatMap (fun m => [Blk.item m, Blk.node m])

theorem mem_blocksOf {l : List Nat} {b : Blk} : b ∈ blocksOf l ↔ ∃ m ∈ l, b = .item m ∨ b = .node m := by
  unfold blocksOf; simp [List.mem_flatMap]

theorem free_live {σ : State} {b : Blk} (ha : b ∈ σ.allocd) (hf : b ∉ σ.freed) :
    (free σ b).freed = σ.freed ++ [b] ∧ (free σ b).bad = σ.bad ∧ (free σ b).allocd = σ.allocd := by
  unfold free
  have : isLive σ b = true := by simp [isLive, ha, hf]
  simp [this]

theorem freeNodes_spec : ∀ (l : List Nat) (σ : State), l.Nodup →
    (∀ m ∈ l, Blk.item m ∈ σ.allocd ∧ Blk.node m ∈ σ.allocd ∧ Blk.item m ∉ σ.freed ∧ Blk.node m ∉ σ.freed) →
    (freeNodes σ l).freed = σ.freed ++ blocksOf l ∧ (freeNodes σ l).bad = σ.bad
  | [], σ, _, _ => by simp [freeNodes, blocksOf]
  | m :: r, σ, hn, hl => by
    have ⟨ha1, ha2, hf1, hf2⟩ := hl m (List.mem_cons_self)
    have hn' := List.nodup_cons.mp hn
    obtain ⟨e1, e2, e3⟩ := free_live ha1 hf1
    have hf2' : Blk.node m ∉ (free σ (.item m)).freed := by rw [e1]; simp [hf2]
    obtain ⟨g1, g2, g3⟩ := free_live (σ := free σ (.item m)) (by rw [e3]; exact ha2) hf2'
    unfold freeNodes
    have ih := freeNodes_spec r (free (free σ (.item m)) (.node m)) hn'.2 (by
      intro k hk
      have hkm : k ≠ m := fun he => hn'.1 (he ▸ hk)
      have ⟨b1, b2, b3, b4⟩ := hl k (List.mem_cons_of_mem _ hk)
      rw [g3, e3, g1, e1]
      refine ⟨b1, b2, ?_, ?_⟩
      · simp [b3, hkm]
      · simp [b4, hkm])
    rw [ih.1, ih.2, g1, g2, e1, e2]
    simp [blocksOf]

end NitroVerif.MvccConc
