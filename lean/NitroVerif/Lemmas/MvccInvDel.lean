/-
  `DeleteNode` (both branches), `Delete2` and deletion through a handle preserve the invariant.
-/
import NitroVerif.Lemmas.MvccInvPut

namespace NitroVerif.Mvcc
open NitroVerif SetSpec

/-- a present node splits the sorted store; no other node has its identity -/
theorem id_split : ∀ {s : List Ver}, Sorted s → ∀ {x : Ver}, x ∈ s →
    ∃ l r, s = l ++ x :: r ∧ (∀ v ∈ l, sameId v x = false) ∧ (∀ v ∈ r, sameId v x = false)
  | [], _, _, hx => by simp at hx
  | y :: ys, hs, x, hx => by
    have hy := List.pairwise_cons.mp hs
    by_cases hyx : y = x
    · subst hyx
      refine ⟨[], ys, rfl, by simp, ?_⟩
      intro v hv
      cases h : sameId v y
      · rfl
      · have := (sameId_iff v y).mp h
        have hlt := hy.1 v hv
        unfold vlt at hlt; omega
    · have hx' : x ∈ ys := by
        rcases List.mem_cons.mp hx with h | h
        · exact absurd h.symm hyx
        · exact h
      obtain ⟨l, r, he, hl, hr⟩ := id_split hy.2 hx'
      refine ⟨y :: l, r, by simp [he], ?_, hr⟩
      intro v hv
      rcases List.mem_cons.mp hv with rfl | hv
      · cases h : sameId v x
        · rfl
        · have := (sameId_iff v x).mp h
          exact absurd (sorted_id_unique hs (by simp) hx this.1 this.2) hyx
      · exact hl v hv

theorem removeId_split {l r : List Ver} {x : Ver} (hl : ∀ v ∈ l, sameId v x = false)
    (hr : ∀ v ∈ r, sameId v x = false) : removeId (l ++ x :: r) x = l ++ r := by
  unfold removeId
  have hx : sameId x x = true := (sameId_iff x x).mpr ⟨rfl, rfl⟩
  rw [List.filter_append, List.filter_cons]
  simp only [hx, Bool.not_true, Bool.false_eq_true, if_false]
  rw [List.filter_eq_self.mpr (by intro v hv; simp [hl v hv]),
      List.filter_eq_self.mpr (by intro v hv; simp [hr v hv])]

theorem markDead_split {l r : List Ver} {x : Ver} (sn : Nat) (hl : ∀ v ∈ l, sameId v x = false)
    (hr : ∀ v ∈ r, sameId v x = false) :
    markDead (l ++ x :: r) x sn = l ++ { x with dead := sn } :: r := by
  unfold markDead
  have hx : sameId x x = true := (sameId_iff x x).mpr ⟨rfl, rfl⟩
  rw [List.map_append, List.map_cons]
  simp only [hx, if_true]
  have e1 : l.map (fun v => if sameId v x = true then { v with dead := sn } else v) = l := by
    conv => rhs; rw [← List.map_id l]
    apply List.map_congr_left; intro v hv; simp [hl v hv]
  have e2 : r.map (fun v => if sameId v x = true then { v with dead := sn } else v) = r := by
    conv => rhs; rw [← List.map_id r]
    apply List.map_congr_left; intro v hv; simp [hr v hv]
  rw [e1, e2]

theorem mem_removeId {s : List Ver} {x v : Ver} : v ∈ removeId s x ↔ v ∈ s ∧ sameId v x = false := by
  unfold removeId; simp [List.mem_filter]

/-! ### same-epoch delete: physical removal -/

theorem inv_delete_same {σ : State} (h : Inv σ) {w : Nat} (hw : w < σ.writers.length) {x : Ver}
    (hx : x ∈ σ.store) (hb : x.born = σ.currSn) :
    Inv { σ with store := removeId σ.store x, handles := markGone x σ.handles,
                 writers := updWriter w (fun y => { y with count := y.count - 1 }) σ.writers } := by
  have hd : x.dead = 0 := by have := h.chains.1 x hx; omega
  obtain ⟨l, r, he, hl, hr⟩ := id_split h.sorted hx
  have hsub : ∀ v ∈ removeId σ.store x, v ∈ σ.store := fun v hv => (mem_removeId.mp hv).1
  refine ⟨sorted_filter h.sorted _, chains_filter h.chains _, ?_, h.snaps, ?_, ?_, h.iters, ?_⟩
  · have h1 := h.count
    unfold CountInv at h1 ⊢
    simp only
    rw [sum_updWriter w _ (-1) (fun _ => by simp; omega) _ hw]
    rw [he] at h1 ⊢
    rw [removeId_split hl hr]
    have : isAlive x = true := by simp [isAlive, hd]
    simp [List.filter_append, this] at h1 ⊢
    omega
  · intro s hs hrc
    simp only [removeId]
    rw [view_filter]
    · exact h.view s hs hrc
    · intro v _ hq
      have := (sameId_iff v x).mp (by simpa using hq)
      cases hv : visible s.sn v
      · rfl
      · have h1 := (visible_iff s.sn v).mp hv
        have h2 := (h.snaps.lt s hs).2
        omega
  · have hg := h.garb
    have hsame : ∀ g, InGc (updWriter w (fun y => { y with count := y.count - 1 }) σ.writers) g ↔
        InGc σ.writers g := inGc_updWriter_same (fun _ => rfl)
    have hkeep : ∀ (g v : Ver), g.born < σ.currSn → v ∈ σ.store → sameId v g = true → v ∈ removeId σ.store x := by
      intro g v hgb hv hsid
      refine mem_removeId.mpr ⟨hv, ?_⟩
      cases hsx : sameId v x
      · rfl
      · have h1 := (sameId_iff v x).mp hsx
        have h2 := (sameId_iff v g).mp hsid
        omega
    refine ⟨?_, ?_, ?_, ?_, ?_, ?_, ?_⟩
    · intro v hv hdv
      obtain ⟨g, hg1, hg2⟩ := hg.wgc v (hsub v hv) hdv
      exact ⟨g, (hsame g).mpr hg1, hg2⟩
    · intro v hv; exact hg.sgc v (hsub v hv)
    · intro g hgin
      have ⟨h1, h2⟩ := hg.wsound g ((hsame g).mp hgin)
      exact ⟨h1, fun v hv => h2 v (hsub v hv)⟩
    · intro s hs hst g hgm
      have ⟨h1, h2⟩ := hg.ssound s hs hst g hgm
      exact ⟨h1, fun v hv => h2 v (hsub v hv)⟩
    · intro v hv; exact hg.exact v (hsub v hv)
    · intro g hgin
      have hold := (hsame g).mp hgin
      obtain ⟨v, hv, hsid⟩ := hg.wpres g hold
      exact ⟨v, hkeep g v (hg.wsound g hold).1 hv hsid, hsid⟩
    · intro s hs hst g hgm
      obtain ⟨v, hv, hsid⟩ := hg.spres s hs hst g hgm
      have := (hg.ssound s hs hst g hgm).1
      have := (h.snaps.lt s hs).2
      exact ⟨v, hkeep g v (by omega) hv hsid, hsid⟩
  · intro p hp hgone
    unfold markGone amap at hp
    obtain ⟨q, hq, rfl⟩ := List.mem_map.mp hp
    simp only at hgone ⊢
    by_cases hid : q.2.key = x.key ∧ q.2.born = x.born
    · simp [hid] at hgone
    · simp only [hid, if_false] at hgone ⊢
      rcases h.handles q hq hgone with h1 | ⟨v, hv, hk⟩
      · exact Or.inl h1
      · refine Or.inr ⟨v, mem_removeId.mpr ⟨hv, ?_⟩, hk⟩
        cases hs : sameId v x
        · rfl
        · have := (sameId_iff v x).mp hs
          exact absurd ⟨by omega, by omega⟩ hid

/-! ### delete in a later epoch: mark dead, append to the writer's garbage list -/

theorem inv_delete_mark {σ : State} (h : Inv σ) {w : Nat} (hw : w < σ.writers.length) {x : Ver}
    (hx : x ∈ σ.store) (hb : x.born ≠ σ.currSn) (hd : x.dead = 0) :
    Inv { σ with store := markDead σ.store x σ.currSn,
                 writers := updWriter w (fun y => { count := y.count - 1, gc := y.gc ++ [{ x with dead := σ.currSn }] }) σ.writers } := by
  have hb' : x.born < σ.currSn := by have := h.chains.1 x hx; omega
  obtain ⟨l, r, he, hl, hr⟩ := id_split h.sorted hx
  have hid : ∀ v ∈ σ.store, sameId v x = true → v = x := by
    intro v hv hs; have := (sameId_iff v x).mp hs
    exact sorted_id_unique h.sorted hv hx this.1 this.2
  have hgc : ∀ g, InGc (updWriter w (fun y => { count := y.count - 1, gc := y.gc ++ [{ x with dead := σ.currSn }] }) σ.writers) g ↔
      InGc σ.writers g ∨ g = { x with dead := σ.currSn } := inGc_updWriter_app hw (fun _ => rfl)
  refine ⟨sorted_markDead h.sorted _ _, chains_markDead h.sorted h.chains hx hd hb', ?_, h.snaps,
    ?_, ?_, h.iters, ?_⟩
  · have h1 := h.count
    unfold CountInv at h1 ⊢
    simp only
    rw [sum_updWriter w _ (-1) (fun _ => by simp; omega) _ hw]
    rw [he] at h1 ⊢
    rw [markDead_split _ hl hr]
    have h2 : isAlive x = true := by simp [isAlive, hd]
    have h3 : isAlive { x with dead := σ.currSn } = false := by
      simp [isAlive]; have := h.snaps.gclt; omega
    simp [List.filter_append, h2, h3] at h1 ⊢
    omega
  · intro s hs hrc
    simp only
    rw [view_markDead h.sorted hx hd _ _ (h.snaps.lt s hs).2]
    exact h.view s hs hrc
  · have hg := h.garb
    have himg : ∀ (g v : Ver), v ∈ σ.store → sameId v g = true →
        ∃ v' ∈ markDead σ.store x σ.currSn, sameId v' g = true := by
      intro g v hv hsid
      refine ⟨if sameId v x then { v with dead := σ.currSn } else v, ?_, ?_⟩
      · unfold markDead; exact List.mem_map.mpr ⟨v, hv, rfl⟩
      · have := (sameId_iff v g).mp hsid
        split <;> exact (sameId_iff _ _).mpr this
    refine ⟨?_, ?_, ?_, ?_, ?_, ?_, ?_⟩
    · intro v' hv' hdv
      obtain ⟨v, hv, rfl⟩ := mem_markDead hv'
      by_cases hs : sameId v x = true
      · have := hid v hv hs; subst this
        refine ⟨{ v with dead := σ.currSn }, (hgc _).mpr (Or.inr rfl), ?_⟩
        simp [hs]; exact (sameId_iff _ _).mpr ⟨rfl, rfl⟩
      · simp only [hs] at hdv ⊢
        obtain ⟨g, hg1, hg2⟩ := hg.wgc v hv hdv
        exact ⟨g, (hgc g).mpr (Or.inl hg1), hg2⟩
    · intro v' hv' hdv hlt
      obtain ⟨v, hv, rfl⟩ := mem_markDead hv'
      by_cases hs : sameId v x = true
      · simp [hs] at hlt
      · simp only [hs] at hdv hlt ⊢
        exact hg.sgc v hv hdv hlt
    · intro g hgin
      rcases (hgc g).mp hgin with hold | rfl
      · have ⟨h1, h2⟩ := hg.wsound g hold
        refine ⟨h1, ?_⟩
        intro v' hv' hsid
        obtain ⟨v, hv, rfl⟩ := mem_markDead hv'
        by_cases hs : sameId v x = true
        · simp [hs]
        · simp only [hs] at hsid ⊢
          exact h2 v hv hsid
      · refine ⟨hb', ?_⟩
        intro v' hv' hsid
        obtain ⟨v, hv, rfl⟩ := mem_markDead hv'
        by_cases hs : sameId v x = true
        · simp [hs]
        · simp only [hs] at hsid ⊢
          exfalso; apply hs
          have := (sameId_iff _ _).mp hsid
          exact (sameId_iff _ _).mpr this
    · intro s hs hst g hgm
      have ⟨h1, h2⟩ := hg.ssound s hs hst g hgm
      refine ⟨h1, ?_⟩
      intro v' hv' hsid
      obtain ⟨v, hv, rfl⟩ := mem_markDead hv'
      by_cases hsx : sameId v x = true
      · have := hid v hv hsx; subst this
        simp only [hsx, if_true] at hsid
        have hsid' : sameId v g = true := by
          have := (sameId_iff _ _).mp hsid; exact (sameId_iff _ _).mpr this
        have := h2 v hv hsid'
        have := (h.snaps.lt s hs).1
        omega
      · simp only [hsx] at hsid ⊢
        exact h2 v hv hsid
    · intro v' hv' hdv
      obtain ⟨v, hv, rfl⟩ := mem_markDead hv'
      by_cases hs : sameId v x = true
      · simp [hs]; exact h.snaps.gclt
      · simp only [hs] at hdv ⊢
        exact hg.exact v hv hdv
    · intro g hgin
      rcases (hgc g).mp hgin with hold | rfl
      · obtain ⟨v, hv, hsid⟩ := hg.wpres g hold
        exact himg g v hv hsid
      · exact himg _ x hx ((sameId_iff _ _).mpr ⟨rfl, rfl⟩)
    · intro s hs hst g hgm
      obtain ⟨v, hv, hsid⟩ := hg.spres s hs hst g hgm
      exact himg g v hv hsid
  · intro p hp hgone
    rcases h.handles p hp hgone with h1 | ⟨v, hv, hk⟩
    · exact Or.inl h1
    · refine Or.inr ⟨if sameId v x then { v with dead := σ.currSn } else v, ?_, ?_⟩
      · unfold markDead; exact List.mem_map.mpr ⟨v, hv, rfl⟩
      · split <;> exact hk

theorem inv_deleteNode {σ : State} (h : Inv σ) {w : Nat} (hw : w < σ.writers.length) {x : Ver}
    (hx : x ∈ σ.store) : Inv (deleteNode σ w x).1 := by
  unfold deleteNode
  split
  · rename_i hse; exact inv_delete_same h hw hx ((sameEpoch_iff _ _).mp hse)
  · rename_i hse
    split
    · rename_i hd
      exact inv_delete_mark h hw hx (fun hb => hse ((sameEpoch_iff _ _).mpr hb)) hd
    · exact h

theorem getNode_eq {σ : State} (h : Inv σ) (k : Nat) : getNode σ k = aliveOf σ.store k :=
  lookup_eq_aliveOf h.sorted h.chains k 0

theorem inv_del {σ : State} (h : Inv σ) {w : Nat} (hw : w < σ.writers.length) (k : Nat) :
    Inv (del σ w k).1 := by
  unfold del
  split
  · rename_i x hx
    rw [getNode_eq h] at hx
    exact inv_deleteNode h hw (aliveOf_some hx).1
  · exact h

theorem inv_delHandle {σ : State} (h : Inv σ) {w : Nat} (hw : w < σ.writers.length) (hd : Handle) :
    Inv (delHandle σ w hd).1 := by
  unfold delHandle
  split
  · exact h
  · split
    · rename_i x hx
      exact inv_deleteNode h hw (List.mem_of_find?_eq_some hx)
    · exact h

end NitroVerif.Mvcc
