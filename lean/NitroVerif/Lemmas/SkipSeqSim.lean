import NitroVerif.Lemmas.SkipSeqIter
import NitroVerif.Lemmas.SkipSeqSpec
/-!
  The simulation between the model (`step`) and the ordered-set specification (`specStep`):
  `Sim st sp L0` relates a model state whose skiplist represents the node list `L0` to the
  specification state holding the keys of `L0`, with matching node handles.
-/
namespace NitroVerif.SkipSeq
open NitroVerif NitroVerif.OrdSet

/-- a model handle (node `n`) against a specification handle (key `k`, liveness) -/
structure HOK (s : SL) (L0 : List Nat) (n : Nat) (k : Int) (live : Bool) : Prop where
  lt : n < s.nodes.length
  nh : n ≠ headId
  key : ikey s.nodes n = k
  isLive : live = true → n ∈ L0
  isDead : live = false → n ∉ L0 ∧ Dead s.nodes n

/-- pointwise relation between the two handle tables -/
def HRel (P : Nat → Int → Bool → Prop) : List (String × Nat) → List (String × Int × Bool) → Prop
  | [], [] => True
  | m :: r, p :: t => m.1 = p.1 ∧ P m.2 p.2.1 p.2.2 ∧ HRel P r t
  | _, _ => False

theorem HRel.imp {P Q : Nat → Int → Bool → Prop} (h : ∀ n k l, P n k l → Q n k l) :
    ∀ {ms ps}, HRel P ms ps → HRel Q ms ps := by
  intro ms
  induction ms with
  | nil => intro ps hr; cases ps <;> simp_all [HRel]
  | cons m r ih =>
    intro ps hr
    cases ps with
    | nil => simp [HRel] at hr
    | cons p t => exact ⟨hr.1, h _ _ _ hr.2.1, ih hr.2.2⟩

theorem HRel.kill {P Q : Nat → Int → Bool → Prop} {k : Int}
    (h : ∀ n k' l, P n k' l → Q n k' (if k' = k then false else l)) :
    ∀ {ms ps}, HRel P ms ps → HRel Q ms (kill k ps) := by
  intro ms
  induction ms with
  | nil => intro ps hr; cases ps <;> simp_all [HRel, OrdSet.kill]
  | cons m r ih =>
    intro ps hr
    cases ps with
    | nil => simp [HRel] at hr
    | cons p t =>
      have := h _ _ _ hr.2.1
      simp only [OrdSet.kill, List.map_cons]
      by_cases hk : p.2.1 = k
      · simp only [hk, if_true] at this ⊢
        exact ⟨hr.1, by simpa [hk] using this, ih hr.2.2⟩
      · simp only [hk, if_false] at this ⊢
        exact ⟨hr.1, this, ih hr.2.2⟩

theorem HRel.lookup {P : Nat → Int → Bool → Prop} (h : String) :
    ∀ {ms ps}, HRel P ms ps →
      (lookupHandle ms h = none ∧ findHandle ps h = none) ∨
      (∃ n k l, lookupHandle ms h = some n ∧ findHandle ps h = some (k, l) ∧ P n k l) := by
  intro ms
  induction ms with
  | nil => intro ps hr; cases ps <;> simp_all [HRel, lookupHandle, findHandle]
  | cons m r ih =>
    intro ps hr
    cases ps with
    | nil => simp [HRel] at hr
    | cons p t =>
      by_cases hm : m.1 = h
      · right
        refine ⟨m.2, p.2.1, p.2.2, ?_, ?_, hr.2.1⟩
        · simp [lookupHandle, List.find?_cons, hm]
        · have : p.1 = h := by rw [← hr.1]; exact hm
          simp [findHandle, List.find?_cons, this]
      · have hp : ¬ p.1 = h := by rw [← hr.1]; exact hm
        rcases ih hr.2.2 with h1 | ⟨n, k, l, h1, h2, h3⟩
        · left
          refine ⟨?_, ?_⟩
          · simpa [lookupHandle, List.find?_cons, hm] using h1.1
          · simpa [findHandle, List.find?_cons, hp] using h1.2
        · right
          refine ⟨n, k, l, ?_, ?_, h3⟩
          · simpa [lookupHandle, List.find?_cons, hm] using h1
          · simpa [findHandle, List.find?_cons, hp] using h2

structure Sim (st : St) (sp : SpecSt) (L0 : List Nat) : Prop where
  rep : Rep st.sl L0
  keys : sp.set = L0.map (ikey st.sl.nodes)
  handles : HRel (HOK st.sl L0) st.handles sp.handles

/-- a handle survives an operation that keeps its node's status -/
theorem HOK.ext {s s' : SL} {L0 L0' : List Nat} {n : Nat} {k : Int} {live : Bool}
    (h : HOK s L0 n k live) (he : Ext s s' L0)
    (hl : live = true → n ∈ L0') (hd : live = false → n ∉ L0') : HOK s' L0' n k live := by
  refine ⟨by have := he.len; have := h.lt; omega, h.nh, ?_, hl, ?_⟩
  · rw [ikey_congr (he.key n h.lt)]; exact h.key
  · intro hf
    refine ⟨hd hf, ?_⟩
    have hdd := h.isDead hf
    intro l hl'
    rw [he.lvl n h.lt] at hl'
    rw [he.frame n h.lt hdd.1 h.nh l]
    exact hdd.2 l hl'

/-- two nodes of the list with the same key are the same node -/
theorem Rep.key_inj {s : SL} {L0 : List Nat} (hr : Rep s L0) {a b : Nat} (ha : a ∈ L0) (hb : b ∈ L0)
    (hk : ikey s.nodes a = ikey s.nodes b) : a = b := by
  have hs := hr.sorted
  rcases List.append_of_mem ha with ⟨X, Y, rfl⟩
  rw [List.pairwise_append] at hs
  rcases List.mem_append.mp hb with h | h
  · have := hs.2.2 b h a (by simp); omega
  · rcases List.mem_cons.mp h with h' | h'
    · exact h'.symm
    · have := (List.pairwise_cons.mp hs.2.1).1 b h'; omega

theorem keys_map {s : SL} {L0 : List Nat} (hr : Rep s L0) :
    L0.map (keyOf s.nodes) = (L0.map (ikey s.nodes)).map Key.item := by
  rw [List.map_map]
  apply List.map_congr_left
  intro n hn
  exact (hr.nodes n hn).key

/-- the situation after a node `d` has been removed from the list -/
theorem sim_after_delete {st : St} {sp : SpecSt} {A B : List Nat} {d : Nat} {s' : SL}
    (hsim : Sim st sp (A ++ d :: B)) (hrep : Rep s' (A ++ B)) (hdead : Dead s'.nodes d)
    (hext : Ext st.sl s' (A ++ d :: B)) :
    Sim { st with sl := s' }
      { set := OrdSet.delete (ikey st.sl.nodes d) sp.set, handles := OrdSet.kill (ikey st.sl.nodes d) sp.handles } (A ++ B) := by
  have hr := hsim.rep
  have hdm : d ∈ A ++ d :: B := by simp
  have hnd := hr.nodup
  have hdA : d ∉ A := by
    have := List.nodup_append.mp hnd
    intro h; exact this.2.2 d h d (by simp) rfl
  have hdB : d ∉ B := by
    have := (List.nodup_append.mp hnd).2.1
    exact (List.nodup_cons.mp this).1
  have hsub : ∀ n, n ∈ A ++ d :: B → n ≠ d → n ∈ A ++ B := by
    intro n hn hne
    simp only [List.mem_append, List.mem_cons] at hn ⊢
    rcases hn with h | h | h
    · exact Or.inl h
    · exact absurd h hne
    · exact Or.inr h
  have hsup : ∀ n, n ∈ A ++ B → n ∈ A ++ d :: B := by
    intro n hn
    simp only [List.mem_append, List.mem_cons] at hn ⊢
    rcases hn with h | h
    · exact Or.inl h
    · exact Or.inr (Or.inr h)
  have hs := hr.sorted
  rw [List.pairwise_append] at hs
  refine ⟨hrep, ?_, ?_⟩
  · simp only
    rw [hsim.keys, List.map_append, List.map_cons, delete_split]
    · rw [List.map_append]
      have e1 : A.map (ikey st.sl.nodes) = A.map (ikey s'.nodes) := by
        apply List.map_congr_left
        intro a ha; exact (ikey_congr (hext.key a (hr.nodes a (List.mem_append_left _ ha)).hi)).symm
      have e2 : B.map (ikey st.sl.nodes) = B.map (ikey s'.nodes) := by
        apply List.map_congr_left
        intro b hb
        exact (ikey_congr (hext.key b (hr.nodes b (List.mem_append_right _ (List.mem_cons_of_mem _ hb))).hi)).symm
      rw [e1, e2]
    · intro a ha
      rcases List.mem_map.mp ha with ⟨x, hx, rfl⟩
      exact hs.2.2 x hx d (by simp)
    · intro b hb
      rcases List.mem_map.mp hb with ⟨x, hx, rfl⟩
      exact (List.pairwise_cons.mp hs.2.1).1 x hx
  · apply HRel.kill _ hsim.handles
    intro n k' live hok
    by_cases hk : k' = ikey st.sl.nodes d
    · rw [if_pos hk]
      by_cases hl : live = true
      · have hn := hok.isLive hl
        have hnd' : n = d := hr.key_inj hn hdm (by rw [hok.key, hk])
        subst hnd'
        refine ⟨by show n < s'.nodes.length; have := hext.len; have := hok.lt; omega, hok.nh, ?_, fun h => by simp at h, fun _ => ?_⟩
        · rw [ikey_congr (hext.key n hok.lt)]; exact hok.key
        · refine ⟨?_, hdead⟩
          intro h
          rcases List.mem_append.mp h with h | h
          · exact hdA h
          · exact hdB h
      · have hl' : live = false := by cases live <;> simp_all
        subst hl'
        exact hok.ext hext (fun h => by simp at h) (fun _ h => (hok.isDead rfl).1 (hsup n h))
    · rw [if_neg hk]
      apply hok.ext hext
      · intro hl
        have hn := hok.isLive hl
        apply hsub n hn
        intro e; apply hk; rw [← hok.key, e]
      · intro hl h
        exact (hok.isDead hl).1 (hsup n h)

end NitroVerif.SkipSeq
