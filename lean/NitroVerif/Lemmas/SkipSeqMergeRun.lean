import NitroVerif.Lemmas.SkipSeqMergeSeek
/-!
  Scripts of merge-iterator calls: every state reachable from `NewMergeIterator` by any sequence of
  `SeekFirst` / `Seek` / `Next` calls is one from which `SeekFirst` and `Seek` re-position correctly.
-/
namespace NitroVerif.SkipSeq
open NitroVerif NitroVerif.OrdSet

inductive MOp where
  | first
  | seek (x : Int)
  | next
deriving Repr, DecidableEq

def mstep (m : MergeIt) : MOp → MergeIt
  | .first => mergeSeekFirst m
  | .seek x => (mergeSeek m (.item x)).1
  | .next => mergeNext m

def mrun : MergeIt → List MOp → MergeIt
  | m, [] => m
  | m, op :: ops => mrun (mstep m op) ops

/-- what holds of every reachable state: the lists are untouched (up to their action buffers) and the
    heap is either empty or consistent with the iterators -/
structure RInv (m0 m : MergeIt) (Ls : List (List Nat)) : Prop where
  st : MState m Ls
  len : m.sls.length = m0.sls.length
  nodes : ∀ i, (slAt m i).nodes = (slAt m0 i).nodes
  heap : m.h = [] ∨ ∃ rem, MInv m Ls rem

theorem RInv.init {sls : List SL} {Ls : List (List Nat)} (hl : Ls.length = sls.length)
    (hr : ∀ i, i < sls.length → Rep (sls.getD i SL.init) (Ls.getD i [])) :
    RInv (MergeIt.new sls) (MergeIt.new sls) Ls := by
  refine ⟨⟨by simp [MergeIt.new], by simpa [MergeIt.new] using hl, ?_, ?_⟩, rfl, fun _ => rfl, Or.inl rfl⟩
  · intro i hi; exact hr i (by simpa [MergeIt.new] using hi)
  · intro i hi
    simp only [MergeIt.new, itAt, List.getD_eq_getElem?_getD, List.getElem?_map]
    cases sls[i]? <;> simp [Iter.new]

theorem RInv.of_inv {m0 m : MergeIt} {Ls rem : List (List Nat)} (inv : MInv m Ls rem)
    (hlen : m.sls.length = m0.sls.length) (hn : ∀ i, (slAt m i).nodes = (slAt m0 i).nodes) :
    RInv m0 (mergeNext m) Ls := by
  by_cases hh : m.h = []
  · rw [mergeNext_empty hh]
    exact ⟨⟨inv.lenI, inv.lenL, inv.reps, fun i hi => (inv.its i hi).2⟩, hlen, hn, Or.inl hh⟩
  · rcases mergeNext_step inv hh with ⟨i, n, T, _, _, _, hsls, inv', _⟩
    refine ⟨inv'.state, by rw [hsls]; exact hlen, ?_, Or.inr ⟨_, inv'⟩⟩
    intro j
    have : slAt (mergeNext m) j = slAt m j := by simp [slAt, hsls]
    rw [this]; exact hn j

theorem RInv.step {m0 m : MergeIt} {Ls : List (List Nat)} (r : RInv m0 m Ls) (op : MOp) :
    RInv m0 (mstep m op) Ls := by
  cases op with
  | first =>
    rcases mergeSeekFirst_spec r.st with ⟨m1, he, inv, hl, hn⟩
    simp only [mstep]; rw [he]
    exact RInv.of_inv inv (hl.trans r.len) (fun i => (hn i).trans (r.nodes i))
  | seek x =>
    rcases mergeSeek_spec r.st x with ⟨m1, he, inv, hl, hn, _⟩
    simp only [mstep]; rw [he]
    exact RInv.of_inv inv (hl.trans r.len) (fun i => (hn i).trans (r.nodes i))
  | next =>
    simp only [mstep]
    rcases r.heap with hh | ⟨rem, inv⟩
    · rw [mergeNext_empty hh]
      exact ⟨⟨r.st.lenI, r.st.lenL, r.st.reps, r.st.del⟩, r.len, r.nodes, Or.inl hh⟩
    · exact RInv.of_inv inv r.len r.nodes

theorem RInv.run {m0 : MergeIt} {Ls : List (List Nat)} : ∀ (ops : List MOp) (m : MergeIt),
    RInv m0 m Ls → RInv m0 (mrun m ops) Ls := by
  intro ops
  induction ops with
  | nil => intro m r; exact r
  | cons op ops ih => intro m r; exact ih _ (r.step op)

theorem keysOf_congr {a b : List SL} (hl : a.length = b.length)
    (hn : ∀ i, (a.getD i SL.init).nodes = (b.getD i SL.init).nodes) (rem : List (List Nat)) :
    keysOf a rem = keysOf b rem := by
  induction a generalizing b rem with
  | nil => cases b with
    | nil => rfl
    | cons _ _ => simp at hl
  | cons s ss ih =>
    cases b with
    | nil => simp at hl
    | cons t ts =>
      cases rem with
      | nil => simp [keysOf]
      | cons R rs =>
        have h0 := hn 0
        simp at h0
        simp only [keysOf, List.zipWith_cons_cons, h0]
        congr 1
        exact ih (by simpa using hl) (fun i => by have := hn (i + 1); simpa using this) rs

theorem keysOf_seekTarget (m : MergeIt) (Ls : List (List Nat)) (x : Int) :
    keysOf m.sls (seekTarget m Ls x) = (keysOf m.sls Ls).map fun l => l.filter fun k => decide (x ≤ k) := by
  unfold keysOf seekTarget
  generalize m.sls = sls
  induction sls generalizing Ls with
  | nil => simp
  | cons s ss ih =>
    cases Ls with
    | nil => simp
    | cons L Lr =>
      simp only [List.zipWith_cons_cons, List.map_cons]
      rw [ih]
      congr 1
      unfold geX
      rw [List.filter_map]
      congr 1
      apply List.filter_congr
      intro a _
      simp only [Function.comp]
      by_cases h : ikey s.nodes a < x
      · have : ¬ x ≤ ikey s.nodes a := by omega
        simp [h, this]
      · have : x ≤ ikey s.nodes a := by omega
        simp [h, this]

/-- the key under the cursor is the head of what a scan from here yields -/
theorem mergeScan_head (f : Nat) (m : MergeIt) : (mergeScan (f + 1) m).head? = m.key := by
  simp only [mergeScan]
  cases m.key <;> simp

end NitroVerif.SkipSeq
