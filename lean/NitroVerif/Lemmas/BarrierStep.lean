import NitroVerif.Lemmas.BarrierStepA
import NitroVerif.Lemmas.BarrierStepB
import NitroVerif.Lemmas.BarrierStepC
import NitroVerif.Lemmas.BarrierStepD
/-!
  `Inv` is inductive: it holds initially and is preserved by every action of every thread,
  for both protocol variants (`fixed = true / false`), with the proof-only `stale` action enabled.
-/
namespace NitroVerif.Barrier
set_option linter.unusedSimpArgs false
set_option linter.unusedVariables false

theorem execStart_inv {st st1 : St} {i : Nat} {t t' : Th} {op : Op} (h : Inv st)
    (ht : st.ths[i]? = some t) (he : execStart st t op = some (st1, t')) : Inv (setT st1 i t') := by
  unfold execStart at he
  split at he
  · rename_i hpc
    split at he
    · simp at he; obtain ⟨rfl, rfl⟩ := he; exact leaf_startAcquire h ht hpc
    · split at he
      · rename_i s hj
        simp at he; obtain ⟨rfl, rfl⟩ := he; exact leaf_startRelease h ht hpc hj
      · simp at he
    · simp at he; obtain ⟨rfl, rfl⟩ := he; exact leaf_startFlush h ht hpc
  · simp at he

theorem execStale_inv {st st1 : St} {i : Nat} {t t' : Th} (h : Inv st)
    (ht : st.ths[i]? = some t) (he : execStale st t = some (st1, t')) : Inv (setT st1 i t') := by
  unfold execStale at he
  split at he
  · rename_i k hpc
    simp at he; obtain ⟨rfl, rfl⟩ := he; exact leaf_stale h ht hpc
  · simp at he

theorem execStep_inv {fixed : Bool} {st st1 : St} {i : Nat} {t t' : Th} (h : Inv st)
    (ht : st.ths[i]? = some t) (he : execStep fixed st t = some (st1, t')) : Inv (setT st1 i t') := by
  unfold execStep at he
  split at he
  · simp at he
  · rename_i hpc
    simp at he; obtain ⟨rfl, rfl⟩ := he; exact leaf_acqLoad h ht hpc
  · rename_i s hpc
    simp only [] at he
    split at he
    · simp at he
    · rename_i hreg
      split at he
      · rename_i hb
        simp at he; obtain ⟨rfl, rfl⟩ := he; exact leaf_acqAdd_backoff h ht hpc hreg hb
      · rename_i hb
        simp at he; obtain ⟨rfl, rfl⟩ := he; exact leaf_acqAdd_grant h ht hpc hreg hb
  · rename_i s k hpc
    simp only [] at he
    split at he
    · rename_i hv
      simp at he; obtain ⟨rfl, rfl⟩ := he; exact leaf_relDec_last h ht hpc hv
    · rename_i hv
      split at he
      · rename_i hp
        exact (leaf_relDec_nopanic h ht hpc hv hp).elim
      · rename_i hp
        simp at he; obtain ⟨rfl, rfl⟩ := he; exact leaf_relDec_more h ht hpc hv hp
  · rename_i s k hpc
    simp only [] at he
    split at he
    · rename_i hv
      simp at he; obtain ⟨rfl, rfl⟩ := he; exact leaf_relClosed_first h ht hpc hv
    · rename_i hv
      simp at he; obtain ⟨rfl, rfl⟩ := he; exact leaf_relClosed_again h ht hpc hv
  · rename_i s k hpc
    obtain ⟨q, hq, hinv⟩ := leaf_relInsert (i := i) h ht hpc
    rw [hq] at he
    simp at he; obtain ⟨rfl, rfl⟩ := he; exact hinv
  · rename_i k hpc
    split at he
    · simp at he; obtain ⟨rfl, rfl⟩ := he; exact leaf_relTryLock_fail h ht hpc
    · rename_i hf
      simp at he; obtain ⟨rfl, rfl⟩ := he; exact leaf_relTryLock_ok h ht hpc hf
  · rename_i b k hpc
    split at he
    · rename_i s hr
      simp at he; obtain ⟨rfl, rfl⟩ := he; exact leaf_clRead_proc h ht hpc hr
    · simp at he; obtain ⟨rfl, rfl⟩ := he; exact leaf_clRead_exit h ht hpc
  · rename_i s k hpc
    simp at he; obtain ⟨rfl, rfl⟩ := he; exact leaf_clProc h ht hpc
  · rename_i k hpc
    simp at he; obtain ⟨rfl, rfl⟩ := he
    cases fixed
    · exact leaf_relUnlock_orig h ht hpc
    · exact leaf_relUnlock_fixed h ht hpc
  · rename_i k hpc
    split at he
    · simp at he; obtain ⟨rfl, rfl⟩ := he; exact leaf_relRecheck_again h ht hpc
    · simp at he; obtain ⟨rfl, rfl⟩ := he; exact leaf_relRecheck_done h ht hpc
  · rename_i obj hpc
    split at he
    · simp at he
    · rename_i hm
      simp at he; obtain ⟨rfl, rfl⟩ := he; exact leaf_flLock h ht hpc hm
  · rename_i obj hpc
    simp at he; obtain ⟨rfl, rfl⟩ := he; exact leaf_flSwap h ht hpc
  · rename_i s obj hpc
    simp at he; obtain ⟨rfl, rfl⟩ := he; exact leaf_flTag h ht hpc
  · rename_i s hpc
    simp at he; obtain ⟨rfl, rfl⟩ := he; exact leaf_flAdd h ht hpc
  · rename_i hpc
    simp at he; obtain ⟨rfl, rfl⟩ := he; exact leaf_flUnlock h ht hpc

theorem exec_inv {fixed : Bool} {st st1 : St} {i : Nat} {t t' : Th} {a : Act} (h : Inv st)
    (ht : st.ths[i]? = some t) (he : exec fixed st t a = some (st1, t')) : Inv (setT st1 i t') := by
  cases a with
  | start op => exact execStart_inv h ht he
  | step => exact execStep_inv h ht he
  | stale => exact execStale_inv h ht he

theorem step_inv {fixed : Bool} {st st' : St} {i : Nat} {a : Act} (h : Inv st)
    (hs : step fixed st i a = some st') : Inv st' := by
  unfold step at hs
  split at hs
  · simp at hs
  · rename_i t ht
    split at hs
    · simp at hs
    · rename_i st1 t' he
      simp at hs; subst hs
      exact exec_inv h ht he

theorem cnt_init (f : Th → Nat) (n : Nat) (hf : f {} = 0) : cnt f (init n) = 0 := by
  apply cnt_eq_zero_of
  intro u hu
  simp [init] at hu
  rw [hu.2]; exact hf

theorem getS_init (n s : Nat) : getS (init n) s = {} := by
  unfold getS init; cases s <;> simp

theorem init_inv (n : Nat) : Inv (init n) := by
  have c := fun f hf => cnt_init f n hf
  have cU := fun s => c (unitsT s) (by simp [barsimp])
  have cR := fun s => c (realT s) (by simp [barsimp])
  have cF := fun s => c (refT s) (by simp [barsimp])
  have cP := fun g (hg : g PC.idle = 0) => c (onPc g) (by simp [barsimp, hg])
  have g := getS_init n
  constructor
  case range => intro s _; exact cF s
  case curlen => simp [init]
  case count => intro s _; simp [g, cU]
  case bound => intro s; simp [g]
  case pend =>
    intro s hs
    have : s = 0 := by simp [init] at hs; omega
    subst this
    simp [g, cP _ (pcPend_idle 0)]; simp [init]
  case pendcur => intro s; left; exact cP _ (pcPend_idle s)
  case mutex => rw [cP _ pcMutex_idle]; simp [init]
  case flag => rw [cP _ pcFlag_idle]; simp [init]
  case active => rw [cP _ pcTag_idle]; simp [init]
  case tagged => simp [init]
  case numbering => intro s hs; simp [init] at hs
  case flushedlt => intro s; simp [g]
  case closed => intro s; simp [g, cP _ (pcClosed_idle s)]
  case place => intro s; simp [g, cP _ (pcInsert_idle s)]; simp [init]
  case sorted => simp [init]
  case logseq => simp [init]
  case logobj => simp [init]
  case proc => intro s; simp [cP _ (pcProc_idle s)]
  case nopanic => simp [init]
  case stats => simp [init]
  case calls => rw [cP _ pcMutex_idle, cP _ pcLock_idle, cP _ pcPast_idle]; simp [init]
  case last => intro s; simp [g]

theorem run_inv {fixed : Bool} {sched : List (Nat × Act)} {st st' : St} (h : Inv st)
    (hr : run fixed st sched = some st') : Inv st' := by
  induction sched generalizing st with
  | nil => simp [run] at hr; subst hr; exact h
  | cons x r ih =>
    obtain ⟨i, a⟩ := x
    simp only [run] at hr
    split at hr
    · simp at hr
    · rename_i st1 hs
      exact ih (step_inv h hs) hr

theorem reachable_inv {fixed : Bool} {n : Nat} {st : St} (hr : Reachable fixed n st) : Inv st := by
  obtain ⟨sched, hs⟩ := hr
  exact run_inv (init_inv n) hs

end NitroVerif.Barrier
