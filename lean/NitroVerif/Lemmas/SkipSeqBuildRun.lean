import NitroVerif.Lemmas.SkipSeqSegAdd
import NitroVerif.Lemmas.SkipSeqRun
/-!
  Filling segments: any interleaving of `NewSegment` and `Segment.Add` calls (one goroutine at a time
  — the order in which concurrent fillers get their turn is arbitrary) keeps the build state
  consistent.  `bstep` is the executable machine (segments addressed by index), `gstep` the same
  machine with each segment's node list as ghost annotation.
-/
namespace NitroVerif.SkipSeq
open NitroVerif

inductive BOp where
  | new
  | add (i : Nat) (k : Int) (lvl : Nat)
deriving Repr, DecidableEq

/-- the builder's store and its segments -/
def bstep (st : SL × List Segment) : BOp → SL × List Segment
  | .new => (st.1, st.2 ++ [Segment.new])
  | .add i k lvl =>
    match st.2[i]? with
    | some seg => ((segAdd st.1 seg (.item k) lvl).1, st.2.set i (segAdd st.1 seg (.item k) lvl).2)
    | none => st

def brun : SL × List Segment → List BOp → SL × List Segment
  | st, [] => st
  | st, op :: ops => brun (bstep st op) ops

/-- the same with ghost node lists -/
def gstep (st : SL × List (Segment × List Nat)) : BOp → SL × List (Segment × List Nat)
  | .new => (st.1, st.2 ++ [(Segment.new, [])])
  | .add i k lvl =>
    match st.2[i]? with
    | some e => ((segAdd st.1 e.1 (.item k) lvl).1,
                 st.2.set i ((segAdd st.1 e.1 (.item k) lvl).2, e.2 ++ [st.1.nodes.length]))
    | none => st

def grun : SL × List (Segment × List Nat) → List BOp → SL × List (Segment × List Nat)
  | st, [] => st
  | st, op :: ops => grun (gstep st op) ops

/-- the keys a script adds to segment `i`, in order (`n` = number of segments existing so far) -/
def addedKeys (i : Nat) : Nat → List BOp → List Int
  | _, [] => []
  | n, .new :: ops => addedKeys i (n + 1) ops
  | n, .add j k _ :: ops => if j = i ∧ j < n then k :: addedKeys i n ops else addedKeys i n ops

theorem gstep_erase (st : SL × List (Segment × List Nat)) (op : BOp) :
    ((gstep st op).1, (gstep st op).2.map (·.1)) = bstep (st.1, st.2.map (·.1)) op := by
  cases op with
  | new => simp [gstep, bstep]
  | add i k lvl =>
    simp only [gstep, bstep, List.getElem?_map]
    cases h : st.2[i]? with
    | none => simp
    | some e => simp [List.map_set]

theorem grun_erase : ∀ (ops : List BOp) (st : SL × List (Segment × List Nat)),
    ((grun st ops).1, (grun st ops).2.map (·.1)) = brun (st.1, st.2.map (·.1)) ops := by
  intro ops
  induction ops with
  | nil => intro st; rfl
  | cons op r ih =>
    intro st
    simp only [grun, brun]
    rw [ih, gstep_erase]

theorem segNew_ok {s : SL} {segs : List (Segment × List Nat)} (b : BuildOK s segs) :
    BuildOK s (segs ++ [(Segment.new, [])]) := by
  have hall : allNodes (segs ++ [(Segment.new, [])]) = allNodes segs := by simp [allNodes]
  refine ⟨b.rep, ?_, by rw [hall]; exact b.nodup, by rw [hall]; exact b.lo, by rw [hall]; exact b.hi,
    by rw [hall]; exact b.slots, by rw [hall]; exact b.keys, by rw [hall]; exact b.lvls,
    by rw [hall]; exact b.size, ?_⟩
  · intro e he
    rcases List.mem_append.mp he with h1 | h1
    · exact b.segok e h1
    · simp at h1; subst h1
      refine ⟨by simp [Segment.new], by simp [Segment.new], ?_, ?_⟩
      · intro l _
        simp only [Segment.new, LL, List.filter_nil, List.head?_nil, List.getLast?_nil, Option.getD_none,
          getD_replicate_nil, and_self]
      · intro l _; simp [LL]
  · intro e he
    rcases List.mem_append.mp he with h1 | h1
    · exact b.stats e h1
    · simp at h1; subst h1
      refine ⟨by simp [Segment.new, Stats.zero], ?_, by simp [Segment.new, Stats.zero],
        by simp [Segment.new, Stats.zero], by simp [Segment.new, Stats.zero]⟩
      intro g hg
      have : g < Gen.maxLevel + 1 := by omega
      simp [Segment.new, Stats.zero, cntLevel, List.getD_eq_getElem?_getD, List.getElem?_replicate, this]

theorem split_at {α : Type} {l : List α} {i : Nat} {e : α} (h : l[i]? = some e) :
    l = l.take i ++ e :: l.drop (i + 1) ∧ ∀ a, l.set i a = l.take i ++ a :: l.drop (i + 1) := by
  rcases List.getElem?_eq_some_iff.mp h with ⟨hlt, he⟩
  refine ⟨?_, fun a => by rw [List.set_eq_take_append_cons_drop, if_pos hlt]⟩
  have := List.set_getElem_self hlt
  rw [List.set_eq_take_append_cons_drop, if_pos hlt, he] at this
  exact this.symm

/-- keys of the node lists, per segment index -/
def segKeys (st : SL × List (Segment × List Nat)) (i : Nat) : List Int :=
  ((st.2.map (·.2)).getD i []).map (ikey st.1.nodes)

theorem gstep_ok {st : SL × List (Segment × List Nat)} (b : BuildOK st.1 st.2) (op : BOp) :
    BuildOK (gstep st op).1 (gstep st op).2 ∧
    (∀ i, segKeys (gstep st op) i = segKeys st i ++ addedKeys i st.2.length [op]) ∧
    (gstep st op).2.length = st.2.length + (if op = .new then 1 else 0) := by
  cases op with
  | new =>
    refine ⟨segNew_ok b, ?_, by simp [gstep]⟩
    intro i
    simp only [gstep, segKeys, addedKeys, List.append_nil, List.map_append, List.map_cons, List.map_nil,
      List.getD_eq_getElem?_getD, List.getElem?_append]
    by_cases h : i < st.2.length
    · simp [h]
    · have : (st.2.map (·.2))[i]? = none := by simp; omega
      rw [List.length_map, if_neg h, this]
      cases hi : ([[]] : List (List Nat))[i - st.2.length]? with
      | none => rfl
      | some l =>
        have : i - st.2.length = 0 := by
          rcases List.getElem?_eq_some_iff.mp hi with ⟨hlt, _⟩; simp at hlt; exact hlt
        rw [this] at hi; simp at hi; subst hi; rfl
  | add j k lvl =>
    simp only [gstep]
    cases h : st.2[j]? with
    | none =>
      refine ⟨b, ?_, by simp⟩
      intro i
      have : ¬ j < st.2.length := by
        intro hl; rw [List.getElem?_eq_getElem hl] at h; simp at h
      simp [addedKeys, this]
    | some e =>
      rcases split_at h with ⟨hsp, hset⟩
      have hj : j < st.2.length := (List.getElem?_eq_some_iff.mp h).1
      simp only
      rw [hset]
      have b' : BuildOK st.1 (st.2.take j ++ (e.1, e.2) :: st.2.drop (j + 1)) := by
        have : (e.1, e.2) = e := rfl
        rw [this, ← hsp]; exact b
      rcases segAdd_ok b' k lvl with ⟨bn, hlen, hkx, hkold⟩
      refine ⟨bn, ?_, by simp; omega⟩
      intro i
      simp only [segKeys, addedKeys, List.map_append, List.map_cons, List.getD_eq_getElem?_getD]
      have hlt : (st.2.take j).length = j := by simp; omega
      have hold : ∀ y ∈ allNodes st.2, ikey (segAdd st.1 e.1 (.item k) lvl).1.nodes y = ikey st.1.nodes y :=
        fun y hy => hkold y (b.hi y hy)
      by_cases hij : j = i
      · subst hij
        rw [if_pos ⟨rfl, hj⟩]
        have e1 : (List.map (·.2) (st.2.take j) ++ (e.2 ++ [st.1.nodes.length]) :: List.map (·.2) (st.2.drop (j + 1)))[j]?
            = some (e.2 ++ [st.1.nodes.length]) := by
          have hm : min j st.2.length = j := by omega
          rw [List.getElem?_append_right (by simp; omega)]; simp [hm]
        have e2 : (st.2.map (·.2))[j]? = some e.2 := by rw [List.getElem?_map, h]; rfl
        rw [e1, e2]
        simp only [Option.getD_some, List.map_append, List.map_cons, List.map_nil, hkx]
        congr 1
        apply List.map_congr_left
        intro y hy
        exact hold y (mem_allNodes.mpr ⟨e, List.mem_of_getElem? h, hy⟩)
      · have hne : ¬ (j = i ∧ j < st.2.length) := fun hh => hij hh.1
        rw [if_neg hne, List.append_nil]
        have e1 : (List.map (·.2) (st.2.take j) ++ (e.2 ++ [st.1.nodes.length]) :: List.map (·.2) (st.2.drop (j + 1)))[i]?
            = (st.2.map (·.2))[i]? := by
          conv => rhs; rw [hsp]
          simp only [List.map_append, List.map_cons]
          by_cases hlt' : i < j
          · rw [List.getElem?_append_left (by simp; omega), List.getElem?_append_left (by simp; omega)]
          · rw [List.getElem?_append_right (by simp; omega), List.getElem?_append_right (by simp; omega)]
            have : i - (List.map (·.2) (st.2.take j)).length = (i - j - 1) + 1 := by simp; omega
            rw [this]; simp
        rw [e1]
        cases hg : (st.2.map (·.2))[i]? with
        | none => rfl
        | some ys =>
          simp only [Option.getD_some]
          apply List.map_congr_left
          intro y hy
          rw [List.getElem?_map] at hg
          cases hg2 : st.2[i]? with
          | none => rw [hg2] at hg; simp at hg
          | some e' =>
            rw [hg2] at hg; simp at hg; subst hg
            exact hold y (mem_allNodes.mpr ⟨e', List.mem_of_getElem? hg2, hy⟩)

end NitroVerif.SkipSeq

namespace NitroVerif.SkipSeq
open NitroVerif

theorem addedKeys_cons (i n : Nat) (op : BOp) (ops : List BOp) :
    addedKeys i n (op :: ops)
      = addedKeys i n [op] ++ addedKeys i (n + (if op = .new then 1 else 0)) ops := by
  cases op with
  | new => simp [addedKeys]
  | add j k lvl =>
    simp only [addedKeys]
    by_cases h : j = i ∧ j < n
    · rcases h with ⟨rfl, h2⟩; simp [h2]
    · simp [h]

theorem buildOK_init : BuildOK SL.init [] :=
  ⟨rep_init, by simp, by simp [allNodes], by simp [allNodes], by simp [allNodes], by simp [allNodes],
   by simp [allNodes], by simp [allNodes], by simp [allNodes, SL.init], by simp⟩

/-- every filling history keeps the build state consistent, and segment `i` holds exactly the keys
    that were added to it, in the order of the calls -/
theorem grun_ok : ∀ (ops : List BOp) (st : SL × List (Segment × List Nat)), BuildOK st.1 st.2 →
    BuildOK (grun st ops).1 (grun st ops).2 ∧
    ∀ i, segKeys (grun st ops) i = segKeys st i ++ addedKeys i st.2.length ops := by
  intro ops
  induction ops with
  | nil => intro st b; exact ⟨b, fun i => by simp [grun, addedKeys]⟩
  | cons op r ih =>
    intro st b
    rcases gstep_ok b op with ⟨b1, hk1, hl1⟩
    rcases ih _ b1 with ⟨b2, hk2⟩
    refine ⟨b2, ?_⟩
    intro i
    simp only [grun]
    rw [hk2 i, hk1 i, hl1, List.append_assoc, addedKeys_cons i st.2.length op r]

theorem allNodes_sublist {a b : List (Segment × List Nat)} (h : a.Sublist b) :
    (allNodes a).Sublist (allNodes b) := by
  induction h with
  | slnil => simp [allNodes]
  | cons e _ ih => rw [allNodes_cons]; exact List.Sublist.trans ih (List.sublist_append_right _ _)
  | cons_cons e _ ih => rw [allNodes_cons, allNodes_cons]; exact List.Sublist.append (List.Sublist.refl _) ih

theorem allNodes_perm {a b : List (Segment × List Nat)} (h : a.Perm b) : (allNodes a).Perm (allNodes b) :=
  List.Perm.flatten (List.Perm.map _ h)

/-- any selection of distinct segments, in any order, is a consistent build state as well -/
theorem BuildOK.select {s : SL} {segs sel : List (Segment × List Nat)} (b : BuildOK s segs)
    (hsel : ∃ sub, sub.Sublist segs ∧ sel.Perm sub) : BuildOK s sel := by
  rcases hsel with ⟨sub, hsub, hperm⟩
  have hs1 := allNodes_sublist hsub
  have hp1 := allNodes_perm hperm
  have hmem : ∀ y, y ∈ allNodes sel → y ∈ allNodes segs := fun y hy => hs1.subset (hp1.mem_iff.mp hy)
  have hemem : ∀ e, e ∈ sel → e ∈ segs := fun e he => hsub.subset (hperm.mem_iff.mp he)
  refine ⟨b.rep, fun e he => b.segok e (hemem e he), ?_, fun y hy => b.lo y (hmem y hy),
    fun y hy => b.hi y (hmem y hy), fun y hy => b.slots y (hmem y hy), fun y hy => b.keys y (hmem y hy),
    fun y hy => b.lvls y (hmem y hy), ?_, fun e he => b.stats e (hemem e he)⟩
  · exact hp1.nodup_iff.mpr (List.Nodup.sublist hs1 b.nodup)
  · have := hs1.length_le
    have := hp1.length_eq
    have := b.size
    omega

end NitroVerif.SkipSeq
