import NitroVerif.Lemmas.SkipSeqLevel
/-!
  `Insert2` on a quiescent skiplist.
-/
namespace NitroVerif.SkipSeq
open NitroVerif

/-- what an operation may have done to the nodes that existed before it: keys and heights are kept,
    and only the link words of the head and of live nodes (`L0`) may change -/
structure Ext (s s' : SL) (L0 : List Nat) : Prop where
  len : s.nodes.length ≤ s'.nodes.length
  key : ∀ n, n < s.nodes.length → keyOf s'.nodes n = keyOf s.nodes n
  lvl : ∀ n, n < s.nodes.length → levelOf s'.nodes n = levelOf s.nodes n
  frame : ∀ n, n < s.nodes.length → n ∉ L0 → n ≠ headId → ∀ l, getNext s'.nodes n l = getNext s.nodes n l

theorem Ext.of_sameBut {s s' : SL} (L0 : List Nat) (h : SameBut s s') : Ext s s' L0 :=
  ⟨by rw [h.nodes]; exact Nat.le_refl _, fun _ _ => by rw [h.nodes], fun _ _ => by rw [h.nodes],
   fun _ _ _ _ _ => by rw [h.nodes]⟩

theorem ikey_congr {h h' : Heap} {n : Nat} (hk : keyOf h' n = keyOf h n) : ikey h' n = ikey h n := by
  unfold ikey; rw [hk]

theorem cntLevel_congr {h h' : Heap} {L : List Nat} (g : Nat) (hl : ∀ n ∈ L, levelOf h' n = levelOf h n) :
    cntLevel h' L g = cntLevel h L g := by
  unfold cntLevel
  congr 1
  apply List.filter_congr
  intro n hn; rw [hl n hn]

/-- `Rep` only depends on the head, the tail and the nodes of the list -/
theorem Rep.congr {s s' : SL} {L0 : List Nat} (hr : Rep s L0)
    (hlen : s.nodes.length ≤ s'.nodes.length)
    (hsame : ∀ n, (n ∈ L0 ∨ n = headId ∨ n = tailId) →
      keyOf s'.nodes n = keyOf s.nodes n ∧ levelOf s'.nodes n = levelOf s.nodes n ∧
      nextLen s'.nodes n = nextLen s.nodes n ∧ ∀ l, getNext s'.nodes n l = getNext s.nodes n l)
    (hlv : s.level ≤ s'.level) (hlv2 : s'.level ≤ Gen.maxLevel) (hst : s'.stats = s.stats)
    (hbp : s'.buf.preds.length = s.buf.preds.length) (hbs : s'.buf.succs.length = s.buf.succs.length)
    (hstk : s'.stuck = s.stuck) : Rep s' L0 := by
  have hH := hsame headId (Or.inr (Or.inl rfl))
  have hT := hsame tailId (Or.inr (Or.inr rfl))
  have hlvl : ∀ n ∈ L0, levelOf s'.nodes n = levelOf s.nodes n := fun n hn => (hsame n (Or.inl hn)).2.1
  have hik : ∀ n ∈ L0, ikey s'.nodes n = ikey s.nodes n := fun n hn => ikey_congr (hsame n (Or.inl hn)).1
  refine ⟨⟨?_, ?_, ?_, ?_, ?_⟩, hlv2, ?_, ?_, ?_, ⟨?_, ?_, ?_, ?_⟩, ?_, ?_, ?_, ?_⟩
  · have := hr.base.len; omega
  · rw [hH.1]; exact hr.base.headKey
  · rw [hT.1]; exact hr.base.tailKey
  · rw [hH.2.2.1]; exact hr.base.headLen
  · intro l; rw [hT.2.2.2 l]; exact hr.base.tailFlag l
  · intro n hn
    have hs := hsame n (Or.inl hn)
    have ho := hr.nodes n hn
    refine ⟨ho.lo, by have := ho.hi; omega, ?_, ?_, ?_⟩
    · rw [hs.1, hik n hn]; exact ho.key
    · rw [hs.2.1]; have := ho.lvl; omega
    · rw [hs.2.2.1, hs.2.1]; exact ho.len
  · apply List.Pairwise.imp_of_mem _ hr.sorted
    intro a b ha hb hab; rw [hik a ha, hik b hb]; exact hab
  · intro l hl
    rw [LL_congr l hlvl]
    rw [path_congr (mk := nomk) (h := s.nodes)]
    · exact hr.paths l hl
    · intro a ha
      refine ⟨?_, rfl⟩
      simp only [List.cons_append, List.mem_cons, List.mem_append, List.not_mem_nil, or_false] at ha
      rcases ha with e | e | e
      · exact (hsame a (Or.inr (Or.inl e))).2.2.2 l
      · exact (hsame a (Or.inl (mem_LL.mp e).1)).2.2.2 l
      · exact (hsame a (Or.inr (Or.inr e))).2.2.2 l
  · rw [hst]; exact hr.stats.len
  · intro g hg; rw [hst, cntLevel_congr g hlvl]; exact hr.stats.dist g hg
  · rw [hst]; exact hr.stats.soft
  · rw [hst]; exact hr.stats.frees
  · have := hr.size; omega
  · rw [hbp]; exact hr.bufP
  · rw [hbs]; exact hr.bufS
  · rw [hstk]; exact hr.live

/-! ### `NewLevel` and `newNode` -/

theorem newLevel_spec (s : SL) (req : Nat) (hl : s.level ≤ Gen.maxLevel) :
    (newLevel s req).1.nodes = s.nodes ∧ (newLevel s req).1.stats = s.stats ∧
    (newLevel s req).1.buf = s.buf ∧ (newLevel s req).1.stuck = s.stuck ∧
    s.level ≤ (newLevel s req).1.level ∧ (newLevel s req).1.level ≤ s.level + 1 ∧
    (newLevel s req).1.level ≤ Gen.maxLevel ∧ (newLevel s req).2 ≤ (newLevel s req).1.level := by
  unfold newLevel
  by_cases hb : Gen.newLevelBump (Gen.newLevelClamp req) s.level = true
  · simp only [hb, if_true]
    have := (newLevelBump_iff _ _).mp hb
    have := newLevelClamp_le req
    refine ⟨?_, ?_, ?_, ?_, ?_, ?_, ?_, ?_⟩ <;> first | trivial | rfl | omega
  · simp only [hb]
    have : ¬ s.level < Gen.newLevelClamp req := fun h => hb ((newLevelBump_iff _ _).mpr h)
    refine ⟨?_, ?_, ?_, ?_, ?_, ?_, ?_, ?_⟩ <;> first | trivial | rfl | omega | (simp <;> omega)

theorem Rep.newLevel {s : SL} {L0 : List Nat} (hr : Rep s L0) (req : Nat) :
    Rep (newLevel s req).1 L0 := by
  have h := newLevel_spec s req hr.lvl
  apply hr.congr (by rw [h.1]; exact Nat.le_refl _) (fun n _ => by rw [h.1]; simp) h.2.2.2.2.1 h.2.2.2.2.2.2.1 h.2.1
    (by rw [h.2.2.1]) (by rw [h.2.2.1]) h.2.2.2.1

theorem Rep.lt_length {s : SL} {L0 : List Nat} (hr : Rep s L0) {n : Nat}
    (hn : n ∈ L0 ∨ n = headId ∨ n = tailId) : n < s.nodes.length := by
  rcases hn with h | h | h
  · exact (hr.nodes n h).hi
  · have := hr.base.len; rw [h]; unfold headId; omega
  · have := hr.base.len; rw [h]; unfold tailId; omega

theorem Rep.newNode {s : SL} {L0 : List Nat} (hr : Rep s L0) (k : Key) (lv : Nat) :
    Rep (newNode s k lv).1 L0 := by
  apply hr.congr
  · simp [SkipSeq.newNode]
  · intro n hn
    have hlt := hr.lt_length hn
    simp only [SkipSeq.newNode]
    exact ⟨keyOf_append_old hlt, levelOf_append_old hlt, nextLen_append_old hlt,
      fun l => getNext_append_old hlt l⟩
  · exact Nat.le_refl _
  · exact hr.lvl
  · rfl
  · rfl
  · rfl
  · rfl

/-! ### `setNexts` -/

theorem setNexts_spec (x : Nat) : ∀ (n i : Nat) (s : SL),
    (∀ j, i ≤ j → j < i + n → j < nextLen s.nodes x) →
    (setNexts x n i s).level = s.level ∧ (setNexts x n i s).stats = s.stats ∧
    (setNexts x n i s).buf = s.buf ∧ (setNexts x n i s).stuck = s.stuck ∧
    (setNexts x n i s).nodes.length = s.nodes.length ∧
    (∀ m, keyOf (setNexts x n i s).nodes m = keyOf s.nodes m ∧
          levelOf (setNexts x n i s).nodes m = levelOf s.nodes m ∧
          nextLen (setNexts x n i s).nodes m = nextLen s.nodes m) ∧
    (∀ m l, getNext (setNexts x n i s).nodes m l
        = if m = x ∧ i ≤ l ∧ l < i + n then (s.buf.succs.getD l 0, false) else getNext s.nodes m l) := by
  intro n
  induction n with
  | zero =>
    intro i s _
    simp only [setNexts]
    refine ⟨trivial, trivial, trivial, trivial, trivial, fun m => ⟨trivial, trivial, trivial⟩, ?_⟩
    intro m l
    have : ¬ (m = x ∧ i ≤ l ∧ l < i + 0) := by omega
    rw [if_neg this]
  | succ n ih =>
    intro i s hs
    simp only [setNexts]
    have hslot : i < nextLen s.nodes x := hs i (Nat.le_refl _) (by omega)
    have := ih (i + 1) { s with nodes := setNext s.nodes x i (s.buf.succs.getD i 0, false) }
      (by intro j h1 h2; simp only [nextLen_setNext]; exact hs j (by omega) (by omega))
    rcases this with ⟨a1, a2, a3, a4, a5, a6, a7⟩
    refine ⟨a1, a2, a3, a4, ?_, ?_, ?_⟩
    · rw [a5]; simp [length_setNext]
    · intro m
      rcases a6 m with ⟨b1, b2, b3⟩
      exact ⟨by rw [b1]; simp [keyOf_setNext], by rw [b2]; simp [levelOf_setNext],
        by rw [b3]; simp [nextLen_setNext]⟩
    · intro m l
      rw [a7 m l]
      simp only
      by_cases hc : m = x ∧ i + 1 ≤ l ∧ l < i + 1 + n
      · rw [if_pos hc, if_pos ⟨hc.1, by omega, by omega⟩]
      · rw [if_neg hc, getNext_setNext hslot]
        by_cases hd : x = m ∧ i = l
        · rw [if_pos hd, if_pos ⟨hd.1.symm, by omega, by omega⟩, hd.2]
        · rw [if_neg hd]
          have : ¬ (m = x ∧ i ≤ l ∧ l < i + (n + 1)) := by
            intro h; rcases h with ⟨h1, h2, h3⟩
            by_cases hil : i = l
            · exact hd ⟨h1.symm, hil⟩
            · exact hc ⟨h1, by omega, by omega⟩
          rw [if_neg this]

end NitroVerif.SkipSeq
