import NitroVerif.Lemmas.SkipConcLin
/-!
  PHASES of a call and the transition lemma `stepThread_trans`.

  Every program counter belongs to one phase of one kind of call (`phase`):
    Insert   : `insPre k` (NEW_LEVEL, the searches before the publish, INS_PUBLISH) → `insPost k` (upper levels)
    Delete   : `delFind k L` (the lookup; `L` = ghost `startLen`) → `delMark k nd marked` (SOFT_MARK on node `nd`)
               → `delClean k` (DEL_SEARCH and the cleaning search)
    Lookup   : `look k L`
    iterator : `iter`
  `stepThread_trans` says, for a segment of a thread in each phase, what happens to the level-0 marks
  (`UnmSame` / `PublishEff` / `MarkEff`), what the next phase is, and — when the call returns — which answer is
  printed together with the fact that justifies it in THIS state (hit: the item is in the abstract set; miss: every
  node with the item published before the search began is marked; lost mark race: the node is marked now).
-/
namespace NitroVerif.SkipConc
open NitroVerif

inductive Kind where
  | none
  | ins (k : Nat)
  | del (k : Nat)
  | look (k : Nat)
  | iter
deriving DecidableEq, Repr

inductive Phase where
  | idle
  | insPre (k : Nat)
  | insPost (k : Nat)
  | delFind (k L : Nat)
  | delMark (k nd : Nat) (marked : Bool)
  | delClean (k : Nat)
  | look (k L : Nat)
  | iter
deriving Repr

def contPhase (item L : Nat) : Cont → Phase
  | .insFirst _ => .insPre item
  | .insRetry _ => .insPre item
  | .insRelink _ _ _ => .insPost item
  | .insSuccDeleted _ _ _ => .insPost item
  | .insUnlink _ _ => .insPost item
  | .delSearch => .delFind item L
  | .delClean => .delClean item
  | .lookup => .look item L
  | .iterNext _ => .iter
  | .iterSeek _ => .iter
  | .iterRefresh _ => .iter

def fpPhase (fp : FP) : Phase := contPhase fp.item fp.startLen fp.cont

def phase : PC → Phase
  | .idle => .idle
  | .newLevel item _ _ => .insPre item
  | .findLevel fp => fpPhase fp
  | .findNext fp _ => fpPhase fp
  | .helpDelete fp _ => fpPhase fp
  | .insPublish item _ => .insPre item
  | .insUpRead item _ _ _ => .insPost item
  | .insUpLink item _ _ _ _ => .insPost item
  | .softMark item n _ _ marked => .delMark item n marked
  | .delSearch item => .delClean item
  | .iterNext _ => .iter
  | .iterHelp _ _ => .iter
  | .iterRefresh _ => .iter

def kindOf : Phase → Kind
  | .idle => .none
  | .insPre k => .ins k
  | .insPost k => .ins k
  | .delFind k _ => .del k
  | .delMark k _ _ => .del k
  | .delClean k => .del k
  | .look k _ => .look k
  | .iter => .iter

def opKind : Op → Kind
  | .ins k _ => .ins k
  | .del k => .del k
  | .look k => .look k
  | _ => .iter

/-- the phase a call is in right after its entry (`L` = number of published nodes at the entry) -/
def startPhase (L : Nat) : Op → Phase
  | .ins k _ => .insPre k
  | .del k => .delFind k L
  | .look k => .look k L
  | _ => .iter

theorem kindOf_startPhase (L : Nat) (op : Op) : kindOf (startPhase L op) = opKind op := by
  cases op <;> rfl

theorem phase_idle_iff (pc : PC) : phase pc = .idle ↔ pc = .idle := by
  constructor
  · intro h
    cases pc with
    | idle => rfl
    | findLevel fp | findNext fp _ | helpDelete fp _ =>
      simp only [phase, fpPhase] at h
      cases hc : fp.cont <;> rw [hc] at h <;> simp [contPhase] at h
    | _ => simp [phase] at h
  · rintro rfl; rfl

/-- what a segment of a thread in phase `ph` does: heap `h ↦ h'`, next program counter `pc'`, printed line `out` -/
def Trans (h h' : Heap) (pc' : PC) (out : String) : Phase → Prop
  | .idle => True
  | .insPre k =>
    (UnmSame h h' ∧ phase pc' = .insPre k) ∨
    (UnmSame h h' ∧ pc' = .idle ∧ out = "ret false" ∧ absOf h k) ∨
    (PublishEff h h' k ∧ (phase pc' = .insPost k ∨ (pc' = .idle ∧ out = "ret true")))
  | .insPost k => UnmSame h h' ∧ (phase pc' = .insPost k ∨ (pc' = .idle ∧ out = "ret true"))
  | .delFind k L => UnmSame h h' ∧
    (phase pc' = .delFind k L ∨
     (∃ nd, phase pc' = .delMark k nd false ∧ unmarked0 h nd ∧ keyOf h nd = .fin k) ∨
     (pc' = .idle ∧ out = "ret false" ∧ ∀ m, m < L → keyOf h m = .fin k → ¬ unmarked0 h m))
  | .delMark k nd m =>
    (MarkEff h h' nd ∧ (phase pc' = .delMark k nd true ∨ phase pc' = .delClean k)) ∨
    (UnmSame h h' ∧ (phase pc' = .delMark k nd m ∨ (m = true ∧ phase pc' = .delClean k) ∨
      (m = false ∧ pc' = .idle ∧ out = "ret false" ∧ marked0 h' nd)))
  | .delClean k => UnmSame h h' ∧ (phase pc' = .delClean k ∨ (pc' = .idle ∧ out = "ret true"))
  | .look k L => UnmSame h h' ∧
    (phase pc' = .look k L ∨ (pc' = .idle ∧ out = "ret true" ∧ absOf h k) ∨
     (pc' = .idle ∧ out = "ret false" ∧ ∀ m, m < L → keyOf h m = .fin k → ¬ unmarked0 h m))
  | .iter => UnmSame h h' ∧ (phase pc' = .iter ∨ pc' = .idle)

theorem Trans_same {h h' : Heap} {pc' : PC} {out : String} {ph : Phase} (u : UnmSame h h') (hp : phase pc' = ph) :
    Trans h h' pc' out ph := by
  cases ph with
  | idle => trivial
  | insPre k => exact .inl ⟨u, hp⟩
  | insPost k => exact ⟨u, .inl hp⟩
  | delFind k L => exact ⟨u, .inl hp⟩
  | delMark k nd m => exact .inr ⟨u, .inl hp⟩
  | delClean k => exact ⟨u, .inl hp⟩
  | look k L => exact ⟨u, .inl hp⟩
  | iter => exact ⟨u, .inl hp⟩

/-- a segment that is neither a level-0 SOFT_MARK nor an INS_PUBLISH leaves the level-0 marks alone -/
theorem unmSame_step {sh : Shared} {th : Thread} (hT : TInv sh.heap th)
    (h1 : ∀ item n next m, th.pc ≠ .softMark item n 0 next m) (h2 : ∀ k lvl, th.pc ≠ .insPublish k lvl) :
    UnmSame sh.heap (stepThread sh th).1.heap := by
  obtain ⟨ev, hs, hev⟩ := stepThread_hstep hT
  cases ev with
  | none => exact hs.frame (.inl rfl)
  | upper => exact hs.frame (.inr (.inl rfl))
  | unlink c => exact hs.frame (.inr (.inr ⟨c, rfl⟩))
  | mark nd => obtain ⟨item, next, marked, hpc⟩ := hev; exact absurd hpc (h1 _ _ _ _)
  | publish x k => obtain ⟨lvl, hpc⟩ := hev; exact absurd hpc (h2 _ _)

/-! ### the pieces -/

theorem insFinished_ret (sh : Shared) (th : Thread) (lvl : Nat) :
    (insFinished sh th lvl).2.1.pc = .idle ∧ (insFinished sh th lvl).2.2 = "ret true" := ⟨rfl, rfl⟩

theorem afterNext_phase (sh : Shared) (th : Thread) (it : Nat) :
    phase (afterNext sh th it).2.1.pc = .iter ∨ (afterNext sh th it).2.1.pc = .idle := by
  unfold afterNext
  simp only []
  split
  · split
    · exact .inl rfl
    · exact .inr rfl
  · exact .inr rfl

theorem insCheckSucc_phase (sh : Shared) (th : Thread) (item x lvl i next : Nat) :
    phase (insCheckSucc sh th item x lvl i next).2.1.pc = .insPost item := by
  unfold insCheckSucc
  split <;> rfl

theorem stepInsUpRead_pc (sh : Shared) (th : Thread) (item x lvl i : Nat) :
    phase (stepInsUpRead sh th item x lvl i).2.1.pc = .insPost item ∨
    ((stepInsUpRead sh th item x lvl i).2.1.pc = .idle ∧ (stepInsUpRead sh th item x lvl i).2.2 = "ret true") := by
  unfold stepInsUpRead
  simp only []
  split
  · exact .inr (insFinished_ret ..)
  · split
    · split
      · exact .inl (insCheckSucc_phase ..)
      · exact .inr (insFinished_ret ..)
    · exact .inl (insCheckSucc_phase ..)

theorem stepInsUpLink_pc (sh : Shared) (th : Thread) (item x lvl i next : Nat) :
    phase (stepInsUpLink sh th item x lvl i next).2.1.pc = .insPost item ∨
    ((stepInsUpLink sh th item x lvl i next).2.1.pc = .idle ∧
      (stepInsUpLink sh th item x lvl i next).2.2 = "ret true") := by
  unfold stepInsUpLink
  simp only []
  split
  · split
    · exact .inl rfl
    · split
      · exact .inl rfl
      · exact .inr (insFinished_ret ..)
  · exact .inl rfl

theorem stepIterNext_pc (sh : Shared) (th : Thread) (it : Nat) :
    phase (stepIterNext sh th it).2.1.pc = .iter ∨ (stepIterNext sh th it).2.1.pc = .idle := by
  unfold stepIterNext
  simp only []
  split
  · exact .inl rfl
  · exact afterNext_phase ..

theorem stepIterHelp_pc (sh : Shared) (th : Thread) (it next : Nat) :
    phase (stepIterHelp sh th it next).2.1.pc = .iter ∨ (stepIterHelp sh th it next).2.1.pc = .idle := by
  unfold stepIterHelp
  simp only []
  split
  · exact afterNext_phase ..
  · exact .inl rfl

theorem stepHelpDelete_phase (sh : Shared) (th : Thread) (fp : FP) (next : Nat) :
    phase (stepHelpDelete sh th fp next).2.1.pc = fpPhase fp := by
  unfold stepHelpDelete
  simp only []
  split <;> rfl

/-- softDelete resumed at level `i` with result flag `m`: the next yield point -/
theorem enterSoft_cases (sh : Shared) (th : Thread) (item n i : Nat) (m : Bool) :
    (∃ j next, (enterSoft sh th item n i m).2.1.pc = .softMark item n j next m) ∨
    (m = true ∧ (enterSoft sh th item n i m).2.1.pc = .delSearch item) ∨
    (m = false ∧ (enterSoft sh th item n i m).2.1.pc = .idle ∧ (enterSoft sh th item n i m).2.2 = "ret false" ∧
      (getNext sh.heap n 0).2 = true) := by
  unfold enterSoft
  split
  · rename_i j next _; exact .inl ⟨j, next, rfl⟩
  · rename_i hsc
    have h0 := softScan_none _ hsc
    cases m with
    | true => exact .inr (.inl ⟨rfl, rfl⟩)
    | false => exact .inr (.inr ⟨rfl, rfl, rfl, h0⟩)

/-- findPath after a read: it goes on inside the same findPath call, or it returns to its caller (level 0, the
    read word unmarked, no advance) -/
theorem afterRead_cases (sh : Shared) (th : Thread) (fp : FP) (next : Nat) (deleted : Bool) :
    (phase (afterRead sh th fp next deleted).2.1.pc = fpPhase fp) ∨
    (deleted = false ∧ fp.i = 0 ∧
      afterRead sh th fp next deleted =
        finishFind sh { th with preds := th.preds.set 0 fp.prev, succs := th.succs.set 0 fp.curr } fp.item
          (Gen.findFound (compare (keyOf sh.heap fp.curr) (.fin fp.item))) fp.cont) := by
  unfold afterRead
  split
  · exact .inl rfl
  · rename_i hd
    simp only []
    split
    · exact .inl rfl
    · cases hi : fp.i with
      | succ i => exact .inl rfl
      | zero => exact .inr ⟨by simpa using hd, rfl, rfl⟩

/-- findPath returns to its caller: the rest of the caller's segment, phase by phase -/
theorem finishFind_trans {sh : Shared} {th1 : Thread} {item L : Nat} {found : Bool} {cont : Cont}
    (hfound : found = true → unmarked0 sh.heap (th1.succ 0) ∧ keyOf sh.heap (th1.succ 0) = .fin item)
    (hmiss : found = false → (cont = .lookup ∨ cont = .delSearch) →
      ∀ m, m < L → keyOf sh.heap m = .fin item → ¬ unmarked0 sh.heap m) :
    Trans sh.heap sh.heap (finishFind sh th1 item found cont).2.1.pc (finishFind sh th1 item found cont).2.2
      (contPhase item L cont) := by
  have u := UnmSame.refl sh.heap
  cases cont with
  | insFirst lvl =>
    cases found with
    | true => exact .inr (.inl ⟨u, rfl, rfl, ⟨_, hfound rfl⟩⟩)
    | false => exact .inl ⟨u, rfl⟩
  | insRetry lvl =>
    cases found with
    | true => exact .inr (.inl ⟨u, rfl, rfl, ⟨_, hfound rfl⟩⟩)
    | false => exact .inl ⟨u, rfl⟩
  | insRelink x lvl i => exact ⟨u, .inl rfl⟩
  | insSuccDeleted x lvl i => exact ⟨u, .inl rfl⟩
  | insUnlink x lvl => exact ⟨u, .inr ⟨rfl, rfl⟩⟩
  | delSearch =>
    cases found with
    | false => exact ⟨u, .inr (.inr ⟨rfl, rfl, hmiss rfl (.inr rfl)⟩)⟩
    | true =>
      refine ⟨u, ?_⟩
      simp only [finishFind, if_true]
      rcases enterSoft_cases sh th1 item (th1.succ 0) (heightOf sh.heap (th1.succ 0)) false with
        ⟨j, next, h⟩ | ⟨h, _⟩ | ⟨_, _, _, h⟩
      · exact .inr (.inl ⟨th1.succ 0, by rw [h]; rfl, hfound rfl⟩)
      · simp at h
      · obtain ⟨p, hp⟩ := (hfound rfl).1
        rw [getNext_of_word hp] at h
        simp at h
  | delClean => exact ⟨u, .inr ⟨rfl, rfl⟩⟩
  | lookup =>
    cases found with
    | true => exact ⟨u, .inr (.inl ⟨rfl, rfl, ⟨_, hfound rfl⟩⟩)⟩
    | false => exact ⟨u, .inr (.inr ⟨rfl, rfl, hmiss rfl (.inl rfl)⟩)⟩
  | iterNext it =>
    refine ⟨u, ?_⟩
    simp only [finishFind]
    split
    · exact .inl rfl
    · exact afterNext_phase ..
  | iterSeek it => exact ⟨u, .inr rfl⟩
  | iterRefresh it => exact ⟨u, .inr rfl⟩

/-- FIND_NEXT: the read, then `afterRead` -/
theorem stepFindNext_trans {sh : Shared} {th : Thread} (H : HInv sh.heap) (fp : FP) (rr : Bool)
    (hpc : th.pc = .findNext fp rr) (hT : TInv sh.heap th) (hS : SInv sh.heap th) :
    Trans sh.heap sh.heap (stepFindNext sh th fp rr).2.1.pc (stepFindNext sh th fp rr).2.2 (fpPhase fp) := by
  have hmissAll := search_miss H fp rr hpc hT hS
  unfold stepFindNext at hmissAll ⊢
  generalize hfp1 : (if rr = true then { fp with curr := (getNext sh.heap fp.prev fp.i).1 } else fp) = fp1
    at hmissAll ⊢
  have hitem : fp1.item = fp.item := by rw [← hfp1]; split <;> rfl
  have hcont : fp1.cont = fp.cont := by rw [← hfp1]; split <;> rfl
  have hlen : fp1.startLen = fp.startLen := by rw [← hfp1]; split <;> rfl
  have hph : fpPhase fp1 = fpPhase fp := by unfold fpPhase; rw [hitem, hcont, hlen]
  simp only [] at hmissAll ⊢
  rcases afterRead_cases sh th fp1 (getNext sh.heap fp1.curr fp1.i).1 (getNext sh.heap fp1.curr fp1.i).2 with
    h | ⟨hd, hi0, heq⟩
  · exact Trans_same (UnmSame.refl _) (h.trans hph)
  · rw [heq] at hmissAll ⊢
    rw [← hph]
    unfold fpPhase
    have hsucc : ({ th with preds := th.preds.set 0 fp1.prev, succs := th.succs.set 0 fp1.curr } : Thread).succ 0 =
        fp1.curr := by
      simp only [Thread.succ]
      exact getD_set_self hT.1.2.1
    refine finishFind_trans ?_ ?_
    · intro hf
      rw [hsucc]
      rw [hi0] at hd
      exact found_present H hd hf
    · intro hf hc m hm hk
      rw [hlen] at hm
      rw [hitem] at hk
      refine hmissAll ?_ m hm hk
      rw [hf, ← hcont]
      rcases hc with hc | hc
      · rw [hc]; exact .inl ⟨rfl, rfl⟩
      · rw [hc]; exact .inr (.inr ⟨rfl, rfl⟩)

/-- INS_PUBLISH -/
theorem stepInsPublish_trans {sh : Shared} {th : Thread} (H : HInv sh.heap) (R : ReachInv sh.heap) (item lvl : Nat)
    (hp : Key.lt (keyOf sh.heap (th.pred 0)) (.fin item) ∧ Key.lt (.fin item) (keyOf sh.heap (th.succ 0))) :
    Trans sh.heap (stepInsPublish sh th item lvl).1.heap (stepInsPublish sh th item lvl).2.1.pc
      (stepInsPublish sh th item lvl).2.2 (.insPre item) := by
  unfold stepInsPublish
  simp only []
  split
  · rename_i hs
    have hw := (dcas_ok_iff ..).mp hs
    have hst : HStep sh.heap (.publish sh.heap.length item)
        (setWord sh.heap (th.pred 0) 0 (sh.heap.length, false) ++ [newNode th item lvl]) :=
      .publish item (newNode th item lvl) hw (newNode_next0 ..) rfl hp.1 hp.2
    have pe : PublishEff sh.heap
        (setWord sh.heap (th.pred 0) 0 (sh.heap.length, false) ++ [newNode th item lvl]) item := by
      obtain ⟨_, h2, h3, h4, h5, h6⟩ := hst.publish_spec H R
      exact ⟨h2, h3, h4, h5, h6⟩
    rw [dcas_ok_heap _ _ _ _ _ _ hs]
    split
    · exact .inr (.inr ⟨pe, .inl rfl⟩)
    · exact .inr (.inr ⟨pe, .inr ⟨rfl, rfl⟩⟩)
  · exact .inl ⟨UnmSame.refl _, rfl⟩

/-- SOFT_MARK, with the shared state after the CAS kept abstract -/
theorem softMark_core {sh sh1 : Shared} {th : Thread} {item n i next : Nat} {marked : Bool} (wins : Bool)
    (hh : sh1.heap = (dcas sh.heap n i next next true).1)
    (hw : wins = Gen.softDeleteWins (dcas sh.heap n i next next true).2 i) :
    Trans sh.heap sh1.heap (enterSoft sh1 th item n i (marked || wins)).2.1.pc
      (enterSoft sh1 th item n i (marked || wins)).2.2 (.delMark item n marked) := by
  cases hwv : wins with
  | true =>
    have hwin := (softDeleteWins_iff _ _).mp (hw ▸ hwv)
    obtain ⟨hok, hi0⟩ := hwin
    subst hi0
    have hword := (dcas_ok_iff ..).mp hok
    have hst : HStep sh.heap (.mark n) sh1.heap := by
      rw [hh, dcas_ok_heap _ _ _ _ _ _ hok]; exact .mark hword
    have me : MarkEff sh.heap sh1.heap n := hst.mark_spec
    refine .inl ⟨me, ?_⟩
    simp only [Bool.or_true]
    rcases enterSoft_cases sh1 th item n 0 true with ⟨j, nx, h⟩ | ⟨_, h⟩ | ⟨h, _⟩
    · exact .inl (by rw [h]; rfl)
    · exact .inr (by rw [h]; rfl)
    · simp at h
  | false =>
    have hnw : ¬ ((dcas sh.heap n i next next true).2 = true ∧ i = 0) := by
      intro hc
      have := (softDeleteWins_iff _ _).mpr hc
      rw [← hw, hwv] at this; simp at this
    have u : UnmSame sh.heap sh1.heap := by
      rw [hh]
      by_cases hi : 1 ≤ i
      · obtain ⟨ev, h1, h2⟩ := dcas_upper sh.heap n i next next true hi
        exact h1.frame (by rcases h2 with h2 | h2 <;> simp [h2])
      · have hi0 : i = 0 := by omega
        have hf : (dcas sh.heap n i next next true).2 = false := by
          cases hd : (dcas sh.heap n i next next true).2 with
          | false => rfl
          | true => exact absurd ⟨hd, hi0⟩ hnw
        rw [dcas_fail _ _ _ _ _ _ hf]
        exact UnmSame.refl _
    refine .inr ⟨u, ?_⟩
    simp only [Bool.or_false]
    rcases enterSoft_cases sh1 th item n i marked with ⟨j, nx, h⟩ | ⟨hm, h⟩ | ⟨hm, h1, h2, h3⟩
    · exact .inl (by rw [h]; rfl)
    · exact .inr (.inl ⟨hm, by rw [h]; rfl⟩)
    · exact .inr (.inr ⟨hm, h1, h2, ⟨_, word?_of_getNext_marked h3⟩⟩)

theorem stepSoftMark_trans (sh : Shared) (th : Thread) (item n i next : Nat) (marked : Bool) :
    Trans sh.heap (stepSoftMark sh th item n i next marked).1.heap (stepSoftMark sh th item n i next marked).2.1.pc
      (stepSoftMark sh th item n i next marked).2.2 (.delMark item n marked) := by
  unfold stepSoftMark
  simp only []
  rw [enterSoft_sh]
  exact softMark_core _ (by split <;> rfl) rfl

/-- the entry of a call: the thread stays idle (an iterator operation without a yield point, a refused operation)
    or enters the first phase of its kind of call -/
theorem startOp_phase (sh : Shared) (th : Thread) (op : Op) (hidle : th.pc = .idle) :
    (startOp sh th op).2.1.pc = .idle ∨ phase (startOp sh th op).2.1.pc = startPhase sh.heap.length op := by
  cases op <;> simp only [startOp]
  · split
    · exact .inr rfl
    · exact .inr rfl
  · exact .inr rfl
  · exact .inr rfl
  · exact .inl (by simp only [Thread.moveIter, Thread.setIter, hidle])
  · exact .inr rfl
  · split
    · split
      · exact .inr rfl
      · exact .inl hidle
    · exact .inl hidle
  · split
    · exact .inl (by simp only [hidle])
    · exact .inl hidle
  · split
    · split
      · exact .inl (by simp only [Thread.setIter, hidle])
      · exact .inl hidle
    · exact .inl hidle
  · split
    · split
      · exact .inr rfl
      · exact .inl hidle
    · exact .inl hidle

/-! ### the transition lemma -/

/-- TRANSITION LEMMA: a segment of a thread, seen from the phase of its call -/
theorem stepThread_trans {sh : Shared} {th : Thread} (H : HInv sh.heap) (R : ReachInv sh.heap)
    (hT : TInv sh.heap th) (hS : SInv sh.heap th) :
    Trans sh.heap (stepThread sh th).1.heap (stepThread sh th).2.1.pc (stepThread sh th).2.2 (phase th.pc) := by
  have hp := hT.2.2
  cases hpc : th.pc with
  | idle => trivial
  | newLevel item req level =>
    have hst : stepThread sh th = stepNewLevel sh th item req level := by unfold stepThread; rw [hpc]
    rw [hst]
    unfold stepNewLevel
    split
    · exact .inl ⟨UnmSame.refl _, rfl⟩
    · exact .inl ⟨UnmSame.refl _, rfl⟩
  | findLevel fp =>
    have hst : stepThread sh th = stepFindLevel sh th fp := by unfold stepThread; rw [hpc]
    rw [hst]
    exact Trans_same (UnmSame.refl _) rfl
  | findNext fp rr =>
    have hst : stepThread sh th = stepFindNext sh th fp rr := by unfold stepThread; rw [hpc]
    rw [hst]
    have h2 : (stepFindNext sh th fp rr).1.heap = sh.heap := by unfold stepFindNext; exact afterRead_heap ..
    rw [h2]
    exact stepFindNext_trans H fp rr hpc hT hS
  | helpDelete fp next =>
    have u := unmSame_step hT (by simp [hpc]) (by simp [hpc])
    have hst : stepThread sh th = stepHelpDelete sh th fp next := by unfold stepThread; rw [hpc]
    rw [hst] at u ⊢
    exact Trans_same u (stepHelpDelete_phase ..)
  | insPublish item lvl =>
    have hst : stepThread sh th = stepInsPublish sh th item lvl := by unfold stepThread; rw [hpc]
    rw [hst]
    rw [hpc] at hp
    exact stepInsPublish_trans H R item lvl ⟨hp.1, hp.2.1⟩
  | insUpRead item x lvl i =>
    have u := unmSame_step hT (by simp [hpc]) (by simp [hpc])
    have hst : stepThread sh th = stepInsUpRead sh th item x lvl i := by unfold stepThread; rw [hpc]
    rw [hst] at u ⊢
    exact ⟨u, stepInsUpRead_pc ..⟩
  | insUpLink item x lvl i next =>
    have u := unmSame_step hT (by simp [hpc]) (by simp [hpc])
    have hst : stepThread sh th = stepInsUpLink sh th item x lvl i next := by unfold stepThread; rw [hpc]
    rw [hst] at u ⊢
    exact ⟨u, stepInsUpLink_pc ..⟩
  | softMark item n i next marked =>
    have hst : stepThread sh th = stepSoftMark sh th item n i next marked := by unfold stepThread; rw [hpc]
    rw [hst]
    exact stepSoftMark_trans ..
  | delSearch item =>
    have hst : stepThread sh th = startFind sh th item .delClean := by unfold stepThread; rw [hpc]
    rw [hst]
    exact ⟨UnmSame.refl _, .inl rfl⟩
  | iterNext it =>
    have u := unmSame_step hT (by simp [hpc]) (by simp [hpc])
    have hst : stepThread sh th = stepIterNext sh th it := by unfold stepThread; rw [hpc]
    rw [hst] at u ⊢
    exact ⟨u, stepIterNext_pc ..⟩
  | iterHelp it next =>
    have u := unmSame_step hT (by simp [hpc]) (by simp [hpc])
    have hst : stepThread sh th = stepIterHelp sh th it next := by unfold stepThread; rw [hpc]
    rw [hst] at u ⊢
    exact ⟨u, stepIterHelp_pc ..⟩
  | iterRefresh it =>
    have hst : stepThread sh th = stepIterRefresh sh th it := by unfold stepThread; rw [hpc]
    rw [hst]
    exact ⟨UnmSame.refl _, .inl rfl⟩

end NitroVerif.SkipConc
