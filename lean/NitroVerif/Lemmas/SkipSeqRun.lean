import NitroVerif.Lemmas.SkipSeqWF
/-!
  The empty skiplist satisfies the representation invariant; the simulation lifts from one step to
  whole scripts.
-/
namespace NitroVerif.SkipSeq
open NitroVerif NitroVerif.OrdSet

theorem getNext_init_head (l : Nat) (hl : l ≤ Gen.maxLevel) :
    getNext SL.init.nodes headId l = (tailId, false) := by
  have : l < Gen.maxLevel + 1 := by omega
  simp [SL.init, getNext, headId, List.getD_eq_getElem?_getD, List.getElem?_replicate, this]

theorem getNext_init_tail (l : Nat) : (getNext SL.init.nodes tailId l).2 = false := by
  simp only [SL.init, getNext, tailId, List.getD_eq_getElem?_getD, List.getElem?_replicate]
  by_cases h : l < Gen.maxLevel + 1 <;> simp [h, nilId]

theorem rep_init : Rep SL.init [] := by
  refine ⟨⟨by simp [SL.init], by simp [SL.init, keyOf, headId], by simp [SL.init, keyOf, tailId],
      by simp [SL.init, nextLen, headId], getNext_init_tail⟩, by simp [SL.init], by simp, by simp, ?_,
    ⟨by simp [SL.init, Stats.zero], ?_, by simp [SL.init, Stats.zero], by simp [SL.init, Stats.zero]⟩,
    by simp [SL.init], by simp [SL.init], by simp [SL.init], by simp [SL.init]⟩
  · intro l hl
    simp only [LL, List.filter_nil, List.cons_append, List.nil_append, path_cons_cons, path_single, and_true]
    rw [getNext_init_head l hl]; rfl
  · intro g hg
    have : g < Gen.maxLevel + 1 := by omega
    simp [SL.init, Stats.zero, cntLevel, List.getD_eq_getElem?_getD, List.getElem?_replicate, this]

theorem sim_init : Sim St.init SpecSt.init [] :=
  ⟨rep_init, by simp [SpecSt.init], by simp [St.init, SpecSt.init, HRel]⟩

/-- number of successful inserts of a script, read off its outputs -/
def insCount : List Op → List Out → Nat
  | op :: ops, o :: os => insOk op o + insCount ops os
  | _, _ => 0

theorem run_sim : ∀ (ops : List Op) (st : St) (sp : SpecSt) (L0 : List Nat), Sim st sp L0 →
    (run st ops).2 = (specRun sp ops).2 ∧
    (∃ L0', Sim (run st ops).1 (specRun sp ops).1 L0') ∧
    (run st ops).1.sl.stats.nodeAllocs = st.sl.stats.nodeAllocs + insCount ops (run st ops).2 := by
  intro ops
  induction ops with
  | nil => intro st sp L0 h; exact ⟨rfl, ⟨L0, h⟩, by simp [run, insCount]⟩
  | cons op ops ih =>
    intro st sp L0 h
    rcases step_sim h op with ⟨h1, ⟨L1, h2⟩, h3⟩
    rcases ih _ _ L1 h2 with ⟨i1, i2, i3⟩
    refine ⟨?_, ?_, ?_⟩
    · simp only [run, specRun]; rw [h1, i1]
    · simpa [run, specRun] using i2
    · simp only [run, insCount]
      rw [i3, h3]
      omega

end NitroVerif.SkipSeq
