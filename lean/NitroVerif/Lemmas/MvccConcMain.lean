/-
  The invariant holds initially and is preserved by every action of the steered machine, hence in
  every reachable state that has not been shut down.
-/
import NitroVerif.Lemmas.MvccConcStepD3

namespace NitroVerif.MvccConc
open NitroVerif

theorem replicate_get {α : Type} {n t : Nat} {a b : α} (h : (List.replicate n a)[t]? = some b) : b = a := by
  have := List.mem_of_getElem? h
  exact (List.mem_replicate.mp this).2

theorem flatMap_replicate_nil {α β : Type} (n : Nat) (a : α) (g : α → List β) (hg : g a = []) :
    (List.replicate n a).flatMap g = [] := by
  induction n with
  | zero => rfl
  | succ n ih => simp [List.replicate_succ, List.flatMap_cons, hg, ih]

theorem sum_replicate_zero (n : Nat) : ((List.replicate n (⟨0, []⟩ : Writer)).map (·.count)).sum = 0 := by
  induction n with
  | zero => rfl
  | succ n ih => simp [List.replicate_succ] at ih ⊢

theorem inv_init (nw nr : Nat) (fx : Bool) : Inv (init nw nr fx) := by
  have hthr : ∀ (t : Nat) (pc : Pc), (List.replicate (nw + nr) Pc.idle)[t]? = some pc → pc = .idle :=
    fun t pc h => replicate_get h
  have hnores : ∀ n, ¬ reserved (List.replicate (nw + nr) Pc.idle) n := by
    rintro n ⟨k, v, b, hm⟩
    have := (List.mem_replicate.mp hm).2; cases this
  have hown0 : ∀ n, ownC [] (List.replicate (nw + nr) Pc.idle) [] [⟨[], false, []⟩] 0 [] n = 0 := by
    intro n
    unfold ownC sessfr thrOwned gcOwned sessOwned frOwned storeIds
    rw [flatMap_replicate_nil _ _ _ rfl]
    simp
  refine Inv.mk' (σ' := init nw nr fx) (store := []) (unl := []) (cur := 1) (items := 0)
    (writers := List.replicate nw ⟨0, []⟩) (snaps := []) (threads := List.replicate (nw + nr) .idle)
    (nextId := 0) (gcFlag := false) (gcJobs := []) (sess := [⟨[], false, []⟩]) (fs := 0) (frJobs := [])
    (iters := []) (allocd := [.head, .tail]) (freed := []) (bad := [])
    rfl rfl rfl rfl rfl rfl rfl rfl rfl rfl rfl rfl rfl rfl rfl rfl rfl
    ?_ ?_ ?_ ?_ ?_ ?_
  · refine ⟨by simp [vers, Mvcc.Sorted], ⟨by simp [vers], by simp [vers]⟩, ?_, by simp, by simp [storeIds],
      by simp, by simp, by simp, by simp, by simp⟩
    show (0 : Int) + ((List.replicate nw (⟨0, []⟩ : Writer)).map (·.count)).sum = _
    rw [sum_replicate_zero]; simp [vers]
  · refine ⟨by simp, ?_, ?_, ?_, ?_, ?_, ?_⟩
    · intro t n k v b hg; have := hthr t _ hg; cases this
    · intro t n tok k hg; have := hthr t _ hg; cases this
    · intro t n tok k hg; have := hthr t _ hg; cases this
    · intro t n tok k hg; have := hthr t _ hg; cases this
    · intro t sn a hg; have := hthr t _ hg; cases this
    · intro t1 t2 s1 a1 s2 a2 hg; have := hthr t1 _ hg; cases this
  · have hg0 : ∀ n, garbC (List.replicate nw (⟨0, []⟩ : Writer)) [] [] n = 0 := by
      intro n
      unfold garbC garbW garbS garbJ
      rw [flatMap_replicate_nil _ _ _ rfl]; simp
    exact ⟨fun n => by rw [hg0]; omega, fun n hn => by rw [hg0] at hn; omega, by simp⟩
  · refine ⟨fun n => by rw [hown0]; omega, fun n hn => by rw [hown0] at hn; omega, by simp, ?_,
      by simp, by simp, by simp, by simp, by simp, rfl⟩
    intro n; simp
  · refine ⟨⟨?_, by simp, by simp, by simp, by simp, ?_, ?_, ?_⟩, ?_⟩
    · intro t pc tok hg htk; have := hthr t _ hg; subst this; simp [Pc.tok] at htk
    · intro i s hs
      cases i with
      | zero => simp at hs; subst hs; simp
      | succ i => simp at hs
    · intro i s hs hf
      cases i with
      | zero => simp at hs; subst hs; rfl
      | succ i => simp at hs
    · intro i s hs
      cases i with
      | zero => simp at hs; subst hs; simp
      | succ i => simp at hs
    · intro s hs; simp at hs; subst hs; simp [Sess.terminated]
  · refine ⟨?_, ?_, by simp⟩
    · intro t n tok k hg; have := hthr t _ hg; cases this
    · intro t n tok k hg; have := hthr t _ hg; cases this

theorem isIdle_spec {σ : State} {t : Nat} (h : isIdle σ t = true) : σ.threads[t]? = some .idle := by
  unfold isIdle at h
  simpa using h

theorem isWriter_spec {σ : State} {t : Nat} (h : isWriter σ t = true) : t < σ.writers.length := by
  unfold isWriter at h; simpa using h

theorem inv_stepThread {σ : State} {t : Nat} (h : Inv σ) : Inv (stepThread σ t).1 := by
  unfold stepThread
  split
  · rename_i n k v b ht; exact inv_stepPut h ht
  · rename_i n tok k ht; exact inv_stepDelPhys h ht
  · rename_i n tok k ht; exact inv_stepDelFlush h ht
  · rename_i n tok k ht; exact inv_stepDelCas h ht
  · rename_i sn after ht; exact inv_stepCollect h ht
  · rename_i i ht; exact inv_stepIter h ht
  · exact h

/-- every action other than `shutdown` preserves the invariant -/
theorem inv_step {σ : State} (h : Inv σ) (a : Act) (ha : a ≠ .shutdown) : Inv (step σ a).1 := by
  unfold step
  split
  · exact h
  · cases a with
    | snap =>
      simp only
      split
      · rename_i hi; exact inv_snap h hi
      · exact h
    | put t k v =>
      simp only
      split
      · rename_i hc
        simp only [Bool.and_eq_true] at hc
        exact inv_startPut h (isIdle_spec hc.2) (isWriter_spec hc.1)
      · exact h
    | del t k =>
      simp only
      split
      · rename_i hc
        simp only [Bool.and_eq_true] at hc
        exact inv_startDel h (isIdle_spec hc.2) (isWriter_spec hc.1)
      · exact h
    | get t k =>
      simp only
      split
      · exact h
      · exact h
    | close t s =>
      simp only
      split
      · rename_i hc; exact inv_startClose h (isIdle_spec hc)
      · exact h
    | itNew t i s =>
      simp only
      split
      · exact inv_itNew h
      · exact h
    | itFirst t i =>
      simp only
      split
      · rename_i hc
        simp only [Bool.and_eq_true] at hc
        exact inv_itFirst h (isIdle_spec hc.2)
      · exact h
    | itNext t i =>
      simp only
      split
      · rename_i hc
        simp only [Bool.and_eq_true] at hc
        exact inv_itNext h (isIdle_spec hc.2)
      · exact h
    | itClose t i =>
      simp only
      split
      · rename_i hc
        simp only [Bool.and_eq_true] at hc
        exact inv_itClose h (isIdle_spec hc.2)
      · exact h
    | step t => exact inv_stepThread h
    | gc j => exact inv_stepGc h
    | fr j => exact inv_stepFr h
    | shutdown => exact absurd rfl ha

/-- `down` is set by `shutdown` only, and nothing happens afterwards -/
theorem step_down {σ : State} (hd : σ.down = true) (a : Act) : step σ a = (σ, .bad) := by
  unfold step; simp [hd]

/-- the invariant holds in every reachable state that has not been shut down -/
theorem inv_reachable {fx : Bool} {nw nr : Nat} {σ : State} (hr : ReachableFx fx nw nr σ) : σ.down = false → Inv σ := by
  induction hr with
  | init => intro _; exact inv_init nw nr fx
  | @step σ a hr ih =>
    intro hd
    by_cases hdown : σ.down = true
    · rw [step_down hdown] at hd ⊢; exact ih hd
    · have hd0 : σ.down = false := by simpa using hdown
      by_cases ha : a = .shutdown
      · subst ha
        unfold step shutdown at hd
        simp only [hd0, Bool.false_eq_true, if_false] at hd
        split at hd
        · simp at hd
        · unfold step shutdown
          simp only [hd0, Bool.false_eq_true, if_false]
          rename_i hq
          simp only [hq, if_false]
          exact ih hd0
      · exact inv_step (ih hd0) a ha

theorem reachable_run {fx : Bool} {nw nr : Nat} {σ : State} (h : ReachableFx fx nw nr σ) (sched : List Act) :
    ReachableFx fx nw nr (run σ sched) := by
  induction sched generalizing σ with
  | nil => exact h
  | cons a as ih => exact ih (ReachableFx.step a h)

end NitroVerif.MvccConc
