import NitroVerif.Lemmas.SkipConcSearch
/-!
  History level of the concurrent skiplist model M5: the TRACE of a run and of its abstract sets.

  * `stAt n as i`   the state after the first `i` actions of the run `as` from `Sys.init n`
                    (`stAt n as 0 = Sys.init n`, `stAt n as as.length = (Sys.init n).run as`, constant afterwards);
  * `absOf h k`     item `k` is in the abstract set of heap `h` (some node unmarked at level 0 carries it);
  * `absAt n as i`  the abstract set after `i` actions: the trace of abstract sets, index 0 = the empty set.

  Action index `p` is the action `as[p]`, which takes state `p` to state `p + 1`.

  Proved here, for every `n` and every run:
  * the invariant `InvS` at every position, `Ext` between positions (`heap_ext`);
  * `step_class`: every action is of one of three kinds — it leaves every level-0 mark alone, it is a successful
    INS_PUBLISH of some thread, it is a successful level-0 SOFT_MARK of some thread — with the effect on the abstract
    set (`absSame_of_unmSame`, `PublishEff.abs`, `MarkEff.abs`);
  * `unmarked_crossing`: a node unmarked at position `i` and not unmarked at `j ≥ i` was marked by an action in `[i, j)`;
  * `absent_after_mark`: right after the action that marks a node carrying `k`, `k` is absent (live keys are distinct);
  * `absent_instant`: if every node carrying `k` published before position `a` is marked at position `b ≥ a`, then
    `k` is absent at some position in `[a, b]` (the bridge from `search_miss` to an instant).
-/
namespace NitroVerif.SkipConc
open NitroVerif

/-- item `k` is in the abstract set of `h`: a node that is unmarked at level 0 carries it -/
def absOf (h : Heap) (k : Nat) : Prop := ∃ n, unmarked0 h n ∧ keyOf h n = .fin k

/-- the state after the first `i` actions of `as` -/
def stAt (n : Nat) (as : List Action) (i : Nat) : Sys := (Sys.init n).run (as.take i)

/-- the heap after the first `i` actions -/
def heapAt (n : Nat) (as : List Action) (i : Nat) : Heap := (stAt n as i).sh.heap

/-- the trace of abstract sets -/
def absAt (n : Nat) (as : List Action) (i : Nat) (k : Nat) : Prop := absOf (heapAt n as i) k

/-- thread `t` after the first `i` actions -/
def thrAt (n : Nat) (as : List Action) (t i : Nat) : Option Thread := (stAt n as i).threads[t]?

theorem stAt_zero (n : Nat) (as : List Action) : stAt n as 0 = Sys.init n := by
  simp [stAt, Sys.run]

theorem stAt_length (n : Nat) (as : List Action) : stAt n as as.length = (Sys.init n).run as := by
  simp [stAt]

theorem stAt_ge (n : Nat) (as : List Action) {i : Nat} (h : as.length ≤ i) : stAt n as i = (Sys.init n).run as := by
  simp [stAt, List.take_of_length_le h]

theorem stAt_succ_some {n : Nat} {as : List Action} {i : Nat} {a : Action} (h : as[i]? = some a) :
    stAt n as (i + 1) = (stAt n as i).act a := by
  simp only [stAt, List.take_add_one, h, Option.toList_some, run_append]
  rfl

theorem stAt_succ_none {n : Nat} {as : List Action} {i : Nat} (h : as[i]? = none) :
    stAt n as (i + 1) = stAt n as i := by
  simp only [stAt, List.take_add_one, h, Option.toList_none, List.append_nil]

theorem stAt_invS (n : Nat) (as : List Action) (i : Nat) : InvS (stAt n as i) :=
  run_invS (InvS_initWith true n) _

theorem stAt_invR (n : Nat) (as : List Action) (i : Nat) : InvR (stAt n as i) := (stAt_invS n as i).1

theorem stAt_inv (n : Nat) (as : List Action) (i : Nat) : Inv (stAt n as i) := (stAt_invS n as i).1.1

/-- one position further the heap is a legal evolution -/
theorem heap_ext_succ (n : Nat) (as : List Action) (i : Nat) : Ext (heapAt n as i) (heapAt n as (i + 1)) := by
  unfold heapAt
  cases h : as[i]? with
  | none => rw [stAt_succ_none h]; exact Ext.refl _
  | some a => rw [stAt_succ_some h]; exact (act_inv (stAt_inv n as i) a).2

theorem heap_ext (n : Nat) (as : List Action) {i j : Nat} (hij : i ≤ j) : Ext (heapAt n as i) (heapAt n as j) := by
  induction j with
  | zero => have : i = 0 := by omega
            subst this; exact Ext.refl _
  | succ j ih =>
    by_cases h : i = j + 1
    · subst h; exact Ext.refl _
    · exact (ih (by omega)).trans (heap_ext_succ n as j)

theorem unmarked0_lt {h : Heap} {m : Nat} (hu : unmarked0 h m) : m < h.length := by
  obtain ⟨p, hp⟩ := hu; exact word?_lt hp

theorem marked0_lt {h : Heap} {m : Nat} (hu : marked0 h m) : m < h.length := by
  obtain ⟨p, hp⟩ := hu; exact word?_lt hp

theorem marked0_ext {h h' : Heap} (e : Ext h h') {m : Nat} (hm : marked0 h m) : marked0 h' m := by
  obtain ⟨p, hp⟩ := hm; exact ⟨p, e.marked _ _ _ hp⟩

/-- a published node other than the tail is marked or unmarked at level 0 -/
theorem marked0_of_not_unmarked0 {h : Heap} (H : HInv h) {m : Nat} (hm : m < h.length) (h1 : m ≠ 1)
    (hu : ¬ unmarked0 h m) : marked0 h m := by
  obtain ⟨⟨q, b⟩, hq⟩ := Option.isSome_iff_exists.mp (H.word0 m hm h1)
  cases b with
  | false => exact absurd ⟨q, hq⟩ hu
  | true => exact ⟨q, hq⟩

/-! ### the three kinds of actions -/

/-- the level-0 marks are where they were -/
def UnmSame (h h' : Heap) : Prop := h'.length = h.length ∧ ∀ m, unmarked0 h' m ↔ unmarked0 h m

/-- a successful publish of item `k`: the new node `h.length` joins, `k` was carried by no live node -/
def PublishEff (h h' : Heap) (k : Nat) : Prop :=
  h'.length = h.length + 1 ∧ keyOf h' h.length = .fin k ∧ unmarked0 h' h.length ∧
  (∀ m, m ≠ h.length → (unmarked0 h' m ↔ unmarked0 h m)) ∧ (∀ m, unmarked0 h m → keyOf h m ≠ .fin k)

/-- a successful level-0 mark of node `nd` -/
def MarkEff (h h' : Heap) (nd : Nat) : Prop :=
  h'.length = h.length ∧ unmarked0 h nd ∧ marked0 h' nd ∧ ∀ m, m ≠ nd → (unmarked0 h' m ↔ unmarked0 h m)

theorem UnmSame.refl (h : Heap) : UnmSame h h := ⟨rfl, fun _ => Iff.rfl⟩

theorem UnmSame.abs {h h' : Heap} (e : Ext h h') (u : UnmSame h h') (k : Nat) : absOf h' k ↔ absOf h k := by
  constructor
  · rintro ⟨m, hm, hk⟩
    have hu := (u.2 m).mp hm
    exact ⟨m, hu, by rw [← e.key m (unmarked0_lt hu)]; exact hk⟩
  · rintro ⟨m, hm, hk⟩
    exact ⟨m, (u.2 m).mpr hm, by rw [e.key m (unmarked0_lt hm)]; exact hk⟩

theorem PublishEff.abs {h h' : Heap} {k : Nat} (e : Ext h h') (u : PublishEff h h' k) :
    ¬ absOf h k ∧ ∀ k', absOf h' k' ↔ (absOf h k' ∨ k' = k) := by
  obtain ⟨_, hkey, hnew, hoth, habs⟩ := u
  refine ⟨fun ⟨m, hm, hk⟩ => habs m hm hk, fun k' => ⟨?_, ?_⟩⟩
  · rintro ⟨m, hm, hk⟩
    by_cases hml : m = h.length
    · subst hml; rw [hkey] at hk; simp at hk; exact .inr hk.symm
    · have hu := (hoth m hml).mp hm
      exact .inl ⟨m, hu, by rw [← e.key m (unmarked0_lt hu)]; exact hk⟩
  · rintro (⟨m, hm, hk⟩ | rfl)
    · have hml : m ≠ h.length := by have := unmarked0_lt hm; omega
      exact ⟨m, (hoth m hml).mpr hm, by rw [e.key m (unmarked0_lt hm)]; exact hk⟩
    · exact ⟨h.length, hnew, hkey⟩

theorem MarkEff.abs {h h' : Heap} {nd k : Nat} (H : HInv h) (R : ReachInv h) (e : Ext h h') (u : MarkEff h h' nd)
    (hk : keyOf h nd = .fin k) : absOf h k ∧ ∀ k', absOf h' k' ↔ (absOf h k' ∧ k' ≠ k) := by
  obtain ⟨_, hun, hma, hoth⟩ := u
  refine ⟨⟨nd, hun, hk⟩, fun k' => ⟨?_, ?_⟩⟩
  · rintro ⟨m, hm, hkm⟩
    have hmn : m ≠ nd := by
      intro e'; subst e'; exact not_unmarked0_of_marked0 hma hm
    have hu := (hoth m hmn).mp hm
    have hkm' : keyOf h m = .fin k' := by rw [← e.key m (unmarked0_lt hu)]; exact hkm
    refine ⟨⟨m, hu, hkm'⟩, ?_⟩
    intro e'; subst e'
    exact hmn (live_key_inj H R hu hun (by rw [hkm', hk]))
  · rintro ⟨⟨m, hm, hkm⟩, hne⟩
    have hmn : m ≠ nd := by
      intro e'; subst e'; rw [hk] at hkm; simp at hkm; exact hne hkm.symm
    exact ⟨m, (hoth m hmn).mpr hm, by rw [e.key m (unmarked0_lt hm)]; exact hkm⟩

/-- what a segment of thread `t` can do to the level-0 marks (`C13_updates_linearize` in the vocabulary above) -/
theorem sys_step_class {s : Sys} (hI : InvR s) (t : Nat) :
    UnmSame s.sh.heap (s.step t).1.sh.heap ∨
    (∃ th k lvl, s.threads[t]? = some th ∧ th.pc = .insPublish k lvl ∧ PublishEff s.sh.heap (s.step t).1.sh.heap k) ∨
    (∃ th item nd next marked, s.threads[t]? = some th ∧ th.pc = .softMark item nd 0 next marked ∧
      MarkEff s.sh.heap (s.step t).1.sh.heap nd) := by
  obtain ⟨ev, hs, hev⟩ := step_hstep hI.1 t
  cases ev with
  | none => exact .inl (hs.frame (.inl rfl))
  | upper => exact .inl (hs.frame (.inr (.inl rfl)))
  | unlink c => exact .inl (hs.frame (.inr (.inr ⟨c, rfl⟩)))
  | mark nd =>
    rcases hev with hev | ⟨th, hth, item, next, marked, hpc⟩
    · simp at hev
    · exact .inr (.inr ⟨th, item, nd, next, marked, hth, hpc, hs.mark_spec⟩)
  | publish x k =>
    rcases hev with hev | ⟨th, hth, lvl, hpc⟩
    · simp at hev
    · obtain ⟨rfl, h2, h3, h4, h5, h6⟩ := hs.publish_spec hI.1.1 hI.2
      exact .inr (.inl ⟨th, k, lvl, hth, hpc, h2, h3, h4, h5, h6⟩)

/-- every action of a run is of one of the three kinds -/
theorem step_class (n : Nat) (as : List Action) (p : Nat) :
    UnmSame (heapAt n as p) (heapAt n as (p + 1)) ∨
    (∃ t th k lvl, as[p]? = some (.step t) ∧ thrAt n as t p = some th ∧ th.pc = .insPublish k lvl ∧
      PublishEff (heapAt n as p) (heapAt n as (p + 1)) k) ∨
    (∃ t th item nd next marked, as[p]? = some (.step t) ∧ thrAt n as t p = some th ∧
      th.pc = .softMark item nd 0 next marked ∧ MarkEff (heapAt n as p) (heapAt n as (p + 1)) nd) := by
  unfold heapAt thrAt
  cases h : as[p]? with
  | none => rw [stAt_succ_none h]; exact .inl (UnmSame.refl _)
  | some a =>
    rw [stAt_succ_some h]
    cases a with
    | start t op =>
      simp only [Sys.act]
      rw [(start_inv (stAt_inv n as p) t op).2]
      exact .inl (UnmSame.refl _)
    | step t =>
      simp only [Sys.act]
      rcases sys_step_class (stAt_invR n as p) t with h1 | ⟨th, k, lvl, h1, h2, h3⟩ |
          ⟨th, item, nd, next, marked, h1, h2, h3⟩
      · exact .inl h1
      · exact .inr (.inl ⟨t, th, k, lvl, rfl, h1, h2, h3⟩)
      · exact .inr (.inr ⟨t, th, item, nd, next, marked, rfl, h1, h2, h3⟩)

/-! ### marks in a history -/

/-- discrete intermediate value: a property that holds at `i` and fails at `j ≥ i` is lost by one step in between -/
theorem crossing {P : Nat → Prop} {i j : Nat} (hij : i ≤ j) (hi : P i) (hj : ¬ P j) :
    ∃ p, i ≤ p ∧ p < j ∧ P p ∧ ¬ P (p + 1) := by
  induction j with
  | zero => have : i = 0 := by omega
            subst this; exact absurd hi hj
  | succ j ih =>
    by_cases h : i = j + 1
    · subst h; exact absurd hi hj
    · by_cases hpj : P j
      · exact ⟨j, by omega, by omega, hpj, hj⟩
      · obtain ⟨p, h1, h2, h3, h4⟩ := ih (by omega) hpj
        exact ⟨p, h1, by omega, h3, h4⟩

/-- a node unmarked at position `i` and no longer unmarked at position `j ≥ i` was marked by an action in `[i, j)` -/
theorem unmarked_crossing (n : Nat) (as : List Action) {i j m : Nat} (hij : i ≤ j)
    (hi : unmarked0 (heapAt n as i) m) (hj : ¬ unmarked0 (heapAt n as j) m) :
    ∃ p, i ≤ p ∧ p < j ∧ unmarked0 (heapAt n as p) m ∧ ¬ unmarked0 (heapAt n as (p + 1)) m :=
  crossing (P := fun q => unmarked0 (heapAt n as q) m) hij hi hj

/-- the action that takes a node out of the set of unmarked nodes is a level-0 mark of that very node -/
theorem mark_of_crossing (n : Nat) (as : List Action) {p m : Nat}
    (h1 : unmarked0 (heapAt n as p) m) (h2 : ¬ unmarked0 (heapAt n as (p + 1)) m) :
    MarkEff (heapAt n as p) (heapAt n as (p + 1)) m := by
  rcases step_class n as p with u | ⟨t, th, k, lvl, _, _, _, u⟩ | ⟨t, th, item, nd, next, marked, _, _, _, u⟩
  · exact absurd ((u.2 m).mpr h1) h2
  · have : m ≠ (heapAt n as p).length := by have := unmarked0_lt h1; omega
    exact absurd ((u.2.2.2.1 m this).mpr h1) h2
  · by_cases hm : m = nd
    · subst hm; exact u
    · exact absurd ((u.2.2.2 m hm).mpr h1) h2

/-- right after the action that marks a node carrying `k`, `k` is absent (live keys are distinct) -/
theorem absent_after_mark (n : Nat) (as : List Action) {p m k : Nat}
    (u : MarkEff (heapAt n as p) (heapAt n as (p + 1)) m) (hk : keyOf (heapAt n as p) m = .fin k) :
    ¬ absAt n as (p + 1) k := by
  have hI := stAt_invR n as p
  have := (u.abs hI.1.1 hI.2 (heap_ext_succ n as p) hk).2 k
  intro ha
  exact ((this.mp ha).2) rfl

/-- BRIDGE from the end of a missing search to an instant: if every node carrying `k` that was published before
    position `a` is marked at position `b ≥ a`, then `k` is absent from the abstract set at some position in `[a, b]` -/
theorem absent_instant (n : Nat) (as : List Action) {a b k : Nat} (hab : a ≤ b)
    (hmiss : ∀ m, m < (heapAt n as a).length → keyOf (heapAt n as b) m = .fin k → ¬ unmarked0 (heapAt n as b) m) :
    ∃ q, a ≤ q ∧ q ≤ b ∧ ¬ absAt n as q k := by
  by_cases h0 : absAt n as a k
  · obtain ⟨m, hm, hk⟩ := h0
    have hml := unmarked0_lt hm
    have hkb : keyOf (heapAt n as b) m = .fin k := by rw [(heap_ext n as hab).key m hml]; exact hk
    obtain ⟨p, hp1, hp2, hp3, hp4⟩ := unmarked_crossing n as hab hm (hmiss m hml hkb)
    have hkp : keyOf (heapAt n as p) m = .fin k := by rw [(heap_ext n as hp1).key m hml]; exact hk
    exact ⟨p + 1, by omega, by omega, absent_after_mark n as (mark_of_crossing n as hp3 hp4) hkp⟩
  · exact ⟨a, Nat.le_refl _, hab, h0⟩

end NitroVerif.SkipConc
