/-
  Linearization of the writers' operations of the small-step M6 model against `Spec/SetSpec.lean`.

  A schedule is turned into a trace of events: `call` (an accepted `start t put|del|get`), `ret` (the
  answer `ret true|false|<v>|none` of that operation, taken from the response of the machine), `lin` (the
  linearization point, with the result the specification must give there) and `snap` (NewSnapshot,
  atomic).  Linearization points:
    * Put              — its PUT_INSERT step (Insert2: search, exists-check, link);
    * Delete, no item  — its lookup (the start segment);
    * Delete, winner   — its DEL_NODE_PHYS step (same epoch) / DEL_NODE_CAS step (older epoch);
    * Delete, loser    — immediately after the step of the winner that took its node away (the loser is
                         parked between its lookup and its own step at that moment; its own step comes
                         later and answers `false`).  NOT at its own failed step: by then another Put may
                         have made the key alive again;
    * GetNode          — the lookup.
  Events of one action are ordered `call`s, `lin`s, `ret`s.
-/
import NitroVerif.Lemmas.MvccConcShutdown
import NitroVerif.Lemmas.MvccSimStore

namespace NitroVerif.MvccConc
open NitroVerif
open NitroVerif.SetSpec (Op Out)

inductive Ev where
  | call (t : Nat) (op : Op)
  | lin (t : Nat) (op : Op) (res : Out)
  | ret (t : Nat) (res : Out)
  | snap (res : Out)
deriving Repr, DecidableEq

/-- a `start` of a writer operation is accepted -/
def accepted (σ : State) (t : Nat) : Bool := !σ.down && isWriter σ t && isIdle σ t

/-- the answer of a writer operation, as an observation of the specification -/
def retOut : Resp → Option Out
  | .ret (.bool b) => some (.bool b)
  | .ret (.val v) => some (.val v)
  | _ => none

/-- the program counter belongs to a writer operation in progress -/
def Pc.isWop : Pc → Bool
  | .putInsert _ _ _ _ => true
  | .delPhys _ _ _ => true
  | .delFlush _ _ _ => true
  | .delCas _ _ _ => true
  | _ => false

def calls (σ : State) : Act → List Ev
  | .put t k v => if accepted σ t then [.call t (.put t k v)] else []
  | .del t k => if accepted σ t then [.call t (.del t k)] else []
  | .get t k => if accepted σ t then [.call t (.get t k)] else []
  | _ => []

def rets (σ : State) (a : Act) : List Ev :=
  match a with
  | .put t _ _ => if accepted σ t then ((retOut (step σ a).2).map (Ev.ret t)).toList else []
  | .del t _ => if accepted σ t then ((retOut (step σ a).2).map (Ev.ret t)).toList else []
  | .get t _ => if accepted σ t then ((retOut (step σ a).2).map (Ev.ret t)).toList else []
  | .step t =>
    match σ.threads[t]? with
    | some pc => if pc.isWop && !σ.down then ((retOut (step σ a).2).map (Ev.ret t)).toList else []
    | none => []
  | _ => []

/-- the Delete of thread `t'` lost node `n` to thread `t` -/
def loserEv (σ : State) (t n t' : Nat) : Option Ev :=
  if t' = t then none else
  match σ.threads[t']? with
  | some (.delPhys n' _ k') => if n' = n then some (.lin t' (.del t' k') (.bool false)) else none
  | some (.delCas n' _ k') => if n' = n then some (.lin t' (.del t' k') (.bool false)) else none
  | _ => none

def losers (σ : State) (t n : Nat) : List Ev := (List.range σ.threads.length).filterMap (loserEv σ t n)

def lins (σ : State) : Act → List Ev
  | .snap =>
    if !σ.down && writersIdle σ then [.snap (.snap σ.currSn (σ.itemsCount + (σ.writers.map (·.count)).sum))] else []
  | .get t k =>
    if accepted σ t then [.lin t (.get t k) (.val ((lookupN σ.store (probe σ k 0)).map (·.ver.val)))] else []
  | .del t k =>
    if accepted σ t && (lookupN σ.store (probe σ k 0)).isNone then [.lin t (.del t k) (.bool false)] else []
  | .step t =>
    if σ.down then [] else
    match σ.threads[t]? with
    | some (.putInsert _ k v b) => [.lin t (.put t k v) (.bool (lookupN σ.store ⟨k, v, b, 0⟩).isNone)]
    | some (.delPhys n _ k) =>
      match findNode σ.store n with
      | some _ => .lin t (.del t k) (.bool true) :: losers σ t n
      | none => []
    | some (.delCas n _ k) =>
      match findNode σ.store n with
      | some x => if x.ver.dead = 0 then .lin t (.del t k) (.bool true) :: losers σ t n else []
      | none => []
    | _ => []
  | _ => []

def events (σ : State) (a : Act) : List Ev := calls σ a ++ lins σ a ++ rets σ a

def trace (σ : State) : List Act → List Ev
  | [] => []
  | a :: as => events σ a ++ trace (step σ a).1 as

/-! ### sequential replay of the linearization on the specification -/

/-- the operations that are linearized: Put, Delete, GetNode -/
def linOp : Op → Bool
  | .put _ _ _ => true
  | .del _ _ => true
  | .get _ _ => true
  | _ => false

def specStep (sp : SetSpec.State) : Ev → Option SetSpec.State
  | .lin _ op res => if linOp op = true ∧ (SetSpec.step sp op).2 = res then some (SetSpec.step sp op).1 else none
  | .snap res => if (SetSpec.step sp .snap).2 = res then some (SetSpec.step sp .snap).1 else none
  | _ => some sp

def replay (sp : SetSpec.State) : List Ev → Option SetSpec.State
  | [] => some sp
  | e :: es =>
    match specStep sp e with
    | some sp' => replay sp' es
    | none => none

theorem replay_append (sp : SetSpec.State) (l1 l2 : List Ev) :
    replay sp (l1 ++ l2) = (replay sp l1).bind (fun sp' => replay sp' l2) := by
  induction l1 generalizing sp with
  | nil => rfl
  | cons e es ih =>
    simp only [List.cons_append, replay]
    cases specStep sp e with
    | none => rfl
    | some sp' => exact ih sp'

/-- the abstraction relation: the specification's alive set is the set of alive versions -/
structure Abs (σ : State) (sp : SetSpec.State) : Prop where
  nw : sp.nwriters = σ.writers.length
  alive : sp.alive = Mvcc.absAlive (vers σ.store)
  epoch : sp.epoch = σ.currSn

/-! ### per-thread shape of the trace: call, lin, ret, call, lin, ret, … -/

inductive Phase where
  | idle
  | called (op : Op)
  | decided (op : Op) (res : Out)
  | broken
deriving Repr, DecidableEq

def phaseStep (t : Nat) : Phase → Ev → Phase
  | p, .snap _ => p
  | p, .call t' op =>
    if t' = t then (match p with | .idle => .called op | _ => .broken) else p
  | p, .lin t' op res =>
    if t' = t then (match p with | .called op' => if op' = op then .decided op res else .broken | _ => .broken) else p
  | p, .ret t' res =>
    if t' = t then (match p with | .decided _ res' => if res' = res then .idle else .broken | _ => .broken) else p

def phaseOf (t : Nat) (p : Phase) (evs : List Ev) : Phase := evs.foldl (phaseStep t) p

theorem phaseOf_append (t : Nat) (p : Phase) (l1 l2 : List Ev) :
    phaseOf t p (l1 ++ l2) = phaseOf t (phaseOf t p l1) l2 := by
  unfold phaseOf; rw [List.foldl_append]

/-- node `n` is linked and alive -/
def AliveIn (store : List Node) (n : Nat) : Prop := ∃ x ∈ store, x.id = n ∧ x.ver.dead = 0

/-- how the phase of thread `t` (computed from the trace) relates to its program counter -/
def PhaseOK (σ : State) (t : Nat) : Phase → Prop
  | .idle => ∀ pc, σ.threads[t]? = some pc → pc.isWop = false
  | .called op =>
    (∃ n k v b, σ.threads[t]? = some (.putInsert n k v b) ∧ op = .put t k v) ∨
    (∃ n tok k, σ.threads[t]? = some (.delPhys n tok k) ∧ op = .del t k ∧ n ∈ storeIds σ.store) ∨
    (∃ n tok k, σ.threads[t]? = some (.delCas n tok k) ∧ op = .del t k ∧ AliveIn σ.store n)
  | .decided op res =>
    (∃ n tok k, σ.threads[t]? = some (.delPhys n tok k) ∧ op = .del t k ∧ res = .bool false ∧
        n ∉ storeIds σ.store) ∨
    (∃ n tok k, σ.threads[t]? = some (.delFlush n tok k) ∧ op = .del t k ∧ res = .bool true) ∨
    (∃ n tok k, σ.threads[t]? = some (.delCas n tok k) ∧ op = .del t k ∧ res = .bool false ∧
        ¬ AliveIn σ.store n)
  | .broken => False

end NitroVerif.MvccConc
