import NitroVerif.Lemmas.SkipConcQuietRun
/-!
  Quiescence of M5, part 5: softDelete runs to completion.  A node that is marked at some level is marked at level 0
  already, or a thread is still inside softDelete for it (`SoftOn`); at quiescence, therefore, "marked at some
  level" and "marked at level 0" (deleted) are the same.
-/
namespace NitroVerif.SkipConc
open NitroVerif

/-- the thread is parked inside softDelete of node `n` -/
def SoftOn (n : Nat) : PC → Prop
  | .softMark _ n' _ _ _ => n' = n
  | _ => False

theorem SoftOn.not_idle {n : Nat} {pc : PC} (r : SoftOn n pc) : isIdle pc = false := by
  cases pc <;> simp only [SoftOn, isIdle] at * <;> trivial

/-- a mark is new only in the mark events of that node -/
theorem LStep.markedAt_back {h h' : Heap} {ev : LEv} (s : LStep h ev h') {l n : Nat} (hm : markedAt h' l n) :
    markedAt h l n ∨ ev = .markUp n ∨ ev = .mark0 n := by
  obtain ⟨q, hq⟩ := hm
  cases s with
  | none => exact .inl ⟨q, hq⟩
  | @unlink l1 prev curr next hp hc kprev =>
    rw [word?_setWord] at hq
    by_cases hc1 : n = prev ∧ l = l1 ∧ (word? h prev l1).isSome
    · rw [if_pos hc1] at hq; simp at hq
    · rw [if_neg hc1] at hq; exact .inl ⟨q, hq⟩
  | @mark l1 a e hl1 hw =>
    rw [word?_setWord] at hq
    by_cases hc1 : n = a ∧ l = l1 ∧ (word? h a l1).isSome
    · exact .inr (.inl (by rw [hc1.1]))
    · rw [if_neg hc1] at hq; exact .inl ⟨q, hq⟩
  | @mark0 a e hw =>
    rw [word?_setWord] at hq
    by_cases hc1 : n = a ∧ l = 0 ∧ (word? h a 0).isSome
    · exact .inr (.inr (by rw [hc1.1]))
    · rw [if_neg hc1] at hq; exact .inl ⟨q, hq⟩
  | @own l1 x old s1 hl1 hx0 hw hux hs =>
    rw [word?_setWord] at hq
    by_cases hc1 : n = x ∧ l = l1 ∧ (word? h x l1).isSome
    · rw [if_pos hc1] at hq; simp at hq
    · rw [if_neg hc1] at hq; exact .inl ⟨q, hq⟩
  | @link l1 pred x next m hl1 hp hx kp k1 k2 kx =>
    rw [word?_setWord] at hq
    by_cases hc1 : n = pred ∧ l = l1 ∧ (word? h pred l1).isSome
    · rw [if_pos hc1] at hq; simp at hq
    · rw [if_neg hc1] at hq; exact .inl ⟨q, hq⟩
  | @publish p c nd hw hn0 hnd hnm =>
    rw [setWord_append h nd (word?_lt hw), word?_setWord] at hq
    by_cases hc1 : n = p ∧ l = 0 ∧ (word? (h ++ [nd]) p 0).isSome
    · rw [if_pos hc1] at hq; simp at hq
    · rw [if_neg hc1] at hq
      by_cases hn : n < h.length
      · rw [word?_append_lt h nd hn] at hq; exact .inl ⟨q, hq⟩
      · have hnl := word?_lt hq
        have : n = h.length := by simp at hnl; omega
        subst this
        rw [word?_append_new] at hq
        have := hnm _ _ _ hq
        simp at this

theorem LStep.mark0_marked {h h' : Heap} {n : Nat} (s : LStep h (.mark0 n) h') : marked0 h' n := by
  cases s with
  | @mark0 _ e hw => exact ⟨e, by rw [word?_setWord_same hw]; simp⟩

/-- a segment of softDelete: the thread is still inside softDelete of the node, or the node is marked at level 0 -/
theorem softMark_after {sh : Shared} {th : Thread} {item n i next : Nat} {m : Bool}
    (hpc : th.pc = .softMark item n i next m) :
    SoftOn n (stepThread sh th).2.1.pc ∨ marked0 (stepThread sh th).1.heap n := by
  have h1 : stepThread sh th = stepSoftMark sh th item n i next m := by unfold stepThread; rw [hpc]
  rw [h1]
  unfold stepSoftMark
  simp only []
  generalize (if Gen.softDeleteWins (dcas sh.heap n i next next true).2 i = true then
      ({ sh with heap := (dcas sh.heap n i next next true).1, stats := { sh.stats with soft := sh.stats.soft + 1 } } : Shared)
    else { sh with heap := (dcas sh.heap n i next next true).1 }) = sh1
  rw [enterSoft_sh]
  unfold enterSoft
  split
  · exact .inl rfl
  · rename_i hsc
    exact .inr ⟨_, word?_of_getNext_marked (softScan_none _ hsc)⟩

/-- the charging invariant together with "a marked node is deleted or still being marked" -/
structure InvM (s : Sys) : Prop where
  q : InvQ s
  marks : ∀ n l, markedAt s.sh.heap l n → marked0 s.sh.heap n ∨
    ∃ (t : Nat) (th : Thread), s.threads[t]? = some th ∧ SoftOn n th.pc

theorem InvM_init (n : Nat) : InvM (Sys.init n) where
  q := InvQ_init n
  marks k l hm := by
    obtain ⟨q, hq⟩ := hm
    have := (word?_init hq).2.2.2
    simp at this

theorem start_invM {s : Sys} (hI : InvM s) (t : Nat) (op : Op) : InvM (s.start t op).1 := by
  have hQ' := start_invQ hI.q t op
  cases hth : s.threads[t]? with
  | none => rw [Sys.start_none hth]; exact hI
  | some th =>
    cases hidle : isIdle th.pc with
    | false => rw [Sys.start_busy hth hidle]; exact hI
    | true =>
      rw [Sys.start_idle hth hidle] at hQ' ⊢
      refine ⟨hQ', ?_⟩
      intro n l hm
      simp only [startOp_heap] at hm ⊢
      rcases hI.marks n l hm with h0 | ⟨tr, thr, hget, hr⟩
      · exact .inl h0
      · have hne : t ≠ tr := by
          intro e
          subst e
          rw [hth] at hget; simp at hget; subst hget
          have := hr.not_idle
          rw [hidle] at this; simp at this
        exact .inr ⟨tr, thr, by rw [List.getElem?_set_ne hne]; exact hget, hr⟩

theorem step_invM {s : Sys} (hI : InvM s) (t : Nat) : InvM (s.step t).1 := by
  have hQ' := step_invQ hI.q t
  cases hth : s.threads[t]? with
  | none => rw [Sys.step_none hth]; exact hI
  | some th =>
    by_cases hidle : th.pc = .idle
    · rw [Sys.step_idle hth hidle]; exact hI
    · have hInv := hI.q.lv.base.1
      have hT := hInv.2 th (List.mem_of_getElem? hth)
      have hL := hI.q.lv.threads t th hth
      have hgood := stepThread_good hInv.1 hInv.3 hT
      obtain ⟨ev, hst, hev, _⟩ := stepThread_goodL hInv.1 hI.q.lv.base.2 hI.q.lv.lv hI.q.lv.fixed hT hL
      have htl : t < s.threads.length := (List.getElem?_eq_some_iff.mp hth).1
      rw [Sys.step_busy hth hidle] at hQ' ⊢
      refine ⟨hQ', ?_⟩
      intro n l hm'
      simp only [] at hm' ⊢
      have hnewget : (s.threads.set t (stepThread s.sh th).2.1)[t]? = some (stepThread s.sh th).2.1 := by
        rw [List.getElem?_set_self htl]
      have own : ∀ item i next m, th.pc = .softMark item n i next m →
          marked0 (stepThread s.sh th).1.heap n ∨
          ∃ (t' : Nat) (th' : Thread), (s.threads.set t (stepThread s.sh th).2.1)[t']? = some th' ∧ SoftOn n th'.pc := by
        intro item i next m hpc
        rcases softMark_after (sh := s.sh) hpc with h1 | h1
        · exact .inr ⟨t, _, hnewget, h1⟩
        · exact .inl h1
      rcases hst.markedAt_back hm' with hm | hevu | hev0
      · rcases hI.marks n l hm with h0 | ⟨tr, thr, hget, hr⟩
        · obtain ⟨q, hq⟩ := h0
          exact .inl ⟨q, hgood.2.1.marked _ _ _ hq⟩
        · by_cases htr : tr = t
          · subst htr
            rw [hth] at hget; simp at hget; subst hget
            cases hpc : th.pc <;> rw [hpc] at hr <;> simp only [SoftOn] at hr
            subst hr
            exact own _ _ _ _ hpc
          · exact .inr ⟨tr, thr, by rw [List.getElem?_set_ne (fun e => htr e.symm)]; exact hget, hr⟩
      · subst hevu
        obtain ⟨item, i, next, m, hpc⟩ := hev
        exact own _ _ _ _ hpc
      · subst hev0
        exact .inl hst.mark0_marked

theorem act_invM {s : Sys} (hI : InvM s) (a : Action) : InvM (s.act a) := by
  cases a with
  | start t op => exact start_invM hI t op
  | step t => exact step_invM hI t

theorem run_invM {s : Sys} (hI : InvM s) (as : List Action) : InvM (s.run as) := by
  induction as generalizing s with
  | nil => exact hI
  | cons a r ih => exact ih (act_invM hI a)

end NitroVerif.SkipConc
