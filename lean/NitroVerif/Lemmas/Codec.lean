import NitroVerif.Model.Codec
import NitroVerif.Lemmas.CodecGen
/-!
  Lemmas about the codec model: big/little-endian length fields, one `decodeItem` step over a
  framed item, and the reader loop over a written file.
-/
namespace NitroVerif.Codec
open NitroVerif NitroVerif.Codec.GenLemmas

/-! ### length fields -/

@[simp] theorem length_beBytes (w n : Nat) : (beBytes w n).length = w := by
  induction w with
  | zero => rfl
  | succ w ih => simp [beBytes, ih]

@[simp] theorem length_leBytes (w n : Nat) : (leBytes w n).length = w := by
  induction w generalizing n with
  | zero => rfl
  | succ w ih => simp [leBytes, ih]

theorem foldl_beBytes (w n acc : Nat) :
    (beBytes w n).foldl (fun acc (b : UInt8) => acc * 256 + b.toNat) acc
      = acc * 256 ^ w + n % 256 ^ w := by
  induction w generalizing acc with
  | zero => simp [beBytes, Nat.mod_one]
  | succ w ih =>
    simp only [beBytes, List.foldl_cons, ih]
    have h1 : (UInt8.ofNat (n / 256 ^ w % 256)).toNat = n / 256 ^ w % 256 := by
      simp
    rw [h1, Nat.mod_pow_succ, Nat.add_mul, Nat.pow_succ, Nat.mul_assoc, Nat.mul_comm 256 (256 ^ w),
      Nat.mul_comm (n / 256 ^ w % 256)]
    omega

/-- the big-endian value of a `w`-byte length field is the length modulo `256^w` -/
theorem beVal_beBytes (w n : Nat) : beVal (beBytes w n) = n % 256 ^ w := by
  simp [beVal, foldl_beBytes]

theorem beVal_beBytes_of_lt {w n : Nat} (h : n < 256 ^ w) : beVal (beBytes w n) = n := by
  rw [beVal_beBytes, Nat.mod_eq_of_lt h]

theorem leVal_leBytes (w n : Nat) : leVal (leBytes w n) = n % 256 ^ w := by
  induction w generalizing n with
  | zero => simp [leBytes, leVal, Nat.mod_one]
  | succ w ih =>
    simp only [leBytes, leVal, ih]
    have h1 : (UInt8.ofNat (n % 256)).toNat = n % 256 := by simp
    rw [h1, Nat.pow_succ, Nat.mul_comm (256 ^ w) 256, Nat.mod_mul]

/-! ### the byte order and width facts of the code, applied -/

/-- EncodeItem's length field: 4 bytes, big endian -/
theorem encodeLen_eq (n : Nat) : encodeLen n = beBytes 4 n := by
  have hbig := encodeBigEndian_eq
  have hw := encodeLenWidth_eq
  simp [encodeLen, lenEnc, hbig, hw]

/-- DecodeItem reads the length field big endian -/
theorem lenDec_decode (bs : Bytes) : lenDec Gen.decodeBigEndian bs = beVal bs := by
  have hbig := decodeBigEndian_eq
  simp [lenDec, hbig]

/-- the v0 length field: 2 bytes, big endian -/
theorem lenEnc_v0 (n : Nat) : lenEnc Gen.decodeBigEndian Gen.decodeLenWidthV0 n = beBytes 2 n := by
  have hbig := decodeBigEndian_eq
  have hw := decodeLenWidthV0_eq
  simp [lenEnc, hbig, hw]

/-- the key length field of a KV item: 2 bytes, little endian -/
theorem lenEnc_kv (n : Nat) : lenEnc (!Gen.kvLittleEndian) Gen.kvLenWidth n = leBytes 2 n := by
  have hle := kvLittleEndian_eq
  have hw := kvLenWidth_eq
  simp [lenEnc, hle, hw]

theorem kvKeyLen_eq (bs : Bytes) : kvKeyLen bs = leVal (bs.take 2) := by
  have hle := kvLittleEndian_eq
  have hw := kvLenWidth_eq
  simp [kvKeyLen, lenDec, hle, hw]

/-! ### one decode step -/

theorem lenWidth_one : lenWidth 1 = 4 := by
  simp [lenWidth, decodeLenWidthV1_eq]

theorem lenWidth_zero : lenWidth 0 = 2 := by
  simp [lenWidth, decodeLenWidthV0_eq]

/-- generic step: a `w`-byte big-endian length `n < 256^w`, `n > 0`, followed by `n` bytes -/
theorem decodeItem_framed {ver w : Nat} (hw : lenWidth ver = w) (d rest : Bytes)
    (hpos : 0 < d.length) (hlt : d.length < 256 ^ w) :
    decodeItem ver (beBytes w d.length ++ d ++ rest) = .item (beBytes w d.length) d rest := by
  have htake : (beBytes w d.length ++ d ++ rest).take w = beBytes w d.length := by
    rw [List.append_assoc]; exact List.take_left' (length_beBytes _ _)
  have hdrop : (beBytes w d.length ++ d ++ rest).drop w = d ++ rest := by
    rw [List.append_assoc]; exact List.drop_left' (length_beBytes _ _)
  have hval : beVal (beBytes w d.length) = d.length := beVal_beBytes_of_lt hlt
  have hitem : Gen.decodeHasItem d.length = true := (decodeHasItem_iff _).2 hpos
  unfold decodeItem
  simp only [hw, htake, hdrop, lenDec_decode, hval, hitem]
  simp only [List.length_append, length_beBytes, List.take_left, List.drop_left, if_true]
  rw [if_neg (by omega), if_neg (by omega)]

theorem decodeItem_terminator {ver w : Nat} (hw : lenWidth ver = w) (rest : Bytes) :
    decodeItem ver (beBytes w 0 ++ rest) = .terminator rest := by
  have htake : (beBytes w 0 ++ rest).take w = beBytes w 0 := List.take_left' (length_beBytes _ _)
  have hdrop : (beBytes w 0 ++ rest).drop w = rest := List.drop_left' (length_beBytes _ _)
  have hval : beVal (beBytes w 0) = 0 := by rw [beVal_beBytes]; simp
  unfold decodeItem
  simp only [hw, htake, hdrop, lenDec_decode, hval, decodeHasItem_zero]
  simp

theorem decodeItem_short_header {ver : Nat} {bs : Bytes} (h : bs.length < lenWidth ver) :
    decodeItem ver bs = .short := by
  unfold decodeItem; simp [h]

/-! ### the reader loop over framed items, generic in the width -/

/-- the frame of one item with a `w`-byte length -/
def frame (w : Nat) (d : Bytes) : Bytes := beBytes w d.length ++ d

theorem encodeItem_eq_frame (d : Bytes) : encodeItem d = frame 4 d := by
  simp [encodeItem, frame, encodeLen_eq]

theorem encodeItemV0_eq_frame (d : Bytes) : encodeItemV0 d = frame 2 d := by
  simp [encodeItemV0, frame, lenEnc_v0]

theorem length_frame (w : Nat) (d : Bytes) : (frame w d).length = w + d.length := by
  simp [frame]

/-- the checksum the reader accumulates over `items` when the length field has `w` bytes -/
def sumFrom (h : Bytes → Nat) (w : Nat) (s : Nat) (items : List Bytes) : Nat :=
  items.foldl (fun acc d => acc ^^^ itemSum h (beBytes w d.length) d) s

theorem writerChecksum_eq (h : Bytes → Nat) (items : List Bytes) :
    writerChecksum h items = sumFrom h 4 0 items := by
  simp [writerChecksum, sumFrom, encodeLen_eq]

theorem readLoop_framed (h : Bytes → Nat) {ver w : Nat} (hw : lenWidth ver = w)
    (items : List Bytes) (hit : ∀ d ∈ items, 0 < d.length ∧ d.length < 256 ^ w)
    (rest : Bytes) (fuel : Nat) (hf : items.length < fuel) (acc : List Bytes) (s : Nat) :
    readLoop h ver fuel (items.flatMap (frame w) ++ frame w [] ++ rest) acc s
      = .ok (acc.reverse ++ items) (sumFrom h w s items) rest := by
  induction items generalizing fuel acc s with
  | nil =>
    cases fuel with
    | zero => simp at hf
    | succ fuel =>
      simp only [List.flatMap_nil, List.nil_append, frame, List.length_nil, List.append_nil]
      unfold readLoop
      rw [decodeItem_terminator hw]
      simp [sumFrom]
  | cons d ds ih =>
    cases fuel with
    | zero => simp at hf
    | succ fuel =>
      have hd := hit d (List.mem_cons_self)
      have hds : ∀ x ∈ ds, 0 < x.length ∧ x.length < 256 ^ w :=
        fun x hx => hit x (List.mem_cons_of_mem _ hx)
      have hshape : (d :: ds).flatMap (frame w) ++ frame w [] ++ rest
          = beBytes w d.length ++ d ++ (ds.flatMap (frame w) ++ frame w [] ++ rest) := by
        simp [List.flatMap_cons, frame, List.append_assoc]
      rw [hshape]
      unfold readLoop
      rw [decodeItem_framed hw d _ hd.1 hd.2]
      simp only
      rw [ih hds fuel (by simpa using hf)]
      simp [sumFrom]

theorem length_le_flatMap_frame (w : Nat) (items : List Bytes)
    (hit : ∀ d ∈ items, 0 < d.length) : items.length ≤ (items.flatMap (frame w)).length := by
  induction items with
  | nil => simp
  | cons d ds ih =>
    have hd := hit d List.mem_cons_self
    have := ih (fun x hx => hit x (List.mem_cons_of_mem _ hx))
    rw [List.flatMap_cons, List.length_append, length_frame, List.length_cons]
    omega

/-- the reader (with the fuel `readFile` gives it) over a file of framed items -/
theorem readFile_framed (h : Bytes → Nat) {ver w : Nat} (hw : lenWidth ver = w)
    (items : List Bytes) (hit : ∀ d ∈ items, 0 < d.length ∧ d.length < 256 ^ w) (rest : Bytes) :
    readFile h ver (items.flatMap (frame w) ++ frame w [] ++ rest)
      = .ok items (sumFrom h w 0 items) rest := by
  unfold readFile
  rw [readLoop_framed h hw items hit rest]
  · simp
  · have := length_le_flatMap_frame w items (fun d hd => (hit d hd).1)
    simp only [List.length_append]
    omega

theorem writeFile_eq_frames (items : List Bytes) :
    writeFile items = items.flatMap (frame 4) ++ frame 4 [] := by
  have : encodeItem = frame 4 := funext encodeItem_eq_frame
  unfold writeFile
  rw [this]

theorem writeFileV0_eq_frames (items : List Bytes) :
    writeFileV0 items = items.flatMap (frame 2) ++ frame 2 [] := by
  have : encodeItemV0 = frame 2 := funext encodeItemV0_eq_frame
  unfold writeFileV0
  rw [this]

end NitroVerif.Codec
