import NitroVerif.Lemmas.SkipConcLevelsSeg
/-!
  Index levels of M5, part 7: the segments of Insert4 (publish, the node's own upper-level word with the check of
  the recorded successor, the upper-level link with the re-check of the node's own mark).
-/
namespace NitroVerif.SkipConc
open NitroVerif

theorem Key.eq_of_not_lt {a b : Key} (h1 : ¬ Key.lt a b) (h2 : ¬ Key.lt b a) : a = b := by
  cases a <;> cases b <;> simp [Key.lt] at * <;> omega

/-- nobody points to a freshly published node at an index level -/
theorem publish_unlinked {h : Heap} (H : HInv h) {p c : Nat} (nd : Node) (hw : word? h p 0 = some (c, false))
    (hnd : ∀ (j : Nat) q m, nd.next[j]? = some (q, m) → q < h.length) :
    Unlinked (setWord h p 0 (h.length, false) ++ [nd]) h.length 1 := by
  intro a l' q m hl hq e
  subst e
  rw [setWord_append h nd (word?_lt hw), word?_setWord_level _ (by omega)] at hq
  by_cases ha : a < h.length
  · rw [word?_append_lt h nd ha] at hq
    exact absurd (H.closed _ _ _ _ hq) (Nat.lt_irrefl _)
  · have hal := word?_lt hq
    have : a = h.length := by simp at hal; omega
    subst this
    rw [word?_append_new] at hq
    exact absurd (hnd _ _ _ hq) (Nat.lt_irrefl _)

theorem stepInsPublish_goodL {sh : Shared} {th : Thread} (item lvl : Nat) (H : HInv sh.heap)
    (hT : TInv sh.heap th) (hL : TL sh.heap sh.level th) (hpc : th.pc = .insPublish item lvl) :
    GoodL sh.heap th (stepInsPublish sh th item lvl) := by
  have hb := hT.1
  have hL0 := hL.2
  rw [hpc] at hL0
  unfold stepInsPublish
  simp only []
  split
  · rename_i hs
    have hw := (dcas_ok_iff ..).mp hs
    have hnd : ∀ (j : Nat) q m, (newNode th item lvl).next[j]? = some (q, m) →
        q < sh.heap.length ∧ Lk sh.heap q j := by
      intro j q m hq
      have := (newNode_getElem? _ _ _ _ hq).2
      simp only [Prod.mk.injEq, Thread.succ] at this
      rw [this.1]
      exact ⟨hb.2.2.2.1 j, (hL.1.2.2 j).2⟩
    have hst : LStep sh.heap .other
        (setWord sh.heap (th.pred 0) 0 (sh.heap.length, false) ++ [newNode th item lvl]) :=
      .publish (newNode th item lvl) hw (newNode_next0 ..) hnd
        (fun j q m hq => by have := (newNode_getElem? _ _ _ _ hq).2; simp at this; exact this.2)
    have e : Ext sh.heap (setWord sh.heap (th.pred 0) 0 (sh.heap.length, false) ++ [newNode th item lvl]) :=
      (Ext.setWord hw _).trans (Ext.append _ _)
    have hk := hL.keep H e hst (Nat.le_refl _) hT (fun x c => by rcases c with c | ⟨l, c⟩ <;> cases c)
    have hk2 := hk.2
    rw [hpc] at hk2
    rw [dcas_ok_heap _ _ _ _ _ _ hs]
    split
    · refine ⟨.other, hst, trivial, hk.1, hk2.1, hk2.2, ?_, ?_⟩
      · intro _
        exact publish_unlinked H _ hw (fun j q m hq => (hnd j q m hq).1)
      · intro l h1 h2; omega
    · exact ⟨.other, hst, trivial, hk.1, trivial⟩
  · exact ⟨.other, .none, trivial,
      startFind_tl { sh with stats := { sh.stats with insertConflicts := sh.stats.insertConflicts + 1 } } th item _
        hL.1 ⟨hL0.1, KeysOK.vacuous _ _ _ _ hL0.1⟩⟩

/-- the check of the recorded successor: with both the node and the successor unmarked at level `i`, an equal key
    would make them the same node, but the node has not been linked at level `i` -/
theorem insCheckSucc_tl {sh : Shared} {th : Thread} (item x lvl i next : Nat) (H : HInv sh.heap)
    (R : ReachInv sh.heap) (hfix : sh.fixedSucc = true) (hb : BufOK sh.heap th.preds th.succs)
    (bb : BufL sh.heap th.preds th.succs) (l1 : lvl ≤ sh.level) (ko : KeysOK sh.heap th.preds th.succs item 0 lvl)
    (ins : InsNode sh.heap x i) (hx : x < sh.heap.length) (hkx : keyOf sh.heap x = .fin item) (h1 : 1 ≤ i)
    (hil : i ≤ lvl) (hlvl : lvl ≤ Gen.maxLevel) (hnext : next = th.succs.getD i 0)
    (hwx : word? sh.heap x i = some (next, false)) :
    TL sh.heap sh.level (insCheckSucc sh th item x lvl i next).2.1 := by
  unfold insCheckSucc
  split
  · exact startFind_tl sh th item _ bb ⟨l1, KeysOK.vacuous _ _ _ _ l1, ins⟩
  · rename_i hc
    refine ⟨bb, l1, ko, ins, ⟨false, hwx⟩, ?_⟩
    have hm : (getNext sh.heap next i).2 = false := by
      cases hh : (getNext sh.heap next i).2
      · rfl
      · rw [hfix, hh] at hc; simp at hc
    have hge := (ko i (by omega) hil).2
    rw [← hnext] at hge
    apply Classical.byContradiction
    intro hnlt
    have hk : keyOf sh.heap next = .fin item := Key.eq_of_not_lt hge hnlt
    have hx0 := ne_head_of_fin H hkx
    have hx1 : x ≠ 1 := by
      intro e; rw [e, H.tailKey] at hkx; simp at hkx
    have hn1 : next ≠ 1 := by
      intro e; rw [e, H.tailKey] at hk; simp at hk
    have hnl : next < sh.heap.length := lt_of_keyOf_fin hk
    have hnlv : next = 1 ∨ (word? sh.heap next i).isSome := by
      rw [hnext]; exact hb.2.2.2.2 i (by omega)
    have un : unmarked0 sh.heap next := unmarked0_of_level H hnl hn1 hnlv hm
    have ux : unmarked0 sh.heap x :=
      unmarked0_of_level H hx hx1 (.inr (by rw [hwx]; rfl)) (by rw [getNext_of_word hwx])
    have heq : x = next := live_key_inj H R ux un (by rw [hkx, hk])
    have hu : unmarkedAt sh.heap i x := ⟨next, hwx⟩
    have kx : Lk sh.heap x i := by
      have := (bb.2.2 i).2
      rw [← hnext, ← heq] at this; exact this
    exact (ins.1 hu).not_onChain hx0 (kx i h1 (Nat.le_refl _) hu)

theorem insCheckSucc_sh (sh : Shared) (th : Thread) (item x lvl i next : Nat) :
    (insCheckSucc sh th item x lvl i next).1 = sh := by
  unfold insCheckSucc; split <;> rfl

theorem stepInsUpRead_goodL {sh : Shared} {th : Thread} (item x lvl i : Nat) (H : HInv sh.heap)
    (R : ReachInv sh.heap) (hfix : sh.fixedSucc = true)
    (hT : TInv sh.heap th) (hL : TL sh.heap sh.level th) (hpc : th.pc = .insUpRead item x lvl i) :
    GoodL sh.heap th (stepInsUpRead sh th item x lvl i) := by
  obtain ⟨hb, hi, hp⟩ := hT
  rw [hpc] at hp
  obtain ⟨hx, hkx, h1, hil, hlvl, hhx⟩ := hp
  obtain ⟨bb, bp⟩ := hL
  rw [hpc] at bp
  obtain ⟨l1, ko, ins⟩ := bp
  have hx0 := ne_head_of_fin H hkx
  have hx1 : x ≠ 1 := by
    intro e; rw [e, H.tailKey] at hkx; simp at hkx
  have hxl : (word? sh.heap x i).isSome := H.full x i hx hx1 (by rw [hhx]; exact hil)
  obtain ⟨⟨q, mq⟩, hwq⟩ := Option.isSome_iff_exists.mp hxl
  have hgn : getNext sh.heap x i = (q, mq) := getNext_of_word hwq
  have hs : th.succ i < sh.heap.length := hb.2.2.2.1 i
  have hsl : th.succ i = 1 ∨ (word? sh.heap (th.succ i) i).isSome := hb.2.2.2.2 i (by omega)
  unfold stepInsUpRead
  simp only [hgn]
  split
  · exact ⟨.other, .none, trivial, bb, trivial⟩
  · rename_i hm
    have hmq : mq = false := by
      cases mq
      · rfl
      · simp at hm
    subst hmq
    have U : Unlinked sh.heap x i := ins.1 ⟨q, hwq⟩
    split
    · -- the node's own dcas: it succeeds
      have hok : (dcas sh.heap x i q (th.succ i) false).2 = true := (dcas_ok_iff ..).mpr hwq
      have hheap := dcas_ok_heap _ _ _ _ _ _ hok
      have hst : LStep sh.heap (.own x) (dcas sh.heap x i q (th.succ i) false).1 := by
        rw [hheap]; exact .own h1 hx0 hwq U (bb.2.2 i).2
      have e := Ext.dcas sh.heap x i q (th.succ i) false
      have H' : HInv (dcas sh.heap x i q (th.succ i) false).1 := by
        rw [hheap]; exact H.setUnmarked hwq hs (by omega) hsl
      have R' : ReachInv (dcas sh.heap x i q (th.succ i) false).1 := by
        rw [hheap]; exact (HStep.upper (th.succ i, false) h1 hwq).reachInv H R
      have hwx' : word? (dcas sh.heap x i q (th.succ i) false).1 x i = some (th.succ i, false) := by
        rw [word?_dcas_ok hok]; simp
      simp only [hok, if_true]
      refine ⟨.own x, by rw [insCheckSucc_sh]; exact hst, ?_, ?_⟩
      · show insNode th.pc = some x
        rw [hpc]; rfl
      · rw [insCheckSucc_sh]
        exact insCheckSucc_tl (sh := { sh with heap := (dcas sh.heap x i q (th.succ i) false).1 })
          item x lvl i (th.succ i) H' R' hfix (hb.ext e) (bb.keep H e hst hb) l1 (ko.ext e hb)
          (ins.keep H e hst hx hx0 h1 (fun l c => by cases c)) (Nat.lt_of_lt_of_le hx e.len) (by rw [e.key _ hx]; exact hkx)
          h1 hil hlvl rfl hwx'
    · rename_i hne
      have hq : q = th.succ i := by
        apply Classical.byContradiction
        intro c; exact hne c
      refine ⟨.other, by rw [insCheckSucc_sh]; exact .none, trivial, ?_⟩
      rw [insCheckSucc_sh]
      exact insCheckSucc_tl item x lvl i (th.succ i) H R hfix hb bb l1 ko ins hx hkx h1 hil hlvl rfl
        (by rw [← hq]; exact hwq)

theorem stepInsUpLink_goodL {sh : Shared} {th : Thread} (item x lvl i next : Nat) (H : HInv sh.heap)
    (L : LvInv sh.heap)
    (hT : TInv sh.heap th) (hL : TL sh.heap sh.level th) (hpc : th.pc = .insUpLink item x lvl i next) :
    GoodL sh.heap th (stepInsUpLink sh th item x lvl i next) := by
  obtain ⟨hb, hi, hp⟩ := hT
  rw [hpc] at hp
  obtain ⟨hx, hkx, h1, hn, hil, hlvl, hhx⟩ := hp
  obtain ⟨bb, bp⟩ := hL
  rw [hpc] at bp
  obtain ⟨l1, ko, ins, ⟨m, hwx⟩, klt⟩ := bp
  have hx0 := ne_head_of_fin H hkx
  unfold stepInsUpLink
  simp only []
  by_cases hok : (dcas sh.heap (th.pred i) i next x false).2 = true
  · have hwp := (dcas_ok_iff ..).mp hok
    have hheap := dcas_ok_heap _ _ _ _ _ _ hok
    have k1 : Key.lt (keyOf sh.heap (th.pred i)) (keyOf sh.heap x) := by
      rw [hkx]; exact (ko i (by omega) hil).1
    have hst : LStep sh.heap (.link x i) (dcas sh.heap (th.pred i) i next x false).1 := by
      rw [hheap]
      exact .link h1 hwp hwx (bb.2.2 i).1 k1 (by rw [hkx]; exact klt) ins.2
    have L' := hst.lvInv H L
    have e := Ext.dcas sh.heap (th.pred i) i next x false
    have bb' := bb.keep H e hst hb
    have ko' := ko.ext e hb
    have hins : insNode th.pc = some x := by rw [hpc]; rfl
    have hne : x ≠ th.pred i := by
      intro c; rw [← c] at k1; exact Key.lt_irrefl _ k1
    have hwx' : word? (dcas sh.heap (th.pred i) i next x false).1 x i = some (next, m) := by
      rw [word?_dcas_ok hok]
      have : ¬ (x = th.pred i ∧ i = i) := fun c => hne c.1
      rw [if_neg this]; exact hwx
    have hwp' : word? (dcas sh.heap (th.pred i) i next x false).1 (th.pred i) i = some (x, false) := by
      rw [word?_dcas_ok hok]; simp
    simp only [hok, if_true]
    have hkx' : keyOf (dcas sh.heap (th.pred i) i next x false).1 x = .fin item := by rw [e.key _ hx]; exact hkx
    have hnm : (getNext (dcas sh.heap (th.pred i) i next x false).1 x i).2 = false →
        ¬ markedAt (dcas sh.heap (th.pred i) i next x false).1 i x := by
      intro hum ⟨p, hp⟩
      rw [getNext_of_word hp] at hum; simp at hum
    split
    · exact ⟨.link x i, hst, ⟨hins, fun _ => ⟨_, rfl, rfl, hkx', rfl, Nat.le_trans hil l1⟩⟩,
        startFind_tl { sh with heap := (dcas sh.heap (th.pred i) i next x false).1 } th item _ bb' trivial⟩
    · rename_i hum
      have hum' : (getNext (dcas sh.heap (th.pred i) i next x false).1 x i).2 = false := by
        cases hh : (getNext (dcas sh.heap (th.pred i) i next x false).1 x i).2
        · rfl
        · exact absurd hh hum
      split
      · refine ⟨.link x i, hst, ⟨hins, fun hm => absurd hm (hnm hum')⟩, bb', l1, ko', ?_, ?_⟩
        · intro _
          have hmf : m = false := by
            rw [getNext_of_word hwx'] at hum
            cases m
            · rfl
            · simp at hum
          subst hmf
          have U : Unlinked sh.heap x i := ins.1 ⟨next, hwx⟩
          intro b l' q mq hl' hq eq
          subst eq
          rw [word?_dcas_ok hok] at hq
          have : ¬ (b = th.pred i ∧ l' = i) := by omega
          rw [if_neg this] at hq
          exact U b l' q mq (by omega) hq rfl
        · have : i + 1 - 1 = i := by omega
          rw [this]
          exact L'.pointed hwp'
      · exact ⟨.link x i, hst, ⟨hins, fun hm => absurd hm (hnm hum')⟩, bb', trivial⟩
  · have hfail : (dcas sh.heap (th.pred i) i next x false).2 = false := by simpa using hok
    have hheap := dcas_fail _ _ _ _ _ _ hfail
    simp only [hfail, Bool.false_eq_true, ↓reduceIte]
    refine ⟨.other, by rw [startFind_sh]; simp only [hheap]; exact .none, trivial, ?_⟩
    have := startFind_tl { sh with heap := (dcas sh.heap (th.pred i) i next x false).1 } th item
      (.insRelink x lvl i) (by simp only [hheap]; exact bb)
      (by simp only [hheap]; exact ⟨l1, KeysOK.vacuous _ _ _ _ l1, ins⟩)
    exact this

end NitroVerif.SkipConc
