import NitroVerif.Lemmas.SkipSeqMerge
/-!
  `MergeIterator.SeekFirst` / `Seek`: from ANY state of the merge iterator they rebuild a consistent
  state (this is where `Gen.mergeSeekFirstResets` / `Gen.mergeSeekResets` are needed: the heap is
  emptied first, so no stale entry of an earlier scan survives).
-/
namespace NitroVerif.SkipSeq
open NitroVerif NitroVerif.OrdSet

/-- what is known about a merge iterator at an arbitrary moment -/
structure MState (m : MergeIt) (Ls : List (List Nat)) : Prop where
  lenI : m.iters.length = m.sls.length
  lenL : Ls.length = m.sls.length
  reps : ∀ i, i < m.sls.length → Rep (slAt m i) (Ls.getD i [])
  del : ∀ i, i < m.sls.length → (itAt m i).deleted = false

theorem MInv.state {m : MergeIt} {Ls rem : List (List Nat)} (inv : MInv m Ls rem) : MState m Ls :=
  ⟨inv.lenI, inv.lenL, inv.reps, fun i hi => (inv.its i hi).2⟩

/-- loop invariant of the re-positioning loops: iterators `< k` stand at the head of their target
    suffix and have their heap entry -/
structure LoopInv (m0 m : MergeIt) (Ls target : List (List Nat)) (k : Nat) : Prop where
  lenS : m.sls.length = m0.sls.length
  lenI : m.iters.length = m.sls.length
  lenL : Ls.length = m.sls.length
  lenT : target.length = m.sls.length
  reps : ∀ i, i < m.sls.length → Rep (slAt m i) (Ls.getD i [])
  nodes : ∀ i, (slAt m i).nodes = (slAt m0 i).nodes
  suf : ∀ i, i < m.sls.length → ∃ P, Ls.getD i [] = P ++ target.getD i []
  done : ∀ i, i < k → i < m.sls.length →
    (itAt m i).curr = ((target.getD i []).head?).getD tailId ∧ (itAt m i).deleted = false
  todo : ∀ i, k ≤ i → i < m.sls.length → (itAt m i).deleted = false
  hnd : m.h.Nodup
  hmem : ∀ i n, (i, n) ∈ m.h ↔ (i < k ∧ i < m.sls.length ∧ (target.getD i []).head? = some n)

theorem LoopInv.finish {m0 m : MergeIt} {Ls target : List (List Nat)}
    (inv : LoopInv m0 m Ls target m.sls.length) : MInv m Ls target :=
  ⟨inv.lenI, inv.lenL, inv.lenT, inv.reps, inv.suf, fun i hi => inv.done i hi hi, inv.hnd,
   fun i n => by rw [inv.hmem]; exact ⟨fun h => ⟨h.2.1, h.2.2⟩, fun h => ⟨h.1, h.1, h.2⟩⟩⟩

/-- one iterator re-positioned and (if not exhausted) pushed -/
theorem LoopInv.push {m0 m m' : MergeIt} {Ls target : List (List Nat)} {i : Nat} {s' : SL} {it' : Iter}
    (inv : LoopInv m0 m Ls target i) (hi : i < m.sls.length)
    (hsl : m'.sls = m.sls.set i s') (hsb : SameBut (slAt m i) s')
    (hits : m'.iters = m.iters.set i it')
    (hc : it'.curr = ((target.getD i []).head?).getD tailId) (hd : it'.deleted = false)
    (hh : m'.h = match target.getD i [] with
                 | [] => m.h
                 | a :: _ => m.h ++ [(i, a)]) :
    LoopInv m0 m' Ls target (i + 1) := by
  have hlen : m'.sls.length = m.sls.length := by rw [hsl]; simp
  have hslAt : ∀ j, slAt m' j = if i = j then s' else slAt m j := by
    intro j
    simp only [slAt, hsl]
    rw [getD_set_list]
    by_cases hij : i = j
    · simp [hij, hi]; intro h; omega
    · simp [hij]
  refine ⟨by rw [hlen]; exact inv.lenS, by rw [hits, hlen]; simp [inv.lenI], by rw [hlen]; exact inv.lenL,
    by rw [hlen]; exact inv.lenT, ?_, ?_, ?_, ?_, ?_, ?_, ?_⟩
  · intro j hj
    rw [hlen] at hj
    rw [hslAt]
    by_cases hij : i = j
    · subst hij; rw [if_pos rfl]; exact (inv.reps i hj).of_sameBut hsb
    · rw [if_neg hij]; exact inv.reps j hj
  · intro j
    rw [hslAt]
    by_cases hij : i = j
    · subst hij; rw [if_pos rfl, hsb.nodes]; exact inv.nodes i
    · rw [if_neg hij]; exact inv.nodes j
  · intro j hj; rw [hlen] at hj; exact inv.suf j hj
  · intro j hj1 hj2
    rw [hlen] at hj2
    simp only [itAt, hits]
    rw [getD_set_list]
    by_cases hij : i = j
    · subst hij
      rw [if_pos ⟨rfl, by rw [inv.lenI]; exact hi⟩]
      exact ⟨hc, hd⟩
    · rw [if_neg (fun h => hij h.1)]
      exact inv.done j (by omega) hj2
  · intro j hj1 hj2
    rw [hlen] at hj2
    simp only [itAt, hits]
    rw [getD_set_list, if_neg (fun h => by omega)]
    exact inv.todo j (by omega) hj2
  · rw [hh]
    cases ht : target.getD i [] with
    | nil => exact inv.hnd
    | cons a T =>
      simp only
      rw [List.nodup_append]
      refine ⟨inv.hnd, by simp, ?_⟩
      intro x hx y hy
      simp at hy; subst hy
      intro e; subst e
      have := ((inv.hmem i a).mp hx).1
      omega
  · intro j n
    rw [hh, hlen]
    cases ht : target.getD i [] with
    | nil =>
      simp only
      rw [inv.hmem]
      constructor
      · rintro ⟨h1, h2, h3⟩; exact ⟨by omega, h2, h3⟩
      · rintro ⟨h1, h2, h3⟩
        by_cases hij : j = i
        · subst hij; rw [ht] at h3; simp at h3
        · exact ⟨by omega, h2, h3⟩
    | cons a T =>
      simp only [List.mem_append, List.mem_singleton]
      rw [inv.hmem]
      constructor
      · rintro (⟨h1, h2, h3⟩ | h)
        · exact ⟨by omega, h2, h3⟩
        · simp at h; rcases h with ⟨rfl, rfl⟩
          exact ⟨by omega, hi, by rw [ht]; rfl⟩
      · rintro ⟨h1, h2, h3⟩
        by_cases hij : j = i
        · subst hij; rw [ht] at h3; simp at h3; right; rw [h3]
        · left; exact ⟨by omega, h2, h3⟩

/-- the empty heap to start from -/
theorem LoopInv.start {m : MergeIt} {Ls target : List (List Nat)} (st : MState m Ls)
    (hT : target.length = m.sls.length)
    (hsuf : ∀ i, i < m.sls.length → ∃ P, Ls.getD i [] = P ++ target.getD i []) :
    LoopInv m { m with h := [] } Ls target 0 :=
  ⟨rfl, st.lenI, st.lenL, hT, st.reps, fun _ => rfl, hsuf, fun i h => absurd h (by omega),
   fun i _ hi => st.del i hi, by simp, fun i n => by simp⟩

/-! ### `SeekFirst` -/

theorem seekFirstLoop_spec {m0 : MergeIt} {Ls : List (List Nat)} :
    ∀ (n i : Nat) (m : MergeIt), i + n = m.sls.length → LoopInv m0 m Ls Ls i →
      LoopInv m0 (mergeSeekFirstLoop n i m) Ls Ls (mergeSeekFirstLoop n i m).sls.length := by
  intro n
  induction n with
  | zero =>
    intro i m hn inv
    simp only [mergeSeekFirstLoop]
    have : i = m.sls.length := by omega
    rw [← this]; exact inv
  | succ n ih =>
    intro i m hn inv
    simp only [mergeSeekFirstLoop]
    have hi : i < m.sls.length := by omega
    have hr := inv.reps i hi
    have hp := hr.paths 0 (Nat.zero_le _)
    rw [LL_zero] at hp
    have hlink : getNext (slAt m i).nodes headId 0 = (((Ls.getD i []).head?).getD tailId, nomk headId) :=
      path_head_link hp
    have hdel := inv.todo i (Nat.le_refl _) hi
    apply ih (i + 1) _ (by simp only; omega)
    cases hL : Ls.getD i [] with
    | nil =>
      rw [hL] at hlink
      refine inv.push (s' := slAt m i)
        (it' := { itAt m i with prev := headId, curr := tailId, valid := false }) hi ?_ (SameBut.refl _) ?_ ?_ ?_ ?_
      · simp only; exact (getD_set_self m.sls i SL.init hi).symm
      · simp only [iterSeekFirst, iterValid, hlink]; simp
      · rw [hL]; rfl
      · exact hdel
      · rw [hL]; simp only [iterSeekFirst, iterValid, hlink]; simp
    | cons a T =>
      rw [hL] at hlink
      have hat : a ≠ tailId := by
        have := (hr.nodes a (by rw [hL]; simp)).lo
        simp [tailId]; omega
      refine inv.push (s' := slAt m i)
        (it' := { itAt m i with prev := headId, curr := a, valid := true }) hi ?_ (SameBut.refl _) ?_ ?_ ?_ ?_
      · simp only; exact (getD_set_self m.sls i SL.init hi).symm
      · simp only [iterSeekFirst, iterValid, hlink]; simp [hat]
      · rw [hL]; rfl
      · exact hdel
      · rw [hL]; simp only [iterSeekFirst, iterValid, hlink]; simp [hat]

/-- `SeekFirst` at any point: the result is one `Next` away from the state in which every iterator
    stands at the start of its list -/
theorem mergeSeekFirst_spec {m : MergeIt} {Ls : List (List Nat)} (st : MState m Ls) :
    ∃ m1, mergeSeekFirst m = mergeNext m1 ∧ MInv m1 Ls Ls ∧ m1.sls.length = m.sls.length ∧
      ∀ i, (slAt m1 i).nodes = (slAt m i).nodes := by
  have hstart := LoopInv.start (target := Ls) st st.lenL (fun i _ => ⟨[], rfl⟩)
  have hloop := seekFirstLoop_spec (m0 := m) (Ls := Ls) m.iters.length 0 { m with h := [] }
    (by simp [st.lenI]) hstart
  refine ⟨mergeSeekFirstLoop m.iters.length 0 { m with h := [] }, ?_, hloop.finish, hloop.lenS, hloop.nodes⟩
  unfold mergeSeekFirst
  simp [mergeSeekFirstResets_eq]

end NitroVerif.SkipSeq

namespace NitroVerif.SkipSeq
open NitroVerif NitroVerif.OrdSet

/-! ### `Seek` -/

/-- the nodes of `L` whose key is `≥ x` (a suffix of `L` when `L` is ascending) -/
def geX (s : SL) (L : List Nat) (x : Int) : List Nat := L.filter fun a => !decide (ikey s.nodes a < x)

theorem geX_congr {s s' : SL} (h : s'.nodes = s.nodes) (L : List Nat) (x : Int) : geX s' L x = geX s L x := by
  unfold geX; rw [h]

theorem iterSeek_pos {s : SL} {L0 : List Nat} (hr : Rep s L0) (x : Int) (it : Iter) :
    ∃ s' p, iterSeek s it (.item x)
        = (s', { it with valid := true, prev := p, curr := ((geX s L0 x).head?).getD tailId },
           decide (x ∈ L0.map (ikey s.nodes))) ∧ SameBut s s' ∧
      ∃ P, L0 = P ++ geX s L0 x := by
  have hAB := sorted_split hr.sorted x
  have hA : ∀ a ∈ L0.filter (fun a => decide (ikey s.nodes a < x)), ikey s.nodes a < x := by
    intro a ha; simpa using (List.mem_filter.mp ha).2
  have hB : ∀ b ∈ geX s L0 x, x ≤ ikey s.nodes b := by
    intro b hb; have := (List.mem_filter.mp hb).2; simp at this; omega
  rcases findPath_quiescent hr hAB hA hB with ⟨s3, he, hsb, hbuf⟩
  have hs0 : s3.buf.succs.getD 0 0 = succAt s.nodes (geX s L0 x) 0 := (hbuf 0 (Nat.zero_le _)).2
  have hr' : Rep s (L0.filter (fun a => decide (ikey s.nodes a < x)) ++ geX s L0 x) := by
    unfold geX; rw [← hAB]; exact hr
  have hcur : s3.buf.succs.getD 0 0 = ((geX s L0 x).head?).getD tailId := by rw [hs0, succAt_zero]
  have he' : findPath s (.item x) =
      (s3, if compare (keyOf s.nodes (succAt s.nodes (geX s L0 x) 0)) (.item x) = 0
           then succAt s.nodes (geX s L0 x) 0 else nilId) := he
  refine ⟨s3, s3.buf.preds.getD 0 0, ?_, hsb, ⟨_, hAB⟩⟩
  unfold iterSeek
  rw [he']
  simp only [hcur]
  by_cases hc : compare (keyOf s.nodes (succAt s.nodes (geX s L0 x) 0)) (.item x) = 0
  · have hk := (hr'.hit_iff hA hB).mp hc
    have hne := hr'.succ_ne_nil hB hc
    have hk' : x ∈ L0.map (ikey s.nodes) := by
      have e : L0.filter (fun a => decide (ikey s.nodes a < x)) ++ geX s L0 x = L0 := hAB.symm
      rw [e] at hk; exact hk
    rw [if_pos hc, decide_eq_true hk']
    simp [hne]
  · have hk : x ∉ L0.map (ikey s.nodes) := by
      intro h; apply hc; apply (hr'.hit_iff hA hB).mpr
      have e : L0.filter (fun a => decide (ikey s.nodes a < x)) ++ geX s L0 x = L0 := hAB.symm
      rw [e]; exact h
    rw [if_neg hc, decide_eq_false hk]
    simp

/-- the target suffixes of `Seek x`, list by list -/
def seekTarget (m : MergeIt) (Ls : List (List Nat)) (x : Int) : List (List Nat) :=
  List.zipWith (fun s L => geX s L x) m.sls Ls

theorem seekTarget_getD (m : MergeIt) (Ls : List (List Nat)) (x : Int) (i : Nat)
    (hi : i < m.sls.length) (hL : Ls.length = m.sls.length) :
    (seekTarget m Ls x).getD i [] = geX (slAt m i) (Ls.getD i []) x := by
  unfold seekTarget slAt
  have h2 : i < Ls.length := by omega
  simp [List.getD_eq_getElem?_getD, List.getElem?_zipWith, List.getElem?_eq_getElem hi,
    List.getElem?_eq_getElem h2]

/-- the body of the loop of `Seek` -/
def seekStep (k : Key) (i : Nat) (m : MergeIt) : MergeIt × Bool :=
  let r := iterSeek (slAt m i) (itAt m i) k
  let v := iterValid r.2.1
  ({ m with sls := m.sls.set i r.1, iters := m.iters.set i v.1,
            h := if v.2 then m.h ++ [(i, v.1.curr)] else m.h }, r.2.2)

theorem mergeSeekLoop_succ (k : Key) (n i : Nat) (m : MergeIt) (fnd : Bool) :
    mergeSeekLoop k (n + 1) i m fnd
      = mergeSeekLoop k n (i + 1) (seekStep k i m).1 (fnd || (seekStep k i m).2) := rfl

theorem seekStep_spec {m0 m : MergeIt} {Ls : List (List Nat)} {x : Int} {i : Nat}
    (inv : LoopInv m0 m Ls (seekTarget m0 Ls x) i) (hi : i < m.sls.length) :
    LoopInv m0 (seekStep (.item x) i m).1 Ls (seekTarget m0 Ls x) (i + 1) ∧
    (seekStep (.item x) i m).1.sls.length = m.sls.length ∧
    (seekStep (.item x) i m).2 = decide (x ∈ (Ls.getD i []).map (ikey (slAt m0 i).nodes)) := by
  have hi0 : i < m0.sls.length := by rw [← inv.lenS]; exact hi
  have hL0 : Ls.length = m0.sls.length := by rw [inv.lenL, inv.lenS]
  have hr := inv.reps i hi
  have hdel := inv.todo i (Nat.le_refl _) hi
  rcases iterSeek_pos hr x (itAt m i) with ⟨s', p, he, hsb, _⟩
  have htar : (seekTarget m0 Ls x).getD i [] = geX (slAt m i) (Ls.getD i []) x := by
    rw [seekTarget_getD m0 Ls x i hi0 hL0]
    exact (geX_congr (inv.nodes i) _ _).symm
  refine ⟨?_, by simp [seekStep], by simp only [seekStep, he]; rw [inv.nodes i]⟩
  cases hg : geX (slAt m i) (Ls.getD i []) x with
  | nil =>
    rw [hg] at he
    refine inv.push (s' := s')
      (it' := { itAt m i with prev := p, curr := tailId, valid := false }) hi ?_ hsb ?_ ?_ ?_ ?_
    · simp only [seekStep, he]
    · simp only [seekStep, he]; simp [iterValid]
    · rw [htar, hg]; rfl
    · exact hdel
    · rw [htar, hg]; simp only [seekStep, he]; simp [iterValid]
  | cons a T =>
    rw [hg] at he
    have ham : a ∈ Ls.getD i [] := by
      have : a ∈ geX (slAt m i) (Ls.getD i []) x := by rw [hg]; simp
      exact (List.mem_filter.mp this).1
    have hat : a ≠ tailId := by
      have := (hr.nodes a ham).lo
      simp [tailId]; omega
    refine inv.push (s' := s')
      (it' := { itAt m i with prev := p, curr := a, valid := true }) hi ?_ hsb ?_ ?_ ?_ ?_
    · simp only [seekStep, he]
    · simp only [seekStep, he]; simp [iterValid, hat]
    · rw [htar, hg]; rfl
    · exact hdel
    · rw [htar, hg]; simp only [seekStep, he]; simp [iterValid, hat]

theorem seekLoop_spec {m0 : MergeIt} {Ls : List (List Nat)} {x : Int} :
    ∀ (n i : Nat) (m : MergeIt) (fnd : Bool), i + n = m.sls.length →
      LoopInv m0 m Ls (seekTarget m0 Ls x) i →
      LoopInv m0 (mergeSeekLoop (.item x) n i m fnd).1 Ls (seekTarget m0 Ls x)
        (mergeSeekLoop (.item x) n i m fnd).1.sls.length ∧
      ((mergeSeekLoop (.item x) n i m fnd).2 = true ↔
        (fnd = true ∨ ∃ j, i ≤ j ∧ j < m.sls.length ∧ x ∈ (Ls.getD j []).map (ikey (slAt m0 j).nodes))) := by
  intro n
  induction n with
  | zero =>
    intro i m fnd hn inv
    simp only [mergeSeekLoop]
    have : i = m.sls.length := by omega
    refine ⟨by rw [← this]; exact inv, ?_⟩
    constructor
    · intro h; exact Or.inl h
    · rintro (h | ⟨j, h1, h2, _⟩)
      · exact h
      · omega
  | succ n ih =>
    intro i m fnd hn inv
    rw [mergeSeekLoop_succ]
    have hi : i < m.sls.length := by omega
    rcases seekStep_spec inv hi with ⟨hpush, hlen, hf⟩
    rcases ih (i + 1) _ (fnd || (seekStep (.item x) i m).2) (by rw [hlen]; omega) hpush with ⟨h1, h2⟩
    refine ⟨h1, ?_⟩
    rw [h2, hlen, hf]
    simp only [Bool.or_eq_true, decide_eq_true_eq]
    constructor
    · rintro ((h | h) | ⟨j, hj1, hj2, hj3⟩)
      · exact Or.inl h
      · exact Or.inr ⟨i, Nat.le_refl _, hi, h⟩
      · exact Or.inr ⟨j, by omega, hj2, hj3⟩
    · rintro (h | ⟨j, hj1, hj2, hj3⟩)
      · exact Or.inl (Or.inl h)
      · by_cases hij : j = i
        · subst hij; exact Or.inl (Or.inr hj3)
        · exact Or.inr ⟨j, by omega, hj2, hj3⟩

/-- `Seek x` at any point: the result is one `Next` away from the state in which every iterator
    stands at its first node `≥ x`; it reports whether some input holds `x` -/
theorem mergeSeek_spec {m : MergeIt} {Ls : List (List Nat)} (st : MState m Ls) (x : Int) :
    ∃ m1, (mergeSeek m (.item x)).1 = mergeNext m1 ∧ MInv m1 Ls (seekTarget m Ls x) ∧
      m1.sls.length = m.sls.length ∧ (∀ i, (slAt m1 i).nodes = (slAt m i).nodes) ∧
      ((mergeSeek m (.item x)).2 = true ↔
        ∃ j, j < m.sls.length ∧ x ∈ (Ls.getD j []).map (ikey (slAt m j).nodes)) := by
  have hsuf : ∀ i, i < m.sls.length → ∃ P, Ls.getD i [] = P ++ (seekTarget m Ls x).getD i [] := by
    intro i hi
    rw [seekTarget_getD m Ls x i hi st.lenL]
    rcases iterSeek_pos (st.reps i hi) x Iter.new with ⟨_, _, _, _, hP⟩
    exact hP
  have hT : (seekTarget m Ls x).length = m.sls.length := by
    simp [seekTarget, st.lenL]
  have hstart := LoopInv.start (target := seekTarget m Ls x) st hT hsuf
  rcases seekLoop_spec (m0 := m) (Ls := Ls) (x := x) m.iters.length 0 { m with h := [] } false
    (by simp [st.lenI]) hstart with ⟨h1, h2⟩
  refine ⟨(mergeSeekLoop (.item x) m.iters.length 0 { m with h := [] } false).1, ?_, h1.finish, h1.lenS,
    h1.nodes, ?_⟩
  · unfold mergeSeek; simp [mergeSeekResets_eq]
  · have : (mergeSeek m (.item x)).2 = (mergeSeekLoop (.item x) m.iters.length 0 { m with h := [] } false).2 := by
      unfold mergeSeek; simp [mergeSeekResets_eq]
    rw [this, h2]
    constructor
    · rintro (h | ⟨j, _, hj2, hj3⟩)
      · simp at h
      · exact ⟨j, hj2, hj3⟩
    · rintro ⟨j, hj2, hj3⟩
      exact Or.inr ⟨j, Nat.zero_le _, hj2, hj3⟩

end NitroVerif.SkipSeq
