import NitroVerif.Lemmas.BarrierTac
/-!
  Preservation of `Inv` — part A: `start` actions, the `stale` action, `Acquire` (ACQ_LOAD, ACQ_ADD).
-/
namespace NitroVerif.Barrier
set_option linter.unusedSimpArgs false
set_option linter.unusedVariables false

theorem leaf_startAcquire {st : St} {i : Nat} {t : Th} (h : Inv st) (ht : st.ths[i]? = some t)
    (hpc : t.pc = .idle) : Inv (setT st i { t with pc := .acqLoad }) := by
  have key := cnt_step' st st i t { t with pc := .acqLoad } rfl ht
  bar_auto []

theorem leaf_startRelease {st : St} {i : Nat} {t : Th} {j s0 : Nat} (h : Inv st)
    (ht : st.ths[i]? = some t) (hpc : t.pc = .idle) (hj : t.toks[j]? = some s0) :
    Inv (setT st i { pc := .relDec s0 .retRel, toks := t.toks.eraseIdx j }) := by
  have key := cnt_step' st st i t { pc := .relDec s0 .retRel, toks := t.toks.eraseIdx j } rfl ht
  have mem := fun f => cnt_ge_mem f st i t ht
  have ce := fun x => count_eraseIdx t.toks j s0 x hj
  have cnt_e : ∀ x, (t.toks.eraseIdx j).count x = t.toks.count x - (if s0 = x then 1 else 0) := by
    intro x; have := ce x; omega
  have c0 := ce s0
  simp at c0
  have m1 := mem (unitsT s0); have m2 := mem (realT s0); have m3 := mem (refT s0)
  simp [barsimp, hpc] at m1 m2 m3
  bar_auto_s [cnt_e]

theorem leaf_startFlush {st : St} {i : Nat} {t : Th} {obj : Nat} (h : Inv st)
    (ht : st.ths[i]? = some t) (hpc : t.pc = .idle) :
    Inv (setT { st with flStarted := st.flStarted + 1 } i { t with pc := .flLock obj }) := by
  have key := cnt_step' st { st with flStarted := st.flStarted + 1 } i t { t with pc := .flLock obj } rfl ht
  have gS : ∀ s, getS (setT { st with flStarted := st.flStarted + 1 } i { t with pc := .flLock obj }) s
      = getS st s := fun _ => rfl
  bar_auto [gS]

theorem leaf_stale {st : St} {i : Nat} {t : Th} {k : Cont} (h : Inv st)
    (ht : st.ths[i]? = some t) (hpc : t.pc = .clRead false k) :
    Inv (setT st i { t with pc := .relUnlock k }) := by
  have key := cnt_step' st st i t { t with pc := .relUnlock k } rfl ht
  bar_auto []

theorem leaf_acqLoad {st : St} {i : Nat} {t : Th} (h : Inv st)
    (ht : st.ths[i]? = some t) (hpc : t.pc = .acqLoad) :
    Inv (setT st i { t with pc := .acqAdd st.cur }) := by
  have key := cnt_step' st st i t { t with pc := .acqAdd st.cur } rfl ht
  have hcl := h.curlen
  bar_auto []
  case range =>
    intro s hs; have hold := h.range s (by simpa using hs)
    have : st.cur ≠ s := by simp at hs; omega
    simp [key, barsimp, hpc, this]; exact hold

theorem leaf_acqAdd_backoff {st : St} {i : Nat} {t : Th} {s0 : Nat} (h : Inv st)
    (ht : st.ths[i]? = some t) (hpc : t.pc = .acqAdd s0)
    (hreg : ¬ ((!(getS st s0).flushed && decide (Gen.barrierFlushOffset ≤ (getS st s0).live + 1)) = true))
    (hb : Gen.acquireBackoff ((getS st s0).live + 1) = true) :
    Inv (setT (setS st s0 ((getS st s0).addLive 1)) i { t with pc := .relDec s0 .retAcq }) := by
  have key := cnt_step' st (setS st s0 ((getS st s0).addLive 1)) i t { t with pc := .relDec s0 .retAcq } rfl ht
  have hs0 : s0 < st.sess.length := ref_lt h ht s0 (by simp [barsimp, hpc])
  have gS := fun s => getS_setS st s0 s ((getS st s0).addLive 1) hs0
  rw [acquireBackoff_iff, off_val] at hb
  have hc0 := h.count s0 hs0
  have hb0 := h.bound s0
  have hle := b2n_le (getS st s0).flushed
  bar_auto_s [gS]

theorem leaf_acqAdd_grant {st : St} {i : Nat} {t : Th} {s0 : Nat} (h : Inv st)
    (ht : st.ths[i]? = some t) (hpc : t.pc = .acqAdd s0)
    (hreg : ¬ ((!(getS st s0).flushed && decide (Gen.barrierFlushOffset ≤ (getS st s0).live + 1)) = true))
    (hb : ¬ Gen.acquireBackoff ((getS st s0).live + 1) = true) :
    Inv (setT (setS st s0 ((getS st s0).addLive 1)) i { pc := .idle, toks := t.toks ++ [s0] }) := by
  have key := cnt_step' st (setS st s0 ((getS st s0).addLive 1)) i t { pc := .idle, toks := t.toks ++ [s0] } rfl ht
  have hs0 : s0 < st.sess.length := ref_lt h ht s0 (by simp [barsimp, hpc])
  have gS := fun s => getS_setS st s0 s ((getS st s0).addLive 1) hs0
  rw [acquireBackoff_iff, off_val] at hb
  have hc0 := h.count s0 hs0
  have hb0 := h.bound s0
  have hle := b2n_le (getS st s0).flushed
  have hnf : b2n (getS st s0).flushed = 0 := by omega
  have hcl := h.closed s0
  have hfalse := b2n_eq_zero.mp hnf
  simp [hfalse, off_val] at hreg
  bar_auto_s [gS]

end NitroVerif.Barrier
