/-
  C01 along concurrent histories (part 4): the frontier and reference invariants hold in every reachable
  state; what an open snapshot number sees does not change under any action.
-/
import NitroVerif.Lemmas.MvccConcView3

namespace NitroVerif.MvccConc
open NitroVerif
open NitroVerif.Mvcc (Ver Sorted Chains vlt visible)

/-! ### snapshots are never forgotten -/

def SnMono (l l' : List Snap) : Prop := ∀ s ∈ l, ∃ s' ∈ l', s'.sn = s.sn

theorem SnMono.refl (l : List Snap) : SnMono l l := fun s hs => ⟨s, hs, rfl⟩

theorem SnMono.trans {l1 l2 l3 : List Snap} (h1 : SnMono l1 l2) (h2 : SnMono l2 l3) : SnMono l1 l3 := by
  intro s hs
  obtain ⟨s', hs', e'⟩ := h1 s hs
  obtain ⟨s'', hs'', e''⟩ := h2 s' hs'
  exact ⟨s'', hs'', by rw [e'', e']⟩

theorem SnMono.updSnap (l : List Snap) (s : Nat) {f : Snap → Snap} (hf : ∀ x, (f x).sn = x.sn) :
    SnMono l (updSnap s f l) := by
  intro x hx
  refine ⟨_, mem_updSnap_of_mem hx, ?_⟩
  split
  · exact hf x
  · rfl

theorem snmono_closeRef (σ : State) (t s : Nat) (rc : Int) (after : Option Nat) :
    SnMono σ.snaps (closeRef σ t s rc after).1.snaps := by
  obtain ⟨f, hf, hsn, _⟩ := closeRef_shape σ t s rc after
  rw [hsn]
  exact SnMono.updSnap _ _ (fun x => (hf x).1)

theorem snmono_startClose (σ : State) (t s : Nat) : SnMono σ.snaps (startClose σ t s).1.snaps := by
  unfold startClose
  split
  · split
    · exact (SnMono.updSnap σ.snaps s (f := fun y => { y with held := false }) (fun _ => rfl)).trans
        (snmono_closeRef { σ with snaps := _ } t s _ none)
    · exact SnMono.refl _
  · exact SnMono.refl _

theorem snmono_itClose (σ : State) (t i : Nat) : SnMono σ.snaps (itClose σ t i).1.snaps := by
  unfold itClose
  split
  · split
    · exact snmono_closeRef σ t _ _ _
    · exact SnMono.refl _
  · exact SnMono.refl _

theorem snmono_itNew (σ : State) (t i s : Nat) : SnMono σ.snaps (itNew σ t i s).1.snaps := by
  unfold itNew
  split
  · split
    · exact SnMono.refl _
    · exact SnMono.updSnap σ.snaps s (f := fun y => { y with rc := y.rc + 1 }) (fun _ => rfl)
  · exact SnMono.refl _

theorem snaps_landOn (σ : State) (t i : Nat) (it : Iter) (land : Option Node) :
    (landOn σ t i it land).1.snaps = σ.snaps := by
  unfold landOn
  cases land with
  | none => rfl
  | some y => simp only; split <;> rfl

theorem snaps_itFirst (σ : State) (t i : Nat) : (itFirst σ t i).1.snaps = σ.snaps := by
  unfold itFirst
  split
  · exact snaps_landOn _ _ _ _ _
  · rfl

theorem snaps_stepIter (σ : State) (t i : Nat) : (stepIter σ t i).1.snaps = σ.snaps := by
  unfold stepIter
  split
  · split
    · split
      · rfl
      · split
        · exact snaps_landOn _ _ _ _ _
        · split
          · rfl
          · exact snaps_landOn _ _ _ _ _
    · rfl
  · rfl

theorem snmono_stepCollect (σ : State) (t sn : Nat) (after : Option Nat) :
    SnMono σ.snaps (stepCollect σ t sn after).1.snaps := by
  unfold stepCollect
  split
  · rename_i x _
    have := (tail_collectLoop
      { σ with lastGCSn := sn, gcJobs := σ.gcJobs ++ [⟨[], x.gclist, .recv⟩]
               snaps := updSnap sn (fun y => { y with st := .collected }) σ.snaps } t after).1
    rw [this]
    exact SnMono.updSnap σ.snaps sn (f := fun y => { y with st := .collected }) (fun _ => rfl)
  · exact SnMono.refl _

/-- every iterator's snapshot is in the table -/
def IterSnap (iters : List ((Nat × Nat) × Iter)) (snaps : List Snap) : Prop :=
  ∀ p ∈ iters, ∃ s ∈ snaps, s.sn = p.2.sn

theorem IterSnap.step {σ σ' : State} {t : Nat} (h : IterSnap σ.iters σ.snaps) (hI : ItersShape σ σ' t)
    (hm : SnMono σ.snaps σ'.snaps) : IterSnap σ'.iters σ'.snaps := by
  have lift : ∀ sn, (∃ s ∈ σ.snaps, s.sn = sn) → ∃ s ∈ σ'.snaps, s.sn = sn := by
    rintro sn ⟨s, hs, rfl⟩
    exact hm s hs
  rcases hI with h1 | ⟨i, it, it', hmem, hsn, _, h1⟩ | ⟨i, s, tok, _, hex, h1⟩ | ⟨i, h1⟩
  · rw [h1]; exact fun p hp => lift _ (h p hp)
  · rw [h1]
    intro p hp
    rcases mem_setIter.mp hp with ⟨hp', _⟩ | rfl
    · exact lift _ (h p hp')
    · simp only [hsn]
      exact lift _ (h _ hmem)
  · rw [h1]
    intro p hp
    rcases mem_setIter.mp hp with ⟨hp', _⟩ | rfl
    · exact lift _ (h p hp')
    · exact lift _ hex
  · rw [h1]
    intro p hp
    exact lift _ (h p (mem_eraseIter.mp hp).1)

/-! ### the invariant -/

structure VInv (σ : State) : Prop where
  front : FrontInv σ
  ref : RefInv σ
  isnap : IterSnap σ.iters σ.snaps

theorem vinv_init (nw nr : Nat) (fx : Bool) : VInv (init nw nr fx) := by
  refine ⟨⟨⟨by simp [init], by simp [init], by simp [init], by simp [init, garbJ]⟩, ?_⟩, ?_, ?_⟩
  · intro t sn a hg
    have := replicate_get hg; cases this
  · intro s hs; simp [init] at hs
  · intro p hp; simp [init] at hp

theorem vinv_step {σ : State} (hi : Inv σ) (hk : IterInv σ) (hd : σ.down = false) (hv : VInv σ) (a : Act) :
    VInv (step σ a).1 := by
  rcases step_cases hi hd a with ⟨hq, _⟩ | ⟨_, _, he⟩ | ⟨t, s, _, ht, he⟩ | ⟨t, i, s, _, ht, he⟩ |
      ⟨t, i, _, ht, he⟩ | ⟨t, i, _, ht, he⟩ | ⟨t, sn, after, _, ht, he⟩ | ⟨t, i, _, ht, he⟩
  · refine ⟨front_qstep hi hv.front hq, ref_qstep hv.ref hq, ?_⟩
    rw [hq.1.2.2.1, hq.1.2.2.2]; exact hv.isnap
  · rw [he]
    refine ⟨front_snap hi hv.front, ref_snap hk hv.ref, ?_⟩
    intro p hp
    obtain ⟨s, hs, e⟩ := hv.isnap p hp
    exact ⟨s, List.mem_append_left _ hs, e⟩
  · rw [he]
    exact ⟨front_startClose hi hv.front, ref_startClose hi hv.ref ht,
      hv.isnap.step (ish_startClose σ t s) (snmono_startClose σ t s)⟩
  · rw [he]
    exact ⟨front_itNew hv.front, ref_itNew hv.ref, hv.isnap.step (ish_itNew σ t i s) (snmono_itNew σ t i s)⟩
  · rw [he]
    exact ⟨front_itFirst hv.front, ref_itFirst hv.ref ht,
      hv.isnap.step (ish_itFirst σ t i) (by rw [snaps_itFirst]; exact SnMono.refl _)⟩
  · rw [he]
    exact ⟨front_itClose hi hv.front, ref_itClose hv.ref ht,
      hv.isnap.step (ish_itClose σ t i) (snmono_itClose σ t i)⟩
  · rw [he]
    exact ⟨front_stepCollect hi hv.front ht, ref_stepCollect hv.ref ht,
      hv.isnap.step (ish_stepCollect σ t sn after) (snmono_stepCollect σ t sn after)⟩
  · rw [he]
    exact ⟨front_stepIter hv.front, ref_stepIter hv.ref ht,
      hv.isnap.step (ish_stepIter σ t i) (by rw [snaps_stepIter]; exact SnMono.refl _)⟩

theorem vinv_reachable {fx : Bool} {nw nr : Nat} {σ : State} (hr : ReachableFx fx nw nr σ) : VInv σ := by
  induction hr with
  | init => exact vinv_init nw nr fx
  | step a hr' ih =>
    rename_i σ0
    by_cases hd : σ0.down = true
    · rw [step_down hd]; exact ih
    · have hd0 : σ0.down = false := by simpa using hd
      exact vinv_step (inv_reachable hr' hd0) (iterInv_reachable hr') hd0 ih a

/-! ### open snapshots -/

/-- an open snapshot is in the live list, beyond the collection frontier and older than the epoch -/
theorem open_facts {σ : State} (hi : Inv σ) (hv : VInv σ) {sn : Nat} (ho : openSn σ sn) :
    σ.lastGCSn < sn ∧ sn < σ.currSn := by
  obtain ⟨s, hs, rfl, hrc⟩ := ho
  refine ⟨?_, hi.store.snaps_lt s hs⟩
  by_cases hle : s.sn ≤ σ.lastGCSn
  · have hc := hv.front.s.coll s hs hle
    have := hi.store.rc_dead s hs (by rw [hc]; simp)
    omega
  · omega

/-- an iterator that has not begun its `Close` keeps its snapshot open -/
theorem open_of_iter {σ : State} (hv : VInv σ) {t i : Nat} {it : Iter} (hm : ((t, i), it) ∈ σ.iters)
    (hc : closingB σ.threads (t, i) = false) : openSn σ it.sn := by
  obtain ⟨s, hs, hsn⟩ := hv.isnap _ hm
  refine ⟨s, hs, hsn, ?_⟩
  have h1 := hv.ref s hs
  have : 0 < cntRef σ.threads σ.iters s.sn := by
    unfold cntRef
    apply List.countP_pos_iff.mpr
    refine ⟨((t, i), it), hm, ?_⟩
    unfold refP
    simp [hc, hsn]
  have h0 : (0 : Int) ≤ ((if s.held then 1 else 0 : Nat) : Int) := Int.natCast_nonneg _
  omega

/-- a snapshot whose creation reference has not been closed is open -/
theorem open_of_held {σ : State} (hv : VInv σ) {s : Snap} (hs : s ∈ σ.snaps) (hh : s.held = true) :
    openSn σ s.sn := by
  refine ⟨s, hs, rfl, ?_⟩
  have h1 := hv.ref s hs
  simp only [hh, if_true] at h1
  have h0 : (0 : Int) ≤ ((cntRef σ.threads σ.iters s.sn : Nat) : Int) := Int.natCast_nonneg _
  omega

/-! ### the view is fixed -/

theorem viewOf_congr {σ σ' : State} (h : σ'.store = σ.store) (sn : Nat) : viewOf σ' sn = viewOf σ sn := by
  unfold viewOf; rw [h]

theorem view_qstep {σ σ' : State} (hi : Inv σ) (hv : VInv σ) (hq : QStep σ σ') {sn : Nat} (ho : openSn σ sn) :
    viewOf σ' sn = viewOf σ sn := by
  have ⟨hlg, hcur⟩ := open_facts hi hv ho
  have hsorted := hi.store.sorted
  rcases hq.2.2.2 with h | ⟨n, k, v, h⟩ | ⟨n, x, hf, h, hwhy⟩ | ⟨n, x, hf, hd0, h⟩
  · exact viewOf_congr h sn
  · unfold viewOf
    rw [h, vers_insertN]
    exact Mvcc.view_insertAt hsorted _ sn hcur
  · unfold viewOf
    rw [h, vers_removeNode hsorted hi.store.ids hf]
    unfold Mvcc.removeId
    apply Mvcc.view_filter
    intro w hw hq'
    have hsame : Mvcc.sameId w x.ver = true := by simpa using hq'
    have ⟨hxm, hxid⟩ := findNode_some hf
    have hxv : x.ver ∈ vers σ.store := List.mem_map.mpr ⟨x, hxm, rfl⟩
    have hwx : w = x.ver := by
      have := (Mvcc.sameId_iff w x.ver).mp hsame
      exact Mvcc.sorted_id_unique hsorted hw hxv this.1 this.2
    rw [hwx]
    cases hvis : visible sn x.ver
    · rfl
    · exfalso
      have hvv := (Mvcc.visible_iff sn x.ver).mp hvis
      rcases hwhy with hb | hg
      · omega
      · have hle := hv.front.s.jgc n hg x hxm hxid
        obtain ⟨y, hy, hyid, hyd, _⟩ := hi.garb.linked n (garbC_pos_of_job hg)
        have : y = x := id_unique hi.store.ids hy hxm (by omega)
        subst this
        omega
  · unfold viewOf
    have ⟨hxm, _⟩ := findNode_some hf
    rw [h, vers_markDeadNode hsorted hi.store.ids hf]
    exact Mvcc.view_markDead hsorted (List.mem_map.mpr ⟨x, hxm, rfl⟩) hd0 sn σ.currSn hcur

/-- every action leaves the store alone or is a quiet one -/
theorem view_step_inv {σ : State} (hi : Inv σ) (hd : σ.down = false) (hv : VInv σ) (a : Act) {sn : Nat}
    (ho : openSn σ sn) : viewOf (step σ a).1 sn = viewOf σ sn := by
  rcases step_cases hi hd a with ⟨hq, _⟩ | ⟨_, _, he⟩ | ⟨t, s, _, ht, he⟩ | ⟨t, i, s, _, ht, he⟩ |
      ⟨t, i, _, ht, he⟩ | ⟨t, i, _, ht, he⟩ | ⟨t, sn', after, _, ht, he⟩ | ⟨t, i, _, ht, he⟩
  · exact view_qstep hi hv hq ho
  · rw [he]; exact viewOf_congr rfl sn
  · rw [he]; exact viewOf_congr (mild_startClose σ t s).1 sn
  · rw [he]; exact viewOf_congr (mild_itNew σ t i s).1 sn
  · rw [he]; exact viewOf_congr (mild_itFirst σ t i).1 sn
  · rw [he]; exact viewOf_congr (mild_itClose σ t i).1 sn
  · rw [he]; exact viewOf_congr (mild_stepCollect σ t sn' after).1 sn
  · rw [he]; exact viewOf_congr (mild_stepIter σ t i).1 sn

theorem view_step {fx : Bool} {nw nr : Nat} {σ : State} (hr : ReachableFx fx nw nr σ) (a : Act) {sn : Nat}
    (ho : openSn σ sn) : viewOf (step σ a).1 sn = viewOf σ sn := by
  by_cases hd : σ.down = true
  · rw [step_down hd]
  · have hd0 : σ.down = false := by simpa using hd
    exact view_step_inv (inv_reachable hr hd0) hd0 (vinv_reachable hr) a ho

end NitroVerif.MvccConc
