import NitroVerif.Lemmas.RefCountStep
/-!
  Preservation of `Inv` by the collector-side steps: retire, try-lock, send, unlock.
-/
namespace NitroVerif.RefCount

/-- a step that moves thread `i` and writes the collector flag -/
theorem inv_setT_flag {cfg : Cfg} {st : St} {i : Nat} {pc pc' : PC} {b : Bool} (h : Inv cfg st)
    (hi : st.ths[i]? = some pc) (hok : PCok st pc')
    (hdec : ∀ s, uDec s pc' = uDec s pc) (hret : ∀ s, uRet s pc' = uRet s pc)
    (hret2 : ∀ s, uRet2 s pc' = uRet2 s pc)
    (hexcl : cnt uCrit (st.ths.set i pc') = if b then 1 else 0)
    (hresp : cfg.fixedGC = true → uResp pc' = 1) :
    Inv cfg (setT { st with flag := b } i pc') := by
  have hc2 : ∀ s, cnt (uRet2 s) (st.ths.set i pc') = cnt (uRet2 s) st.ths := by
    intro s
    have e := cnt_set (uRet2 s) st.ths i pc pc' hi
    rw [hret2] at e; omega
  constructor
  · intro s h1 h2
    have := h.count s h1 h2
    have e := cnt_set (uDec s) st.ths i pc pc' hi
    rw [hdec] at e
    show (getS st s).refs = ((getS st s).held : Int) + (cnt (uDec s) (st.ths.set i pc') : Int)
    omega
  · intro s h1 h2
    have := h.retire s h1 h2
    have e := cnt_set (uRet s) st.ths i pc pc' hi
    rw [hret] at e
    show (getS st s).retired + cnt (uRet s) (st.ths.set i pc') + cnt (uRet2 s) (st.ths.set i pc') =
      if (getS st s).refs = 0 then 1 else 0
    rw [hc2]
    omega
  · intro j pcj hj
    rcases set_getElem?_cases hj with ⟨_, rfl⟩ | ⟨_, hj'⟩
    · exact PCok_mono rfl (fun _ _ a b => ⟨a, b⟩) hok
    · exact PCok_mono rfl (fun _ _ a b => ⟨a, b⟩) (h.pcs j pcj hj')
  · exact h.place
  · intro s
    show s ∈ st.live ↔ (1 ≤ s ∧ s ≤ st.snaps.length ∧ (getS st s).retired = 0 ∧
      cnt (uRet2 s) (st.ths.set i pc') = 0)
    rw [hc2]; exact h.live_iff s
  · exact h.dead_valid
  · exact h.gc_le
  · exact h.dead_sorted
  · exact h.live_sorted
  · exact h.sent
  · exact hexcl
  · intro hg _
    have e := cnt_set uResp st.ths i pc pc' hi
    have h3 := hresp hg
    have h4 := cnt_ge uResp st.ths i pc hi
    show 1 ≤ cnt uResp (st.ths.set i pc')
    omega

/-- `GC_TRY_LOCK` wins the flag -/
theorem inv_tryLockOk {cfg : Cfg} {st : St} {i : Nat} (h : Inv cfg st)
    (hi : st.ths[i]? = some .gcTryLock) (hf : st.flag = false) :
    Inv cfg (setT { st with flag := true } i .collectRead) := by
  refine inv_setT_flag h hi trivial (fun _ => rfl) (fun _ => rfl) (fun _ => rfl) ?_ (fun _ => rfl)
  have e := cnt_set uCrit st.ths i _ .collectRead hi
  have := h.excl
  simp [hf, uCrit] at e this ⊢
  omega

/-- `GC_UNLOCK` drops the flag -/
theorem inv_unlock {cfg : Cfg} {st : St} {i : Nat} (h : Inv cfg st)
    (hi : st.ths[i]? = some .gcUnlock) :
    Inv cfg (setT { st with flag := false } i (if cfg.fixedGC then .gcRecheck else .idle)) := by
  have hge := cnt_ge uCrit st.ths i _ hi
  have hx := h.excl
  have hf : st.flag = true := by
    cases hfl : st.flag with
    | true => rfl
    | false => simp [hfl, uCrit] at hx hge; omega
  refine inv_setT_flag h hi ?_ ?_ ?_ ?_ ?_ ?_
  · cases cfg.fixedGC <;> exact trivial
  · intro s; cases cfg.fixedGC <;> rfl
  · intro s; cases cfg.fixedGC <;> rfl
  · intro s; cases cfg.fixedGC <;> rfl
  · have e := cnt_set uCrit st.ths i _ (if cfg.fixedGC then PC.gcRecheck else PC.idle) hi
    have : uCrit (if cfg.fixedGC then PC.gcRecheck else PC.idle) = 0 := by
      cases cfg.fixedGC <;> rfl
    have e1 : uCrit PC.gcUnlock = 1 := rfl
    rw [this, e1] at e
    rw [hf] at hx
    simp at hx ⊢
    omega
  · intro hg; simp [hg, uResp]

/-- `CLOSE_RETIRE`: `snapshots.Delete` — the snapshot leaves the live list -/
theorem inv_closeRetire1 {cfg : Cfg} {st : St} {i s : Nat} (h : Inv cfg st)
    (hi : st.ths[i]? = some (.closeRetire s)) :
    Inv cfg (setT { st with live := st.live.erase s } i (.closeRetire2 s)) := by
  obtain ⟨h1, h2⟩ := h.pcs i _ hi
  have hu : ∀ s', uRet s' (.closeRetire s) = uRet2 s' (.closeRetire2 s) := fun _ => rfl
  have hu2 : ∀ s', uRet2 s' (.closeRetire s) = 0 := fun _ => rfl
  have hu1 : ∀ s', uRet s' (.closeRetire2 s) = 0 := fun _ => rfl
  constructor
  · intro s' h1' h2'
    have := h.count s' h1' h2'
    have e := cnt_set (uDec s') st.ths i _ (.closeRetire2 s) hi
    simp only [uDec] at e
    show (getS st s').refs = ((getS st s').held : Int) + (cnt (uDec s') (st.ths.set i (.closeRetire2 s)) : Int)
    omega
  · intro s' h1' h2'
    have := h.retire s' h1' h2'
    have e1 := cnt_set (uRet s') st.ths i _ (.closeRetire2 s) hi
    have e2 := cnt_set (uRet2 s') st.ths i _ (.closeRetire2 s) hi
    rw [hu1] at e1; rw [hu2, ← hu] at e2
    show (getS st s').retired + cnt (uRet s') (st.ths.set i (.closeRetire2 s)) +
      cnt (uRet2 s') (st.ths.set i (.closeRetire2 s)) = if (getS st s').refs = 0 then 1 else 0
    omega
  · intro j pcj hj
    rcases set_getElem?_cases hj with ⟨_, rfl⟩ | ⟨_, hj'⟩
    · exact ⟨h1, h2⟩
    · exact PCok_mono rfl (fun _ _ a b => ⟨a, b⟩) (h.pcs j pcj hj')
  · exact h.place
  · intro s'
    show s' ∈ st.live.erase s ↔ (1 ≤ s' ∧ s' ≤ st.snaps.length ∧ (getS st s').retired = 0 ∧
      cnt (uRet2 s') (st.ths.set i (.closeRetire2 s)) = 0)
    rw [mem_erase_sorted h.live_sorted]
    have hlv := h.live_iff s'
    have e2 := cnt_set (uRet2 s') st.ths i _ (.closeRetire2 s) hi
    rw [hu2] at e2
    by_cases e' : s' = s
    · subst e'
      simp only [uRet2, if_true] at e2
      constructor
      · intro hx; exact absurd rfl hx.1
      · intro hx; omega
    · have : uRet2 s' (.closeRetire2 s) = 0 := by simp [uRet2]; omega
      rw [this] at e2
      have e3 : cnt (uRet2 s') (st.ths.set i (.closeRetire2 s)) = cnt (uRet2 s') st.ths := by omega
      rw [e3]
      simp only [ne_eq, e', not_false_eq_true, true_and]; exact hlv
  · exact h.dead_valid
  · exact h.gc_le
  · exact h.dead_sorted
  · exact pairwise_erase h.live_sorted s
  · exact h.sent
  · have := h.excl
    have e := cnt_set uCrit st.ths i _ (.closeRetire2 s) hi
    simp only [uCrit] at e
    show cnt uCrit (st.ths.set i (.closeRetire2 s)) = if st.flag then 1 else 0
    omega
  · intro hg hm
    have := h.resp hg hm
    have e := cnt_set uResp st.ths i _ (.closeRetire2 s) hi
    simp only [uResp] at e
    show 1 ≤ cnt uResp (st.ths.set i (.closeRetire2 s))
    omega

/-- `CLOSE_RETIRE2`: `gcsnapshots.Insert` — the snapshot enters the dead list -/
theorem inv_closeRetire2 {cfg : Cfg} {st : St} {i s : Nat} (h : Inv cfg st)
    (hi : st.ths[i]? = some (.closeRetire2 s)) :
    Inv cfg (setT { setS st s { getS st s with retired := (getS st s).retired + 1 } with
                      dead := dinsert s st.dead } i .closeGC) := by
  obtain ⟨h1, h2⟩ := h.pcs i _ hi
  have hr := h.retire s h1 h2
  have hpos : 1 ≤ cnt (uRet2 s) st.ths := by
    have := cnt_ge (uRet2 s) st.ths i _ hi; simpa [uRet2] using this
  have hz : (getS st s).refs = 0 := by
    by_cases e : (getS st s).refs = 0
    · exact e
    · simp only [e, if_false] at hr; omega
  simp only [hz, if_true] at hr
  have hr0 : (getS st s).retired = 0 := by omega
  have hc1 : cnt (uRet2 s) st.ths = 1 := by omega
  have hpl := h.place s h1 h2
  rw [hr0] at hpl
  have hnot : ¬ (s ∈ st.dead ∨ s ≤ st.lastGCSn) := by
    intro hx; have := hpl.mpr hx; omega
  have hnd : s ∉ st.dead := fun a => hnot (Or.inl a)
  have hgt : st.lastGCSn < s := by
    have : ¬ s ≤ st.lastGCSn := fun a => hnot (Or.inr a)
    omega
  generalize hst' : (setT { setS st s { getS st s with retired := (getS st s).retired + 1 } with
                      dead := dinsert s st.dead } i .closeGC) = st'
  have hlen : st'.snaps.length = st.snaps.length := by subst hst'; simp [setT, setS]
  have hget : ∀ s', getS st' s' =
      if s = s' then { getS st s with retired := (getS st s).retired + 1 } else getS st s' := by
    intro s'; subst hst'
    show snapAt (setAt st.snaps s _) s' = _
    exact snapAt_setAt _ _ _ _ h1 h2
  have hths : st'.ths = st.ths.set i .closeGC := by subst hst'; rfl
  have hdead : st'.dead = dinsert s st.dead := by subst hst'; rfl
  have hlive : st'.live = st.live := by subst hst'; rfl
  have hL : st'.lastGCSn = st.lastGCSn := by subst hst'; rfl
  have hsent : st'.sent = st.sent := by subst hst'; rfl
  have hflag : st'.flag = st.flag := by subst hst'; rfl
  constructor
  · intro s' h1' h2'
    rw [hget, hths]
    have := h.count s' h1' (by omega)
    have e := cnt_set (uDec s') st.ths i _ .closeGC hi
    simp only [uDec] at e
    by_cases e' : s = s'
    · subst e'; simp only [if_true]; omega
    · simp only [e', if_false]; omega
  · intro s' h1' h2'
    rw [hget, hths]
    have := h.retire s' h1' (by omega)
    have e := cnt_set (uRet s') st.ths i _ .closeGC hi
    have e2 := cnt_set (uRet2 s') st.ths i _ .closeGC hi
    simp only [uRet] at e
    simp only [uRet2] at e2
    by_cases e' : s = s'
    · subst e'; simp only [if_true, hz]; simp at e2; omega
    · simp only [e', if_false] at e2 ⊢; omega
  · intro j pcj hj
    rw [hths] at hj
    rcases set_getElem?_cases hj with ⟨_, rfl⟩ | ⟨_, hj'⟩
    · exact trivial
    · refine PCok_mono hlen ?_ (h.pcs j pcj hj')
      intro s'' _ a b
      rw [hL, hdead, mem_dinsert]
      exact ⟨a, Or.inr b⟩
  · intro s' h1' h2'
    rw [hget, hdead, hL, mem_dinsert]
    have := h.place s' h1' (by omega)
    by_cases e' : s = s'
    · subst e'; simp [hr0]
    · have e'' : ¬ s' = s := fun a => e' a.symm
      simp only [e', e'', if_false, false_or]; exact this
  · intro s'
    rw [hget, hlive, hlen, hths]
    have := h.live_iff s'
    have e2 := cnt_set (uRet2 s') st.ths i _ .closeGC hi
    simp only [uRet2] at e2
    by_cases e' : s = s'
    · subst e'
      simp only [if_true]
      rw [this]
      constructor
      · intro hx; omega
      · intro hx; have := hx.2.2.1; simp at this
    · simp only [e', if_false] at e2 ⊢
      have e3 : cnt (uRet2 s') (st.ths.set i .closeGC) = cnt (uRet2 s') st.ths := by omega
      rw [e3]; exact this
  · intro s' hs'
    rw [hdead, mem_dinsert] at hs'
    rw [hlen, hL]
    rcases hs' with rfl | hs'
    · exact ⟨h1, h2, hgt⟩
    · exact h.dead_valid s' hs'
  · rw [hlen, hL]; exact h.gc_le
  · rw [hdead]; exact pairwise_dinsert s _ h.dead_sorted
  · rw [hlive]; exact h.live_sorted
  · rw [hsent, hL]; exact h.sent
  · rw [hths, hflag]
    have := h.excl
    have e := cnt_set uCrit st.ths i _ .closeGC hi
    simp only [uCrit] at e
    omega
  · intro _ _
    rw [hths]
    have e := cnt_set uResp st.ths i _ .closeGC hi
    simp only [uResp] at e
    omega

/-- `COLLECT_SEND`: the head of the dead list is handed to the workers -/
theorem inv_collectSend {cfg : Cfg} {st : St} {i s : Nat} (h : Inv cfg st)
    (hi : st.ths[i]? = some (.collectSend s)) :
    Inv cfg (setT { st with lastGCSn := s, sent := st.sent ++ [s], dead := st.dead.erase s } i
      .collectRead) := by
  obtain ⟨hs, hmem⟩ := h.pcs i _ hi
  obtain ⟨h1, h2, _⟩ := h.dead_valid s hmem
  constructor
  · intro s' h1' h2'
    have := h.count s' h1' h2'
    have e := cnt_set (uDec s') st.ths i _ .collectRead hi
    simp only [uDec] at e
    show (getS st s').refs = ((getS st s').held : Int) + (cnt (uDec s') (st.ths.set i .collectRead) : Int)
    omega
  · intro s' h1' h2'
    have := h.retire s' h1' h2'
    have e := cnt_set (uRet s') st.ths i _ .collectRead hi
    simp only [uRet] at e
    have e2 := cnt_set (uRet2 s') st.ths i _ .collectRead hi
    simp only [uRet2] at e2
    show (getS st s').retired + cnt (uRet s') (st.ths.set i .collectRead) +
      cnt (uRet2 s') (st.ths.set i .collectRead) = if (getS st s').refs = 0 then 1 else 0
    omega
  · intro j pcj hj
    rcases set_getElem?_cases hj with ⟨_, rfl⟩ | ⟨hne, hj'⟩
    · exact trivial
    · have hok := h.pcs j pcj hj'
      cases pcj with
      | collectSend s'' =>
        -- two threads inside the critical section: excluded
        have := cnt_two uCrit st.ths i j _ _ (fun a => hne a.symm) hi hj'
        have hx := h.excl
        simp only [uCrit] at this
        split at hx <;> omega
      | _ => exact hok
  · intro s' h1' h2'
    have := h.place s' h1' h2'
    show (getS st s').retired = 1 ↔ (s' ∈ st.dead.erase s ∨ s' ≤ s)
    rw [mem_erase_sorted h.dead_sorted]
    by_cases e : s' = s
    · subst e; simp only [hmem, true_or, iff_true] at this; simp [this]
    · have e2 : (s' ≤ s) ↔ (s' ≤ st.lastGCSn) := by
        constructor <;> intro <;> omega
      rw [e2, this]; simp [e]
  · intro s'
    have e2 := cnt_set (uRet2 s') st.ths i _ .collectRead hi
    simp only [uRet2] at e2
    have e3 : cnt (uRet2 s') (st.ths.set i .collectRead) = cnt (uRet2 s') st.ths := by omega
    show s' ∈ st.live ↔ (1 ≤ s' ∧ s' ≤ st.snaps.length ∧ (getS st s').retired = 0 ∧
      cnt (uRet2 s') (st.ths.set i .collectRead) = 0)
    rw [e3]; exact h.live_iff s'
  · intro s' hs'
    show 1 ≤ s' ∧ s' ≤ st.snaps.length ∧ s < s'
    have hs'' : s' ∈ st.dead.erase s := hs'
    rw [mem_erase_sorted h.dead_sorted] at hs''
    obtain ⟨a, b, c⟩ := h.dead_valid s' hs''.2
    exact ⟨a, b, by have := hs''.1; omega⟩
  · exact h2
  · exact pairwise_erase h.dead_sorted s
  · exact h.live_sorted
  · show st.sent ++ [s] = List.range' 1 s
    rw [h.sent, hs, List.range'_concat]; simp; omega
  · have := h.excl
    have e := cnt_set uCrit st.ths i _ .collectRead hi
    simp only [uCrit] at e
    show cnt uCrit (st.ths.set i .collectRead) = if st.flag then 1 else 0
    omega
  · intro _ _
    have e := cnt_set uResp st.ths i _ .collectRead hi
    have h4 := cnt_ge uResp st.ths i _ hi
    simp only [uResp] at e h4
    show 1 ≤ cnt uResp (st.ths.set i .collectRead)
    omega

end NitroVerif.RefCount
