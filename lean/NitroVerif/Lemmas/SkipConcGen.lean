import NitroVerif.Model.SkipConc
/-!
  Characterisation of the generated guards the M5 model calls, and the call skeletons of the Go functions it
  transcribes.  A change of the Go condition / call sequence regenerates `Gen/Guards.lean` and breaks the
  lemma named here.
-/
namespace NitroVerif.SkipConc
open NitroVerif

theorem maxLevel_eq : Gen.maxLevel = 32 := rfl

/-- findPath advances along the level iff the comparison is negative -/
theorem findAdvance_iff (c : Int) : Gen.findAdvance c = true ↔ c < 0 := by
  simp [Gen.findAdvance]

/-- findPath reports `found` iff the last comparison is zero -/
theorem findFound_iff (c : Int) : Gen.findFound c = true ↔ c = 0 := by
  simp [Gen.findFound]

/-- helpDelete accounts the unlink iff it succeeded at level 0 -/
theorem helpAccounts_iff (ok : Bool) (l : Nat) : Gen.helpAccounts ok l = true ↔ ok = true ∧ l = 0 := by
  simp [Gen.helpAccounts]

/-- softDelete's caller wins iff its CAS swapped at level 0 -/
theorem softDeleteWins_iff (ok : Bool) (i : Nat) : Gen.softDeleteWins ok i = true ↔ ok = true ∧ i = 0 := by
  simp [Gen.softDeleteWins]

theorem newLevelClamp_eq (n : Nat) : Gen.newLevelClamp n = min n Gen.maxLevel := by
  unfold Gen.newLevelClamp
  by_cases h : n > Gen.maxLevel <;> simp [h] <;> omega

theorem newLevelClamp_le (n : Nat) : Gen.newLevelClamp n ≤ Gen.maxLevel := by
  rw [newLevelClamp_eq]; omega

theorem newLevelBump_iff (n l : Nat) : Gen.newLevelBump n l = true ↔ l < n := by
  simp [Gen.newLevelBump]

/-- `compare` of item.go against a user item: sign characterisation -/
def Key.lt : Key → Key → Prop
  | .neg, .neg => False
  | .neg, _ => True
  | .fin a, .fin b => a < b
  | .fin _, .pos => True
  | _, _ => False

theorem compare_neg_iff (a : Key) (k : Nat) : compare a (.fin k) < 0 ↔ Key.lt a (.fin k) := by
  cases a <;> simp [compare, Key.lt] <;> omega

theorem compare_zero_iff (a : Key) (k : Nat) : compare a (.fin k) = 0 ↔ a = .fin k := by
  cases a <;> simp [compare] <;> omega

theorem compare_pos_iff (a : Key) (k : Nat) : 0 < compare a (.fin k) ↔ Key.lt (.fin k) a := by
  cases a <;> simp [compare, Key.lt] <;> omega

/- call skeletons (in source order) of the functions the model transcribes -/
theorem skeleton_findPath_ok : Gen.skeleton_findPath =
    ["atomic.LoadInt32(s.level)", "prev.getNext", "curr.getNext", "s.helpDelete", "prev.getNext", "curr.getNext"] := rfl

theorem skeleton_Insert4_ok : Gen.skeleton_Insert4 =
    ["s.findPath", "s.freeNode", "buf.preds[0].dcasNext", "x.getNext", "x.dcasNext", "next.getNext", "s.findPath",
     "buf.preds[i].dcasNext", "x.getNext", "s.findPath", "s.findPath"] := rfl

theorem skeleton_softDelete_ok : Gen.skeleton_softDelete =
    ["delNode.getNext", "delNode.dcasNext", "delNode.getNext"] := rfl

theorem skeleton_deleteNode_ok : Gen.skeleton_deleteNode = ["s.softDelete", "s.findPath"] := rfl

theorem skeleton_helpDelete_ok : Gen.skeleton_helpDelete = ["prev.dcasNext"] := rfl

/-- `it.Refresh` is the LAST call of Iterator.Next: the automatic refresh happens after the step (the model's
    `afterNext`); moving it to the top of Next changes this list -/
theorem skeleton_SkiplistIteratorNext_ok : Gen.skeleton_SkiplistIteratorNext =
    ["it.curr.getNext", "atomic.AddUint64(it.s.Stats.readConflicts)", "it.Refresh"] := rfl

end NitroVerif.SkipConc
