import NitroVerif.Model.LoadPool
/-!
  The loader's worker pool cannot deadlock in the fixed code, and every schedule is finite.
-/
namespace NitroVerif.LoadPool

theorem sum_set (l : List WState) (w : Nat) (x y : WState) (h : l[w]? = some y) :
    ((l.set w x).map weight).sum + weight y = (l.map weight).sum + weight x := by
  induction l generalizing w with
  | nil => simp at h
  | cons a r ih =>
    cases w with
    | zero =>
      simp only [List.getElem?_cons_zero, Option.some.injEq] at h
      subst h
      simp only [List.set_cons_zero, List.map_cons, List.sum_cons]
      omega
    | succ w =>
      simp only [List.getElem?_cons_succ] at h
      have := ih w h
      simp only [List.set_cons_succ, List.map_cons, List.sum_cons]
      omega

/-- every step makes the measure smaller (in both variants of the code) -/
theorem step_measure {e : Bool} {fails : Nat → Bool} {n : Nat} {st st' : State} {a : Action}
    (h : step e fails n st a = some st') : measure n st' < measure n st := by
  cases a with
  | handoff w =>
    simp only [step] at h
    split at h
    · rename_i hc
      cases h
      have := sum_set st.workers w (.busy st.next) .idle hc.2
      simp only [measure, weight] at this ⊢
      omega
    · cases h
  | finish w =>
    simp only [step] at h
    split at h
    · rename_i s hw
      cases h
      have := sum_set st.workers w (if e && fails s then .done else .idle) (.busy s) hw
      simp only [measure] at this ⊢
      generalize (e && fails s) = b at this ⊢
      cases b <;> simp only [weight, Bool.false_eq_true, if_false, if_true] at this ⊢ <;> omega
    · cases h
  | close =>
    simp only [step] at h
    split at h
    · rename_i hc
      cases h
      simp only [measure, hc.2]
      simp
    · cases h
  | exit w =>
    simp only [step] at h
    split at h
    · rename_i hc
      cases h
      have := sum_set st.workers w .done .idle hc.2
      simp only [measure, weight] at this ⊢
      omega
    · cases h

/-- every executable schedule is at most as long as the measure of its start -/
theorem run_length {e : Bool} {fails : Nat → Bool} {n : Nat} (sched : List Action) (st st' : State)
    (h : run e fails n st sched = some st') : sched.length + measure n st' ≤ measure n st := by
  induction sched generalizing st with
  | nil => simp only [run, Option.some.injEq] at h; subst h; simp
  | cons a r ih =>
    simp only [run] at h
    cases hs : step e fails n st a with
    | none => rw [hs] at h; cases h
    | some s1 =>
      rw [hs] at h
      have := ih s1 h
      have := step_measure hs
      simp only [List.length_cons]
      omega

/-- invariant of the fixed code: the dispatcher never overruns, the channel is closed only after the
    last send, and no worker returns before the channel is closed -/
def Inv (n c : Nat) (st : State) : Prop :=
  st.next ≤ n ∧ (st.closed = true → st.next = n) ∧
  (st.closed = false → ∀ w ∈ st.workers, w ≠ .done) ∧ st.workers.length = c

theorem inv_init (n c : Nat) : Inv n c (init c) := by
  refine ⟨Nat.zero_le _, by simp [init], ?_, by simp [init]⟩
  intro _ w hw
  simp only [init, List.mem_replicate] at hw
  rw [hw.2]; simp

theorem mem_set_cases {l : List WState} {w : Nat} {x y : WState} (h : y ∈ l.set w x) : y = x ∨ y ∈ l := by
  rcases List.mem_or_eq_of_mem_set h with h | h
  · exact Or.inr h
  · exact Or.inl h

theorem inv_step {fails : Nat → Bool} {n c : Nat} {st st' : State} {a : Action}
    (hi : Inv n c st) (h : step false fails n st a = some st') : Inv n c st' := by
  obtain ⟨i1, i2, i3, i4⟩ := hi
  cases a with
  | handoff w =>
    simp only [step] at h
    split at h
    · rename_i hc
      cases h
      refine ⟨by simp only; omega, ?_, ?_, by simpa using i4⟩
      · intro hcl; have := i2 hcl; omega
      · intro hcl y hy
        rcases mem_set_cases hy with rfl | hy
        · simp
        · exact i3 hcl y hy
    · cases h
  | finish w =>
    simp only [step] at h
    split at h
    · cases h
      refine ⟨i1, i2, ?_, by simpa using i4⟩
      intro hcl y hy
      rcases mem_set_cases hy with rfl | hy
      · simp
      · exact i3 hcl y hy
    · cases h
  | close =>
    simp only [step] at h
    split at h
    · rename_i hc
      cases h
      exact ⟨i1, fun _ => hc.1, by simp, i4⟩
    · cases h
  | exit w =>
    simp only [step] at h
    split at h
    · rename_i hc
      cases h
      refine ⟨i1, i2, ?_, by simpa using i4⟩
      intro hcl
      simp only at hcl
      rw [hc.1] at hcl; cases hcl
    · cases h

theorem inv_run {fails : Nat → Bool} {n c : Nat} (sched : List Action) (st st' : State)
    (hi : Inv n c st) (h : run false fails n st sched = some st') : Inv n c st' := by
  induction sched generalizing st with
  | nil => simp only [run, Option.some.injEq] at h; subst h; exact hi
  | cons a r ih =>
    simp only [run] at h
    cases hs : step false fails n st a with
    | none => rw [hs] at h; cases h
    | some s1 => rw [hs] at h; exact ih s1 (inv_step hi hs) h

/-- progress: a state of the fixed code that is not final has an enabled action -/
theorem progress {fails : Nat → Bool} {n c : Nat} (hc : 0 < c) {st : State} (hi : Inv n c st) :
    final n st ∨ ∃ a st', step false fails n st a = some st' := by
  obtain ⟨i1, i2, i3, i4⟩ := hi
  cases hcl : st.closed with
  | false =>
    by_cases hn : st.next = n
    · exact Or.inr ⟨.close, { st with closed := true }, by simp [step, hn, hcl]⟩
    · have hlt : st.next < n := by omega
      by_cases hidle : WState.idle ∈ st.workers
      · obtain ⟨w, hw, hget⟩ := List.getElem_of_mem hidle
        exact Or.inr ⟨.handoff w,
          { st with next := st.next + 1, workers := st.workers.set w (.busy st.next) },
          by simp [step, hlt, List.getElem?_eq_getElem hw, hget]⟩
      · -- no worker is idle and none has returned: worker 0 is busy
        have h0 : 0 < st.workers.length := by omega
        have hmem := List.getElem_mem h0
        cases hw : st.workers[0] with
        | idle => rw [hw] at hmem; exact absurd hmem hidle
        | done => rw [hw] at hmem; exact absurd rfl (i3 hcl _ hmem)
        | busy s =>
          exact Or.inr ⟨.finish 0, { st with workers := st.workers.set 0 .idle },
            by simp [step, List.getElem?_eq_getElem h0, hw]⟩
  | true =>
    by_cases hall : ∀ w ∈ st.workers, w = .done
    · exact Or.inl ⟨i2 hcl, hcl, hall⟩
    · have : ∃ w ∈ st.workers, w ≠ .done := by
        apply Classical.byContradiction
        intro hno
        apply hall
        intro w hw
        apply Classical.byContradiction
        intro hd
        exact hno ⟨w, hw, hd⟩
      obtain ⟨x, hx, hxd⟩ := this
      obtain ⟨w, hw, hget⟩ := List.getElem_of_mem hx
      cases x with
      | done => exact absurd rfl hxd
      | idle =>
        exact Or.inr ⟨.exit w, { st with workers := st.workers.set w .done },
          by simp [step, hcl, List.getElem?_eq_getElem hw, hget]⟩
      | busy s =>
        exact Or.inr ⟨.finish w, { st with workers := st.workers.set w .idle },
          by simp [step, List.getElem?_eq_getElem hw, hget]⟩

/-- **pool_no_deadlock** (fixed code, `exitsOnError = false`): whatever the number of shards, the
    number `c ≥ 1` of workers and the set of failing shards, every schedule that can be executed from
    the initial state is at most `measure` steps long, and the state it reaches is final ("all shards
    taken, channel closed, all workers done") or has an enabled action.  So every maximal schedule is
    finite and ends in the final state: LoadFromDisk gets past `wg.Wait()`. -/
theorem pool_no_deadlock (n c : Nat) (fails : Nat → Bool) (hc : 0 < c) (sched : List Action) (st : State)
    (hrun : run false fails n (init c) sched = some st) :
    sched.length ≤ measure n (init c) ∧
    (final n st ∨ ∃ a st', step false fails n st a = some st') := by
  refine ⟨?_, progress hc (inv_run sched _ _ (inv_init n c) hrun)⟩
  have := run_length sched _ _ hrun
  omega

/-- a maximal schedule (nothing enabled at its end) ends in the final state -/
theorem pool_maximal_final (n c : Nat) (fails : Nat → Bool) (hc : 0 < c) (sched : List Action) (st : State)
    (hrun : run false fails n (init c) sched = some st)
    (hmax : ∀ a, step false fails n st a = none) : final n st := by
  rcases (pool_no_deadlock n c fails hc sched st hrun).2 with hf | ⟨a, st', hs⟩
  · exact hf
  · rw [hmax a] at hs; cases hs

/-- the bound, explicitly: `3n + 1 + c` steps -/
theorem measure_init (n c : Nat) : measure n (init c) = 3 * n + 1 + c := by
  simp only [measure, init, Nat.sub_zero]
  have : ((List.replicate c WState.idle).map weight).sum = c := by
    induction c with
    | zero => rfl
    | succ c ih => simp only [List.replicate_succ, List.map_cons, List.sum_cons, ih, weight]; omega
  rw [this]; simp

/-- **C11_unfixed_hang_witness** (WITNESS, a `decide`d concrete trace — the original code, where a
    worker returns on a read error): 3 failing shards, 2 workers.  After both workers have returned
    the dispatcher is blocked at `wchan <- 2` for ever: the state is not final and no action is
    enabled.  (Replayed on the real code before the fix: defect D6.) -/
theorem C11_unfixed_hang_witness :
    ∃ st, run true (fun _ => true) 3 (init 2)
        [.handoff 0, .finish 0, .handoff 1, .finish 1] = some st ∧
      ¬ final 3 st ∧ ∀ a, step true (fun _ => true) 3 st a = none := by
  refine ⟨{ next := 2, closed := false, workers := [.done, .done] }, by decide, by decide, ?_⟩
  intro a
  cases a with
  | handoff w => match w with
    | 0 => decide
    | 1 => decide
    | w + 2 => simp [step]
  | finish w => match w with
    | 0 => decide
    | 1 => decide
    | w + 2 => simp [step]
  | close => decide
  | exit w => simp [step]

/-- the same schedule in the fixed code goes on: the workers are idle again, the third shard is
    taken -/
example : ∃ st, run false (fun _ => true) 3 (init 2)
    [.handoff 0, .finish 0, .handoff 1, .finish 1, .handoff 0, .finish 0, .close, .exit 0, .exit 1]
      = some st ∧ final 3 st :=
  ⟨{ next := 3, closed := true, workers := [.done, .done] }, by decide, by decide⟩

end NitroVerif.LoadPool
