/-
  C01 along concurrent histories (part 3): reference counts.  Every snapshot's reference count covers the
  creation reference still held by the script and every iterator opened on it that has not begun its
  `Close` (an iterator whose thread is parked in the collector inside `Iterator.Close` has given its
  reference back already, although it is still in the iterator table).
-/
import NitroVerif.Lemmas.MvccConcView2

namespace NitroVerif.MvccConc
open NitroVerif

/-! ### counting -/

theorem countP_filter_le {α : Type} (P P' q : α → Bool) : ∀ (l : List α),
    (∀ p ∈ l, q p = true → P' p = true → P p = true) → (l.filter q).countP P' ≤ l.countP P
  | [], _ => by simp
  | x :: xs, h => by
    have ih := countP_filter_le P P' q xs (fun p hp => h p (List.mem_cons_of_mem _ hp))
    have hx := h x List.mem_cons_self
    simp only [List.filter_cons, List.countP_cons]
    cases hq : q x
    · simp only [Bool.false_eq_true, if_false]; omega
    · simp only [if_true, List.countP_cons]
      cases hP' : P' x
      · simp only [Bool.false_eq_true, if_false]; omega
      · simp only [hx hq hP', if_true]; omega

theorem countP_filter_lt {α : Type} (P P' q : α → Bool) (e : α) : ∀ (l : List α),
    (∀ p ∈ l, q p = true → P' p = true → P p = true) → e ∈ l → P e = true → (q e = false ∨ P' e = false) →
    (l.filter q).countP P' + 1 ≤ l.countP P
  | [], _, he, _, _ => by simp at he
  | x :: xs, h, he, hP, hn => by
    have hle := countP_filter_le P P' q xs (fun p hp => h p (List.mem_cons_of_mem _ hp))
    have hx := h x List.mem_cons_self
    rcases List.mem_cons.mp he with rfl | he'
    · simp only [List.filter_cons, List.countP_cons, hP, if_true]
      rcases hn with hn | hn
      · simp only [hn, Bool.false_eq_true, if_false]; omega
      · cases hq : q e
        · simp only [Bool.false_eq_true, if_false]; omega
        · simp only [if_true, List.countP_cons, hn, Bool.false_eq_true, if_false]; omega
    · have ih := countP_filter_lt P P' q e xs (fun p hp => h p (List.mem_cons_of_mem _ hp)) he' hP hn
      simp only [List.filter_cons, List.countP_cons]
      cases hq : q x
      · simp only [Bool.false_eq_true, if_false]; omega
      · simp only [if_true, List.countP_cons]
        cases hP' : P' x
        · simp only [Bool.false_eq_true, if_false]; omega
        · simp only [hx hq hP', if_true]; omega

theorem countP_congr' {α : Type} (P P' : α → Bool) : ∀ (l : List α), (∀ p ∈ l, P' p = P p) →
    l.countP P' = l.countP P
  | [], _ => rfl
  | x :: xs, h => by
    simp only [List.countP_cons, h x List.mem_cons_self,
      countP_congr' P P' xs (fun p hp => h p (List.mem_cons_of_mem _ hp))]

/-! ### who holds a reference -/

/-- the iterator whose `Close` the thread is in the middle of -/
def Pc.closes : Pc → Option Nat
  | .collectSend _ (some j) => some j
  | _ => none

/-- iterator `k` has begun its `Close`: its reference is given back -/
def closingB (threads : List Pc) (k : Nat × Nat) : Bool :=
  match threads[k.1]? with
  | some pc => pc.closes == some k.2
  | none => false

def refP (threads : List Pc) (sn : Nat) (p : (Nat × Nat) × Iter) : Bool := p.2.sn == sn && !closingB threads p.1

/-- the number of iterators holding a reference to snapshot `sn` -/
def cntRef (threads : List Pc) (iters : List ((Nat × Nat) × Iter)) (sn : Nat) : Nat :=
  iters.countP (refP threads sn)

def RefC (threads : List Pc) (iters : List ((Nat × Nat) × Iter)) (snaps : List Snap) : Prop :=
  ∀ s ∈ snaps, (((if s.held then 1 else 0 : Nat) : Int) + (cntRef threads iters s.sn : Nat)) ≤ s.rc

def RefInv (σ : State) : Prop := RefC σ.threads σ.iters σ.snaps

theorem closingB_set_same {threads : List Pc} {t : Nat} {pc0 pc' : Pc} (ht : threads[t]? = some pc0)
    (hc : pc'.closes = pc0.closes) (k : Nat × Nat) : closingB (threads.set t pc') k = closingB threads k := by
  unfold closingB
  by_cases hk : k.1 = t
  · rw [hk, get_set_self ht, ht]; simp [hc]
  · rw [get_set_ne _ (fun e => hk e.symm)]

theorem closingB_set_other {threads : List Pc} {t : Nat} {pc' : Pc} {k : Nat × Nat} (hk : k.1 ≠ t) :
    closingB (threads.set t pc') k = closingB threads k := by
  unfold closingB
  rw [get_set_ne _ (fun e => hk e.symm)]

theorem cntRef_set_same {threads : List Pc} {t : Nat} {pc0 pc' : Pc} (ht : threads[t]? = some pc0)
    (hc : pc'.closes = pc0.closes) (iters : List ((Nat × Nat) × Iter)) (sn : Nat) :
    cntRef (threads.set t pc') iters sn = cntRef threads iters sn := by
  unfold cntRef
  apply countP_congr'
  intro p _
  unfold refP
  rw [closingB_set_same ht hc]

theorem RefC.threads {threads : List Pc} {iters : List ((Nat × Nat) × Iter)} {snaps : List Snap} {t : Nat}
    {pc0 pc' : Pc} (h : RefC threads iters snaps) (ht : threads[t]? = some pc0) (hc : pc'.closes = pc0.closes) :
    RefC (threads.set t pc') iters snaps := by
  intro s hs
  rw [cntRef_set_same ht hc]
  exact h s hs

theorem closes_of_not_coll {pc : Pc} (h : pc.isColl = false) : pc.closes = none := by
  cases pc <;> first | rfl | cases h

theorem ThrQuiet.ref {σ σ' : State} (h : ThrQuiet σ σ') {iters : List ((Nat × Nat) × Iter)} {snaps : List Snap}
    (hr : RefC σ.threads iters snaps) : RefC σ'.threads iters snaps := by
  rcases h with h | ⟨t, pc0, pc', hg, h, h0, hp⟩
  · rw [h]; exact hr
  · rw [h]
    exact hr.threads hg (by rw [closes_of_not_coll h0, closes_of_not_coll hp])

/-! ### the iterator table -/

/-- a landing: the record is replaced by one on the same snapshot -/
theorem cntRef_setIter_same {threads : List Pc} {iters : List ((Nat × Nat) × Iter)} {k : Nat × Nat} {it it' : Iter}
    (hm : (k, it) ∈ iters) (hsn : it'.sn = it.sn) (sn : Nat) :
    cntRef threads (setIter k it' iters) sn ≤ cntRef threads iters sn := by
  unfold cntRef setIter eraseIter
  rw [List.countP_append]
  have hP : refP threads sn (k, it') = refP threads sn (k, it) := by unfold refP; simp [hsn]
  simp only [List.countP_cons, List.countP_nil, Nat.zero_add]
  cases hk : refP threads sn (k, it)
  · rw [hP, hk]
    simp only [Bool.false_eq_true, if_false, Nat.add_zero]
    exact countP_filter_le _ _ _ iters (fun _ _ _ h => h)
  · rw [hP, hk]
    simp only [if_true]
    exact countP_filter_lt _ _ _ (k, it) iters (fun _ _ _ h => h) hm hk (Or.inl (by simp))

/-- a new record -/
theorem cntRef_setIter_new (threads : List Pc) (iters : List ((Nat × Nat) × Iter)) (k : Nat × Nat) (it' : Iter)
    (sn : Nat) :
    cntRef threads (setIter k it' iters) sn ≤ cntRef threads iters sn + (if it'.sn = sn then 1 else 0) := by
  unfold cntRef setIter eraseIter
  rw [List.countP_append]
  have h1 := countP_filter_le (refP threads sn) (refP threads sn) (fun p => p.1 != k) iters (fun _ _ _ h => h)
  simp only [List.countP_cons, List.countP_nil, Nat.zero_add]
  by_cases hs : it'.sn = sn
  · simp only [hs, if_true]
    split <;> omega
  · have : refP threads sn (k, it') = false := by unfold refP; simp [hs]
    simp only [this, hs, if_false, Bool.false_eq_true]
    omega

/-! ### the tail of a Close: the thread goes idle (its closing iterator leaves the table) or becomes the
    collector -/

theorem countP_le_imp {α : Type} (P P' : α → Bool) (l : List α) (h : ∀ p ∈ l, P' p = true → P p = true) :
    l.countP P' ≤ l.countP P := by
  have := countP_filter_le P P' (fun _ => true) l (fun p hp _ hP => h p hp hP)
  rwa [List.filter_eq_self.mpr (fun _ _ => rfl)] at this

theorem countP_lt_imp {α : Type} (P P' : α → Bool) (e : α) (l : List α) (h : ∀ p ∈ l, P' p = true → P p = true)
    (he : e ∈ l) (hP : P e = true) (hn : P' e = false) : l.countP P' + 1 ≤ l.countP P := by
  have := countP_filter_lt P P' (fun _ => true) e l (fun p hp _ hP => h p hp hP) he hP (Or.inr hn)
  rwa [List.filter_eq_self.mpr (fun _ _ => rfl)] at this

theorem closingB_eq {threads : List Pc} {k : Nat × Nat} {pc : Pc} (h : threads[k.1]? = some pc) :
    closingB threads k = (pc.closes == some k.2) := by
  unfold closingB; rw [h]

theorem closingB_set_self {threads : List Pc} {t : Nat} {pc0 pc' : Pc} (ht : threads[t]? = some pc0)
    {k : Nat × Nat} (hk : k.1 = t) : closingB (threads.set t pc') k = (pc'.closes == some k.2) := by
  unfold closingB; rw [hk, get_set_self ht]

/-- the threads and the iterator table after the tail of a Close of thread `t` -/
def TailThr (σ σ' : State) (t : Nat) (after : Option Nat) : Prop :=
  (σ'.threads = σ.threads.set t .idle ∧
      σ'.iters = (match after with | none => σ.iters | some i => eraseIter (t, i) σ.iters)) ∨
   (∃ sn, σ'.threads = σ.threads.set t (.collectSend sn after) ∧ σ'.iters = σ.iters)

theorem eraseIter_absent {k : Nat × Nat} {l : List ((Nat × Nat) × Iter)} (h : findIter k l = none) :
    eraseIter k l = l := by
  unfold eraseIter
  apply List.filter_eq_self.mpr
  intro p hp
  have hne : p.1 ≠ k := by
    intro e
    apply findIter_none h p.2
    rw [← e]; exact hp
  simpa using hne

theorem tail_finishClose (σ : State) (t : Nat) (after : Option Nat) :
    (finishClose σ t after).1.snaps = σ.snaps ∧ TailThr σ (finishClose σ t after).1 t after := by
  unfold finishClose
  cases after with
  | none => exact ⟨rfl, Or.inl ⟨rfl, rfl⟩⟩
  | some i =>
    simp only
    cases hf : findIter (t, i) σ.iters with
    | some it => exact ⟨rfl, Or.inl ⟨rfl, rfl⟩⟩
    | none =>
      refine ⟨rfl, Or.inl ⟨rfl, ?_⟩⟩
      show σ.iters = eraseIter (t, i) σ.iters
      rw [eraseIter_absent hf]

theorem tail_collectLoop (σ : State) (t : Nat) (after : Option Nat) :
    (collectLoop σ t after).1.snaps = σ.snaps ∧ TailThr σ (collectLoop σ t after).1 t after := by
  unfold collectLoop
  cases hc : collectable σ with
  | some s => exact ⟨rfl, Or.inr ⟨s.sn, rfl, rfl⟩⟩
  | none =>
    simp only [recheck_false_of_not_collectable hc]
    simp only [Bool.false_eq_true, if_false]
    exact tail_finishClose { σ with gcFlag := false } t after

theorem tail_runGC (σ : State) (t : Nat) (after : Option Nat) :
    (runGC σ t after).1.snaps = σ.snaps ∧ TailThr σ (runGC σ t after).1 t after := by
  unfold runGC
  split
  · exact tail_finishClose σ t after
  · exact tail_collectLoop σ t after

/-- the status of an iterator of thread `t` other than the one being closed does not change -/
theorem closing_other {threads : List Pc} {t : Nat} {pc0 pc' : Pc} {after : Option Nat}
    (ht : threads[t]? = some pc0) (hc : pc0.closes = none ∨ pc0.closes = after)
    (hc' : pc'.closes = none ∨ pc'.closes = after) {k : Nat × Nat} (hk : after ≠ some k.2 ∨ k.1 ≠ t) :
    closingB (threads.set t pc') k = closingB threads k := by
  by_cases hkt : k.1 = t
  · have hne : after ≠ some k.2 := by
      rcases hk with h | h
      · exact h
      · exact absurd hkt h
    rw [closingB_set_self ht hkt, closingB_eq (by rw [hkt]; exact ht)]
    have h1 : (pc'.closes == some k.2) = false := by
      rcases hc' with h | h <;> rw [h]
      · rfl
      · simpa using hne
    have h2 : (pc0.closes == some k.2) = false := by
      rcases hc with h | h <;> rw [h]
      · rfl
      · simpa using hne
    rw [h1, h2]
  · exact closingB_set_other hkt

/-- the tail does not add references -/
theorem tail_le {σ σ' : State} {t : Nat} {after : Option Nat} {pc0 : Pc} (h : TailThr σ σ' t after)
    (ht : σ.threads[t]? = some pc0) (hc : pc0.closes = none ∨ pc0.closes = after) (sn : Nat) :
    cntRef σ'.threads σ'.iters sn ≤ cntRef σ.threads σ.iters sn := by
  rcases h with ⟨h1, h2⟩ | ⟨s, h1, h2⟩
  · rw [h1, h2]
    cases after with
    | none =>
      simp only
      unfold cntRef
      apply countP_le_imp
      intro p _ hP
      unfold refP at hP ⊢
      rw [closing_other (after := none) ht hc (Or.inl rfl) (Or.inl (by simp))] at hP
      exact hP
    | some i =>
      simp only
      unfold cntRef eraseIter
      apply countP_filter_le
      intro p _ hq hP
      have hne : p.1 ≠ (t, i) := by simpa using hq
      unfold refP at hP ⊢
      rw [closing_other (after := some i) ht hc (Or.inl rfl) (by
        by_cases hk : p.1.1 = t
        · left; intro e; injection e with e; apply hne; rw [← hk, e]
        · right; exact hk)] at hP
      exact hP
  · rw [h1, h2]
    unfold cntRef
    apply countP_le_imp
    intro p _ hP
    unfold refP at hP ⊢
    simp only [Bool.and_eq_true, Bool.not_eq_true'] at hP ⊢
    refine ⟨hP.1, ?_⟩
    by_cases hk : after ≠ some p.1.2 ∨ p.1.1 ≠ t
    · rw [← closing_other (pc' := .collectSend s after) ht hc (Or.inr (by cases after <;> rfl)) hk]
      exact hP.2
    · exfalso
      have hk1 : after = some p.1.2 := by
        by_cases h : after = some p.1.2
        · exact h
        · exact absurd (Or.inl h) hk
      have hk2 : p.1.1 = t := by
        by_cases h : p.1.1 = t
        · exact h
        · exact absurd (Or.inr h) hk
      have := hP.2
      rw [closingB_set_self ht hk2, hk1] at this
      simp [Pc.closes] at this

/-- when thread `t`, not closing anything yet, closes iterator `i`, that iterator's reference disappears -/
theorem tail_lt {σ σ' : State} {t i : Nat} {it : Iter} {pc0 : Pc} (h : TailThr σ σ' t (some i))
    (ht : σ.threads[t]? = some pc0) (hc : pc0.closes = none) (hm : ((t, i), it) ∈ σ.iters) :
    cntRef σ'.threads σ'.iters it.sn + 1 ≤ cntRef σ.threads σ.iters it.sn := by
  have hcount : refP σ.threads it.sn ((t, i), it) = true := by
    unfold refP
    rw [closingB_eq (k := (t, i)) ht, hc]
    simp
  rcases h with ⟨h1, h2⟩ | ⟨s, h1, h2⟩
  · rw [h1, h2]
    simp only
    unfold cntRef eraseIter
    apply countP_filter_lt _ _ _ ((t, i), it) σ.iters _ hm hcount (Or.inl (by simp))
    intro p _ hq hP
    have hne : p.1 ≠ (t, i) := by simpa using hq
    unfold refP at hP ⊢
    rw [closing_other (after := some i) ht (Or.inl hc) (Or.inl rfl) (by
      by_cases hk : p.1.1 = t
      · left; intro e; injection e with e; apply hne; rw [← hk, e]
      · right; exact hk)] at hP
    exact hP
  · rw [h1, h2]
    unfold cntRef
    apply countP_lt_imp _ _ ((t, i), it) σ.iters _ hm hcount
    · unfold refP
      rw [closingB_set_self ht (k := (t, i)) rfl]
      simp [Pc.closes]
    · intro p _ hP
      unfold refP at hP ⊢
      simp only [Bool.and_eq_true, Bool.not_eq_true'] at hP ⊢
      refine ⟨hP.1, ?_⟩
      by_cases hk : p.1.1 = t
      · rw [closingB_eq (by rw [hk]; exact ht), hc]; rfl
      · rw [closingB_set_other hk] at hP; exact hP.2

/-! ### the actions -/

theorem ref_qstep {σ σ' : State} (hv : RefInv σ) (hq : QStep σ σ') : RefInv σ' := by
  obtain ⟨⟨_, _, e3, e4⟩, ht, _, _⟩ := hq
  unfold RefInv
  rw [e3, e4]
  exact ht.ref hv

theorem ref_snap {σ : State} (hk : IterInv σ) (hv : RefInv σ) : RefInv (snap σ).1 := by
  show RefC σ.threads σ.iters (σ.snaps ++ [_])
  intro s hs
  rcases List.mem_append.mp hs with hs | hs
  · exact hv s hs
  · simp at hs; subst hs
    simp only
    have : cntRef σ.threads σ.iters σ.currSn = 0 := by
      unfold cntRef
      apply List.countP_eq_zero.mpr
      intro p hp
      have := hk.sn p.1 p.2 hp
      unfold refP
      have hne : ¬ (p.2.sn = σ.currSn) := by omega
      simp [hne]
    rw [this]; simp

theorem ref_landOn {σ : State} {t i : Nat} {it : Iter} {land : Option Node} {pc0 : Pc} (hv : RefInv σ)
    (hm : ((t, i), it) ∈ σ.iters) (ht : σ.threads[t]? = some pc0) (hc : pc0.closes = none) :
    RefInv (landOn σ t i it land).1 := by
  have key : ∀ (it' : Iter) (pc' : Pc), it'.sn = it.sn → pc'.closes = none →
      RefC (σ.threads.set t pc') (setIter (t, i) it' σ.iters) σ.snaps := by
    intro it' pc' hsn hpc
    refine RefC.threads ?_ ht (by rw [hpc, hc])
    intro s hs
    have h1 := hv s hs
    have h2 := cntRef_setIter_same (threads := σ.threads) hm hsn s.sn
    omega
  unfold landOn
  cases land with
  | none => exact key _ _ rfl rfl
  | some y =>
    simp only
    split
    · exact key _ _ rfl rfl
    · exact key _ _ rfl rfl

theorem ref_itFirst {σ : State} {t i : Nat} (hv : RefInv σ) (ht : σ.threads[t]? = some .idle) :
    RefInv (itFirst σ t i).1 := by
  unfold itFirst
  cases hf : findIter (t, i) σ.iters with
  | some it => exact ref_landOn hv (findIter_some hf) ht rfl
  | none => exact hv

theorem ref_stepIter {σ : State} {t i : Nat} (hv : RefInv σ) (ht : σ.threads[t]? = some (.iterNext i)) :
    RefInv (stepIter σ t i).1 := by
  unfold stepIter
  cases hf : findIter (t, i) σ.iters with
  | none => exact hv
  | some it =>
    simp only
    split
    · split
      · exact hv
      · split
        · exact ref_landOn hv (findIter_some hf) ht rfl
        · split
          · exact hv
          · exact ref_landOn hv (findIter_some hf) ht rfl
    · exact hv

theorem ref_itNew {σ : State} {t i s : Nat} (hv : RefInv σ) : RefInv (itNew σ t i s).1 := by
  unfold itNew
  split
  · split
    · exact hv
    · show RefC σ.threads (setIter (t, i) _ σ.iters) (updSnap s _ σ.snaps)
      intro y hy
      obtain ⟨x, hx, rfl⟩ := mem_updSnap hy
      have h1 := hv x hx
      have h2 := cntRef_setIter_new σ.threads σ.iters (t, i) ⟨s, curTok σ, none⟩ x.sn
      by_cases hxs : x.sn = s
      · simp only [hxs, if_true] at h2 ⊢
        rw [hxs] at h1
        omega
      · simp only [hxs, if_false] at ⊢
        have : ¬ (s = x.sn) := fun e => hxs e.symm
        simp only [this, if_false] at h2
        omega
  · exact hv

/-- `closeRef`: the count of `s` goes down by one, then the tail -/
theorem closeRef_shape (σ : State) (t s : Nat) (rc : Int) (after : Option Nat) :
    ∃ f : Snap → Snap, (∀ x, (f x).sn = x.sn ∧ (f x).held = x.held ∧ (f x).rc = x.rc - 1) ∧
      (closeRef σ t s rc after).1.snaps = updSnap s f σ.snaps ∧
      TailThr σ (closeRef σ t s rc after).1 t after := by
  unfold closeRef
  split
  · exact ⟨fun y => { y with rc := y.rc - 1, st := .retired }, fun _ => ⟨rfl, rfl, rfl⟩,
      (tail_runGC { σ with snaps := _ } t after).1, (tail_runGC { σ with snaps := _ } t after).2⟩
  · exact ⟨fun y => { y with rc := y.rc - 1 }, fun _ => ⟨rfl, rfl, rfl⟩,
      (tail_finishClose { σ with snaps := _ } t after).1, (tail_finishClose { σ with snaps := _ } t after).2⟩

theorem ref_startClose {σ : State} {t s : Nat} (hi : Inv σ) (hv : RefInv σ) (ht : σ.threads[t]? = some .idle) :
    RefInv (startClose σ t s).1 := by
  unfold startClose
  cases hf : findSnap s σ.snaps with
  | none => exact hv
  | some x =>
    simp only
    split
    · rename_i hheld
      have ⟨hxm, hxs⟩ := findSnap_some hf
      obtain ⟨f, hfp, hsn, htail⟩ := closeRef_shape
        { σ with snaps := updSnap s (fun y => { y with held := false }) σ.snaps } t s x.rc none
      have hle := fun sn => tail_le (σ := { σ with snaps := updSnap s (fun y => { y with held := false }) σ.snaps })
        htail ht (Or.inl rfl) sn
      unfold RefInv
      rw [hsn]
      intro y hy
      obtain ⟨z, hz, rfl⟩ := mem_updSnap hy
      obtain ⟨w, hw, rfl⟩ := mem_updSnap hz
      have h1 := hv w hw
      have h2 := hle w.sn
      by_cases hws : w.sn = s
      · have hwx : w = x := snap_unique hi.store.snaps_inc hw hxm (by omega)
        have hheld' : w.held = true := by rw [hwx]; exact hheld
        rw [if_pos hws, if_pos (show ({ w with held := false } : Snap).sn = s from hws)]
        obtain ⟨e1, e2, e3⟩ := hfp { w with held := false }
        rw [e1, e2, e3]
        simp only [hheld', if_true] at h1
        dsimp only at h2 ⊢
        simp only [Bool.false_eq_true, if_false]
        omega
      · rw [if_neg hws, if_neg hws]
        dsimp only at h2 ⊢
        omega
    · exact hv

theorem ref_itClose {σ : State} {t i : Nat} (hv : RefInv σ) (ht : σ.threads[t]? = some .idle) :
    RefInv (itClose σ t i).1 := by
  unfold itClose
  cases hfi : findIter (t, i) σ.iters with
  | none => exact hv
  | some it =>
    simp only
    cases hf : findSnap it.sn σ.snaps with
    | none => exact hv
    | some x =>
      simp only
      obtain ⟨f, hfp, hsn, htail⟩ := closeRef_shape σ t it.sn x.rc (some i)
      unfold RefInv
      rw [hsn]
      intro y hy
      obtain ⟨w, hw, rfl⟩ := mem_updSnap hy
      have h1 := hv w hw
      by_cases hws : w.sn = it.sn
      · rw [if_pos hws]
        obtain ⟨e1, e2, e3⟩ := hfp w
        rw [e1, e2, e3, hws]
        have := tail_lt htail ht rfl (findIter_some hfi)
        rw [hws] at h1
        omega
      · rw [if_neg hws]
        have := tail_le htail ht (Or.inl rfl) w.sn
        omega

theorem ref_stepCollect {σ : State} {t sn : Nat} {after : Option Nat} (hv : RefInv σ)
    (ht : σ.threads[t]? = some (.collectSend sn after)) : RefInv (stepCollect σ t sn after).1 := by
  unfold stepCollect
  cases hf : findSnap sn σ.snaps with
  | none => exact hv
  | some x =>
    simp only
    have htail := tail_collectLoop
      { σ with lastGCSn := sn, gcJobs := σ.gcJobs ++ [⟨[], x.gclist, .recv⟩]
               snaps := updSnap sn (fun y => { y with st := .collected }) σ.snaps } t after
    unfold RefInv
    rw [htail.1]
    intro y hy
    obtain ⟨w, hw, rfl⟩ := mem_updSnap hy
    have h1 := hv w hw
    have hc : (Pc.collectSend sn after).closes = none ∨ (Pc.collectSend sn after).closes = after := by
      cases after <;> simp [Pc.closes]
    have h2 := tail_le (σ := { σ with lastGCSn := sn, gcJobs := _, snaps := _ }) htail.2 ht hc w.sn
    by_cases hws : w.sn = sn
    · rw [if_pos hws]
      dsimp only at h2 ⊢
      omega
    · rw [if_neg hws]
      dsimp only at h2 ⊢
      omega

end NitroVerif.MvccConc
