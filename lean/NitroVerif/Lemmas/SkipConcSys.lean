import NitroVerif.Lemmas.SkipConcStart
/-!
  System level: the invariant `Inv` holds initially for any number of threads and is preserved by every
  action (`start t op`, `step t`) of every thread; the heap evolves by `Ext` along every run.
-/
namespace NitroVerif.SkipConc
open NitroVerif

/-- the invariant of the whole system -/
structure Inv (s : Sys) : Prop where
  heap : HInv s.sh.heap
  threads : ∀ th ∈ s.threads, TInv s.sh.heap th
  /-- `s.level` stays within MaxLevel -/
  level : s.sh.level ≤ Gen.maxLevel

/-- what the harness can do -/
inductive Action where
  | start (t : Nat) (op : Op)
  | step (t : Nat)

def Sys.act (s : Sys) : Action → Sys
  | .start t op => (s.start t op).1
  | .step t => (s.step t).1

/-- a run: any interleaving of call entries and segments -/
def Sys.run (s : Sys) (as : List Action) : Sys := as.foldl Sys.act s

/-- the state after `threads n`; `fixed = false` selects the code before the fix "Insert4 does not link an
    upper level in front of a deleted successor" (only used to state the pre-fix witness) -/
def Sys.initWith (fixed : Bool) (n : Nat) : Sys :=
  { sh := { Shared.init with fixedSucc := fixed }, threads := List.replicate n {} }

/-- the state after `threads n` (the code of /repo now) -/
def Sys.init (n : Nat) : Sys := Sys.initWith true n

theorem word?_init_head (l : Nat) :
    word? initHeap 0 l = if l < Gen.maxLevel + 1 then some (tailId, false) else none := by
  simp only [word?, initHeap, List.getElem?_cons_zero, Option.bind_some]
  split
  · rename_i hl; simp [hl]
  · rename_i hl; simp [hl]

theorem word?_init_tail (l : Nat) : word? initHeap 1 l = none := by
  simp [word?, initHeap]

theorem word?_init_ge (n l : Nat) (hn : 2 ≤ n) : word? initHeap n l = none :=
  word?_ge (by simp [initHeap]; omega) l

theorem word?_init {n l p : Nat} {m : Bool} (hw : word? initHeap n l = some (p, m)) :
    n = 0 ∧ l ≤ Gen.maxLevel ∧ p = 1 ∧ m = false := by
  match n with
  | 0 =>
    rw [word?_init_head] at hw
    split at hw
    · simp [tailId] at hw; exact ⟨rfl, by omega, hw.1.symm, hw.2⟩
    · simp at hw
  | 1 => rw [word?_init_tail] at hw; simp at hw
  | n + 2 => rw [word?_init_ge _ _ (by omega)] at hw; simp at hw

theorem HInv_init : HInv initHeap where
  len := by simp [initHeap]
  headKey := rfl
  tailKey := rfl
  finKey n h2 hl := by simp [initHeap] at hl; omega
  tailNoWord := word?_init_tail
  headHeight := rfl
  full n l hl hn1 hle := by
    have : n = 0 := by simp [initHeap] at hl; omega
    subst this
    have h32 : heightOf initHeap 0 = Gen.maxLevel := rfl
    rw [word?_init_head]
    have : l < Gen.maxLevel + 1 := by omega
    simp [this]
  hl n l p m hw := by
    obtain ⟨_, _, rfl, _⟩ := word?_init hw
    exact .inl rfl
  word0 n hl hn1 := by
    have : n = 0 := by simp [initHeap] at hl; omega
    subst this; rw [word?_init_head]; simp [Gen.maxLevel]
  wordLevel n l w hw := by
    obtain ⟨p, m⟩ := w
    obtain ⟨rfl, h2, _, _⟩ := word?_init hw
    simpa [heightOf, initHeap] using h2
  closed n l p m hw := by
    obtain ⟨_, _, rfl, _⟩ := word?_init hw
    simp [initHeap]
  h5 n p m hw := by
    obtain ⟨rfl, _, rfl, _⟩ := word?_init hw
    simp [keyOf, initHeap, Key.lt]
  h4 n l l' p p' m hw _ _ := by
    have := (word?_init hw).2.2.2; simp at this

theorem TInv_fresh {h : Heap} (H : HInv h) : TInv h {} := by
  have := H.len
  have hz : ∀ i, (List.replicate (Gen.maxLevel + 1) 0).getD i 0 = 0 := by
    intro i; simp [List.getD, List.getElem?_replicate]; split <;> simp
  refine ⟨⟨by simp [Gen.maxLevel], by simp [Gen.maxLevel], ?_, ?_, ?_⟩, ?_, trivial⟩
  · intro i; show (List.replicate (Gen.maxLevel + 1) 0).getD i 0 < h.length; rw [hz]; omega
  · intro i; show (List.replicate (Gen.maxLevel + 1) 0).getD i 0 < h.length; rw [hz]; omega
  · intro j hj
    show (List.replicate (Gen.maxLevel + 1) 0).getD j 0 = 1 ∨
      (word? h ((List.replicate (Gen.maxLevel + 1) 0).getD j 0) j).isSome
    rw [hz]; exact .inr (H.head_word hj)
  · intro p hp; simp at hp

theorem Inv_initWith (fixed : Bool) (n : Nat) : Inv (Sys.initWith fixed n) := by
  refine ⟨HInv_init, ?_, Nat.zero_le _⟩
  intro th hth
  simp only [Sys.initWith, List.mem_replicate] at hth
  rw [hth.2]
  exact TInv_fresh HInv_init

theorem Inv_init (n : Nat) : Inv (Sys.init n) := Inv_initWith true n

theorem Inv_set {s : Sys} (hI : Inv s) {sh' : Shared} {th' : Thread} (t : Nat)
    (H' : HInv sh'.heap) (e : Ext s.sh.heap sh'.heap) (hT : TInv sh'.heap th')
    (hlv : sh'.level ≤ Gen.maxLevel) :
    Inv { sh := sh', threads := s.threads.set t th' } := by
  refine ⟨H', ?_, hlv⟩
  intro th hth
  rcases List.mem_or_eq_of_mem_set hth with hm | rfl
  · exact (hI.2 th hm).ext e
  · exact hT

theorem step_inv {s : Sys} (hI : Inv s) (t : Nat) :
    Inv (s.step t).1 ∧ Ext s.sh.heap (s.step t).1.sh.heap := by
  unfold Sys.step
  split
  · exact ⟨hI, Ext.refl _⟩
  · rename_i th hth
    have hT := hI.2 th (List.mem_of_getElem? hth)
    have hg := stepThread_good hI.1 hI.3 hT
    split
    · exact ⟨hI, Ext.refl _⟩
    · exact ⟨Inv_set hI t hg.1 hg.2.1 hg.2.2 (stepThread_level hI.3 hT).1, hg.2.1⟩

theorem isIdle_iff (pc : PC) : isIdle pc = true ↔ pc = .idle := by
  cases pc <;> simp [isIdle]

theorem start_inv {s : Sys} (hI : Inv s) (t : Nat) (op : Op) :
    Inv (s.start t op).1 ∧ (s.start t op).1.sh.heap = s.sh.heap := by
  unfold Sys.start
  split
  · exact ⟨hI, rfl⟩
  · rename_i th hth
    have hT := hI.2 th (List.mem_of_getElem? hth)
    split
    · rename_i hidle
      have hg := startOp_good op hI.1 hI.3 hT ((isIdle_iff _).mp hidle)
      exact ⟨Inv_set hI t hg.1 hg.2.1 hg.2.2 (by rw [startOp_level]; exact hI.3), startOp_heap _ _ _⟩
    · exact ⟨hI, rfl⟩

theorem act_inv {s : Sys} (hI : Inv s) (a : Action) :
    Inv (s.act a) ∧ Ext s.sh.heap (s.act a).sh.heap := by
  cases a with
  | start t op =>
    have := start_inv hI t op
    exact ⟨this.1, by simp only [Sys.act]; rw [this.2]; exact Ext.refl _⟩
  | step t => exact step_inv hI t

/-- along every run of any number of threads the invariant holds and the heap only evolves by `Ext` -/
theorem run_inv {s : Sys} (hI : Inv s) (as : List Action) :
    Inv (s.run as) ∧ Ext s.sh.heap (s.run as).sh.heap := by
  induction as generalizing s with
  | nil => exact ⟨hI, Ext.refl _⟩
  | cons a r ih =>
    have h1 := act_inv hI a
    have h2 := ih h1.1
    exact ⟨h2.1, h1.2.trans h2.2⟩

theorem run_append (s : Sys) (as bs : List Action) : s.run (as ++ bs) = (s.run as).run bs := by
  simp [Sys.run, List.foldl_append]

end NitroVerif.SkipConc
