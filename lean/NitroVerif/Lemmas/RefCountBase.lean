import NitroVerif.Model.RefCount
import NitroVerif.Lemmas.RefCountGen
/-!
  Basic lemmas for the `RefCount` model: counting over the thread list (`cnt`, `cnt_set`),
  get/set of snapshot records, ordered insertion into the dead list.
-/
namespace NitroVerif.RefCount

/-! ### counting threads -/

def cnt (f : PC → Nat) (l : List PC) : Nat := (l.map f).sum

theorem cnt_set (f : PC → Nat) (l : List PC) (i : Nat) (t t' : PC) (h : l[i]? = some t) :
    cnt f (l.set i t') + f t = cnt f l + f t' := by
  unfold cnt
  induction l generalizing i with
  | nil => simp at h
  | cons x xs ih =>
    cases i with
    | zero => simp at h; subst h; simp; omega
    | succ j => simp at h; have := ih j h; simp at *; omega

theorem cnt_mono (f g : PC → Nat) (h : ∀ t, f t ≤ g t) (l : List PC) : cnt f l ≤ cnt g l := by
  unfold cnt
  induction l with
  | nil => simp
  | cons x xs ih => simp; have := h x; omega

theorem cnt_ge (f : PC → Nat) (l : List PC) (i : Nat) (t : PC) (h : l[i]? = some t) : f t ≤ cnt f l := by
  unfold cnt
  induction l generalizing i with
  | nil => simp at h
  | cons x xs ih =>
    cases i with
    | zero => simp at h; subst h; simp
    | succ j => simp at h; have := ih j h; simp; omega

theorem cnt_two (f : PC → Nat) (l : List PC) (i j : Nat) (t t' : PC) (hij : i ≠ j)
    (hi : l[i]? = some t) (hj : l[j]? = some t') : f t + f t' ≤ cnt f l := by
  induction l generalizing i j with
  | nil => simp at hi
  | cons x xs ih =>
    cases i with
    | zero =>
      cases j with
      | zero => exact absurd rfl hij
      | succ j' =>
        simp at hi hj; subst hi
        have := cnt_ge f xs j' t' hj
        simp [cnt] at *; omega
    | succ i' =>
      cases j with
      | zero =>
        simp at hi hj; subst hj
        have := cnt_ge f xs i' t hi
        simp [cnt] at *; omega
      | succ j' =>
        simp at hi hj
        have := ih i' j' (by omega) hi hj
        simp [cnt] at *; omega

theorem cnt_replicate (f : PC → Nat) (n : Nat) (pc : PC) (h : f pc = 0) :
    cnt f (List.replicate n pc) = 0 := by
  unfold cnt
  induction n with
  | zero => simp
  | succ k ih => simp [List.replicate_succ, h] at *

theorem cnt_all_idle (f : PC → Nat) (l : List PC) (h : l.all (fun pc => pc == .idle) = true)
    (hf : f .idle = 0) : cnt f l = 0 := by
  unfold cnt
  induction l with
  | nil => simp
  | cons x xs ih =>
    simp at h ih ⊢
    obtain ⟨hx, hxs⟩ := h
    subst hx
    rw [hf, ih hxs]; simp

theorem set_getElem?_cases {l : List PC} {i j : Nat} {pc' pcj : PC}
    (h : (l.set i pc')[j]? = some pcj) :
    (j = i ∧ pcj = pc') ∨ (j ≠ i ∧ l[j]? = some pcj) := by
  rw [List.getElem?_set] at h
  split at h
  · split at h
    · simp at h; left; exact ⟨by omega, h.symm⟩
    · simp at h
  · right; exact ⟨by omega, h⟩

/-! ### per-thread units -/

/-- 1 iff the thread is parked before the decrement of `s` (it carries one reference) -/
def uDec (s : Nat) : PC → Nat
  | .closeDec s' => if s' = s then 1 else 0
  | _ => 0

/-- 1 iff the thread is parked before retiring `s` -/
def uRet (s : Nat) : PC → Nat
  | .closeRetire s' => if s' = s then 1 else 0
  | _ => 0

/-- 1 iff the thread deleted `s` from the live list and is parked before inserting it into the
    dead list -/
def uRet2 (s : Nat) : PC → Nat
  | .closeRetire2 s' => if s' = s then 1 else 0
  | _ => 0

/-- 1 iff the thread is inside the collector's critical section (holds `isGCRunning`) -/
def uCrit : PC → Nat
  | .collectRead | .collectSend _ | .gcUnlock => 1
  | _ => 0

/-- 1 iff the thread is responsible for a collectable head: it will (re-)try the collector -/
def uResp : PC → Nat
  | .closeGC | .gcTryLock | .collectRead | .collectSend _ | .gcUnlock | .gcRecheck => 1
  | _ => 0

theorem uResp_le_one (t : PC) : uResp t ≤ 1 := by
  cases t <;> simp [uResp]

theorem uCrit_le_uResp (t : PC) : uCrit t ≤ uResp t := by
  cases t <;> simp [uCrit, uResp]

/-! ### snapshot records -/

@[simp] theorem length_setAt (l : List Snap) (a : Nat) (x : Snap) : (setAt l a x).length = l.length := by
  cases a <;> simp [setAt]

theorem snapAt_setAt (l : List Snap) (a s : Nat) (x : Snap) (h1 : 1 ≤ a) (h2 : a ≤ l.length) :
    snapAt (setAt l a x) s = if a = s then x else snapAt l s := by
  cases a with
  | zero => omega
  | succ n =>
    cases s with
    | zero => simp [snapAt]
    | succ m =>
      simp only [snapAt, setAt, List.getD_eq_getElem?_getD, List.getElem?_set]
      by_cases h : n = m
      · subst h
        have : n < l.length := by omega
        simp [this]
      · simp [h]

theorem snapAt_replicate (k s : Nat) (x : Snap) (h1 : 1 ≤ s) (h2 : s ≤ k) :
    snapAt (List.replicate k x) s = x := by
  cases s with
  | zero => omega
  | succ n =>
    have : n < k := by omega
    simp [snapAt, List.getD_eq_getElem?_getD, this]

/-! ### the ordered lists -/

theorem mem_dinsert (s x : Nat) (l : List Nat) : x ∈ dinsert s l ↔ x = s ∨ x ∈ l := by
  induction l with
  | nil => simp [dinsert]
  | cons y ys ih =>
    unfold dinsert
    simp only
    split
    · rename_i h; rw [compareSnapshot_eq_zero] at h; subst h; simp
    · split
      · simp
      · simp [ih]; constructor <;> (intro h; rcases h with h | h | h <;> simp [h])

theorem pairwise_dinsert (s : Nat) (l : List Nat) (h : l.Pairwise (· < ·)) :
    (dinsert s l).Pairwise (· < ·) := by
  induction l with
  | nil => simp [dinsert]
  | cons y ys ih =>
    unfold dinsert
    simp only
    split
    · exact h
    · rename_i hne
      rw [compareSnapshot_eq_zero] at hne
      split
      · rename_i hlt
        rw [compareSnapshot_neg] at hlt
        rw [List.pairwise_cons] at h ⊢
        refine ⟨?_, List.pairwise_cons.mpr h⟩
        intro a ha
        rcases List.mem_cons.mp ha with rfl | ha
        · exact hlt
        · have := h.1 a ha; omega
      · rename_i hge
        rw [compareSnapshot_neg] at hge
        rw [List.pairwise_cons] at h ⊢
        refine ⟨?_, ih h.2⟩
        intro a ha
        rw [mem_dinsert] at ha
        rcases ha with rfl | ha
        · omega
        · exact h.1 a ha

theorem nodup_of_pairwise_lt {l : List Nat} (h : l.Pairwise (· < ·)) : l.Nodup := by
  unfold List.Nodup
  exact h.imp (fun hab => by omega)

theorem mem_erase_sorted {l : List Nat} (h : l.Pairwise (· < ·)) (s x : Nat) :
    x ∈ l.erase s ↔ x ≠ s ∧ x ∈ l :=
  (nodup_of_pairwise_lt h).mem_erase_iff

theorem pairwise_erase {l : List Nat} (h : l.Pairwise (· < ·)) (s : Nat) :
    (l.erase s).Pairwise (· < ·) :=
  h.sublist List.erase_sublist

/-- in an ascending list whose elements all exceed `L`, `L+1` can only be the head -/
theorem head_of_mem {l : List Nat} {L : Nat} (hs : l.Pairwise (· < ·)) (hgt : ∀ x ∈ l, L < x)
    (hm : L + 1 ∈ l) : ∃ tl, l = (L + 1) :: tl := by
  cases l with
  | nil => simp at hm
  | cons y ys =>
    rcases List.mem_cons.mp hm with h | h
    · exact ⟨ys, by rw [h]⟩
    · have h1 := (List.pairwise_cons.mp hs).1 _ h
      have h2 := hgt y (by simp)
      omega

end NitroVerif.RefCount
