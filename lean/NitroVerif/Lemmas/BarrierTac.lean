import NitroVerif.Lemmas.BarrierInv
/-!
  Proof automation for the per-step preservation lemmas of `Inv`.

  Convention inside a "leaf" lemma (one branch of `exec`): the context contains
    `h : Inv st`, `ht : st.ths[i]? = some t`, `hpc : t.pc = …`,
    `key : ∀ f, cnt f st' = cnt f st + f t' - f t`   (from `cnt_step'`).
  `bar_auto [lemmas]` splits `Inv st'` into its clauses and tries, for each clause, to rewrite the
  clause for `st'` into the clause for `st` (`hold`) and close it by `omega`; clauses that need an
  argument are left as goals (tagged with the clause name).  `bar_auto_s` does the same after a case
  split `s0 = s` on the session `s0` the step touches.
-/
namespace NitroVerif.Barrier
open Lean.Parser.Tactic

set_option hygiene false in
/-- close a clause about session `s` given the same clause `hold` of the pre-state; `s0` is the session touched -/
macro "bfield_s" "[" ls:simpLemma,* "]" : tactic => `(tactic|
  (by_cases e : s0 = s
   · subst e
     (try simp [key, barsimp, hpc, List.count_append, $ls,*] at hold ⊢) <;>
       (first | done | omega | exact hold)
   · (try simp [key, barsimp, hpc, List.count_append, e, $ls,*] at hold ⊢) <;>
       (first | done | omega | exact hold)))

set_option hygiene false in
macro "bfield" "[" ls:simpLemma,* "]" : tactic => `(tactic|
  ((try simp [key, barsimp, hpc, List.count_append, $ls,*] at hold ⊢) <;>
       (first | done | omega | exact hold)))

set_option hygiene false in
macro "bar_auto_with" fs:tactic "[" ls:simpLemma,* "]" : tactic => `(tactic|
  (constructor
   all_goals try (case range => intro s hs; have hs' : st.sess.length ≤ s := (by simpa using hs); have hold := h.range s hs'; $fs)
   all_goals try (case curlen => have hold := h.curlen; bfield [$ls,*])
   all_goals try (case count => intro s hs; have hs' : s < st.sess.length := (by simpa using hs); have hold := h.count s hs'; $fs)
   all_goals try (case bound => intro s; have hold := h.bound s; $fs)
   all_goals try (case pend => intro s hs; have hs' : s < st.sess.length := (by simpa using hs); have hold := h.pend s hs'; $fs)
   all_goals try (case pendcur => intro s; have hold := h.pendcur s; $fs)
   all_goals try (case mutex => have hold := h.mutex; bfield [$ls,*])
   all_goals try (case flag => have hold := h.flag; bfield [$ls,*])
   all_goals try (case active => have hold := h.active; bfield [$ls,*])
   all_goals try (case tagged => have hold := h.tagged; bfield [$ls,*])
   all_goals try (case numbering => intro s; have hold := h.numbering s; $fs)
   all_goals try (case flushedlt => intro s; have hold := h.flushedlt s; $fs)
   all_goals try (case closed => intro s; have hold := h.closed s; $fs)
   all_goals try (case place => intro s; have hold := h.place s; $fs)
   all_goals try (case sorted => have hold := h.sorted; bfield [$ls,*])
   all_goals try (case logseq => have hold := h.logseq; bfield [$ls,*])
   all_goals try (case logobj => have hold := h.logobj; bfield [$ls,*])
   all_goals try (case proc => intro s; have hold := h.proc s; $fs)
   all_goals try (case nopanic => have hold := h.nopanic; bfield [$ls,*])
   all_goals try (case stats => have hold := h.stats; bfield [$ls,*])
   all_goals try (case calls => have hold := h.calls; bfield [$ls,*])
   all_goals try (case last => intro s; have hold := h.last s; $fs)))

macro "bar_auto" "[" ls:simpLemma,* "]" : tactic => `(tactic| bar_auto_with (bfield [$ls,*]) [$ls,*])
macro "bar_auto_s" "[" ls:simpLemma,* "]" : tactic => `(tactic| bar_auto_with (bfield_s [$ls,*]) [$ls,*])

/-- a session id occurring in a thread is allocated -/
theorem ref_lt {st : St} (h : Inv st) {i : Nat} {t : Th} (ht : st.ths[i]? = some t) (s : Nat)
    (hr : 1 ≤ refT s t) : s < st.sess.length := by
  false_or_by_contra; rename_i hc
  have h1 := h.range s (by omega)
  have h2 := cnt_ge_mem (refT s) st i t ht
  omega

end NitroVerif.Barrier
