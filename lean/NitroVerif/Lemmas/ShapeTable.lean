import NitroVerif.Gen.Shapes
/-!
  Pinned control shapes, area Table: the functions of /repo the models of this area mirror have, today, exactly
  these shapes (tools/gofacts/shapes.go).  `Gen/Shapes.lean` is regenerated from the working tree on every run; a change
  of an operator, bound, call, early return or loop in one of these functions breaks the lemma named after it.
  Expectations are maintained by hand (bootstrap: `go run . -shape-lemmas Table`).
-/
namespace NitroVerif.ShapeTie.Table
open NitroVerif.Gen.Shape

/-- nodetable/table.go `*NodeTable.Get` -/
theorem shape_TableGet_ok : Table_TableGet =
    ["find", "if(& ==)", "if(==)", "return(_)", "decodePointer", "return(_)", "decodePointer", "return(nil)"] := rfl

/-- nodetable/table.go `*NodeTable.Update` -/
theorem shape_TableUpdate_ok : Table_TableUpdate =
    ["find", "if-else(& ==)", "if-else(==)", "decodePointer", "encodePointer", "decodePointer", "encodePointer", "if-else(||)", "encodePointer", "if()", "encodePointer", "decodePointer", "++", "++", "encodePointer", "++", "return()"] := rfl

/-- nodetable/table.go `*NodeTable.Remove` -/
theorem shape_TableRemove_ok : Table_TableRemove =
    ["find", "if(& ==)", "if-else(==)", "decodePointer", "if-else()", "--", "if-else(== 0)", "delete", "--", "encodePointer", "decodePointer", "delete", "--", "decodePointer", "if(+ 1 !=)", "--", "if-else(== 0)", "delete", "encodePointer", "decodePointer", "--", "return()"] := rfl

/-- nodetable/table.go `*NodeTable.find` -/
theorem shape_TableFind_ok : Table_TableFind =
    ["hash", "if()", "hasConflict", "if()", "isEqual", "return()", "if()", "if()", "range", "if()", "isEqual", "return()", "return()"] := rfl

/-- nodetable/table.go `*NodeTable.hasConflict` -/
theorem shape_TableHasConflict_ok : Table_TableHasConflict =
    ["return(_)"] := rfl

/-- nodetable/table.go `*NodeTable.isEqual` -/
theorem shape_TableIsEqual_ok : Table_TableIsEqual =
    ["decodePointer", "return(_)", "keyEqual"] := rfl

/-- nodetable/table.go `.encodePointer` -/
theorem shape_encodePointer_ok : Table_encodePointer =
    ["if()", "return(_)"] := rfl

/-- nodetable/table.go `.decodePointer` -/
theorem shape_decodePointer_ok : Table_decodePointer =
    ["if(== 8)", "return(_)", "return(_)"] := rfl

/-- nodelist.go `*NodeList.Add` -/
theorem shape_NodeListAdd_ok : Table_NodeListAdd =
    ["SetLink"] := rfl

/-- nodelist.go `*NodeList.Remove` -/
theorem shape_NodeListRemove_ok : Table_NodeListRemove =
    ["for(!= nil)", "Bytes", "Item", "if()", "Equal", "if(== nil)", "GetLink", "return(_)", "SetLink", "GetLink", "return(_)", "GetLink", "return(nil)"] := rfl

/-- nodelist.go `*NodeList.Keys` -/
theorem shape_NodeListKeys_ok : Table_NodeListKeys =
    ["for(!= nil)", "Bytes", "Item", "GetLink", "return()"] := rfl

end NitroVerif.ShapeTie.Table
