/-
  `Put2` preserves the invariant.
-/
import NitroVerif.Lemmas.MvccInv

namespace NitroVerif.Mvcc
open NitroVerif SetSpec

theorem filter_insertAt_length (s : List Ver) (p : Ver) (q : Ver → Bool) :
    ((insertAt s p).filter q).length = (s.filter q).length + (if q p then 1 else 0) := by
  have happ := findPath_append insCmp p s
  unfold insertAt
  conv => rhs; rw [← happ]
  simp only [List.filter_append, List.filter_cons, List.length_append]
  split <;> simp <;> omega

/-- a successful `put` at the level of the fields it changes -/
theorem inv_put_ok {σ : State} (h : Inv σ) {w k v : Nat} (hw : w < σ.writers.length)
    (hl : lookup σ.store (probe σ k v) = none) :
    Inv { σ with store := insertAt σ.store (probe σ k v),
                 writers := updWriter w (fun x => { x with count := x.count + 1 }) σ.writers } := by
  have hno := lookup_complete h.sorted h.chains hl
  have hcur : 0 < σ.currSn := by have := h.snaps.gclt; omega
  have hmem := mem_insertAt h.sorted (probe σ k v)
  refine ⟨?_, ?_, ?_, h.snaps, ?_, ?_, h.iters, ?_⟩
  · exact sorted_insertAt h.sorted _ (no_same_id_of_no_alive h.chains k v hno)
  · exact chains_insertAt h.sorted h.chains k v hno
  · have h1 := h.count
    unfold CountInv at h1 ⊢
    simp only
    rw [sum_updWriter w _ 1 (fun _ => rfl) _ hw, filter_insertAt_length]
    simp [probe, isAlive]; omega
  · intro s hs hrc
    simp only
    rw [view_insertAt h.sorted _ _ (by simp [probe]; exact (h.snaps.lt s hs).2)]
    exact h.view s hs hrc
  · have hg := h.garb
    have hsame : ∀ g, InGc (updWriter w (fun x => { x with count := x.count + 1 }) σ.writers) g ↔
        InGc σ.writers g := inGc_updWriter_same (fun _ => rfl)
    refine ⟨?_, ?_, ?_, ?_, ?_, ?_, ?_⟩
    · intro x hx hd
      rcases (hmem x).mp hx with rfl | hx
      · simp [probe] at hd; omega
      · obtain ⟨g, hg1, hg2⟩ := hg.wgc x hx hd
        exact ⟨g, (hsame g).mpr hg1, hg2⟩
    · intro x hx hd hlt
      rcases (hmem x).mp hx with rfl | hx
      · simp [probe] at hd
      · exact hg.sgc x hx hd hlt
    · intro g hgin
      have ⟨h1, h2⟩ := hg.wsound g ((hsame g).mp hgin)
      refine ⟨h1, ?_⟩
      intro x hx hsid
      rcases (hmem x).mp hx with rfl | hx
      · have := (sameId_iff _ _).mp hsid; simp [probe] at this; omega
      · exact h2 x hx hsid
    · intro s hs hst g hgm
      have ⟨h1, h2⟩ := hg.ssound s hs hst g hgm
      refine ⟨h1, ?_⟩
      intro x hx hsid
      rcases (hmem x).mp hx with rfl | hx
      · have := (sameId_iff _ _).mp hsid; simp [probe] at this
        have := (h.snaps.lt s hs).2; omega
      · exact h2 x hx hsid
    · intro x hx hd
      rcases (hmem x).mp hx with rfl | hx
      · simp [probe] at hd
      · exact hg.exact x hx hd
    · intro g hgin
      obtain ⟨x, hx, hsid⟩ := hg.wpres g ((hsame g).mp hgin)
      exact ⟨x, (hmem x).mpr (Or.inr hx), hsid⟩
    · intro s hs hst g hgm
      obtain ⟨x, hx, hsid⟩ := hg.spres s hs hst g hgm
      exact ⟨x, (hmem x).mpr (Or.inr hx), hsid⟩
  · intro p hp hgone
    rcases h.handles p hp hgone with h1 | ⟨x, hx, hk⟩
    · exact Or.inl h1
    · exact Or.inr ⟨x, (hmem x).mpr (Or.inr hx), hk⟩

theorem inv_put {σ : State} (h : Inv σ) {w : Nat} (k v : Nat) (hw : w < σ.writers.length) :
    Inv (put σ w k v).1 := by
  unfold put
  split
  · exact h
  · rename_i hl; exact inv_put_ok h hw hl

end NitroVerif.Mvcc
