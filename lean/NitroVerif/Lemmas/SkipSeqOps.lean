import NitroVerif.Lemmas.SkipSeqInsertMain
/-!
  Operation-level statements on a quiescent list: `Insert2`, `Lookup`, `Seek`, the full scan.
-/
namespace NitroVerif.SkipSeq
open NitroVerif

theorem insert2_spec {s : SL} {L0 : List Nat} (hr : Rep s L0) (k : Int) (req : Nat) :
    ∃ s' d ok, insert2 s (.item k) req = (s', d, ok) ∧ Ext s s' L0 ∧
      s'.nodes.length = s.nodes.length + 1 ∧
      (k ∈ L0.map (ikey s.nodes) → ok = false ∧ Rep s' L0 ∧ s'.stats.nodeAllocs = s.stats.nodeAllocs) ∧
      (k ∉ L0.map (ikey s.nodes) → ok = true ∧ d = s.nodes.length ∧ keyOf s'.nodes d = .item k ∧
        s'.stats.nodeAllocs = s.stats.nodeAllocs + 1 ∧
        ∃ A B, L0 = A ++ B ∧ (∀ a ∈ A, ikey s.nodes a < k) ∧ (∀ b ∈ B, k < ikey s.nodes b) ∧
          Rep s' (A ++ d :: B)) := by
  have hnl := newLevel_spec s req hr.lvl
  have hr1 := hr.newLevel req
  rcases hs1 : newLevel s req with ⟨s1, ht⟩
  rw [hs1] at hnl hr1
  simp only at hnl hr1
  rcases hnl with ⟨e1, e2, e3, e4, e5, e6, e7, e8⟩
  have hr2 := hr1.newNode (.item k) ht
  have e : insert2 s (.item k) req
      = insert4 (.item k) (newNode s1 (.item k) ht).2 ht ((newNode s1 (.item k) ht).1.nodes.length + 1)
          (newNode s1 (.item k) ht).1 := by
    unfold insert2; rw [hs1]
  rcases hs2 : newNode s1 (.item k) ht with ⟨s2, x⟩
  rw [hs2] at hr2 e
  simp only at hr2 e
  have hx : x = s.nodes.length := by
    have := congrArg Prod.snd hs2; simp [newNode, e1] at this; exact this.symm
  have hn2 : s2.nodes = s.nodes ++ [{ key := .item k, level := ht, next := List.replicate (ht + 1) (nilId, false) }] := by
    have := congrArg Prod.fst hs2; simp [newNode, e1] at this; rw [← this]
  have hl2 : s2.level = s1.level := by
    have := congrArg Prod.fst hs2; simp [newNode] at this; rw [← this]
  have hst2 : s2.stats = s.stats := by
    have := congrArg Prod.fst hs2; simp [newNode] at this; rw [← this, e2]
  have hlen2 : s2.nodes.length = s.nodes.length + 1 := by rw [hn2]; simp
  have hkeyold : ∀ n, n < s.nodes.length → keyOf s2.nodes n = keyOf s.nodes n :=
    fun n hn => by rw [hn2]; exact keyOf_append_old hn
  have hlvlold : ∀ n, n < s.nodes.length → levelOf s2.nodes n = levelOf s.nodes n :=
    fun n hn => by rw [hn2]; exact levelOf_append_old hn
  have hnextold : ∀ n, n < s.nodes.length → ∀ l, getNext s2.nodes n l = getNext s.nodes n l :=
    fun n hn l => by rw [hn2]; exact getNext_append_old hn l
  have hik : ∀ n ∈ L0, ikey s2.nodes n = ikey s.nodes n :=
    fun n hn => ikey_congr (hkeyold n (hr.nodes n hn).hi)
  have hmap : L0.map (ikey s2.nodes) = L0.map (ikey s.nodes) := List.map_congr_left hik
  rw [e]
  by_cases hk : k ∈ L0.map (ikey s.nodes)
  · rcases insert4_hit hr2 (by rw [hmap]; exact hk) x ht s2.nodes.length with ⟨s3, d, he, hsb⟩
    refine ⟨s3, d, false, he, ?_, by rw [hsb.nodes]; exact hlen2, ?_, fun h => absurd hk h⟩
    · refine ⟨by rw [hsb.nodes]; omega, fun n hn => by rw [hsb.nodes]; exact hkeyold n hn,
        fun n hn => by rw [hsb.nodes]; exact hlvlold n hn,
        fun n hn _ _ l => by rw [hsb.nodes]; exact hnextold n hn l⟩
    · intro _
      exact ⟨rfl, hr2.of_sameBut hsb, by rw [hsb.stats, hst2]⟩
  · rcases hr2.split k with ⟨A, B, hAB, hA, hB⟩
    subst hAB
    have hxnot : x ∉ A ++ B := by
      intro hm; have := (hr.nodes x hm).hi; omega
    rcases insert4_miss (x := x) (ht := ht) hr2 hA hB (by rw [hmap]; exact hk) (by rw [hl2]; exact e8)
      (by have := hr.base.len; omega) hxnot (by omega)
      (by rw [hn2, hx]; exact keyOf_append_new _ _) (by rw [hn2, hx]; exact levelOf_append_new _ _)
      (by rw [hn2, hx, nextLen_append_new]; simp) (by have := hr.size; omega) s2.nodes.length
      with ⟨s', he, hrep, hlen, _, hkl, hfr, hal, hBgt⟩
    refine ⟨s', x, true, he, ?_, by rw [hlen]; exact hlen2, fun h => absurd h hk, fun _ => ?_⟩
    · refine ⟨by rw [hlen]; omega, fun n hn => by rw [(hkl n).1]; exact hkeyold n hn,
        fun n hn => by rw [(hkl n).2]; exact hlvlold n hn, ?_⟩
      intro n hn hnot hh l
      rw [hfr n hnot hh (by omega) l]; exact hnextold n hn l
    · refine ⟨rfl, hx, ?_, by rw [hal, hst2], A, B, rfl, ?_, ?_, hrep⟩
      · rw [(hkl x).1, hn2, hx]; exact keyOf_append_new _ _
      · intro a ha; rw [← hik a (List.mem_append_left _ ha)]; exact hA a ha
      · intro b hb; rw [← hik b (List.mem_append_right _ hb)]; exact hBgt b hb

end NitroVerif.SkipSeq
