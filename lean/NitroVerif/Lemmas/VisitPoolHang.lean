import NitroVerif.Lemmas.VisitPool
/-!
  The converse of `progress_sharp`: when more than `cap + c` shards come out of the split and the first `c` of them
  fail, a deadlock state is reachable — every worker takes one shard and leaves, the dispatcher fills the buffer
  and blocks.  A constructed schedule for every `n`, `c`, `cap` (induction, not enumeration).
-/
namespace NitroVerif.VisitPool

theorem run_append {fails : Nat → Bool} {n cap : Nat} (s1 s2 : List Action) (st st1 st2 : State)
    (h1 : run fails n cap st s1 = some st1) (h2 : run fails n cap st1 s2 = some st2) :
    run fails n cap st (s1 ++ s2) = some st2 := by
  induction s1 generalizing st with
  | nil => simp only [run, Option.some.injEq] at h1; subst h1; simpa using h2
  | cons a r ih =>
    simp only [run, List.cons_append] at h1 ⊢
    cases hs : step fails n cap st a with
    | none => rw [hs] at h1; cases h1
    | some s' => rw [hs] at h1; exact ih s' h1

/-- the dispatcher blocked on a full buffer with nobody left to receive: not final, nothing enabled -/
theorem stuck_of {fails : Nat → Bool} {n cap : Nat} {st : State} (h1 : st.next < n) (h2 : cap ≤ st.chan.length)
    (h3 : ∀ w ∈ st.workers, w = .done) : ¬ final n st ∧ ∀ a, step fails n cap st a = none := by
  refine ⟨fun hf => by have := hf.1; omega, ?_⟩
  intro a
  cases a with
  | send =>
    simp only [step]
    rw [if_neg]
    rintro ⟨_, _, h⟩; omega
  | recv w =>
    simp only [step]
    split
    · split
      · rename_i hw
        have := h3 _ (List.mem_of_getElem? hw)
        cases this
      · rfl
    · rfl
  | finish w =>
    simp only [step]
    split
    · rename_i s hw
      have := h3 _ (List.mem_of_getElem? hw)
      cases this
    · rfl
  | close =>
    simp only [step]
    rw [if_neg]
    rintro ⟨h, _⟩; omega
  | exit w =>
    simp only [step]
    rw [if_neg]
    rintro ⟨_, _, hw⟩
    have := h3 _ (List.mem_of_getElem? hw)
    cases this

/-- phase 1: the first `k` workers have each taken one (failing) shard and left -/
theorem phase1 (fails : Nat → Bool) (n c cap : Nat) (hcap1 : 0 < cap) (hfail : ∀ s, s < c → fails s = true)
    (k : Nat) (hkc : k ≤ c) (hkn : k ≤ n) :
    ∃ sched st, run fails n cap (init n c) sched = some st ∧ st.next = k ∧ st.chan = [] ∧ st.closed = false ∧
      st.workers.length = c ∧ (∀ w, w < k → st.workers[w]? = some .done) ∧
      (∀ w, k ≤ w → w < c → st.workers[w]? = some .idle) := by
  induction k with
  | zero =>
    refine ⟨[], init n c, rfl, rfl, rfl, rfl, by simp [init], fun w hw => by omega, ?_⟩
    intro w _ hw
    simp [init, hw]
  | succ k ih =>
    obtain ⟨sched, st, hrun, hnext, hch, hcl, hlen, hdone, hidle⟩ := ih (by omega) (by omega)
    have hs1 : step fails n cap st .send = some { st with next := st.next + 1, chan := st.chan ++ [st.next] } := by
      simp only [step]
      rw [if_pos]
      exact ⟨by omega, hcl, by rw [hch]; exact hcap1⟩
    have hs2 : step fails n cap { st with next := st.next + 1, chan := st.chan ++ [st.next] } (.recv k) =
        some { st with next := st.next + 1, chan := [], workers := st.workers.set k (.busy k) } := by
      simp only [step, hch, List.nil_append, hidle k (Nat.le_refl _) (by omega), if_true, hnext]
    have hs3 : step fails n cap { st with next := st.next + 1, chan := [], workers := st.workers.set k (.busy k) } (.finish k) =
        some { st with next := st.next + 1, chan := [], workers := (st.workers.set k (.busy k)).set k .done, errors := st.errors.set k true, log := st.log ++ [(k, k)] } := by
      have : (st.workers.set k (.busy k))[k]? = some (.busy k) := by
        simp only [List.getElem?_set, if_true]; rw [if_pos (by omega)]
      simp only [step, this, hfail k (by omega), if_true]
    refine ⟨sched ++ [.send, .recv k, .finish k],
      { st with next := st.next + 1, chan := [], workers := (st.workers.set k (.busy k)).set k .done, errors := st.errors.set k true, log := st.log ++ [(k, k)] },
      run_append _ _ _ _ _ hrun ?_, ?_, rfl, hcl, ?_, ?_, ?_⟩
    · simp only [run, hs1, hs2, hs3]
    · simp only; omega
    · simpa using hlen
    · intro w hw
      simp only [List.getElem?_set, List.length_set]
      by_cases hwk : k = w
      · simp only [hwk, if_true]; rw [if_pos (by omega)]
      · simp only [hwk, if_false]; exact hdone w (by omega)
    · intro w hw1 hw2
      simp only [List.getElem?_set, List.length_set]
      have hwk : ¬ k = w := by omega
      simp only [hwk, if_false]; exact hidle w (by omega) hw2

/-- phase 2: with every worker gone the dispatcher goes on sending as long as the buffer has room -/
theorem phase2 (fails : Nat → Bool) (n c cap : Nat) (hcap1 : 0 < cap) (hfail : ∀ s, s < c → fails s = true)
    (hn : cap + c < n) (j : Nat) (hj : j ≤ cap) :
    ∃ sched st, run fails n cap (init n c) sched = some st ∧ st.next = c + j ∧ st.chan.length = j ∧
      st.closed = false ∧ ∀ w ∈ st.workers, w = .done := by
  induction j with
  | zero =>
    obtain ⟨sched, st, hrun, hnext, hch, hcl, hlen, hdone, _⟩ :=
      phase1 fails n c cap hcap1 hfail c (Nat.le_refl _) (by omega)
    refine ⟨sched, st, hrun, hnext, by rw [hch]; rfl, hcl, ?_⟩
    intro x hx
    obtain ⟨w, hw, hget⟩ := List.getElem_of_mem hx
    have := hdone w (by omega)
    rw [List.getElem?_eq_getElem hw, hget] at this
    exact Option.some.inj this
  | succ j ih =>
    obtain ⟨sched, st, hrun, hnext, hch, hcl, hdone⟩ := ih (by omega)
    have hs1 : step fails n cap st .send = some { st with next := st.next + 1, chan := st.chan ++ [st.next] } := by
      simp only [step]
      rw [if_pos]
      exact ⟨by omega, hcl, by omega⟩
    refine ⟨sched ++ [.send], { st with next := st.next + 1, chan := st.chan ++ [st.next] },
      run_append _ _ _ _ _ hrun ?_, ?_, ?_, hcl, hdone⟩
    · simp only [run, hs1]
    · simp only; omega
    · simp only [List.length_append, List.length_cons, List.length_nil]; omega

/-- with a channel of capacity `cap ≥ 1`, `c` workers and more than `cap + c` shards of which the first `c` fail,
    a deadlock is reachable -/
theorem deadlock_reachable (fails : Nat → Bool) (n c cap : Nat) (hcap1 : 0 < cap)
    (hfail : ∀ s, s < c → fails s = true) (hn : cap + c < n) :
    ∃ sched st, run fails n cap (init n c) sched = some st ∧ ¬ final n st ∧
      ∀ a, step fails n cap st a = none := by
  obtain ⟨sched, st, hrun, hnext, hch, _, hdone⟩ := phase2 fails n c cap hcap1 hfail hn cap (Nat.le_refl _)
  exact ⟨sched, st, hrun, stuck_of (by omega) (by omega) hdone⟩

end NitroVerif.VisitPool
