import NitroVerif.Lemmas.BarrierBase
import NitroVerif.Lemmas.BarrierAttr
/-!
  The inductive invariant of M4 (DESIGN.md Appendix A.1, B1–B9, L1, L2), phrased with thread sums.

  Thread sums `cnt f st` used, for a session `s`:
    `unitsT s`          tokens held for `s` + 1 if parked at `relDec s _` (every unit of `liveCount`)
    `realT s`           the same without the transient unit of a backing-off `Acquire` (`relDec s retAcq`)
    `onPc (pcClosed s)` parked at `relClosed s _`      `onPc (pcInsert s)` parked at `relInsert s _`
    `onPc (pcPend s)`   parked at `flTag s _` / `flAdd s`   `onPc (pcProc s)` parked at `clProc s _`
    `refT s`            occurrences of `s` in the program counter and the token list
  and globally `pcTag`, `pcMutex` (inside the mutex region), `pcFlag` (inside the try-lock region),
  `pcResp` (will look at the queue head again), `pcLock`, `pcPast`.
-/
namespace NitroVerif.Barrier
open NitroVerif

def pcUnit (s : Nat) : PC → Nat
  | .relDec s' _ => if s' = s then 1 else 0
  | _ => 0

/-- 0 for the transient unit of a backing-off `Acquire`, 1 for a unit that was a real holder -/
def contReal : Cont → Nat
  | .retAcq => 0
  | _ => 1

def pcReal (s : Nat) : PC → Nat
  | .relDec s' k => if s' = s then contReal k else 0
  | _ => 0

def pcClosed (s : Nat) : PC → Nat
  | .relClosed s' _ => if s' = s then 1 else 0
  | _ => 0

def pcInsert (s : Nat) : PC → Nat
  | .relInsert s' _ => if s' = s then 1 else 0
  | _ => 0

def pcPend (s : Nat) : PC → Nat
  | .flTag s' _ => if s' = s then 1 else 0
  | .flAdd s' => if s' = s then 1 else 0
  | _ => 0

def pcProc (s : Nat) : PC → Nat
  | .clProc s' _ => if s' = s then 1 else 0
  | _ => 0

def pcRef (s : Nat) : PC → Nat
  | .acqAdd s' => if s' = s then 1 else 0
  | .relDec s' _ => if s' = s then 1 else 0
  | .relClosed s' _ => if s' = s then 1 else 0
  | .relInsert s' _ => if s' = s then 1 else 0
  | .clProc s' _ => if s' = s then 1 else 0
  | .flTag s' _ => if s' = s then 1 else 0
  | .flAdd s' => if s' = s then 1 else 0
  | _ => 0

def pcTag : PC → Nat
  | .flTag _ _ => 1
  | _ => 0

def contMutex : Cont → Nat
  | .retFlush => 1
  | _ => 0

/-- inside the mutex region of `FlushSession` (its inlined `Release` included) -/
def pcMutex : PC → Nat
  | .flSwap _ => 1
  | .flTag _ _ => 1
  | .flAdd _ => 1
  | .flUnlock => 1
  | .relDec _ k => contMutex k
  | .relClosed _ k => contMutex k
  | .relInsert _ k => contMutex k
  | .relTryLock k => contMutex k
  | .clRead _ k => contMutex k
  | .clProc _ k => contMutex k
  | .relUnlock k => contMutex k
  | .relRecheck k => contMutex k
  | _ => 0

/-- past FL_TAG inside a `FlushSession` -/
def pcPast : PC → Nat
  | .flAdd _ => 1
  | .flUnlock => 1
  | .relDec _ k => contMutex k
  | .relClosed _ k => contMutex k
  | .relInsert _ k => contMutex k
  | .relTryLock k => contMutex k
  | .clRead _ k => contMutex k
  | .clProc _ k => contMutex k
  | .relUnlock k => contMutex k
  | .relRecheck k => contMutex k
  | _ => 0

def pcLock : PC → Nat
  | .flLock _ => 1
  | _ => 0

/-- holding `isDestructorRunning` -/
def pcFlag : PC → Nat
  | .clRead _ _ => 1
  | .clProc _ _ => 1
  | .relUnlock _ => 1
  | _ => 0

/-- will (re-)examine the queue head before leaving `Release` -/
def pcResp : PC → Nat
  | .relTryLock _ => 1
  | .clRead _ _ => 1
  | .clProc _ _ => 1
  | .relUnlock _ => 1
  | .relRecheck _ => 1
  | _ => 0

/-! value of every counting function at every program counter (generated mechanically; all `rfl`) -/
@[barsimp] theorem pcUnit_idle (s : Nat) : pcUnit s .idle = 0 := rfl
@[barsimp] theorem pcUnit_acqLoad (s : Nat) : pcUnit s .acqLoad = 0 := rfl
@[barsimp] theorem pcUnit_acqAdd (s : Nat) (a : Nat) : pcUnit s (.acqAdd a) = 0 := rfl
@[barsimp] theorem pcUnit_relDec (s : Nat) (a : Nat) (k : Cont) : pcUnit s (.relDec a k) = if a = s then 1 else 0 := rfl
@[barsimp] theorem pcUnit_relClosed (s : Nat) (a : Nat) (k : Cont) : pcUnit s (.relClosed a k) = 0 := rfl
@[barsimp] theorem pcUnit_relInsert (s : Nat) (a : Nat) (k : Cont) : pcUnit s (.relInsert a k) = 0 := rfl
@[barsimp] theorem pcUnit_relTryLock (s : Nat) (k : Cont) : pcUnit s (.relTryLock k) = 0 := rfl
@[barsimp] theorem pcUnit_clRead (s : Nat) (b : Bool) (k : Cont) : pcUnit s (.clRead b k) = 0 := rfl
@[barsimp] theorem pcUnit_clProc (s : Nat) (a : Nat) (k : Cont) : pcUnit s (.clProc a k) = 0 := rfl
@[barsimp] theorem pcUnit_relUnlock (s : Nat) (k : Cont) : pcUnit s (.relUnlock k) = 0 := rfl
@[barsimp] theorem pcUnit_relRecheck (s : Nat) (k : Cont) : pcUnit s (.relRecheck k) = 0 := rfl
@[barsimp] theorem pcUnit_flLock (s : Nat) (o : Nat) : pcUnit s (.flLock o) = 0 := rfl
@[barsimp] theorem pcUnit_flSwap (s : Nat) (o : Nat) : pcUnit s (.flSwap o) = 0 := rfl
@[barsimp] theorem pcUnit_flTag (s : Nat) (a : Nat) (o : Nat) : pcUnit s (.flTag a o) = 0 := rfl
@[barsimp] theorem pcUnit_flAdd (s : Nat) (a : Nat) : pcUnit s (.flAdd a) = 0 := rfl
@[barsimp] theorem pcUnit_flUnlock (s : Nat) : pcUnit s .flUnlock = 0 := rfl
@[barsimp] theorem pcReal_idle (s : Nat) : pcReal s .idle = 0 := rfl
@[barsimp] theorem pcReal_acqLoad (s : Nat) : pcReal s .acqLoad = 0 := rfl
@[barsimp] theorem pcReal_acqAdd (s : Nat) (a : Nat) : pcReal s (.acqAdd a) = 0 := rfl
@[barsimp] theorem pcReal_relDec (s : Nat) (a : Nat) (k : Cont) : pcReal s (.relDec a k) = if a = s then contReal k else 0 := rfl
@[barsimp] theorem pcReal_relClosed (s : Nat) (a : Nat) (k : Cont) : pcReal s (.relClosed a k) = 0 := rfl
@[barsimp] theorem pcReal_relInsert (s : Nat) (a : Nat) (k : Cont) : pcReal s (.relInsert a k) = 0 := rfl
@[barsimp] theorem pcReal_relTryLock (s : Nat) (k : Cont) : pcReal s (.relTryLock k) = 0 := rfl
@[barsimp] theorem pcReal_clRead (s : Nat) (b : Bool) (k : Cont) : pcReal s (.clRead b k) = 0 := rfl
@[barsimp] theorem pcReal_clProc (s : Nat) (a : Nat) (k : Cont) : pcReal s (.clProc a k) = 0 := rfl
@[barsimp] theorem pcReal_relUnlock (s : Nat) (k : Cont) : pcReal s (.relUnlock k) = 0 := rfl
@[barsimp] theorem pcReal_relRecheck (s : Nat) (k : Cont) : pcReal s (.relRecheck k) = 0 := rfl
@[barsimp] theorem pcReal_flLock (s : Nat) (o : Nat) : pcReal s (.flLock o) = 0 := rfl
@[barsimp] theorem pcReal_flSwap (s : Nat) (o : Nat) : pcReal s (.flSwap o) = 0 := rfl
@[barsimp] theorem pcReal_flTag (s : Nat) (a : Nat) (o : Nat) : pcReal s (.flTag a o) = 0 := rfl
@[barsimp] theorem pcReal_flAdd (s : Nat) (a : Nat) : pcReal s (.flAdd a) = 0 := rfl
@[barsimp] theorem pcReal_flUnlock (s : Nat) : pcReal s .flUnlock = 0 := rfl
@[barsimp] theorem pcClosed_idle (s : Nat) : pcClosed s .idle = 0 := rfl
@[barsimp] theorem pcClosed_acqLoad (s : Nat) : pcClosed s .acqLoad = 0 := rfl
@[barsimp] theorem pcClosed_acqAdd (s : Nat) (a : Nat) : pcClosed s (.acqAdd a) = 0 := rfl
@[barsimp] theorem pcClosed_relDec (s : Nat) (a : Nat) (k : Cont) : pcClosed s (.relDec a k) = 0 := rfl
@[barsimp] theorem pcClosed_relClosed (s : Nat) (a : Nat) (k : Cont) : pcClosed s (.relClosed a k) = if a = s then 1 else 0 := rfl
@[barsimp] theorem pcClosed_relInsert (s : Nat) (a : Nat) (k : Cont) : pcClosed s (.relInsert a k) = 0 := rfl
@[barsimp] theorem pcClosed_relTryLock (s : Nat) (k : Cont) : pcClosed s (.relTryLock k) = 0 := rfl
@[barsimp] theorem pcClosed_clRead (s : Nat) (b : Bool) (k : Cont) : pcClosed s (.clRead b k) = 0 := rfl
@[barsimp] theorem pcClosed_clProc (s : Nat) (a : Nat) (k : Cont) : pcClosed s (.clProc a k) = 0 := rfl
@[barsimp] theorem pcClosed_relUnlock (s : Nat) (k : Cont) : pcClosed s (.relUnlock k) = 0 := rfl
@[barsimp] theorem pcClosed_relRecheck (s : Nat) (k : Cont) : pcClosed s (.relRecheck k) = 0 := rfl
@[barsimp] theorem pcClosed_flLock (s : Nat) (o : Nat) : pcClosed s (.flLock o) = 0 := rfl
@[barsimp] theorem pcClosed_flSwap (s : Nat) (o : Nat) : pcClosed s (.flSwap o) = 0 := rfl
@[barsimp] theorem pcClosed_flTag (s : Nat) (a : Nat) (o : Nat) : pcClosed s (.flTag a o) = 0 := rfl
@[barsimp] theorem pcClosed_flAdd (s : Nat) (a : Nat) : pcClosed s (.flAdd a) = 0 := rfl
@[barsimp] theorem pcClosed_flUnlock (s : Nat) : pcClosed s .flUnlock = 0 := rfl
@[barsimp] theorem pcInsert_idle (s : Nat) : pcInsert s .idle = 0 := rfl
@[barsimp] theorem pcInsert_acqLoad (s : Nat) : pcInsert s .acqLoad = 0 := rfl
@[barsimp] theorem pcInsert_acqAdd (s : Nat) (a : Nat) : pcInsert s (.acqAdd a) = 0 := rfl
@[barsimp] theorem pcInsert_relDec (s : Nat) (a : Nat) (k : Cont) : pcInsert s (.relDec a k) = 0 := rfl
@[barsimp] theorem pcInsert_relClosed (s : Nat) (a : Nat) (k : Cont) : pcInsert s (.relClosed a k) = 0 := rfl
@[barsimp] theorem pcInsert_relInsert (s : Nat) (a : Nat) (k : Cont) : pcInsert s (.relInsert a k) = if a = s then 1 else 0 := rfl
@[barsimp] theorem pcInsert_relTryLock (s : Nat) (k : Cont) : pcInsert s (.relTryLock k) = 0 := rfl
@[barsimp] theorem pcInsert_clRead (s : Nat) (b : Bool) (k : Cont) : pcInsert s (.clRead b k) = 0 := rfl
@[barsimp] theorem pcInsert_clProc (s : Nat) (a : Nat) (k : Cont) : pcInsert s (.clProc a k) = 0 := rfl
@[barsimp] theorem pcInsert_relUnlock (s : Nat) (k : Cont) : pcInsert s (.relUnlock k) = 0 := rfl
@[barsimp] theorem pcInsert_relRecheck (s : Nat) (k : Cont) : pcInsert s (.relRecheck k) = 0 := rfl
@[barsimp] theorem pcInsert_flLock (s : Nat) (o : Nat) : pcInsert s (.flLock o) = 0 := rfl
@[barsimp] theorem pcInsert_flSwap (s : Nat) (o : Nat) : pcInsert s (.flSwap o) = 0 := rfl
@[barsimp] theorem pcInsert_flTag (s : Nat) (a : Nat) (o : Nat) : pcInsert s (.flTag a o) = 0 := rfl
@[barsimp] theorem pcInsert_flAdd (s : Nat) (a : Nat) : pcInsert s (.flAdd a) = 0 := rfl
@[barsimp] theorem pcInsert_flUnlock (s : Nat) : pcInsert s .flUnlock = 0 := rfl
@[barsimp] theorem pcPend_idle (s : Nat) : pcPend s .idle = 0 := rfl
@[barsimp] theorem pcPend_acqLoad (s : Nat) : pcPend s .acqLoad = 0 := rfl
@[barsimp] theorem pcPend_acqAdd (s : Nat) (a : Nat) : pcPend s (.acqAdd a) = 0 := rfl
@[barsimp] theorem pcPend_relDec (s : Nat) (a : Nat) (k : Cont) : pcPend s (.relDec a k) = 0 := rfl
@[barsimp] theorem pcPend_relClosed (s : Nat) (a : Nat) (k : Cont) : pcPend s (.relClosed a k) = 0 := rfl
@[barsimp] theorem pcPend_relInsert (s : Nat) (a : Nat) (k : Cont) : pcPend s (.relInsert a k) = 0 := rfl
@[barsimp] theorem pcPend_relTryLock (s : Nat) (k : Cont) : pcPend s (.relTryLock k) = 0 := rfl
@[barsimp] theorem pcPend_clRead (s : Nat) (b : Bool) (k : Cont) : pcPend s (.clRead b k) = 0 := rfl
@[barsimp] theorem pcPend_clProc (s : Nat) (a : Nat) (k : Cont) : pcPend s (.clProc a k) = 0 := rfl
@[barsimp] theorem pcPend_relUnlock (s : Nat) (k : Cont) : pcPend s (.relUnlock k) = 0 := rfl
@[barsimp] theorem pcPend_relRecheck (s : Nat) (k : Cont) : pcPend s (.relRecheck k) = 0 := rfl
@[barsimp] theorem pcPend_flLock (s : Nat) (o : Nat) : pcPend s (.flLock o) = 0 := rfl
@[barsimp] theorem pcPend_flSwap (s : Nat) (o : Nat) : pcPend s (.flSwap o) = 0 := rfl
@[barsimp] theorem pcPend_flTag (s : Nat) (a : Nat) (o : Nat) : pcPend s (.flTag a o) = if a = s then 1 else 0 := rfl
@[barsimp] theorem pcPend_flAdd (s : Nat) (a : Nat) : pcPend s (.flAdd a) = if a = s then 1 else 0 := rfl
@[barsimp] theorem pcPend_flUnlock (s : Nat) : pcPend s .flUnlock = 0 := rfl
@[barsimp] theorem pcProc_idle (s : Nat) : pcProc s .idle = 0 := rfl
@[barsimp] theorem pcProc_acqLoad (s : Nat) : pcProc s .acqLoad = 0 := rfl
@[barsimp] theorem pcProc_acqAdd (s : Nat) (a : Nat) : pcProc s (.acqAdd a) = 0 := rfl
@[barsimp] theorem pcProc_relDec (s : Nat) (a : Nat) (k : Cont) : pcProc s (.relDec a k) = 0 := rfl
@[barsimp] theorem pcProc_relClosed (s : Nat) (a : Nat) (k : Cont) : pcProc s (.relClosed a k) = 0 := rfl
@[barsimp] theorem pcProc_relInsert (s : Nat) (a : Nat) (k : Cont) : pcProc s (.relInsert a k) = 0 := rfl
@[barsimp] theorem pcProc_relTryLock (s : Nat) (k : Cont) : pcProc s (.relTryLock k) = 0 := rfl
@[barsimp] theorem pcProc_clRead (s : Nat) (b : Bool) (k : Cont) : pcProc s (.clRead b k) = 0 := rfl
@[barsimp] theorem pcProc_clProc (s : Nat) (a : Nat) (k : Cont) : pcProc s (.clProc a k) = if a = s then 1 else 0 := rfl
@[barsimp] theorem pcProc_relUnlock (s : Nat) (k : Cont) : pcProc s (.relUnlock k) = 0 := rfl
@[barsimp] theorem pcProc_relRecheck (s : Nat) (k : Cont) : pcProc s (.relRecheck k) = 0 := rfl
@[barsimp] theorem pcProc_flLock (s : Nat) (o : Nat) : pcProc s (.flLock o) = 0 := rfl
@[barsimp] theorem pcProc_flSwap (s : Nat) (o : Nat) : pcProc s (.flSwap o) = 0 := rfl
@[barsimp] theorem pcProc_flTag (s : Nat) (a : Nat) (o : Nat) : pcProc s (.flTag a o) = 0 := rfl
@[barsimp] theorem pcProc_flAdd (s : Nat) (a : Nat) : pcProc s (.flAdd a) = 0 := rfl
@[barsimp] theorem pcProc_flUnlock (s : Nat) : pcProc s .flUnlock = 0 := rfl
@[barsimp] theorem pcRef_idle (s : Nat) : pcRef s .idle = 0 := rfl
@[barsimp] theorem pcRef_acqLoad (s : Nat) : pcRef s .acqLoad = 0 := rfl
@[barsimp] theorem pcRef_acqAdd (s : Nat) (a : Nat) : pcRef s (.acqAdd a) = if a = s then 1 else 0 := rfl
@[barsimp] theorem pcRef_relDec (s : Nat) (a : Nat) (k : Cont) : pcRef s (.relDec a k) = if a = s then 1 else 0 := rfl
@[barsimp] theorem pcRef_relClosed (s : Nat) (a : Nat) (k : Cont) : pcRef s (.relClosed a k) = if a = s then 1 else 0 := rfl
@[barsimp] theorem pcRef_relInsert (s : Nat) (a : Nat) (k : Cont) : pcRef s (.relInsert a k) = if a = s then 1 else 0 := rfl
@[barsimp] theorem pcRef_relTryLock (s : Nat) (k : Cont) : pcRef s (.relTryLock k) = 0 := rfl
@[barsimp] theorem pcRef_clRead (s : Nat) (b : Bool) (k : Cont) : pcRef s (.clRead b k) = 0 := rfl
@[barsimp] theorem pcRef_clProc (s : Nat) (a : Nat) (k : Cont) : pcRef s (.clProc a k) = if a = s then 1 else 0 := rfl
@[barsimp] theorem pcRef_relUnlock (s : Nat) (k : Cont) : pcRef s (.relUnlock k) = 0 := rfl
@[barsimp] theorem pcRef_relRecheck (s : Nat) (k : Cont) : pcRef s (.relRecheck k) = 0 := rfl
@[barsimp] theorem pcRef_flLock (s : Nat) (o : Nat) : pcRef s (.flLock o) = 0 := rfl
@[barsimp] theorem pcRef_flSwap (s : Nat) (o : Nat) : pcRef s (.flSwap o) = 0 := rfl
@[barsimp] theorem pcRef_flTag (s : Nat) (a : Nat) (o : Nat) : pcRef s (.flTag a o) = if a = s then 1 else 0 := rfl
@[barsimp] theorem pcRef_flAdd (s : Nat) (a : Nat) : pcRef s (.flAdd a) = if a = s then 1 else 0 := rfl
@[barsimp] theorem pcRef_flUnlock (s : Nat) : pcRef s .flUnlock = 0 := rfl
@[barsimp] theorem pcTag_idle : pcTag .idle = 0 := rfl
@[barsimp] theorem pcTag_acqLoad : pcTag .acqLoad = 0 := rfl
@[barsimp] theorem pcTag_acqAdd (a : Nat) : pcTag (.acqAdd a) = 0 := rfl
@[barsimp] theorem pcTag_relDec (a : Nat) (k : Cont) : pcTag (.relDec a k) = 0 := rfl
@[barsimp] theorem pcTag_relClosed (a : Nat) (k : Cont) : pcTag (.relClosed a k) = 0 := rfl
@[barsimp] theorem pcTag_relInsert (a : Nat) (k : Cont) : pcTag (.relInsert a k) = 0 := rfl
@[barsimp] theorem pcTag_relTryLock (k : Cont) : pcTag (.relTryLock k) = 0 := rfl
@[barsimp] theorem pcTag_clRead (b : Bool) (k : Cont) : pcTag (.clRead b k) = 0 := rfl
@[barsimp] theorem pcTag_clProc (a : Nat) (k : Cont) : pcTag (.clProc a k) = 0 := rfl
@[barsimp] theorem pcTag_relUnlock (k : Cont) : pcTag (.relUnlock k) = 0 := rfl
@[barsimp] theorem pcTag_relRecheck (k : Cont) : pcTag (.relRecheck k) = 0 := rfl
@[barsimp] theorem pcTag_flLock (o : Nat) : pcTag (.flLock o) = 0 := rfl
@[barsimp] theorem pcTag_flSwap (o : Nat) : pcTag (.flSwap o) = 0 := rfl
@[barsimp] theorem pcTag_flTag (a : Nat) (o : Nat) : pcTag (.flTag a o) = 1 := rfl
@[barsimp] theorem pcTag_flAdd (a : Nat) : pcTag (.flAdd a) = 0 := rfl
@[barsimp] theorem pcTag_flUnlock : pcTag .flUnlock = 0 := rfl
@[barsimp] theorem pcMutex_idle : pcMutex .idle = 0 := rfl
@[barsimp] theorem pcMutex_acqLoad : pcMutex .acqLoad = 0 := rfl
@[barsimp] theorem pcMutex_acqAdd (a : Nat) : pcMutex (.acqAdd a) = 0 := rfl
@[barsimp] theorem pcMutex_relDec (a : Nat) (k : Cont) : pcMutex (.relDec a k) = contMutex k := rfl
@[barsimp] theorem pcMutex_relClosed (a : Nat) (k : Cont) : pcMutex (.relClosed a k) = contMutex k := rfl
@[barsimp] theorem pcMutex_relInsert (a : Nat) (k : Cont) : pcMutex (.relInsert a k) = contMutex k := rfl
@[barsimp] theorem pcMutex_relTryLock (k : Cont) : pcMutex (.relTryLock k) = contMutex k := rfl
@[barsimp] theorem pcMutex_clRead (b : Bool) (k : Cont) : pcMutex (.clRead b k) = contMutex k := rfl
@[barsimp] theorem pcMutex_clProc (a : Nat) (k : Cont) : pcMutex (.clProc a k) = contMutex k := rfl
@[barsimp] theorem pcMutex_relUnlock (k : Cont) : pcMutex (.relUnlock k) = contMutex k := rfl
@[barsimp] theorem pcMutex_relRecheck (k : Cont) : pcMutex (.relRecheck k) = contMutex k := rfl
@[barsimp] theorem pcMutex_flLock (o : Nat) : pcMutex (.flLock o) = 0 := rfl
@[barsimp] theorem pcMutex_flSwap (o : Nat) : pcMutex (.flSwap o) = 1 := rfl
@[barsimp] theorem pcMutex_flTag (a : Nat) (o : Nat) : pcMutex (.flTag a o) = 1 := rfl
@[barsimp] theorem pcMutex_flAdd (a : Nat) : pcMutex (.flAdd a) = 1 := rfl
@[barsimp] theorem pcMutex_flUnlock : pcMutex .flUnlock = 1 := rfl
@[barsimp] theorem pcPast_idle : pcPast .idle = 0 := rfl
@[barsimp] theorem pcPast_acqLoad : pcPast .acqLoad = 0 := rfl
@[barsimp] theorem pcPast_acqAdd (a : Nat) : pcPast (.acqAdd a) = 0 := rfl
@[barsimp] theorem pcPast_relDec (a : Nat) (k : Cont) : pcPast (.relDec a k) = contMutex k := rfl
@[barsimp] theorem pcPast_relClosed (a : Nat) (k : Cont) : pcPast (.relClosed a k) = contMutex k := rfl
@[barsimp] theorem pcPast_relInsert (a : Nat) (k : Cont) : pcPast (.relInsert a k) = contMutex k := rfl
@[barsimp] theorem pcPast_relTryLock (k : Cont) : pcPast (.relTryLock k) = contMutex k := rfl
@[barsimp] theorem pcPast_clRead (b : Bool) (k : Cont) : pcPast (.clRead b k) = contMutex k := rfl
@[barsimp] theorem pcPast_clProc (a : Nat) (k : Cont) : pcPast (.clProc a k) = contMutex k := rfl
@[barsimp] theorem pcPast_relUnlock (k : Cont) : pcPast (.relUnlock k) = contMutex k := rfl
@[barsimp] theorem pcPast_relRecheck (k : Cont) : pcPast (.relRecheck k) = contMutex k := rfl
@[barsimp] theorem pcPast_flLock (o : Nat) : pcPast (.flLock o) = 0 := rfl
@[barsimp] theorem pcPast_flSwap (o : Nat) : pcPast (.flSwap o) = 0 := rfl
@[barsimp] theorem pcPast_flTag (a : Nat) (o : Nat) : pcPast (.flTag a o) = 0 := rfl
@[barsimp] theorem pcPast_flAdd (a : Nat) : pcPast (.flAdd a) = 1 := rfl
@[barsimp] theorem pcPast_flUnlock : pcPast .flUnlock = 1 := rfl
@[barsimp] theorem pcLock_idle : pcLock .idle = 0 := rfl
@[barsimp] theorem pcLock_acqLoad : pcLock .acqLoad = 0 := rfl
@[barsimp] theorem pcLock_acqAdd (a : Nat) : pcLock (.acqAdd a) = 0 := rfl
@[barsimp] theorem pcLock_relDec (a : Nat) (k : Cont) : pcLock (.relDec a k) = 0 := rfl
@[barsimp] theorem pcLock_relClosed (a : Nat) (k : Cont) : pcLock (.relClosed a k) = 0 := rfl
@[barsimp] theorem pcLock_relInsert (a : Nat) (k : Cont) : pcLock (.relInsert a k) = 0 := rfl
@[barsimp] theorem pcLock_relTryLock (k : Cont) : pcLock (.relTryLock k) = 0 := rfl
@[barsimp] theorem pcLock_clRead (b : Bool) (k : Cont) : pcLock (.clRead b k) = 0 := rfl
@[barsimp] theorem pcLock_clProc (a : Nat) (k : Cont) : pcLock (.clProc a k) = 0 := rfl
@[barsimp] theorem pcLock_relUnlock (k : Cont) : pcLock (.relUnlock k) = 0 := rfl
@[barsimp] theorem pcLock_relRecheck (k : Cont) : pcLock (.relRecheck k) = 0 := rfl
@[barsimp] theorem pcLock_flLock (o : Nat) : pcLock (.flLock o) = 1 := rfl
@[barsimp] theorem pcLock_flSwap (o : Nat) : pcLock (.flSwap o) = 0 := rfl
@[barsimp] theorem pcLock_flTag (a : Nat) (o : Nat) : pcLock (.flTag a o) = 0 := rfl
@[barsimp] theorem pcLock_flAdd (a : Nat) : pcLock (.flAdd a) = 0 := rfl
@[barsimp] theorem pcLock_flUnlock : pcLock .flUnlock = 0 := rfl
@[barsimp] theorem pcFlag_idle : pcFlag .idle = 0 := rfl
@[barsimp] theorem pcFlag_acqLoad : pcFlag .acqLoad = 0 := rfl
@[barsimp] theorem pcFlag_acqAdd (a : Nat) : pcFlag (.acqAdd a) = 0 := rfl
@[barsimp] theorem pcFlag_relDec (a : Nat) (k : Cont) : pcFlag (.relDec a k) = 0 := rfl
@[barsimp] theorem pcFlag_relClosed (a : Nat) (k : Cont) : pcFlag (.relClosed a k) = 0 := rfl
@[barsimp] theorem pcFlag_relInsert (a : Nat) (k : Cont) : pcFlag (.relInsert a k) = 0 := rfl
@[barsimp] theorem pcFlag_relTryLock (k : Cont) : pcFlag (.relTryLock k) = 0 := rfl
@[barsimp] theorem pcFlag_clRead (b : Bool) (k : Cont) : pcFlag (.clRead b k) = 1 := rfl
@[barsimp] theorem pcFlag_clProc (a : Nat) (k : Cont) : pcFlag (.clProc a k) = 1 := rfl
@[barsimp] theorem pcFlag_relUnlock (k : Cont) : pcFlag (.relUnlock k) = 1 := rfl
@[barsimp] theorem pcFlag_relRecheck (k : Cont) : pcFlag (.relRecheck k) = 0 := rfl
@[barsimp] theorem pcFlag_flLock (o : Nat) : pcFlag (.flLock o) = 0 := rfl
@[barsimp] theorem pcFlag_flSwap (o : Nat) : pcFlag (.flSwap o) = 0 := rfl
@[barsimp] theorem pcFlag_flTag (a : Nat) (o : Nat) : pcFlag (.flTag a o) = 0 := rfl
@[barsimp] theorem pcFlag_flAdd (a : Nat) : pcFlag (.flAdd a) = 0 := rfl
@[barsimp] theorem pcFlag_flUnlock : pcFlag .flUnlock = 0 := rfl
@[barsimp] theorem pcResp_idle : pcResp .idle = 0 := rfl
@[barsimp] theorem pcResp_acqLoad : pcResp .acqLoad = 0 := rfl
@[barsimp] theorem pcResp_acqAdd (a : Nat) : pcResp (.acqAdd a) = 0 := rfl
@[barsimp] theorem pcResp_relDec (a : Nat) (k : Cont) : pcResp (.relDec a k) = 0 := rfl
@[barsimp] theorem pcResp_relClosed (a : Nat) (k : Cont) : pcResp (.relClosed a k) = 0 := rfl
@[barsimp] theorem pcResp_relInsert (a : Nat) (k : Cont) : pcResp (.relInsert a k) = 0 := rfl
@[barsimp] theorem pcResp_relTryLock (k : Cont) : pcResp (.relTryLock k) = 1 := rfl
@[barsimp] theorem pcResp_clRead (b : Bool) (k : Cont) : pcResp (.clRead b k) = 1 := rfl
@[barsimp] theorem pcResp_clProc (a : Nat) (k : Cont) : pcResp (.clProc a k) = 1 := rfl
@[barsimp] theorem pcResp_relUnlock (k : Cont) : pcResp (.relUnlock k) = 1 := rfl
@[barsimp] theorem pcResp_relRecheck (k : Cont) : pcResp (.relRecheck k) = 1 := rfl
@[barsimp] theorem pcResp_flLock (o : Nat) : pcResp (.flLock o) = 0 := rfl
@[barsimp] theorem pcResp_flSwap (o : Nat) : pcResp (.flSwap o) = 0 := rfl
@[barsimp] theorem pcResp_flTag (a : Nat) (o : Nat) : pcResp (.flTag a o) = 0 := rfl
@[barsimp] theorem pcResp_flAdd (a : Nat) : pcResp (.flAdd a) = 0 := rfl
@[barsimp] theorem pcResp_flUnlock : pcResp .flUnlock = 0 := rfl

@[barsimp] def unitsT (s : Nat) (t : Th) : Nat := t.toks.count s + pcUnit s t.pc
@[barsimp] def realT (s : Nat) (t : Th) : Nat := t.toks.count s + pcReal s t.pc
@[barsimp] def refT (s : Nat) (t : Th) : Nat := t.toks.count s + pcRef s t.pc
/-- a function of the program counter only -/
@[barsimp] def onPc (g : PC → Nat) (t : Th) : Nat := g t.pc


theorem contReal_le (k : Cont) : contReal k ≤ 1 := by cases k <;> simp [contReal]
theorem contMutex_le (k : Cont) : contMutex k ≤ 1 := by cases k <;> simp [contMutex]
@[barsimp] theorem contReal_retAcq : contReal .retAcq = 0 := rfl
@[barsimp] theorem contReal_retRel : contReal .retRel = 1 := rfl
@[barsimp] theorem contReal_retFlush : contReal .retFlush = 1 := rfl
@[barsimp] theorem contMutex_retAcq : contMutex .retAcq = 0 := rfl
@[barsimp] theorem contMutex_retRel : contMutex .retRel = 0 := rfl
@[barsimp] theorem contMutex_retFlush : contMutex .retFlush = 1 := rfl

/-! the point a `Release` continues at is outside `Release`; it is inside the mutex region iff the
    `Release` was the one inlined in `FlushSession` -/
@[barsimp] theorem pcUnit_after (s : Nat) (k : Cont) : pcUnit s (afterCont k) = 0 := by cases k <;> rfl
@[barsimp] theorem pcReal_after (s : Nat) (k : Cont) : pcReal s (afterCont k) = 0 := by cases k <;> rfl
@[barsimp] theorem pcClosed_after (s : Nat) (k : Cont) : pcClosed s (afterCont k) = 0 := by cases k <;> rfl
@[barsimp] theorem pcInsert_after (s : Nat) (k : Cont) : pcInsert s (afterCont k) = 0 := by cases k <;> rfl
@[barsimp] theorem pcPend_after (s : Nat) (k : Cont) : pcPend s (afterCont k) = 0 := by cases k <;> rfl
@[barsimp] theorem pcProc_after (s : Nat) (k : Cont) : pcProc s (afterCont k) = 0 := by cases k <;> rfl
@[barsimp] theorem pcRef_after (s : Nat) (k : Cont) : pcRef s (afterCont k) = 0 := by cases k <;> rfl
@[barsimp] theorem pcTag_after (k : Cont) : pcTag (afterCont k) = 0 := by cases k <;> rfl
@[barsimp] theorem pcLock_after (k : Cont) : pcLock (afterCont k) = 0 := by cases k <;> rfl
@[barsimp] theorem pcFlag_after (k : Cont) : pcFlag (afterCont k) = 0 := by cases k <;> rfl
@[barsimp] theorem pcResp_after (k : Cont) : pcResp (afterCont k) = 0 := by cases k <;> rfl
@[barsimp] theorem pcMutex_after (k : Cont) : pcMutex (afterCont k) = contMutex k := by cases k <;> rfl
@[barsimp] theorem pcPast_after (k : Cont) : pcPast (afterCont k) = contMutex k := by cases k <;> rfl

/-- `barrierFlushOffset` as a literal (so that `omega` can compute with it; `off_val`) -/
abbrev off : Int := 1073741823

/-- The invariant.  Booleans appear as `b2n b` (0/1) so that `omega` can chain the clauses. -/
structure Inv (st : St) : Prop where
  /-- B3: ids in use are allocated; `cur` is the last session -/
  range : ∀ s, st.sess.length ≤ s → cnt (refT s) st = 0
  curlen : st.cur + 1 = st.sess.length
  /-- B1 -/
  count : ∀ s, s < st.sess.length →
    (getS st s).live = (cnt (unitsT s) st : Int) + (b2n (getS st s).flushed : Int) * 1073741823
  /-- B2 (regime) -/
  bound : ∀ s, b2n (getS st s).flushed = 0 → (getS st s).live < 1073741823
  /-- B3: the only unflushed sessions are `cur` and the one the mutex holder is closing -/
  pend : ∀ s, s < st.sess.length →
    (s = st.cur → b2n (getS st s).flushed = 0 ∧ cnt (onPc (pcPend s)) st = 0) ∧
    (s ≠ st.cur → b2n (getS st s).flushed + cnt (onPc (pcPend s)) st = 1)
  pendcur : ∀ s, cnt (onPc (pcPend s)) st = 0 ∨ s + 1 = st.cur
  /-- B8 -/
  mutex : b2n st.mutex = cnt (onPc pcMutex) st
  flag : b2n st.flag = cnt (onPc pcFlag) st
  /-- B5 -/
  active : st.activeSeqno + cnt (onPc pcTag) st = st.cur
  tagged : st.tagged.length = st.activeSeqno
  numbering : ∀ s, s < st.activeSeqno →
    (getS st s).seqno = s + 1 ∧ st.tagged[s]? = some (getS st s).obj
  flushedlt : ∀ s, b2n (getS st s).flushed = 1 → s < st.activeSeqno
  /-- B4 -/
  closed : ∀ s, (1 ≤ (getS st s).closed ∨ 1 ≤ cnt (onPc (pcClosed s)) st) →
    b2n (getS st s).flushed = 1 ∧ cnt (realT s) st = 0
  /-- B6: a terminated session is in exactly one place -/
  place : ∀ s,
    ((getS st s).closed = 0 →
      cnt (onPc (pcInsert s)) st = 0 ∧ st.freeq.count s = 0 ∧ st.freeSeqno ≤ s) ∧
    (1 ≤ (getS st s).closed →
      (s < st.freeSeqno → cnt (onPc (pcInsert s)) st = 0 ∧ st.freeq.count s = 0) ∧
      (st.freeSeqno ≤ s → cnt (onPc (pcInsert s)) st + st.freeq.count s = 1))
  sorted : st.freeq.Pairwise (· < ·)
  /-- B7 -/
  logseq : st.log.map Prod.fst = List.range' 1 st.freeSeqno
  logobj : st.log.map Prod.snd = st.tagged.take st.freeSeqno
  /-- the thread at CL_PROC works on the queue head, which is the next in order -/
  proc : ∀ s, 1 ≤ cnt (onPc (pcProc s)) st → st.freeq.head? = some s ∧ s = st.freeSeqno
  /-- B9 -/
  nopanic : st.panicked = false
  /-- statistics and ghost counters -/
  stats : st.numAllocated = st.activeSeqno + 1 ∧ st.numFreed = st.freeSeqno
  calls : st.flStarted = st.flDone + cnt (onPc pcLock) st + cnt (onPc pcMutex) st ∧
    st.activeSeqno = st.flDone + cnt (onPc pcPast) st
  /-- L1 -/
  last : ∀ s, b2n (getS st s).flushed = 1 → cnt (unitsT s) st = 0 →
    1 ≤ (getS st s).closed ∨ 1 ≤ cnt (onPc (pcClosed s)) st

/-- L2, for the fixed protocol only -/
def Resp (st : St) : Prop :=
  ∀ s, st.freeq.head? = some s → s = st.freeSeqno → 1 ≤ cnt (onPc pcResp) st

end NitroVerif.Barrier
