import NitroVerif.Model.Backup
import NitroVerif.Lemmas.BackupGen
import NitroVerif.Lemmas.Codec
import NitroVerif.Lemmas.CodecPrefix
import Std.Data.String.ToNat
/-!
  Lemmas about the backup model (M7): file lookup by shard name, `openAll`/`readShards` as
  "all entries are `some`", the reader on intact / truncated shard files, and the shape of `load`
  on an image whose manifests list `shard-0 … shard-(n-1)`.
-/
namespace NitroVerif.Backup
open NitroVerif NitroVerif.Codec NitroVerif.Backup.GenLemmas

/-! ### lists of options -/

def allSome {α : Type} : List (Option α) → Option (List α)
  | [] => some []
  | none :: _ => none
  | some a :: r =>
    match allSome r with
    | none => none
    | some l => some (a :: l)

theorem allSome_eq_some_iff {α : Type} (l : List (Option α)) (r : List α) :
    allSome l = some r ↔ l = r.map some := by
  induction l generalizing r with
  | nil => cases r <;> simp [allSome]
  | cons a t ih =>
    cases a with
    | none => cases r <;> simp [allSome]
    | some a =>
      cases hr : allSome t with
      | none =>
        simp only [allSome, hr]
        cases r with
        | nil => simp
        | cons b r' =>
          simp only [List.map_cons, List.cons.injEq, Option.some.injEq]
          constructor
          · intro h; cases h
          · rintro ⟨_, h⟩
            have := (ih r').2 h
            rw [hr] at this; cases this
      | some l' =>
        simp only [allSome, hr]
        have := (ih l').1 hr
        subst this
        cases r with
        | nil => simp
        | cons b r' =>
          simp only [List.map_cons, List.cons.injEq, Option.some.injEq]
          constructor
          · rintro ⟨rfl, rfl⟩; exact ⟨rfl, rfl⟩
          · rintro ⟨rfl, h⟩
            have := (ih r').2 h
            rw [hr] at this
            cases this
            exact ⟨rfl, rfl⟩

theorem allSome_eq_none_iff {α : Type} (l : List (Option α)) : allSome l = none ↔ none ∈ l := by
  induction l with
  | nil => simp [allSome]
  | cons a t ih =>
    cases a with
    | none => simp [allSome]
    | some a =>
      cases hr : allSome t with
      | none => simp [allSome, hr, ih.1 hr]
      | some l' =>
        simp only [allSome, hr]
        have : ¬ none ∈ t := fun h => by rw [ih.2 h] at hr; cases hr
        simp [this]

theorem allSome_map_some {α : Type} (r : List α) : allSome (r.map some) = some r :=
  (allSome_eq_some_iff _ _).2 rfl

/-- index-wise reading of `allSome (zs.map f) = some l` -/
theorem allSome_map_inv {α β : Type} (f : α → Option β) (zs : List α) (l : List β)
    (h : allSome (zs.map f) = some l) :
    l.length = zs.length ∧ ∀ i (hz : i < zs.length) (hl : i < l.length), f zs[i] = some l[i] := by
  have he := (allSome_eq_some_iff _ _).1 h
  have hlen : l.length = zs.length := by
    have := congrArg List.length he
    simpa using this.symm
  refine ⟨hlen, fun i hz hl => ?_⟩
  have := congrArg (fun x => x[i]?) he
  simpa [hz, hl] using this

theorem range_map_getElem? {α : Type} (cs : List α) :
    (List.range cs.length).map (fun i => cs[i]?) = cs.map some := by
  apply List.ext_getElem?
  intro i
  by_cases hi : i < cs.length
  · simp [hi]
  · simp [hi]

/-! ### shard names and file lookup -/

theorem shardName_inj {i j : Nat} (h : shardName i = shardName j) : i = j := by
  unfold shardName at h
  exact Nat.repr_injective ((String.append_right_inj _).1 h)

theorem shardFiles_eq (k : Nat) (parts : List (List Bytes)) :
    shardFiles k parts = filesOf k (parts.map writeFile) := rfl

theorem lookup_filesOf_lt (k j : Nat) (cs : List Bytes) (h : j < k) :
    lookup (shardName j) (filesOf k cs) = none := by
  induction cs generalizing k with
  | nil => rfl
  | cons c r ih =>
    simp only [filesOf, lookup]
    rw [if_neg (fun he => by have := shardName_inj he; omega)]
    exact ih (k + 1) (by omega)

theorem lookup_filesOf (k i : Nat) (cs : List Bytes) :
    lookup (shardName (k + i)) (filesOf k cs) = cs[i]? := by
  induction cs generalizing k i with
  | nil => rfl
  | cons c r ih =>
    simp only [filesOf, lookup]
    cases i with
    | zero => simp
    | succ i =>
      rw [if_neg (fun he => by have := shardName_inj he; omega)]
      have : k + (i + 1) = (k + 1) + i := by omega
      rw [this, ih]
      simp

theorem lookup_filesOf_zero (i : Nat) (cs : List Bytes) :
    lookup (shardName i) (filesOf 0 cs) = cs[i]? := by
  simpa using lookup_filesOf 0 i cs

theorem lookup_filesOf_some {name : String} {k : Nat} {cs : List Bytes} {b : Bytes}
    (h : lookup name (filesOf k cs) = some b) : ∃ i, name = shardName (k + i) ∧ cs[i]? = some b := by
  induction cs generalizing k with
  | nil => simp [filesOf, lookup] at h
  | cons c r ih =>
    simp only [filesOf, lookup] at h
    split at h
    · rename_i hn
      exact ⟨0, hn.symm, by simpa using h⟩
    · obtain ⟨i, hn, hb⟩ := ih h
      exact ⟨i + 1, by rw [hn]; congr 1; omega, by simpa using hb⟩

/-! ### `openAll` -/

theorem openAll_eq (fs : List (String × Bytes)) (names : List String) :
    openAll fs names = allSome (names.map (fun n => lookup n fs)) := by
  induction names with
  | nil => rfl
  | cons n r ih =>
    simp only [openAll, List.map_cons]
    cases hl : lookup n fs with
    | none => simp [allSome]
    | some b =>
      simp only [allSome, ih]
      cases allSome (List.map (fun n => lookup n fs) r) <;> rfl

/-- `openAll` sees the directory only through `lookup` of the listed names -/
theorem openAll_congr {fs fs' : List (String × Bytes)} {names : List String}
    (h : ∀ n ∈ names, lookup n fs = lookup n fs') : openAll fs names = openAll fs' names := by
  rw [openAll_eq, openAll_eq]
  congr 1
  exact List.map_congr_left h

theorem openAll_shardNames (fs : List (String × Bytes)) (cs : List Bytes)
    (h : ∀ i, i < cs.length → lookup (shardName i) fs = cs[i]?) :
    openAll fs (shardNames cs.length) = some cs := by
  rw [openAll_eq, allSome_eq_some_iff, shardNames, List.map_map, ← range_map_getElem?]
  apply List.map_congr_left
  intro i hi
  exact h i (List.mem_range.1 hi)

/-- a listed file that does not exist: LoadFromDisk fails at `r.Open` -/
theorem openAll_missing {fs : List (String × Bytes)} {names : List String} {n : String}
    (hn : n ∈ names) (hl : lookup n fs = none) : openAll fs names = none := by
  rw [openAll_eq, allSome_eq_none_iff]
  exact List.mem_map.2 ⟨n, hn, hl⟩

theorem mem_shardNames {n i : Nat} (h : i < n) : shardName i ∈ shardNames n :=
  List.mem_map.2 ⟨i, List.mem_range.2 h, rfl⟩

@[simp] theorem length_shardNames (n : Nat) : (shardNames n).length = n := by
  simp [shardNames]

/-! ### the reader: format version, intact files, truncated files -/

theorem lenWidth_of_ne_zero {ver : Nat} (hv : ver ≠ 0) : lenWidth ver = lenWidth 1 := by
  simp [lenWidth, hv]

theorem decodeItem_ver {ver : Nat} (hv : ver ≠ 0) (bs : Bytes) : decodeItem ver bs = decodeItem 1 bs := by
  unfold decodeItem
  rw [lenWidth_of_ne_zero hv]

theorem readLoop_ver (h : Bytes → Nat) {ver : Nat} (hv : ver ≠ 0) (fuel : Nat) (bs : Bytes)
    (acc : List Bytes) (s : Nat) : readLoop h ver fuel bs acc s = readLoop h 1 fuel bs acc s := by
  induction fuel generalizing bs acc s with
  | zero => rfl
  | succ n ih =>
    unfold readLoop
    rw [decodeItem_ver hv]
    cases decodeItem 1 bs <;> simp [ih]

/-- every non-zero version selects the 4-byte framing (`if ver == 0 … else …` in DecodeItem) -/
theorem readFile_ver (h : Bytes → Nat) {ver : Nat} (hv : ver ≠ 0) (bs : Bytes) :
    readFile h ver bs = readFile h 1 bs := by
  unfold readFile
  exact readLoop_ver h hv _ _ _ _

/-- items a writer can have been given: non-empty, shorter than 2^32 bytes -/
def ValidItems (items : List Bytes) : Prop := ∀ d ∈ items, 0 < d.length ∧ d.length < 2 ^ 32

instance (items : List Bytes) : Decidable (ValidItems items) := by
  unfold ValidItems; infer_instance

theorem validItems_of_flatten {parts : List (List Bytes)} (h : ValidItems parts.flatten)
    {p : List Bytes} (hp : p ∈ parts) : ValidItems p :=
  fun d hd => h d (List.mem_flatten.2 ⟨p, hp, hd⟩)

/-- outcome of one shard: decode, then the checksum test -/
def shardResult (h : Bytes → Nat) (ver : Nat) (mm : Nat → Nat → Bool) (z : Nat × Bytes) :
    Option (List Bytes) :=
  match readFile h ver z.2 with
  | .err _ => none
  | .ok items sum _ => if mm z.1 sum then none else some items

theorem readShards_eq (h : Bytes → Nat) (ver : Nat) (mm : Nat → Nat → Bool) (zs : List (Nat × Bytes)) :
    readShards h ver mm zs = allSome (zs.map (shardResult h ver mm)) := by
  induction zs with
  | nil => rfl
  | cons z r ih =>
    obtain ⟨s, b⟩ := z
    simp only [readShards, List.map_cons, shardResult]
    cases hr : readFile h ver b with
    | err before => simp [allSome]
    | ok items sum rest =>
      simp only
      by_cases hm : mm s sum = true
      · simp [hm, allSome]
      · simp only [hm, Bool.false_eq_true, if_false, allSome, ih]
        cases allSome (List.map (shardResult h ver mm) r) <;> rfl

/-- an intact shard file (possibly followed by bytes nobody reads) whose stored checksum passes -/
theorem shardResult_written (h : Bytes → Nat) {ver : Nat} (hv : ver ≠ 0) (mm : Nat → Nat → Bool)
    (s : Nat) (part : List Bytes) (hp : ValidItems part) (rest : Bytes)
    (hm : mm s (writerChecksum h part) = false) :
    shardResult h ver mm (s, writeFile part ++ rest) = some part := by
  unfold shardResult
  simp only
  rw [readFile_ver h hv, Props_roundtrip h part hp rest]
  simp [hm]
where
  Props_roundtrip (h : Bytes → Nat) (items : List Bytes) (hit : ValidItems items) (rest : Bytes) :
      readFile h 1 (writeFile items ++ rest) = .ok items (writerChecksum h items) rest := by
    rw [writeFile_eq_frames, writerChecksum_eq]
    exact readFile_framed h lenWidth_one items (fun d hd => by have := hit d hd; omega) rest

/-- an intact shard file whose stored checksum does NOT pass -/
theorem shardResult_written_mismatch (h : Bytes → Nat) {ver : Nat} (hv : ver ≠ 0) (mm : Nat → Nat → Bool)
    (s : Nat) (part : List Bytes) (hp : ValidItems part) (rest : Bytes)
    (hm : mm s (writerChecksum h part) = true) :
    shardResult h ver mm (s, writeFile part ++ rest) = none := by
  unfold shardResult
  simp only
  rw [readFile_ver h hv, shardResult_written.Props_roundtrip h part hp rest]
  simp [hm]

/-- a shard file cut anywhere before its end: the reader fails, whatever the checksums say -/
theorem shardResult_truncated (h : Bytes → Nat) {ver : Nat} (hv : ver ≠ 0) (mm : Nat → Nat → Bool)
    (s : Nat) (part : List Bytes) (hp : ValidItems part) (p : Bytes)
    (hpre : p <+: writeFile part) (hne : p ≠ writeFile part) :
    shardResult h ver mm (s, p) = none := by
  obtain ⟨before, hr⟩ := decode_proper_prefix_errors h part hp p hpre hne
  unfold shardResult
  simp only
  rw [readFile_ver h hv, hr]

/-! ### `loadShards` on a directory listing `shard-0 … shard-(n-1)` -/

/-- what `loadShards` computes when the listed files are `shard-i ↦ cs[i]` -/
theorem loadShards_canonical (h : Bytes → Nat) (ver : Nat) (mm : Bool → Nat → Nat → Bool)
    (sums : Manifest (List Nat)) (fs : List (String × Bytes)) (cs : List Bytes)
    (hfs : ∀ i, i < cs.length → lookup (shardName i) fs = cs[i]?) :
    loadShards h ver mm (shardNames cs.length) sums fs =
      match sumsOf sums cs.length with
      | none => none
      | some (has, ss) => allSome ((ss.zip cs).map (shardResult h ver (mm has))) := by
  unfold loadShards
  rw [length_shardNames, openAll_shardNames fs cs hfs]
  cases sumsOf sums cs.length with
  | none => rfl
  | some p => obtain ⟨has, ss⟩ := p; simp only [readShards_eq]

/-- one failing shard makes the whole load fail -/
theorem allSome_zip_none (f : Nat × Bytes → Option (List Bytes)) (ss : List Nat) (cs : List Bytes)
    (hlen : ss.length = cs.length) (i : Nat) (hi : i < cs.length)
    (hf : f (ss[i]'(by omega), cs[i]) = none) : allSome ((ss.zip cs).map f) = none := by
  rw [allSome_eq_none_iff]
  refine List.mem_map.2 ⟨(ss[i]'(by omega), cs[i]), ?_, hf⟩
  have : (ss.zip cs)[i]'(by simp; omega) = (ss[i]'(by omega), cs[i]) := by simp
  rw [← this]
  exact List.getElem_mem _

theorem sumsOf_length {m : Manifest (List Nat)} {n : Nat} {has : Bool} {ss : List Nat}
    (h : sumsOf m n = some (has, ss)) : ss.length = n := by
  unfold sumsOf at h
  cases m with
  | absent => simp at h; rw [← h.2]; simp
  | unparsable => simp at h
  | parsed cs =>
    simp only at h
    split at h
    · cases h
    · rename_i hl
      simp at h
      rw [← h.2]; simpa using hl

/-- every shard intact and every stored checksum passing: the shards' item lists come back -/
theorem allSome_written (h : Bytes → Nat) {ver : Nat} (hv : ver ≠ 0) (mm : Nat → Nat → Bool)
    (ss : List Nat) (parts : List (List Bytes)) (hval : ValidItems parts.flatten)
    (hlen : ss.length = parts.length)
    (hm : ∀ i (h1 : i < ss.length) (h2 : i < parts.length), mm ss[i] (writerChecksum h parts[i]) = false) :
    allSome ((ss.zip (parts.map writeFile)).map (shardResult h ver mm)) = some parts := by
  rw [allSome_eq_some_iff]
  apply List.ext_getElem
  · simp [hlen]
  · intro i h1 h2
    have hi : i < parts.length := by simpa using h2
    have hs : i < ss.length := by omega
    have := shardResult_written h hv mm ss[i] parts[i]
      (validItems_of_flatten hval (List.getElem_mem hi)) [] (hm i hs hi)
    simpa using this

theorem sumsOf_parsed {cs : List Nat} {n : Nat} (h : cs.length = n) :
    sumsOf (.parsed cs) n = some (true, cs) := by
  simp [sumsOf, h]

theorem sumsOf_absent (n : Nat) : sumsOf .absent n = some (false, List.replicate n 0) := rfl

/-- the files of a completed store, listed and checksummed as StoreToDisk does: all shards load -/
theorem loadShards_written (h : Bytes → Nat) {ver : Nat} (hv : ver ≠ 0) (mm : Bool → Nat → Nat → Bool)
    (hmm : ∀ has s, mm has s s = false) (parts : List (List Bytes)) (hval : ValidItems parts.flatten) :
    loadShards h ver mm (shardNames parts.length) (.parsed (parts.map (writerChecksum h)))
      (shardFiles 0 parts) = some parts := by
  have hc := loadShards_canonical h ver mm (.parsed (parts.map (writerChecksum h)))
    (shardFiles 0 parts) (parts.map writeFile)
    (fun i _ => by rw [shardFiles_eq]; exact lookup_filesOf_zero i _)
  rw [List.length_map] at hc
  rw [hc, sumsOf_parsed (by simp)]
  simp only
  apply allSome_written h hv (mm true) _ parts hval (by simp)
  intro i h1 h2
  simp [hmm]

/-- the same files without a checksums file (backups of older versions): nothing is checked -/
theorem loadShards_written_unchecked (h : Bytes → Nat) {ver : Nat} (hv : ver ≠ 0)
    (mm : Bool → Nat → Nat → Bool) (hmm : ∀ s a, mm false s a = false)
    (parts : List (List Bytes)) (hval : ValidItems parts.flatten) :
    loadShards h ver mm (shardNames parts.length) .absent (shardFiles 0 parts) = some parts := by
  have hc := loadShards_canonical h ver mm .absent
    (shardFiles 0 parts) (parts.map writeFile)
    (fun i _ => by rw [shardFiles_eq]; exact lookup_filesOf_zero i _)
  rw [List.length_map] at hc
  rw [hc, sumsOf_absent]
  simp only
  apply allSome_written h hv (mm false) _ parts hval (by simp)
  intro i h1 h2
  exact hmm _ _

end NitroVerif.Backup
