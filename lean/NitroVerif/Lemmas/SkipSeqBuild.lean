import NitroVerif.Lemmas.SkipSeqWF
/-!
  `Builder.Assemble`: chaining filled segments per level.
-/
namespace NitroVerif.SkipSeq
open NitroVerif

/-- joining two chains on level `l` by a store into the last node of the first -/
theorem path_join {h : Heap} {mk : Nat → Bool} {l : Nat} (C' : List Nat) (t sh : Nat) (X' : List Nat)
    (hC : Path h mk l (C' ++ [t])) (hX : Path h mk l (sh :: X')) (htC : t ∉ C') (htX : t ∉ sh :: X')
    (hslot : l < nextLen h t) :
    Path (setNext h t l (sh, mk t)) mk l (C' ++ t :: sh :: X') := by
  have hsame : ∀ a, a ≠ t → getNext (setNext h t l (sh, mk t)) a l = getNext h a l :=
    fun a ha => getNext_setNext_ne (Or.inl (Ne.symm ha))
  rw [path_append_cons]
  refine ⟨?_, ?_⟩
  · rw [path_congr_snoc C' t (mk := mk)]
    · exact hC
    · intro a ha; exact ⟨hsame a (fun e => htC (e ▸ ha)), rfl⟩
  · simp only [path_cons_cons]
    refine ⟨getNext_setNext_same hslot, ?_⟩
    rw [path_congr (sh :: X') (mk := mk)]
    · exact hX
    · intro a ha; exact ⟨hsame a (fun e => htX (e ▸ ha)), rfl⟩

theorem getD_head?_ne_nil {X : List Nat} (hlo : ∀ x ∈ X, 3 ≤ x) :
    ((X.head?).getD nilId != nilId) = !X.isEmpty := by
  cases X with
  | nil => simp [nilId]
  | cons a r => have := hlo a (by simp); simp [nilId]; omega

theorem getD_getLast?_ne_nil {X : List Nat} (hlo : ∀ x ∈ X, 3 ≤ x) :
    ((X.getLast?).getD nilId != nilId) = !X.isEmpty := by
  cases hX : X.getLast? with
  | none => have := List.getLast?_eq_none_iff.mp hX; simp [this, nilId]
  | some a =>
    have hm := List.mem_of_getLast? hX
    have := hlo a hm
    have hne : X ≠ [] := by intro e; rw [e] at hm; simp at hm
    cases X with
    | nil => exact absurd rfl hne
    | cons b r => simp [nilId]; omega

/-- one level of the inner loop of `Assemble`: chain `C` built so far, chain `X` of the segment -/
theorem asm_level {h : Heap} {l : Nat} (C X : List Nat)
    (hC : Path h nomk l C) (hX : Path h nomk l X) (hnd : (C ++ X).Nodup)
    (hlo : ∀ x ∈ C ++ X, 3 ≤ x) (hslot : ∀ c ∈ C, l < nextLen h c) :
    let t := (C.getLast?).getD nilId
    let hd := (C.head?).getD nilId
    let sh := (X.head?).getD nilId
    let st := (X.getLast?).getD nilId
    let h' := if t != nilId && sh != nilId then setNext h t l (sh, false) else h
    let hd' := if t != nilId && sh != nilId then hd else if hd == nilId && sh != nilId then sh else hd
    let tl' := if st != nilId then st else t
    Path h' nomk l (C ++ X) ∧ hd' = (((C ++ X).head?).getD nilId) ∧ tl' = (((C ++ X).getLast?).getD nilId) ∧
      (h' = h ∨ ∃ t ∈ C, h' = setNext h t l (sh, false)) := by
  intro t hd sh st h' hd' tl'
  have hloC : ∀ x ∈ C, 3 ≤ x := fun x hx => hlo x (List.mem_append_left _ hx)
  have hloX : ∀ x ∈ X, 3 ≤ x := fun x hx => hlo x (List.mem_append_right _ hx)
  cases X with
  | nil =>
    have hsh : sh = nilId := rfl
    have hst : st = nilId := rfl
    simp only [h', hd', tl', hsh, hst, bne_self_eq_false, Bool.and_false, Bool.false_eq_true, if_false,
      List.append_nil]
    exact ⟨hC, rfl, rfl, Or.inl trivial⟩
  | cons x X' =>
    have hsh : sh = x := rfl
    have hx3 : 3 ≤ x := hloX x (by simp)
    have hshne : (sh != nilId) = true := by rw [hsh]; simp [nilId]; omega
    have hstne : (st != nilId) = true := by
      have := getD_getLast?_ne_nil hloX
      simpa using this
    cases hCl : C.getLast? with
    | none =>
      have hCnil : C = [] := List.getLast?_eq_none_iff.mp hCl
      subst hCnil
      have ht : t = nilId := by simp [t]
      have hhd : hd = nilId := by simp [hd]
      simp only [h', hd', tl', ht, hhd, bne_self_eq_false, Bool.false_and, Bool.false_eq_true, if_false,
        beq_self_eq_true, Bool.true_and, hshne, hstne, if_true, List.nil_append]
      exact ⟨hX, by simp [hsh], rfl, Or.inl trivial⟩
    | some c =>
      rcases List.getLast?_eq_some_iff.mp hCl with ⟨C', hC'⟩
      subst hC'
      have hc3 : 3 ≤ c := hloC c (by simp)
      have ht : t = c := by simp [t]
      have htne : (t != nilId) = true := by rw [ht]; simp [nilId]; omega
      simp only [h', hd', tl', htne, hshne, hstne, Bool.and_self, if_true]
      have hnd' := List.nodup_append.mp hnd
      have hcC' : c ∉ C' := by
        have := List.nodup_append.mp hnd'.1
        intro hm; exact this.2.2 c hm c (by simp) rfl
      have hcX : c ∉ x :: X' := fun hm => hnd'.2.2 c (by simp) c hm rfl
      have := path_join (mk := nomk) C' c x X' hC hX hcC' hcX (hslot c (by simp))
      refine ⟨?_, ?_, ?_, Or.inr ⟨c, by simp, by rw [ht, hsh]⟩⟩
      · rw [ht, hsh]; simpa [nomk] using this
      · simp only [hd]
        cases C' <;> simp
      · simp only [st, List.getLast?_append]
        cases hl : (x :: X').getLast? with
        | none => simp at hl
        | some z => simp

end NitroVerif.SkipSeq

namespace NitroVerif.SkipSeq
open NitroVerif

/-- a filled segment: `xs` are its nodes in the order they were added -/
structure SegOK (h : Heap) (seg : Segment) (xs : List Nat) : Prop where
  hlen : seg.head.length = Gen.maxLevel + 1
  tlen : seg.tail.length = Gen.maxLevel + 1
  ends : ∀ l, l ≤ Gen.maxLevel →
    seg.head.getD l nilId = ((LL h xs l).head?).getD nilId ∧
    seg.tail.getD l nilId = ((LL h xs l).getLast?).getD nilId
  paths : ∀ l, l ≤ Gen.maxLevel → Path h nomk l (LL h xs l)

/-- state of the assembly: on every level `l ≤ MaxLevel` the chain `Cf l` is linked in `h`, and
    `head[l]` / `tail[l]` are its two ends (`nil` for an empty chain) -/
structure AsmInv (h0 h : Heap) (Cf : Nat → List Nat) (head tail : List Nat) (U : List Nat) : Prop where
  hlen : head.length = Gen.maxLevel + 1
  tlen : tail.length = Gen.maxLevel + 1
  ends : ∀ l, l ≤ Gen.maxLevel →
    head.getD l nilId = ((Cf l).head?).getD nilId ∧ tail.getD l nilId = ((Cf l).getLast?).getD nilId
  paths : ∀ l, l ≤ Gen.maxLevel → Path h nomk l (Cf l)
  len : h.length = h0.length
  key : ∀ m, keyOf h m = keyOf h0 m
  lvl : ∀ m, levelOf h m = levelOf h0 m
  nlen : ∀ m, nextLen h m = nextLen h0 m
  frame : ∀ n l, n ∉ U → getNext h n l = getNext h0 n l

theorem AsmInv.congr {h0 h : Heap} {Cf Cf' : Nat → List Nat} {head tail U : List Nat}
    (inv : AsmInv h0 h Cf head tail U) (hc : ∀ l, l ≤ Gen.maxLevel → Cf' l = Cf l) :
    AsmInv h0 h Cf' head tail U :=
  ⟨inv.hlen, inv.tlen, fun l hl => by rw [hc l hl]; exact inv.ends l hl,
   fun l hl => by rw [hc l hl]; exact inv.paths l hl, inv.len, inv.key, inv.lvl, inv.nlen, inv.frame⟩

/-- chains while segment `xs` is being appended: levels `< l` already have it -/
def CfMid (h0 : Heap) (D xs : List Nat) (l : Nat) : Nat → List Nat :=
  fun l' => if l' < l then LL h0 (D ++ xs) l' else LL h0 D l'

theorem asmSeg_step {h0 h : Heap} {seg : Segment} {xs D head tail : List Nat} {l : Nat}
    (hs : SegOK h0 seg xs) (hnd : (D ++ xs).Nodup) (hlo : ∀ x ∈ D ++ xs, 3 ≤ x)
    (hslotD : ∀ x ∈ D, nextLen h0 x = levelOf h0 x + 1) (hl : l ≤ Gen.maxLevel)
    (inv : AsmInv h0 h (CfMid h0 D xs l) head tail D) :
    AsmInv h0
      (if tail.getD l nilId != nilId && seg.head.getD l nilId != nilId
        then setNext h (tail.getD l nilId) l (seg.head.getD l nilId, false) else h)
      (CfMid h0 D xs (l + 1))
      (if tail.getD l nilId != nilId && seg.head.getD l nilId != nilId then head
        else if head.getD l nilId == nilId && seg.head.getD l nilId != nilId
          then head.set l (seg.head.getD l nilId) else head)
      (if seg.tail.getD l nilId != nilId then tail.set l (seg.tail.getD l nilId) else tail) D := by
  have hCl : CfMid h0 D xs l l = LL h0 D l := by simp [CfMid]
  have hends := inv.ends l hl
  rw [hCl] at hends
  have hpC := inv.paths l hl
  rw [hCl] at hpC
  have hdisj : ∀ a ∈ xs, a ∉ D := fun a ha hD => (List.nodup_append.mp hnd).2.2 a hD a ha rfl
  have hpX : Path h nomk l (LL h0 xs l) := by
    rw [path_congr (h := h0) (mk := nomk)]
    · exact hs.paths l hl
    · intro a ha; exact ⟨inv.frame a l (hdisj a (mem_LL.mp ha).1), rfl⟩
  have hndl : (LL h0 D l ++ LL h0 xs l).Nodup := by
    rw [← LL_append]; exact hnd.filter _
  have hlol : ∀ x ∈ LL h0 D l ++ LL h0 xs l, 3 ≤ x := by
    intro x hx; rw [← LL_append] at hx; exact hlo x (mem_LL.mp hx).1
  have hslot : ∀ c ∈ LL h0 D l, l < nextLen h c := by
    intro c hc
    have := mem_LL.mp hc
    rw [inv.nlen, hslotD c this.1]; omega
  have key := asm_level (h := h) (l := l) (LL h0 D l) (LL h0 xs l) hpC hpX hndl hlol hslot
  simp only at key
  rw [← hends.1, ← hends.2, ← (hs.ends l hl).1, ← (hs.ends l hl).2] at key
  rcases key with ⟨k1, k2, k3, k4⟩
  have hCnew : ∀ l', CfMid h0 D xs (l + 1) l' = if l' = l then LL h0 D l ++ LL h0 xs l else CfMid h0 D xs l l' := by
    intro l'
    by_cases e : l' = l
    · subst e; simp [CfMid, LL_append]
    · simp only [CfMid, e, if_false]
      by_cases e2 : l' < l
      · have : l' < l + 1 := by omega
        simp [e2, this]
      · have : ¬ l' < l + 1 := by omega
        simp [e2, this]
  -- the new heap differs from `h` on level `l` and inside `D` only
  have hheap : ∀ n l', (l' ≠ l ∨ n ∉ D) →
      getNext (if tail.getD l nilId != nilId && seg.head.getD l nilId != nilId
        then setNext h (tail.getD l nilId) l (seg.head.getD l nilId, false) else h) n l' = getNext h n l' := by
    intro n l' hor
    rcases k4 with e | ⟨t, ht, e⟩
    · rw [e]
    · rw [e]
      apply getNext_setNext_ne
      rcases hor with h1 | h1
      · right; exact Ne.symm h1
      · left; intro e'; exact h1 (e' ▸ (mem_LL.mp ht).1)
  have hmeta : ∀ m, keyOf (if tail.getD l nilId != nilId && seg.head.getD l nilId != nilId
        then setNext h (tail.getD l nilId) l (seg.head.getD l nilId, false) else h) m = keyOf h m ∧
      levelOf (if tail.getD l nilId != nilId && seg.head.getD l nilId != nilId
        then setNext h (tail.getD l nilId) l (seg.head.getD l nilId, false) else h) m = levelOf h m ∧
      nextLen (if tail.getD l nilId != nilId && seg.head.getD l nilId != nilId
        then setNext h (tail.getD l nilId) l (seg.head.getD l nilId, false) else h) m = nextLen h m := by
    intro m
    split
    · exact ⟨keyOf_setNext _ _ _ _ _, levelOf_setNext _ _ _ _ _, nextLen_setNext _ _ _ _ _⟩
    · exact ⟨rfl, rfl, rfl⟩
  refine ⟨?_, ?_, ?_, ?_, ?_, fun m => by rw [(hmeta m).1]; exact inv.key m,
    fun m => by rw [(hmeta m).2.1]; exact inv.lvl m, fun m => by rw [(hmeta m).2.2]; exact inv.nlen m, ?_⟩
  · split
    · exact inv.hlen
    · split
      · rw [List.length_set]; exact inv.hlen
      · exact inv.hlen
  · split
    · rw [List.length_set]; exact inv.tlen
    · exact inv.tlen
  · intro l' hl'
    rw [hCnew l']
    by_cases e : l' = l
    · subst e
      rw [if_pos rfl, ← k2, ← k3]
      refine ⟨?_, ?_⟩
      · split
        · rfl
        · split
          · rw [getD_set_same _ _ _ _ (by rw [inv.hlen]; omega)]
          · rfl
      · split
        · rw [getD_set_same _ _ _ _ (by rw [inv.tlen]; omega)]
        · rfl
    · rw [if_neg e]
      have := inv.ends l' hl'
      refine ⟨?_, ?_⟩
      · rw [← this.1]
        split
        · rfl
        · split
          · rw [getD_set_ne _ _ _ _ _ (Ne.symm e)]
          · rfl
      · rw [← this.2]
        split
        · rw [getD_set_ne _ _ _ _ _ (Ne.symm e)]
        · rfl
  · intro l' hl'
    rw [hCnew l']
    by_cases e : l' = l
    · subst e; rw [if_pos rfl]; exact k1
    · rw [if_neg e, path_congr (h := h) (mk := nomk)]
      · exact inv.paths l' hl'
      · intro a _; exact ⟨hheap a l' (Or.inl e), rfl⟩
  · split
    · rw [length_setNext]; exact inv.len
    · exact inv.len
  · intro n l' hn
    rw [hheap n l' (Or.inr hn)]; exact inv.frame n l' hn

theorem asmSeg_spec {h0 : Heap} {seg : Segment} {xs D : List Nat}
    (hs : SegOK h0 seg xs) (hnd : (D ++ xs).Nodup) (hlo : ∀ x ∈ D ++ xs, 3 ≤ x)
    (hslotD : ∀ x ∈ D, nextLen h0 x = levelOf h0 x + 1) :
    ∀ (n l : Nat) (h : Heap) (head tail : List Nat), l + n = Gen.maxLevel + 1 →
      AsmInv h0 h (CfMid h0 D xs l) head tail D →
      AsmInv h0 (asmSeg seg n l h head tail).1 (fun l' => LL h0 (D ++ xs) l')
        (asmSeg seg n l h head tail).2.1 (asmSeg seg n l h head tail).2.2 D := by
  intro n
  induction n with
  | zero =>
    intro l h head tail hl inv
    simp only [asmSeg]
    apply inv.congr
    intro l' hl'
    have : l' < l := by omega
    simp [CfMid, this]
  | succ n ih =>
    intro l h head tail hl inv
    simp only [asmSeg]
    exact ih (l + 1) _ _ _ (by omega) (asmSeg_step hs hnd hlo hslotD (by omega) inv)

end NitroVerif.SkipSeq

namespace NitroVerif.SkipSeq
open NitroVerif

/-- all nodes of a list of (segment, nodes) pairs, in order -/
def allNodes (segs : List (Segment × List Nat)) : List Nat := (segs.map (·.2)).flatten

theorem allNodes_cons (e : Segment × List Nat) (r : List (Segment × List Nat)) :
    allNodes (e :: r) = e.2 ++ allNodes r := by simp [allNodes]

theorem asmSegs_spec {h0 : Heap} : ∀ (segs : List (Segment × List Nat)) (D : List Nat) (h : Heap)
    (head tail : List Nat),
    (∀ e ∈ segs, SegOK h0 e.1 e.2) → (D ++ allNodes segs).Nodup → (∀ x ∈ D ++ allNodes segs, 3 ≤ x) →
    (∀ x ∈ D ++ allNodes segs, nextLen h0 x = levelOf h0 x + 1) →
    AsmInv h0 h (fun l => LL h0 D l) head tail D →
    AsmInv h0 (asmSegs (segs.map (·.1)) h head tail).1 (fun l => LL h0 (D ++ allNodes segs) l)
      (asmSegs (segs.map (·.1)) h head tail).2.1 (asmSegs (segs.map (·.1)) h head tail).2.2
      (D ++ allNodes segs) := by
  intro segs
  induction segs with
  | nil =>
    intro D h head tail _ _ _ _ inv
    simpa [asmSegs, allNodes] using inv
  | cons e r ih =>
    intro D h head tail hs hnd hlo hsl inv
    rw [allNodes_cons] at hnd hlo hsl ⊢
    simp only [List.map_cons, asmSegs]
    have hnd1 : (D ++ e.2).Nodup := by
      rw [← List.append_assoc] at hnd; exact (List.nodup_append.mp hnd).1
    have inv0 : AsmInv h0 h (CfMid h0 D e.2 0) head tail D := inv.congr (fun l _ => by simp [CfMid])
    have inv1 := asmSeg_spec (hs e (by simp)) hnd1
      (fun x hx => hlo x (by simp only [List.mem_append] at hx ⊢; rcases hx with h1 | h1; exact Or.inl h1; exact Or.inr (Or.inl h1)))
      (fun x hx => hsl x (List.mem_append_left _ hx)) (Gen.maxLevel + 1) 0 h head tail (by omega) inv0
    have inv2 : AsmInv h0 (asmSeg e.1 (Gen.maxLevel + 1) 0 h head tail).1 (fun l => LL h0 (D ++ e.2) l)
        (asmSeg e.1 (Gen.maxLevel + 1) 0 h head tail).2.1 (asmSeg e.1 (Gen.maxLevel + 1) 0 h head tail).2.2
        (D ++ e.2) :=
      ⟨inv1.hlen, inv1.tlen, inv1.ends, inv1.paths, inv1.len, inv1.key, inv1.lvl, inv1.nlen,
       fun n l hn => inv1.frame n l (fun hD => hn (List.mem_append_left _ hD))⟩
    have := ih (D ++ e.2) _ _ _ (fun e' he' => hs e' (List.mem_cons_of_mem _ he'))
      (by rw [List.append_assoc]; exact hnd) (by rw [List.append_assoc]; exact hlo)
      (by rw [List.append_assoc]; exact hsl) inv2
    rw [List.append_assoc] at this
    exact this

/-- the second loop of `Assemble` on level `l` -/
theorem asmEnds_level {h : Heap} {l : Nat} (C : List Nat) (hC : Path h nomk l C) (hnd : C.Nodup)
    (hlo : ∀ x ∈ C, 3 ≤ x) (hslot : ∀ c ∈ C, l < nextLen h c) (hhs : l < nextLen h headId)
    (hht : getNext h headId l = (tailId, false)) :
    Path
      (if (C.getLast?).getD nilId != nilId
        then setNext (if (C.head?).getD nilId != nilId then setNext h headId l ((C.head?).getD nilId, false) else h)
              ((C.getLast?).getD nilId) l (tailId, false)
        else (if (C.head?).getD nilId != nilId then setNext h headId l ((C.head?).getD nilId, false) else h))
      nomk l (headId :: C ++ [tailId]) := by
  cases hCl : C.getLast? with
  | none =>
    have hCnil : C = [] := List.getLast?_eq_none_iff.mp hCl
    subst hCnil
    simp [nilId, hht, nomk]
  | some cz =>
    rcases List.getLast?_eq_some_iff.mp hCl with ⟨C', hC'⟩
    subst hC'
    have hz3 : 3 ≤ cz := hlo cz (by simp)
    have hzne : (cz != nilId) = true := by simp [nilId]; omega
    have hne : (((C' ++ [cz]).head?).getD nilId != nilId) = true := by
      rw [getD_head?_ne_nil hlo]; simp
    simp only [Option.getD_some, hzne, hne, if_true]
    obtain ⟨c0, R, hc0⟩ : ∃ c0 R, C' ++ [cz] = c0 :: R := by
      cases C' with
      | nil => exact ⟨cz, [], rfl⟩
      | cons a t => exact ⟨a, t ++ [cz], rfl⟩
    have hhead : ((C' ++ [cz]).head?).getD nilId = c0 := by rw [hc0]; rfl
    rw [hhead]
    have hHnot : headId ∉ C' ++ [cz] := by
      intro hm; have := hlo _ hm; simp [headId] at this
    -- first store: head → c0
    have hp1 : Path (setNext h headId l (c0, false)) nomk l (headId :: (C' ++ [cz])) := by
      rw [hc0]
      simp only [path_cons_cons]
      refine ⟨by rw [getNext_setNext_same hhs]; rfl, ?_⟩
      rw [← hc0, path_frame _ (Or.inr hHnot)]; exact hC
    -- second store: cz → tail
    have hczC' : cz ∉ C' := by
      have := List.nodup_append.mp hnd
      intro hm; exact this.2.2 cz hm cz (by simp) rfl
    have hczH : cz ≠ headId := by simp [headId]; omega
    have e : headId :: (C' ++ [cz]) ++ [tailId] = (headId :: C') ++ cz :: [tailId] := by simp
    rw [e, path_append_cons]
    refine ⟨?_, ?_⟩
    · rw [path_congr_snoc (headId :: C') cz (h := setNext h headId l (c0, false)) (mk := nomk)]
      · simpa using hp1
      · intro a ha
        refine ⟨getNext_setNext_ne (Or.inl ?_), rfl⟩
        intro e'
        rcases List.mem_cons.mp ha with h1 | h1
        · exact hczH (e'.trans h1)
        · exact hczC' (e' ▸ h1)
    · simp only [path_cons_cons, path_single, and_true]
      rw [getNext_setNext_same (by rw [nextLen_setNext]; exact hslot cz (by simp))]
      rfl

end NitroVerif.SkipSeq

namespace NitroVerif.SkipSeq
open NitroVerif

/-- the two stores of the second loop of `Assemble` on level `l` -/
def endsStep (h : Heap) (l hd tl : Nat) : Heap :=
  if tl != nilId then setNext (if hd != nilId then setNext h headId l (hd, false) else h) tl l (tailId, false)
  else (if hd != nilId then setNext h headId l (hd, false) else h)

theorem endsStep_meta (h : Heap) (l hd tl m : Nat) :
    keyOf (endsStep h l hd tl) m = keyOf h m ∧ levelOf (endsStep h l hd tl) m = levelOf h m ∧
    nextLen (endsStep h l hd tl) m = nextLen h m ∧ (endsStep h l hd tl).length = h.length := by
  unfold endsStep
  by_cases h1 : (tl != nilId) = true <;> by_cases h2 : (hd != nilId) = true <;>
    simp [h1, h2, keyOf_setNext, levelOf_setNext, nextLen_setNext, length_setNext]

theorem endsStep_other (h : Heap) (l hd tl a l' : Nat)
    (hor : l' ≠ l ∨ (a ≠ headId ∧ (a ≠ tl ∨ tl = nilId))) :
    getNext (endsStep h l hd tl) a l' = getNext h a l' := by
  unfold endsStep
  have h1 : ∀ g : Heap, ∀ v, getNext (setNext g headId l v) a l' = getNext g a l' := by
    intro g v; apply getNext_setNext_ne
    rcases hor with e | e
    · right; exact Ne.symm e
    · left; exact Ne.symm e.1
  by_cases ht : (tl != nilId) = true
  · have h2 : ∀ g : Heap, ∀ v, getNext (setNext g tl l v) a l' = getNext g a l' := by
      intro g v; apply getNext_setNext_ne
      rcases hor with e | e
      · right; exact Ne.symm e
      · left
        rcases e.2 with e2 | e2
        · exact Ne.symm e2
        · simp [e2] at ht
    by_cases hh : (hd != nilId) = true <;> simp [ht, hh, h1, h2]
  · by_cases hh : (hd != nilId) = true <;> simp [ht, hh, h1]

theorem asmEnds_eq (head tail : List Nat) (n l : Nat) (h : Heap) :
    asmEnds head tail (n + 1) l h
      = asmEnds head tail n (l + 1) (endsStep h l (head.getD l nilId) (tail.getD l nilId)) := by
  simp only [asmEnds, endsStep]

/-- the situation after the first loop of `Assemble` -/
structure EndCtx (hA : Heap) (C : Nat → List Nat) (Dall head tail : List Nat) : Prop where
  ends : ∀ l, l ≤ Gen.maxLevel →
    head.getD l nilId = ((C l).head?).getD nilId ∧ tail.getD l nilId = ((C l).getLast?).getD nilId
  paths : ∀ l, l ≤ Gen.maxLevel → Path hA nomk l (C l)
  sub : ∀ l, ∀ x ∈ C l, x ∈ Dall ∧ l ≤ levelOf hA x
  nodup : ∀ l, (C l).Nodup
  lo : ∀ x ∈ Dall, 3 ≤ x
  slots : ∀ x ∈ Dall, nextLen hA x = levelOf hA x + 1
  headLen : nextLen hA headId = Gen.maxLevel + 1
  headLink : ∀ l, l ≤ Gen.maxLevel → getNext hA headId l = (tailId, false)

structure EndInv (hA : Heap) (C : Nat → List Nat) (Dall : List Nat) (l : Nat) (h : Heap) : Prop where
  done : ∀ l', l' ≤ Gen.maxLevel → l' < l → Path h nomk l' (headId :: C l' ++ [tailId])
  todo : ∀ l', l ≤ l' → ∀ a, getNext h a l' = getNext hA a l'
  same : ∀ m, keyOf h m = keyOf hA m ∧ levelOf h m = levelOf hA m ∧ nextLen h m = nextLen hA m
  len : h.length = hA.length
  frame : ∀ n, n ∉ headId :: Dall → ∀ l', getNext h n l' = getNext hA n l'

theorem asmEnds_spec {hA : Heap} {C : Nat → List Nat} {Dall head tail : List Nat}
    (c : EndCtx hA C Dall head tail) :
    ∀ (n l : Nat) (h : Heap), l + n = Gen.maxLevel + 1 → EndInv hA C Dall l h →
      EndInv hA C Dall (Gen.maxLevel + 1) (asmEnds head tail n l h) := by
  intro n
  induction n with
  | zero =>
    intro l h hl inv
    have : l = Gen.maxLevel + 1 := by omega
    subst this
    simpa [asmEnds] using inv
  | succ n ih =>
    intro l h hl inv
    rw [asmEnds_eq]
    apply ih (l + 1) _ (by omega)
    have hlm : l ≤ Gen.maxLevel := by omega
    have he := c.ends l hlm
    have hpl : Path h nomk l (C l) := by
      rw [path_congr (h := hA) (mk := nomk)]
      · exact c.paths l hlm
      · intro a _; exact ⟨inv.todo l (Nat.le_refl _) a, rfl⟩
    have hlvl := asmEnds_level (h := h) (l := l) (C l) hpl (c.nodup l)
      (fun x hx => c.lo x (c.sub l x hx).1)
      (fun x hx => by
        have := c.sub l x hx
        rw [(inv.same x).2.2, c.slots x this.1]; omega)
      (by rw [(inv.same headId).2.2, c.headLen]; omega)
      (by rw [inv.todo l (Nat.le_refl _)]; exact c.headLink l hlm)
    rw [← he.1, ← he.2] at hlvl
    refine ⟨?_, ?_, ?_, ?_, ?_⟩
    · intro l' hl' hlt
      by_cases e : l' = l
      · subst e; exact hlvl
      · rw [path_congr (h := h) (mk := nomk)]
        · exact inv.done l' hl' (by omega)
        · intro a _; exact ⟨endsStep_other _ _ _ _ _ _ (Or.inl e), rfl⟩
    · intro l' hl' a
      rw [endsStep_other _ _ _ _ _ _ (Or.inl (by omega))]
      exact inv.todo l' (by omega) a
    · intro m
      have := endsStep_meta h l (head.getD l nilId) (tail.getD l nilId) m
      exact ⟨this.1.trans (inv.same m).1, this.2.1.trans (inv.same m).2.1, this.2.2.1.trans (inv.same m).2.2⟩
    · rw [(endsStep_meta h l _ _ 0).2.2.2]; exact inv.len
    · intro m hm l'
      have hmh : m ≠ headId := fun e => hm (by rw [e]; simp)
      have hmt : m ≠ tail.getD l nilId ∨ tail.getD l nilId = nilId := by
        rw [he.2]
        cases hCl : (C l).getLast? with
        | none => right; rfl
        | some z =>
          left
          intro e
          simp at e
          have := (c.sub l z (List.mem_of_getLast? hCl)).1
          exact hm (by rw [e]; exact List.mem_cons_of_mem _ this)
      rw [endsStep_other _ _ _ _ _ _ (Or.inr ⟨hmh, hmt⟩)]
      exact inv.frame m hm l'

end NitroVerif.SkipSeq

namespace NitroVerif.SkipSeq
open NitroVerif

/-- local statistics of a filled segment -/
structure SegStats (h : Heap) (seg : Segment) (xs : List Nat) : Prop where
  len : seg.sts.levelNodesCount.length = Gen.maxLevel + 1
  dist : ∀ g, g ≤ Gen.maxLevel → seg.sts.levelNodesCount.getD g 0 = (cntLevel h xs g : Int)
  soft : seg.sts.softDeletes = 0
  frees : seg.sts.nodeFrees = 0
  allocs : seg.sts.nodeAllocs = (xs.length : Int)

/-- an empty store together with filled, pairwise disjoint segments allocated in its heap -/
structure BuildOK (s : SL) (segs : List (Segment × List Nat)) : Prop where
  rep : Rep s []
  segok : ∀ e ∈ segs, SegOK s.nodes e.1 e.2
  nodup : (allNodes segs).Nodup
  lo : ∀ x ∈ allNodes segs, 3 ≤ x
  hi : ∀ x ∈ allNodes segs, x < s.nodes.length
  slots : ∀ x ∈ allNodes segs, nextLen s.nodes x = levelOf s.nodes x + 1
  keys : ∀ x ∈ allNodes segs, keyOf s.nodes x = .item (ikey s.nodes x)
  lvls : ∀ x ∈ allNodes segs, levelOf s.nodes x ≤ s.level
  size : (allNodes segs).length + 3 ≤ s.nodes.length
  stats : ∀ e ∈ segs, SegStats s.nodes e.1 e.2

theorem getD_replicate_nil (n l : Nat) : (List.replicate n nilId).getD l nilId = nilId := by
  simp only [List.getD_eq_getElem?_getD, List.getElem?_replicate]
  by_cases h : l < n <;> simp [h]

/-- what `Assemble` does to the heap: every level is the concatenation of the segments' chains -/
theorem assemble_heap {s : SL} {segs : List (Segment × List Nat)} (b : BuildOK s segs) :
    (∀ l, l ≤ Gen.maxLevel →
      Path (assemble s (segs.map (·.1))).1.nodes nomk l (headId :: LL s.nodes (allNodes segs) l ++ [tailId])) ∧
    (assemble s (segs.map (·.1))).1.nodes.length = s.nodes.length ∧
    (∀ m, keyOf (assemble s (segs.map (·.1))).1.nodes m = keyOf s.nodes m ∧
          levelOf (assemble s (segs.map (·.1))).1.nodes m = levelOf s.nodes m ∧
          nextLen (assemble s (segs.map (·.1))).1.nodes m = nextLen s.nodes m) ∧
    (∀ n, n ∉ headId :: allNodes segs → ∀ l,
      getNext (assemble s (segs.map (·.1))).1.nodes n l = getNext s.nodes n l) := by
  have hr := b.rep
  have inv0 : AsmInv s.nodes s.nodes (fun l => LL s.nodes [] l)
      (List.replicate (Gen.maxLevel + 1) nilId) (List.replicate (Gen.maxLevel + 1) nilId) [] :=
    ⟨by simp, by simp, fun l _ => by simp only [LL, List.filter_nil, List.head?_nil, List.getLast?_nil, Option.getD_none, getD_replicate_nil, and_self], fun l _ => by simp [LL],
     rfl, fun _ => rfl, fun _ => rfl, fun _ => rfl, fun _ _ _ => rfl⟩
  have invA := asmSegs_spec segs [] s.nodes _ _ b.segok (by simpa using b.nodup) (by simpa using b.lo)
    (by simpa using b.slots) inv0
  simp only [List.nil_append] at invA
  generalize hA : asmSegs (segs.map (·.1)) s.nodes (List.replicate (Gen.maxLevel + 1) nilId)
    (List.replicate (Gen.maxLevel + 1) nilId) = rA at invA
  have hheadnot : headId ∉ allNodes segs := by
    intro hm; have := b.lo _ hm; simp [headId] at this
  have hctx : EndCtx rA.1 (fun l => LL s.nodes (allNodes segs) l) (allNodes segs) rA.2.1 rA.2.2 := by
    refine ⟨invA.ends, invA.paths, ?_, fun l => b.nodup.filter _, b.lo, ?_, ?_, ?_⟩
    · intro l x hx
      have := mem_LL.mp hx
      exact ⟨this.1, by rw [invA.lvl]; exact this.2⟩
    · intro x hx; rw [invA.nlen, invA.lvl]; exact b.slots x hx
    · rw [invA.nlen]; exact hr.base.headLen
    · intro l hl
      rw [invA.frame headId l hheadnot]
      have := hr.paths l hl
      simpa [LL, nomk] using this
  have invE := asmEnds_spec hctx (Gen.maxLevel + 1) 0 rA.1 (by omega)
    ⟨fun _ _ h => absurd h (by omega), fun _ _ _ => rfl, fun _ => ⟨rfl, rfl, rfl⟩, rfl, fun _ _ _ => rfl⟩
  have hnodes : (assemble s (segs.map (·.1))).1.nodes
      = asmEnds rA.2.1 rA.2.2 (Gen.maxLevel + 1) 0 rA.1 := by
    simp only [assemble, hA]
  rw [hnodes]
  refine ⟨fun l hl => invE.done l hl (by omega), by rw [invE.len, invA.len], ?_, ?_⟩
  · intro m
    exact ⟨(invE.same m).1.trans (invA.key m), (invE.same m).2.1.trans (invA.lvl m),
      (invE.same m).2.2.trans (invA.nlen m)⟩
  · intro n hn l
    rw [invE.frame n hn l]
    exact invA.frame n l (fun h => hn (List.mem_cons_of_mem _ h))

theorem assemble_fields (s : SL) (segs : List Segment) :
    (assemble s segs).1.level = s.level ∧ (assemble s segs).1.buf = s.buf ∧
    (assemble s segs).1.stuck = s.stuck ∧ (assemble s segs).1.stats = mergeStats segs s.stats := by
  simp [assemble]

end NitroVerif.SkipSeq
