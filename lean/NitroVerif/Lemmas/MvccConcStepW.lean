/-
  The invariant is preserved by `start t put k v` and the PUT_INSERT step.
-/
import NitroVerif.Lemmas.MvccConcStepF

namespace NitroVerif.MvccConc
open NitroVerif
open NitroVerif.Mvcc (Ver isAlive Sorted Chains)

theorem reserved_set_put_iff {threads : List Pc} {t m k0 v0 b0 : Nat} {pc0 : Pc} (ht : threads[t]? = some pc0)
    (h0 : ∀ n k v b, pc0 ≠ Pc.putInsert n k v b) (n : Nat) :
    reserved (threads.set t (Pc.putInsert m k0 v0 b0)) n ↔ (reserved threads n ∨ n = m) := by
  constructor
  · exact reserved_set_put
  · rintro (⟨k, v, b, hm⟩ | rfl)
    · obtain ⟨t', ht'⟩ := mem_iff_get.mp hm
      by_cases he : t = t'
      · subst he; rw [ht] at ht'; injection ht' with h1; exact absurd h1 (h0 n k v b)
      · exact ⟨k, v, b, mem_set_of_ne ht' he⟩
    · exact ⟨k0, v0, b0, List.mem_of_getElem? (get_set_self ht)⟩

theorem inv_startPut {σ : State} {t k v : Nat} (h : Inv σ) (ht : σ.threads[t]? = some .idle)
    (hw : t < σ.writers.length) : Inv (startPut σ t k v).1 := by
  unfold startPut
  have hidle : Pc.plain .idle := by simp [Pc.plain]
  have hres := reserved_set_put_iff (m := σ.nextId) (k0 := k) (v0 := v) (b0 := σ.currSn) ht hidle.not_put
  have hown := h.own
  have hcnt : ∀ m, ownC σ.store (σ.threads.set t (.putInsert σ.nextId k v σ.currSn)) σ.gcJobs σ.sess σ.freeSeq σ.frJobs m =
      ownC σ.store σ.threads σ.gcJobs σ.sess σ.freeSeq σ.frJobs m + (if σ.nextId = m then 1 else 0) := by
    intro m
    unfold ownC
    have := thrOwned_set ht (.putInsert σ.nextId k v σ.currSn) m
    simp only [pcOwn, List.count_nil, List.count_cons] at this
    split <;> simp_all <;> omega
  have hzero : ownC σ.store σ.threads σ.gcJobs σ.sess σ.freeSeq σ.frJobs σ.nextId = 0 := by
    cases hc : ownC σ.store σ.threads σ.gcJobs σ.sess σ.freeSeq σ.frJobs σ.nextId with
    | zero => rfl
    | succ c => have := hown.lt σ.nextId (by omega); omega
  refine Inv.mk' (store := σ.store) (unl := σ.unlinked) (cur := σ.currSn) (items := σ.itemsCount)
    (writers := σ.writers) (snaps := σ.snaps) (threads := σ.threads.set t (.putInsert σ.nextId k v σ.currSn))
    (nextId := σ.nextId + 1) (gcFlag := σ.gcFlag) (gcJobs := σ.gcJobs) (sess := σ.sess) (fs := σ.freeSeq)
    (frJobs := σ.frJobs) (iters := σ.iters) (allocd := σ.allocd ++ [.item σ.nextId]) (freed := σ.freed) (bad := σ.bad)
    rfl rfl rfl rfl rfl rfl rfl rfl rfl rfl rfl rfl rfl rfl rfl rfl rfl ?_ ?_ h.garb ?_
    (h.tok.set_tok_same ht rfl) (h.prot.set_plain ht hidle.not_flush (by intros; simp) (by intros; simp))
  · -- store
    have hst := h.store
    refine ⟨hst.sorted, hst.chains, hst.cnt, hst.cur_pos, hst.ids, ?_, ?_, hst.snaps_inc, hst.snaps_lt, hst.rc_dead⟩
    · intro x hx
      have := hst.unl x hx
      refine ⟨this.1, by omega, ?_⟩
      rw [hres]; rintro (h1 | h1)
      · exact this.2.2 h1
      · omega
    · intro x hx
      have := hst.id_lt x hx
      refine ⟨by omega, ?_⟩
      rw [hres]; rintro (h1 | h1)
      · exact this.2 h1
      · omega
  · -- pc
    have hpc := h.pc
    refine ⟨by rw [List.length_set]; exact hpc.len, ?_, ?_, ?_, ?_, ?_, ?_⟩
    · intro t' n k' v' b hg
      rcases get_set_cases hg with ⟨rfl, he⟩ | ⟨_, hg'⟩
      · injection he with _ _ _ h4; exact ⟨hw, h4⟩
      · exact hpc.put t' n k' v' b hg'
    · intro t' n tok k' hg
      rcases get_set_cases hg with ⟨_, he⟩ | ⟨_, hg'⟩
      · cases he
      · have := hpc.phys t' n tok k' hg'
        refine ⟨this.1, by omega, ?_, this.2.2.2⟩
        rw [hres]; rintro (h1 | h1)
        · exact this.2.2.1 h1
        · omega
    · intro t' n tok k' hg
      rcases get_set_cases hg with ⟨_, he⟩ | ⟨_, hg'⟩
      · cases he
      · have := hpc.cas t' n tok k' hg'
        refine ⟨this.1, by omega, ?_, this.2.2.2⟩
        rw [hres]; rintro (h1 | h1)
        · exact this.2.2.1 h1
        · omega
    · intro t' n tok k' hg
      rcases get_set_cases hg with ⟨_, he⟩ | ⟨_, hg'⟩
      · cases he
      · exact hpc.fl t' n tok k' hg'
    · intro t' sn a hg
      rcases get_set_cases hg with ⟨_, he⟩ | ⟨_, hg'⟩
      · cases he
      · exact hpc.coll t' sn a hg'
    · intro t1 t2 s1 a1 s2 a2 h1 h2
      rcases get_set_cases h1 with ⟨_, he⟩ | ⟨_, h1'⟩
      · cases he
      · rcases get_set_cases h2 with ⟨_, he⟩ | ⟨_, h2'⟩
        · cases he
        · exact hpc.excl t1 t2 s1 a1 s2 a2 h1' h2'
  · -- own
    refine ⟨?_, ?_, ?_, ?_, ?_, ?_, ?_, ?_, hown.f_nodup, hown.bad⟩
    · intro m
      rw [hcnt]
      have := hown.le m
      by_cases he : σ.nextId = m
      · subst he; simp [hzero]
      · simp [he]; exact this
    · intro m hm
      rw [hcnt] at hm
      by_cases he : σ.nextId = m
      · omega
      · simp [he] at hm; have := hown.lt m hm; omega
    · intro m
      rw [List.mem_append, hown.a_item]
      simp; omega
    · intro m
      rw [List.mem_append, hown.a_node, hres]
      constructor
      · rintro (⟨h1, h2⟩ | h1)
        · refine ⟨by omega, ?_⟩
          rintro (h3 | h3)
          · exact h2 h3
          · omega
        · simp at h1
      · rintro ⟨h1, h2⟩
        have hne : m ≠ σ.nextId := fun he => h2 (Or.inr he)
        exact Or.inl ⟨by omega, fun h3 => h2 (Or.inl h3)⟩
    · intro m
      rw [hown.f_item, hcnt]
      by_cases he : σ.nextId = m
      · subst he; simp
      · simp [he]; intro _; omega
    · intro m
      rw [hown.f_node, hcnt]
      by_cases he : σ.nextId = m
      · subst he; simp
      · simp [he]; intro _; omega
    · exact ⟨List.mem_append_left _ hown.sent.1, List.mem_append_left _ hown.sent.2.1, hown.sent.2.2⟩
    · rw [List.nodup_append]
      refine ⟨hown.a_nodup, by simp, ?_⟩
      intro a ha b hb he
      simp at hb; subst hb; subst he
      have := (hown.a_item σ.nextId).mp ha; omega

/-- the number of alive versions after a Put was linked -/
theorem alive_insertN (s : List Node) (x : Node) (hx : x.ver.dead = 0) :
    ((vers (insertN s x)).filter isAlive).length = ((vers s).filter isAlive).length + 1 := by
  unfold insertN
  have happ := findPathN_append Mvcc.insCmp x.ver s
  conv => rhs; rw [← happ]
  unfold vers
  simp only [List.map_append, List.map_cons, List.filter_append, List.filter_cons, List.length_append]
  have : isAlive x.ver = true := by simp [isAlive, hx]
  simp [this]; omega

theorem inv_stepPut {σ : State} {t n k v b : Nat} (h : Inv σ) (ht : σ.threads[t]? = some (.putInsert n k v b)) :
    Inv (stepPut σ t n k v b).1 := by
  unfold stepPut
  split
  · exact h
  · have hidle : Pc.plain .idle := by simp [Pc.plain]
    have hown := h.own
    have ⟨hw, hb⟩ := h.pc.put t n k v b ht
    subst hb
    have hres_n : reserved σ.threads n := ⟨k, v, σ.currSn, List.mem_of_getElem? ht⟩
    have hthr1 : (thrOwned σ.threads).count n ≤ 1 := by
      have := hown.le n; unfold ownC at this; omega
    have hnres' : ¬ reserved (σ.threads.set t .idle) n := not_reserved_after_put ht hthr1 .idle hidle.not_put
    have hres_iff : ∀ m, reserved (σ.threads.set t .idle) m ↔ (reserved σ.threads m ∧ m ≠ n) := by
      intro m
      constructor
      · intro hm
        refine ⟨reserved_set_of_not_put hidle.not_put hm, ?_⟩
        intro he; subst he; exact hnres' hm
      · rintro ⟨⟨k', v', b', hm⟩, hne⟩
        obtain ⟨t', ht'⟩ := mem_iff_get.mp hm
        by_cases he : t = t'
        · subst he; rw [ht] at ht'; injection ht' with h1; injection h1 with h2; exact absurd h2.symm hne
        · exact ⟨k', v', b', mem_set_of_ne ht' he⟩
    have hpos_n : 0 < ownC σ.store σ.threads σ.gcJobs σ.sess σ.freeSeq σ.frJobs n := by
      have := reserved_count hres_n; unfold ownC; omega
    have hn_lt : n < σ.nextId := hown.lt n hpos_n
    have hone : ownC σ.store σ.threads σ.gcJobs σ.sess σ.freeSeq σ.frJobs n = 1 := by
      have := hown.le n; omega
    have hnode_na : Blk.node n ∉ σ.allocd := fun hm => ((hown.a_node n).mp hm).2 hres_n
    have hitem_a : Blk.item n ∈ σ.allocd := (hown.a_item n).mpr hn_lt
    have hitem_nf : Blk.item n ∉ σ.freed := fun hm => by have := ((hown.f_item n).mp hm).2; omega
    have hnode_nf : Blk.node n ∉ σ.freed := fun hm => by have := ((hown.f_node n).mp hm).2; omega
    have hthr_cnt : ∀ m, (thrOwned (σ.threads.set t .idle)).count m + (if n = m then 1 else 0) =
        (thrOwned σ.threads).count m := by
      intro m
      have := thrOwned_set ht .idle m
      simp only [pcOwn, List.count_nil, List.count_cons] at this
      split <;> simp_all <;> omega
    have ha_nodup : (σ.allocd ++ [Blk.node n]).Nodup := by
      rw [List.nodup_append]
      refine ⟨hown.a_nodup, by simp, ?_⟩
      intro a ha b hb he
      simp at hb; subst hb; subst he; exact hnode_na ha
    have ha_node : ∀ m, Blk.node m ∈ σ.allocd ++ [Blk.node n] ↔ m < σ.nextId ∧ ¬ reserved (σ.threads.set t .idle) m := by
      intro m
      rw [List.mem_append, hown.a_node, hres_iff]
      by_cases he : m = n
      · subst he; simp [hn_lt]
      · simp [he]
    have ha_item : ∀ m, Blk.item m ∈ σ.allocd ++ [Blk.node n] ↔ m < σ.nextId := by
      intro m; rw [List.mem_append, hown.a_item]; simp
    cases hl : lookupN σ.store ⟨k, v, σ.currSn, 0⟩ with
    | some y =>
      -- rejected: the node and the item go back at once
      simp only [alloc_store, hl]
      have e1 : (free (alloc σ (.node n)) (.node n)).freed = σ.freed ++ [.node n] ∧
          (free (alloc σ (.node n)) (.node n)).bad = σ.bad ∧
          (free (alloc σ (.node n)) (.node n)).allocd = σ.allocd ++ [.node n] :=
        free_live (σ := alloc σ (.node n)) (by simp) (by simpa using hnode_nf)
      have e2 := free_live (σ := free (alloc σ (.node n)) (.node n)) (b := .item n)
        (by rw [e1.2.2]; exact List.mem_append_left _ hitem_a) (by rw [e1.1]; simp [hitem_nf])
      have hcnt : ∀ m, ownC σ.store (σ.threads.set t .idle) σ.gcJobs σ.sess σ.freeSeq σ.frJobs m +
          (if n = m then 1 else 0) = ownC σ.store σ.threads σ.gcJobs σ.sess σ.freeSeq σ.frJobs m := by
        intro m; unfold ownC; have := hthr_cnt m; omega
      refine Inv.mk' (store := σ.store) (unl := σ.unlinked) (cur := σ.currSn) (items := σ.itemsCount)
        (writers := σ.writers) (snaps := σ.snaps) (threads := σ.threads.set t .idle)
        (nextId := σ.nextId) (gcFlag := σ.gcFlag) (gcJobs := σ.gcJobs) (sess := σ.sess) (fs := σ.freeSeq)
        (frJobs := σ.frJobs) (iters := σ.iters) (allocd := σ.allocd ++ [.node n])
        (freed := σ.freed ++ [.node n] ++ [.item n]) (bad := σ.bad)
        (by simp) (by simp) (by simp) (by simp) (by simp) (by simp) (by simp) (by simp) (by simp) (by simp)
        (by simp) (by simp) (by simp) (by simp) (by simp [e2.2.2, e1.2.2]) (by simp only [setPc_freed]; rw [e2.1, e1.1])
        (by simp only [setPc_bad]; rw [e2.2.1, e1.2.1])
        (h.store.set_not_put t hidle.not_put) (h.pc.set_plain t hidle) h.garb ?_
        (h.tok.set_tok_same ht rfl) (h.prot.set_plain ht (by intros; simp) hidle.not_phys hidle.not_cas)
      refine ⟨fun m => by have := hcnt m; have := hown.le m; omega,
        fun m hm => hown.lt m (by have := hcnt m; omega), ha_item, ha_node, ?_, ?_, ?_, ha_nodup, ?_, hown.bad⟩
      · intro m
        have h1 := hcnt m
        rw [List.mem_append, List.mem_append, hown.f_item]
        by_cases he : n = m
        · subst he; simp [hn_lt]; simp at h1; omega
        · simp [he] at h1 ⊢
          have : m ≠ n := fun h => he h.symm
          simp [this, h1]
      · intro m
        have h1 := hcnt m
        rw [List.mem_append, List.mem_append, hown.f_node]
        by_cases he : n = m
        · subst he; simp [hn_lt]; simp at h1; omega
        · simp [he] at h1 ⊢
          have : m ≠ n := fun h => he h.symm
          simp [this, h1]
      · refine ⟨List.mem_append_left _ hown.sent.1, List.mem_append_left _ hown.sent.2.1, ?_, ?_⟩
        · simp [hown.sent.2.2.1]
        · simp [hown.sent.2.2.2]
      · rw [List.nodup_append, List.nodup_append]
        refine ⟨⟨hown.f_nodup, by simp, ?_⟩, by simp, ?_⟩
        · intro a ha b hb he
          simp at hb; subst hb; subst he; exact hnode_nf ha
        · intro a ha b hb he
          simp at hb; subst hb; subst he
          rcases List.mem_append.mp ha with ha | ha
          · exact hitem_nf ha
          · simp at ha
    | none =>
      -- linked
      have hl' : lookupN σ.store ⟨k, v, σ.currSn, 0⟩ = none := hl
      simp only [alloc_store, hl]
      have hst := h.store
      have hlook : Mvcc.lookup (vers σ.store) ⟨k, v, σ.currSn, 0⟩ = none := by
        rw [← lookupN_map, hl']; rfl
      have hno : ∀ y ∈ vers σ.store, y.key = k → y.dead ≠ 0 := by
        rw [Mvcc.lookup_eq_aliveOf hst.sorted hst.chains] at hlook
        exact Mvcc.aliveOf_none hlook
      have hn_store : n ∉ storeIds σ.store := by
        intro hm
        obtain ⟨y, hy, he⟩ := List.mem_map.mp hm
        exact (hst.id_lt y hy).2 (he ▸ hres_n)
      have hcnt : ∀ m, ownC (insertN σ.store ⟨⟨k, v, σ.currSn, 0⟩, n⟩) (σ.threads.set t .idle) σ.gcJobs σ.sess
          σ.freeSeq σ.frJobs m = ownC σ.store σ.threads σ.gcJobs σ.sess σ.freeSeq σ.frJobs m := by
        intro m
        unfold ownC
        have h1 := hthr_cnt m
        have h2 := count_storeIds_insertN σ.store ⟨⟨k, v, σ.currSn, 0⟩, n⟩ m
        simp only at h2
        split at h1 <;> simp_all <;> omega
      have hmem_sub : ∀ m, m ∈ storeIds σ.store → m ∈ storeIds (insertN σ.store ⟨⟨k, v, σ.currSn, 0⟩, n⟩) := by
        intro m hm
        obtain ⟨y, hy, he⟩ := List.mem_map.mp hm
        exact List.mem_map.mpr ⟨y, mem_insertN.mpr (Or.inr hy), he⟩
      refine Inv.mk' (store := insertN σ.store ⟨⟨k, v, σ.currSn, 0⟩, n⟩) (unl := σ.unlinked) (cur := σ.currSn)
        (items := σ.itemsCount) (writers := updWriter t (fun x => { x with count := x.count + 1 }) σ.writers)
        (snaps := σ.snaps) (threads := σ.threads.set t .idle)
        (nextId := σ.nextId) (gcFlag := σ.gcFlag) (gcJobs := σ.gcJobs) (sess := σ.sess) (fs := σ.freeSeq)
        (frJobs := σ.frJobs) (iters := σ.iters) (allocd := σ.allocd ++ [.node n])
        (freed := σ.freed) (bad := σ.bad)
        rfl rfl rfl rfl rfl rfl rfl rfl rfl rfl rfl rfl rfl rfl rfl rfl rfl ?_ ?_ ?_ ?_
        (h.tok.set_tok_same ht rfl) ?_
      · -- store
        refine ⟨?_, ?_, ?_, hst.cur_pos, ?_, ?_, ?_, hst.snaps_inc, hst.snaps_lt, hst.rc_dead⟩
        · rw [vers_insertN]
          exact Mvcc.sorted_insertAt hst.sorted _ (Mvcc.no_same_id_of_no_alive hst.chains k v hno)
        · rw [vers_insertN]
          exact Mvcc.chains_insertAt hst.sorted hst.chains k v hno
        · rw [alive_insertN _ _ rfl, sum_updWriter 1 (fun _ => rfl) hw]
          have := hst.cnt
          push_cast; omega
        · rw [List.nodup_iff_count]
          intro m
          rw [count_storeIds_insertN]
          have h1 := (List.nodup_iff_count.mp hst.ids) m
          by_cases he : n = m
          · subst he
            have : (storeIds σ.store).count n = 0 := List.count_eq_zero.mpr hn_store
            simp [this]
          · simp [he]; exact h1
        · intro x hx
          have := hst.unl x hx
          refine ⟨?_, this.2.1, fun hr => this.2.2 (reserved_set_of_not_put hidle.not_put hr)⟩
          intro hm
          obtain ⟨y, hy, he⟩ := List.mem_map.mp hm
          rcases mem_insertN.mp hy with rfl | hy
          · simp only at he; exact this.2.2 (he ▸ hres_n)
          · exact this.1 (List.mem_map.mpr ⟨y, hy, he⟩)
        · intro x hx
          rcases mem_insertN.mp hx with rfl | hx
          · exact ⟨hn_lt, hnres'⟩
          · have := hst.id_lt x hx
            exact ⟨this.1, fun hr => this.2 (reserved_set_of_not_put hidle.not_put hr)⟩
      · -- pc
        have hpc := h.pc.set_plain t hidle
        rw [updWriter_length]
        refine ⟨hpc.len, hpc.put, ?_, ?_, hpc.fl, hpc.coll, hpc.excl⟩
        · intro t' m tok k' hg
          have := hpc.phys t' m tok k' hg
          refine ⟨this.1, this.2.1, this.2.2.1, ?_⟩
          intro x hx hxm
          rcases mem_insertN.mp hx with rfl | hx
          · exfalso
            rcases get_set_cases hg with ⟨_, he⟩ | ⟨_, hg'⟩
            · cases he
            · exact (h.pc.phys t' m tok k' hg').2.2.1 (hxm ▸ hres_n)
          · exact this.2.2.2 x hx hxm
        · intro t' m tok k' hg
          have := hpc.cas t' m tok k' hg
          refine ⟨this.1, this.2.1, this.2.2.1, ?_, this.2.2.2.2⟩
          intro x hx hxm
          rcases mem_insertN.mp hx with rfl | hx
          · exfalso
            rcases get_set_cases hg with ⟨_, he⟩ | ⟨_, hg'⟩
            · cases he
            · exact (h.pc.cas t' m tok k' hg').2.2.1 (hxm ▸ hres_n)
          · exact this.2.2.2.1 x hx hxm
      · -- garb
        have hg : ∀ m, garbC (updWriter t (fun x => { x with count := x.count + 1 }) σ.writers) σ.snaps σ.gcJobs m =
            garbC σ.writers σ.snaps σ.gcJobs m := by
          intro m; unfold garbC
          rw [garbW_updWriter_same (w := t) (f := fun x => { x with count := x.count + 1 }) (fun _ => rfl) σ.writers]
        refine ⟨fun m => by rw [hg]; exact h.garb.le m, ?_, h.garb.jobs⟩
        intro m hm
        obtain ⟨y, hy, h1⟩ := h.garb.linked m (by rw [← hg]; exact hm)
        exact ⟨y, mem_insertN.mpr (Or.inr hy), h1⟩
      · -- own
        exact ⟨fun m => by rw [hcnt]; exact hown.le m, fun m hm => hown.lt m (by rw [← hcnt]; exact hm), ha_item,
          ha_node, fun m => by rw [hcnt]; exact hown.f_item m, fun m => by rw [hcnt]; exact hown.f_node m,
          ⟨List.mem_append_left _ hown.sent.1, List.mem_append_left _ hown.sent.2.1, hown.sent.2.2⟩,
          ha_nodup, hown.f_nodup, hown.bad⟩
      · -- prot
        have hp := h.prot.set_plain (pc' := .idle) ht (by intros; simp) hidle.not_phys hidle.not_cas
        have hP : ∀ m tok, Prot (σ.threads.set t .idle) σ.store σ.gcJobs σ.sess m tok →
            Prot (σ.threads.set t .idle) (insertN σ.store ⟨⟨k, v, σ.currSn, 0⟩, n⟩) σ.gcJobs σ.sess m tok := by
          intro m tok hpr
          exact hpr.mono (fun h => Or.inl (hmem_sub m h)) (fun tk k h => Or.inr (Or.inl ⟨tk, k, h⟩))
            (fun h => Or.inr (Or.inr (Or.inl h)))
            (fun i s h1 h2 h3 => Or.inr (Or.inr (Or.inr ⟨i, s, h1, h2, h3⟩)))
        exact ⟨fun t' m tok k' hg => hP m tok (hp.phys t' m tok k' hg),
          fun t' m tok k' hg => hP m tok (hp.cas t' m tok k' hg),
          fun key it c hm' hc => hP c.id it.tok (hp.it key it c hm' hc)⟩

end NitroVerif.MvccConc
