/-
  Readers under concurrent modification (C01, concurrent part): what an iterator's cursor knows about
  the node it stands on, and how every action of the machine changes the store and the iterator table.
-/
import NitroVerif.Lemmas.MvccConcLinStep5

namespace NitroVerif.MvccConc
open NitroVerif
open NitroVerif.Mvcc (Ver Sorted Chains)

/-- lexicographic order on `(key, bornSn)` — the physical order of the store -/
def kbLt (a b : Nat × Nat) : Prop := a.1 < b.1 ∨ (a.1 = b.1 ∧ a.2 < b.2)
def kbLe (a b : Nat × Nat) : Prop := kbLt a b ∨ a = b

def Cur.kb (c : Cur) : Nat × Nat := (c.key, c.born)

theorem kbLt_trans {a b c : Nat × Nat} (h1 : kbLt a b) (h2 : kbLt b c) : kbLt a c := by
  unfold kbLt at *; omega
theorem kbLt_of_le_of_lt {a b c : Nat × Nat} (h1 : kbLe a b) (h2 : kbLt b c) : kbLt a c := by
  rcases h1 with h1 | rfl
  · exact kbLt_trans h1 h2
  · exact h2
theorem kbLe_trans {a b c : Nat × Nat} (h1 : kbLe a b) (h2 : kbLe b c) : kbLe a c := by
  rcases h2 with h2 | rfl
  · exact Or.inl (kbLt_of_le_of_lt h1 h2)
  · exact h1
theorem kbLt_irrefl (a : Nat × Nat) : ¬ kbLt a a := by unfold kbLt; omega

/-- what the cursors of the open iterators know, and what makes a re-search after an unlink land
    strictly ahead -/
structure IterInv (σ : State) : Prop where
  cache : ∀ (key : Nat × Nat) (it : Iter) (c : Cur), (key, it) ∈ σ.iters → it.cur = some c →
            ∀ x ∈ σ.store ++ σ.unlinked, x.id = c.id → x.ver.key = c.key ∧ x.ver.born = c.born
  sn : ∀ (key : Nat × Nat) (it : Iter), (key, it) ∈ σ.iters → it.sn < σ.currSn
  unl : ∀ x ∈ σ.unlinked, x.ver.dead ≠ 0 → x.ver.born < σ.currSn
  uniq : ∀ x ∈ σ.unlinked, x.ver.dead ≠ 0 →
            ∀ y ∈ σ.store, ¬ (y.ver.key = x.ver.key ∧ y.ver.born = x.ver.born)
  gone : ∀ (key : Nat × Nat) (it : Iter) (c : Cur), (key, it) ∈ σ.iters → it.cur = some c → c.born ≤ it.sn →
            ∀ x ∈ σ.unlinked, x.id = c.id → x.ver.dead ≠ 0
  somewhere : ∀ (key : Nat × Nat) (it : Iter) (c : Cur), (key, it) ∈ σ.iters → it.cur = some c →
            c.id ∈ storeIds σ.store ∨ ∃ x ∈ σ.unlinked, x.id = c.id

/-! ### the shapes of a step -/

/-- what an action does to the store, the unlinked nodes and the epoch -/
def StoreShape (σ σ' : State) : Prop :=
  (σ'.store = σ.store ∧ σ'.unlinked = σ.unlinked ∧ σ'.currSn = σ.currSn) ∨
  (σ'.store = σ.store ∧ σ'.unlinked = σ.unlinked ∧ σ'.currSn = σ.currSn + 1) ∨
  (∃ n k v, reserved σ.threads n ∧ σ'.store = insertN σ.store ⟨⟨k, v, σ.currSn, 0⟩, n⟩ ∧
      σ'.unlinked = σ.unlinked ∧ σ'.currSn = σ.currSn) ∨
  (∃ n x, findNode σ.store n = some x ∧ σ'.store = removeNode σ.store n ∧ σ'.unlinked = σ.unlinked ++ [x] ∧
      σ'.currSn = σ.currSn ∧ (x.ver.dead ≠ 0 ∨ x.ver.born = σ.currSn)) ∨
  (∃ n x, findNode σ.store n = some x ∧ σ'.store = markDeadNode σ.store n σ.currSn ∧
      σ'.unlinked = σ.unlinked ∧ σ'.currSn = σ.currSn)

/-- what an action of thread `t` does to the iterator table -/
def ItersShape (σ σ' : State) (t : Nat) : Prop :=
  σ'.iters = σ.iters ∨
  (∃ i it it', ((t, i), it) ∈ σ.iters ∧ it'.sn = it.sn ∧
      (it'.cur = none ∨ ∃ y ∈ σ.store, it'.cur = some ⟨y.id, y.ver.key, y.ver.born⟩) ∧
      σ'.iters = setIter (t, i) it' σ.iters) ∨
  (∃ i s tok, findIter (t, i) σ.iters = none ∧ (∃ x ∈ σ.snaps, x.sn = s) ∧
      σ'.iters = setIter (t, i) ⟨s, tok, none⟩ σ.iters) ∨
  (∃ i, σ'.iters = eraseIter (t, i) σ.iters)

theorem ish_landOn {σ : State} {t i : Nat} {it : Iter} {land : Option Node} (hm : ((t, i), it) ∈ σ.iters)
    (hl : ∀ y, land = some y → y ∈ σ.store) : ItersShape σ (landOn σ t i it land).1 t := by
  unfold landOn
  cases land with
  | none => exact Or.inr (Or.inl ⟨i, it, { it with cur := none }, hm, rfl, Or.inl rfl, rfl⟩)
  | some y =>
    simp only
    split
    · exact Or.inr (Or.inl ⟨i, it, { it with cur := some ⟨y.id, y.ver.key, y.ver.born⟩ }, hm, rfl,
        Or.inr ⟨y, hl y rfl, rfl⟩, rfl⟩)
    · exact Or.inr (Or.inl ⟨i, it, { it with cur := some ⟨y.id, y.ver.key, y.ver.born⟩ }, hm, rfl,
        Or.inr ⟨y, hl y rfl, rfl⟩, rfl⟩)

theorem ish_finishClose (σ : State) (t : Nat) (after : Option Nat) : ItersShape σ (finishClose σ t after).1 t := by
  unfold finishClose
  cases after with
  | none => exact Or.inl rfl
  | some i =>
    simp only
    split
    · exact Or.inr (Or.inr (Or.inr ⟨i, rfl⟩))
    · exact Or.inl rfl

theorem ItersShape.pre {σ σ1 σ' : State} {t : Nat} (h : ItersShape σ1 σ' t) (hi : σ1.iters = σ.iters)
    (hs : σ1.store = σ.store) (hsn : ∀ s, (∃ x ∈ σ1.snaps, x.sn = s) → ∃ x ∈ σ.snaps, x.sn = s) :
    ItersShape σ σ' t := by
  rcases h with h | ⟨i, it, it', h1, h2, h3, h4⟩ | ⟨i, s, tok, h1, h2, h3⟩ | ⟨i, h1⟩
  · exact Or.inl (by rw [h, hi])
  · exact Or.inr (Or.inl ⟨i, it, it', by rw [← hi]; exact h1, h2, by rw [← hs]; exact h3, by rw [h4, hi]⟩)
  · exact Or.inr (Or.inr (Or.inl ⟨i, s, tok, by rw [← hi]; exact h1, hsn s h2, by rw [h3, hi]⟩))
  · exact Or.inr (Or.inr (Or.inr ⟨i, by rw [h1, hi]⟩))

theorem ish_collectLoop (σ : State) (t : Nat) (after : Option Nat) : ItersShape σ (collectLoop σ t after).1 t := by
  unfold collectLoop
  split
  · exact Or.inl rfl
  · split
    · exact Or.inl rfl
    · exact (ish_finishClose { σ with gcFlag := false } t after).pre rfl rfl (fun _ h => h)

theorem updSnap_sn_exists {snaps : List Snap} {s : Nat} {f : Snap → Snap} (hf : ∀ x, (f x).sn = x.sn) (s' : Nat) :
    (∃ x ∈ updSnap s f snaps, x.sn = s') → ∃ x ∈ snaps, x.sn = s' := by
  rintro ⟨y, hy, hys⟩
  obtain ⟨x, hx, rfl⟩ := mem_updSnap hy
  refine ⟨x, hx, ?_⟩
  split at hys
  · rw [hf] at hys; exact hys
  · exact hys

theorem ish_closeRef (σ : State) (t s : Nat) (rc : Int) (after : Option Nat) :
    ItersShape σ (closeRef σ t s rc after).1 t := by
  unfold closeRef runGC
  split
  · split
    · exact (ish_finishClose _ t after).pre rfl rfl (updSnap_sn_exists (fun _ => rfl))
    · exact (ish_collectLoop _ t after).pre rfl rfl (updSnap_sn_exists (fun _ => rfl))
  · exact (ish_finishClose _ t after).pre rfl rfl (updSnap_sn_exists (fun _ => rfl))

theorem ish_startClose (σ : State) (t s : Nat) : ItersShape σ (startClose σ t s).1 t := by
  unfold startClose
  split
  · split
    · exact (ish_closeRef _ t s _ none).pre rfl rfl (updSnap_sn_exists (fun _ => rfl))
    · exact Or.inl rfl
  · exact Or.inl rfl

theorem ish_itClose (σ : State) (t i : Nat) : ItersShape σ (itClose σ t i).1 t := by
  unfold itClose
  split
  · split
    · exact ish_closeRef _ _ _ _ _
    · exact Or.inl rfl
  · exact Or.inl rfl

theorem ish_stepCollect (σ : State) (t sn : Nat) (after : Option Nat) :
    ItersShape σ (stepCollect σ t sn after).1 t := by
  unfold stepCollect
  split
  · exact (ish_collectLoop _ t after).pre rfl rfl (updSnap_sn_exists (fun _ => rfl))
  · exact Or.inl rfl

theorem ish_itNew (σ : State) (t i s : Nat) : ItersShape σ (itNew σ t i s).1 t := by
  unfold itNew
  cases hs : findSnap s σ.snaps with
  | none => exact Or.inl rfl
  | some x =>
    cases hf : findIter (t, i) σ.iters with
    | some _ => exact Or.inl rfl
    | none =>
      simp only
      split
      · exact Or.inl rfl
      · have ⟨hxm, hxs⟩ := findSnap_some hs
        exact Or.inr (Or.inr (Or.inl ⟨i, s, curTok σ, hf, ⟨x, hxm, hxs⟩, rfl⟩))

theorem ish_itFirst (σ : State) (t i : Nat) : ItersShape σ (itFirst σ t i).1 t := by
  unfold itFirst
  cases hf : findIter (t, i) σ.iters with
  | none => exact Or.inl rfl
  | some it => exact ish_landOn (findIter_some hf) (fun y hy => List.mem_of_head? hy)

theorem ish_itNext (σ : State) (t i : Nat) : ItersShape σ (itNext σ t i).1 t := by
  unfold itNext
  split
  · split <;> exact Or.inl rfl
  · exact Or.inl rfl

theorem ish_stepIter (σ : State) (t i : Nat) : ItersShape σ (stepIter σ t i).1 t := by
  unfold stepIter
  cases hf : findIter (t, i) σ.iters with
  | none => exact Or.inl rfl
  | some it =>
    simp only
    split
    · split
      · exact Or.inl rfl
      · split
        · exact ish_landOn (findIter_some hf) (fun y hy => succN_mem hy)
        · split
          · exact Or.inl rfl
          · exact ish_landOn (findIter_some hf) (fun y hy => seekN_mem hy)
    · exact Or.inl rfl

end NitroVerif.MvccConc
