import NitroVerif.Lemmas.SkipConcGen
/-!
  Heap algebra of the M5 model: the order on keys, reading a word after `setWord` / `dcas` / an append,
  and the heap-evolution preorder `Ext` (H3 + permanence of marks + immutability of keys and heights).
-/
namespace NitroVerif.SkipConc

/-! ### the order on keys -/

theorem Key.lt_irrefl (a : Key) : ¬ Key.lt a a := by
  cases a <;> simp [Key.lt]

theorem Key.lt_trans {a b c : Key} : Key.lt a b → Key.lt b c → Key.lt a c := by
  cases a <;> cases b <;> cases c <;> simp [Key.lt] <;> omega

theorem Key.lt_asymm {a b : Key} : Key.lt a b → ¬ Key.lt b a := by
  cases a <;> cases b <;> simp [Key.lt] <;> omega

theorem Key.lt_ne {a b : Key} : Key.lt a b → a ≠ b := by
  intro h e; subst e; exact Key.lt_irrefl _ h

theorem Key.neg_lt_fin (k : Nat) : Key.lt .neg (.fin k) := by simp [Key.lt]

/-! ### reading after writing -/

theorem length_setWord (h : Heap) (n l : Nat) (w : Nat × Bool) : (setWord h n l w).length = h.length := by
  simp [setWord]

theorem getElem?_setWord (h : Heap) (n l : Nat) (w : Nat × Bool) (n' : Nat) :
    (setWord h n l w)[n']? =
      (h[n']?).map fun nd => if n = n' then { nd with next := nd.next.set l w } else nd := by
  simp [setWord, List.getElem?_modify]

theorem keyOf_setWord (h : Heap) (n l : Nat) (w : Nat × Bool) (n' : Nat) :
    keyOf (setWord h n l w) n' = keyOf h n' := by
  unfold keyOf
  rw [getElem?_setWord]
  cases h[n']? <;> simp
  split <;> rfl

theorem heightOf_setWord (h : Heap) (n l : Nat) (w : Nat × Bool) (n' : Nat) :
    heightOf (setWord h n l w) n' = heightOf h n' := by
  unfold heightOf
  rw [getElem?_setWord]
  cases h[n']? <;> simp
  split <;> rfl

theorem word?_setWord (h : Heap) (n l : Nat) (w : Nat × Bool) (n' l' : Nat) :
    word? (setWord h n l w) n' l' =
      if n' = n ∧ l' = l ∧ (word? h n l).isSome then some w else word? h n' l' := by
  unfold word?
  rw [getElem?_setWord]
  by_cases hn : n' = n
  · subst hn
    cases hh : h[n']? with
    | none => simp
    | some nd =>
      simp [List.getElem?_set]
      by_cases hl : l' = l
      · subst hl
        by_cases hlt : l' < nd.next.length
        · simp [hlt]
        · simp [hlt]
      · have : ¬ l = l' := fun e => hl e.symm
        simp [hl, this]
  · have : ¬ n = n' := fun e => hn e.symm
    cases hh : h[n']? <;> simp [hn, this]

theorem word?_lt {h : Heap} {n l : Nat} {w : Nat × Bool} (hw : word? h n l = some w) : n < h.length := by
  unfold word? at hw
  cases hh : h[n]? with
  | none => simp [hh] at hw
  | some nd => exact (List.getElem?_eq_some_iff.mp hh).1

theorem keyOf_append_lt (h : Heap) (x : Node) {n : Nat} (hn : n < h.length) :
    keyOf (h ++ [x]) n = keyOf h n := by
  unfold keyOf; rw [List.getElem?_append_left hn]

theorem heightOf_append_lt (h : Heap) (x : Node) {n : Nat} (hn : n < h.length) :
    heightOf (h ++ [x]) n = heightOf h n := by
  unfold heightOf; rw [List.getElem?_append_left hn]

theorem word?_append_lt (h : Heap) (x : Node) {n : Nat} (hn : n < h.length) (l : Nat) :
    word? (h ++ [x]) n l = word? h n l := by
  unfold word?; rw [List.getElem?_append_left hn]

theorem keyOf_append_new (h : Heap) (x : Node) : keyOf (h ++ [x]) h.length = x.key := by
  unfold keyOf; simp

theorem heightOf_append_new (h : Heap) (x : Node) : heightOf (h ++ [x]) h.length = x.height := by
  unfold heightOf; simp

theorem word?_append_new (h : Heap) (x : Node) (l : Nat) : word? (h ++ [x]) h.length l = x.next[l]? := by
  unfold word?; simp

theorem word?_ge {h : Heap} {n : Nat} (hn : h.length ≤ n) (l : Nat) : word? h n l = none := by
  unfold word?; rw [List.getElem?_eq_none hn]; rfl

/-! ### heap evolution -/

/-- `Ext h h'`: `h'` is a possible later heap.  Nodes are only added, keys and heights are immutable,
    words exist at the same places, and a MARKED word never changes (H3; with it, marks are permanent). -/
structure Ext (h h' : Heap) : Prop where
  len : h.length ≤ h'.length
  key : ∀ n, n < h.length → keyOf h' n = keyOf h n
  height : ∀ n, n < h.length → heightOf h' n = heightOf h n
  dom : ∀ n l, n < h.length → ((word? h' n l).isSome ↔ (word? h n l).isSome)
  marked : ∀ n l p, word? h n l = some (p, true) → word? h' n l = some (p, true)

theorem Ext.refl (h : Heap) : Ext h h :=
  ⟨Nat.le_refl _, fun _ _ => rfl, fun _ _ => rfl, fun _ _ _ => Iff.rfl, fun _ _ _ x => x⟩

theorem Ext.trans {a b c : Heap} (h1 : Ext a b) (h2 : Ext b c) : Ext a c where
  len := Nat.le_trans h1.len h2.len
  key n hn := by rw [h2.key n (Nat.lt_of_lt_of_le hn h1.len), h1.key n hn]
  height n hn := by rw [h2.height n (Nat.lt_of_lt_of_le hn h1.len), h1.height n hn]
  dom n l hn := (h2.dom n l (Nat.lt_of_lt_of_le hn h1.len)).trans (h1.dom n l hn)
  marked n l p hw := h2.marked n l p (h1.marked n l p hw)

/-- overwriting an UNMARKED word is a legal evolution -/
theorem Ext.setWord {h : Heap} {n l : Nat} {p : Nat} (hw : word? h n l = some (p, false)) (w : Nat × Bool) :
    Ext h (setWord h n l w) where
  len := by rw [length_setWord]; exact Nat.le_refl _
  key n' _ := keyOf_setWord ..
  height n' _ := heightOf_setWord ..
  dom n' l' _ := by
    rw [word?_setWord]
    by_cases hc : n' = n ∧ l' = l ∧ (word? h n l).isSome
    · rw [if_pos hc]; obtain ⟨rfl, rfl, hs⟩ := hc; simp [hs]
    · rw [if_neg hc]
  marked n' l' q hq := by
    rw [word?_setWord]
    by_cases hc : n' = n ∧ l' = l ∧ (word? h n l).isSome
    · obtain ⟨rfl, rfl, _⟩ := hc; rw [hw] at hq; simp at hq
    · rw [if_neg hc]; exact hq

theorem Ext.append (h : Heap) (x : Node) : Ext h (h ++ [x]) where
  len := by simp
  key n hn := keyOf_append_lt h x hn
  height n hn := heightOf_append_lt h x hn
  dom n l hn := by rw [word?_append_lt h x hn]
  marked n l p hw := by rw [word?_append_lt h x (word?_lt hw)]; exact hw

/-- H3 for `dcas`: whatever it does is a legal evolution (it expects an unmarked word) -/
theorem Ext.dcas (h : Heap) (n l e p : Nat) (m : Bool) : Ext h (dcas h n l e p m).1 := by
  unfold SkipConc.dcas
  by_cases hw : word? h n l = some (e, false)
  · rw [if_pos hw]; exact Ext.setWord hw _
  · rw [if_neg hw]; exact Ext.refl _

theorem dcas_ok_iff (h : Heap) (n l e p : Nat) (m : Bool) :
    (dcas h n l e p m).2 = true ↔ word? h n l = some (e, false) := by
  unfold dcas; by_cases hw : word? h n l = some (e, false) <;> simp [hw]

theorem dcas_fail (h : Heap) (n l e p : Nat) (m : Bool) (hf : (dcas h n l e p m).2 = false) :
    (dcas h n l e p m).1 = h := by
  unfold dcas at *; by_cases hw : word? h n l = some (e, false) <;> simp_all

theorem dcas_ok_heap (h : Heap) (n l e p : Nat) (m : Bool) (hs : (dcas h n l e p m).2 = true) :
    (dcas h n l e p m).1 = setWord h n l (p, m) := by
  unfold dcas at *; by_cases hw : word? h n l = some (e, false) <;> simp_all

/-- reading after a successful dcas -/
theorem word?_dcas_ok {h : Heap} {n l e p : Nat} {m : Bool} (hs : (dcas h n l e p m).2 = true) (n' l' : Nat) :
    word? (dcas h n l e p m).1 n' l' = if n' = n ∧ l' = l then some (p, m) else word? h n' l' := by
  rw [dcas_ok_heap _ _ _ _ _ _ hs, word?_setWord]
  have hw := (dcas_ok_iff ..).mp hs
  simp [hw]

theorem getNext_of_word {h : Heap} {n l : Nat} {w : Nat × Bool} (hw : word? h n l = some w) :
    getNext h n l = w := by simp [getNext, hw]

/-- a `getNext` that reports the mark has read an existing marked word -/
theorem word?_of_getNext_marked {h : Heap} {n l : Nat} (hm : (getNext h n l).2 = true) :
    word? h n l = some ((getNext h n l).1, true) := by
  unfold getNext at *
  cases hw : word? h n l with
  | none => simp [hw] at hm
  | some w => simp [hw] at hm ⊢; cases w; simp_all

end NitroVerif.SkipConc
