import NitroVerif.Gen.Shapes
/-!
  Pinned control shapes, area Backup: the functions of /repo the models of this area mirror have, today, exactly
  these shapes (tools/gofacts/shapes.go).  `Gen/Shapes.lean` is regenerated from the working tree on every run; a change
  of an operator, bound, call, early return or loop in one of these functions breaks the lemma named after it.
  Expectations are maintained by hand (bootstrap: `go run . -shape-lemmas Backup`).
-/
namespace NitroVerif.ShapeTie.Backup
open NitroVerif.Gen.Shape

/-- nitro.go `*Nitro.StoreToDisk` -/
theorem shape_StoreToDisk_ok : Backup_StoreToDisk =
    ["defer", "if(!)", "Close", "Lock", "if()", "Unlock", "return(_)", "if()", "Add", "defer", "Done", "Unlock", "Join", "MkdirAll", "NumCPU", "defer", "range", "if(!= nil)", "if(!= nil && == nil)", "Close", "for(<)", "++", "newFileWriter", "Join", "if(!= nil)", "Open", "return(_)", "if()", "numWriters", "numWriters", "numWriters", "defer", "range", "if(!= nil)", "if(!= nil && == nil)", "Close", "Join", "MkdirAll", "for(<)", "numWriters", "++", "newFileWriter", "Join", "if(!= nil)", "Open", "return(_)", "if(!= nil)", "changeDeltaWrState", "return(_)", "Close", "defer", "if(== nil)", "changeDeltaWrState", "Marshal", "WriteFile", "Join", "if(== nil)", "range", "Checksum", "Marshal", "WriteFile", "Join", "if()", "return(_)", "if(!= nil)", "WriteItem", "return(_)", "if(!= nil)", "itmCallback", "return(nil)", "Marshal", "if(== nil)", "WriteFile", "Join", "if(== nil)", "Visitor", "Marshal", "WriteFile", "Join", "if(== nil)", "range", "Checksum", "Marshal", "WriteFile", "Join", "return(_)"] := rfl

/-- nitro.go `*Nitro.LoadFromDisk` -/
theorem shape_LoadFromDisk_ok : Backup_LoadFromDisk =
    ["if-else(== nil)", "ReadFile", "Join", "if(!= nil)", "Unmarshal", "return(nil,_)", "if(!)", "IsNotExist", "return(nil,_)", "Join", "if(!= nil)", "ReadFile", "Join", "return(nil,_)", "if(!= nil)", "Unmarshal", "return(nil,_)", "if-else(== nil)", "ReadFile", "Join", "if(!= nil)", "Unmarshal", "return(nil,_)", "if(!=)", "return(nil,_)", "NewBuilderWithConfig", "newStoreConfig", "SetItemSizeFunc", "if(!= nil)", "callb", "Item", "defer", "range", "if(!= nil)", "Close", "range", "NewSegment", "SetNodeCallback", "newFileReader", "Join", "if(!= nil)", "Open", "return(nil,_)", "for(<)", "++", "Add", "go", "defer", "Done", "range", "label loop", "for()", "ReadItem", "if(!= nil)", "break loop", "if(== nil)", "break loop", "Add", "range", "send", "close", "Wait", "range", "if(&& !=)", "Checksum", "return(nil,_)", "range", "if(!= nil)", "return(nil,_)", "if()", "FreeNode", "HeadNode", "FreeNode", "TailNode", "Assemble", "if()", "Join", "if(== nil)", "ReadFile", "Join", "if(!= nil)", "Unmarshal", "return(nil,_)", "if(== nil)", "ReadFile", "Join", "if(!= nil)", "Unmarshal", "return(nil,_)", "if(!=)", "return(nil,_)", "defer", "range", "if(!= nil)", "Close", "range", "newFileReader", "Join", "if(!= nil)", "Open", "return(nil,_)", "for(<)", "++", "newWriter", "Add", "go", "defer", "Done", "range", "label loop", "for()", "ReadItem", "if(!= nil)", "break loop", "if(== nil)", "break loop", "if-else()", "Insert2", "++", "if(!= nil)", "nodeCallb", "freeItem", "++", "Merge", "AddUint64", "AddUint64", "range", "send", "close", "Wait", "range", "if(&& !=)", "Checksum", "return(nil,_)", "range", "if(!= nil)", "return(nil,_)", "GetStats", "return(_)", "NewSnapshot"] := rfl

/-- nitro.go `*Writer.doCheckpoint` -/
theorem shape_doCheckpoint_ok : Backup_doCheckpoint =
    ["switch", "case()", "send", "case()", "send"] := rfl

/-- nitro.go `*Writer.doDeltaWrite` -/
theorem shape_doDeltaWrite_ok : Backup_doDeltaWrite =
    ["if(==)", "if(<= && >)", "if(!= nil)", "WriteItem"] := rfl

/-- nitro.go `*deltaWrContext.Init` -/
theorem shape_deltaWrInit_ok : Backup_deltaWrInit =
    [] := rfl

/-- nitro.go `*Nitro.changeDeltaWrState` -/
theorem shape_changeDeltaWrState_ok : Backup_changeDeltaWrState =
    ["for(!= nil)", "if(==)", "select", "comm", "send", "break", "comm", "return(_)", "select", "comm", "if(!= nil)", "break", "comm", "return(_)", "return(_)"] := rfl

/-- nitro.go `*Nitro.numWriters` -/
theorem shape_numWriters_ok : Backup_numWriters =
    ["for(!= nil)", "++", "return(_)"] := rfl

/-- nitro.go `*Snapshot.Encode` -/
theorem shape_SnapshotEncode_ok : Backup_SnapshotEncode =
    ["if(<)", "return(_)", "PutUint32", "if(!= nil)", "Write", "return(_)", "return(nil)"] := rfl

/-- nitro.go `*Snapshot.Decode` -/
theorem shape_SnapshotDecode_ok : Backup_SnapshotDecode =
    ["if(!= nil)", "ReadFull", "return(_)", "Uint32", "return(nil)"] := rfl

end NitroVerif.ShapeTie.Backup
