import NitroVerif.Lemmas.SkipConcScan
/-!
  Whole-scan reasoning, part 2: the INSTRUMENTED RUN and the scan invariant behind `C15_complete`.

  A scan of iterator `it` of thread `t` = an effective `start t (it_first it)` or `start t (it_seek it x)` followed
  by `it_next it` calls and explicit `it_refresh it` calls (the public `Refresh()`) of the same thread in any order,
  interleaved arbitrarily with everything else.  The ghost record `Ghost`
  (history variables; NOT part of the model, `runG_fst` proves the projection of the instrumented run equal to
  `Sys.run`) remembers for the current scan: the heap length when its first call started, the seek key, and the list
  of cursor nodes after each completed call (`positions`, with the heap length at each return in `stamps`).

  HOW AN EXPLICIT REFRESH IS RECORDED (`Ghost.refreshing`, `Ghost.onStep`).  `refreshing` is set by the accepted entry
  of `it_refresh it` and cleared when that call returns.  When the call returns
    * on the node that is already the last position (the node under the cursor was still there): NOTHING NEW is
      delivered — `positions` does not grow; the stamp of that last position is replaced by the number of published
      nodes at this return (the node has just been found again by a search, so what is known about it — `Uniq`, and
      hence "an equal key afterwards comes from a node published later" — now holds for the later state);
    * on another node (the node under the cursor was deleted meanwhile, Seek(item) landed behind it): that node is the
      cursor, i.e. what the user's next `Get()` returns, so it IS a returned position and is appended like the result
      of a Next.
  In both cases `returns` grows (the call has returned a position).  Returns of Seek / Next (the automatic refresh
  inside Next included) always append: the "same node" rule is applied to explicit refreshes only, so a Next that
  stayed on its node would show up as a violation of `C15_monotone`, not be hidden by the ghost.

  Invariant `ScanInv` (per phase of the call in progress): every node published before the scan started, unmarked
  now, not the head and with key ≥ the seek key is one of `positions` or is reachable along level 0 from the
  cursor (phases: between calls / at ITER_NEXT / at HELP_DELETE of Next, `Cov`), or — while a findPath for the
  iterator is running — has a key ≥ the searched item (`CovK`); `search_end_reach` converts the latter back into
  the former when findPath returns.
-/
namespace NitroVerif.SkipConc
open NitroVerif

structure Ghost where
  /-- a scan of the iterator has started and the iterator was not closed since -/
  active : Bool := false
  /-- heap length (= number of published nodes) when the first call of the scan started -/
  startLen : Nat := 0
  /-- the seek key; `none` for SeekFirst -/
  lo : Option Nat := none
  /-- cursor node after each completed call of the scan -/
  positions : List Nat := []
  /-- heap length in the state each of those calls returned -/
  stamps : List Nat := []
  /-- number of calls on the iterator that have returned a position so far (over all its scans; explicit refreshes
      included, whether they land on the same node or on a later one) -/
  returns : Nat := 0
  /-- an explicit `Refresh()` of the iterator (`Op.itRefresh`) has been entered and has not returned yet -/
  refreshing : Bool := false
deriving Repr, DecidableEq

/-- ghost update of a segment of the scanning thread: a call on the iterator returns (the thread becomes idle).
    An explicit refresh that returns on the node that is already the last position does not grow `positions` (only the
    stamp of that position is renewed); every other return appends the cursor. -/
def Ghost.onStep (g : Ghost) (it : Nat) (th : Thread) (r : Res) : Ghost :=
  if pcIter th.pc = some it ∧ isIdle r.2.1.pc = true then
    if g.refreshing = true ∧ g.positions.getLast? = some (r.2.1.iter it).curr then
      { g with stamps := g.stamps.dropLast ++ [r.1.heap.length], returns := g.returns + 1, refreshing := false }
    else
      { g with positions := g.positions ++ [(r.2.1.iter it).curr], stamps := g.stamps ++ [r.1.heap.length],
               returns := g.returns + 1, refreshing := false }
  else g

/-- ghost update of a call entry of the scanning thread -/
def Ghost.onStart (g : Ghost) (it : Nat) (sh : Shared) (th : Thread) : Op → Ghost
  | .itFirst it' =>
    if it' = it then
      { active := true, startLen := sh.heap.length, lo := none,
        positions := [((startOp sh th (.itFirst it)).2.1.iter it).curr], stamps := [sh.heap.length],
        returns := g.returns + 1 }
    else g
  | .itSeek it' x =>
    if it' = it then
      { active := true, startLen := sh.heap.length, lo := some x, positions := [], stamps := [], returns := g.returns }
    else g
  | .itClose it' => if it' = it then { g with active := false } else g
  | .itRefresh it' =>
    -- `refreshing` = the entry was accepted (the thread is parked at ITER_REFRESH); a refused entry changes nothing
    if it' = it then { g with refreshing := !isIdle (startOp sh th (.itRefresh it)).2.1.pc } else g
  | _ => g

/-- the history variables of the scan of iterator `it` of thread `t`, updated along an action -/
def ghostAct (t it : Nat) (s : Sys) (g : Ghost) : Action → Ghost
  | .start t' op =>
    match s.threads[t']? with
    | some th => if t' = t ∧ isIdle th.pc = true then g.onStart it s.sh th op else g
    | none => g
  | .step t' =>
    match s.threads[t']? with
    | some th => if t' = t then g.onStep it th (stepThread s.sh th) else g
    | none => g

def Sys.actG (t it : Nat) (sg : Sys × Ghost) (a : Action) : Sys × Ghost :=
  (sg.1.act a, ghostAct t it sg.1 sg.2 a)

/-- the instrumented run -/
def Sys.runG (t it : Nat) (sg : Sys × Ghost) (as : List Action) : Sys × Ghost := as.foldl (Sys.actG t it) sg

/-- the instrumented run projects onto the run of the model -/
theorem runG_fst (t it : Nat) (sg : Sys × Ghost) (as : List Action) : (Sys.runG t it sg as).1 = sg.1.run as := by
  induction as generalizing sg with
  | nil => rfl
  | cons a r ih =>
    simp only [Sys.runG, List.foldl_cons] at ih ⊢
    rw [ih]
    rfl

theorem runG_append (t it : Nat) (sg : Sys × Ghost) (as bs : List Action) :
    Sys.runG t it sg (as ++ bs) = Sys.runG t it (Sys.runG t it sg as) bs := by
  simp [Sys.runG, List.foldl_append]

/-! ### the invariant -/

/-- node `a` is stable for the scan: published before the scan started, not the head, unmarked at level 0 now,
    key not below the seek key -/
def SStable (h : Heap) (L : Nat) (lo : Option Nat) (a : Nat) : Prop :=
  a < L ∧ a ≠ 0 ∧ unmarked0 h a ∧ ∀ x, lo = some x → ¬ Key.lt (keyOf h a) (.fin x)

/-- every stable node has been returned or is reachable along level 0 from `c` -/
def Cov (h : Heap) (L : Nat) (lo : Option Nat) (ps : List Nat) (c : Nat) : Prop :=
  ∀ a, SStable h L lo a → a ∈ ps ∨ Reach h c a

/-- every stable node has been returned or has a key ≥ `k` -/
def CovK (h : Heap) (L : Nat) (lo : Option Nat) (ps : List Nat) (k : Nat) : Prop :=
  ∀ a, SStable h L lo a → a ∈ ps ∨ ¬ Key.lt (keyOf h a) (.fin k)

def searchOf : PC → Option FP
  | .findLevel fp => some fp
  | .findNext fp _ => some fp
  | .helpDelete fp _ => some fp
  | _ => none

theorem pcIter_of_searchOf {pc : PC} {fp : FP} (h : searchOf pc = some fp) : pcIter pc = contIter fp.cont := by
  cases pc <;> simp [searchOf] at h <;> subst h <;> rfl

def ScanInv (h : Heap) (g : Ghost) (it : Nat) (th : Thread) : Prop :=
  g.startLen ≤ h.length ∧
  (((pcIter th.pc ≠ some it ∨ th.pc = .iterNext it ∨ ∃ n, th.pc = .iterHelp it n) ∧
      Cov h g.startLen g.lo g.positions (th.iter it).curr ∧ ∃ ps0, g.positions = ps0 ++ [(th.iter it).curr]) ∨
   (th.pc = .iterRefresh it ∧ Cov h g.startLen g.lo g.positions (th.iter it).curr) ∨
   (∃ fp, searchOf th.pc = some fp ∧ contIter fp.cont = some it ∧ g.startLen ≤ fp.startLen ∧
      CovK h g.startLen g.lo g.positions fp.item ∧
      (fp.cont = .iterNext it → ∃ ps0, g.positions = ps0 ++ [(th.iter it).curr])))

/-! ### stability under the steps of any thread -/

theorem SStable.back {h h' : Heap} (e : Ext h h') {L : Nat} {lo : Option Nat} {a : Nat} (hL : L ≤ h.length)
    (s : SStable h' L lo a) : SStable h L lo a := by
  have hn : a < h.length := Nat.lt_of_lt_of_le s.1 hL
  refine ⟨s.1, s.2.1, unmarked0_back e hn s.2.2.1, fun x hx => ?_⟩
  rw [← e.key a hn]; exact s.2.2.2 x hx

theorem Cov.stable {h h' : Heap} {ev : Event} (H : HInv h) (e : Ext h h') (s : HStep h ev h') {L : Nat}
    {lo : Option Nat} {ps : List Nat} {c : Nat} (hL : L ≤ h.length) (b : Cov h L lo ps c) : Cov h' L lo ps c := by
  intro a ha
  rcases b a (ha.back e hL) with hm | hr
  · exact .inl hm
  · exact .inr (s.reach_keep H hr ha.2.2.1)

theorem CovK.stable {h h' : Heap} (e : Ext h h') {L : Nat} {lo : Option Nat} {ps : List Nat} {k : Nat}
    (hL : L ≤ h.length) (b : CovK h L lo ps k) : CovK h' L lo ps k := by
  intro a ha
  rcases b a (ha.back e hL) with hm | hr
  · exact .inl hm
  · refine .inr ?_
    rw [e.key a (Nat.lt_of_lt_of_le ha.1 hL)]; exact hr

theorem Cov.append {h : Heap} {L : Nat} {lo : Option Nat} {ps : List Nat} {c : Nat} (b : Cov h L lo ps c) (x : Nat) :
    Cov h L lo (ps ++ [x]) c := by
  intro a ha
  rcases b a ha with hm | hr
  · exact .inl (by simp [hm])
  · exact .inr hr

/-- a step of ANOTHER thread keeps the scan invariant of the scanning thread -/
theorem ScanInv.stable {h h' : Heap} {ev : Event} (H : HInv h) (e : Ext h h') (s : HStep h ev h') {g : Ghost}
    {it : Nat} {th : Thread} (b : ScanInv h g it th) : ScanInv h' g it th := by
  obtain ⟨hL, b⟩ := b
  refine ⟨Nat.le_trans hL e.len, ?_⟩
  rcases b with ⟨hp, hc, hm⟩ | ⟨hp, hc⟩ | ⟨fp, h1, h2, h3, h4, h5⟩
  · exact .inl ⟨hp, hc.stable H e s hL, hm⟩
  · exact .inr (.inl ⟨hp, hc.stable H e s hL⟩)
  · exact .inr (.inr ⟨fp, h1, h2, h3, h4.stable e hL, h5⟩)

/-! ### the scanning thread's own segments -/

theorem Ghost.onStep_stay (g : Ghost) (it : Nat) (th : Thread) (r : Res) (h : isIdle r.2.1.pc = false) :
    g.onStep it th r = g := by
  unfold Ghost.onStep
  rw [if_neg]
  rw [h]; simp

theorem Ghost.onStep_other (g : Ghost) (it : Nat) (th : Thread) (r : Res) (h : pcIter th.pc ≠ some it) :
    g.onStep it th r = g := by
  unfold Ghost.onStep
  rw [if_neg]
  exact fun c => h c.1

/-- what a returning segment of a call on the iterator does to the history variables -/
theorem Ghost.onStep_ret (g : Ghost) (it : Nat) (th : Thread) (r : Res) (hown : pcIter th.pc = some it)
    (hidle : isIdle r.2.1.pc = true) :
    (g.onStep it th r).startLen = g.startLen ∧ (g.onStep it th r).lo = g.lo ∧
    (g.onStep it th r).active = g.active ∧ (g.onStep it th r).returns = g.returns + 1 ∧
    (((g.onStep it th r).positions = g.positions ∧ (g.onStep it th r).stamps = g.stamps.dropLast ++ [r.1.heap.length] ∧
        g.refreshing = true ∧ g.positions.getLast? = some (r.2.1.iter it).curr) ∨
     ((g.onStep it th r).positions = g.positions ++ [(r.2.1.iter it).curr] ∧
        (g.onStep it th r).stamps = g.stamps ++ [r.1.heap.length] ∧
        ¬ (g.refreshing = true ∧ g.positions.getLast? = some (r.2.1.iter it).curr))) := by
  unfold Ghost.onStep
  rw [if_pos ⟨hown, hidle⟩]
  by_cases hc : g.refreshing = true ∧ g.positions.getLast? = some (r.2.1.iter it).curr
  · rw [if_pos hc]
    exact ⟨rfl, rfl, rfl, rfl, .inl ⟨rfl, rfl, hc.1, hc.2⟩⟩
  · rw [if_neg hc]
    exact ⟨rfl, rfl, rfl, rfl, .inr ⟨rfl, rfl, hc⟩⟩

theorem Ghost.onStep_active (g : Ghost) (it : Nat) (th : Thread) (r : Res) : (g.onStep it th r).active = g.active := by
  unfold Ghost.onStep
  split
  · split <;> rfl
  · rfl

/-- the scan invariant reads only `startLen`, `lo` and `positions` of the history variables -/
theorem ScanInv.congr {h : Heap} {g g' : Ghost} {it : Nat} {th : Thread} (e1 : g'.startLen = g.startLen)
    (e2 : g'.lo = g.lo) (e3 : g'.positions = g.positions) (b : ScanInv h g it th) : ScanInv h g' it th := by
  unfold ScanInv at *
  rw [e1, e2, e3]; exact b

/-- the cursor has arrived at a node from which everything not yet returned is reachable, and the call either
    returns or parks before the automatic refresh -/
theorem ScanInv.arrive {g : Ghost} {it : Nat} {th : Thread} {r : Res} (hown : pcIter th.pc = some it)
    (hL : g.startLen ≤ r.1.heap.length)
    (hcov : Cov r.1.heap g.startLen g.lo g.positions (r.2.1.iter it).curr)
    (hpc : r.2.1.pc = .idle ∨ r.2.1.pc = .iterRefresh it) : ScanInv r.1.heap (g.onStep it th r) it r.2.1 := by
  rcases hpc with h | h
  · obtain ⟨e1, e2, _, _, hpos⟩ := g.onStep_ret it th r hown (by rw [h]; rfl)
    unfold ScanInv
    rw [e1, e2]
    refine ⟨hL, .inl ⟨.inl (by rw [h]; simp [pcIter]), ?_, ?_⟩⟩
    · rcases hpos with ⟨hp, _⟩ | ⟨hp, _⟩
      · rw [hp]; exact hcov
      · rw [hp]; exact hcov.append _
    · rcases hpos with ⟨hp, _, _, hl⟩ | ⟨hp, _⟩
      · rw [hp]; exact List.getLast?_eq_some_iff.mp hl
      · exact ⟨g.positions, hp⟩
  · rw [g.onStep_stay it th r (by rw [h]; rfl)]
    exact ⟨hL, .inr (.inl ⟨h, hcov⟩)⟩

theorem Reach.tail_of_ne {h : Heap} {a c : Nat} (r : Reach h a c) (hne : c ≠ a) : Reach h (getNext h a 0).1 c := by
  cases r with
  | refl => exact absurd rfl hne
  | step hw r' => rw [getNext_of_word hw]; exact r'

theorem own_other {sh : Shared} {th : Thread} {g : Ghost} {it : Nat} (H : HInv sh.heap)
    (e : Ext sh.heap (stepThread sh th).1.heap) {ev : Event} (hs : HStep sh.heap ev (stepThread sh th).1.heap)
    (inv : ScanInv sh.heap g it th) (hp : pcIter th.pc ≠ some it) :
    ScanInv (stepThread sh th).1.heap (g.onStep it th (stepThread sh th)) it (stepThread sh th).2.1 := by
  rw [g.onStep_other it th _ hp]
  obtain ⟨h1, h2⟩ := step_other (sh := sh) hp
  have hi := iter_of_iter? h2
  obtain ⟨hL, b⟩ := inv
  refine ⟨Nat.le_trans hL e.len, ?_⟩
  rcases b with ⟨_, hc, hm⟩ | ⟨hpc, _⟩ | ⟨fp, hf, hcn, _⟩
  · exact .inl ⟨.inl h1, by rw [hi]; exact hc.stable H e hs hL, by rw [hi]; exact hm⟩
  · exact absurd (by rw [hpc]; rfl) hp
  · exact absurd (by rw [pcIter_of_searchOf hf]; exact hcn) hp

theorem own_next {sh : Shared} {th : Thread} {g : Ghost} {it : Nat}
    (inv : ScanInv sh.heap g it th) (hpc : th.pc = .iterNext it) :
    ScanInv (stepThread sh th).1.heap (g.onStep it th (stepThread sh th)) it (stepThread sh th).2.1 := by
  have hst : stepThread sh th = stepIterNext sh th it := by unfold stepThread; rw [hpc]
  have hown : pcIter th.pc = some it := by rw [hpc]; rfl
  obtain ⟨hL, b⟩ := inv
  have hb : Cov sh.heap g.startLen g.lo g.positions (th.iter it).curr ∧
      ∃ ps0, g.positions = ps0 ++ [(th.iter it).curr] := by
    rcases b with ⟨_, hc, hm⟩ | ⟨hp, _⟩ | ⟨fp, hf, _⟩
    · exact ⟨hc, hm⟩
    · rw [hpc] at hp; simp at hp
    · rw [hpc] at hf; simp [searchOf] at hf
  obtain ⟨hc, ps0, hm⟩ := hb
  by_cases hmk : (getNext sh.heap (th.iter it).curr 0).2 = true
  · rw [hst, stepIterNext_marked hmk]
    rw [g.onStep_stay it th _ rfl]
    exact ⟨hL, .inl ⟨.inr (.inr ⟨_, rfl⟩), hc, ps0, hm⟩⟩
  · rw [hst, stepIterNext_unmarked hmk]
    obtain ⟨h1, h2, h3⟩ := afterNext_move sh th it (th.iter it).curr (getNext sh.heap (th.iter it).curr 0).1
    refine ScanInv.arrive hown (by rw [h1]; exact hL) ?_ h3
    rw [h1, h2]
    intro a ha
    rcases hc a ha with hmem | hr
    · exact .inl hmem
    · by_cases hac : a = (th.iter it).curr
      · exact .inl (by rw [hm, hac]; simp)
      · exact .inr (hr.tail_of_ne hac)

theorem own_help {sh : Shared} {th : Thread} {g : Ghost} {it next : Nat} (H : HInv sh.heap)
    (hT : TInv sh.heap th) (e : Ext sh.heap (stepThread sh th).1.heap) {ev : Event}
    (hs : HStep sh.heap ev (stepThread sh th).1.heap)
    (inv : ScanInv sh.heap g it th) (hpc : th.pc = .iterHelp it next) :
    ScanInv (stepThread sh th).1.heap (g.onStep it th (stepThread sh th)) it (stepThread sh th).2.1 := by
  have hst : stepThread sh th = stepIterHelp sh th it next := by unfold stepThread; rw [hpc]
  have hown : pcIter th.pc = some it := by rw [hpc]; rfl
  have hp := hT.2.2
  rw [hpc] at hp
  obtain ⟨hw, k, hk⟩ := hp
  obtain ⟨hL, b⟩ := inv
  have hb : Cov sh.heap g.startLen g.lo g.positions (th.iter it).curr ∧
      ∃ ps0, g.positions = ps0 ++ [(th.iter it).curr] := by
    rcases b with ⟨_, hc, hm⟩ | ⟨hp, _⟩ | ⟨fp, hf, _⟩
    · exact ⟨hc, hm⟩
    · rw [hpc] at hp; simp at hp
    · rw [hpc] at hf; simp [searchOf] at hf
  obtain ⟨hc, ps0, hm⟩ := hb
  by_cases hok : (dcas sh.heap (th.iter it).prev 0 (th.iter it).curr next false).2 = true
  · rw [hst, stepIterHelp_ok hok] at e hs ⊢
    obtain ⟨h1, h2, h3⟩ := afterNext_move
      (helpStats sh (dcas sh.heap (th.iter it).prev 0 (th.iter it).curr next false).1
        (dcas sh.heap (th.iter it).prev 0 (th.iter it).curr next false).2 0 (th.iter it).curr)
      th it (th.iter it).prev next
    refine ScanInv.arrive hown (Nat.le_trans hL e.len) ?_ h3
    rw [h2]
    intro a ha
    have ha0 := ha.back e hL
    rcases hc a ha0 with hmem | hr
    · exact .inl hmem
    · have hac : a ≠ (th.iter it).curr := by
        intro c
        exact not_unmarked0_of_marked0 ⟨next, hw⟩ (c ▸ ha0.2.2.1)
      have := hr.tail_of_ne hac
      rw [getNext_of_word hw] at this
      exact .inr (hs.reach_keep H this ha.2.2.1)
  · obtain ⟨hh, fp, hth, hcont, hlen, hitem⟩ := stepIterHelp_fail (sh := sh) (th := th) (it := it) (next := next) hok
    rw [hst, hh]
    rw [g.onStep_stay it th _ (by rw [hth]; rfl)]
    rw [hth]
    refine ⟨hL, .inr (.inr ⟨fp, rfl, by rw [hcont]; rfl, by rw [hlen]; exact hL, ?_, fun _ => ⟨ps0, hm⟩⟩)⟩
    intro a ha
    rcases hc a ha with hmem | hr
    · exact .inl hmem
    · refine .inr ?_
      rw [hitem, hk]
      show ¬ Key.lt (keyOf sh.heap a) (.fin k)
      rw [← hk]
      rcases hr.key H with e1 | l
      · rw [← e1]; exact Key.lt_irrefl _
      · exact Key.lt_asymm l

theorem own_refresh {sh : Shared} {th : Thread} {g : Ghost} {it : Nat} (H : HInv sh.heap)
    (hT : TInv sh.heap th) (inv : ScanInv sh.heap g it th) (hpc : th.pc = .iterRefresh it) :
    ScanInv (stepThread sh th).1.heap (g.onStep it th (stepThread sh th)) it (stepThread sh th).2.1 := by
  have hst : stepThread sh th = stepIterRefresh sh th it := by unfold stepThread; rw [hpc]
  have hp := hT.2.2
  rw [hpc] at hp
  obtain ⟨k, hk⟩ := hp
  obtain ⟨hL, b⟩ := inv
  have hc : Cov sh.heap g.startLen g.lo g.positions (th.iter it).curr := by
    rcases b with ⟨hp, _⟩ | ⟨_, hc⟩ | ⟨fp, hf, _⟩
    · rcases hp with hp | hp | ⟨n, hp⟩
      · rw [hpc] at hp; exact absurd rfl hp
      · rw [hpc] at hp; simp at hp
      · rw [hpc] at hp; simp at hp
    · exact hc
    · rw [hpc] at hf; simp [searchOf] at hf
  rw [hst]
  unfold stepIterRefresh
  rw [g.onStep_stay it th _ rfl]
  refine ⟨hL, .inr (.inr ⟨_, rfl, rfl, hL, ?_, fun hcn => by simp at hcn⟩)⟩
  intro a ha
  rcases hc a ha with hmem | hr
  · exact .inl hmem
  · refine .inr ?_
    show ¬ Key.lt (keyOf sh.heap a) (.fin (itemOfKey (keyOf sh.heap (th.iter it).curr)))
    rw [hk]
    show ¬ Key.lt (keyOf sh.heap a) (.fin k)
    rw [← hk]
    rcases hr.key H with e1 | l
    · rw [← e1]; exact Key.lt_irrefl _
    · exact Key.lt_asymm l

theorem isIdle_of_searchOf {pc : PC} {fp : FP} (h : searchOf pc = some fp) : isIdle pc = false := by
  cases pc <;> simp [searchOf] at h <;> rfl

theorem own_search {sh : Shared} {th : Thread} {g : Ghost} {it : Nat} {fp : FP} (_H : HInv sh.heap)
    (hT : TInv sh.heap th) (hS : SInv sh.heap th) (e : Ext sh.heap (stepThread sh th).1.heap)
    (hL : g.startLen ≤ sh.heap.length) (hf : searchOf th.pc = some fp) (hcn : contIter fp.cont = some it)
    (hfl : g.startLen ≤ fp.startLen) (hk : CovK sh.heap g.startLen g.lo g.positions fp.item)
    (hlast : fp.cont = .iterNext it → ∃ ps0, g.positions = ps0 ++ [(th.iter it).curr]) :
    ScanInv (stepThread sh th).1.heap (g.onStep it th (stepThread sh th)) it (stepThread sh th).2.1 := by
  have hown : pcIter th.pc = some it := by rw [pcIter_of_searchOf hf]; exact hcn
  -- the case "findPath goes on"
  have goOn : ∀ fp', searchOf (stepThread sh th).2.1.pc = some fp' → fp'.item = fp.item →
      fp'.startLen = fp.startLen → fp'.cont = fp.cont → (stepThread sh th).2.1.iters = th.iters →
      ScanInv (stepThread sh th).1.heap (g.onStep it th (stepThread sh th)) it (stepThread sh th).2.1 := by
    intro fp' h1 h2 h3 h4 h5
    rw [g.onStep_stay it th _ (isIdle_of_searchOf h1)]
    have hi : (stepThread sh th).2.1.iter it = th.iter it := iter_of_iter? (iter?_of_iters h5 it)
    refine ⟨Nat.le_trans hL e.len, .inr (.inr ⟨fp', h1, by rw [h4]; exact hcn, by rw [h3]; exact hfl, ?_, ?_⟩)⟩
    · rw [h2]; exact hk.stable e hL
    · intro hc; rw [hi]; exact hlast (by rw [← h4]; exact hc)
  cases hpc : th.pc <;> rw [hpc] at hf <;> simp [searchOf] at hf
  · -- FIND_LEVEL
    rename_i fp0
    subst hf
    have hst : stepThread sh th = stepFindLevel sh th fp0 := by unfold stepThread; rw [hpc]
    exact goOn { fp0 with curr := (getNext sh.heap fp0.prev fp0.i).1 } (by rw [hst]; rfl) rfl rfl rfl
      (by rw [hst]; rfl)
  · -- FIND_NEXT
    rename_i fp0 rr
    subst hf
    have hst : stepThread sh th = stepFindNext sh th fp0 rr := by unfold stepThread; rw [hpc]
    rcases stepFindNext_cases sh th fp0 rr with ⟨fp', hpc', h2, h3, h4, h5⟩ | ⟨hi0, hm, hadv, heq⟩
    · refine goOn fp' ?_ h2 h3 h4 (by rw [hst]; exact h5)
      rw [hst]
      rcases hpc' with h | ⟨n, h⟩ | h <;> rw [h] <;> rfl
    · -- findPath returns
      have hb := hT.1
      rw [hst, heq]
      rw [hst, heq] at e
      generalize hc : (if rr = true then (getNext sh.heap fp0.prev fp0.i).1 else fp0.curr) = c at hm hadv heq e ⊢
      generalize hth1 : ({ th with preds := th.preds.set 0 fp0.prev, succs := th.succs.set 0 c } : Thread) = th1
      have hsucc : th1.succ 0 = c := by
        rw [← hth1]; simp only [Thread.succ]; exact getD_set_self hb.2.1
      have hiter : th1.iter it = th.iter it := by rw [← hth1]; rfl
      obtain ⟨f1, f2, f3⟩ := finishFind_own sh th1 fp0.item
        (Gen.findFound (compare (keyOf sh.heap c) (.fin fp0.item))) it fp0.cont hcn
      have hreach := search_end_reach fp0 rr hpc hT hS hi0
      rw [hc] at hreach
      have hcov : Cov sh.heap g.startLen g.lo g.positions c := by
        intro a ha
        rcases hk a ha with hmem | hge
        · exact .inl hmem
        · exact .inr (hreach a ⟨Nat.lt_of_lt_of_le ha.1 hfl, ha.2.2.1, hge⟩)
      have hown1 : pcIter th.pc = some it := hown
      rcases f3 with f3 | ⟨hcont, f3 | ⟨f3, f4⟩⟩
      · refine ScanInv.arrive hown1 (by rw [f1]; exact hL) ?_ (.inl f3)
        rw [f1, f2, hsucc]; exact hcov
      · refine ScanInv.arrive hown1 (by rw [f1]; exact hL) ?_ (.inr f3)
        rw [f1, f2, hsucc]; exact hcov
      · rw [g.onStep_stay it th _ (by rw [f3]; rfl)]
        rw [f1]
        refine ⟨hL, .inl ⟨.inr (.inl f3), by rw [f2, hsucc]; exact hcov, ?_⟩⟩
        rw [f2, f4, hiter]
        exact hlast hcont
  · -- HELP_DELETE
    rename_i fp0 next
    subst hf
    have hst : stepThread sh th = stepHelpDelete sh th fp0 next := by unfold stepThread; rw [hpc]
    by_cases hok : (dcas sh.heap fp0.prev fp0.i fp0.curr next false).2 = true
    · refine goOn fp0 ?_ rfl rfl rfl ?_
      · rw [hst]; unfold stepHelpDelete; simp only []; rw [if_pos hok]; rfl
      · rw [hst]; unfold stepHelpDelete; simp only []; rw [if_pos hok]
    · refine goOn { fp0 with prev := headId, i := sh.level } ?_ rfl rfl rfl ?_
      · rw [hst]; unfold stepHelpDelete; simp only []; rw [if_neg hok]
        simp [searchOf, bumpReadConflicts, helpStats_level]
      · rw [hst]; unfold stepHelpDelete; simp only []; rw [if_neg hok]

/-- the scanning thread's own segment keeps the scan invariant (with the ghost update of a return) -/
theorem scan_step_own {sh : Shared} {th : Thread} {g : Ghost} {it : Nat} (H : HInv sh.heap)
    (hT : TInv sh.heap th) (hS : SInv sh.heap th) (e : Ext sh.heap (stepThread sh th).1.heap) {ev : Event}
    (hs : HStep sh.heap ev (stepThread sh th).1.heap) (inv : ScanInv sh.heap g it th) :
    ScanInv (stepThread sh th).1.heap (g.onStep it th (stepThread sh th)) it (stepThread sh th).2.1 := by
  have inv0 := inv
  obtain ⟨hL, b⟩ := inv
  rcases b with ⟨hp, _⟩ | ⟨hp, _⟩ | ⟨fp, hf, hcn, hfl, hk, hlast⟩
  · rcases hp with hp | hp | ⟨n, hp⟩
    · exact own_other H e hs inv0 hp
    · exact own_next inv0 hp
    · exact own_help H hT e hs inv0 hp
  · exact own_refresh H hT inv0 hp
  · exact own_search H hT hS e hL hf hcn hfl hk hlast

/-! ### call entries of the scanning thread -/

theorem scan_start_own {sh : Shared} {th : Thread} {g : Ghost} {it : Nat} (_H : HInv sh.heap)
    (R : ReachInv sh.heap) (hidle : th.pc = .idle) (op : Op)
    (inv : g.active = true → ScanInv sh.heap g it th) :
    (g.onStart it sh th op).active = true →
      ScanInv sh.heap (g.onStart it sh th op) it (startOp sh th op).2.1 := by
  have hid : pcIter th.pc ≠ some it := by rw [hidle]; simp [pcIter]
  -- calls that do not address the iterator
  have other : opIter op ≠ some it → g.onStart it sh th op = g →
      (g.onStart it sh th op).active = true →
      ScanInv sh.heap (g.onStart it sh th op) it (startOp sh th op).2.1 := by
    intro ho hg hact
    rw [hg] at hact ⊢
    obtain ⟨h1, h2⟩ := startOp_other sh th op hidle ho
    have hi := iter_of_iter? h2
    obtain ⟨hL, b⟩ := inv hact
    refine ⟨hL, ?_⟩
    rcases b with ⟨_, hc, hm⟩ | ⟨hpc, _⟩ | ⟨fp, hf, hcn, _⟩
    · exact .inl ⟨.inl h1, by rw [hi]; exact hc, by rw [hi]; exact hm⟩
    · rw [hidle] at hpc; simp at hpc
    · rw [hidle] at hf; simp [searchOf] at hf
  -- the phase of an idle thread
  have rest : g.active = true → Cov sh.heap g.startLen g.lo g.positions (th.iter it).curr ∧
      ∃ ps0, g.positions = ps0 ++ [(th.iter it).curr] := by
    intro hact
    obtain ⟨_, b⟩ := inv hact
    rcases b with ⟨_, hc, hm⟩ | ⟨hpc, _⟩ | ⟨fp, hf, _⟩
    · exact ⟨hc, hm⟩
    · rw [hidle] at hpc; simp at hpc
    · rw [hidle] at hf; simp [searchOf] at hf
  cases op with
  | ins k lvl => exact other (by simp [opIter]) rfl
  | del k => exact other (by simp [opIter]) rfl
  | look k => exact other (by simp [opIter]) rfl
  | itFirst it' =>
    by_cases hi : it' = it
    · subst hi
      intro _
      have hcur : ((startOp sh th (.itFirst it')).2.1.iter it').curr = (getNext sh.heap headId 0).1 := by
        simp only [startOp]
        rw [moveIter_iter]
      simp only [Ghost.onStart]
      refine ⟨Nat.le_refl _, .inl ⟨.inl ?_, ?_, ⟨[], rfl⟩⟩⟩
      · simp only [startOp]
        exact hid
      · rw [hcur]
        intro a ha
        refine .inr ?_
        have := R.2 a ha.2.2.1
        exact this.tail_of_ne ha.2.1
    · refine other ?_ ?_
      · simp [opIter]; exact hi
      · simp only [Ghost.onStart, if_neg hi]
  | itSeek it' x =>
    by_cases hi : it' = it
    · subst hi
      intro _
      simp only [Ghost.onStart, startOp]
      refine ⟨Nat.le_refl _, .inr (.inr ⟨_, rfl, rfl, Nat.le_refl _, ?_, fun hc => by simp at hc⟩)⟩
      intro a ha
      exact .inr (ha.2.2.2 x rfl)
    · refine other ?_ ?_
      · simp [opIter]; exact hi
      · simp only [Ghost.onStart, if_neg hi]
  | itNext it' =>
    by_cases hi : it' = it
    · subst hi
      intro hact
      simp only [Ghost.onStart] at hact ⊢
      obtain ⟨hc, hm⟩ := rest hact
      obtain ⟨hL, _⟩ := inv hact
      simp only [startOp]
      split
      · split
        · exact ⟨hL, .inl ⟨.inr (.inl rfl), hc, hm⟩⟩
        · exact ⟨hL, .inl ⟨.inl hid, hc, hm⟩⟩
      · exact ⟨hL, .inl ⟨.inl hid, hc, hm⟩⟩
    · refine other ?_ rfl
      simp [opIter]; exact hi
  | itClose it' =>
    by_cases hi : it' = it
    · subst hi
      intro hact
      simp [Ghost.onStart] at hact
    · refine other ?_ ?_
      · simp [opIter]; exact hi
      · simp only [Ghost.onStart, if_neg hi]
  | itInterval it' n =>
    by_cases hi : it' = it
    · subst hi
      intro hact
      simp only [Ghost.onStart] at hact ⊢
      obtain ⟨hc, hm⟩ := rest hact
      obtain ⟨hL, _⟩ := inv hact
      simp only [startOp]
      split
      · rename_i I hI
        have hIt : th.iter it' = I := by simp [Thread.iter, hI]
        split
        · have hcur : ((th.setIter it' { I with interval := n }).iter it').curr = (th.iter it').curr := by
            rw [iter_setIter_self, hIt]
          refine ⟨hL, .inl ⟨.inl hid, by rw [hcur]; exact hc, by rw [hcur]; exact hm⟩⟩
        · exact ⟨hL, .inl ⟨.inl hid, hc, hm⟩⟩
      · exact ⟨hL, .inl ⟨.inl hid, hc, hm⟩⟩
    · refine other ?_ rfl
      simp [opIter]; exact hi
  | itRefresh it' =>
    by_cases hi : it' = it
    · subst hi
      intro hact
      simp only [Ghost.onStart, if_true] at hact ⊢
      obtain ⟨hc, hm⟩ := rest hact
      obtain ⟨hL, _⟩ := inv hact
      refine ScanInv.congr (g := g) rfl rfl rfl ?_
      simp only [startOp]
      split
      · split
        · exact ⟨hL, .inr (.inl ⟨rfl, hc⟩)⟩
        · exact ⟨hL, .inl ⟨.inl hid, hc, hm⟩⟩
      · exact ⟨hL, .inl ⟨.inl hid, hc, hm⟩⟩
    · refine other ?_ ?_
      · simp [opIter]; exact hi
      · simp only [Ghost.onStart, if_neg hi]

/-! ### system level -/

theorem getElem?_set_self' {l : List Thread} {t : Nat} {th x : Thread} (h : l[t]? = some th) :
    (l.set t x)[t]? = some x := by
  have := (List.getElem?_eq_some_iff.mp h).1
  simp [this]

theorem getElem?_set_ne' {l : List Thread} {t t' : Nat} (x : Thread) (h : t' ≠ t) : (l.set t' x)[t]? = l[t]? := by
  simp [h]

/-- a per-thread scan predicate lifted to the system: it is required of the scanning thread while a scan is active -/
def SysP (P : Heap → Ghost → Nat → Thread → Prop) (t it : Nat) (s : Sys) (g : Ghost) : Prop :=
  g.active = true → ∃ th, s.threads[t]? = some th ∧ P s.sh.heap g it th

/-- GENERIC PRESERVATION: a scan predicate that is stable under the core transitions of other threads, kept by the
    scanning thread's own segments (with the ghost update of a return) and by its call entries holds after every
    action of the instrumented run -/
theorem actG_pred {P : Heap → Ghost → Nat → Thread → Prop}
    (stable : ∀ {h h' : Heap} {ev : Event} {g : Ghost} {it : Nat} {th : Thread},
      HInv h → Ext h h' → HStep h ev h' → P h g it th → P h' g it th)
    (stepOwn : ∀ {sh : Shared} {th : Thread} {g : Ghost} {it : Nat} {ev : Event},
      HInv sh.heap → ReachInv sh.heap → TInv sh.heap th → SInv sh.heap th →
      Ext sh.heap (stepThread sh th).1.heap → HStep sh.heap ev (stepThread sh th).1.heap →
      HInv (stepThread sh th).1.heap → ReachInv (stepThread sh th).1.heap →
      TInv (stepThread sh th).1.heap (stepThread sh th).2.1 →
      P sh.heap g it th → P (stepThread sh th).1.heap (g.onStep it th (stepThread sh th)) it (stepThread sh th).2.1)
    (startOwn : ∀ {sh : Shared} {th : Thread} {g : Ghost} {it : Nat},
      HInv sh.heap → ReachInv sh.heap → TInv sh.heap th → th.pc = .idle → ∀ op : Op,
      TInv sh.heap (startOp sh th op).2.1 →
      (g.active = true → P sh.heap g it th) → (g.onStart it sh th op).active = true →
      P sh.heap (g.onStart it sh th op) it (startOp sh th op).2.1)
    {t it : Nat} {s : Sys} {g : Ghost} (hI : InvS s) (b : SysP P t it s g) (a : Action) :
    SysP P t it (s.act a) (ghostAct t it s g a) := by
  have hI' := act_invS hI a
  cases a with
  | start t' op =>
    simp only [Sys.act, ghostAct] at hI' ⊢
    cases hth : s.threads[t']? with
    | none => rw [Sys.start_none hth]; exact b
    | some th =>
      simp only []
      cases hidle : isIdle th.pc with
      | false =>
        rw [Sys.start_busy hth hidle]
        rw [if_neg (fun c => by simp at c)]
        exact b
      | true =>
        rw [Sys.start_idle hth hidle] at hI' ⊢
        have hT := hI.1.1.2 th (List.mem_of_getElem? hth)
        by_cases htt : t' = t
        · rw [if_pos ⟨htt, rfl⟩]
          subst htt
          intro hact
          refine ⟨_, getElem?_set_self' hth, ?_⟩
          have hT' : TInv s.sh.heap (startOp s.sh th op).2.1 := by
            have := hI'.1.1.2 _ (List.mem_of_getElem? (getElem?_set_self' (x := (startOp s.sh th op).2.1) hth))
            simp only [] at this
            rw [startOp_heap] at this
            exact this
          simp only []
          rw [startOp_heap]
          refine startOwn hI.1.1.1 hI.1.2 hT ((isIdle_iff _).mp hidle) op hT' ?_ hact
          intro ha
          obtain ⟨th0, h0, inv⟩ := b ha
          rw [hth] at h0
          simp at h0
          rw [h0]; exact inv
        · rw [if_neg (fun c => htt c.1)]
          intro hact
          obtain ⟨th0, h0, inv⟩ := b hact
          refine ⟨th0, by simp only []; rw [getElem?_set_ne' _ htt]; exact h0, ?_⟩
          simp only []
          rw [startOp_heap]; exact inv
  | step t' =>
    simp only [Sys.act, ghostAct] at hI' ⊢
    obtain ⟨ev, hs, _⟩ := step_hstep hI.1.1 t'
    have he := (step_inv hI.1.1 t').2
    cases hth : s.threads[t']? with
    | none => rw [Sys.step_none hth]; exact b
    | some th =>
      simp only []
      by_cases hidle : th.pc = .idle
      · rw [Sys.step_idle hth hidle]
        have hgg : (if t' = t then g.onStep it th (stepThread s.sh th) else g) = g := by
          split
          · exact g.onStep_other it th _ (by rw [hidle]; simp [pcIter])
          · rfl
        simp only [hgg]
        exact b
      · have hT := hI.1.1.2 th (List.mem_of_getElem? hth)
        have hS := hI.2 th (List.mem_of_getElem? hth)
        rw [Sys.step_busy hth hidle] at hs he hI' ⊢
        simp only [] at hs he ⊢
        by_cases htt : t' = t
        · rw [if_pos htt]
          subst htt
          have hg : (g.onStep it th (stepThread s.sh th)).active = g.active := g.onStep_active ..
          intro hact
          rw [hg] at hact
          obtain ⟨th0, h0, inv⟩ := b hact
          rw [hth] at h0
          simp at h0
          rw [← h0] at inv
          have hT' : TInv (stepThread s.sh th).1.heap (stepThread s.sh th).2.1 :=
            hI'.1.1.2 _ (List.mem_of_getElem? (getElem?_set_self' (x := (stepThread s.sh th).2.1) hth))
          exact ⟨_, getElem?_set_self' hth,
            stepOwn hI.1.1.1 hI.1.2 hT hS he hs hI'.1.1.1 hI'.1.2 hT' inv⟩
        · rw [if_neg htt]
          intro hact
          obtain ⟨th0, h0, inv⟩ := b hact
          exact ⟨th0, by rw [getElem?_set_ne' _ htt]; exact h0, stable hI.1.1.1 he hs inv⟩

theorem runG_pred {P : Heap → Ghost → Nat → Thread → Prop}
    (step : ∀ {t it : Nat} {s : Sys} {g : Ghost}, InvS s → SysP P t it s g → ∀ a : Action,
      SysP P t it (s.act a) (ghostAct t it s g a))
    {t it : Nat} {s : Sys} {g : Ghost} (hI : InvS s) (b : SysP P t it s g) (as : List Action) :
    InvS (Sys.runG t it (s, g) as).1 ∧ SysP P t it (Sys.runG t it (s, g) as).1 (Sys.runG t it (s, g) as).2 := by
  induction as generalizing s g with
  | nil => exact ⟨hI, b⟩
  | cons a r ih =>
    simp only [Sys.runG, List.foldl_cons]
    exact ih (act_invS hI a) (step hI b a)

theorem SysP_init (P : Heap → Ghost → Nat → Thread → Prop) (t it : Nat) (s : Sys) : SysP P t it s {} := by
  intro h; simp at h

abbrev ScanSys := SysP ScanInv

theorem actG_scan {t it : Nat} {s : Sys} {g : Ghost} (hI : InvS s) (b : ScanSys t it s g) (a : Action) :
    ScanSys t it (s.act a) (ghostAct t it s g a) :=
  actG_pred (P := ScanInv) (fun H e s b => b.stable H e s)
    (fun H _ hT hS e hs _ _ _ inv => scan_step_own H hT hS e hs inv)
    (fun H R _ hidle op _ inv hact => scan_start_own H R hidle op inv hact) hI b a

/-- the scan invariant holds along every instrumented run -/
theorem runG_scan {t it : Nat} {s : Sys} {g : Ghost} (hI : InvS s) (b : ScanSys t it s g) (as : List Action) :
    InvS (Sys.runG t it (s, g) as).1 ∧ ScanSys t it (Sys.runG t it (s, g) as).1 (Sys.runG t it (s, g) as).2 :=
  runG_pred (P := ScanInv) actG_scan hI b as

theorem ScanSys_init (t it : Nat) (s : Sys) : ScanSys t it s {} := SysP_init _ t it s

end NitroVerif.SkipConc
