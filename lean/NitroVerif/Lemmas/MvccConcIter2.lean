/-
  The shape of every action (store / iterator table) and the preservation of `IterInv`.
-/
import NitroVerif.Lemmas.MvccConcIter

namespace NitroVerif.MvccConc
open NitroVerif
open NitroVerif.Mvcc (Ver Sorted Chains)

theorem StoreShape.of_mild {σ σ' : State} {t : Nat} (h : Mild t σ σ') : StoreShape σ σ' :=
  Or.inl ⟨h.1, h.2.2.2.2.2.1, h.2.1⟩

/-- every action: its store shape, its iterator-table shape (for some thread), and at most one of the
    two is not "unchanged" -/
theorem step_shape {σ : State} (hi : Inv σ) (hd : σ.down = false) (a : Act) :
    ∃ t, StoreShape σ (step σ a).1 ∧ ItersShape σ (step σ a).1 t ∧
      ((step σ a).1.iters = σ.iters ∨
        ((step σ a).1.store = σ.store ∧ (step σ a).1.unlinked = σ.unlinked ∧ (step σ a).1.currSn = σ.currSn)) := by
  have same : ∀ σ' : State, σ'.store = σ.store → σ'.unlinked = σ.unlinked → σ'.currSn = σ.currSn →
      σ'.iters = σ.iters → ∃ t, StoreShape σ σ' ∧ ItersShape σ σ' t ∧
        (σ'.iters = σ.iters ∨ (σ'.store = σ.store ∧ σ'.unlinked = σ.unlinked ∧ σ'.currSn = σ.currSn)) :=
    fun σ' h1 h2 h3 h4 => ⟨0, Or.inl ⟨h1, h2, h3⟩, Or.inl h4, Or.inl h4⟩
  have mild : ∀ (t : Nat) (σ' : State), Mild t σ σ' → ItersShape σ σ' t → ∃ t, StoreShape σ σ' ∧ ItersShape σ σ' t ∧
        (σ'.iters = σ.iters ∨ (σ'.store = σ.store ∧ σ'.unlinked = σ.unlinked ∧ σ'.currSn = σ.currSn)) :=
    fun t σ' hm hi => ⟨t, StoreShape.of_mild hm, hi, Or.inr ⟨hm.1, hm.2.2.2.2.2.1, hm.2.1⟩⟩
  rw [step_eq_of_not_down hd]
  cases a with
  | snap =>
    simp only
    split
    · exact ⟨0, Or.inr (Or.inl ⟨rfl, rfl, rfl⟩), Or.inl rfl, Or.inl rfl⟩
    · exact same σ rfl rfl rfl rfl
  | put t k v => simp only; split <;> exact same _ rfl rfl rfl rfl
  | del t k =>
    simp only
    split
    · unfold startDel
      split
      · exact same _ rfl rfl rfl rfl
      · split <;> exact same _ rfl rfl rfl rfl
    · exact same σ rfl rfl rfl rfl
  | get t k => simp only; split <;> exact same _ rfl rfl rfl rfl
  | close t s =>
    simp only
    split
    · exact mild t _ (mild_startClose σ t s) (ish_startClose σ t s)
    · exact same σ rfl rfl rfl rfl
  | itNew t i s =>
    simp only
    split
    · exact mild t _ (mild_itNew σ t i s) (ish_itNew σ t i s)
    · exact same σ rfl rfl rfl rfl
  | itFirst t i =>
    simp only
    split
    · exact mild t _ (mild_itFirst σ t i) (ish_itFirst σ t i)
    · exact same σ rfl rfl rfl rfl
  | itNext t i =>
    simp only
    split
    · exact mild t _ (mild_itNext σ t i) (ish_itNext σ t i)
    · exact same σ rfl rfl rfl rfl
  | itClose t i =>
    simp only
    split
    · exact mild t _ (mild_itClose σ t i) (ish_itClose σ t i)
    · exact same σ rfl rfl rfl rfl
  | step t =>
    simp only
    unfold stepThread
    split
    · -- PUT_INSERT
      rename_i n k v b hg
      have ⟨_, hb⟩ := hi.pc.put t n k v b hg
      subst hb
      have hres : reserved σ.threads n := ⟨k, v, σ.currSn, List.mem_of_getElem? hg⟩
      unfold stepPut
      split
      · exact same σ rfl rfl rfl rfl
      · simp only [alloc_store]
        split
        · exact same _ (by simp) (by simp) (by simp) (by simp)
        · exact ⟨0, Or.inr (Or.inr (Or.inl ⟨n, k, v, hres, rfl, rfl, rfl⟩)), Or.inl rfl, Or.inl rfl⟩
    · -- DEL_NODE_PHYS
      rename_i n tok k hg
      unfold stepDelPhys
      split
      · exact same σ rfl rfl rfl rfl
      · cases hf : findNode σ.store n with
        | none => exact same _ rfl rfl rfl rfl
        | some x =>
          have ⟨hx, hid⟩ := findNode_some hf
          have := ((hi.pc.phys t n tok k hg).2.2.2 x hx hid).2
          exact ⟨0, Or.inr (Or.inr (Or.inr (Or.inl ⟨n, x, hf, rfl, rfl, rfl, Or.inr this⟩))), Or.inl rfl, Or.inl rfl⟩
    · exact same _ rfl rfl rfl rfl
    · -- DEL_NODE_CAS
      rename_i n tok k hg
      unfold stepDelCas casWin casLose
      split
      · exact same σ rfl rfl rfl rfl
      · cases hf : findNode σ.store n with
        | some x =>
          simp only
          split
          · exact ⟨0, Or.inr (Or.inr (Or.inr (Or.inr ⟨n, x, hf, rfl, rfl, rfl⟩))), Or.inl rfl, Or.inl rfl⟩
          · exact same _ rfl rfl rfl rfl
        | none =>
          simp only
          cases hu : findNode σ.unlinked n with
          | some x =>
            simp only
            split
            · rename_i hd0
              exfalso
              have ⟨hxu, hxid⟩ := findNode_some hu
              exact (hi.pc.cas t n tok k hg).2.2.2.2 x hxu hxid hd0
            · exact same _ rfl rfl rfl rfl
          | none => exact same _ rfl rfl rfl rfl
    · rename_i sn after hg
      exact mild t _ (mild_stepCollect σ t sn after) (ish_stepCollect σ t sn after)
    · rename_i i hg
      exact mild t _ (mild_stepIter σ t i) (ish_stepIter σ t i)
    · exact same σ rfl rfl rfl rfl
  | gc j =>
    simp only
    unfold stepGc
    cases hj : σ.gcJobs[j]? with
    | none => exact same σ rfl rfl rfl rfl
    | some job =>
      simp only
      split
      · split <;> exact same _ rfl rfl rfl rfl
      · split
        · rename_i n r htd
          split
          · exact same σ rfl rfl rfl rfl
          · cases hf : findNode σ.store n with
            | none => simp only; split <;> exact same _ rfl rfl rfl rfl
            | some x =>
              have ⟨hx, hid⟩ := findNode_some hf
              have hgpos : 0 < garbC σ.writers σ.snaps σ.gcJobs n := by
                have : 0 < (garbJ σ.gcJobs).count n := by
                  unfold garbJ
                  exact count_flatMap_pos.mpr ⟨job, List.mem_of_getElem? hj, by rw [htd]; simp⟩
                unfold garbC; omega
              obtain ⟨x', hx', hid', hdead, _⟩ := hi.garb.linked n hgpos
              have hxx : x' = x := id_unique hi.store.ids hx' hx (by omega)
              rw [hxx] at hdead
              simp only
              split <;>
                exact ⟨0, Or.inr (Or.inr (Or.inr (Or.inl ⟨n, x, hf, rfl, rfl, rfl, Or.inl hdead⟩))), Or.inl rfl,
                  Or.inl rfl⟩
        · exact same _ rfl rfl rfl rfl
      · exact same _ (by simp) (by simp) (by simp) (by simp)
      · exact same _ rfl rfl rfl rfl
      · exact same σ rfl rfl rfl rfl
  | fr j =>
    simp only
    unfold stepFr
    split
    · split
      · exact same _ (by simp) (by simp) (by simp) (by simp)
      · exact same _ rfl rfl rfl rfl
      · exact same σ rfl rfl rfl rfl
    · exact same σ rfl rfl rfl rfl
  | shutdown =>
    simp only
    unfold shutdown
    split
    · exact same _ (by simp) (by simp) (by simp) (by simp)
    · exact same σ rfl rfl rfl rfl

end NitroVerif.MvccConc
