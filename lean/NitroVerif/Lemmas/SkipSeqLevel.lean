import NitroVerif.Lemmas.SkipSeqFind
/-!
  Per-level surgery on a chain `head → LL A l → LL B l → tail` (linking a new node between the two
  halves, unlinking the first node of the second half), congruence of `Rep` under heap changes that do
  not touch the list, and the split of an ascending list around a key.
-/
namespace NitroVerif.SkipSeq
open NitroVerif

@[simp] theorem LL_setNext (h : Heap) (n m : Nat) (v : Nat × Bool) (L : List Nat) (l : Nat) :
    LL (setNext h n m v) L l = LL h L l :=
  LL_congr l (fun a _ => levelOf_setNext h n m v a)

@[simp] theorem predAt_setNext (h : Heap) (n m : Nat) (v : Nat × Bool) (L : List Nat) (l : Nat) :
    predAt (setNext h n m v) L l = predAt h L l := by simp [predAt]

@[simp] theorem succAt_setNext (h : Heap) (n m : Nat) (v : Nat × Bool) (L : List Nat) (l : Nat) :
    succAt (setNext h n m v) L l = succAt h L l := by simp [succAt]

@[simp] theorem ikey_setNext (h : Heap) (n m : Nat) (v : Nat × Bool) (a : Nat) :
    ikey (setNext h n m v) a = ikey h a := by simp [ikey, keyOf_setNext]

theorem pred_split (h : Heap) (A : List Nat) (l : Nat) :
    ∃ X, headId :: LL h A l = X ++ [predAt h A l] := by
  unfold predAt
  cases hA : (LL h A l).getLast? with
  | none =>
    have : LL h A l = [] := List.getLast?_eq_none_iff.mp hA
    exact ⟨[], by simp [this]⟩
  | some p =>
    rcases List.getLast?_eq_some_iff.mp hA with ⟨ys, hys⟩
    exact ⟨headId :: ys, by simp [hys]⟩

/-- the nodes of one level, sentinels included, are pairwise distinct -/
theorem level_nodup {h : Heap} {L : List Nat} (hn : L.Nodup) (hlo : ∀ n ∈ L, 3 ≤ n) (l : Nat) :
    (headId :: LL h L l ++ [tailId]).Nodup := by
  have h1 : (LL h L l).Nodup := hn.filter _
  have h2 : ∀ n ∈ LL h L l, 3 ≤ n := fun n hm => hlo n (mem_LL.mp hm).1
  simp only [List.cons_append, List.nodup_cons, List.mem_append, List.mem_singleton, not_or]
  refine ⟨⟨?_, by decide⟩, ?_⟩
  · intro hm; have := h2 _ hm; simp [headId] at this
  · rw [List.nodup_append]
    refine ⟨h1, by simp, ?_⟩
    intro a ha b hb
    simp at hb; subst hb
    have := h2 _ ha; simp [tailId]; omega

/-- on a chain, the predecessor points to the successor -/
theorem level_pred_link {h : Heap} {mk : Nat → Bool} {A B : List Nat} {l : Nat}
    (hp : Path h mk l (headId :: LL h A l ++ LL h B l ++ [tailId])) :
    getNext h (predAt h A l) l = (succAt h B l, mk (predAt h A l)) := by
  rcases succ_split h B l with ⟨R, hR⟩
  have hp' : Path h mk l ((headId :: LL h A l) ++ succAt h B l :: R) := by
    rw [← hR]; simpa using hp
  have := ((path_append_cons _ _ _).mp hp').1
  exact path_last_link (LL h A l) headId (by simpa using this)

/-- linking `x` between the two halves on level `l` -/
theorem level_link {h : Heap} {A B : List Nat} {l x : Nat}
    (hp : Path h nomk l (headId :: LL h A l ++ LL h B l ++ [tailId]))
    (hnd : (headId :: LL h (A ++ B) l ++ [tailId]).Nodup)
    (hx : x ∉ headId :: LL h (A ++ B) l ++ [tailId])
    (hxl : getNext h x l = (succAt h B l, false)) (hslot : l < nextLen h (predAt h A l)) :
    Path (setNext h (predAt h A l) l (x, false)) nomk l
      (headId :: LL h A l ++ x :: LL h B l ++ [tailId]) := by
  rcases succ_split h B l with ⟨R, hR⟩
  rcases pred_split h A l with ⟨X, hX⟩
  have e1 : headId :: LL h A l ++ LL h B l ++ [tailId] = X ++ predAt h A l :: succAt h B l :: R := by
    have : headId :: LL h A l ++ LL h B l ++ [tailId] = (headId :: LL h A l) ++ (LL h B l ++ [tailId]) := by simp
    rw [this, hX, hR]; simp
  have e2 : headId :: LL h A l ++ x :: LL h B l ++ [tailId] = X ++ predAt h A l :: x :: succAt h B l :: R := by
    have : headId :: LL h A l ++ x :: LL h B l ++ [tailId] = (headId :: LL h A l) ++ x :: (LL h B l ++ [tailId]) := by simp
    rw [this, hX, hR]; simp
  have e3 : headId :: LL h (A ++ B) l ++ [tailId] = X ++ predAt h A l :: succAt h B l :: R := by
    rw [LL_append]; rw [← e1]; simp
  rw [e3] at hnd hx
  rw [e1] at hp
  rw [e2]
  have hnd' := List.nodup_append.mp hnd
  have hpX : predAt h A l ∉ X := by
    intro hm; exact hnd'.2.2 _ hm _ (by simp) rfl
  have hpY : predAt h A l ∉ succAt h B l :: R := by
    have := hnd'.2.1; simp only [List.nodup_cons] at this; exact this.1
  have hxp : x ≠ predAt h A l := by
    intro e; apply hx; rw [e]; simp
  have := path_link (mk := nomk) X R hp hpX hpY hxp (by simpa [nomk] using hxl) hslot
  simpa [nomk] using this

/-- unlinking `d`, the first node of the second half, on level `l` -/
theorem level_unlink {h : Heap} {mk : Nat → Bool} {A B : List Nat} {l d : Nat}
    (hp : Path h mk l (headId :: LL h A l ++ d :: LL h B l ++ [tailId]))
    (hnd : (headId :: LL h A l ++ d :: LL h B l ++ [tailId]).Nodup)
    (hmk : mk (predAt h A l) = false) (hslot : l < nextLen h (predAt h A l)) :
    Path (setNext h (predAt h A l) l (succAt h B l, false)) mk l
      (headId :: LL h A l ++ LL h B l ++ [tailId]) := by
  rcases succ_split h B l with ⟨R, hR⟩
  rcases pred_split h A l with ⟨X, hX⟩
  have e1 : headId :: LL h A l ++ d :: LL h B l ++ [tailId] = X ++ predAt h A l :: d :: succAt h B l :: R := by
    have : headId :: LL h A l ++ d :: LL h B l ++ [tailId] = (headId :: LL h A l) ++ d :: (LL h B l ++ [tailId]) := by simp
    rw [this, hX, hR]; simp
  have e2 : headId :: LL h A l ++ LL h B l ++ [tailId] = X ++ predAt h A l :: succAt h B l :: R := by
    have : headId :: LL h A l ++ LL h B l ++ [tailId] = (headId :: LL h A l) ++ (LL h B l ++ [tailId]) := by simp
    rw [this, hX, hR]; simp
  rw [e1] at hp hnd
  rw [e2]
  have hnd' := List.nodup_append.mp hnd
  have hpX : predAt h A l ∉ X := by
    intro hm; exact hnd'.2.2 _ hm _ (by simp) rfl
  have hpY : predAt h A l ∉ succAt h B l :: R := by
    have := hnd'.2.1; simp only [List.nodup_cons, List.mem_cons, not_or] at this
    intro hm; rcases List.mem_cons.mp hm with e | e
    · exact this.1.2.1 e
    · exact this.1.2.2 e
  have := path_unlink (mk := mk) X R hp hpX hpY hslot
  simpa [hmk] using this

/-- the predecessor's slot exists -/
theorem pred_slot {s : SL} {L0 A : List Nat} (hr : Rep s L0) (hA : ∀ a ∈ A, a ∈ L0) {l : Nat}
    (hl : l ≤ Gen.maxLevel) : l < nextLen s.nodes (predAt s.nodes A l) := by
  rcases predAt_mem s.nodes A l with h1 | ⟨h1, h2⟩
  · rw [h1, hr.base.headLen]; omega
  · rw [(hr.nodes _ (hA _ h1)).len]; omega

/-! ### an ascending list splits around any key -/

theorem sorted_split {f : Nat → Int} {L : List Nat} (hs : L.Pairwise (fun a b => f a < f b)) (k : Int) :
    L = L.filter (fun a => decide (f a < k)) ++ L.filter (fun a => !decide (f a < k)) := by
  induction L with
  | nil => simp
  | cons a r ih =>
    have hs' := List.pairwise_cons.mp hs
    have ih' := ih hs'.2
    by_cases ha : f a < k
    · simp only [List.filter_cons, ha, decide_true, Bool.not_true, if_true, List.cons_append]
      simp only [Bool.false_eq_true, if_false]
      rw [← ih']
    · have hall : ∀ b ∈ r, ¬ f b < k := fun b hb => by have := hs'.1 b hb; omega
      have e1 : r.filter (fun a => decide (f a < k)) = [] := by
        simp only [List.filter_eq_nil_iff, decide_eq_true_eq]; exact hall
      have e2 : r.filter (fun a => !decide (f a < k)) = r := by
        simp only [List.filter_eq_self, Bool.not_eq_true', decide_eq_false_iff_not]; exact hall
      simp [ha, e1, e2]

/-- the split used by every search: `A` below the key, `B` at or above -/
theorem Rep.split {s : SL} {L0 : List Nat} (hr : Rep s L0) (k : Int) :
    ∃ A B, L0 = A ++ B ∧ (∀ a ∈ A, ikey s.nodes a < k) ∧ (∀ b ∈ B, k ≤ ikey s.nodes b) := by
  refine ⟨_, _, sorted_split hr.sorted k, ?_, ?_⟩
  · intro a ha; simpa using (List.mem_filter.mp ha).2
  · intro b hb; have := (List.mem_filter.mp hb).2; simp at this; omega

end NitroVerif.SkipSeq
