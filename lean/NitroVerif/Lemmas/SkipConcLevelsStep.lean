import NitroVerif.Lemmas.SkipConcLevels
/-!
  Index levels of M5, part 2: the kinds of heap writes a segment can make, seen from the index levels (`LStep`),
  and the preservation of the level invariant `LvInv` by each of them.
-/
namespace NitroVerif.SkipConc
open NitroVerif

theorem unmarkedAt_back {h h' : Heap} (e : Ext h h') {l n : Nat} (hn : n < h.length) (hu : unmarkedAt h' l n) :
    unmarkedAt h l n := by
  obtain ⟨p, hp⟩ := hu
  have hs : (word? h n l).isSome := (e.dom n l hn).mp (by rw [hp]; rfl)
  obtain ⟨⟨q, m⟩, hq⟩ := Option.isSome_iff_exists.mp hs
  cases m with
  | false => exact ⟨q, hq⟩
  | true => have := e.marked _ _ _ hq; rw [this] at hp; simp at hp

theorem unmarkedAt_lt {h : Heap} {l n : Nat} (hu : unmarkedAt h l n) : n < h.length := by
  obtain ⟨p, hp⟩ := hu; exact word?_lt hp

/-- events seen from the index levels; `own x` / `link x` are the writes only the inserter of the published node
    `x` performs (redirecting the upper-level word of `x`; linking `x` at an upper level) -/
inductive LEv where
  | other
  | own (x : Nat)
  /-- node `x` is linked at the index level `l` -/
  | link (x l : Nat)
  /-- node `d` is marked at level 0 (the soft delete that wins) -/
  | mark0 (d : Nat)
  /-- node `d` is marked at an index level -/
  | markUp (d : Nat)
deriving DecidableEq

/-- the kinds of heap writes -/
inductive LStep (h : Heap) : LEv → Heap → Prop
  | none : LStep h .other h
  /-- helpDelete at any level -/
  | unlink {l prev curr next : Nat} : word? h prev l = some (curr, false) →
      word? h curr l = some (next, true) → Lk h prev l → LStep h .other (setWord h prev l (next, false))
  /-- softDelete at an upper level -/
  | mark {l n e : Nat} : 1 ≤ l → word? h n l = some (e, false) → LStep h (.markUp n) (setWord h n l (e, true))
  /-- softDelete at level 0 -/
  | mark0 {n e : Nat} : word? h n 0 = some (e, false) → LStep h (.mark0 n) (setWord h n 0 (e, true))
  /-- Insert4 redirects the upper-level word of its own, not yet linked node -/
  | own {l x old s : Nat} : 1 ≤ l → x ≠ 0 → word? h x l = some (old, false) → Unlinked h x l → Lk h s l →
      LStep h (.own x) (setWord h x l (s, false))
  /-- Insert4 links its node at an upper level -/
  | link {l pred x next : Nat} {m : Bool} : 1 ≤ l → word? h pred l = some (next, false) →
      word? h x l = some (next, m) → Lk h pred l → Key.lt (keyOf h pred) (keyOf h x) →
      Key.lt (keyOf h x) (keyOf h next) → Lk h x (l - 1) →
      LStep h (.link x l) (setWord h pred l (x, false))
  /-- the publish CAS with the materialisation of the node -/
  | publish {p c : Nat} (nd : Node) : word? h p 0 = some (c, false) → nd.next[0]? = some (c, false) →
      (∀ (j : Nat) q m, nd.next[j]? = some (q, m) → q < h.length ∧ Lk h q j) →
      (∀ (j : Nat) q m, nd.next[j]? = some (q, m) → m = false) →
      LStep h .other (setWord h p 0 (h.length, false) ++ [nd])

/-! ### heaps that agree on the upper levels -/

theorem reachL_of_eq {h h' : Heap} {l : Nat} (he : ∀ a, word? h' a l = word? h a l) {a c : Nat} :
    ReachL h' l a c ↔ ReachL h l a c :=
  ⟨ReachL.congr (fun a => by rw [he a]), ReachL.congr (fun a => by rw [he a])⟩

theorem Unlinked.of_words {h h' : Heap} {n l : Nat} (u : Unlinked h n l)
    (hw : ∀ a l' m, l ≤ l' → word? h' a l' = some (n, m) → ∃ a' m', word? h a' l' = some (n, m')) :
    Unlinked h' n l := by
  intro a l' q m hl hq e
  subst e
  obtain ⟨a', m', hw'⟩ := hw a l' m hl hq
  exact u a' l' q m' hl hw' rfl

/-- the level invariant only depends on the upper-level words and the keys -/
theorem LvInv.of_eq {h h' : Heap} (L : LvInv h) (he : ∀ a l, 1 ≤ l → word? h' a l = word? h a l)
    (hk : ∀ a, keyOf h' a = keyOf h a) : LvInv h' where
  tail l h1 h2 := (reachL_of_eq (he · l h1)).mpr (L.tail l h1 h2)
  sorted l n p m h1 hc hw := by
    rw [hk, hk]
    rw [he _ _ h1] at hw
    exact L.sorted l n p m h1 ((reachL_of_eq (he · l h1)).mp hc) hw
  chain l n h1 hu := by
    have hu' : unmarkedAt h l n := by
      obtain ⟨p, hp⟩ := hu; rw [he _ _ h1] at hp; exact ⟨p, hp⟩
    rcases L.chain l n h1 hu' with r | u
    · exact .inl ((reachL_of_eq (he · l h1)).mpr r)
    · refine .inr (u.of_words (fun a l' m hl hw => ?_))
      rw [he _ _ (Nat.le_trans h1 hl)] at hw
      exact ⟨a, m, hw⟩

/-! ### unlink -/

theorem LvInv.unlink {h : Heap} (H : HInv h) (L : LvInv h) {l prev curr next : Nat} (hl : 1 ≤ l)
    (hp : word? h prev l = some (curr, false)) (hc : word? h curr l = some (next, true)) :
    LvInv (setWord h prev l (next, false)) := by
  have hne : curr ≠ prev := by
    intro e; rw [e, hp] at hc; simp at hc
  -- forward / backward transfer of reachability on every level
  have fwd : ∀ l0 n, (l0 = l → n ≠ curr) → ReachL h l0 0 n → ReachL (setWord h prev l (next, false)) l0 0 n := by
    intro l0 n hn r
    by_cases e : l0 = l
    · subst e; exact unlink_reachL hp hc r (hn rfl)
    · exact (reachL_setWord_level _ e).mpr r
  have back : ∀ l0 n, ReachL (setWord h prev l (next, false)) l0 0 n → ReachL h l0 0 n := by
    intro l0 n r
    by_cases e : l0 = l
    · subst e; exact unlink_reachL_back hp hc r
    · exact (reachL_setWord_level _ e).mp r
  have hword : ∀ a l0, word? (setWord h prev l (next, false)) a l0 =
      if a = prev ∧ l0 = l then some (next, false) else word? h a l0 := by
    intro a l0; rw [word?_setWord]; simp [hp]
  refine ⟨fun l0 h1 h2 => fwd l0 1 ?_ (L.tail l0 h1 h2), ?_, ?_⟩
  · intro _ e
    rw [← e, H.tailNoWord] at hc; simp at hc
  · intro l0 n p m h1 hcn hw
    rw [keyOf_setWord, keyOf_setWord]
    have hcn' := back l0 n hcn
    rw [hword] at hw
    by_cases hc1 : n = prev ∧ l0 = l
    · rw [if_pos hc1] at hw; simp at hw
      obtain ⟨rfl, rfl⟩ := hc1
      obtain ⟨rfl, _⟩ := hw
      exact Key.lt_trans (L.sorted _ _ _ _ h1 hcn' hp) (L.sorted _ _ _ _ h1 (ReachL.snoc hcn' hp) hc)
    · rw [if_neg hc1] at hw
      exact L.sorted l0 n p m h1 hcn' hw
  · intro l0 n h1 hu
    have hu' : unmarkedAt h l0 n := unmarkedAt_back (Ext.setWord hp _) (by simpa [length_setWord] using unmarkedAt_lt hu) hu
    have hncurr : l0 = l → n ≠ curr := by
      intro e1 e2
      subst e1 e2
      obtain ⟨q, hq⟩ := hu'
      rw [hc] at hq; simp at hq
    rcases L.chain l0 n h1 hu' with r | u
    · exact .inl (fwd l0 n hncurr r)
    · refine .inr (u.of_words (fun a l' m hl' hw => ?_))
      rw [hword] at hw
      by_cases hc1 : a = prev ∧ l' = l
      · rw [if_pos hc1] at hw; simp at hw
        obtain ⟨_, rfl⟩ := hc1
        exact ⟨curr, true, by rw [← hw.1]; exact hc⟩
      · rw [if_neg hc1] at hw; exact ⟨a, m, hw⟩

/-! ### mark -/

theorem LvInv.mark {h : Heap} (L : LvInv h) {l n e : Nat} (hw : word? h n l = some (e, false)) :
    LvInv (setWord h n l (e, true)) := by
  have hword : ∀ a l0, word? (setWord h n l (e, true)) a l0 =
      if a = n ∧ l0 = l then some (e, true) else word? h a l0 := by
    intro a l0; rw [word?_setWord]; simp [hw]
  refine ⟨fun l0 h1 h2 => (reachL_setWord_mark hw).mpr (L.tail l0 h1 h2), ?_, ?_⟩
  · intro l0 a p m h1 hc hw'
    rw [keyOf_setWord, keyOf_setWord]
    have hc' := (reachL_setWord_mark hw).mp hc
    rw [hword] at hw'
    by_cases hc1 : a = n ∧ l0 = l
    · rw [if_pos hc1] at hw'; simp at hw'
      obtain ⟨rfl, rfl⟩ := hc1
      rw [← hw'.1]
      exact L.sorted _ _ _ _ h1 hc' hw
    · rw [if_neg hc1] at hw'; exact L.sorted _ _ _ _ h1 hc' hw'
  · intro l0 a h1 hu
    have hu' : unmarkedAt h l0 a :=
      unmarkedAt_back (Ext.setWord hw _) (by simpa [length_setWord] using unmarkedAt_lt hu) hu
    rcases L.chain l0 a h1 hu' with r | u
    · exact .inl ((reachL_setWord_mark hw).mpr r)
    · refine .inr (u.of_words (fun b l' m hl' hwb => ?_))
      rw [hword] at hwb
      by_cases hc1 : b = n ∧ l' = l
      · rw [if_pos hc1] at hwb; simp at hwb
        obtain ⟨rfl, rfl⟩ := hc1
        exact ⟨b, false, by rw [← hwb.1]; exact hw⟩
      · rw [if_neg hc1] at hwb; exact ⟨b, m, hwb⟩

/-! ### the inserter's own word -/

theorem LvInv.own {h : Heap} (L : LvInv h) {l x old s : Nat} (hl : 1 ≤ l) (hx0 : x ≠ 0)
    (hw : word? h x l = some (old, false)) (hu : Unlinked h x l) (hs : Lk h s l) :
    LvInv (setWord h x l (s, false)) := by
  have hword : ∀ a l0, word? (setWord h x l (s, false)) a l0 =
      if a = x ∧ l0 = l then some (s, false) else word? h a l0 := by
    intro a l0; rw [word?_setWord]; simp [hw]
  have hoff : ¬ ReachL h l 0 x := hu.not_onChain hx0
  have iff : ∀ l0 n, ReachL (setWord h x l (s, false)) l0 0 n ↔ ReachL h l0 0 n := by
    intro l0 n
    by_cases e : l0 = l
    · subst e
      refine reachL_off (fun a ha => ?_) hoff
      rw [hword]; simp [ha]
    · exact reachL_setWord_level _ e
  refine ⟨fun l0 h1 h2 => (iff l0 1).mpr (L.tail l0 h1 h2), ?_, ?_⟩
  · intro l0 a p m h1 hc hw'
    rw [keyOf_setWord, keyOf_setWord]
    have hc' := (iff l0 a).mp hc
    rw [hword] at hw'
    by_cases hc1 : a = x ∧ l0 = l
    · obtain ⟨rfl, rfl⟩ := hc1
      exact absurd hc' hoff
    · rw [if_neg hc1] at hw'; exact L.sorted _ _ _ _ h1 hc' hw'
  · intro l0 a h1 hua
    have hua' : unmarkedAt h l0 a :=
      unmarkedAt_back (Ext.setWord hw _) (by simpa [length_setWord] using unmarkedAt_lt hua) hua
    rcases L.chain l0 a h1 hua' with r | u
    · exact .inl ((iff l0 a).mpr r)
    · by_cases hcase : s = a ∧ l0 ≤ l
      · obtain ⟨rfl, hle⟩ := hcase
        exact .inl ((iff l0 s).mpr (hs l0 h1 hle hua'))
      · refine .inr (u.of_words (fun b l' m hl' hwb => ?_))
        rw [hword] at hwb
        by_cases hc1 : b = x ∧ l' = l
        · rw [if_pos hc1] at hwb; simp at hwb
          obtain ⟨_, rfl⟩ := hc1
          exact absurd ⟨hwb.1, hl'⟩ hcase
        · rw [if_neg hc1] at hwb; exact ⟨b, m, hwb⟩

/-! ### link -/

theorem LvInv.link {h : Heap} (L : LvInv h) {l pred x next : Nat} {m : Bool} (hl : 1 ≤ l)
    (hp : word? h pred l = some (next, false)) (hx : word? h x l = some (next, m)) (kp : Lk h pred l)
    (k1 : Key.lt (keyOf h pred) (keyOf h x)) (k2 : Key.lt (keyOf h x) (keyOf h next)) (kx : Lk h x (l - 1)) :
    LvInv (setWord h pred l (x, false)) := by
  have hne : x ≠ pred := by
    intro e; subst e; exact Key.lt_irrefl _ k1
  have hpc : OnChain h l pred := kp l hl (Nat.le_refl _) ⟨next, hp⟩
  have hword : ∀ a l0, word? (setWord h pred l (x, false)) a l0 =
      if a = pred ∧ l0 = l then some (x, false) else word? h a l0 := by
    intro a l0; rw [word?_setWord]; simp [hp]
  have fwd : ∀ l0 n, ReachL h l0 0 n → ReachL (setWord h pred l (x, false)) l0 0 n := by
    intro l0 n r
    by_cases e : l0 = l
    · subst e; exact link_reachL hp hx hne r
    · exact (reachL_setWord_level _ e).mpr r
  have back : ∀ l0 n, ReachL (setWord h pred l (x, false)) l0 0 n → ReachL h l0 0 n ∨ (l0 = l ∧ n = x) := by
    intro l0 n r
    by_cases e : l0 = l
    · subst e
      rcases link_reachL_back hp hx hne r with r1 | ⟨_, e2⟩
      · exact .inl r1
      · exact .inr ⟨rfl, e2⟩
    · exact .inl ((reachL_setWord_level _ e).mp r)
  have hxc : OnChain (setWord h pred l (x, false)) l x :=
    ReachL.snoc (m := false) (fwd l pred hpc) (by rw [hword]; simp)
  refine ⟨fun l0 h1 h2 => fwd l0 1 (L.tail l0 h1 h2), ?_, ?_⟩
  · intro l0 a p m' h1 hc hw'
    rw [keyOf_setWord, keyOf_setWord]
    rw [hword] at hw'
    by_cases hc1 : a = pred ∧ l0 = l
    · rw [if_pos hc1] at hw'; simp at hw'
      obtain ⟨rfl, rfl⟩ := hc1
      rw [← hw'.1]; exact k1
    · rw [if_neg hc1] at hw'
      rcases back l0 a hc with r | ⟨rfl, rfl⟩
      · exact L.sorted _ _ _ _ h1 r hw'
      · rw [hx] at hw'; simp at hw'
        rw [← hw'.1]; exact k2
  · intro l0 a h1 hua
    have hua' : unmarkedAt h l0 a :=
      unmarkedAt_back (Ext.setWord hp _) (by simpa [length_setWord] using unmarkedAt_lt hua) hua
    rcases L.chain l0 a h1 hua' with r | u
    · exact .inl (fwd l0 a r)
    · by_cases hcase : x = a ∧ l0 ≤ l
      · obtain ⟨rfl, hle⟩ := hcase
        by_cases e : l0 = l
        · subst e; exact .inl hxc
        · exact .inl (fwd l0 x (kx l0 h1 (by omega) hua'))
      · refine .inr (u.of_words (fun b l' m' hl' hwb => ?_))
        rw [hword] at hwb
        by_cases hc1 : b = pred ∧ l' = l
        · rw [if_pos hc1] at hwb; simp at hwb
          obtain ⟨_, rfl⟩ := hc1
          exact absurd ⟨hwb.1, hl'⟩ hcase
        · rw [if_neg hc1] at hwb; exact ⟨b, m', hwb⟩

/-! ### a new node -/

theorem OnChain.lt {h : Heap} (H : HInv h) {l n : Nat} (r : OnChain h l n) : n < h.length := by
  rcases ReachL.last r with e | ⟨b, m, hw⟩
  · rw [← e]; have := H.len; omega
  · exact H.closed _ _ _ _ hw

theorem LvInv.append {h : Heap} (H : HInv h) (L : LvInv h) (nd : Node)
    (hnd : ∀ (j : Nat) q m, nd.next[j]? = some (q, m) → q < h.length ∧ Lk h q j) : LvInv (h ++ [nd]) := by
  have h0 : 0 < h.length := by have := H.len; omega
  have iff : ∀ l0 n, ReachL (h ++ [nd]) l0 0 n ↔ ReachL h l0 0 n := fun l0 n =>
    reachL_grow (fun a ha => word?_append_lt h nd ha l0) (fun a q m hw => H.closed _ _ _ _ hw) h0
  refine ⟨fun l0 h1 h2 => (iff l0 1).mpr (L.tail l0 h1 h2), ?_, ?_⟩
  · intro l0 a p m h1 hc hw
    have hc' := (iff l0 a).mp hc
    have ha := OnChain.lt H hc'
    rw [word?_append_lt h nd ha] at hw
    rw [keyOf_append_lt h nd ha, keyOf_append_lt h nd (H.closed _ _ _ _ hw)]
    exact L.sorted _ _ _ _ h1 hc' hw
  · intro l0 a h1 hua
    by_cases ha : a < h.length
    · have hua' : unmarkedAt h l0 a := by
        obtain ⟨p, hp⟩ := hua; rw [word?_append_lt h nd ha] at hp; exact ⟨p, hp⟩
      rcases L.chain l0 a h1 hua' with r | u
      · exact .inl ((iff l0 a).mpr r)
      · by_cases hcase : ∃ l' m, l0 ≤ l' ∧ nd.next[l']? = some (a, m)
        · obtain ⟨l', m, hle, hw⟩ := hcase
          exact .inl ((iff l0 a).mpr ((hnd _ _ _ hw).2 l0 h1 hle hua'))
        · refine .inr (u.of_words (fun b l' m hl' hwb => ?_))
          by_cases hb : b < h.length
          · rw [word?_append_lt h nd hb] at hwb; exact ⟨b, m, hwb⟩
          · have hbl := word?_lt hwb
            have : b = h.length := by simp at hbl; omega
            subst this
            rw [word?_append_new] at hwb
            exact absurd ⟨l', m, hl', hwb⟩ hcase
    · right
      intro b l' q m hl' hwb e
      subst e
      by_cases hb : b < h.length
      · rw [word?_append_lt h nd hb] at hwb
        exact ha (H.closed _ _ _ _ hwb)
      · have hbl := word?_lt hwb
        have : b = h.length := by simp at hbl; omega
        subst this
        rw [word?_append_new] at hwb
        exact ha (hnd _ _ _ hwb).1

theorem LvInv.low {h : Heap} (L : LvInv h) (n : Nat) (w : Nat × Bool) : LvInv (setWord h n 0 w) :=
  L.of_eq (fun a l hl => word?_setWord_level w (by omega) a) (fun a => keyOf_setWord ..)

/-- every kind of write keeps the level invariant -/
theorem LStep.lvInv {h h' : Heap} {ev : LEv} (H : HInv h) (L : LvInv h) (s : LStep h ev h') : LvInv h' := by
  cases s with
  | none => exact L
  | @unlink l prev curr next hp hc _ =>
    by_cases hl : 1 ≤ l
    · exact L.unlink H hl hp hc
    · have : l = 0 := by omega
      subst this; exact L.low _ _
  | mark hl hw => exact L.mark hw
  | mark0 hw => exact L.low _ _
  | own hl hx0 hw hu hs => exact L.own hl hx0 hw hu hs
  | link hl hp hx kp k1 k2 kx => exact L.link hl hp hx kp k1 k2 kx
  | @publish p c nd hw _ hnd _ =>
    rw [setWord_append h nd (word?_lt hw)]
    exact (L.append H nd hnd).low _ _

end NitroVerif.SkipConc
