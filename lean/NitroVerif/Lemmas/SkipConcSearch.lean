import NitroVerif.Lemmas.SkipConcAbs
/-!
  The search invariant that closes the "miss" direction of the reads WITHOUT history variables.

  A node `n` is *stable for a search* (`Stable h L item n`) when it was published before the findPath call started
  (`n < L`, `L = FP.startLen` = heap length at the call's start — ghost), is still unmarked at level 0 now, and its
  key is not below the searched item.  Since marks are permanent, such a node was in the abstract set during the
  WHOLE call.  Invariant (`SPC`): every stable node is reachable, along level-0 successor words, from `prev` — and
  on level 0 also from `curr`.  It holds for every thread in every reachable state (`run_invS`).

  Consequence (`search_end`): when findPath ends at `curr` (key ≥ item), every stable node is `curr` itself or has
  a larger key than `curr`.  Hence a miss means: every node with that key that was published before the search
  started has been deleted by now — there was an instant during the call at which the item was absent (right after
  that node's mark, by `live_key_inj`, or at the start) — and `Seek x` lands on a position with no stable item
  between `x` and it.
-/
namespace NitroVerif.SkipConc
open NitroVerif

def Stable (h : Heap) (L item n : Nat) : Prop :=
  n < L ∧ unmarked0 h n ∧ ¬ Key.lt (keyOf h n) (.fin item)

def J1 (h : Heap) (fp : FP) : Prop := ∀ n, Stable h fp.startLen fp.item n → Reach h fp.prev n
def J2 (h : Heap) (fp : FP) : Prop := fp.i = 0 → ∀ n, Stable h fp.startLen fp.item n → Reach h fp.curr n

/-- the search invariant, per program counter -/
def SPC (h : Heap) : PC → Prop
  | .findLevel fp => fp.startLen ≤ h.length ∧ J1 h fp
  | .findNext fp _ => fp.startLen ≤ h.length ∧ J1 h fp ∧ J2 h fp
  | .helpDelete fp _ => fp.startLen ≤ h.length ∧ J1 h fp ∧ J2 h fp
  | _ => True

def SInv (h : Heap) (th : Thread) : Prop := SPC h th.pc

/-! ### stability under the steps of any thread -/

theorem unmarked0_back {h h' : Heap} (e : Ext h h') {n : Nat} (hn : n < h.length) (hu : unmarked0 h' n) :
    unmarked0 h n := by
  obtain ⟨p, hp⟩ := hu
  have hs : (word? h n 0).isSome := (e.dom n 0 hn).mp (by rw [hp]; rfl)
  obtain ⟨⟨q, m⟩, hq⟩ := Option.isSome_iff_exists.mp hs
  cases m with
  | false => exact ⟨q, hq⟩
  | true => have := e.marked _ _ _ hq; rw [this] at hp; simp at hp

theorem Stable.back {h h' : Heap} (e : Ext h h') {L item n : Nat} (hL : L ≤ h.length)
    (s : Stable h' L item n) : Stable h L item n := by
  have hn : n < h.length := Nat.lt_of_lt_of_le s.1 hL
  exact ⟨s.1, unmarked0_back e hn s.2.1, by rw [← e.key n hn]; exact s.2.2⟩

/-- a level-0 path to a node that is still unmarked survives every core transition -/
theorem HStep.reach_keep {h h' : Heap} {ev : Event} (H : HInv h) (s : HStep h ev h') {a n : Nat}
    (r : Reach h a n) (hu : unmarked0 h' n) : Reach h' a n := by
  cases s with
  | none => exact r
  | @upper n' l e w hl hw =>
    exact r.mono (fun a b m hab => .single (by rw [word0_upper h w hl]; exact hab))
  | @unlink prev curr next hp hc =>
    have hne : curr ≠ prev := by
      intro e; rw [e, hp] at hc; simp at hc
    refine unlink_reach hp hc r ?_
    intro e
    subst e
    obtain ⟨q, hq⟩ := hu
    rw [word0_set0 h hp, if_neg hne, hc] at hq
    simp at hq
  | @mark n' e hw =>
    exact r.mono (fun a b m hab => by
      by_cases ha : a = n'
      · subst ha; rw [hw] at hab; simp at hab
        exact .single (m := true) (by rw [word0_set0 h hw]; simp [hab.1])
      · exact .single (by rw [word0_set0 h hw, if_neg ha]; exact hab))
  | @publish p c k nd hw hnd hk hk1 hk2 =>
    have hp := word?_lt hw
    have hpx : Reach (setWord h p 0 (h.length, false) ++ [nd]) p h.length :=
      .single (m := false) (by rw [word0_publish h hw]; simp)
    have hxc : Reach (setWord h p 0 (h.length, false) ++ [nd]) h.length c :=
      .single (by rw [word0_publish h hw, if_neg (by omega), if_pos rfl]; exact hnd)
    exact r.mono (fun a b m hab => by
      by_cases ha : a = p
      · subst ha; rw [hw] at hab; simp at hab
        rw [← hab.1]; exact hpx.trans hxc
      · have hal := word?_lt hab
        exact .single (by rw [word0_publish h hw, if_neg ha, if_neg (by omega)]; exact hab))

theorem SPC.stable {h h' : Heap} {ev : Event} (H : HInv h) (e : Ext h h') (s : HStep h ev h') {pc : PC}
    (b : SPC h pc) : SPC h' pc := by
  have key : ∀ fp : FP, fp.startLen ≤ h.length → ∀ a, (∀ n, Stable h fp.startLen fp.item n → Reach h a n) →
      ∀ n, Stable h' fp.startLen fp.item n → Reach h' a n := by
    intro fp hL a hr n hs
    exact s.reach_keep H (hr n (hs.back e hL)) hs.2.1
  cases pc <;> simp only [SPC] at * <;> try trivial
  · exact ⟨Nat.le_trans b.1 e.len, key _ b.1 _ b.2⟩
  · exact ⟨Nat.le_trans b.1 e.len, key _ b.1 _ b.2.1, fun hi => key _ b.1 _ (b.2.2 hi)⟩
  · exact ⟨Nat.le_trans b.1 e.len, key _ b.1 _ b.2.1, fun hi => key _ b.1 _ (b.2.2 hi)⟩

/-! ### the thread's own steps -/

/-- a fresh findPath (prev = head, ghost start length = now) satisfies the invariant by the chain invariant -/
theorem SPC_fresh {h : Heap} (R : ReachInv h) (fp : FP) (hp : fp.prev = 0) (hL : fp.startLen ≤ h.length) :
    SPC h (.findLevel fp) := by
  refine ⟨hL, fun n hs => ?_⟩
  rw [hp]; exact R.2 n hs.2.1

theorem SInv_startFind {sh : Shared} (R : ReachInv sh.heap) (th : Thread) (item : Nat) (c : Cont) :
    SInv sh.heap (startFind sh th item c).2.1 :=
  SPC_fresh R _ rfl (Nat.le_refl _)

/-- `prev` has a key below the item, a stable node does not: they differ, so the path from `prev` takes a step -/
theorem reach_succ {h : Heap} {a n item : Nat} (r : Reach h a n) (ha : Key.lt (keyOf h a) (.fin item))
    (hn : ¬ Key.lt (keyOf h n) (.fin item)) : Reach h (getNext h a 0).1 n := by
  cases r with
  | refl => exact absurd ha hn
  | step hw r' => rw [getNext_of_word hw]; exact r'

/-- a node read unmarked at level `i` is unmarked at level 0 (H4), hence on the chain -/
theorem unmarked0_of_level {h : Heap} (H : HInv h) {c i : Nat} (hc : c < h.length) (hc1 : c ≠ 1)
    (hlv : c = 1 ∨ (word? h c i).isSome) (hm : (getNext h c i).2 = false) : unmarked0 h c := by
  rcases hlv with hlv | hlv
  · exact absurd hlv hc1
  · obtain ⟨⟨p, m⟩, hw⟩ := Option.isSome_iff_exists.mp hlv
    rw [getNext_of_word hw] at hm
    simp at hm; subst hm
    obtain ⟨⟨q, m0⟩, hw0⟩ := Option.isSome_iff_exists.mp (H.word0 c hc hc1)
    cases m0 with
    | false => exact ⟨q, hw0⟩
    | true => have := H.h4 _ _ _ _ _ _ hw0 (Nat.zero_le i) hw; simp at this

/-- the end of Next leaves the thread outside findPath -/
theorem SPC_afterNext (h : Heap) (sh : Shared) (th : Thread) (it : Nat) : SPC h (afterNext sh th it).2.1.pc := by
  unfold afterNext
  simp only []
  split
  · split <;> trivial
  · trivial

theorem SPC_afterRead {sh : Shared} {th : Thread} (H : HInv sh.heap) (R : ReachInv sh.heap) (fp : FP)
    (hf : FPInv sh.heap th fp) (hcl : CurrLv sh.heap fp)
    (hL : fp.startLen ≤ sh.heap.length) (j1 : J1 sh.heap fp) (j2 : J2 sh.heap fp) :
    SPC sh.heap (afterRead sh th fp (getNext sh.heap fp.curr fp.i).1 (getNext sh.heap fp.curr fp.i).2).2.1.pc := by
  unfold afterRead
  split
  · exact ⟨hL, j1, j2⟩
  · rename_i hdel
    simp only []
    split
    · rename_i hadv
      have hklt : Key.lt (keyOf sh.heap fp.curr) (.fin fp.item) :=
        (compare_neg_iff _ _).mp ((findAdvance_iff _).mp hadv)
      have hc1 : fp.curr ≠ 1 := by
        intro e; rw [e, H.tailKey] at hklt; simp [Key.lt] at hklt
      have hu : unmarked0 sh.heap fp.curr :=
        unmarked0_of_level H hf.2.1 hc1 hcl (by simpa using hdel)
      have j1' : ∀ n, Stable sh.heap fp.startLen fp.item n → Reach sh.heap fp.curr n := by
        intro n hs
        rcases (R.2 _ hu).det (R.2 _ hs.2.1) with r | r
        · exact r
        · rcases r.key H with e | l
          · subst e; exact absurd hklt hs.2.2
          · exact absurd (Key.lt_trans l hklt) hs.2.2
      refine ⟨hL, j1', fun hi0 n hs => ?_⟩
      have hi0' : fp.i = 0 := hi0
      rw [hi0']
      exact reach_succ (j1' n hs) hklt hs.2.2
    · split
      · exact ⟨hL, j1⟩
      · -- findPath returns: the caller's next program counter is not inside findPath
        rename_i hi0
        generalize hfound : Gen.findFound (compare (keyOf sh.heap fp.curr) (Key.fin fp.item)) = found
        cases hc : fp.cont <;> simp only [finishFind]
        · split <;> trivial
        · split <;> trivial
        · trivial
        · trivial
        · trivial
        · split
          · unfold enterSoft
            split
            · trivial
            · split <;> trivial
          · trivial
        · trivial
        · trivial
        · split
          · trivial
          · exact SPC_afterNext ..
        · trivial
        · trivial

theorem SInv_stepFindLevel {sh : Shared} {th : Thread} (fp : FP) (hT : TInv sh.heap th)
    (hpc : th.pc = .findLevel fp) (hS : SInv sh.heap th) : SInv sh.heap (stepFindLevel sh th fp).2.1 := by
  have hp := hT.2.2
  rw [hpc] at hp
  unfold SInv at hS
  rw [hpc] at hS
  obtain ⟨hL, j1⟩ := hS
  refine ⟨hL, j1, fun hi0 n hs => ?_⟩
  have hi0' : fp.i = 0 := hi0
  show Reach sh.heap (getNext sh.heap fp.prev fp.i).1 n
  rw [hi0']
  exact reach_succ (j1 n hs) hp.2.2.1 hs.2.2

theorem SInv_stepFindNext {sh : Shared} {th : Thread} (H : HInv sh.heap) (R : ReachInv sh.heap) (fp : FP) (rr : Bool)
    (hT : TInv sh.heap th) (hpc : th.pc = .findNext fp rr) (hS : SInv sh.heap th) :
    SInv sh.heap (stepFindNext sh th fp rr).2.1 := by
  have hp := hT.2.2
  rw [hpc] at hp
  obtain ⟨⟨f1, f2, f3, f4, f5⟩, hcl⟩ := hp
  unfold SInv at hS
  rw [hpc] at hS
  obtain ⟨hL, j1, j2⟩ := hS
  unfold stepFindNext SInv
  generalize hfp1 : (if rr = true then { fp with curr := (getNext sh.heap fp.prev fp.i).1 } else fp) = fp1
  have hF : FPInv sh.heap th fp1 ∧ CurrLv sh.heap fp1 ∧ fp1.startLen ≤ sh.heap.length ∧ J1 sh.heap fp1 ∧
      J2 sh.heap fp1 := by
    rw [← hfp1]
    split
    · refine ⟨⟨f1, H.getNext_lt _ _, f3, f4, f5⟩, H.getNext_lv _ _ f5, hL, j1, fun hi0 n hs => ?_⟩
      have hi0' : fp.i = 0 := hi0
      show Reach sh.heap (getNext sh.heap fp.prev fp.i).1 n
      rw [hi0']
      exact reach_succ (j1 n hs) f3 hs.2.2
    · exact ⟨⟨f1, f2, f3, f4, f5⟩, hcl, hL, j1, j2⟩
  simp only []
  exact SPC_afterRead H R fp1 hF.1 hF.2.1 hF.2.2.1 hF.2.2.2.1 hF.2.2.2.2

/-- program counters outside findPath, or a findPath that has just been (re)started from the head -/
def FreshPC (h : Heap) : PC → Prop
  | .findLevel fp => fp.prev = 0 ∧ fp.startLen ≤ h.length
  | .findNext _ _ => False
  | .helpDelete _ _ => False
  | _ => True

theorem SPC_of_fresh {h : Heap} (R : ReachInv h) {pc : PC} (f : FreshPC h pc) : SPC h pc := by
  cases pc <;> simp only [FreshPC, SPC] at * <;> try trivial
  exact SPC_fresh R _ f.1 f.2

theorem fresh_startFind (sh : Shared) (th : Thread) (item : Nat) (c : Cont) :
    FreshPC (startFind sh th item c).1.heap (startFind sh th item c).2.1.pc := ⟨rfl, Nat.le_refl _⟩

theorem fresh_insFinished (sh : Shared) (th : Thread) (lvl : Nat) :
    FreshPC (insFinished sh th lvl).1.heap (insFinished sh th lvl).2.1.pc := trivial

theorem fresh_enterSoft (sh : Shared) (th : Thread) (item n i : Nat) (m : Bool) :
    FreshPC (enterSoft sh th item n i m).1.heap (enterSoft sh th item n i m).2.1.pc := by
  unfold enterSoft
  split
  · trivial
  · split <;> trivial

theorem fresh_afterNext (sh : Shared) (th : Thread) (it : Nat) :
    FreshPC (afterNext sh th it).1.heap (afterNext sh th it).2.1.pc := by
  unfold afterNext
  simp only []
  split
  · split <;> trivial
  · trivial

theorem fresh_insCheckSucc (sh : Shared) (th : Thread) (item x lvl i next : Nat) :
    FreshPC (insCheckSucc sh th item x lvl i next).1.heap (insCheckSucc sh th item x lvl i next).2.1.pc := by
  unfold insCheckSucc
  split
  · exact fresh_startFind ..
  · trivial

/-- every segment that is not a findPath-internal one ends outside findPath or at a fresh findPath -/
theorem fresh_step {sh : Shared} {th : Thread}
    (hnf : ∀ fp, th.pc ≠ .findLevel fp) (hnn : ∀ fp r, th.pc ≠ .findNext fp r)
    (hnh : ∀ fp n, th.pc ≠ .helpDelete fp n) (hidle : th.pc ≠ .idle) :
    FreshPC (stepThread sh th).1.heap (stepThread sh th).2.1.pc := by
  unfold stepThread
  split
  · rename_i h; exact absurd h hidle
  · unfold stepNewLevel; split <;> exact fresh_startFind ..
  · rename_i fp h; exact absurd h (hnf fp)
  · rename_i fp r h; exact absurd h (hnn fp r)
  · rename_i fp n h; exact absurd h (hnh fp n)
  · unfold stepInsPublish; simp only []
    split
    · split
      · trivial
      · exact fresh_insFinished ..
    · exact fresh_startFind ..
  · unfold stepInsUpRead; simp only []
    split
    · exact fresh_insFinished ..
    · split
      · split
        · exact fresh_insCheckSucc ..
        · exact fresh_insFinished ..
      · exact fresh_insCheckSucc ..
  · unfold stepInsUpLink; simp only []
    split
    · split
      · exact fresh_startFind ..
      · split
        · trivial
        · exact fresh_insFinished ..
    · exact fresh_startFind ..
  · unfold stepSoftMark; simp only []
    exact fresh_enterSoft ..
  · exact fresh_startFind ..
  · unfold stepIterNext; simp only []
    split
    · trivial
    · exact fresh_afterNext ..
  · unfold stepIterHelp; simp only []
    split
    · exact fresh_afterNext ..
    · exact fresh_startFind ..
  · exact fresh_startFind ..

theorem SInv_stepHelpDelete {sh : Shared} {th : Thread} (fp : FP) (next : Nat)
    (R' : ReachInv (stepHelpDelete sh th fp next).1.heap)
    (hS' : SPC (stepHelpDelete sh th fp next).1.heap (.helpDelete fp next)) :
    SInv (stepHelpDelete sh th fp next).1.heap (stepHelpDelete sh th fp next).2.1 := by
  unfold SInv
  revert R' hS'
  unfold stepHelpDelete
  simp only []
  split
  · intro _ hS'; exact hS'
  · intro R' hS'
    exact SPC_fresh R' _ rfl hS'.1

/-- the stepping thread re-establishes its search invariant -/
theorem SInv_stepThread {sh : Shared} {th : Thread} {ev : Event} (H : HInv sh.heap) (R : ReachInv sh.heap)
    (hT : TInv sh.heap th) (hS : SInv sh.heap th)
    (e : Ext sh.heap (stepThread sh th).1.heap) (hs : HStep sh.heap ev (stepThread sh th).1.heap)
    (R' : ReachInv (stepThread sh th).1.heap) :
    SInv (stepThread sh th).1.heap (stepThread sh th).2.1 := by
  cases hpc : th.pc with
  | idle => unfold stepThread; rw [hpc]; simp only []; unfold SInv; rw [hpc]; trivial
  | findLevel fp =>
    have := SInv_stepFindLevel fp hT hpc hS
    unfold stepThread; rw [hpc]; exact this
  | findNext fp rr =>
    have h1 := SInv_stepFindNext H R fp rr hT hpc hS
    have h2 : (stepFindNext sh th fp rr).1.heap = sh.heap := by unfold stepFindNext; exact afterRead_heap ..
    unfold stepThread; rw [hpc]; simp only []
    rw [h2]; exact h1
  | helpDelete fp next =>
    have hst : stepThread sh th = stepHelpDelete sh th fp next := by unfold stepThread; rw [hpc]
    rw [hst] at e hs R' ⊢
    refine SInv_stepHelpDelete fp next R' ?_
    have : SPC sh.heap (.helpDelete fp next) := by unfold SInv at hS; rw [hpc] at hS; exact hS
    exact this.stable H e hs
  | newLevel _ _ _ | insPublish _ _ | insUpRead _ _ _ _ | insUpLink _ _ _ _ _ | softMark _ _ _ _ _ | delSearch _
  | iterNext _ | iterHelp _ _ | iterRefresh _ =>
    exact SPC_of_fresh R' (fresh_step (by simp [hpc]) (by simp [hpc]) (by simp [hpc]) (by simp [hpc]))

/-! ### system level -/

/-- the full invariant including the search invariant of every thread -/
def InvS (s : Sys) : Prop := InvR s ∧ ∀ th ∈ s.threads, SInv s.sh.heap th

theorem InvS_initWith (fixed : Bool) (n : Nat) : InvS (Sys.initWith fixed n) := by
  refine ⟨InvR_initWith fixed n, ?_⟩
  intro th hth
  simp only [Sys.initWith, List.mem_replicate] at hth
  rw [hth.2]; trivial

theorem fresh_startOp (sh : Shared) (th : Thread) (op : Op) (hidle : th.pc = .idle) :
    FreshPC (startOp sh th op).1.heap (startOp sh th op).2.1.pc := by
  cases op <;> simp only [startOp]
  · split
    · trivial
    · exact fresh_startFind ..
  · exact fresh_startFind ..
  · exact fresh_startFind ..
  · simp only [Thread.moveIter, Thread.setIter, hidle]; trivial
  · exact fresh_startFind ..
  · split
    · split
      · trivial
      · rw [hidle]; trivial
    · rw [hidle]; trivial
  · split
    · simp only [hidle]; trivial
    · rw [hidle]; trivial
  · split
    · split
      · simp only [Thread.setIter, hidle]; trivial
      · rw [hidle]; trivial
    · rw [hidle]; trivial
  · split
    · split
      · trivial
      · rw [hidle]; trivial
    · rw [hidle]; trivial

theorem Sys.step_none {s : Sys} {t : Nat} (h : s.threads[t]? = none) : (s.step t).1 = s := by
  unfold Sys.step; rw [h]

theorem Sys.step_idle {s : Sys} {t : Nat} {th : Thread} (h : s.threads[t]? = some th) (hi : th.pc = .idle) :
    (s.step t).1 = s := by
  unfold Sys.step; rw [h]; simp only [hi]

theorem Sys.step_busy {s : Sys} {t : Nat} {th : Thread} (h : s.threads[t]? = some th) (hi : th.pc ≠ .idle) :
    (s.step t).1 = { sh := (stepThread s.sh th).1, threads := s.threads.set t (stepThread s.sh th).2.1 } := by
  unfold Sys.step; rw [h]
  cases hp : th.pc <;> simp_all

theorem Sys.start_none {s : Sys} {t : Nat} {op : Op} (h : s.threads[t]? = none) : (s.start t op).1 = s := by
  unfold Sys.start; rw [h]

theorem Sys.start_busy {s : Sys} {t : Nat} {op : Op} {th : Thread} (h : s.threads[t]? = some th)
    (hi : isIdle th.pc = false) : (s.start t op).1 = s := by
  unfold Sys.start; rw [h]; simp [hi]

theorem Sys.start_idle {s : Sys} {t : Nat} {op : Op} {th : Thread} (h : s.threads[t]? = some th)
    (hi : isIdle th.pc = true) :
    (s.start t op).1 = { sh := (startOp s.sh th op).1, threads := s.threads.set t (startOp s.sh th op).2.1 } := by
  unfold Sys.start; rw [h]; simp [hi]

theorem act_invS {s : Sys} (hI : InvS s) (a : Action) : InvS (s.act a) := by
  have hR' := act_invR hI.1 a
  refine ⟨hR', ?_⟩
  cases a with
  | start t op =>
    simp only [Sys.act] at hR' ⊢
    cases hth : s.threads[t]? with
    | none => rw [Sys.start_none hth]; exact hI.2
    | some th =>
      cases hidle : isIdle th.pc with
      | false => rw [Sys.start_busy hth hidle]; exact hI.2
      | true =>
        rw [Sys.start_idle hth hidle] at hR' ⊢
        intro th' hth'
        simp only [] at hth' ⊢
        rcases List.mem_or_eq_of_mem_set hth' with hm | rfl
        · rw [startOp_heap]; exact hI.2 th' hm
        · exact SPC_of_fresh hR'.2 (fresh_startOp s.sh th op ((isIdle_iff _).mp hidle))
  | step t =>
    simp only [Sys.act] at hR' ⊢
    obtain ⟨ev, hs, _⟩ := step_hstep hI.1.1 t
    have he := (step_inv hI.1.1 t).2
    cases hth : s.threads[t]? with
    | none => rw [Sys.step_none hth]; exact hI.2
    | some th =>
      by_cases hidle : th.pc = .idle
      · rw [Sys.step_idle hth hidle]; exact hI.2
      · have hT := hI.1.1.2 th (List.mem_of_getElem? hth)
        have hS := hI.2 th (List.mem_of_getElem? hth)
        rw [Sys.step_busy hth hidle] at hR' hs he ⊢
        simp only [] at hR' hs he ⊢
        intro th' hth'
        rcases List.mem_or_eq_of_mem_set hth' with hm | rfl
        · exact SPC.stable hI.1.1.1 he hs (hI.2 th' hm)
        · exact SInv_stepThread hI.1.1.1 hI.1.2 hT hS he hs hR'.2

/-- along every run of any number of threads every thread's search invariant holds -/
theorem run_invS {s : Sys} (hI : InvS s) (as : List Action) : InvS (s.run as) := by
  induction as generalizing s with
  | nil => exact hI
  | cons a r ih => exact ih (act_invS hI a)

/-! ### what the invariant gives when findPath ends -/

/-- findPath ends in this segment: the last read was unmarked, no advance, level 0 -/
theorem afterRead_ends {sh : Shared} {th : Thread} (fp : FP) (next : Nat) (deleted : Bool)
    (hret : (afterRead sh th fp next deleted).2.2 ≠ "at HELP_DELETE" ∧
            (afterRead sh th fp next deleted).2.2 ≠ "at FIND_NEXT" ∧
            (afterRead sh th fp next deleted).2.2 ≠ "at FIND_LEVEL") :
    deleted = false ∧ ¬ Gen.findAdvance (compare (keyOf sh.heap fp.curr) (.fin fp.item)) = true ∧ fp.i = 0 := by
  unfold afterRead at hret
  by_cases hd : deleted = true
  · rw [if_pos hd] at hret; simp at hret
  · rw [if_neg hd] at hret
    simp only [] at hret
    by_cases ha : Gen.findAdvance (compare (keyOf sh.heap fp.curr) (.fin fp.item)) = true
    · rw [if_pos ha] at hret; simp at hret
    · rw [if_neg ha] at hret
      refine ⟨by simpa using hd, ha, ?_⟩
      cases hi : fp.i with
      | succ i => rw [hi] at hret; simp at hret
      | zero => rfl

/-- END OF A SEARCH: every node that was published before the findPath call started, is still unmarked and has a
    key ≥ item is the final `curr` or lies behind it (larger key) -/
theorem search_end {sh : Shared} {th : Thread} (H : HInv sh.heap) (fp : FP) (rr : Bool)
    (hpc : th.pc = .findNext fp rr) (hT : TInv sh.heap th) (hS : SInv sh.heap th)
    (hret : (stepFindNext sh th fp rr).2.2 ≠ "at HELP_DELETE" ∧ (stepFindNext sh th fp rr).2.2 ≠ "at FIND_NEXT" ∧
            (stepFindNext sh th fp rr).2.2 ≠ "at FIND_LEVEL") :
    let c := (if rr = true then (getNext sh.heap fp.prev fp.i).1 else fp.curr)
    ¬ Key.lt (keyOf sh.heap c) (.fin fp.item) ∧
    ∀ n, Stable sh.heap fp.startLen fp.item n → n = c ∨ Key.lt (keyOf sh.heap c) (keyOf sh.heap n) := by
  intro c
  have hp := hT.2.2
  rw [hpc] at hp
  obtain ⟨⟨f1, f2, f3, f4, f5⟩, hcl⟩ := hp
  unfold SInv at hS
  rw [hpc] at hS
  obtain ⟨hL, j1, j2⟩ := hS
  unfold stepFindNext at hret
  generalize hfp1 : (if rr = true then { fp with curr := (getNext sh.heap fp.prev fp.i).1 } else fp) = fp1 at hret
  have hitem : fp1.item = fp.item := by rw [← hfp1]; split <;> rfl
  have hlen : fp1.startLen = fp.startLen := by rw [← hfp1]; split <;> rfl
  have hi : fp1.i = fp.i := by rw [← hfp1]; split <;> rfl
  have hcurr : fp1.curr = c := by rw [← hfp1]; simp only [c]; split <;> rfl
  simp only [] at hret
  obtain ⟨_, hadv, hi0⟩ := afterRead_ends fp1 _ _ hret
  rw [hi] at hi0
  have j2' : ∀ n, Stable sh.heap fp.startLen fp.item n → Reach sh.heap c n := by
    intro n hs
    by_cases hr : rr = true
    · simp only [c, if_pos hr]
      rw [hi0]
      exact reach_succ (j1 n hs) f3 hs.2.2
    · simp only [c, if_neg hr]
      exact j2 hi0 n hs
  rw [hcurr, hitem] at hadv
  refine ⟨fun l => hadv ((findAdvance_iff _).mpr ((compare_neg_iff _ _).mpr l)), fun n hs => ?_⟩
  rcases (j2' n hs).key H with e | l
  · exact .inl e.symm
  · exact .inr l

/-! ### misses -/

theorem softScan_none {h : Heap} {n : Nat} : ∀ i, softScan h n i = none → (getNext h n 0).2 = true
  | 0, hs => by
    simp only [softScan] at hs
    split at hs
    · assumption
    · simp at hs
  | i + 1, hs => by
    simp only [softScan] at hs
    split at hs
    · exact softScan_none i hs
    · simp at hs

/-- the three ways a findPath can end in a MISS that the caller reports or acts on: Lookup answers false, Insert
    goes on to publish, Delete answers false right after its search -/
def MissOutcome (c : Cont) (out : String) : Prop :=
  (c = .lookup ∧ out = "ret false") ∨
  ((∃ lvl, c = .insFirst lvl ∨ c = .insRetry lvl) ∧ out = "at INS_PUBLISH") ∨
  (c = .delSearch ∧ out = "ret false")

theorem afterRead_miss {sh : Shared} {th : Thread} (fp : FP) (next : Nat)
    (hb : BufOK sh.heap th.preds th.succs)
    (hres : MissOutcome fp.cont (afterRead sh th fp next (getNext sh.heap fp.curr fp.i).2).2.2) :
    Gen.findFound (compare (keyOf sh.heap fp.curr) (.fin fp.item)) = false := by
  have hne : (afterRead sh th fp next (getNext sh.heap fp.curr fp.i).2).2.2 ≠ "at HELP_DELETE" ∧
      (afterRead sh th fp next (getNext sh.heap fp.curr fp.i).2).2.2 ≠ "at FIND_NEXT" ∧
      (afterRead sh th fp next (getNext sh.heap fp.curr fp.i).2).2.2 ≠ "at FIND_LEVEL" := by
    rcases hres with ⟨_, h⟩ | ⟨_, h⟩ | ⟨_, h⟩ <;> rw [h] <;> decide
  obtain ⟨hd, hadv, hi0⟩ := afterRead_ends fp next _ hne
  unfold afterRead at hres
  rw [if_neg (by simp [hd])] at hres
  simp only [] at hres
  rw [if_neg hadv, hi0] at hres
  simp only [] at hres
  cases hf : Gen.findFound (compare (keyOf sh.heap fp.curr) (.fin fp.item)) with
  | false => rfl
  | true =>
    exfalso
    rw [hf] at hres
    rcases hres with ⟨hc, h⟩ | ⟨⟨lvl, hc | hc⟩, h⟩ | ⟨hc, h⟩
    · rw [hc] at h; simp [finishFind, retBool] at h
    · rw [hc] at h; simp [finishFind, retBool] at h
    · rw [hc] at h; simp [finishFind, retBool] at h
    · rw [hc] at h
      simp only [finishFind, if_true] at h
      unfold enterSoft at h
      split at h
      · simp at h
      · rename_i hsc
        have := softScan_none _ hsc
        simp only [Thread.succ] at this
        rw [getD_set_self hb.2.1] at this
        rw [hi0] at hd
        rw [hd] at this
        simp at this

/-- MISS: when findPath(item) ends in a miss, every node carrying that item that was published before this
    findPath call started is marked by now -/
theorem search_miss {sh : Shared} {th : Thread} (H : HInv sh.heap) (fp : FP) (rr : Bool)
    (hpc : th.pc = .findNext fp rr) (hT : TInv sh.heap th) (hS : SInv sh.heap th)
    (hres : MissOutcome fp.cont (stepFindNext sh th fp rr).2.2) :
    ∀ n, n < fp.startLen → keyOf sh.heap n = .fin fp.item → ¬ unmarked0 sh.heap n := by
  have hne : (stepFindNext sh th fp rr).2.2 ≠ "at HELP_DELETE" ∧ (stepFindNext sh th fp rr).2.2 ≠ "at FIND_NEXT" ∧
      (stepFindNext sh th fp rr).2.2 ≠ "at FIND_LEVEL" := by
    rcases hres with ⟨_, h⟩ | ⟨_, h⟩ | ⟨_, h⟩ <;> rw [h] <;> decide
  obtain ⟨hge, hall⟩ := search_end H fp rr hpc hT hS hne
  -- the last comparison was not `equal`
  have hnf : keyOf sh.heap (if rr = true then (getNext sh.heap fp.prev fp.i).1 else fp.curr) ≠ .fin fp.item := by
    unfold stepFindNext at hres
    generalize hfp1 : (if rr = true then { fp with curr := (getNext sh.heap fp.prev fp.i).1 } else fp) = fp1 at hres
    have hitem : fp1.item = fp.item := by rw [← hfp1]; split <;> rfl
    have hcont : fp1.cont = fp.cont := by rw [← hfp1]; split <;> rfl
    have hcurr : fp1.curr = (if rr = true then (getNext sh.heap fp.prev fp.i).1 else fp.curr) := by
      rw [← hfp1]; split <;> rfl
    simp only [] at hres
    rw [← hcont] at hres
    have := afterRead_miss fp1 _ hT.1 hres
    rw [hcurr, hitem] at this
    intro hk
    rw [hk] at this
    have h0 : compare (Key.fin fp.item) (Key.fin fp.item) = 0 := (compare_zero_iff _ _).mpr rfl
    rw [h0] at this
    simp [Gen.findFound] at this
  intro n hn hk hu
  have hs : Stable sh.heap fp.startLen fp.item n := ⟨hn, hu, by rw [hk]; exact Key.lt_irrefl _⟩
  rcases hall n hs with e | l
  · rw [e] at hk; exact hnf hk
  · rw [hk] at l
    -- key c < item contradicts ¬ key c < item
    exact hge l

end NitroVerif.SkipConc
