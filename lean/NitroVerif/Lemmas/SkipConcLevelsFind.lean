import NitroVerif.Lemmas.SkipConcLevelsThread
/-!
  Index levels of M5, part 5: the thread-local invariant `TL` through the segments that do not write the heap
  (the helpers of findPath and of its callers).
-/
namespace NitroVerif.SkipConc
open NitroVerif

/-- program counters about which `PCL` says nothing -/
def PlainPC : PC → Prop
  | .idle => True
  | .delSearch _ => True
  | .iterNext _ => True
  | .iterHelp _ _ => True
  | .iterRefresh _ => True
  | _ => False

theorem PCL_of_plain (h : Heap) (lv : Nat) (ps ss : List Nat) {pc : PC} (p : PlainPC pc) : PCL h lv ps ss pc := by
  cases pc <;> simp only [PlainPC, PCL] at * <;> trivial

theorem insNode_of_plain {pc : PC} (p : PlainPC pc) : insNode pc = none := by
  cases pc <;> simp only [PlainPC, insNode] at * <;> trivial

theorem insNode_enterSoft (sh : Shared) (th : Thread) (item n i : Nat) (m : Bool) :
    insNode (enterSoft sh th item n i m).2.1.pc = none := by
  unfold enterSoft
  split
  · rfl
  · split <;> rfl

theorem enterSoft_bufs (sh : Shared) (th : Thread) (item n i : Nat) (m : Bool) :
    (enterSoft sh th item n i m).2.1.preds = th.preds ∧ (enterSoft sh th item n i m).2.1.succs = th.succs := by
  unfold enterSoft
  split
  · exact ⟨rfl, rfl⟩
  · split <;> exact ⟨rfl, rfl⟩

theorem plain_afterNext (sh : Shared) (th : Thread) (it : Nat) : PlainPC (afterNext sh th it).2.1.pc := by
  unfold afterNext
  simp only []
  split
  · split <;> trivial
  · trivial

theorem afterNext_bufs (sh : Shared) (th : Thread) (it : Nat) :
    (afterNext sh th it).2.1.preds = th.preds ∧ (afterNext sh th it).2.1.succs = th.succs := by
  unfold afterNext
  simp only []
  split
  · split <;> exact ⟨rfl, rfl⟩
  · exact ⟨rfl, rfl⟩

/-- a result whose buffers are the given ones and whose program counter is plain -/
theorem TL_of_plain {h : Heap} {lv : Nat} {th th' : Thread} (b : BufL h th.preds th.succs)
    (hb : th'.preds = th.preds ∧ th'.succs = th.succs) (p : PlainPC th'.pc) : TL h lv th' := by
  unfold TL
  rw [hb.1, hb.2]
  exact ⟨b, PCL_of_plain _ _ _ _ p⟩

/-! ### the buffers -/

theorem KeysOK.vacuous (h : Heap) (ps ss : List Nat) (item : Nat) {lo hi : Nat} (hle : hi ≤ lo) :
    KeysOK h ps ss item lo hi := fun j h1 h2 => by omega

/-- recording level `i + 1` extends the bracketed range downwards -/
theorem KeysOK.record {h : Heap} {ps ss : List Nat} {item i hi prev curr : Nat}
    (k : KeysOK h ps ss item (i + 1) hi) (hp : i + 1 < ps.length) (hs : i + 1 < ss.length)
    (k1 : Key.lt (keyOf h prev) (.fin item)) (k2 : ¬ Key.lt (keyOf h curr) (.fin item)) :
    KeysOK h (ps.set (i + 1) prev) (ss.set (i + 1) curr) item i hi := by
  intro j h1 h2
  by_cases e : j = i + 1
  · subst e
    rw [getD_set_self hp, getD_set_self hs]; exact ⟨k1, k2⟩
  · rw [getD_set_ne (fun c => e c.symm), getD_set_ne (fun c => e c.symm)]
    exact k j (by omega) h2

/-- recording a level at or below `lo` does not touch the bracketed range -/
theorem KeysOK.set_low {h : Heap} {ps ss : List Nat} {item lo hi : Nat} (k : KeysOK h ps ss item lo hi)
    {i : Nat} (hi' : i ≤ lo) (p c : Nat) : KeysOK h (ps.set i p) (ss.set i c) item lo hi := by
  intro j h1 h2
  rw [getD_set_ne (by omega), getD_set_ne (by omega)]
  exact k j h1 h2

theorem BufL.record {h : Heap} {ps ss : List Nat} (b : BufL h ps ss) {i prev curr : Nat}
    (kp : Lk h prev i) (kc : Lk h curr i) : BufL h (ps.set i prev) (ss.set i curr) := by
  refine ⟨by simpa using b.1, by simpa using b.2.1, fun j => ?_⟩
  by_cases e : i = j
  · subst e
    by_cases hl : i < ps.length
    · have hl' : i < ss.length := by rw [b.2.1, ← b.1]; exact hl
      rw [getD_set_self hl, getD_set_self hl']; exact ⟨kp, kc⟩
    · have hl' : ¬ i < ss.length := by rw [b.2.1, ← b.1]; exact hl
      rw [List.set_eq_of_length_le (by omega), List.set_eq_of_length_le (by omega)]
      exact b.2.2 i
  · rw [getD_set_ne e, getD_set_ne e]; exact b.2.2 j

/-- the caller's knowledge after the level `i + 1` has been recorded -/
theorem ContL.record {h : Heap} {lv : Nat} {ps ss : List Nat} {item i prev curr : Nat} {c : Cont}
    (b : ContL h lv ps ss item (i + 1) c) (hp : i + 1 < ps.length) (hs : i + 1 < ss.length)
    (k1 : Key.lt (keyOf h prev) (.fin item)) (k2 : ¬ Key.lt (keyOf h curr) (.fin item)) :
    ContL h lv (ps.set (i + 1) prev) (ss.set (i + 1) curr) item i c := by
  cases c <;> simp only [ContL] at * <;> try trivial
  · exact ⟨b.1, b.2.record hp hs k1 k2⟩
  · exact ⟨b.1, b.2.record hp hs k1 k2⟩
  · exact ⟨b.1, b.2.1.record hp hs k1 k2, b.2.2⟩
  · exact ⟨b.1, b.2.1.record hp hs k1 k2, b.2.2⟩

theorem ContL.set_zero {h : Heap} {lv : Nat} {ps ss : List Nat} {item : Nat} {c : Cont}
    (b : ContL h lv ps ss item 0 c) (p q : Nat) : ContL h lv (ps.set 0 p) (ss.set 0 q) item 0 c := by
  cases c <;> simp only [ContL] at * <;> try trivial
  · exact ⟨b.1, b.2.set_low (Nat.le_refl _) _ _⟩
  · exact ⟨b.1, b.2.set_low (Nat.le_refl _) _ _⟩
  · exact ⟨b.1, b.2.1.set_low (Nat.le_refl _) _ _, b.2.2⟩
  · exact ⟨b.1, b.2.1.set_low (Nat.le_refl _) _ _, b.2.2⟩

/-- a (re)start of findPath at the current list level -/
theorem ContL.restart {h : Heap} {lv : Nat} {ps ss : List Nat} {item i : Nat} {c : Cont}
    (b : ContL h lv ps ss item i c) : ContL h lv ps ss item lv c := by
  cases c <;> simp only [ContL] at * <;> try trivial
  · exact ⟨b.1, KeysOK.vacuous _ _ _ _ b.1⟩
  · exact ⟨b.1, KeysOK.vacuous _ _ _ _ b.1⟩
  · exact ⟨b.1, KeysOK.vacuous _ _ _ _ b.1, b.2.2⟩
  · exact ⟨b.1, KeysOK.vacuous _ _ _ _ b.1, b.2.2⟩

/-! ### the helpers -/

theorem startFind_tl (sh : Shared) (th : Thread) (item : Nat) (cont : Cont) (b : BufL sh.heap th.preds th.succs)
    (c : ContL sh.heap sh.level th.preds th.succs item sh.level cont) :
    TL sh.heap sh.level (startFind sh th item cont).2.1 := ⟨b, Nat.le_refl _, Lk_head _ _, c⟩

/-- softDelete from level `i` on, for a node that carries the item -/
theorem enterSoft_tl' (sh : Shared) (th : Thread) (item n i : Nat) (m : Bool) (b : BufL sh.heap th.preds th.succs)
    (hk : keyOf sh.heap n = .fin item) : TL sh.heap sh.level (enterSoft sh th item n i m).2.1 := by
  unfold enterSoft
  split
  · exact ⟨b, hk⟩
  · split
    · exact ⟨b, trivial⟩
    · exact ⟨b, trivial⟩

theorem insFinished_tl (sh : Shared) (th : Thread) (lvl : Nat) (b : BufL sh.heap th.preds th.succs) :
    TL sh.heap sh.level (insFinished sh th lvl).2.1 := ⟨b, trivial⟩

theorem finishFind_tl (sh : Shared) (th : Thread) (item : Nat) (found : Bool) (cont : Cont)
    (b : BufL sh.heap th.preds th.succs) (c : ContL sh.heap sh.level th.preds th.succs item 0 cont)
    (hfk : found = true → keyOf sh.heap (th.succs.getD 0 0) = .fin item) :
    TL sh.heap sh.level (finishFind sh th item found cont).2.1 := by
  cases cont <;> simp only [finishFind, ContL] at *
  · split
    · exact ⟨b, trivial⟩
    · exact ⟨b, c⟩
  · split
    · exact ⟨b, trivial⟩
    · exact ⟨b, c⟩
  · exact ⟨b, c⟩
  · exact ⟨b, c⟩
  · exact ⟨b, trivial⟩
  · split
    · rename_i hf
      exact enterSoft_tl' sh th item _ _ _ b (hfk hf)
    · exact ⟨b, trivial⟩
  · exact ⟨b, trivial⟩
  · exact ⟨b, trivial⟩
  · split
    · exact ⟨b, trivial⟩
    · exact TL_of_plain (th := th) b (afterNext_bufs ..) (plain_afterNext ..)
  · exact ⟨b, trivial⟩
  · exact ⟨b, trivial⟩

theorem afterRead_tl (sh : Shared) (th : Thread) (fp : FP) (next : Nat) (deleted : Bool)
    (b : BufL sh.heap th.preds th.succs) (hi : fp.i ≤ Gen.maxLevel)
    (k1 : Key.lt (keyOf sh.heap fp.prev) (.fin fp.item))
    (kp : Lk sh.heap fp.prev fp.i) (kc : Lk sh.heap fp.curr fp.i) (kn : Lk sh.heap next fp.i)
    (c : ContL sh.heap sh.level th.preds th.succs fp.item fp.i fp.cont) (hil : fp.i ≤ sh.level) :
    TL sh.heap sh.level (afterRead sh th fp next deleted).2.1 := by
  unfold afterRead
  split
  · exact ⟨b, hil, kp, c⟩
  · simp only []
    split
    · exact ⟨b, hil, kc, fun _ => kn, c⟩
    · rename_i hadv
      have k2 : ¬ Key.lt (keyOf sh.heap fp.curr) (.fin fp.item) := fun l =>
        hadv ((findAdvance_iff _).mpr ((compare_neg_iff _ _).mpr l))
      have b1 : BufL sh.heap (th.preds.set fp.i fp.prev) (th.succs.set fp.i fp.curr) := b.record kp kc
      split
      · rename_i i hi0
        have hi' : fp.i = i + 1 := hi0
        have kp' : Lk sh.heap fp.prev i := kp.mono (by omega)
        refine ⟨b1, (by show i ≤ sh.level; omega), kp', ?_⟩
        have c' : ContL sh.heap sh.level th.preds th.succs fp.item (i + 1) fp.cont := by rw [← hi']; exact c
        have := c'.record (prev := fp.prev) (curr := fp.curr) (by rw [b.1]; omega) (by rw [b.2.1]; omega) k1 k2
        rw [hi']; exact this
      · rename_i hi0
        have c' : ContL sh.heap sh.level th.preds th.succs fp.item 0 fp.cont := by rw [← hi0]; exact c
        have c1 := c'.set_zero fp.prev fp.curr
        have := finishFind_tl sh { th with preds := th.preds.set 0 fp.prev, succs := th.succs.set 0 fp.curr } fp.item
          (Gen.findFound (compare (keyOf sh.heap fp.curr) (Key.fin fp.item))) fp.cont (by rw [hi0] at b1; exact b1) c1
          (fun hf => by
            show keyOf sh.heap ((th.succs.set 0 fp.curr).getD 0 0) = .fin fp.item
            rw [getD_set_self (by rw [b.2.1]; omega)]
            exact (compare_zero_iff _ _).mp ((findFound_iff _).mp hf))
        rw [hi0]; exact this

end NitroVerif.SkipConc
