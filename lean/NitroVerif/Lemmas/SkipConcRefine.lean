import NitroVerif.Lemmas.SkipConcSys
import NitroVerif.Lemmas.SkipConcCore
/-!
  Refinement lemma: every segment of every thread of the full model is a transition of the level-0 core
  (`HStep`), and the event it produces is tied to the yield point the thread was parked at (`EvPC`):
  a publish happens only at INS_PUBLISH, a level-0 mark only at SOFT_MARK of level 0, an unlink only at
  HELP_DELETE.  With it the chain invariant `ReachInv` holds along every run.
-/
namespace NitroVerif.SkipConc
open NitroVerif

/-- which yield point can produce which event -/
def EvPC (th : Thread) : Event → Prop
  | .none => True
  | .upper => True
  | .unlink c => (∃ fp next, th.pc = .helpDelete fp next ∧ fp.i = 0 ∧ fp.curr = c) ∨
                 (∃ it next, th.pc = .iterHelp it next ∧ (th.iter it).curr = c)
  | .mark n => ∃ item next marked, th.pc = .softMark item n 0 next marked
  | .publish _ k => ∃ lvl, th.pc = .insPublish k lvl

theorem startFind_sh (sh : Shared) (th : Thread) (item : Nat) (c : Cont) : (startFind sh th item c).1 = sh := rfl
theorem insFinished_heap (sh : Shared) (th : Thread) (lvl : Nat) : (insFinished sh th lvl).1.heap = sh.heap := rfl

theorem insCheckSucc_heap (sh : Shared) (th : Thread) (item x lvl i next : Nat) :
    (insCheckSucc sh th item x lvl i next).1.heap = sh.heap := by
  unfold insCheckSucc; split <;> rfl

theorem enterSoft_sh (sh : Shared) (th : Thread) (item n i : Nat) (m : Bool) :
    (enterSoft sh th item n i m).1 = sh := by
  unfold enterSoft
  split
  · rfl
  · split <;> rfl

theorem finishFind_heap (sh : Shared) (th : Thread) (item : Nat) (found : Bool) (c : Cont) :
    (finishFind sh th item found c).1.heap = sh.heap := by
  cases c <;> simp only [finishFind]
  · split <;> rfl
  · split <;> rfl
  · exact insFinished_heap ..
  · split
    · rw [enterSoft_sh]
    · rfl
  · split
    · rfl
    · rw [afterNext_sh]

theorem afterRead_heap (sh : Shared) (th : Thread) (fp : FP) (next : Nat) (d : Bool) :
    (afterRead sh th fp next d).1.heap = sh.heap := by
  unfold afterRead
  split
  · rfl
  · simp only []
    split
    · rfl
    · split
      · rfl
      · exact finishFind_heap ..

/-- a dcas on an upper level is an `upper` (or no) event -/
theorem dcas_upper (h : Heap) (n l e p : Nat) (m : Bool) (hl : 1 ≤ l) :
    ∃ ev, HStep h ev (dcas h n l e p m).1 ∧ (ev = .none ∨ ev = .upper) := by
  by_cases hs : (dcas h n l e p m).2 = true
  · rw [dcas_ok_heap _ _ _ _ _ _ hs]
    exact ⟨.upper, .upper _ hl ((dcas_ok_iff ..).mp hs), .inr rfl⟩
  · rw [dcas_fail _ _ _ _ _ _ (by simpa using hs)]
    exact ⟨.none, .none, .inl rfl⟩

theorem EvPC_of_none_or_upper {th : Thread} {ev : Event} (h : ev = .none ∨ ev = .upper) : EvPC th ev := by
  rcases h with rfl | rfl <;> trivial

/-- the unlink dcas of helpDelete -/
theorem dcas_unlink (h : Heap) (prev i curr next : Nat) (hw : word? h curr i = some (next, true)) :
    ∃ ev, HStep h ev (dcas h prev i curr next false).1 ∧
      (ev = .none ∨ ev = .upper ∨ (ev = .unlink curr ∧ i = 0)) := by
  by_cases hi : 1 ≤ i
  · obtain ⟨ev, h1, h2⟩ := dcas_upper h prev i curr next false hi
    exact ⟨ev, h1, by rcases h2 with h2 | h2 <;> simp [h2]⟩
  · have hi0 : i = 0 := by omega
    subst hi0
    by_cases hs : (dcas h prev 0 curr next false).2 = true
    · rw [dcas_ok_heap _ _ _ _ _ _ hs]
      exact ⟨.unlink curr, .unlink ((dcas_ok_iff ..).mp hs) hw, by simp⟩
    · rw [dcas_fail _ _ _ _ _ _ (by simpa using hs)]
      exact ⟨.none, .none, by simp⟩

theorem newNode_next0 (th : Thread) (item lvl : Nat) : (newNode th item lvl).next[0]? = some (th.succ 0, false) := by
  simp [newNode]

/-- REFINEMENT: a segment of the full model is a transition of the level-0 core -/
theorem stepThread_hstep {sh : Shared} {th : Thread} (hT : TInv sh.heap th) :
    ∃ ev, HStep sh.heap ev (stepThread sh th).1.heap ∧ EvPC th ev := by
  have hp := hT.2.2
  unfold stepThread
  split
  · exact ⟨.none, .none, trivial⟩
  · refine ⟨.none, ?_, trivial⟩
    unfold stepNewLevel; split <;> exact .none
  · exact ⟨.none, .none, trivial⟩
  · refine ⟨.none, ?_, trivial⟩
    unfold stepFindNext; rw [afterRead_heap]; exact .none
  · -- HELP_DELETE in findPath
    rename_i fp next hpc
    rw [hpc] at hp
    obtain ⟨ev, h1, h2⟩ := dcas_unlink sh.heap fp.prev fp.i fp.curr next hp.2
    refine ⟨ev, ?_, ?_⟩
    · unfold stepHelpDelete; simp only []
      split
      · simpa [helpStats_heap] using h1
      · simpa [helpStats_heap, bumpReadConflicts] using h1
    · rcases h2 with rfl | rfl | ⟨rfl, hi⟩
      · trivial
      · trivial
      · exact .inl ⟨fp, next, hpc, hi, rfl⟩
  · -- INS_PUBLISH
    rename_i item lvl hpc
    rw [hpc] at hp
    unfold stepInsPublish; simp only []
    split
    · rename_i hs
      have hw := (dcas_ok_iff ..).mp hs
      have hst : HStep sh.heap (.publish sh.heap.length item)
          (setWord sh.heap (th.pred 0) 0 (sh.heap.length, false) ++ [newNode th item lvl]) :=
        .publish item (newNode th item lvl) hw (newNode_next0 ..) rfl hp.1 hp.2.1
      refine ⟨.publish sh.heap.length item, ?_, ⟨lvl, hpc⟩⟩
      rw [dcas_ok_heap _ _ _ _ _ _ hs]
      split
      · exact hst
      · exact hst
    · exact ⟨.none, .none, trivial⟩
  · -- INS_UP_READ
    rename_i item x lvl i hpc
    rw [hpc] at hp
    unfold stepInsUpRead; simp only []
    split
    · exact ⟨.none, .none, trivial⟩
    · split
      · obtain ⟨ev, h1, h2⟩ := dcas_upper sh.heap x i (getNext sh.heap x i).1 (th.succ i) false hp.2.2.1
        refine ⟨ev, ?_, EvPC_of_none_or_upper h2⟩
        split
        · rw [insCheckSucc_heap]; exact h1
        · exact h1
      · rw [insCheckSucc_heap]; exact ⟨.none, .none, trivial⟩
  · -- INS_UP_LINK
    rename_i item x lvl i next hpc
    rw [hpc] at hp
    obtain ⟨ev, h1, h2⟩ := dcas_upper sh.heap (th.pred i) i next x false hp.2.2.1
    refine ⟨ev, ?_, EvPC_of_none_or_upper h2⟩
    unfold stepInsUpLink; simp only []
    split
    · split
      · exact h1
      · split
        · exact h1
        · exact h1
    · exact h1
  · -- SOFT_MARK
    rename_i item n i next marked hpc
    unfold stepSoftMark; simp only []
    rw [enterSoft_sh]
    have hheap : ∀ (c : Bool) (a : Stats),
        (if c then ({ sh with heap := (dcas sh.heap n i next next true).1, stats := a } : Shared)
         else { sh with heap := (dcas sh.heap n i next next true).1 }).heap =
          (dcas sh.heap n i next next true).1 := by
      intro c a; split <;> rfl
    rw [hheap]
    by_cases hi : 1 ≤ i
    · obtain ⟨ev, h1, h2⟩ := dcas_upper sh.heap n i next next true hi
      exact ⟨ev, h1, EvPC_of_none_or_upper h2⟩
    · have hi0 : i = 0 := by omega
      subst hi0
      by_cases hs : (dcas sh.heap n 0 next next true).2 = true
      · rw [dcas_ok_heap _ _ _ _ _ _ hs]
        exact ⟨.mark n, .mark ((dcas_ok_iff ..).mp hs), ⟨item, next, marked, hpc⟩⟩
      · rw [dcas_fail _ _ _ _ _ _ (by simpa using hs)]
        exact ⟨.none, .none, trivial⟩
  · exact ⟨.none, .none, trivial⟩
  · refine ⟨.none, ?_, trivial⟩
    unfold stepIterNext; simp only []
    split
    · exact .none
    · rw [afterNext_sh]; exact .none
  · -- HELP_DELETE in Iterator.Next
    rename_i it next hpc
    rw [hpc] at hp
    simp only [PCInv] at hp
    obtain ⟨ev, h1, h2⟩ := dcas_unlink sh.heap (th.iter it).prev 0 (th.iter it).curr next hp.1
    refine ⟨ev, ?_, ?_⟩
    · unfold stepIterHelp; simp only []
      split
      · rw [afterNext_sh]; simpa [helpStats_heap] using h1
      · simpa [helpStats_heap, bumpReadConflicts, startFind_sh] using h1
    · rcases h2 with rfl | rfl | ⟨rfl, _⟩
      · trivial
      · trivial
      · exact .inr ⟨it, next, hpc, rfl⟩
  · exact ⟨.none, .none, trivial⟩

/-- the full invariant: `Inv` plus the chain invariant of the level-0 core -/
def InvR (s : Sys) : Prop := Inv s ∧ ReachInv s.sh.heap

theorem ReachInv_init : ReachInv initHeap := by
  have h01 : Reach initHeap 0 1 := .single (m := false) (by rw [word?_init_head]; simp [tailId, Gen.maxLevel])
  refine ⟨h01, fun n hn => ?_⟩
  obtain ⟨p, hp⟩ := hn
  obtain ⟨rfl, _⟩ := word?_init hp
  exact .refl _

theorem InvR_initWith (fixed : Bool) (n : Nat) : InvR (Sys.initWith fixed n) :=
  ⟨Inv_initWith fixed n, ReachInv_init⟩

theorem InvR_init (n : Nat) : InvR (Sys.init n) := InvR_initWith true n

/-- a step of any thread: an event of the core, produced at the matching yield point -/
theorem step_hstep {s : Sys} (hI : Inv s) (t : Nat) :
    ∃ ev, HStep s.sh.heap ev (s.step t).1.sh.heap ∧
      (ev = .none ∨ ∃ th, s.threads[t]? = some th ∧ EvPC th ev) := by
  unfold Sys.step
  split
  · exact ⟨.none, .none, .inl rfl⟩
  · rename_i th hth
    have hT := hI.2 th (List.mem_of_getElem? hth)
    split
    · exact ⟨.none, .none, .inl rfl⟩
    · obtain ⟨ev, h1, h2⟩ := stepThread_hstep (sh := s.sh) hT
      exact ⟨ev, h1, .inr ⟨th, hth, h2⟩⟩

theorem act_invR {s : Sys} (hI : InvR s) (a : Action) : InvR (s.act a) := by
  refine ⟨(act_inv hI.1 a).1, ?_⟩
  cases a with
  | start t op => simp only [Sys.act]; rw [(start_inv hI.1 t op).2]; exact hI.2
  | step t =>
    obtain ⟨ev, h1, _⟩ := step_hstep hI.1 t
    exact h1.reachInv hI.1.1 hI.2

/-- along every run of any number of threads the full invariant holds -/
theorem run_invR {s : Sys} (hI : InvR s) (as : List Action) : InvR (s.run as) := by
  induction as generalizing s with
  | nil => exact hI
  | cons a r ih => exact ih (act_invR hI a)

end NitroVerif.SkipConc
