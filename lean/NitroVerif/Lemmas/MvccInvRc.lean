/-
  Reference-count updates of one snapshot (`Open`, `Close`, iterator creation and destruction):
  everything of the invariant except the "frontier snapshot is live" clause is preserved.
-/
import NitroVerif.Lemmas.MvccGC

namespace NitroVerif.Mvcc
open NitroVerif SetSpec

/-- the invariant between the retirement of a snapshot and the `GC()` call that follows -/
structure PreGC (σ : State) : Prop where
  sorted : Sorted σ.store
  chains : Chains σ.currSn σ.store
  count : CountInv σ.store σ.writers σ.itemsCount
  lt : ∀ s ∈ σ.snaps, 0 < s.sn ∧ s.sn < σ.currSn
  all : ∀ n, 0 < n → n < σ.currSn → ∃ s ∈ σ.snaps, s.sn = n
  inc : σ.snaps.Pairwise (fun a b => a.sn < b.sn)
  rc : ∀ s ∈ σ.snaps, 0 ≤ s.rc ∧ (s.st = .live ↔ 0 < s.rc)
  gclt : σ.lastGCSn < σ.currSn
  coll : ∀ s ∈ σ.snaps, (s.st = .collected ↔ s.sn ≤ σ.lastGCSn)
  cnt : ∀ s ∈ σ.snaps, s.count = (s.content.length : Nat)
  view : ViewInv σ.store σ.snaps
  garb : GarbInv σ.store σ.writers σ.snaps σ.currSn σ.lastGCSn
  iters : IterInv σ.iters σ.snaps
  handles : HandleInv σ.handles σ.store σ.currSn

theorem Inv.pre {σ : State} (h : Inv σ) : PreGC σ :=
  ⟨h.sorted, h.chains, h.count, h.snaps.lt, h.snaps.all, h.snaps.inc, h.snaps.rc, h.snaps.gclt,
   h.snaps.coll, h.snaps.cnt, h.view, h.garb, h.iters, h.handles⟩

theorem PreGC.inv {σ : State} (h : PreGC σ)
    (hf : ∀ s ∈ σ.snaps, s.sn = σ.lastGCSn + 1 → s.st = .live) : Inv σ :=
  ⟨h.sorted, h.chains, h.count, ⟨h.lt, h.all, h.inc, h.rc, h.gclt, h.coll, hf, h.cnt⟩, h.view, h.garb,
   h.iters, h.handles⟩

theorem pre_updSnap {σ : State} (h : Inv σ) {s : Nat} {x : Snap} (hx : findSnap s σ.snaps = some x)
    (f : Snap → Snap) (iters' : List (Nat × Iter))
    (hsn : (f x).sn = x.sn) (hcount : (f x).count = x.count) (hcontent : (f x).content = x.content)
    (hgclist : (f x).gclist = x.gclist)
    (hrc0 : 0 ≤ (f x).rc) (hlive : (f x).st = .live ↔ 0 < (f x).rc)
    (hcoll : (f x).st = .collected ↔ x.st = .collected)
    (hview : 0 < (f x).rc → 0 < x.rc)
    (hit : ∀ p ∈ iters', ∃ s ∈ σ.snaps, s.sn = p.2.sn ∧ ∀ v, p.2.cur = some v → v.norm ∈ s.content)
    (hrefs : itersOn s iters' ≤ (f x).rc)
    (hother : ∀ n, n ≠ s → itersOn n iters' ≤ itersOn n σ.iters) :
    PreGC { σ with snaps := updSnap s f σ.snaps, iters := iters' } := by
  have ⟨hxm, hxs⟩ := findSnap_some hx
  have huniq : ∀ y ∈ σ.snaps, y.sn = s → y = x := by
    intro y hy hys; exact snap_unique h.snaps.inc hy hxm (by omega)
  -- every new snapshot comes from an old one with the same number, lists and content
  have hfrom : ∀ y ∈ updSnap s f σ.snaps, ∃ z ∈ σ.snaps, y.sn = z.sn ∧ y.count = z.count ∧
      y.content = z.content ∧ y.gclist = z.gclist ∧ ((y = z ∧ z.sn ≠ s) ∨ (z = x ∧ y = f x)) := by
    intro y hy
    obtain ⟨z, hz, rfl⟩ := mem_updSnap hy
    by_cases hzs : z.sn = s
    · have := huniq z hz hzs; subst this
      exact ⟨z, hz, by simp [hzs, hsn], by simp [hzs, hcount], by simp [hzs, hcontent],
        by simp [hzs, hgclist], Or.inr ⟨rfl, by simp [hzs]⟩⟩
    · exact ⟨z, hz, by simp [hzs], by simp [hzs], by simp [hzs], by simp [hzs], Or.inl ⟨by simp [hzs], hzs⟩⟩
  have hto : ∀ z ∈ σ.snaps, ∃ y ∈ updSnap s f σ.snaps, y.sn = z.sn ∧ y.content = z.content ∧
      y.gclist = z.gclist := by
    intro z hz
    refine ⟨if z.sn = s then f z else z, List.mem_map.mpr ⟨z, hz, rfl⟩, ?_⟩
    by_cases hzs : z.sn = s
    · have := huniq z hz hzs; subst this
      simp [hzs, hsn, hcontent, hgclist]
    · simp [hzs]
  refine ⟨h.sorted, h.chains, h.count, ?_, ?_, ?_, ?_, h.snaps.gclt, ?_, ?_, ?_, ?_, ?_, h.handles⟩
  · intro y hy
    obtain ⟨z, hz, h1, _⟩ := hfrom y hy
    have := h.snaps.lt z hz; simp only at this ⊢; omega
  · intro n h0 hn
    obtain ⟨z, hz, hzn⟩ := h.snaps.all n h0 hn
    obtain ⟨y, hy, h1, _⟩ := hto z hz
    exact ⟨y, hy, by omega⟩
  · have hmap : (updSnap s f σ.snaps).map (·.sn) = σ.snaps.map (·.sn) := by
      unfold updSnap
      rw [List.map_map]
      apply List.map_congr_left
      intro z hz
      by_cases hzs : z.sn = s
      · have := huniq z hz hzs; subst this; simp [hzs, hsn]
      · simp [hzs]
    have h1 := List.pairwise_map.mpr h.snaps.inc
    rw [← hmap] at h1
    exact List.pairwise_map.mp h1
  · intro y hy
    obtain ⟨z, hz, _, _, _, _, h5⟩ := hfrom y hy
    rcases h5 with ⟨rfl, hne⟩ | ⟨rfl, rfl⟩
    · exact h.snaps.rc y hz
    · exact ⟨hrc0, hlive⟩
  · intro y hy
    obtain ⟨z, hz, h1, _, _, _, h5⟩ := hfrom y hy
    rcases h5 with ⟨rfl, hne⟩ | ⟨rfl, rfl⟩
    · exact h.snaps.coll y hz
    · rw [hcoll, hsn]; exact h.snaps.coll z hz
  · intro y hy
    obtain ⟨z, hz, _, h2, h3, _⟩ := hfrom y hy
    rw [h2, h3]; exact h.snaps.cnt z hz
  · intro y hy hrc
    obtain ⟨z, hz, h1, _, h3, _, h5⟩ := hfrom y hy
    rw [h1, h3]
    rcases h5 with ⟨rfl, hne⟩ | ⟨rfl, rfl⟩
    · exact h.view y hz hrc
    · exact h.view z hz (hview hrc)
  · have hg := h.garb
    refine ⟨hg.wgc, ?_, hg.wsound, ?_, hg.exact, hg.wpres, ?_⟩
    · intro v hv hd hlt
      obtain ⟨z, hz, hzs, g, hgm, hgs⟩ := hg.sgc v hv hd hlt
      obtain ⟨y, hy, h1, _, h3⟩ := hto z hz
      exact ⟨y, hy, by omega, g, by rw [h3]; exact hgm, hgs⟩
    · intro y hy hst g hgm
      obtain ⟨z, hz, h1, _, _, h4, h5⟩ := hfrom y hy
      rw [h4] at hgm; rw [h1]
      rcases h5 with ⟨rfl, hne⟩ | ⟨rfl, rfl⟩
      · exact hg.ssound y hz hst g hgm
      · exact hg.ssound z hz (fun hc => hst (hcoll.mpr hc)) g hgm
    · intro y hy hst g hgm
      obtain ⟨z, hz, h1, _, _, h4, h5⟩ := hfrom y hy
      rw [h4] at hgm
      rcases h5 with ⟨rfl, hne⟩ | ⟨rfl, rfl⟩
      · exact hg.spres y hz hst g hgm
      · exact hg.spres z hz (fun hc => hst (hcoll.mpr hc)) g hgm
  · refine ⟨?_, ?_⟩
    · intro p hp
      obtain ⟨z, hz, hzs, hc⟩ := hit p hp
      obtain ⟨y, hy, h1, h2, _⟩ := hto z hz
      exact ⟨y, hy, by omega, by rw [h2]; exact hc⟩
    · intro y hy
      obtain ⟨z, hz, h1, _, _, _, h5⟩ := hfrom y hy
      rcases h5 with ⟨rfl, hne⟩ | ⟨rfl, rfl⟩
      · have := hother y.sn hne
        have h2 := h.iters.refs y hz
        show itersOn y.sn iters' ≤ y.rc
        omega
      · show itersOn (f z).sn iters' ≤ (f z).rc
        rw [hsn, hxs]; exact hrefs

end NitroVerif.Mvcc
