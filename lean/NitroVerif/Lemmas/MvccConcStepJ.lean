/-
  The invariant is preserved by the steps of the collection jobs and of the free jobs.
-/
import NitroVerif.Lemmas.MvccConcRemove

namespace NitroVerif.MvccConc
open NitroVerif
open NitroVerif.Mvcc (isAlive)

theorem ProtInv.gc_mono {threads : List Pc} {store : List Node} {gcJobs gcJobs' : List GcJob} {sess : List Sess}
    {iters : List ((Nat × Nat) × Iter)} (h : ProtInv threads store gcJobs sess iters)
    (hm : ∀ n, n ∈ gcOwned gcJobs → n ∈ gcOwned gcJobs') : ProtInv threads store gcJobs' sess iters := by
  have hP : ∀ n tok, Prot threads store gcJobs sess n tok → Prot threads store gcJobs' sess n tok := by
    intro n tok hpr
    exact hpr.mono (fun h => Or.inl h) (fun tk k h => Or.inr (Or.inl ⟨tk, k, h⟩))
      (fun h => Or.inr (Or.inr (Or.inl (hm n h))))
      (fun i s h1 h2 h3 => Or.inr (Or.inr (Or.inr ⟨i, s, h1, h2, h3⟩)))
  exact ⟨fun t n tok k hg => hP n tok (h.phys t n tok k hg), fun t n tok k hg => hP n tok (h.cas t n tok k hg),
    fun key it c hm' hc => hP c.id it.tok (h.it key it c hm' hc)⟩

/-- a job changes its program counter only -/
theorem inv_setGc_same {σ : State} {j : Nat} {job0 job' : GcJob} (h : Inv σ) (hj : σ.gcJobs[j]? = some job0)
    (ho : gcOwn job' = gcOwn job0) (htd : job'.todo = job0.todo)
    (hjc : (job'.pc = .flush ∨ job'.pc = .done ∨ job'.pc = .finished) → job'.todo = []) :
    Inv (setGc σ j job') := by
  have hcount : ∀ n, (gcOwned (σ.gcJobs.set j job')).count n = (gcOwned σ.gcJobs).count n := by
    intro n
    have := gcOwned_set hj job' n
    rw [ho] at this; omega
  refine ⟨h.store, h.pc, ?_, ?_, h.tok, ?_⟩
  · show GarbInv σ.writers σ.snaps (σ.gcJobs.set j job') σ.store σ.currSn
    have hg : ∀ n, garbC σ.writers σ.snaps (σ.gcJobs.set j job') n = garbC σ.writers σ.snaps σ.gcJobs n := by
      intro n
      unfold garbC
      have := garbJ_set hj job' n
      rw [htd] at this; omega
    refine ⟨fun n => by rw [hg]; exact h.garb.le n, fun n hn => h.garb.linked n (by rw [← hg]; exact hn), ?_⟩
    intro x hx hpc
    rcases mem_set_cases hx with rfl | hx
    · exact hjc hpc
    · exact h.garb.jobs x hx hpc
  · refine h.own.congr ?_ (fun _ => Iff.rfl)
    intro n
    show ownC σ.store σ.threads (σ.gcJobs.set j job') σ.sess σ.freeSeq σ.frJobs n = _
    unfold ownC; rw [hcount]
  · show ProtInv σ.threads σ.store (σ.gcJobs.set j job') σ.sess σ.iters
    refine h.prot.gc_mono ?_
    intro n hn
    have h1 : 0 < (gcOwned σ.gcJobs).count n := List.count_pos_iff.mpr hn
    exact List.count_pos_iff.mp (by rw [hcount]; exact h1)

/-- WORKER_NODE: the worker unlinks the first node of its remaining list -/
theorem inv_gcNode {σ : State} {j n : Nat} {r : List Nat} {job : GcJob} {pc' : GcPc} (h : Inv σ)
    (hj : σ.gcJobs[j]? = some job) (hpc : job.pc = .node) (htd : job.todo = n :: r)
    (hpc' : (pc' = .flush ∧ r = []) ∨ pc' = .node) {x : Node} (hf : findNode σ.store n = some x) :
    Inv (setGc { σ with store := removeNode σ.store n, unlinked := σ.unlinked ++ [x] } j ⟨job.done ++ [n], r, pc'⟩) := by
  have ⟨hx, hid⟩ := findNode_some hf
  have hjm : job ∈ σ.gcJobs := List.mem_of_getElem? hj
  -- `n` is a garbage node: linked, dead, born in an earlier epoch
  have hgpos : 0 < garbC σ.writers σ.snaps σ.gcJobs n := by
    have : 0 < (garbJ σ.gcJobs).count n := by
      unfold garbJ
      exact count_flatMap_pos.mpr ⟨job, hjm, by rw [htd]; simp⟩
    unfold garbC; omega
  obtain ⟨x', hx', hid', hdead, hborn⟩ := h.garb.linked n hgpos
  have hxx : x' = x := id_unique h.store.ids hx' hx (by omega)
  rw [hxx] at hdead hborn
  have hgown : gcOwn job = job.done := by simp [gcOwn, hpc]
  have hgown' : gcOwn (⟨job.done ++ [n], r, pc'⟩ : GcJob) = job.done ++ [n] := by
    rcases hpc' with ⟨h1, _⟩ | h1 <;> simp [gcOwn, h1]
  have hgJ : ∀ m, garbC σ.writers σ.snaps (σ.gcJobs.set j ⟨job.done ++ [n], r, pc'⟩) m + (if n = m then 1 else 0) =
      garbC σ.writers σ.snaps σ.gcJobs m := by
    intro m
    unfold garbC
    have := garbJ_set hj ⟨job.done ++ [n], r, pc'⟩ m
    rw [htd] at this
    simp only [List.count_cons] at this
    split <;> simp_all <;> omega
  refine ⟨?_, ?_, ?_, ?_, h.tok, ?_⟩
  · -- store
    refine h.store.remove hf ?_
    have := alive_removeNode h.store.ids hf
    simp only [hdead, if_false, Nat.add_zero] at this
    rw [this]; exact h.store.cnt
  · -- pc
    have hpc0 := h.pc
    show PcInv σ.threads σ.writers.length σ.currSn (removeNode σ.store n) (σ.unlinked ++ [x]) σ.nextId σ.gcFlag σ.snaps
    refine ⟨hpc0.len, hpc0.put, ?_, ?_, hpc0.fl, hpc0.coll, hpc0.excl⟩
    · intro t m tok k hg
      have := hpc0.phys t m tok k hg
      exact ⟨this.1, this.2.1, this.2.2.1, fun y hy => this.2.2.2 y (mem_removeNode.mp hy).1⟩
    · intro t m tok k hg
      have := hpc0.cas t m tok k hg
      refine ⟨this.1, this.2.1, this.2.2.1, fun y hy => this.2.2.2.1 y (mem_removeNode.mp hy).1, ?_⟩
      intro y hy hym
      rcases List.mem_append.mp hy with hy | hy
      · exact this.2.2.2.2 y hy hym
      · simp at hy; subst hy; exact hdead
  · -- garb
    show GarbInv σ.writers σ.snaps (σ.gcJobs.set j ⟨job.done ++ [n], r, pc'⟩) (removeNode σ.store n) σ.currSn
    refine ⟨fun m => by have h1 := hgJ m; have h2 := h.garb.le m; split at h1 <;> omega, ?_, ?_⟩
    · intro m hm
      have h1 := hgJ m
      have h2 := h.garb.le m
      have hne : n ≠ m := by intro he; rw [if_pos he] at h1; omega
      obtain ⟨y, hy, hym, hyd, hyb⟩ := h.garb.linked m (by split at h1 <;> omega)
      exact ⟨y, mem_removeNode.mpr ⟨hy, by omega⟩, hym, hyd, hyb⟩
    · intro y hy hpcy
      rcases mem_set_cases hy with rfl | hy
      · simp only at hpcy ⊢
        rcases hpc' with ⟨_, h2⟩ | h1
        · exact h2
        · rw [h1] at hpcy; simp at hpcy
      · exact h.garb.jobs y hy hpcy
  · -- own
    refine h.own.congr ?_ (fun _ => Iff.rfl)
    intro m
    show ownC (removeNode σ.store n) σ.threads (σ.gcJobs.set j ⟨job.done ++ [n], r, pc'⟩) σ.sess σ.freeSeq σ.frJobs m = _
    unfold ownC
    have h1 := count_storeIds_removeNode h.store.ids hf m
    have h2 := gcOwned_set hj ⟨job.done ++ [n], r, pc'⟩ m
    rw [hgown, hgown'] at h2
    simp only [List.count_append, List.count_cons, List.count_nil] at h2
    split at h1 <;> simp_all <;> omega
  · -- prot
    show ProtInv σ.threads (removeNode σ.store n) (σ.gcJobs.set j ⟨job.done ++ [n], r, pc'⟩) σ.sess σ.iters
    have hown_n : n ∈ gcOwned (σ.gcJobs.set j ⟨job.done ++ [n], r, pc'⟩) := by
      unfold gcOwned
      refine List.mem_flatMap.mpr ⟨_, List.mem_of_getElem? (get_set_self hj), ?_⟩
      rw [hgown']; simp
    have hmono : ∀ m, m ∈ gcOwned σ.gcJobs → m ∈ gcOwned (σ.gcJobs.set j ⟨job.done ++ [n], r, pc'⟩) := by
      intro m hm
      have h1 : 0 < (gcOwned σ.gcJobs).count m := List.count_pos_iff.mpr hm
      have h2 := gcOwned_set hj ⟨job.done ++ [n], r, pc'⟩ m
      rw [hgown, hgown'] at h2
      simp only [List.count_append] at h2
      exact List.count_pos_iff.mp (by omega)
    have hP : ∀ m tok, Prot σ.threads σ.store σ.gcJobs σ.sess m tok →
        Prot σ.threads (removeNode σ.store n) (σ.gcJobs.set j ⟨job.done ++ [n], r, pc'⟩) σ.sess m tok := by
      intro m tok hpr
      refine hpr.mono ?_ (fun tk k h => Or.inr (Or.inl ⟨tk, k, h⟩))
        (fun h => Or.inr (Or.inr (Or.inl (hmono m h))))
        (fun i s h1 h2 h3 => Or.inr (Or.inr (Or.inr ⟨i, s, h1, h2, h3⟩)))
      intro hm
      by_cases hmn : m = n
      · subst hmn; exact Or.inr (Or.inr (Or.inl hown_n))
      · exact Or.inl (mem_storeIds_removeNode hm hmn)
    exact ⟨fun t m tok k hg => hP m tok (h.prot.phys t m tok k hg),
      fun t m tok k hg => hP m tok (h.prot.cas t m tok k hg),
      fun key it c hm' hc => hP c.id it.tok (h.prot.it key it c hm' hc)⟩

/-- WORKER_FLUSH -/
theorem inv_gcFlush {σ : State} {j : Nat} {job : GcJob} (h : Inv σ) (hj : σ.gcJobs[j]? = some job)
    (hpc : job.pc = .flush) : Inv (setGc (flush σ (job.done ++ job.todo)) j { job with pc := .done }) := by
  have hjm : job ∈ σ.gcJobs := List.mem_of_getElem? hj
  have htd : job.todo = [] := h.garb.jobs job hjm (Or.inl hpc)
  have hL : job.done ++ job.todo = job.done := by rw [htd, List.append_nil]
  rw [hL]
  have hgown : gcOwn job = job.done := by simp [gcOwn, hpc]
  have hgown' : gcOwn ({ job with pc := .done } : GcJob) = [] := by simp [gcOwn]
  have hpre := h.tok.toTokPre.flush job.done
  refine ⟨h.store, h.pc, ?_, ?_, hpre.cleanup, ?_⟩
  · show GarbInv σ.writers σ.snaps (σ.gcJobs.set j { job with pc := .done }) σ.store σ.currSn
    have hg : ∀ n, garbC σ.writers σ.snaps (σ.gcJobs.set j { job with pc := .done }) n =
        garbC σ.writers σ.snaps σ.gcJobs n := by
      intro n
      unfold garbC
      have := garbJ_set hj { job with pc := .done } n
      dsimp only at this
      omega
    refine ⟨fun n => by rw [hg]; exact h.garb.le n, fun n hn => h.garb.linked n (by rw [← hg]; exact hn), ?_⟩
    intro x hx hpcx
    rcases mem_set_cases hx with rfl | hx
    · exact htd
    · exact h.garb.jobs x hx hpcx
  · refine h.own.congr ?_ (fun _ => Iff.rfl)
    intro n
    show ownC σ.store σ.threads (σ.gcJobs.set j { job with pc := .done }) (flushSess σ.sess job.done)
      (σ.freeSeq + (readySess (flushSess σ.sess job.done) σ.freeSeq).length)
      (σ.frJobs ++ newFrJobs (readySess (flushSess σ.sess job.done) σ.freeSeq)) n = _
    unfold ownC
    rw [sessfr_flush h.tok.toTokPre]
    have h2 := gcOwned_set hj { job with pc := .done } n
    rw [hgown, hgown'] at h2
    simp only [List.count_nil] at h2
    omega
  · show ProtInv σ.threads σ.store (σ.gcJobs.set j { job with pc := .done }) (flushSess σ.sess job.done) σ.iters
    obtain ⟨c, _, hci, _, _⟩ := h.tok.toTokPre.last
    obtain ⟨c', hc', _, _, hcl'⟩ := flushSess_get_of job.done hci
    have hP : ∀ m tok, tok < σ.sess.length → Prot σ.threads σ.store σ.gcJobs σ.sess m tok →
        Prot σ.threads σ.store (σ.gcJobs.set j { job with pc := .done }) (flushSess σ.sess job.done) m tok := by
      intro m tok htok hpr
      refine hpr.mono (fun h => Or.inl h) (fun tk k h => Or.inr (Or.inl ⟨tk, k, h⟩)) ?_ ?_
      · intro hm
        -- either in this job's list (now attached to the current session) or in another job
        obtain ⟨job1, hjob1, hm1⟩ := List.mem_flatMap.mp hm
        obtain ⟨j1, hj1⟩ := mem_iff_get.mp hjob1
        by_cases hjj : j = j1
        · subst hjj
          rw [hj] at hj1; injection hj1 with h1; subst h1
          rw [hgown] at hm1
          refine Or.inr (Or.inr (Or.inr ⟨σ.sess.length - 1, c', by omega, hc', ?_⟩))
          rw [hcl' rfl]; exact hm1
        · refine Or.inr (Or.inr (Or.inl ?_))
          exact List.mem_flatMap.mpr ⟨job1, mem_set_of_ne hj1 hjj, hm1⟩
      · intro i s h1 h2 h3
        obtain ⟨s', hs', hm'⟩ := flushSess_list_mono h.tok.toTokPre job.done m i s h2 h3
        exact Or.inr (Or.inr (Or.inr ⟨i, s', h1, hs', hm'⟩))
    have htokT : ∀ (t : Nat) (pc : Pc) (tok : Nat), σ.threads[t]? = some pc → pc.tok = some tok →
        tok < σ.sess.length := by
      intro t pc tok hg htk
      obtain ⟨s, hs, _⟩ := h.tok.thr t pc tok hg htk
      exact (List.getElem?_eq_some_iff.mp hs).1
    refine ⟨fun t m tok k hg => hP m tok (htokT t _ tok hg rfl) (h.prot.phys t m tok k hg),
      fun t m tok k hg => hP m tok (htokT t _ tok hg rfl) (h.prot.cas t m tok k hg), ?_⟩
    intro key it c hm' hc
    obtain ⟨s, hs, _⟩ := h.tok.it key.1 key.2 it hm'
    exact hP c.id it.tok (List.getElem?_eq_some_iff.mp hs).1 (h.prot.it key it c hm' hc)

theorem inv_stepGc {σ : State} {j : Nat} (h : Inv σ) : Inv (stepGc σ j).1 := by
  unfold stepGc
  cases hj : σ.gcJobs[j]? with
  | none => exact h
  | some job =>
    simp only
    have hjm : job ∈ σ.gcJobs := List.mem_of_getElem? hj
    split
    · -- recv
      rename_i hpc
      split
      · rename_i he
        exact inv_setGc_same h hj (by simp [gcOwn, hpc]) rfl (fun _ => List.isEmpty_iff.mp he)
      · exact inv_setGc_same h hj (by simp [gcOwn, hpc]) rfl (by simp)
    · -- node
      rename_i hpc
      split
      · rename_i n r htd
        split
        · exact h
        · cases hf : findNode σ.store n with
          | none =>
            -- impossible: a node still to be processed is linked
            exfalso
            have hgpos : 0 < garbC σ.writers σ.snaps σ.gcJobs n := by
              have : 0 < (garbJ σ.gcJobs).count n := by
                unfold garbJ
                exact count_flatMap_pos.mpr ⟨job, hjm, by rw [htd]; simp⟩
              unfold garbC; omega
            obtain ⟨x, hx, hid, _⟩ := h.garb.linked n hgpos
            exact findNode_none hf x hx hid
          | some x =>
            simp only
            split
            · rename_i hr
              exact inv_gcNode h hj hpc htd (Or.inl ⟨rfl, List.isEmpty_iff.mp hr⟩) hf
            · exact inv_gcNode h hj hpc htd (Or.inr rfl) hf
      · rename_i htd
        exact inv_setGc_same h hj (by simp [gcOwn, hpc]) rfl (fun _ => htd)
    · -- flush
      rename_i hpc
      exact inv_gcFlush h hj hpc
    · -- done
      rename_i hpc
      exact inv_setGc_same h hj (by simp [gcOwn, hpc]) rfl (fun _ => h.garb.jobs job hjm (Or.inr (Or.inl hpc)))
    · exact h

end NitroVerif.MvccConc
