/-
  More transfer lemmas: snapshots, iterators, sessions.
-/
import NitroVerif.Lemmas.MvccConcTok

namespace NitroVerif.MvccConc
open NitroVerif

/-! ### GarbInv -/

theorem GarbInv.congr {writers writers' : List Writer} {snaps snaps' : List Snap} {gcJobs : List GcJob}
    {store : List Node} {cur : Nat} (h : GarbInv writers snaps gcJobs store cur)
    (hg : ∀ n, garbC writers' snaps' gcJobs n = garbC writers snaps gcJobs n) :
    GarbInv writers' snaps' gcJobs store cur :=
  ⟨fun n => by rw [hg]; exact h.le n, fun n hn => h.linked n (by rw [← hg]; exact hn), h.jobs⟩

theorem garbC_updSnap_same {writers : List Writer} {snaps : List Snap} {gcJobs : List GcJob} (s : Nat)
    (f : Snap → Snap) (hf : ∀ x, snapGarb (f x) = snapGarb x) (n : Nat) :
    garbC writers (updSnap s f snaps) gcJobs n = garbC writers snaps gcJobs n := by
  unfold garbC; rw [garbS_updSnap_same s f hf]

/-! ### PcInv -/

theorem PcInv.snaps_mono {threads : List Pc} {nw cur : Nat} {store unl : List Node} {nextId : Nat} {gcFlag : Bool}
    {snaps snaps' : List Snap} (h : PcInv threads nw cur store unl nextId gcFlag snaps)
    (hs : ∀ x ∈ snaps, x.st = .retired → ∃ y ∈ snaps', y.sn = x.sn ∧ y.st = .retired) :
    PcInv threads nw cur store unl nextId gcFlag snaps' := by
  refine ⟨h.len, h.put, h.phys, h.cas, h.fl, ?_, h.excl⟩
  intro t sn a hg
  obtain ⟨hf, x, hx, hsn, hst⟩ := h.coll t sn a hg
  obtain ⟨y, hy, hysn, hyst⟩ := hs x hx hst
  exact ⟨hf, y, hy, by omega, hyst⟩

/-- no thread is the collector -/
def NoCollector (threads : List Pc) : Prop :=
  ∀ (t sn : Nat) (a : Option Nat), threads[t]? ≠ some (Pc.collectSend sn a)

theorem PcInv.no_collector {threads : List Pc} {nw cur : Nat} {store unl : List Node} {nextId : Nat}
    {snaps : List Snap} (h : PcInv threads nw cur store unl nextId false snaps) : NoCollector threads := by
  intro t sn a hg
  have := (h.coll t sn a hg).1
  cases this

/-- without a collector the flag and the snapshots do not matter -/
theorem PcInv.of_no_collector {threads : List Pc} {nw cur : Nat} {store unl : List Node} {nextId : Nat}
    {gcFlag gcFlag' : Bool} {snaps snaps' : List Snap} (h : PcInv threads nw cur store unl nextId gcFlag snaps)
    (hn : NoCollector threads) : PcInv threads nw cur store unl nextId gcFlag' snaps' :=
  ⟨h.len, h.put, h.phys, h.cas, h.fl, fun t sn a hg => absurd hg (hn t sn a),
   fun t1 _ s1 a1 _ _ h1 _ => absurd h1 (hn t1 s1 a1)⟩

/-! ### TokInv and the iterator table -/

theorem TokInv.setIter_same_tok {threads : List Pc} {sess : List Sess} {iters : List ((Nat × Nat) × Iter)} {fs : Nat}
    (h : TokInv threads sess iters fs) {k : Nat × Nat} {it it' : Iter} (hm : (k, it) ∈ iters)
    (he : it'.tok = it.tok) : TokInv threads sess (setIter k it' iters) fs := by
  refine ⟨⟨h.thr, ?_, setIter_pairwise h.keys, h.destr, h.lt, h.flushed, h.nolist, ?_⟩, h.fix⟩
  · intro t j it0 hm0
    rcases mem_setIter.mp hm0 with ⟨hm1, _⟩ | he0
    · exact h.it t j it0 hm1
    · injection he0 with h1 h2
      subst h2; subst h1
      rw [he]; exact h.it t j it hm
  · intro i s hs
    refine ⟨(h.conv i s hs).1, ?_⟩
    intro hd hmem
    have hc := (h.conv i s hs).2 hd hmem
    cases hd with
    | thr t => exact hc
    | it t j =>
      obtain ⟨it0, hm0, htk⟩ := hc
      by_cases hk : (t, j) = k
      · subst hk
        have := iter_unique h.keys hm0 hm
        subst this
        exact ⟨it', mem_setIter.mpr (Or.inr rfl), by rw [he]; exact htk⟩
      · exact ⟨it0, mem_setIter.mpr (Or.inl ⟨hm0, hk⟩), htk⟩

/-! ### ProtInv -/

theorem Prot.sess_mono {threads : List Pc} {store : List Node} {gcJobs : List GcJob} {sess sess' : List Sess}
    {n tok : Nat} (h : Prot threads store gcJobs sess n tok)
    (hs : ∀ (i : Nat) (s : Sess), sess[i]? = some s → n ∈ s.list → ∃ s' : Sess, sess'[i]? = some s' ∧ n ∈ s'.list) :
    Prot threads store gcJobs sess' n tok :=
  h.mono (fun h => Or.inl h) (fun tk k h => Or.inr (Or.inl ⟨tk, k, h⟩)) (fun h => Or.inr (Or.inr (Or.inl h)))
    (fun i s h1 h2 h3 => by
      obtain ⟨s', hs', hm⟩ := hs i s h2 h3
      exact Or.inr (Or.inr (Or.inr ⟨i, s', h1, hs', hm⟩)))

theorem relSess_list_mono (sess : List Sess) (tok : Nat) (h : Holder) (n : Nat) :
    ∀ (i : Nat) (s : Sess), sess[i]? = some s → n ∈ s.list →
      ∃ s' : Sess, (relSess sess tok h)[i]? = some s' ∧ n ∈ s'.list :=
  fun _ _ hs hm => ⟨_, relSess_get_of tok h hs, hm⟩

theorem acqSess_list_mono (sess : List Sess) (h : Holder) (n : Nat) :
    ∀ (i : Nat) (s : Sess), sess[i]? = some s → n ∈ s.list →
      ∃ s' : Sess, (acqSess sess h)[i]? = some s' ∧ n ∈ s'.list :=
  fun _ _ hs hm => ⟨_, acqSess_get_of h hs, hm⟩

theorem flushSess_list_mono {threads : List Pc} {sess : List Sess} {iters : List ((Nat × Nat) × Iter)} {fs : Nat}
    (hp : TokPre threads sess iters fs) (L : List Nat) (n : Nat) :
    ∀ (i : Nat) (s : Sess), sess[i]? = some s → n ∈ s.list →
      ∃ s' : Sess, (flushSess sess L)[i]? = some s' ∧ n ∈ s'.list := by
  intro i s hs hm
  obtain ⟨s', hs', _, hl, _⟩ := flushSess_get_of L hs
  refine ⟨s', hs', ?_⟩
  by_cases he : sess.length - 1 = i
  · obtain ⟨c, _, hci, _, hcl⟩ := hp.last
    rw [he, hs] at hci; injection hci with h1; subst h1
    rw [hcl] at hm; simp at hm
  · rw [hl he]; exact hm

theorem ProtInv.sess_mono {threads : List Pc} {store : List Node} {gcJobs : List GcJob} {sess sess' : List Sess}
    {iters : List ((Nat × Nat) × Iter)} (h : ProtInv threads store gcJobs sess iters)
    (hs : ∀ (n i : Nat) (s : Sess), sess[i]? = some s → n ∈ s.list → ∃ s' : Sess, sess'[i]? = some s' ∧ n ∈ s'.list) :
    ProtInv threads store gcJobs sess' iters :=
  ⟨fun t n tok k hg => (h.phys t n tok k hg).sess_mono (hs n),
   fun t n tok k hg => (h.cas t n tok k hg).sess_mono (hs n),
   fun key it c hm hc => (h.it key it c hm hc).sess_mono (hs c.id)⟩

theorem ProtInv.iters_mono {threads : List Pc} {store : List Node} {gcJobs : List GcJob} {sess : List Sess}
    {iters iters' : List ((Nat × Nat) × Iter)} (h : ProtInv threads store gcJobs sess iters)
    (hi : ∀ (key : Nat × Nat) (it : Iter) (c : Cur), (key, it) ∈ iters' → it.cur = some c →
            (key, it) ∈ iters ∨ c.id ∈ storeIds store) :
    ProtInv threads store gcJobs sess iters' :=
  ⟨h.phys, h.cas, fun key it c hm hc => by
    rcases hi key it c hm hc with h1 | h1
    · exact h.it key it c h1 hc
    · exact Or.inl h1⟩

/-! ### ownership under barrier operations -/

theorem sessfr_release (sess : List Sess) (tok : Nat) (h : Holder) (fs : Nat) (frJobs : List FrJob) (n : Nat) :
    sessfr (relSess sess tok h) (fs + (readySess (relSess sess tok h) fs).length)
        (frJobs ++ newFrJobs (readySess (relSess sess tok h) fs)) n = sessfr sess fs frJobs n := by
  rw [sessfr_cleanup]
  unfold sessfr
  rw [sessOwned_relSess]

theorem sessfr_acquire (sess : List Sess) (h : Holder) (fs : Nat) (frJobs : List FrJob) (n : Nat) :
    sessfr (acqSess sess h) fs frJobs n = sessfr sess fs frJobs n := by
  unfold sessfr
  rw [sessOwned_acqSess]

theorem sessfr_flush {threads : List Pc} {sess : List Sess} {iters : List ((Nat × Nat) × Iter)} {fs : Nat}
    (hp : TokPre threads sess iters fs) (L : List Nat) (frJobs : List FrJob) (n : Nat) :
    sessfr (flushSess sess L) (fs + (readySess (flushSess sess L) fs).length)
        (frJobs ++ newFrJobs (readySess (flushSess sess L) fs)) n = sessfr sess fs frJobs n + L.count n := by
  rw [sessfr_cleanup]
  unfold sessfr
  obtain ⟨c, hc, _, _, hcl⟩ := hp.last
  rw [sessOwned_flushSess hp.lt hc hcl]
  omega

end NitroVerif.MvccConc
