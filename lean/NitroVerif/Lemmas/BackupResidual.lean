import NitroVerif.Lemmas.BackupDamage
/-!
  Classification of `load` on damaged images of a completed store (for C11): every outcome is an
  error, the stored content, or one of the explicitly described re-framing / collision cases.
-/
namespace NitroVerif.Backup
open NitroVerif NitroVerif.Codec NitroVerif.Backup.GenLemmas

theorem readFile_written (h : Bytes → Nat) {ver : Nat} (hv : ver ≠ 0) (part : List Bytes)
    (hp : ValidItems part) (rest : Bytes) :
    readFile h ver (writeFile part ++ rest) = .ok part (writerChecksum h part) rest := by
  rw [readFile_ver h hv]
  exact shardResult_written.Props_roundtrip h part hp rest

/-- the intact image loads (all manifests as stored) -/
theorem load_storeImage (h : Bytes → Nat) (cmp : Bytes → Bytes → Int) (parts : List (List Bytes))
    (hval : ValidItems parts.flatten) {ver : Nat} (hv : ver ≠ 0) :
    load h cmp false (storeImage h parts ver) = .ok parts.flatten := by
  simp only [load, storeImage, versionOf]
  rw [loadShards_written h hv Gen.checksumMismatch (fun has s => checksumMismatch_self has s) parts hval]
  simp

/-- a cut shard: error, whatever the checksums manifest and the other shard files are -/
theorem load_truncated (h : Bytes → Nat) (cmp : Bytes → Bytes → Int) (parts : List (List Bytes))
    (hval : ValidItems parts.flatten) {ver : Nat} (hv : ver ≠ 0) (img : Image)
    (hver : img.version = .parsed ver) (cs : List Bytes) (hlen : cs.length = parts.length)
    (hfiles : img.files = .parsed (shardNames parts.length))
    (hdata : ∀ i, i < cs.length → lookup (shardName i) img.data = cs[i]?)
    (i : Nat) (hi : i < parts.length) (hpre : cs[i]'(by omega) <+: writeFile parts[i])
    (hne : cs[i]'(by omega) ≠ writeFile parts[i]) (useDelta : Bool) :
    load h cmp useDelta img = .err := by
  apply load_err_of_base_err
  rw [load_canonical h cmp img cs (by rw [hfiles, hlen]) hdata, hver]
  simp only [versionOf]
  cases hs : sumsOf img.sums cs.length with
  | none => rfl
  | some p =>
    obtain ⟨has, ss⟩ := p
    simp only
    have hl := sumsOf_length hs
    rw [allSome_zip_none _ ss cs hl i (by omega)
      (shardResult_truncated h hv _ _ parts[i] (validItems_of_flatten hval (List.getElem_mem hi)) _ hpre hne)]

/-- shard contents replaced by arbitrary bytes, checksums manifest as stored or absent:
    error, or the stored items, or a shard that re-frames to other items (and, when checksums are
    present, with the stored checksum) -/
theorem load_replaced_classify (h : Bytes → Nat) (cmp : Bytes → Bytes → Int) (parts : List (List Bytes))
    (hval : ValidItems parts.flatten) {ver : Nat} (hv : ver ≠ 0) (img : Image)
    (hver : img.version = .parsed ver) (cs : List Bytes) (hlen : cs.length = parts.length)
    (hfiles : img.files = .parsed (shardNames parts.length))
    (hdata : ∀ i, i < cs.length → lookup (shardName i) img.data = cs[i]?)
    (hsums : img.sums = .parsed (parts.map (writerChecksum h)) ∨ img.sums = .absent) :
    load h cmp false img = .err ∨ load h cmp false img = .ok parts.flatten ∨
    ∃ i, ∃ (hi : i < parts.length) (hc : i < cs.length), cs[i] ≠ writeFile parts[i] ∧
      ∃ items' sum rest, readFile h 1 cs[i] = .ok items' sum rest ∧ items' ≠ parts[i] ∧
        (img.sums ≠ .absent → sum = writerChecksum h parts[i]) := by
  rw [load_canonical h cmp img cs (by rw [hfiles, hlen]) hdata, hver]
  simp only [versionOf]
  cases hs : sumsOf img.sums cs.length with
  | none => left; rfl
  | some p =>
    obtain ⟨has, ss⟩ := p
    simp only
    have hl := sumsOf_length hs
    cases hr : allSome ((ss.zip cs).map (shardResult h ver (Gen.checksumMismatch has))) with
    | none => left; rfl
    | some l =>
      simp only
      obtain ⟨hll, hall⟩ := allSome_shards_inv hl hr
      by_cases hlp : l = parts
      · right; left; rw [hlp]
      · right; right
        obtain ⟨i, h1, h2, hd⟩ := exists_getElem_ne (by omega) hlp
        have hc : i < cs.length := by omega
        obtain ⟨sum, rest, hread, hmm⟩ := hall i hc (by omega) h1
        have hvp := validItems_of_flatten hval (List.getElem_mem h2)
        refine ⟨i, h2, hc, ?_, l[i], sum, rest, ?_, hd, ?_⟩
        · intro he
          rw [he] at hread
          have := readFile_written h hv parts[i] hvp []
          rw [List.append_nil] at this
          rw [this] at hread
          simp only [ReadResult.ok.injEq] at hread
          exact hd hread.1.symm
        · rw [← readFile_ver h hv]; exact hread
        · intro hna
          rcases hsums with hp | ha
          · rw [hp, sumsOf_parsed (by simp; omega)] at hs
            simp only [Option.some.injEq, Prod.mk.injEq] at hs
            obtain ⟨rfl, rfl⟩ := hs
            have := (checksumMismatch_false_iff _ _ _).1 hmm rfl
            simpa using this.symm
          · exact absurd ha hna

/-- the version reads 0 (nitro.json removed, or altered): every shard is decoded with 2-byte lengths -/
theorem load_v0_classify (h : Bytes → Nat) (cmp : Bytes → Bytes → Int) (parts : List (List Bytes))
    (img : Image) (hver : versionOf img.version = some 0)
    (hfiles : img.files = .parsed (shardNames parts.length))
    (hdata : img.data = shardFiles 0 parts)
    (hsums : img.sums = .parsed (parts.map (writerChecksum h))) :
    load h cmp false img = .err ∨ load h cmp false img = .ok parts.flatten ∨
    ∃ i, ∃ (hi : i < parts.length), parts[i] ≠ [] ∧
      ∃ items' rest, readFile h 0 (writeFile parts[i]) = .ok items' (writerChecksum h parts[i]) rest ∧
        items' ≠ parts[i] := by
  rw [load_canonical h cmp img (parts.map writeFile) (by rw [hfiles]; simp)
    (fun i _ => by rw [hdata]; exact lookup_filesOf_zero i _), hver, hsums,
    sumsOf_parsed (by simp)]
  simp only
  cases hr : allSome (((parts.map (writerChecksum h)).zip (parts.map writeFile)).map
      (shardResult h 0 (Gen.checksumMismatch true))) with
  | none => left; rfl
  | some l =>
    simp only
    obtain ⟨hll, hall⟩ := allSome_shards_inv (by simp) hr
    rw [List.length_map] at hll
    by_cases hlp : l = parts
    · right; left; rw [hlp]
    · right; right
      obtain ⟨i, h1, h2, hd⟩ := exists_getElem_ne hll hlp
      obtain ⟨sum, rest, hread, hmm⟩ := hall i (by simpa using h2) (by simpa using h2) h1
      simp only [List.getElem_map] at hread hmm
      have hsum : writerChecksum h parts[i] = sum := (checksumMismatch_false_iff _ _ _).1 hmm rfl
      refine ⟨i, h2, ?_, l[i], rest, by rw [hsum]; exact hread, hd⟩
      intro hemp
      obtain ⟨tail, ht⟩ := readFile_v0_empty h []
      rw [List.append_nil] at ht
      rw [hemp, ht] at hread
      simp only [ReadResult.ok.injEq] at hread
      exact hd (by rw [hemp]; exact hread.1.symm)

/-- with items shorter than 2^16 bytes the version-0 reader sees every shard as empty with checksum 0:
    the load fails unless every stored checksum is 0, and then it returns the EMPTY database -/
theorem load_v0_small (h : Bytes → Nat) (cmp : Bytes → Bytes → Int) (parts : List (List Bytes))
    (hsmall : ∀ d ∈ parts.flatten, d.length < 2 ^ 16)
    (img : Image) (hver : versionOf img.version = some 0)
    (hfiles : img.files = .parsed (shardNames parts.length))
    (hdata : img.data = shardFiles 0 parts)
    (hsums : img.sums = .parsed (parts.map (writerChecksum h))) :
    load h cmp false img =
      if ∀ p ∈ parts, writerChecksum h p = 0 then .ok [] else .err := by
  rw [load_canonical h cmp img (parts.map writeFile) (by rw [hfiles]; simp)
    (fun i _ => by rw [hdata]; exact lookup_filesOf_zero i _), hver, hsums,
    sumsOf_parsed (by simp)]
  simp only
  have hres : ∀ p ∈ parts, shardResult h 0 (Gen.checksumMismatch true) (writerChecksum h p, writeFile p)
      = if writerChecksum h p = 0 then some [] else none := by
    intro p hp
    obtain ⟨tail, ht⟩ := readFile_v0_small h p []
      (fun d hd => hsmall d (List.mem_flatten.2 ⟨p, hp, List.mem_of_mem_head? hd⟩))
    rw [List.append_nil] at ht
    rw [shardResult_of_read ht, checksumMismatch_checked]
    by_cases h0 : writerChecksum h p = 0 <;> simp [h0]
  have hzip : ((parts.map (writerChecksum h)).zip (parts.map writeFile)).map
      (shardResult h 0 (Gen.checksumMismatch true))
      = parts.map (fun p => if writerChecksum h p = 0 then some [] else none) := by
    rw [List.zip_map', List.map_map]
    exact List.map_congr_left (fun p hp => hres p hp)
  rw [hzip]
  by_cases hall : ∀ p ∈ parts, writerChecksum h p = 0
  · rw [if_pos hall]
    have : parts.map (fun p => if writerChecksum h p = 0 then some ([] : List Bytes) else none)
        = (parts.map (fun _ => ([] : List Bytes))).map some := by
      rw [List.map_map]
      exact List.map_congr_left (fun p hp => by simp [hall p hp])
    rw [this, allSome_map_some]
    simp
  · rw [if_neg hall]
    have : allSome (parts.map (fun p => if writerChecksum h p = 0 then some ([] : List Bytes) else none))
        = none := by
      rw [allSome_eq_none_iff]
      apply Classical.byContradiction
      intro hno
      apply hall
      intro p hp
      apply Classical.byContradiction
      intro h0
      exact hno (List.mem_map.2 ⟨p, hp, by simp [h0]⟩)
    rw [this]

/-- checksums.json altered to another parsed list: always an error -/
theorem load_sums_altered (h : Bytes → Nat) (cmp : Bytes → Bytes → Int) (parts : List (List Bytes))
    (hval : ValidItems parts.flatten) {ver : Nat} (hv : ver ≠ 0) (cs' : List Nat)
    (hne : cs' ≠ parts.map (writerChecksum h)) (useDelta : Bool) :
    load h cmp useDelta { storeImage h parts ver with sums := .parsed cs' } = .err := by
  apply load_err_of_base_err
  rw [load_canonical h cmp _ (parts.map writeFile) (by simp [storeImage])
    (fun i _ => lookup_filesOf_zero i _)]
  simp only [storeImage, versionOf, List.length_map]
  by_cases hl : cs'.length = parts.length
  · rw [sumsOf_parsed hl]
    simp only
    obtain ⟨i, h1, h2, hd⟩ := exists_getElem_ne (by simpa using hl) hne
    have hi : i < parts.length := by simpa using h2
    rw [allSome_zip_none _ cs' (parts.map writeFile) (by simpa using hl) i (by simpa using hi)]
    have := shardResult_written_mismatch h hv (Gen.checksumMismatch true) cs'[i] parts[i]
      (validItems_of_flatten hval (List.getElem_mem hi)) []
      (by rw [checksumMismatch_checked]; simpa using hd)
    simpa using this
  · simp [sumsOf, hl]

/-- files.json altered to another parsed list `fs'`: an error, unless the list has the stored length,
    names existing shard files only, and every named file's checksum equals the checksum stored at
    its position; then the shards are restored in the order `fs'` gives -/
theorem load_files_altered (h : Bytes → Nat) (cmp : Bytes → Bytes → Int) (parts : List (List Bytes))
    (hval : ValidItems parts.flatten) {ver : Nat} (hv : ver ≠ 0) (fs' : List String) :
    load h cmp false { storeImage h parts ver with files := .parsed fs' } = .err ∨
    ∃ l : List (List Bytes),
      load h cmp false { storeImage h parts ver with files := .parsed fs' } = .ok l.flatten ∧
      fs'.length = parts.length ∧ l.length = parts.length ∧
      ∀ k, ∀ (hk : k < fs'.length) (hl : k < l.length) (hp : k < parts.length),
        ∃ j, ∃ (hj : j < parts.length), fs'[k] = shardName j ∧ l[k] = parts[j] ∧
          writerChecksum h parts[j] = writerChecksum h parts[k] := by
  simp only [load, storeImage, versionOf, loadShards]
  by_cases hl : parts.length = fs'.length
  · rw [sumsOf_parsed (by simpa using hl)]
    simp only
    rw [openAll_eq]
    cases ho : allSome (fs'.map (fun n => lookup n (shardFiles 0 parts))) with
    | none => left; rfl
    | some contents =>
      simp only
      rw [readShards_eq]
      cases hr : allSome (((parts.map (writerChecksum h)).zip contents).map
          (shardResult h ver (Gen.checksumMismatch true))) with
      | none => left; rfl
      | some l =>
        right
        obtain ⟨hcl, hcall⟩ := allSome_map_inv _ _ _ ho
        obtain ⟨hll, hall⟩ := allSome_shards_inv (by simp; omega) hr
        refine ⟨l, by simp, hl.symm, by omega, ?_⟩
        intro k hk hlk hp
        have hlook := hcall k hk (by omega)
        obtain ⟨j, hname, hget⟩ := lookup_filesOf_some hlook
        rw [Nat.zero_add] at hname
        have hj : j < parts.length := by
          have := (List.getElem?_eq_some_iff.1 hget).1
          simpa using this
        have hcont : contents[k]'(by omega) = writeFile parts[j] := by
          have := (List.getElem?_eq_some_iff.1 hget).2
          simpa using this.symm
        obtain ⟨sum, rest, hread, hmm⟩ := hall k (by omega) (by simpa using hp) hlk
        rw [hcont] at hread
        have hw := readFile_written h hv parts[j] (validItems_of_flatten hval (List.getElem_mem hj)) []
        rw [List.append_nil] at hw
        rw [hw] at hread
        simp only [ReadResult.ok.injEq] at hread
        refine ⟨j, hj, hname, hread.1.symm, ?_⟩
        have := (checksumMismatch_false_iff _ _ _).1 hmm rfl
        simp only [List.getElem_map] at this
        rw [hread.2.1, this]
  · left
    have : sumsOf (.parsed (parts.map (writerChecksum h))) fs'.length = none := by
      simp [sumsOf, hl]
    rw [this]

end NitroVerif.Backup
