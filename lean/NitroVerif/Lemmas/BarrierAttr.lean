import Lean
/-! simp set for the per-thread counting functions of the M4 invariants -/
register_simp_attr barsimp
