/-
  A scan interleaved with arbitrary other operations (specification level): the `Next` calls of
  an iterator deliver the content of its snapshot in order, whatever happens between them.
-/
import NitroVerif.Lemmas.MvccSpecLemmas

namespace NitroVerif.Mvcc
open NitroVerif SetSpec

/-! ### lookups in the specification are stable -/

theorem spec_findSnap_updSnap (s s' : Nat) (f : SetSpec.Snap → SetSpec.Snap) (hf : ∀ y, (f y).sn = y.sn) :
    ∀ (l : List SetSpec.Snap), SetSpec.findSnap s (SetSpec.updSnap s' f l) =
      (SetSpec.findSnap s l).map (fun x => if x.sn = s' then f x else x)
  | [] => rfl
  | x :: r => by
    have ih := spec_findSnap_updSnap s s' f hf r
    unfold SetSpec.findSnap SetSpec.updSnap at ih ⊢
    simp only [List.map_cons, List.find?_cons]
    have hsn : (if x.sn = s' then f x else x).sn = x.sn := by split <;> simp [hf]
    rw [hsn]
    cases h : (x.sn == s)
    · simp only; exact ih
    · rfl

theorem spec_findSnap_append {s : Nat} {l : List SetSpec.Snap} {x : SetSpec.Snap}
    (h : SetSpec.findSnap s l = some x) (r : List SetSpec.Snap) : SetSpec.findSnap s (l ++ r) = some x := by
  unfold SetSpec.findSnap at h ⊢
  rw [List.find?_append, h]; rfl

theorem spec_findSnap_stable (st : SetSpec.State) (op : Op) {s : Nat} {x : SetSpec.Snap}
    (hx : SetSpec.findSnap s st.snaps = some x) :
    ∃ x', SetSpec.findSnap s (SetSpec.step st op).1.snaps = some x' ∧ x'.content = x.content := by
  have hsame : ∃ x', SetSpec.findSnap s st.snaps = some x' ∧ x'.content = x.content := ⟨x, hx, rfl⟩
  have hupd : ∀ (s' : Nat) (f : SetSpec.Snap → SetSpec.Snap), (∀ y, (f y).sn = y.sn ∧ (f y).content = y.content) →
      ∃ x', SetSpec.findSnap s (SetSpec.updSnap s' f st.snaps) = some x' ∧ x'.content = x.content := by
    intro s' f hf
    rw [spec_findSnap_updSnap s s' f (fun y => (hf y).1), hx]
    refine ⟨_, rfl, ?_⟩
    dsimp only
    split
    · exact (hf x).2
    · rfl
  cases op <;> simp only [SetSpec.step, delEntry] <;> (repeat' split) <;>
    first
    | exact hsame
    | exact hupd _ _ (fun _ => ⟨rfl, rfl⟩)
    | exact ⟨x, spec_findSnap_append hx _, rfl⟩

theorem spec_frame_iters (st : SetSpec.State) (i : Nat) (op : Op) (hn : namesIter i op = false) :
    alookup i (SetSpec.step st op).1.iters = alookup i st.iters := by
  cases op with
  | itNew j s =>
    have hj : j ≠ i := by simpa [namesIter] using hn
    simp only [SetSpec.step]; (repeat' split) <;> first | rfl | exact alookup_aset_ne hj _ _
  | itRate j r => simp only [SetSpec.step]; (repeat' split) <;> rfl
  | itFirst j =>
    have hj : j ≠ i := by simpa [namesIter] using hn
    simp only [SetSpec.step]; (repeat' split) <;> first | rfl | exact alookup_aset_ne hj _ _
  | itSeek j k =>
    have hj : j ≠ i := by simpa [namesIter] using hn
    simp only [SetSpec.step]; (repeat' split) <;> first | rfl | exact alookup_aset_ne hj _ _
  | itNext j =>
    have hj : j ≠ i := by simpa [namesIter] using hn
    simp only [SetSpec.step]; (repeat' split) <;> first | rfl | exact alookup_aset_ne hj _ _
  | itRefresh j => simp only [SetSpec.step]; (repeat' split) <;> rfl
  | itClose j =>
    have hj : j ≠ i := by simpa [namesIter] using hn
    simp only [SetSpec.step]; (repeat' split) <;> first | rfl | exact alookup_aerase_ne hj _
  | _ => (simp only [SetSpec.step, delEntry]; try ((repeat' split) <;> rfl))

/-! ### positions -/

/-- iterator `i` stands on the `p`-th item of its snapshot's content `c` (`p = c.length`: at the end) -/
def AtPos (st : SetSpec.State) (i : Nat) (c : List Item) (p : Nat) : Prop :=
  ∃ it x, alookup i st.iters = some it ∧ SetSpec.findSnap it.sn st.snaps = some x ∧
    x.content = c ∧ it.cur = c[p]?

/-- operations that may be interleaved with a running scan of iterator `i`: everything except
    repositioning, re-creating or closing that iterator -/
def allowed (i : Nat) : Op → Bool
  | .itNew j _ => j != i
  | .itFirst j => j != i
  | .itSeek j _ => j != i
  | .itClose j => j != i
  | _ => true

def ItemLt (a b : Item) : Prop := a.1 < b.1

theorem nextIn_getElem : ∀ {c : List Item}, c.Pairwise ItemLt → ∀ {p : Nat} (hp : p < c.length),
    nextIn (c[p]).1 c = c[p + 1]?
  | [], _, _, hp => by simp at hp
  | x :: r, h, 0, _ => by
    have hx := List.pairwise_cons.mp h
    simp only [List.getElem_cons_zero, nextIn, List.find?_cons, Nat.lt_irrefl, decide_false]
    cases r with
    | nil => rfl
    | cons y ys =>
      have : x.1 < y.1 := hx.1 y (by simp)
      simp [this]
  | x :: r, h, p + 1, hp => by
    have hx := List.pairwise_cons.mp h
    have hp' : p < r.length := by simpa using hp
    have ih := nextIn_getElem hx.2 hp'
    have hlt : x.1 < (r[p]).1 := hx.1 _ (List.getElem_mem hp')
    have hn : decide ((r[p]).1 < x.1) = false := by simp; omega
    simp only [List.getElem_cons_succ, nextIn, List.find?_cons, hn]
    unfold nextIn at ih
    rw [ih]; simp

theorem contentOf_eq {st : SetSpec.State} {s : Nat} {x : SetSpec.Snap} (h : SetSpec.findSnap s st.snaps = some x) :
    contentOf st s = x.content := by
  unfold contentOf; rw [h]

theorem alookup_aset_self {α : Type} (i : Nat) (a : α) : ∀ (l : List (Nat × α)), alookup i (aset i a l) = some a
  | [] => by simp [aset, alookup]
  | (m, b) :: r => by
    by_cases hm : m = i
    · simp [aset, hm, alookup]
    · simp [aset, hm, alookup, alookup_aset_self i a r]

/-- one operation of the interleaving -/
theorem atPos_step {st : SetSpec.State} {i : Nat} {c : List Item} {p : Nat} (h : AtPos st i c p)
    (hc : c.Pairwise ItemLt) (op : Op) (ha : allowed i op = true) :
    (op = .itNext i →
       (p < c.length → (SetSpec.step st op).2 = .cursor c[p + 1]? ∧ AtPos (SetSpec.step st op).1 i c (p + 1)) ∧
       (¬ p < c.length → (SetSpec.step st op).2 = .bad ∧ AtPos (SetSpec.step st op).1 i c p)) ∧
    (op ≠ .itNext i → AtPos (SetSpec.step st op).1 i c p) := by
  obtain ⟨it, x, hi, hx, hxc, hcur⟩ := h
  constructor
  · intro hop
    subst hop
    constructor
    · intro hp
      have hcur' : it.cur = some c[p] := by rw [hcur]; exact List.getElem?_eq_getElem hp
      have hout : SetSpec.step st (.itNext i) =
          ({ st with iters := aset i { it with cur := nextIn (c[p]).1 (contentOf st it.sn) } st.iters },
           .cursor (nextIn (c[p]).1 (contentOf st it.sn))) := by
        simp only [SetSpec.step, hi, hcur']
      rw [hout, contentOf_eq hx, hxc, nextIn_getElem hc hp]
      exact ⟨rfl, { it with cur := c[p + 1]? }, x, alookup_aset_self _ _ _, hx, hxc, rfl⟩
    · intro hp
      have hcur' : it.cur = none := by rw [hcur]; exact List.getElem?_eq_none (by omega)
      have hout : SetSpec.step st (.itNext i) = (st, .bad) := by
        simp only [SetSpec.step, hi, hcur']
      rw [hout]
      exact ⟨rfl, it, x, hi, hx, hxc, hcur⟩
  · intro hop
    by_cases hn : namesIter i op = true
    · -- the only operations naming `i` that are allowed: Next (excluded), Refresh, SetRefreshRate
      cases op with
      | itNew j s => simp [namesIter, allowed] at hn ha; exact absurd hn ha
      | itFirst j => simp [namesIter, allowed] at hn ha; exact absurd hn ha
      | itSeek j k => simp [namesIter, allowed] at hn ha; exact absurd hn ha
      | itClose j => simp [namesIter, allowed] at hn ha; exact absurd hn ha
      | itNext j => simp [namesIter] at hn; subst hn; exact absurd rfl hop
      | itRate j r =>
        simp [namesIter] at hn; subst hn
        have hout : (SetSpec.step st (.itRate j r)).1 = st := by simp only [SetSpec.step, hi]
        rw [hout]; exact ⟨it, x, hi, hx, hxc, hcur⟩
      | itRefresh j =>
        simp [namesIter] at hn; subst hn
        rw [spec_refresh_state]; exact ⟨it, x, hi, hx, hxc, hcur⟩
      | _ => simp [namesIter] at hn
    · have hn' : namesIter i op = false := by simpa using hn
      obtain ⟨x', hx', hx'c⟩ := spec_findSnap_stable st op hx
      exact ⟨it, x', by rw [spec_frame_iters st i op hn']; exact hi, hx', by rw [hx'c, hxc], hcur⟩

/-- the outputs of the `Next` calls of iterator `i` -/
def nextOuts (i : Nat) : List Op → List Out → List Out
  | op :: ops, o :: os => if op = .itNext i then o :: nextOuts i ops os else nextOuts i ops os
  | _, _ => []

/-- what `k` successive `Next` calls from position `p` must deliver -/
def expectNext (c : List Item) : Nat → Nat → List Out
  | _, 0 => []
  | p, k + 1 => if p < c.length then .cursor c[p + 1]? :: expectNext c (p + 1) k else .bad :: expectNext c p k

def countNext (i : Nat) (ops : List Op) : Nat := (ops.filter (fun op => decide (op = .itNext i))).length

theorem spec_scan_interleaved {c : List Item} (hc : c.Pairwise ItemLt) (i : Nat) :
    ∀ (ops : List Op) (st : SetSpec.State) (p : Nat), AtPos st i c p → (∀ op ∈ ops, allowed i op = true) →
      nextOuts i ops (SetSpec.run st ops) = expectNext c p (countNext i ops)
  | [], _, _, _, _ => rfl
  | op :: ops, st, p, h, hall => by
    have ha := hall op (by simp)
    have hrest : ∀ o ∈ ops, allowed i o = true := fun o ho => hall o (List.mem_cons_of_mem _ ho)
    have hs := atPos_step h hc op ha
    by_cases hop : op = .itNext i
    · subst hop
      have hcnt : countNext i (Op.itNext i :: ops) = countNext i ops + 1 := by simp [countNext]
      rw [hcnt]
      simp only [SetSpec.run, nextOuts, if_true, expectNext]
      by_cases hp : p < c.length
      · have ⟨h1, h2⟩ := (hs.1 rfl).1 hp
        rw [if_pos hp, h1, spec_scan_interleaved hc i ops _ (p + 1) h2 hrest]
      · have ⟨h1, h2⟩ := (hs.1 rfl).2 hp
        rw [if_neg hp, h1, spec_scan_interleaved hc i ops _ p h2 hrest]
    · have hcnt : countNext i (op :: ops) = countNext i ops := by simp [countNext, hop]
      rw [hcnt]
      simp only [SetSpec.run, nextOuts, hop, if_false]
      exact spec_scan_interleaved hc i ops _ p (hs.2 hop) hrest

end NitroVerif.Mvcc
