import NitroVerif.Lemmas.Table
/-!
  Get / Update / Remove of the node table, case by case over what `find` returns: the output, the
  preserved structural invariant, and the new bucket of the key's hash.
-/
namespace NitroVerif.Table
open NitroVerif NitroVerif.Table.GenLemmas

section
variable (hash : Key → Hash) (keyOf : Ptr → Key)

theorem get_eq_lookup {t : Table} (hI : SInv t) (key : Key) :
    get hash keyOf t key = lookupB keyOf key (bucket t (hash key)) := by
  have hslowne := ntFoundInSlow_ne_fast
  rcases findCase hash keyOf hI key with ⟨hf, hs⟩ | ⟨p, c, hf, hk⟩ | ⟨p, vs, i, hf, hk, hs, hi⟩ |
      ⟨p, vs, hf, hk, hs, hi⟩ | ⟨p, hf, hk, hs⟩
  · unfold get bucket
    rw [find_noEntry hash keyOf hf, hf, hs]
    simp [ntIsFound_notFound, bucketOf, lookupB]
  · unfold get bucket
    rw [find_inFast hash keyOf hf hk, hf]
    simp [ntIsFound_fast, bucketOf, lookupB, hk]
  · unfold get bucket
    rw [find_inSlow hash keyOf hf hk hs hi, hf, hs]
    simp [ntIsFound_slow, hslowne, bucketOf, lookupB, hk, (slowPos_some keyOf hi).1]
  · unfold get bucket
    rw [find_missSlow hash keyOf hf hk hs hi, hf, hs]
    simp [ntIsFound_notFound, bucketOf, lookupB, hk, slowPos_none keyOf hi]
  · unfold get bucket
    rw [find_missNoConflict hash keyOf hf hk, hf, hs]
    simp [ntIsFound_notFound, bucketOf, lookupB, hk]

/-- what an Update must achieve, in terms of buckets -/
def UpdateOk (t : Table) (key : Key) (np : Ptr) (r : Table × Bool × Option Ptr) : Prop :=
  SInv r.1 ∧
  (∀ h', bucket r.1 h' =
      if h' = hash key then updateB keyOf key np (bucket t (hash key)) else bucket t h') ∧
  r.2.1 = (lookupB keyOf key (bucket t (hash key))).isSome ∧
  r.2.2 = lookupB keyOf key (bucket t (hash key)) ∧
  itemsCount r.1 = itemsCount t + (if (lookupB keyOf key (bucket t (hash key))).isSome then 0 else 1)

theorem update_inFast {t : Table} (hI : SInv t) {key : Key} (np : Ptr) {p : Ptr} {c : Bool}
    (hf : AL.get t.fastHT (hash key) = some (p, c)) (hk : keyOf p = key) :
    UpdateOk hash keyOf t key np (update hash keyOf t key np) := by
  obtain ⟨t', ht'⟩ : ∃ t' : Table, t' = { t with fastHT := AL.set t.fastHT (hash key) (np, c) } :=
    ⟨_, rfl⟩
  have hu : update hash keyOf t key np = (t', true, some p) := by
    unfold update
    rw [find_inFast hash keyOf hf hk, ht']
    simp [ntIsFound_fast]
  have hb : bucket t (hash key) = p :: (AL.get t.slowHT (hash key)).getD [] := by
    simp [bucket, bucketOf, hf]
  have hl : lookupB keyOf key (bucket t (hash key)) = some p := by simp [hb, lookupB, hk]
  rw [hu]
  have hfast : ∀ h', AL.get t'.fastHT h'
      = if h' = hash key then some (np, c) else AL.get t.fastHT h' := by
    rw [ht']; exact AL.get_set _ _ _
  have hslow : ∀ h', AL.get t'.slowHT h'
      = if h' = hash key then AL.get t.slowHT (hash key) else AL.get t.slowHT h' := by
    rw [ht']; exact get_same _ _
  refine ⟨?_, ?_, ?_, ?_, ?_⟩
  · refine hI.local (hash key) _ _ hfast hslow ?_ ?_ ?_ (by simp) ?_ (hI.slowNonempty _) ?_ ?_ ?_
    · rw [ht']; exact AL.nodup_set _ _ _ hI.fastNodup
    · rw [ht']; exact hI.slowNodup
    · rw [ht']; exact hI.notPanicked
    · intro p' c' e
      simp only [Option.some.injEq, Prod.mk.injEq] at e
      rw [← e.2]; exact hI.conflictIff _ p c hf
    · rw [ht']; simp [AL.length_set, hf, hI.fastCount]
    · rw [ht']; exact hI.slowCount
    · rw [ht']; exact hI.conflictCount
  · intro h'
    rw [bucket_local (hash key) _ _ hfast hslow]
    have : updateB keyOf key np (bucket t (hash key))
        = np :: (AL.get t.slowHT (hash key)).getD [] := by
      unfold updateB; rw [hl, hb]; simp [replaceFirst, hk]
    rw [this]; simp [bucketOf]
  · simp [hl]
  · simp [hl]
  · rw [ht']; simp [hl, itemsCount]

theorem update_inSlow {t : Table} (hI : SInv t) {key : Key} (np : Ptr) {p : Ptr} {vs : List Ptr}
    {i : Nat} (hf : AL.get t.fastHT (hash key) = some (p, true)) (hk : keyOf p ≠ key)
    (hs : AL.get t.slowHT (hash key) = some vs) (hi : slowPos keyOf key vs = some i) :
    UpdateOk hash keyOf t key np (update hash keyOf t key np) := by
  have hslowne := ntFoundInSlow_ne_fast
  obtain ⟨t', ht'⟩ : ∃ t' : Table,
      t' = { t with slowHT := AL.set t.slowHT (hash key) (vs.set i np) } := ⟨_, rfl⟩
  have hu : update hash keyOf t key np = (t', true, vs[i]?) := by
    unfold update
    rw [find_inSlow hash keyOf hf hk hs hi, ht']
    simp [ntIsFound_slow, hslowne]
  obtain ⟨hp1, hp2, hp3, hp4, _⟩ := slowPos_some keyOf hi
  have hb : bucket t (hash key) = p :: vs := by simp [bucket, bucketOf, hf, hs]
  have hl : lookupB keyOf key (bucket t (hash key)) = lookupB keyOf key vs := by
    simp [hb, lookupB, hk]
  rw [hu]
  have hfast : ∀ h', AL.get t'.fastHT h'
      = if h' = hash key then AL.get t.fastHT (hash key) else AL.get t.fastHT h' := by
    rw [ht']; exact get_same _ _
  have hslow : ∀ h', AL.get t'.slowHT h'
      = if h' = hash key then some (vs.set i np) else AL.get t.slowHT h' := by
    rw [ht']; exact AL.get_set _ _ _
  refine ⟨?_, ?_, ?_, ?_, ?_⟩
  · refine hI.local (hash key) _ _ hfast hslow ?_ ?_ ?_ (by simp [hf]) ?_ ?_ ?_ ?_ ?_
    · rw [ht']; exact hI.fastNodup
    · rw [ht']; exact AL.nodup_set _ _ _ hI.slowNodup
    · rw [ht']; exact hI.notPanicked
    · intro p' c' e
      rw [hf] at e
      simp only [Option.some.injEq, Prod.mk.injEq] at e
      simp [← e.2]
    · intro ws e
      simp only [Option.some.injEq] at e
      intro hws
      have := congrArg List.length e
      rw [hws] at this
      simp only [List.length_set, List.length_nil] at this
      omega
    · rw [ht']; exact hI.fastCount
    · rw [ht']
      have := AL.total_set t.slowHT (hash key) (vs.set i np)
      simp [hs] at this
      simp only [hI.slowCount]; omega
    · rw [ht']; simp [AL.length_set, hs, hI.conflictCount]
  · intro h'
    rw [bucket_local (hash key) _ _ hfast hslow]
    have : updateB keyOf key np (bucket t (hash key)) = p :: vs.set i np := by
      unfold updateB; rw [hl, hb]; simp [hp2, replaceFirst, hk, hp4 np]
    rw [this]; simp [bucketOf, hf]
  · simp [hl, hp2]
  · simp [hl, hp1]
  · rw [ht']; simp [hl, hp2, itemsCount]

theorem update_noEntry {t : Table} (hI : SInv t) {key : Key} (np : Ptr)
    (hf : AL.get t.fastHT (hash key) = none) (hs : AL.get t.slowHT (hash key) = none) :
    UpdateOk hash keyOf t key np (update hash keyOf t key np) := by
  obtain ⟨t', ht'⟩ : ∃ t' : Table,
      t' = { t with fastHT := AL.set t.fastHT (hash key) (np, false),
                    fastHTCount := t.fastHTCount + 1 } := ⟨_, rfl⟩
  have hu : update hash keyOf t key np = (t', false, none) := by
    unfold update
    rw [find_noEntry hash keyOf hf, ht']
    simp [ntIsFound_notFound, ntNewSlowValue_eq, ntInsertSlow_eq]
  have hb : bucket t (hash key) = [] := by simp [bucket, bucketOf, hf]
  have hl : lookupB keyOf key (bucket t (hash key)) = none := by simp [hb, lookupB]
  rw [hu]
  have hfast : ∀ h', AL.get t'.fastHT h'
      = if h' = hash key then some (np, false) else AL.get t.fastHT h' := by
    rw [ht']; exact AL.get_set _ _ _
  have hslow : ∀ h', AL.get t'.slowHT h'
      = if h' = hash key then AL.get t.slowHT (hash key) else AL.get t.slowHT h' := by
    rw [ht']; exact get_same _ _
  refine ⟨?_, ?_, ?_, ?_, ?_⟩
  · refine hI.local (hash key) _ _ hfast hslow ?_ ?_ ?_ (by simp) ?_ (hI.slowNonempty _) ?_ ?_ ?_
    · rw [ht']; exact AL.nodup_set _ _ _ hI.fastNodup
    · rw [ht']; exact hI.slowNodup
    · rw [ht']; exact hI.notPanicked
    · intro p' c' e
      simp only [Option.some.injEq, Prod.mk.injEq] at e
      simp [← e.2, hs]
    · rw [ht']; simp [AL.length_set, hf, hI.fastCount]
    · rw [ht']; exact hI.slowCount
    · rw [ht']; exact hI.conflictCount
  · intro h'
    rw [bucket_local (hash key) _ _ hfast hslow]
    have : updateB keyOf key np (bucket t (hash key)) = [np] := by
      unfold updateB; rw [hl, hb]; simp
    rw [this]; simp [bucketOf, hs]
  · simp [hl]
  · simp [hl]
  · rw [ht']; simp [hl, itemsCount]; omega

theorem update_missNoConflict {t : Table} (hI : SInv t) {key : Key} (np : Ptr) {p : Ptr}
    (hf : AL.get t.fastHT (hash key) = some (p, false)) (hk : keyOf p ≠ key)
    (hs : AL.get t.slowHT (hash key) = none) :
    UpdateOk hash keyOf t key np (update hash keyOf t key np) := by
  obtain ⟨t', ht'⟩ : ∃ t' : Table,
      t' = { t with slowHT := AL.set t.slowHT (hash key) [np],
                    fastHT := AL.set t.fastHT (hash key) (p, true),
                    conflicts := t.conflicts + 1,
                    slowHTCount := t.slowHTCount + 1 } := ⟨_, rfl⟩
  have hu : update hash keyOf t key np = (t', false, none) := by
    unfold update
    rw [find_missNoConflict hash keyOf hf hk, ht']
    simp [ntIsFound_notFound, ntNewSlowValue_eq, ntInsertSlow_eq, hf, hs]
  have hb : bucket t (hash key) = [p] := by simp [bucket, bucketOf, hf, hs]
  have hl : lookupB keyOf key (bucket t (hash key)) = none := by simp [hb, lookupB, hk]
  rw [hu]
  have hfast : ∀ h', AL.get t'.fastHT h'
      = if h' = hash key then some (p, true) else AL.get t.fastHT h' := by
    rw [ht']; exact AL.get_set _ _ _
  have hslow : ∀ h', AL.get t'.slowHT h'
      = if h' = hash key then some [np] else AL.get t.slowHT h' := by
    rw [ht']; exact AL.get_set _ _ _
  refine ⟨?_, ?_, ?_, ?_, ?_⟩
  · refine hI.local (hash key) _ _ hfast hslow ?_ ?_ ?_ (by simp) ?_ ?_ ?_ ?_ ?_
    · rw [ht']; exact AL.nodup_set _ _ _ hI.fastNodup
    · rw [ht']; exact AL.nodup_set _ _ _ hI.slowNodup
    · rw [ht']; exact hI.notPanicked
    · intro p' c' e
      simp only [Option.some.injEq, Prod.mk.injEq] at e
      simp [← e.2]
    · intro ws e
      simp only [Option.some.injEq] at e
      simp [← e]
    · rw [ht']; simp [AL.length_set, hf, hI.fastCount]
    · rw [ht']
      have := AL.total_set t.slowHT (hash key) [np]
      simp [hs] at this
      simp only [hI.slowCount]; omega
    · rw [ht']; simp [AL.length_set, hs, hI.conflictCount]
  · intro h'
    rw [bucket_local (hash key) _ _ hfast hslow]
    have : updateB keyOf key np (bucket t (hash key)) = [p, np] := by
      unfold updateB; rw [hl, hb]; simp
    rw [this]; simp [bucketOf]
  · simp [hl]
  · simp [hl]
  · rw [ht']; simp [hl, itemsCount]; omega

theorem update_missSlow {t : Table} (hI : SInv t) {key : Key} (np : Ptr) {p : Ptr} {vs : List Ptr}
    (hf : AL.get t.fastHT (hash key) = some (p, true)) (hk : keyOf p ≠ key)
    (hs : AL.get t.slowHT (hash key) = some vs) (hi : slowPos keyOf key vs = none) :
    UpdateOk hash keyOf t key np (update hash keyOf t key np) := by
  obtain ⟨t', ht'⟩ : ∃ t' : Table,
      t' = { t with slowHT := AL.set t.slowHT (hash key) (vs ++ [np]),
                    slowHTCount := t.slowHTCount + 1 } := ⟨_, rfl⟩
  have hu : update hash keyOf t key np = (t', false, none) := by
    unfold update
    rw [find_missSlow hash keyOf hf hk hs hi, ht']
    simp [ntIsFound_notFound, ntNewSlowValue_eq, ntInsertSlow_eq, hs]
  have hb : bucket t (hash key) = p :: vs := by simp [bucket, bucketOf, hf, hs]
  have hl : lookupB keyOf key (bucket t (hash key)) = none := by
    simp [hb, lookupB, hk, slowPos_none keyOf hi]
  rw [hu]
  have hfast : ∀ h', AL.get t'.fastHT h'
      = if h' = hash key then AL.get t.fastHT (hash key) else AL.get t.fastHT h' := by
    rw [ht']; exact get_same _ _
  have hslow : ∀ h', AL.get t'.slowHT h'
      = if h' = hash key then some (vs ++ [np]) else AL.get t.slowHT h' := by
    rw [ht']; exact AL.get_set _ _ _
  refine ⟨?_, ?_, ?_, ?_, ?_⟩
  · refine hI.local (hash key) _ _ hfast hslow ?_ ?_ ?_ (by simp [hf]) ?_ ?_ ?_ ?_ ?_
    · rw [ht']; exact hI.fastNodup
    · rw [ht']; exact AL.nodup_set _ _ _ hI.slowNodup
    · rw [ht']; exact hI.notPanicked
    · intro p' c' e
      rw [hf] at e
      simp only [Option.some.injEq, Prod.mk.injEq] at e
      simp [← e.2]
    · intro ws e
      simp only [Option.some.injEq] at e
      simp [← e]
    · rw [ht']; exact hI.fastCount
    · rw [ht']
      have := AL.total_set t.slowHT (hash key) (vs ++ [np])
      simp [hs] at this
      simp only [hI.slowCount]; omega
    · rw [ht']; simp [AL.length_set, hs, hI.conflictCount]
  · intro h'
    rw [bucket_local (hash key) _ _ hfast hslow]
    have : updateB keyOf key np (bucket t (hash key)) = p :: (vs ++ [np]) := by
      unfold updateB; rw [hl, hb]; simp
    rw [this]; simp [bucketOf, hf]
  · simp [hl]
  · simp [hl]
  · rw [ht']; simp [hl, itemsCount]; omega

/-- **Update**, all cases -/
theorem update_ok {t : Table} (hI : SInv t) (key : Key) (np : Ptr) :
    UpdateOk hash keyOf t key np (update hash keyOf t key np) := by
  rcases findCase hash keyOf hI key with ⟨hf, hs⟩ | ⟨p, c, hf, hk⟩ | ⟨p, vs, i, hf, hk, hs, hi⟩ |
      ⟨p, vs, hf, hk, hs, hi⟩ | ⟨p, hf, hk, hs⟩
  · exact update_noEntry hash keyOf hI np hf hs
  · exact update_inFast hash keyOf hI np hf hk
  · exact update_inSlow hash keyOf hI np hf hk hs hi
  · exact update_missSlow hash keyOf hI np hf hk hs hi
  · exact update_missNoConflict hash keyOf hI np hf hk hs

/-! ### Remove -/

/-- what a Remove must achieve, in terms of buckets -/
def RemoveOk (t : Table) (key : Key) (r : Table × Bool × Option Ptr) : Prop :=
  SInv r.1 ∧
  (∀ h', bucket r.1 h' =
      if h' = hash key then eraseFirst keyOf key (bucket t (hash key)) else bucket t h') ∧
  r.2.1 = (lookupB keyOf key (bucket t (hash key))).isSome ∧
  r.2.2 = lookupB keyOf key (bucket t (hash key)) ∧
  itemsCount r.1 + (if (lookupB keyOf key (bucket t (hash key))).isSome then 1 else 0) = itemsCount t

theorem remove_notFound {t : Table} (hI : SInv t) {key : Key}
    (hfind : (find hash keyOf t key).status = Gen.ntNotFound)
    (hl : lookupB keyOf key (bucket t (hash key)) = none) :
    RemoveOk hash keyOf t key (remove hash keyOf t key) := by
  have hu : remove hash keyOf t key = (t, false, none) := by
    unfold remove
    simp [hfind, ntIsFound_notFound]
  rw [hu]
  refine ⟨hI, ?_, by simp [hl], by simp [hl], by simp [hl]⟩
  intro h'
  by_cases e : h' = hash key
  · simp [e, eraseFirst_of_none keyOf hl]
  · simp [e]

theorem remove_inFast_noConflict {t : Table} (hI : SInv t) {key : Key} {p : Ptr}
    (hf : AL.get t.fastHT (hash key) = some (p, false)) (hk : keyOf p = key) :
    RemoveOk hash keyOf t key (remove hash keyOf t key) := by
  have hs : AL.get t.slowHT (hash key) = none := by
    have := hI.conflictIff _ p false hf
    cases hs : AL.get t.slowHT (hash key) with
    | none => rfl
    | some vs => simp [hs] at this
  obtain ⟨t', ht'⟩ : ∃ t' : Table,
      t' = { t with fastHT := AL.del t.fastHT (hash key), fastHTCount := t.fastHTCount - 1 } :=
    ⟨_, rfl⟩
  have hu : remove hash keyOf t key = (t', true, some p) := by
    unfold remove
    rw [find_inFast hash keyOf hf hk, ht']
    simp [ntIsFound_fast]
  have hb : bucket t (hash key) = [p] := by simp [bucket, bucketOf, hf, hs]
  have hl : lookupB keyOf key (bucket t (hash key)) = some p := by simp [hb, lookupB, hk]
  rw [hu]
  have hfast : ∀ h', AL.get t'.fastHT h'
      = if h' = hash key then none else AL.get t.fastHT h' := by
    rw [ht']; exact AL.get_del _ _ hI.fastNodup
  have hslow : ∀ h', AL.get t'.slowHT h'
      = if h' = hash key then AL.get t.slowHT (hash key) else AL.get t.slowHT h' := by
    rw [ht']; exact get_same _ _
  refine ⟨?_, ?_, ?_, ?_, ?_⟩
  · refine hI.local (hash key) _ _ hfast hslow ?_ ?_ ?_ (fun _ => hs) (by simp) (hI.slowNonempty _)
      ?_ ?_ ?_
    · rw [ht']; exact AL.nodup_del _ _ hI.fastNodup
    · rw [ht']; exact hI.slowNodup
    · rw [ht']; exact hI.notPanicked
    · rw [ht']
      have := AL.length_del t.fastHT (hash key)
      simp [hf] at this
      simp only [hI.fastCount]; omega
    · rw [ht']; exact hI.slowCount
    · rw [ht']; exact hI.conflictCount
  · intro h'
    rw [bucket_local (hash key) _ _ hfast hslow]
    simp [hb, eraseFirst, hk, bucketOf]
  · simp [hl]
  · simp [hl]
  · rw [ht']
    have := AL.length_del t.fastHT (hash key)
    simp [hf] at this
    simp only [hl, itemsCount, hI.fastCount, Option.isSome_some, if_true]; omega

theorem remove_inFast_conflict {t : Table} (hI : SInv t) {key : Key} {p : Ptr}
    (hf : AL.get t.fastHT (hash key) = some (p, true)) (hk : keyOf p = key) :
    RemoveOk hash keyOf t key (remove hash keyOf t key) := by
  obtain ⟨vs, hs⟩ : ∃ vs, AL.get t.slowHT (hash key) = some vs := by
    have := (hI.conflictIff _ p true hf).1 rfl
    cases hs : AL.get t.slowHT (hash key) with
    | none => simp [hs] at this
    | some vs => exact ⟨vs, rfl⟩
  have hne := hI.slowNonempty _ vs hs
  have hb : bucket t (hash key) = p :: vs := by simp [bucket, bucketOf, hf, hs]
  have hl : lookupB keyOf key (bucket t (hash key)) = some p := by simp [hb, lookupB, hk]
  have htot := AL.total_del t.slowHT (hash key)
  have htot' := fun v => AL.total_set t.slowHT (hash key) v
  have hlen := AL.length_del t.slowHT (hash key)
  simp only [hs, Option.map_some, Option.getD_some, Option.isSome_some, if_true] at htot htot' hlen
  cases vs with
  | nil => exact absurd rfl hne
  | cons v rest =>
    cases rest with
    | nil =>
      obtain ⟨t', ht'⟩ : ∃ t' : Table,
          t' = { t with slowHTCount := t.slowHTCount - 1, slowHT := AL.del t.slowHT (hash key),
                        conflicts := t.conflicts - 1,
                        fastHT := AL.set t.fastHT (hash key) (v, false) } := ⟨_, rfl⟩
      have hu : remove hash keyOf t key = (t', true, some p) := by
        unfold remove
        rw [find_inFast hash keyOf hf hk, ht']
        simp [ntIsFound_fast, hs]
      rw [hu]
      have hfast : ∀ h', AL.get t'.fastHT h'
          = if h' = hash key then some (v, false) else AL.get t.fastHT h' := by
        rw [ht']; exact AL.get_set _ _ _
      have hslow : ∀ h', AL.get t'.slowHT h'
          = if h' = hash key then none else AL.get t.slowHT h' := by
        rw [ht']; exact AL.get_del _ _ hI.slowNodup
      refine ⟨?_, ?_, ?_, ?_, ?_⟩
      · refine hI.local (hash key) _ _ hfast hslow ?_ ?_ ?_ (by simp) ?_ (by simp) ?_ ?_ ?_
        · rw [ht']; exact AL.nodup_set _ _ _ hI.fastNodup
        · rw [ht']; exact AL.nodup_del _ _ hI.slowNodup
        · rw [ht']; exact hI.notPanicked
        · intro p' c' e
          simp only [Option.some.injEq, Prod.mk.injEq] at e
          simp [← e.2]
        · rw [ht']; simp [AL.length_set, hf, hI.fastCount]
        · rw [ht']; simp only [hI.slowCount]; simp at htot; omega
        · rw [ht']; simp only [hI.conflictCount]; omega
      · intro h'
        rw [bucket_local (hash key) _ _ hfast hslow]
        simp [hb, eraseFirst, hk, bucketOf]
      · simp [hl]
      · simp [hl]
      · rw [ht']
        simp only [hl, itemsCount, hI.slowCount, Option.isSome_some, if_true]
        simp at htot; omega
    | cons w ws =>
      obtain ⟨t', ht'⟩ : ∃ t' : Table,
          t' = { t with slowHTCount := t.slowHTCount - 1,
                        slowHT := AL.set t.slowHT (hash key) (w :: ws),
                        fastHT := AL.set t.fastHT (hash key) (v, true) } := ⟨_, rfl⟩
      have hu : remove hash keyOf t key = (t', true, some p) := by
        unfold remove
        rw [find_inFast hash keyOf hf hk, ht']
        simp [ntIsFound_fast, hs]
      rw [hu]
      have hfast : ∀ h', AL.get t'.fastHT h'
          = if h' = hash key then some (v, true) else AL.get t.fastHT h' := by
        rw [ht']; exact AL.get_set _ _ _
      have hslow : ∀ h', AL.get t'.slowHT h'
          = if h' = hash key then some (w :: ws) else AL.get t.slowHT h' := by
        rw [ht']; exact AL.get_set _ _ _
      have htot2 := htot' (w :: ws)
      refine ⟨?_, ?_, ?_, ?_, ?_⟩
      · refine hI.local (hash key) _ _ hfast hslow ?_ ?_ ?_ (by simp) ?_ ?_ ?_ ?_ ?_
        · rw [ht']; exact AL.nodup_set _ _ _ hI.fastNodup
        · rw [ht']; exact AL.nodup_set _ _ _ hI.slowNodup
        · rw [ht']; exact hI.notPanicked
        · intro p' c' e
          simp only [Option.some.injEq, Prod.mk.injEq] at e
          simp [← e.2]
        · intro xs e
          simp only [Option.some.injEq] at e
          simp [← e]
        · rw [ht']; simp [AL.length_set, hf, hI.fastCount]
        · rw [ht']; simp only [hI.slowCount]; simp at htot2; omega
        · rw [ht']; simp [AL.length_set, hs, hI.conflictCount]
      · intro h'
        rw [bucket_local (hash key) _ _ hfast hslow]
        simp [hb, eraseFirst, hk, bucketOf]
      · simp [hl]
      · simp [hl]
      · rw [ht']
        simp only [hl, itemsCount, hI.slowCount, Option.isSome_some, if_true]
        simp at htot2; omega

/-- the two ways Remove builds the shortened slow list give the same list -/
theorem newSlowValue_eq (vs : List Ptr) (i : Nat) :
    (if i + 1 ≠ vs.length then vs.take i ++ vs.drop (i + 1) else vs.take i)
      = vs.take i ++ vs.drop (i + 1) := by
  by_cases h : i + 1 = vs.length
  · simp [h]
  · simp [h]

theorem remove_inSlow {t : Table} (hI : SInv t) {key : Key} {p : Ptr} {vs : List Ptr}
    {i : Nat} (hf : AL.get t.fastHT (hash key) = some (p, true)) (hk : keyOf p ≠ key)
    (hs : AL.get t.slowHT (hash key) = some vs) (hi : slowPos keyOf key vs = some i) :
    RemoveOk hash keyOf t key (remove hash keyOf t key) := by
  have hslowne := ntFoundInSlow_ne_fast
  obtain ⟨hp1, hp2, hp3, _, hp5⟩ := slowPos_some keyOf hi
  have hb : bucket t (hash key) = p :: vs := by simp [bucket, bucketOf, hf, hs]
  have hl : lookupB keyOf key (bucket t (hash key)) = lookupB keyOf key vs := by
    simp [hb, lookupB, hk]
  have hE : eraseFirst keyOf key (bucket t (hash key)) = p :: eraseFirst keyOf key vs := by
    simp [hb, eraseFirst, hk]
  have hlenE := length_eraseFirst keyOf hp2
  have hnew := (newSlowValue_eq vs i).trans hp5
  have htot := AL.total_del t.slowHT (hash key)
  have htot' := AL.total_set t.slowHT (hash key) (eraseFirst keyOf key vs)
  have hlen := AL.length_del t.slowHT (hash key)
  simp only [hs, Option.map_some, Option.getD_some, Option.isSome_some, if_true] at htot htot' hlen
  by_cases hEmpty : (eraseFirst keyOf key vs).length = 0
  · obtain ⟨t', ht'⟩ : ∃ t' : Table,
        t' = { t with slowHTCount := t.slowHTCount - 1, slowHT := AL.del t.slowHT (hash key),
                      fastHT := AL.set t.fastHT (hash key) (p, false),
                      conflicts := t.conflicts - 1 } := ⟨_, rfl⟩
    have hu : remove hash keyOf t key = (t', true, vs[i]?) := by
      unfold remove
      rw [find_inSlow hash keyOf hf hk hs hi, ht']
      simp only [ntIsFound_slow, hslowne, if_true, if_false, hnew, hEmpty, hf]
      simp
    rw [hu]
    have hEnil : eraseFirst keyOf key vs = [] := List.eq_nil_of_length_eq_zero hEmpty
    have hfast : ∀ h', AL.get t'.fastHT h'
        = if h' = hash key then some (p, false) else AL.get t.fastHT h' := by
      rw [ht']; exact AL.get_set _ _ _
    have hslow : ∀ h', AL.get t'.slowHT h'
        = if h' = hash key then none else AL.get t.slowHT h' := by
      rw [ht']; exact AL.get_del _ _ hI.slowNodup
    refine ⟨?_, ?_, ?_, ?_, ?_⟩
    · refine hI.local (hash key) _ _ hfast hslow ?_ ?_ ?_ (by simp) ?_ (by simp) ?_ ?_ ?_
      · rw [ht']; exact AL.nodup_set _ _ _ hI.fastNodup
      · rw [ht']; exact AL.nodup_del _ _ hI.slowNodup
      · rw [ht']; exact hI.notPanicked
      · intro p' c' e
        simp only [Option.some.injEq, Prod.mk.injEq] at e
        simp [← e.2]
      · rw [ht']; simp [AL.length_set, hf, hI.fastCount]
      · rw [ht']; simp only [hI.slowCount]; omega
      · rw [ht']; simp only [hI.conflictCount]; omega
    · intro h'
      rw [bucket_local (hash key) _ _ hfast hslow, hE, hEnil]
      simp [bucketOf]
    · simp [hl, hp2]
    · simp [hl, hp1]
    · rw [ht']
      simp only [hl, hp2, itemsCount, hI.slowCount, if_true]
      omega
  · obtain ⟨t', ht'⟩ : ∃ t' : Table,
        t' = { t with slowHTCount := t.slowHTCount - 1,
                      slowHT := AL.set t.slowHT (hash key) (eraseFirst keyOf key vs) } := ⟨_, rfl⟩
    have hu : remove hash keyOf t key = (t', true, vs[i]?) := by
      unfold remove
      rw [find_inSlow hash keyOf hf hk hs hi, ht']
      simp only [ntIsFound_slow, hslowne, if_true, if_false, hnew, hEmpty]
    rw [hu]
    have hfast : ∀ h', AL.get t'.fastHT h'
        = if h' = hash key then AL.get t.fastHT (hash key) else AL.get t.fastHT h' := by
      rw [ht']; exact get_same _ _
    have hslow : ∀ h', AL.get t'.slowHT h'
        = if h' = hash key then some (eraseFirst keyOf key vs) else AL.get t.slowHT h' := by
      rw [ht']; exact AL.get_set _ _ _
    refine ⟨?_, ?_, ?_, ?_, ?_⟩
    · refine hI.local (hash key) _ _ hfast hslow ?_ ?_ ?_ (by simp [hf]) ?_ ?_ ?_ ?_ ?_
      · rw [ht']; exact hI.fastNodup
      · rw [ht']; exact AL.nodup_set _ _ _ hI.slowNodup
      · rw [ht']; exact hI.notPanicked
      · intro p' c' e
        rw [hf] at e
        simp only [Option.some.injEq, Prod.mk.injEq] at e
        simp [← e.2]
      · intro xs e
        simp only [Option.some.injEq] at e
        intro hx
        rw [← e] at hx
        simp [hx] at hEmpty
      · rw [ht']; exact hI.fastCount
      · rw [ht']; simp only [hI.slowCount]; omega
      · rw [ht']; simp [AL.length_set, hs, hI.conflictCount]
    · intro h'
      rw [bucket_local (hash key) _ _ hfast hslow, hE]
      simp [bucketOf, hf]
    · simp [hl, hp2]
    · simp [hl, hp1]
    · rw [ht']
      simp only [hl, hp2, itemsCount, hI.slowCount, if_true]
      omega

/-- **Remove**, all cases -/
theorem remove_ok {t : Table} (hI : SInv t) (key : Key) :
    RemoveOk hash keyOf t key (remove hash keyOf t key) := by
  rcases findCase hash keyOf hI key with ⟨hf, hs⟩ | ⟨p, c, hf, hk⟩ | ⟨p, vs, i, hf, hk, hs, hi⟩ |
      ⟨p, vs, hf, hk, hs, hi⟩ | ⟨p, hf, hk, hs⟩
  · apply remove_notFound hash keyOf hI
    · rw [find_noEntry hash keyOf hf]
    · simp [bucket, bucketOf, hf, lookupB]
  · cases c with
    | false => exact remove_inFast_noConflict hash keyOf hI hf hk
    | true => exact remove_inFast_conflict hash keyOf hI hf hk
  · exact remove_inSlow hash keyOf hI hf hk hs hi
  · apply remove_notFound hash keyOf hI
    · rw [find_missSlow hash keyOf hf hk hs hi]
    · simp [bucket, bucketOf, hf, hs, lookupB, hk, slowPos_none keyOf hi]
  · apply remove_notFound hash keyOf hI
    · rw [find_missNoConflict hash keyOf hf hk]
    · simp [bucket, bucketOf, hf, hs, lookupB, hk]

end
end NitroVerif.Table
