import NitroVerif.Spec.OrdSet
/-!
  The sorted multiset union: `mergeAll` is ascending and a permutation of the concatenation of its
  inputs, and these two properties determine a list.
-/
namespace NitroVerif.OrdSet

theorem merge_perm (a b : List Int) : (merge a b).Perm (a ++ b) := by
  fun_induction merge a b with
  | case1 ys => simp
  | case2 xs _ => simp
  | case3 x xs y ys hle ih =>
    exact List.Perm.cons x ih
  | case4 x xs y ys hle ih =>
    have : (y :: merge (x :: xs) ys).Perm (y :: (x :: xs ++ ys)) := List.Perm.cons y ih
    exact this.trans (List.perm_middle (l₁ := x :: xs) (a := y) (l₂ := ys)).symm

theorem merge_mem {a b : List Int} {z : Int} (h : z ∈ merge a b) : z ∈ a ∨ z ∈ b := by
  have := (merge_perm a b).mem_iff.mp h
  exact List.mem_append.mp this

theorem merge_sorted (a b : List Int) (ha : AscLe a) (hb : AscLe b) : AscLe (merge a b) := by
  fun_induction merge a b with
  | case1 ys => exact hb
  | case2 xs _ => exact ha
  | case3 x xs y ys hle ih =>
    unfold AscLe at *
    have ha' := List.pairwise_cons.mp ha
    have hb' := List.pairwise_cons.mp hb
    rw [List.pairwise_cons]
    refine ⟨?_, ih ha'.2 hb⟩
    intro z hz
    rcases merge_mem hz with h1 | h1
    · exact ha'.1 z h1
    · rcases List.mem_cons.mp h1 with h2 | h2
      · omega
      · have := hb'.1 z h2; omega
  | case4 x xs y ys hle ih =>
    unfold AscLe at *
    have ha' := List.pairwise_cons.mp ha
    have hb' := List.pairwise_cons.mp hb
    rw [List.pairwise_cons]
    refine ⟨?_, ih ha hb'.2⟩
    intro z hz
    rcases merge_mem hz with h1 | h1
    · rcases List.mem_cons.mp h1 with h2 | h2
      · omega
      · have := ha'.1 z h2; omega
    · exact hb'.1 z h1

theorem mergeAll_perm (ls : List (List Int)) : (mergeAll ls).Perm ls.flatten := by
  induction ls with
  | nil => simp [mergeAll]
  | cons l r ih =>
    simp only [mergeAll, List.flatten_cons]
    exact (merge_perm l (mergeAll r)).trans (List.Perm.append (List.Perm.refl l) ih)

theorem mergeAll_sorted (ls : List (List Int)) (h : ∀ l ∈ ls, AscLe l) : AscLe (mergeAll ls) := by
  induction ls with
  | nil => simp [mergeAll, AscLe]
  | cons l r ih =>
    simp only [mergeAll]
    exact merge_sorted _ _ (h l (by simp)) (ih (fun l' hl' => h l' (List.mem_cons_of_mem _ hl')))

/-- an ascending list is determined by its multiset of elements -/
theorem sorted_perm_eq : ∀ (a b : List Int), AscLe a → AscLe b → a.Perm b → a = b := by
  intro a
  induction a with
  | nil => intro b _ _ hp; exact (List.Perm.nil_eq hp)
  | cons x r ih =>
    intro b ha hb hp
    cases b with
    | nil => exact absurd hp.symm (by intro h; have := h.length_eq; simp at this)
    | cons y t =>
      unfold AscLe at ha hb
      have ha' := List.pairwise_cons.mp ha
      have hb' := List.pairwise_cons.mp hb
      have hxy : x = y := by
        have h1 : x ∈ y :: t := hp.mem_iff.mp (by simp)
        have h2 : y ∈ x :: r := hp.mem_iff.mpr (by simp)
        rcases List.mem_cons.mp h1 with e | e
        · exact e
        · rcases List.mem_cons.mp h2 with e' | e'
          · exact e'.symm
          · have := hb'.1 x e; have := ha'.1 y e'; omega
      subst hxy
      rw [ih t ha'.2 hb'.2 hp.cons_inv]

theorem asc_ascLe {l : List Int} (h : Asc l) : AscLe l := by
  unfold Asc at h; unfold AscLe
  exact List.Pairwise.imp (fun hab => by omega) h

end NitroVerif.OrdSet
