/-
  The store mutations seen through the abstraction: linking a version is the sorted insertion
  of the specification, marking / unlinking an alive version is the removal of its key, and the
  validity of node handles follows.
-/
import NitroVerif.Lemmas.MvccAbs

namespace NitroVerif.Mvcc
open NitroVerif SetSpec

theorem ins_split (e : Entry) : ∀ (L R : List Entry), (∀ x ∈ L, x.key < e.key) → (∀ x ∈ R, e.key < x.key) →
    ins e (L ++ R) = L ++ e :: R
  | [], [], _, _ => rfl
  | [], y :: ys, _, hR => by
    have := hR y (by simp)
    have hn : ¬ y.key < e.key := by omega
    simp [ins, hn]
  | x :: L, R, hL, hR => by
    have := hL x (by simp)
    have ih := ins_split e L R (fun y hy => hL y (List.mem_cons_of_mem _ hy)) hR
    simp [ins, this, ih]

theorem absAlive_append (l r : List Ver) : absAlive (l ++ r) = absAlive l ++ absAlive r := by
  simp [absAlive, List.filter_append]

theorem mem_absAlive {s : List Ver} {e : Entry} (h : e ∈ absAlive s) :
    ∃ v ∈ s, v.dead = 0 ∧ e = entryOf v := by
  unfold absAlive at h
  obtain ⟨v, hv, rfl⟩ := List.mem_map.mp h
  have := List.mem_filter.mp hv
  exact ⟨v, this.1, by simpa [isAlive] using this.2, rfl⟩

theorem absAlive_insertAt {cur : Nat} {s : List Ver} (hs : Sorted s) (k v : Nat)
    (hno : ∀ y ∈ s, y.key = k → y.dead ≠ 0) :
    absAlive (insertAt s ⟨k, v, cur, 0⟩) = ins ⟨k, v, cur⟩ (absAlive s) := by
  have happ := findPath_append insCmp ⟨k, v, cur, 0⟩ s
  have h1 := findPath_ins_fst hs ⟨k, v, cur, 0⟩
  have h2 := findPath_ins_snd hs ⟨k, v, cur, 0⟩
  unfold insertAt
  conv => rhs; rw [← happ]
  rw [absAlive_append, absAlive_append]
  have hp : absAlive (⟨k, v, cur, 0⟩ :: (findPath insCmp ⟨k, v, cur, 0⟩ s).2) =
      ⟨k, v, cur⟩ :: absAlive (findPath insCmp ⟨k, v, cur, 0⟩ s).2 := by
    simp [absAlive, isAlive, entryOf]
  rw [hp]
  symm
  apply ins_split
  · intro e he
    obtain ⟨y, hy, hd, rfl⟩ := mem_absAlive he
    rw [h1] at hy
    have hy' := List.mem_filter.mp hy
    have hlt := (insLt_iff _ _).mp hy'.2
    have := hno y hy'.1
    unfold vlt at hlt; simp [entryOf] at hlt ⊢; omega
  · intro e he
    obtain ⟨y, hy, hd, rfl⟩ := mem_absAlive he
    rw [h2] at hy
    have hy' := List.mem_filter.mp hy
    have hnlt : ¬ vlt y ⟨k, v, cur, 0⟩ := by
      intro hv; have := (insLt_iff _ _).mpr hv; simp [this] at hy'
    have := hno y hy'.1
    unfold vlt at hnlt; simp [entryOf] at hnlt ⊢; omega

theorem removeKey_abs (s : List Ver) (k : Nat) :
    removeKey k (absAlive s) = (s.filter (fun v => isAlive v && (v.key != k))).map entryOf := by
  unfold removeKey absAlive
  rw [List.filter_map, List.filter_filter]
  congr 1
  apply List.filter_congr
  intro v _; simp [Function.comp, entryOf, Bool.and_comm]

theorem absAlive_removeId {cur : Nat} {s : List Ver} (hs : Sorted s) (hc : Chains cur s) {x : Ver}
    (hx : x ∈ s) (hd : x.dead = 0) : absAlive (removeId s x) = removeKey x.key (absAlive s) := by
  rw [removeKey_abs]
  unfold absAlive removeId
  rw [List.filter_filter]
  congr 1
  apply List.filter_congr
  intro v hv
  by_cases ha : isAlive v = true
  · simp only [ha, Bool.true_and]
    have hvd : v.dead = 0 := by simpa [isAlive] using ha
    by_cases hk : v.key = x.key
    · have := alive_unique hs hc hv hx hk hvd hd; subst this
      simp [(sameId_iff v v).mpr ⟨rfl, rfl⟩]
    · have : sameId v x = false := by
        cases h : sameId v x
        · rfl
        · exact absurd ((sameId_iff v x).mp h).1 hk
      simp [this, hk]
  · simp [ha]

theorem absAlive_markDead {cur : Nat} {s : List Ver} (hs : Sorted s) (hc : Chains cur s) {x : Ver}
    (hx : x ∈ s) (hd : x.dead = 0) (sn : Nat) (hsn : sn ≠ 0) :
    absAlive (markDead s x sn) = removeKey x.key (absAlive s) := by
  rw [← absAlive_removeId hs hc hx hd]
  obtain ⟨l, r, he, hl, hr⟩ := id_split hs hx
  rw [he, markDead_split sn hl hr, removeId_split hl hr, absAlive_append, absAlive_append]
  congr 1
  simp [absAlive, isAlive, hsn]

/-! ### handles -/

theorem hasAlive_iff (s : List Ver) (k b : Nat) :
    hasAlive s k b = true ↔ ∃ v ∈ s, v.key = k ∧ v.born = b ∧ v.dead = 0 := by
  unfold hasAlive
  simp only [List.any_eq_true, List.mem_filter, Bool.and_eq_true, beq_iff_eq, isAlive]
  constructor
  · rintro ⟨v, ⟨hv, hd⟩, hk, hb⟩; exact ⟨v, hv, hk, hb, hd⟩
  · rintro ⟨v, hv, hk, hb, hd⟩; exact ⟨v, ⟨hv, hd⟩, hk, hb⟩

theorem handles_insertAt {σ : State} (h : Inv σ) (k v : Nat)
    (hno : ∀ y ∈ σ.store, y.key = k → y.dead ≠ 0) :
    σ.handles.map (absHandle (insertAt σ.store (probe σ k v))) = σ.handles.map (absHandle σ.store) := by
  apply List.map_congr_left
  intro p hp
  unfold absHandle
  congr 2
  cases hg : p.2.gone
  · simp only [Bool.not_false, Bool.true_and]
    rw [Bool.eq_iff_iff, hasAlive_iff, hasAlive_iff]
    constructor
    · rintro ⟨y, hy, hk, hb, hd⟩
      rcases (mem_insertAt h.sorted _ y).mp hy with rfl | hy'
      · -- the new version cannot be what an old handle names
        exfalso
        simp [probe] at hk hb
        rcases h.handles p hp hg with h1 | ⟨z, hz, hzk, hzb⟩
        · omega
        · have := h.chains.1 z hz
          exact hno z hz (by omega) (by omega)
      · exact ⟨y, hy', hk, hb, hd⟩
    · rintro ⟨y, hy, hk, hb, hd⟩
      exact ⟨y, (mem_insertAt h.sorted _ y).mpr (Or.inr hy), hk, hb, hd⟩
  · simp

theorem handles_removeId {σ : State} (_h : Inv σ) {x : Ver} :
    (markGone x σ.handles).map (absHandle (removeId σ.store x)) =
      invalidate x.key x.born (σ.handles.map (absHandle σ.store)) := by
  unfold markGone invalidate amap
  rw [List.map_map, List.map_map]
  apply List.map_congr_left
  intro p _
  simp only [Function.comp, absHandle]
  by_cases hid : p.2.key = x.key ∧ p.2.born = x.born
  · simp [hid]
  · simp only [hid, if_false]
    congr 2
    cases hg : p.2.gone
    · simp only [Bool.not_false, Bool.true_and]
      rw [Bool.eq_iff_iff, hasAlive_iff, hasAlive_iff]
      constructor
      · rintro ⟨y, hy, hk, hb, hd⟩; exact ⟨y, (mem_removeId.mp hy).1, hk, hb, hd⟩
      · rintro ⟨y, hy, hk, hb, hd⟩
        refine ⟨y, mem_removeId.mpr ⟨hy, ?_⟩, hk, hb, hd⟩
        cases hs : sameId y x
        · rfl
        · have := (sameId_iff y x).mp hs
          exact absurd ⟨by omega, by omega⟩ hid
    · simp

theorem handles_markDead {σ : State} (h : Inv σ) {x : Ver} (hx : x ∈ σ.store) (sn : Nat) (hsn : sn ≠ 0) :
    σ.handles.map (absHandle (markDead σ.store x sn)) =
      invalidate x.key x.born (σ.handles.map (absHandle σ.store)) := by
  unfold invalidate amap
  rw [List.map_map]
  apply List.map_congr_left
  intro p _
  simp only [Function.comp, absHandle]
  have hidu : ∀ v ∈ σ.store, sameId v x = true → v = x := by
    intro v hv hs; have := (sameId_iff v x).mp hs
    exact sorted_id_unique h.sorted hv hx this.1 this.2
  by_cases hid : p.2.key = x.key ∧ p.2.born = x.born
  · simp only [hid, and_self, if_true]
    congr 2
    have : hasAlive (markDead σ.store x sn) x.key x.born = false := by
      cases hh : hasAlive (markDead σ.store x sn) x.key x.born
      · rfl
      · exfalso
        obtain ⟨y', hy', hk, hb, hd⟩ := (hasAlive_iff _ _ _).mp hh
        obtain ⟨y, hy, rfl⟩ := mem_markDead hy'
        by_cases hs : sameId y x = true
        · simp [hs] at hd; exact hsn hd
        · simp only [hs] at hk hb
          exact hs ((sameId_iff y x).mpr ⟨hk, hb⟩)
    simp [this]
  · simp only [hid, if_false]
    congr 2
    cases hg : p.2.gone
    · simp only [Bool.not_false, Bool.true_and]
      rw [Bool.eq_iff_iff, hasAlive_iff, hasAlive_iff]
      constructor
      · rintro ⟨y', hy', hk, hb, hd⟩
        obtain ⟨y, hy, rfl⟩ := mem_markDead hy'
        by_cases hs : sameId y x = true
        · simp [hs] at hd; exact absurd hd hsn
        · simp only [hs] at hk hb hd
          exact ⟨y, hy, hk, hb, hd⟩
      · rintro ⟨y, hy, hk, hb, hd⟩
        have hs : sameId y x = false := by
          cases hs : sameId y x
          · rfl
          · have := (sameId_iff y x).mp hs
            exact absurd ⟨by omega, by omega⟩ hid
        refine ⟨y, ?_, hk, hb, hd⟩
        unfold markDead
        exact List.mem_map.mpr ⟨y, hy, by simp [hs]⟩
    · simp

/-! ### garbage collection is invisible -/

theorem gc_abs {σ : State} (h : PreGC σ) :
    (gc σ).store.filter isAlive = σ.store.filter isAlive ∧
    (gc σ).snaps.map absSnap = σ.snaps.map absSnap := by
  have hgt : ∀ s ∈ σ.snaps, s.st ≠ .collected → σ.lastGCSn < s.sn := by
    intro s hs hst
    have := h.coll s hs
    by_cases hle : s.sn ≤ σ.lastGCSn
    · exact absurd (this.mpr hle) hst
    · omega
  have post := collectDead_post σ.snaps σ.lastGCSn σ.store h.inc hgt
  unfold gc
  simp only
  constructor
  · rw [post.store, filter_filter_of_imp]
    intro v hv hq
    obtain ⟨z, hz, h1, _, x, hx, hs⟩ := removedBy_true (by simpa using hq)
    have hd := (h.garb.ssound z hz (by rw [h1]; decide) x hx).2 v hv hs
    have := (h.lt z hz).1
    simp [isAlive]; omega
  · rw [post.snaps, List.map_map]
    apply List.map_congr_left
    intro z _
    simp only [Function.comp, markCollected]
    split <;> rfl

theorem hasAlive_congr {s s' : List Ver} (h : s'.filter isAlive = s.filter isAlive) (k b : Nat) :
    hasAlive s' k b = hasAlive s k b := by
  unfold hasAlive; rw [h]

end NitroVerif.Mvcc
