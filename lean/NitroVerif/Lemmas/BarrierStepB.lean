import NitroVerif.Lemmas.BarrierTac
/-!
  Preservation of `Inv` — part B: `Release` up to the queueing decision (REL_DEC, REL_CLOSED).
-/
namespace NitroVerif.Barrier
set_option linter.unusedSimpArgs false
set_option linter.unusedVariables false

theorem realT_le_unitsT (s : Nat) (u : Th) : realT s u ≤ unitsT s u := by
  unfold realT unitsT
  cases hp : u.pc <;> simp [barsimp]
  rename_i s' k; have := contReal_le k; split <;> omega

/-- the decrement that brings the count to the offset: the caller is the last unit of a flushed session -/
theorem leaf_relDec_last {st : St} {i : Nat} {t : Th} {s0 : Nat} {k : Cont} (h : Inv st)
    (ht : st.ths[i]? = some t) (hpc : t.pc = .relDec s0 k)
    (hv : Gen.releaseIsLast ((getS st s0).live + -1) = true) :
    Inv (setT (setS st s0 ((getS st s0).addLive (-1))) i { t with pc := .relClosed s0 k }) := by
  have key := cnt_step' st (setS st s0 ((getS st s0).addLive (-1))) i t { t with pc := .relClosed s0 k } rfl ht
  have mem := fun f => cnt_ge_mem f st i t ht
  have hs0 : s0 < st.sess.length := ref_lt h ht s0 (by simp [barsimp, hpc])
  have gS := fun s => getS_setS st s0 s ((getS st s0).addLive (-1)) hs0
  rw [releaseIsLast_iff, off_val] at hv
  have hc0 := h.count s0 hs0
  have hb0 := h.bound s0
  have hle := b2n_le (getS st s0).flushed
  have m1 := mem (unitsT s0)
  have hru := cnt_le_except (realT s0) (unitsT s0) st i t (realT_le_unitsT s0) ht
  have hk := contReal_le k
  simp [barsimp, hpc] at m1 hru
  bar_auto_s [gS]

/-- B9: the panic branch of `Release` contradicts the counting invariant -/
theorem leaf_relDec_nopanic {st : St} {i : Nat} {t : Th} {s0 : Nat} {k : Cont} (h : Inv st)
    (ht : st.ths[i]? = some t) (hpc : t.pc = .relDec s0 k)
    (hv : ¬ Gen.releaseIsLast ((getS st s0).live + -1) = true)
    (hp : Gen.releasePanic ((getS st s0).live + -1) = true) : False := by
  have mem := fun f => cnt_ge_mem f st i t ht
  have hs0 : s0 < st.sess.length := ref_lt h ht s0 (by simp [barsimp, hpc])
  rw [releaseIsLast_iff, off_val] at hv
  rw [releasePanic_iff, off_val] at hp
  have hc0 := h.count s0 hs0
  have hb0 := h.bound s0
  have hle := b2n_le (getS st s0).flushed
  have m1 := mem (unitsT s0)
  simp [barsimp, hpc] at m1
  omega

theorem leaf_relDec_more {st : St} {i : Nat} {t : Th} {s0 : Nat} {k : Cont} (h : Inv st)
    (ht : st.ths[i]? = some t) (hpc : t.pc = .relDec s0 k)
    (hv : ¬ Gen.releaseIsLast ((getS st s0).live + -1) = true)
    (hp : ¬ Gen.releasePanic ((getS st s0).live + -1) = true) :
    Inv (setT (setS st s0 ((getS st s0).addLive (-1))) i { t with pc := afterCont k }) := by
  have key := cnt_step' st (setS st s0 ((getS st s0).addLive (-1))) i t { t with pc := afterCont k } rfl ht
  have mem := fun f => cnt_ge_mem f st i t ht
  have hs0 : s0 < st.sess.length := ref_lt h ht s0 (by simp [barsimp, hpc])
  have gS := fun s => getS_setS st s0 s ((getS st s0).addLive (-1)) hs0
  rw [releaseIsLast_iff, off_val] at hv
  rw [releasePanic_iff, off_val] at hp
  have hc0 := h.count s0 hs0
  have hb0 := h.bound s0
  have hle := b2n_le (getS st s0).flushed
  have m1 := mem (unitsT s0); have m2 := mem (realT s0); have m3 := mem (refT s0)
  have hcl := h.closed s0
  have hk := contReal_le k
  simp [barsimp, hpc] at m1 m2 m3
  bar_auto_s [gS]

/-- the first closer queues the session -/
theorem leaf_relClosed_first {st : St} {i : Nat} {t : Th} {s0 : Nat} {k : Cont} (h : Inv st)
    (ht : st.ths[i]? = some t) (hpc : t.pc = .relClosed s0 k)
    (hv : Gen.closedFirst (((getS st s0).closed + 1 : Nat) : Int) = true) :
    Inv (setT (setS st s0 (getS st s0).incClosed) i { t with pc := .relInsert s0 k }) := by
  have key := cnt_step' st (setS st s0 (getS st s0).incClosed) i t { t with pc := .relInsert s0 k } rfl ht
  have mem := fun f => cnt_ge_mem f st i t ht
  have hs0 : s0 < st.sess.length := ref_lt h ht s0 (by simp [barsimp, hpc])
  have gS := fun s => getS_setS st s0 s (getS st s0).incClosed hs0
  rw [closedFirst_iff] at hv
  have m1 := mem (onPc (pcClosed s0))
  have hcl := h.closed s0
  have hpl := h.place s0
  simp [barsimp, hpc] at m1
  bar_auto_s [gS]

/-- a later closer (an accessor that entered an already terminated session) steps down -/
theorem leaf_relClosed_again {st : St} {i : Nat} {t : Th} {s0 : Nat} {k : Cont} (h : Inv st)
    (ht : st.ths[i]? = some t) (hpc : t.pc = .relClosed s0 k)
    (hv : ¬ Gen.closedFirst (((getS st s0).closed + 1 : Nat) : Int) = true) :
    Inv (setT (setS st s0 (getS st s0).incClosed) i { t with pc := afterCont k }) := by
  have key := cnt_step' st (setS st s0 (getS st s0).incClosed) i t { t with pc := afterCont k } rfl ht
  have mem := fun f => cnt_ge_mem f st i t ht
  have hs0 : s0 < st.sess.length := ref_lt h ht s0 (by simp [barsimp, hpc])
  have gS := fun s => getS_setS st s0 s (getS st s0).incClosed hs0
  rw [closedFirst_iff] at hv
  have m1 := mem (onPc (pcClosed s0)); have m3 := mem (refT s0)
  have hcl := h.closed s0
  have hpl := h.place s0
  simp [barsimp, hpc] at m1 m3
  bar_auto_s [gS]

end NitroVerif.Barrier
