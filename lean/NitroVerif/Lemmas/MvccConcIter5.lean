/-
  With snapshot iterators on the insert comparator (the code as it is), the cursor of a reader only
  moves forward in the physical order `(key, bornSn)`, and strictly past every version it delivers.
-/
import NitroVerif.Lemmas.MvccConcIter4

namespace NitroVerif.MvccConc
open NitroVerif
open NitroVerif.Mvcc (Ver Sorted Chains vlt)

theorem findPathN_snd_head (cmp : Ver → Ver → Int) (p : Ver) : ∀ (s : List Node) (y : Node),
    (findPathN cmp p s).2.head? = some y → Gen.findAdvance (cmp y.ver p) = false
  | [], y, h => by simp [findPathN] at h
  | x :: xs, y, h => by
    unfold findPathN at h
    by_cases ha : Gen.findAdvance (cmp x.ver p) = true
    · simp only [ha, if_true] at h
      exact findPathN_snd_head cmp p xs y h
    · simp only [ha] at h
      simp at h; subst h
      simpa using ha

theorem kb_total (a b : Nat × Nat) : kbLt a b ∨ a = b ∨ kbLt b a := by
  unfold kbLt
  rcases Nat.lt_trichotomy a.1 b.1 with h | h | h
  · exact Or.inl (Or.inl h)
  · rcases Nat.lt_trichotomy a.2 b.2 with h2 | h2 | h2
    · exact Or.inl (Or.inr ⟨h, h2⟩)
    · exact Or.inr (Or.inl (Prod.ext h h2))
    · exact Or.inr (Or.inr (Or.inr ⟨h.symm, h2⟩))
  · exact Or.inr (Or.inr (Or.inl h))

/-- the record of the iterator after a landing -/
theorem curOf_landOn (σ : State) (t i : Nat) (it : Iter) (land : Option Node) :
    curOf (landOn σ t i it land).1 t i = land.map (fun y => ⟨y.id, y.ver.key, y.ver.born⟩) := by
  unfold landOn curOf
  cases land with
  | none => show (findIter (t, i) (setIter (t, i) _ σ.iters)).bind _ = _; rw [findIter_set]; simp
  | some y =>
    simp only
    split
    · show (findIter (t, i) (setIter (t, i) _ σ.iters)).bind _ = _; rw [findIter_set]; simp
    · show (findIter (t, i) (setIter (t, i) _ σ.iters)).bind _ = _; rw [findIter_set]; simp

/-- a landing delivers only a version visible to the snapshot -/
theorem landOn_delivers {σ : State} {t i : Nat} {it : Iter} {land : Option Node} {kv : Nat × Nat}
    (h : (landOn σ t i it land).2 = .ret (.item (some kv))) : ∃ y, land = some y ∧ y.ver.born ≤ it.sn := by
  unfold landOn at h
  cases land with
  | none => simp at h
  | some y =>
    simp only at h
    split at h
    · simp at h
    · rename_i hs
      have : Gen.skipUnwanted y.ver.born y.ver.dead it.sn = false := by simpa using hs
      exact ⟨y, rfl, ((Mvcc.skipUnwanted_false_iff _ _ _).mp this).1⟩

/-- ITER_NEXT with the insert comparator: the cursor does not move backwards, and a delivered version
    lies strictly after the version the cursor stood on -/
theorem stepIter_cursor {σ : State} {t i : Nat} (hi : Inv σ) (hk : IterInv σ) (hfx : σ.fixedIter = true) :
    (∀ c', curOf (stepIter σ t i).1 t i = some c' → ∃ c, curOf σ t i = some c ∧ kbLe c.kb c'.kb) ∧
    (∀ kv, (stepIter σ t i).2 = .ret (.item (some kv)) →
      ∃ c c', curOf σ t i = some c ∧ curOf (stepIter σ t i).1 t i = some c' ∧ kbLt c.kb c'.kb) := by
  have hrefl : (∀ c', curOf σ t i = some c' → ∃ c, curOf σ t i = some c ∧ kbLe c.kb c'.kb) :=
    fun c' h => ⟨c', h, Or.inr rfl⟩
  unfold stepIter
  cases hf : findIter (t, i) σ.iters with
  | none => exact ⟨hrefl, by intro kv h; simp at h⟩
  | some it =>
    simp only
    have hm := findIter_some hf
    cases hc : it.cur with
    | none => exact ⟨hrefl, by intro kv h; simp at h⟩
    | some c =>
      simp only
      have hcur : curOf σ t i = some c := by unfold curOf; rw [hf]; exact hc
      split
      · exact ⟨hrefl, by intro kv h; simp at h⟩
      · cases hn : findNode σ.store c.id with
        | some x =>
          simp only
          have ⟨hx, hxid⟩ := findNode_some hn
          have hxc := hk.cache (t, i) it c hm hc x (List.mem_append_left _ hx) hxid
          rw [curOf_landOn]
          have hlt : ∀ y, succN σ.store x = some y → kbLt c.kb (y.ver.key, y.ver.born) := by
            intro y hy
            unfold succN at hy
            have := List.find?_some hy
            have hv := (Mvcc.insLt_iff _ _).mp this
            unfold vlt at hv; unfold kbLt Cur.kb
            rw [← hxc.1, ← hxc.2]; exact hv
          refine ⟨?_, ?_⟩
          · intro c' hc'
            cases hs : succN σ.store x with
            | none => rw [hs] at hc'; simp at hc'
            | some y =>
              rw [hs] at hc'; simp at hc'; subst hc'
              exact ⟨c, hcur, Or.inl (hlt y hs)⟩
          · intro kv hkv
            obtain ⟨y, hy, _⟩ := landOn_delivers hkv
            exact ⟨c, ⟨y.id, y.ver.key, y.ver.born⟩, hcur, by rw [hy]; rfl, hlt y hy⟩
        | none =>
          simp only
          split
          · exact ⟨hrefl, by intro kv h; simp at h⟩
          · rw [curOf_landOn]
            have hcmp : iterStoreCmp σ = Mvcc.insCmp := by
              unfold iterStoreCmp; simp [hfx, Gen.iteratorStoreCmp, Mvcc.cmpOf]
            have hle : ∀ y, seekN (iterStoreCmp σ) σ.store c.key c.born = some y →
                kbLe c.kb (y.ver.key, y.ver.born) := by
              intro y hy
              unfold seekN at hy
              rw [hcmp] at hy
              have hna := findPathN_snd_head Mvcc.insCmp ⟨c.key, 0, c.born, 0⟩ σ.store y hy
              have hnv : ¬ vlt y.ver ⟨c.key, 0, c.born, 0⟩ := by
                intro hv
                have := (Mvcc.insCmp_neg _ _).mpr hv
                have := (Mvcc.findAdvance_iff _).mpr this
                rw [hna] at this; cases this
              unfold vlt at hnv; simp only at hnv
              rcases kb_total c.kb (y.ver.key, y.ver.born) with h | h | h
              · exact Or.inl h
              · exact Or.inr h
              · exfalso; unfold kbLt Cur.kb at h; simp only at h; exact hnv h
            refine ⟨?_, ?_⟩
            · intro c' hc'
              cases hs : seekN (iterStoreCmp σ) σ.store c.key c.born with
              | none => rw [hs] at hc'; simp at hc'
              | some y =>
                rw [hs] at hc'; simp at hc'; subst hc'
                exact ⟨c, hcur, hle y hs⟩
            · intro kv hkv
              obtain ⟨y, hy, hvis⟩ := landOn_delivers hkv
              refine ⟨c, ⟨y.id, y.ver.key, y.ver.born⟩, hcur, by rw [hy]; rfl, ?_⟩
              rcases hle y hy with h | h
              · exact h
              · -- the same (key, bornSn): impossible for a collected node
                exfalso
                have hk1 : c.key = y.ver.key := congrArg Prod.fst h
                have hk2 : c.born = y.ver.born := congrArg Prod.snd h
                have hym := seekN_mem hy
                have hnot : c.id ∉ storeIds σ.store := findNode_none_iff.mp hn
                rcases hk.somewhere (t, i) it c hm hc with h1 | ⟨x, hx, hxid⟩
                · exact hnot h1
                · have hxc := hk.cache (t, i) it c hm hc x (List.mem_append_right _ hx) hxid
                  have hxd := hk.gone (t, i) it c hm hc (by omega) x hx hxid
                  exact hk.uniq x hx hxd y hym ⟨by omega, by omega⟩

end NitroVerif.MvccConc
