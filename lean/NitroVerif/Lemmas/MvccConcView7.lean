/-
  C01 along concurrent histories (part 7): the order and lifetime facts of the store in every reachable
  state (also after shutdown), `Count()` of an open snapshot, and the link between the delivered list of
  `Lemmas/MvccConcIter6` (keys and birth epochs) and the one with values.
-/
import NitroVerif.Lemmas.MvccConcView6

namespace NitroVerif.MvccConc
open NitroVerif
open NitroVerif.Mvcc (Ver Sorted Chains vlt visible)

/-! ### the store after shutdown -/

/-- an action that sets `down` (shutdown) leaves the store and the epoch alone -/
theorem step_down_or_store {σ : State} (a : Act) :
    (step σ a).1.down = σ.down ∨ ((step σ a).1.store = σ.store ∧ (step σ a).1.currSn = σ.currSn) := by
  by_cases hd : σ.down = true
  · rw [step_down hd]; exact Or.inl rfl
  · have hd0 : σ.down = false := by simpa using hd
    have mild : ∀ (t : Nat) (σ' : State), Mild t σ σ' →
        σ'.down = σ.down ∨ (σ'.store = σ.store ∧ σ'.currSn = σ.currSn) :=
      fun t σ' hm => Or.inl hm.2.2.2.2.1
    rw [step_eq_of_not_down hd0]
    cases a with
    | snap => simp only; split <;> exact Or.inl rfl
    | put t k v => simp only; split <;> exact Or.inl rfl
    | del t k =>
      simp only; split
      · unfold startDel; split
        · exact Or.inl rfl
        · split <;> exact Or.inl rfl
      · exact Or.inl rfl
    | get t k => simp only; split <;> exact Or.inl rfl
    | close t s => simp only; split; exact mild t _ (mild_startClose σ t s); exact Or.inl rfl
    | itNew t i s => simp only; split; exact mild t _ (mild_itNew σ t i s); exact Or.inl rfl
    | itFirst t i => simp only; split; exact mild t _ (mild_itFirst σ t i); exact Or.inl rfl
    | itNext t i => simp only; split; exact mild t _ (mild_itNext σ t i); exact Or.inl rfl
    | itClose t i => simp only; split; exact mild t _ (mild_itClose σ t i); exact Or.inl rfl
    | step t =>
      simp only
      unfold stepThread
      split
      · unfold stepPut; split
        · exact Or.inl rfl
        · simp only [alloc_store]
          split <;> exact Or.inl (by simp)
      · unfold stepDelPhys; split
        · exact Or.inl rfl
        · split <;> exact Or.inl rfl
      · exact Or.inl rfl
      · unfold stepDelCas casWin casLose; split
        · exact Or.inl rfl
        · split
          · split <;> exact Or.inl rfl
          · split
            · split <;> exact Or.inl rfl
            · exact Or.inl rfl
      · rename_i sn after hg; exact mild t _ (mild_stepCollect σ t sn after)
      · rename_i i hg; exact mild t _ (mild_stepIter σ t i)
      · exact Or.inl rfl
    | gc j =>
      simp only
      unfold stepGc
      split
      · split
        · split <;> exact Or.inl rfl
        · split
          · split
            · exact Or.inl rfl
            · split <;> (simp only; split <;> exact Or.inl rfl)
          · exact Or.inl rfl
        · exact Or.inl (by simp)
        · exact Or.inl rfl
        · exact Or.inl rfl
      · exact Or.inl rfl
    | fr j =>
      simp only
      unfold stepFr
      split
      · split
        · exact Or.inl (by simp)
        · exact Or.inl rfl
        · exact Or.inl rfl
      · exact Or.inl rfl
    | shutdown =>
      simp only
      unfold shutdown
      split
      · exact Or.inr ⟨by simp, by simp⟩
      · exact Or.inl rfl

/-- V1 and V2 in every reachable state, shut down or not -/
theorem store_facts_reachable {fx : Bool} {nw nr : Nat} {σ : State} (hr : ReachableFx fx nw nr σ) :
    Sorted (vers σ.store) ∧ Chains σ.currSn (vers σ.store) := by
  induction hr with
  | init =>
    have := inv_init nw nr fx
    exact ⟨this.store.sorted, this.store.chains⟩
  | step a hr' ih =>
    rename_i σ0
    by_cases hd' : (step σ0 a).1.down = false
    · have := inv_reachable (ReachableFx.step a hr') hd'
      exact ⟨this.store.sorted, this.store.chains⟩
    · rcases step_down_or_store (σ := σ0) a with h | ⟨h1, h2⟩
      · have hd0 : σ0.down = true := by rw [← h]; simpa using hd'
        rw [step_down hd0]; exact ih
      · rw [h1, h2]; exact ih

/-! ### `Count()` -/

/-- the item count a snapshot was created with is the size of its view, as long as it is open -/
def CountInv (σ : State) : Prop := ∀ s ∈ σ.snaps, 0 < s.rc → s.count = ((viewOf σ s.sn).length : Nat)

/-- every snapshot of the later table stems from one of the earlier table: same number, same count, and it
    was open before if it is open now -/
def SnapsBack (l l' : List Snap) : Prop :=
  ∀ s' ∈ l', ∃ s ∈ l, s.sn = s'.sn ∧ s.count = s'.count ∧ (0 < s'.rc → 0 < s.rc)

theorem SnapsBack.refl (l : List Snap) : SnapsBack l l := fun s hs => ⟨s, hs, rfl, rfl, fun h => h⟩

theorem SnapsBack.trans {l1 l2 l3 : List Snap} (h1 : SnapsBack l1 l2) (h2 : SnapsBack l2 l3) : SnapsBack l1 l3 := by
  intro s3 hs3
  obtain ⟨s2, hs2, a1, a2, a3⟩ := h2 s3 hs3
  obtain ⟨s1, hs1, b1, b2, b3⟩ := h1 s2 hs2
  exact ⟨s1, hs1, by rw [b1, a1], by rw [b2, a2], fun h => b3 (a3 h)⟩

theorem SnapsBack.updSnap (l : List Snap) (s : Nat) {f : Snap → Snap}
    (hf : ∀ x ∈ l, x.sn = s → (f x).sn = x.sn ∧ (f x).count = x.count ∧ (0 < (f x).rc → 0 < x.rc)) :
    SnapsBack l (updSnap s f l) := by
  intro y hy
  obtain ⟨x, hx, rfl⟩ := mem_updSnap hy
  by_cases hxs : x.sn = s
  · rw [if_pos hxs]
    obtain ⟨e1, e2, e3⟩ := hf x hx hxs
    exact ⟨x, hx, e1.symm, e2.symm, e3⟩
  · rw [if_neg hxs]
    exact ⟨x, hx, rfl, rfl, fun h => h⟩

theorem back_closeRef (σ : State) (t s : Nat) (rc : Int) (after : Option Nat) :
    SnapsBack σ.snaps (closeRef σ t s rc after).1.snaps := by
  unfold closeRef
  split
  · rw [(tail_runGC { σ with snaps := _ } t after).1]
    exact SnapsBack.updSnap _ _ (fun x _ _ => ⟨rfl, rfl, fun h => by simp only at h; omega⟩)
  · rw [(tail_finishClose { σ with snaps := _ } t after).1]
    exact SnapsBack.updSnap _ _ (fun x _ _ => ⟨rfl, rfl, fun h => by simp only at h; omega⟩)

theorem back_startClose (σ : State) (t s : Nat) : SnapsBack σ.snaps (startClose σ t s).1.snaps := by
  unfold startClose
  split
  · split
    · exact (SnapsBack.updSnap σ.snaps s (f := fun y => { y with held := false })
        (fun _ _ _ => ⟨rfl, rfl, fun h => h⟩)).trans (back_closeRef { σ with snaps := _ } t s _ none)
    · exact SnapsBack.refl _
  · exact SnapsBack.refl _

theorem back_itClose (σ : State) (t i : Nat) : SnapsBack σ.snaps (itClose σ t i).1.snaps := by
  unfold itClose
  split
  · split
    · exact back_closeRef σ t _ _ _
    · exact SnapsBack.refl _
  · exact SnapsBack.refl _

theorem back_itNew {σ : State} (hi : Inv σ) (t i s : Nat) : SnapsBack σ.snaps (itNew σ t i s).1.snaps := by
  unfold itNew
  cases hf : findSnap s σ.snaps with
  | none => exact SnapsBack.refl _
  | some x =>
    cases hfi : findIter (t, i) σ.iters with
    | some _ => exact SnapsBack.refl _
    | none =>
      simp only
      split
      · exact SnapsBack.refl _
      · rename_i href
        refine SnapsBack.updSnap σ.snaps s (f := fun y => { y with rc := y.rc + 1 }) ?_
        intro y hy hys
        refine ⟨rfl, rfl, ?_⟩
        intro h
        have ⟨hxm, hxs⟩ := findSnap_some hf
        have : y = x := snap_unique hi.store.snaps_inc hy hxm (by omega)
        subst this
        have hne : y.rc ≠ 0 := by
          intro e; apply href; unfold Gen.openRefuse; simp [e]
        simp only at h; omega

theorem back_stepCollect (σ : State) (t sn : Nat) (after : Option Nat) :
    SnapsBack σ.snaps (stepCollect σ t sn after).1.snaps := by
  unfold stepCollect
  split
  · rename_i x _
    rw [(tail_collectLoop
      { σ with lastGCSn := sn, gcJobs := σ.gcJobs ++ [⟨[], x.gclist, .recv⟩]
               snaps := updSnap sn (fun y => { y with st := .collected }) σ.snaps } t after).1]
    exact SnapsBack.updSnap σ.snaps sn (f := fun y => { y with st := .collected })
      (fun _ _ _ => ⟨rfl, rfl, fun h => h⟩)
  · exact SnapsBack.refl _

theorem CountInv.back {σ σ' : State} (h : CountInv σ) (hb : SnapsBack σ.snaps σ'.snaps)
    (hview : ∀ sn, openSn σ sn → viewOf σ' sn = viewOf σ sn) : CountInv σ' := by
  intro s' hs' hrc
  obtain ⟨s, hs, e1, e2, e3⟩ := hb s' hs'
  have ho : openSn σ s'.sn := ⟨s, hs, e1, e3 hrc⟩
  rw [hview _ ho, ← e2, ← e1]
  exact h s hs (e3 hrc)

/-- at its creation a snapshot sees exactly the alive versions -/
theorem view_at_epoch {cur : Nat} {S : List Ver} (hc : Chains cur S) :
    (Mvcc.view S cur).length = (S.filter Mvcc.isAlive).length := by
  unfold Mvcc.view
  rw [List.length_map]
  congr 1
  apply List.filter_congr
  intro v hv
  have h1 := hc.1 v hv
  cases hvis : visible cur v
  · cases ha : Mvcc.isAlive v
    · rfl
    · exfalso
      have hd : v.dead = 0 := by simpa [Mvcc.isAlive] using ha
      have : visible cur v = true := (Mvcc.visible_iff cur v).mpr ⟨h1.1, Or.inl hd⟩
      rw [hvis] at this; cases this
  · have := (Mvcc.visible_iff cur v).mp hvis
    have hd : v.dead = 0 := by
      rcases this.2 with h | h
      · exact h
      · by_cases h0 : v.dead = 0
        · exact h0
        · have := (h1.2 h0).2; omega
    simp [Mvcc.isAlive, hd]

theorem count_step {σ : State} (hi : Inv σ) (hd : σ.down = false) (hv : VInv σ) (hc : CountInv σ) (a : Act) :
    CountInv (step σ a).1 := by
  have hview : ∀ sn, openSn σ sn → viewOf (step σ a).1 sn = viewOf σ sn :=
    fun sn ho => view_step_inv hi hd hv a ho
  rcases step_cases hi hd a with ⟨hq, _⟩ | ⟨_, _, he⟩ | ⟨t, s, _, ht, he⟩ | ⟨t, i, s, _, ht, he⟩ |
      ⟨t, i, _, ht, he⟩ | ⟨t, i, _, ht, he⟩ | ⟨t, sn, after, _, ht, he⟩ | ⟨t, i, _, ht, he⟩
  · exact hc.back (by rw [hq.1.2.2.1]; exact SnapsBack.refl _) hview
  · -- NewSnapshot
    rw [he]
    intro s hs hrc
    have hstore : viewOf (snap σ).1 s.sn = viewOf σ s.sn := viewOf_congr rfl s.sn
    rw [hstore]
    have hs' : s ∈ σ.snaps ++ [_] := hs
    rcases List.mem_append.mp hs' with hs0 | hs0
    · exact hc s hs0 hrc
    · simp at hs0; subst hs0
      simp only
      unfold viewOf
      rw [view_at_epoch hi.store.chains]
      exact hi.store.cnt
  · exact hc.back (by rw [he]; exact back_startClose σ t s) hview
  · exact hc.back (by rw [he]; exact back_itNew hi t i s) hview
  · exact hc.back (by rw [he, snaps_itFirst]; exact SnapsBack.refl _) hview
  · exact hc.back (by rw [he]; exact back_itClose σ t i) hview
  · exact hc.back (by rw [he]; exact back_stepCollect σ t sn after) hview
  · exact hc.back (by rw [he, snaps_stepIter]; exact SnapsBack.refl _) hview

theorem count_reachable {fx : Bool} {nw nr : Nat} {σ : State} (hr : ReachableFx fx nw nr σ) : CountInv σ := by
  induction hr with
  | init => intro s hs; simp [init] at hs
  | step a hr' ih =>
    rename_i σ0
    by_cases hd : σ0.down = true
    · rw [step_down hd]; exact ih
    · have hd0 : σ0.down = false := by simpa using hd
      exact count_step (inv_reachable hr' hd0) hd0 (vinv_reachable hr') ih a

/-! ### keys and birth epochs of what is delivered -/

/-- an own action that hands out an item is a landing -/
theorem own_item {σ : State} {a : Act} {t i : Nat} {kv : Nat × Nat} (hm : mine σ a t i = true)
    (hr : (step σ a).2 = .ret (.item (some kv))) : ∃ it land, step σ a = landOn σ t i it land := by
  by_cases hd : σ.down = true
  · rw [step_down hd] at hr; cases hr
  have hd0 : σ.down = false := by simpa using hd
  have hst := step_eq_of_not_down hd0 a
  cases a with
  | itFirst t' i' =>
    simp only [mine, Bool.and_eq_true, beq_iff_eq] at hm
    obtain ⟨rfl, rfl⟩ := hm
    simp only at hst
    by_cases hok : (isReader σ t' && isIdle σ t') = true
    · rw [if_pos hok] at hst
      unfold itFirst at hst
      cases hf : findIter (t', i') σ.iters with
      | none => rw [hf] at hst; rw [hst] at hr; cases hr
      | some it => rw [hf] at hst; exact ⟨it, _, hst⟩
    · rw [if_neg hok] at hst; rw [hst] at hr; cases hr
  | step t' =>
    simp only [mine, Bool.and_eq_true, beq_iff_eq] at hm
    obtain ⟨rfl, hg⟩ := hm
    simp only [stepThread, hg] at hst
    unfold stepIter at hst
    cases hf : findIter (t', i) σ.iters with
    | none => rw [hf] at hst; rw [hst] at hr; cases hr
    | some it =>
      rw [hf] at hst; simp only at hst
      cases hc : it.cur with
      | none => rw [hc] at hst; rw [hst] at hr; cases hr
      | some c =>
        rw [hc] at hst; simp only at hst
        split at hst
        · rw [hst] at hr; cases hr
        · split at hst
          · exact ⟨it, _, hst⟩
          · split at hst
            · rw [hst] at hr; cases hr
            · exact ⟨it, _, hst⟩
  | _ => simp [mine] at hm

theorem deliveredBy_map (σ : State) (a : Act) (t i : Nat) :
    deliveredBy σ a t i = (deliveredVerBy σ a t i).map (fun v => (v.key, v.born)) := by
  unfold deliveredBy deliveredVerBy
  by_cases hm : mine σ a t i = true
  · rw [if_pos hm, if_pos hm]
    split
    · rename_i kv hresp
      obtain ⟨it, land, he⟩ := own_item hm hresp
      have hcur : curOf (step σ a).1 t i = land.map curAt := by
        rw [he]; unfold curOf; rw [findIter_landOn_self]; rfl
      rw [hcur]
      have hresp' := hresp
      rw [he, landOn_resp] at hresp'
      cases land with
      | none => cases hresp'
      | some y =>
        simp only at hresp'
        split at hresp'
        · cases hresp'
        · injection hresp' with hresp'; injection hresp' with hresp'; injection hresp' with hresp'
          subst hresp'
          rw [hresp]
          rfl
    · rename_i hno
      split
      · rename_i kv hresp; exact absurd hresp (hno kv)
      · rfl
  · rw [if_neg hm, if_neg hm]; rfl

theorem delivered_map (t i : Nat) : ∀ (sched : List Act) (σ : State),
    delivered t i σ sched = (deliveredVers t i σ sched).map (fun v => (v.key, v.born))
  | [], _ => rfl
  | a :: as, σ => by
    simp only [delivered, deliveredVers, List.map_append]
    rw [delivered_map t i as, deliveredBy_map]
    cases deliveredVerBy σ a t i <;> rfl

end NitroVerif.MvccConc
