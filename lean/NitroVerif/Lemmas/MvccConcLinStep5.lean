/-
  One step of the machine against the specification (part 5): the steps of `Delete2`, the assembly,
  and the induction over schedules.
-/
import NitroVerif.Lemmas.MvccConcLinStep4

namespace NitroVerif.MvccConc
open NitroVerif
open NitroVerif.SetSpec (Op Out)
open NitroVerif.Mvcc (Ver Sorted Chains isAlive)

theorem aliveIn_removeNode_ne {s : List Node} {n m : Nat} (hne : m ≠ n) :
    AliveIn (removeNode s n) m ↔ AliveIn s m := by
  constructor
  · rintro ⟨y, hy, h1, h2⟩; exact ⟨y, (mem_removeNode.mp hy).1, h1, h2⟩
  · rintro ⟨y, hy, h1, h2⟩; exact ⟨y, mem_removeNode.mpr ⟨hy, by omega⟩, h1, h2⟩

theorem not_aliveIn_removeNode (s : List Node) (n : Nat) : ¬ AliveIn (removeNode s n) n := by
  rintro ⟨y, hy, h1, _⟩; exact (mem_removeNode.mp hy).2 h1

theorem aliveIn_markDeadNode_ne {s : List Node} {n sn m : Nat} (hne : m ≠ n) :
    AliveIn (markDeadNode s n sn) m ↔ AliveIn s m := by
  constructor
  · rintro ⟨y, hy, h1, h2⟩
    obtain ⟨z, hz, hyz, _, _, _, hc⟩ := mem_markDeadNode hy
    rcases hc with ⟨hzn, _⟩ | ⟨_, rfl⟩
    · omega
    · exact ⟨y, hz, h1, h2⟩
  · rintro ⟨y, hy, h1, h2⟩
    exact ⟨y, mem_markDeadNode_of_ne hy (by omega), h1, h2⟩

theorem not_aliveIn_markDeadNode (s : List Node) (n : Nat) {sn : Nat} (hsn : sn ≠ 0) :
    ¬ AliveIn (markDeadNode s n sn) n := by
  rintro ⟨y, hy, h1, h2⟩
  obtain ⟨z, hz, hyz, _, _, _, hc⟩ := mem_markDeadNode hy
  rcases hc with ⟨_, hd⟩ | ⟨hzn, _⟩
  · omega
  · omega

/-! ### DEL_NODE_PHYS -/

theorem stepOK_stepDelPhys {σ : State} {sp : SetSpec.State} (hi : Inv σ) (hd : σ.down = false) (habs : Abs σ sp)
    {t n tok k : Nat} (hg : σ.threads[t]? = some (.delPhys n tok k)) : StepOK σ sp (.step t) := by
  have hlive := (live_of_thread hi (Or.inl hg)).2
  have ⟨hw, _, _, hnode⟩ := hi.pc.phys t n tok k hg
  have hst : step σ (.step t) = stepDelPhys σ t n tok k := by
    rw [step_eq_of_not_down hd]; simp only [stepThread, hg]
  have hwop : (Pc.delPhys n tok k).isWop = true := rfl
  cases hf : findNode σ.store n with
  | some x =>
    have ⟨hx, hid⟩ := findNode_some hf
    have ⟨hxk, hxb⟩ := hnode x hx hid
    have hxd : x.ver.dead = 0 := by
      have := (hi.store.chains.1 x.ver (List.mem_map.mpr ⟨x, hx, rfl⟩)).2
      cases hdd : x.ver.dead with
      | zero => rfl
      | succ d => have := this (by omega); omega
    have hres : stepDelPhys σ t n tok k =
        (setPc { σ with store := removeNode σ.store n, unlinked := σ.unlinked ++ [x],
                        writers := updWriter t (fun y => { y with count := y.count - 1 }) σ.writers }
            t (.delFlush n tok k), .at_ .DEL_NODE_FLUSH) := by
      unfold stepDelPhys; simp only [hlive, Bool.not_true, Bool.false_eq_true, if_false, hf]
    have hev : events σ (.step t) = .lin t (.del t k) (.bool true) :: (losers σ t n ++ []) := by
      simp only [events, calls, lins, rets, hd, hg, hwop, hst, hres, hf, retOut, Bool.false_eq_true, if_false,
        Bool.not_false, Bool.and_self, if_true, Option.map_none, Option.toList_none, List.nil_append,
        List.append_nil]
    have hxv : x.ver ∈ vers σ.store := List.mem_map.mpr ⟨x, hx, rfl⟩
    have hσ' : (step σ (.step t)).1 =
        setPc { σ with store := removeNode σ.store n, unlinked := σ.unlinked ++ [x],
                       writers := updWriter t (fun y => { y with count := y.count - 1 }) σ.writers }
            t (.delFlush n tok k) := by rw [hst, hres]
    refine stepOK_win hi habs hw hx hid hxk hxd hev (Or.inl rfl) hσ' ?_ rfl
      (by simp [updWriter_length]) ?_ ?_ ?_ ?_ ?_ ?_ ?_
    · intro t' hne; exact get_set_ne _ (fun h => hne h.symm)
    · show Mvcc.absAlive (vers (removeNode σ.store n)) = _
      rw [vers_removeNode hi.store.sorted hi.store.ids hf,
        Mvcc.absAlive_removeId hi.store.sorted hi.store.chains hxv hxd, hxk]
    · intro m hne
      exact ⟨storeIds_removeNode_sub, fun h => mem_storeIds_removeNode h hne⟩
    · intro m hne; exact aliveIn_removeNode_ne hne
    · exact not_aliveIn_removeNode _ _
    · intro _ _ _ _; exact not_mem_storeIds_removeNode _ _
    · intro p hp; exact (phase_of_phys hg hp).1 (List.mem_map.mpr ⟨x, hx, hid⟩)
    · simp only [phaseOf, List.foldl_nil]
      exact Or.inr (Or.inl ⟨n, tok, k, get_set_self hg, rfl, rfl⟩)
  | none =>
    have hres : stepDelPhys σ t n tok k = (setPc (release σ tok (.thr t)) t .idle, .ret (.bool false)) := by
      unfold stepDelPhys; simp only [hlive, Bool.not_true, Bool.false_eq_true, if_false, hf]
    have hev : events σ (.step t) = [.ret t (.bool false)] := by
      simp only [events, calls, lins, rets, hd, hg, hwop, hst, hres, hf, retOut, Bool.false_eq_true, if_false,
        Bool.not_false, Bool.and_self, if_true, Option.map_some, Option.toList_some, List.nil_append]
    refine stepOK_return (k := k) (σ' := setPc (release σ tok (.thr t)) t .idle) habs hev (by rw [hst, hres])
      rfl rfl rfl rfl hg ?_
    intro p hp
    exact (phase_of_phys hg hp).2 (findNode_none_iff.mp hf)

/-! ### DEL_NODE_FLUSH -/

theorem stepOK_stepDelFlush {σ : State} {sp : SetSpec.State} (hd : σ.down = false) (habs : Abs σ sp)
    {t n tok k : Nat} (hg : σ.threads[t]? = some (.delFlush n tok k)) : StepOK σ sp (.step t) := by
  have hst : step σ (.step t) = stepDelFlush σ t n tok := by
    rw [step_eq_of_not_down hd]; simp only [stepThread, hg]
  have hwop : (Pc.delFlush n tok k).isWop = true := rfl
  have hev : events σ (.step t) = [.ret t (.bool true)] := by
    simp only [events, calls, lins, rets, hd, hg, hwop, hst, stepDelFlush, retOut, Bool.false_eq_true, if_false,
      Bool.not_false, Bool.and_self, if_true, Option.map_some, Option.toList_some, List.nil_append]
  refine stepOK_return (k := k) (σ' := setPc (release (flush σ [n]) tok (.thr t)) t .idle) habs hev
    (by rw [hst]; rfl) rfl rfl rfl rfl hg ?_
  intro p hp
  exact phase_of_flush hg hp

/-! ### DEL_NODE_CAS -/

theorem stepOK_stepDelCas {σ : State} {sp : SetSpec.State} (hi : Inv σ) (hd : σ.down = false) (habs : Abs σ sp)
    {t n tok k : Nat} (hg : σ.threads[t]? = some (.delCas n tok k)) : StepOK σ sp (.step t) := by
  have hlive := live_of_thread hi (Or.inr hg)
  have ⟨hw, _, _, hnode, hunl⟩ := hi.pc.cas t n tok k hg
  have hst : step σ (.step t) = stepDelCas σ t n tok := by
    rw [step_eq_of_not_down hd]; simp only [stepThread, hg]
  have hwop : (Pc.delCas n tok k).isWop = true := rfl
  have hcur0 : σ.currSn ≠ 0 := by have := hi.store.cur_pos; omega
  -- the losing outcome
  have lose : stepDelCas σ t n tok = (setPc (release σ tok (.thr t)) t .idle, .ret (.bool false)) →
      lins σ (.step t) = [] → ¬ AliveIn σ.store n → StepOK σ sp (.step t) := by
    intro hres hlins hna
    have hev : events σ (.step t) = [.ret t (.bool false)] := by
      simp only [events, calls, hlins, rets, hd, hg, hwop, hst, hres, retOut, Bool.not_false, Bool.and_self, if_true,
        Option.map_some, Option.toList_some, List.nil_append]
    refine stepOK_return (k := k) (σ' := setPc (release σ tok (.thr t)) t .idle) habs hev (by rw [hst, hres])
      rfl rfl rfl rfl hg ?_
    intro p hp
    exact (phase_of_cas hg hp).2 hna
  cases hf : findNode σ.store n with
  | some x =>
    have ⟨hx, hid⟩ := findNode_some hf
    have ⟨hxk, hxb⟩ := hnode x hx hid
    by_cases hxd : x.ver.dead = 0
    · -- the winner
      have hres : stepDelCas σ t n tok =
          (setPc (release { σ with store := markDeadNode σ.store n σ.currSn,
                                   writers := updWriter t (fun y => { count := y.count - 1, gc := y.gc ++ [n] })
                                     σ.writers } tok (.thr t)) t .idle, .ret (.bool true)) := by
        unfold stepDelCas casWin
        simp only [hlive.1, hlive.2, Bool.and_self, Bool.not_true, Bool.false_eq_true, if_false, hf, hxd, if_true]
      have hev : events σ (.step t) =
          .lin t (.del t k) (.bool true) :: (losers σ t n ++ [.ret t (.bool true)]) := by
        simp only [events, calls, lins, rets, hd, hg, hwop, hst, hres, hf, hxd, retOut, Bool.false_eq_true, if_false,
          Bool.not_false, Bool.and_self, if_true, Option.map_some, Option.toList_some, List.nil_append,
          List.cons_append]
      have hxv : x.ver ∈ vers σ.store := List.mem_map.mpr ⟨x, hx, rfl⟩
      have hσ' : (step σ (.step t)).1 =
          setPc (release { σ with store := markDeadNode σ.store n σ.currSn,
                                  writers := updWriter t (fun y => { count := y.count - 1, gc := y.gc ++ [n] })
                                    σ.writers } tok (.thr t)) t .idle := by rw [hst, hres]
      refine stepOK_win hi habs hw hx hid hxk hxd hev (Or.inr rfl) hσ' ?_ rfl
        (by simp [updWriter_length]) ?_ ?_ ?_ ?_ ?_ ?_ ?_
      · intro t' hne; exact get_set_ne _ (fun h => hne h.symm)
      · show Mvcc.absAlive (vers (markDeadNode σ.store n σ.currSn)) = _
        rw [vers_markDeadNode hi.store.sorted hi.store.ids hf,
          Mvcc.absAlive_markDead hi.store.sorted hi.store.chains hxv hxd σ.currSn hcur0, hxk]
      · intro m _
        show m ∈ storeIds (markDeadNode σ.store n σ.currSn) ↔ _
        rw [storeIds_markDeadNode]
      · intro m hne; exact aliveIn_markDeadNode_ne hne
      · exact not_aliveIn_markDeadNode _ _ hcur0
      · intro t' tok' k' hg'
        exfalso
        have := ((hi.pc.phys t' n tok' k' hg').2.2.2 x hx hid).2
        omega
      · intro p hp; exact (phase_of_cas hg hp).1 ⟨x, hx, hid, hxd⟩
      · simp only [phaseOf, List.foldl_cons, List.foldl_nil, phaseStep, if_true]
        intro pc hgpc
        change (σ.threads.set t .idle)[t]? = some pc at hgpc
        rw [get_set_self hg] at hgpc; injection hgpc with h1; subst h1; rfl
    · -- somebody else was faster
      refine lose ?_ ?_ ?_
      · unfold stepDelCas casLose
        simp only [hlive.1, hlive.2, Bool.and_self, Bool.not_true, Bool.false_eq_true, if_false, hf, hxd]
      · simp only [lins, hd, hg, hf, hxd, Bool.false_eq_true, if_false]
      · rintro ⟨y, hy, hyid, hyd⟩
        have := id_unique hi.store.ids hy hx (by omega)
        subst this; exact hxd hyd
  | none =>
    have hna : ¬ AliveIn σ.store n := by
      rintro ⟨y, hy, hyid, _⟩; exact findNode_none hf y hy hyid
    have hlins : lins σ (.step t) = [] := by simp only [lins, hd, hg, hf, Bool.false_eq_true, if_false]
    cases hu : findNode σ.unlinked n with
    | some x =>
      have ⟨hxu, hxid⟩ := findNode_some hu
      have hxd : x.ver.dead ≠ 0 := hunl x hxu hxid
      refine lose ?_ hlins hna
      unfold stepDelCas casLose
      simp only [hlive.1, hlive.2, Bool.and_self, Bool.not_true, Bool.false_eq_true, if_false, hf, hu, hxd]
    | none =>
      refine lose ?_ hlins hna
      unfold stepDelCas casLose
      simp only [hlive.1, hlive.2, Bool.and_self, Bool.not_true, Bool.false_eq_true, if_false, hf, hu]

/-! ### assembly -/

theorem stepOK_step {σ : State} {sp : SetSpec.State} (hi : Inv σ) (hd : σ.down = false) (habs : Abs σ sp) (t : Nat) :
    StepOK σ sp (.step t) := by
  have hst : step σ (.step t) = stepThread σ t := by rw [step_eq_of_not_down hd]
  cases hg : σ.threads[t]? with
  | none =>
    have hev : events σ (.step t) = [] := by simp [events, calls, lins, rets, hg, hd]
    exact stepOK_same hev (by rw [hst]; simp only [stepThread, hg]) habs
  | some pc =>
    cases pc with
    | idle =>
      have hev : events σ (.step t) = [] := by simp [events, calls, lins, rets, hg, hd, Pc.isWop]
      exact stepOK_same hev (by rw [hst]; simp only [stepThread, hg]) habs
    | putInsert n k v b => exact stepOK_stepPut hi hd habs hg
    | delPhys n tok k => exact stepOK_stepDelPhys hi hd habs hg
    | delFlush n tok k => exact stepOK_stepDelFlush hd habs hg
    | delCas n tok k => exact stepOK_stepDelCas hi hd habs hg
    | collectSend sn after =>
      have hev : events σ (.step t) = [] := by simp [events, calls, lins, rets, hg, hd, Pc.isWop]
      refine stepOK_mild (t := t) hev ?_ ?_ habs
      · rw [hst]; simp only [stepThread, hg]; exact mild_stepCollect σ t sn after
      · intro pc hpc; rw [hg] at hpc; injection hpc with h1; subst h1; rfl
    | iterNext i =>
      have hev : events σ (.step t) = [] := by simp [events, calls, lins, rets, hg, hd, Pc.isWop]
      refine stepOK_mild (t := t) hev ?_ ?_ habs
      · rw [hst]; simp only [stepThread, hg]; exact mild_stepIter σ t i
      · intro pc hpc; rw [hg] at hpc; injection hpc with h1; subst h1; rfl

theorem stepOK_all {σ : State} {sp : SetSpec.State} (hi : Inv σ) (hd : σ.down = false) (habs : Abs σ sp) (a : Act) :
    StepOK σ sp a := by
  cases a with
  | snap => exact stepOK_snap hi hd habs
  | put t k v => exact stepOK_put hd habs t k v
  | del t k => exact stepOK_del hi hd habs t k
  | get t k => exact stepOK_get hi hd habs t k
  | close t s => exact stepOK_close hd habs t s
  | itNew t i s => exact stepOK_itNew hd habs t i s
  | itFirst t i => exact stepOK_itFirst hd habs t i
  | itNext t i => exact stepOK_itNext hd habs t i
  | itClose t i => exact stepOK_itClose hd habs t i
  | step t => exact stepOK_step hi hd habs t
  | gc j => exact stepOK_gc hi hd habs j
  | fr j => exact stepOK_fr hd habs j
  | shutdown => exact stepOK_shutdown hd habs

theorem events_down {σ : State} (hd : σ.down = true) (a : Act) : events σ a = [] := by
  have hacc : ∀ t, accepted σ t = false := by intro t; simp [accepted, hd]
  cases a <;> simp [events, calls, lins, rets, hacc, hd]
  case step t => cases σ.threads[t]? <;> simp

/-- every schedule from a reachable state: the trace replays on the specification, and the phases of
    all threads stay consistent -/
theorem lin_run {fx : Bool} {nw nr : Nat} : ∀ (sched : List Act) {σ : State} {sp : SetSpec.State}
    (_ : ReachableFx fx nw nr σ) (_ : Abs σ sp) (ps : Nat → Phase) (_ : ∀ t, PhaseOK σ t (ps t)),
    ∃ sp', replay sp (trace σ sched) = some sp' ∧ Abs (run σ sched) sp' ∧
      ∀ t, PhaseOK (run σ sched) t (phaseOf t (ps t) (trace σ sched))
  | [], σ, sp, _, habs, ps, hps => ⟨sp, rfl, habs, hps⟩
  | a :: as, σ, sp, hr, habs, ps, hps => by
    by_cases hd : σ.down = true
    · have hev := events_down hd a
      have hst := step_down hd a
      have ih := lin_run as (ReachableFx.step a hr) (sp := sp) (by rw [hst]; exact habs) ps
        (by rw [hst]; exact hps)
      simp only [trace, run, hev, List.nil_append]
      exact ih
    · have hd0 : σ.down = false := by simpa using hd
      have hok := stepOK_all (inv_reachable hr hd0) hd0 habs a
      obtain ⟨sp1, hrep, habs1⟩ := hok.rep
      obtain ⟨sp', h1, h2, h3⟩ := lin_run as (ReachableFx.step a hr) habs1
        (fun t => phaseOf t (ps t) (events σ a)) (fun t => hok.ph t (ps t) (hps t))
      refine ⟨sp', ?_, h2, ?_⟩
      · simp only [trace]
        rw [replay_append_some hrep]; exact h1
      · intro t
        simp only [trace, run]
        rw [phaseOf_append]; exact h3 t

end NitroVerif.MvccConc
