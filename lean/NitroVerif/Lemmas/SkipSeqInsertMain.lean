import NitroVerif.Lemmas.SkipSeqSearch
/-!
  `Insert4` after a miss: the new node is linked on the levels `0..itemLevel`, one CAS per level.
-/
namespace NitroVerif.SkipSeq
open NitroVerif

/-- heap `h` is `h0` with `x` linked behind the predecessors of the levels `< j` -/
structure LinkInv (h0 : Heap) (A : List Nat) (x j : Nat) (h : Heap) : Prop where
  len : h.length = h0.length
  key : ∀ m, keyOf h m = keyOf h0 m
  lvl : ∀ m, levelOf h m = levelOf h0 m
  nlen : ∀ m, nextLen h m = nextLen h0 m
  links : ∀ m l, getNext h m l = if l < j ∧ m = predAt h0 A l then (x, false) else getNext h0 m l

theorem LinkInv.zero (h0 : Heap) (A : List Nat) (x : Nat) : LinkInv h0 A x 0 h0 :=
  ⟨rfl, fun _ => rfl, fun _ => rfl, fun _ => rfl, fun m l => by simp⟩

theorem LinkInv.step {h0 h : Heap} {A : List Nat} {x j : Nat} (hi : LinkInv h0 A x j h)
    (hslot : j < nextLen h0 (predAt h0 A j)) :
    LinkInv h0 A x (j + 1) (setNext h (predAt h0 A j) j (x, false)) := by
  refine ⟨by rw [length_setNext]; exact hi.len, fun m => by rw [keyOf_setNext]; exact hi.key m,
    fun m => by rw [levelOf_setNext]; exact hi.lvl m, fun m => by rw [nextLen_setNext]; exact hi.nlen m, ?_⟩
  intro m l
  rw [getNext_setNext (by rw [hi.nlen]; exact hslot)]
  by_cases hc : predAt h0 A j = m ∧ j = l
  · rcases hc with ⟨rfl, rfl⟩
    simp
  · rw [if_neg hc, hi.links m l]
    by_cases hl : l < j
    · have : l < j + 1 := by omega
      simp [hl, this]
    · by_cases hlj : l = j
      · subst hlj
        have hm : ¬ m = predAt h0 A l := fun e => hc ⟨e.symm, rfl⟩
        simp [hm]
      · have : ¬ l < j + 1 := by omega
        simp [hl, this]

/-- the situation of `Insert4` after the search missed and `x.setNext(i, succs[i])` was done -/
structure InsCtx (s4 : SL) (A B : List Nat) (x ht : Nat) : Prop where
  rep : Rep s4 (A ++ B)
  htle : ht ≤ s4.level
  xlo : 3 ≤ x
  xnot : x ∉ A ++ B
  xlinks : ∀ l, l ≤ ht → getNext s4.nodes x l = (succAt s4.nodes B l, false)
  buf : BufOK s4 s4.nodes A B s4.level

theorem InsCtx.x_ne_pred {s4 : SL} {A B : List Nat} {x ht : Nat} (c : InsCtx s4 A B x ht) (l : Nat) :
    x ≠ predAt s4.nodes A l := by
  intro e
  rcases predAt_mem s4.nodes A l with h1 | ⟨h1, _⟩
  · have := c.xlo; rw [e, h1] at this; simp [headId] at this
  · exact c.xnot (by rw [e]; exact List.mem_append_left _ h1)

theorem InsCtx.pred_link {s4 : SL} {A B : List Nat} {x ht : Nat} (c : InsCtx s4 A B x ht) {l : Nat}
    (hl : l ≤ Gen.maxLevel) :
    getNext s4.nodes (predAt s4.nodes A l) l = (succAt s4.nodes B l, false) := by
  have hp := c.rep.paths l hl
  rw [LL_append] at hp
  have := level_pred_link (mk := nomk) (by simpa using hp)
  simpa [nomk] using this

theorem InsCtx.pred_slot {s4 : SL} {A B : List Nat} {x ht : Nat} (c : InsCtx s4 A B x ht) {l : Nat}
    (hl : l ≤ Gen.maxLevel) : l < nextLen s4.nodes (predAt s4.nodes A l) :=
  SkipSeq.pred_slot c.rep (fun _ ha => List.mem_append_left _ ha) hl

theorem linkUpper_spec {s4 : SL} {A B : List Nat} {x ht : Nat} (k : Key) (c : InsCtx s4 A B x ht) :
    ∀ (n j : Nat) (s : SL) (f : Nat), j + n = ht + 1 → LinkInv s4.nodes A x j s.nodes →
      s.buf = s4.buf → n < f →
      LinkInv s4.nodes A x (ht + 1) (linkUpper k x ht f s j).nodes ∧
      (linkUpper k x ht f s j).level = s.level ∧ (linkUpper k x ht f s j).stats = s.stats ∧
      (linkUpper k x ht f s j).buf = s.buf ∧ (linkUpper k x ht f s j).stuck = s.stuck := by
  intro n
  induction n with
  | zero =>
    intro j s f hj hinv _ hf
    obtain ⟨f', rfl⟩ : ∃ f', f = f' + 1 := ⟨f - 1, by omega⟩
    have hlt : ht < j := by omega
    have hj' : j = ht + 1 := by omega
    rw [linkUpper]
    simp only [hlt, if_true]
    exact ⟨hj' ▸ hinv, trivial, trivial, trivial, trivial⟩
  | succ n ih =>
    intro j s f hj hinv hbuf hf
    obtain ⟨f', rfl⟩ : ∃ f', f = f' + 1 := ⟨f - 1, by omega⟩
    have hjle : j ≤ ht := by omega
    have hnlt : ¬ ht < j := by omega
    have hmax : j ≤ Gen.maxLevel := by have := c.htle; have := c.rep.lvl; omega
    have hjl : j ≤ s4.level := by have := c.htle; omega
    have hxp := c.x_ne_pred j
    have hnn : getNext s.nodes x j = (succAt s4.nodes B j, false) := by
      rw [hinv.links x j]
      have : ¬ (j < j ∧ x = predAt s4.nodes A j) := by omega
      rw [if_neg this]; exact c.xlinks j hjle
    have hnext : s.buf.succs.getD j 0 = succAt s4.nodes B j := by rw [hbuf]; exact (c.buf j hjl).2
    have hpred : s.buf.preds.getD j 0 = predAt s4.nodes A j := by rw [hbuf]; exact (c.buf j hjl).1
    have hcas : getNext s.nodes (predAt s4.nodes A j) j = (succAt s4.nodes B j, false) := by
      rw [hinv.links _ j]
      have : ¬ (j < j ∧ predAt s4.nodes A j = predAt s4.nodes A j) := by omega
      rw [if_neg this]; exact c.pred_link hmax
    have hx2 : getNext (setNext s.nodes (predAt s4.nodes A j) j (x, false)) x j
        = (succAt s4.nodes B j, false) := by
      rw [getNext_setNext_ne (Or.inl (Ne.symm hxp))]; exact hnn
    rw [linkUpper]
    simp only [hnlt, if_false, hnn, hnext, hpred, bne_self_eq_false, Bool.false_eq_true,
      Bool.not_true, dcasNext_ok hcas, if_true, hx2]
    have := ih (j + 1) { s with nodes := setNext s.nodes (predAt s4.nodes A j) j (x, false) } f'
      (by omega) (hinv.step (c.pred_slot hmax)) hbuf (by omega)
    exact this

end NitroVerif.SkipSeq

namespace NitroVerif.SkipSeq
open NitroVerif

theorem getD_addAt (l : List Int) (i j : Nat) (v : Int) (hi : i < l.length) :
    (addAt l i v).getD j 0 = if i = j then l.getD j 0 + v else l.getD j 0 := by
  unfold addAt
  by_cases h : i = j
  · subst h; rw [getD_set_same _ _ _ _ hi]; simp
  · rw [getD_set_ne _ _ _ _ _ h]; simp [h]

theorem length_addAt (l : List Int) (i : Nat) (v : Int) : (addAt l i v).length = l.length := by
  simp [addAt]

theorem cntLevel_append (h : Heap) (A B : List Nat) (g : Nat) :
    cntLevel h (A ++ B) g = cntLevel h A g + cntLevel h B g := by
  simp [cntLevel]

theorem cntLevel_cons (h : Heap) (a : Nat) (B : List Nat) (g : Nat) :
    cntLevel h (a :: B) g = (if levelOf h a = g then 1 else 0) + cntLevel h B g := by
  unfold cntLevel
  by_cases hc : levelOf h a = g
  · simp [List.filter_cons, hc]; omega
  · simp [List.filter_cons, hc]

/-- all levels linked: the heap represents `A ++ x :: B` -/
theorem rep_after_link {s4 s' : SL} {A B : List Nat} {x ht : Nat} {k : Int} (c : InsCtx s4 A B x ht)
    (hxlt : x < s4.nodes.length) (hxkey : keyOf s4.nodes x = .item k) (hxlvl : levelOf s4.nodes x = ht)
    (hxlen : nextLen s4.nodes x = ht + 1)
    (hA : ∀ a ∈ A, ikey s4.nodes a < k) (hB : ∀ b ∈ B, k < ikey s4.nodes b)
    (hsize : (A ++ B).length + 4 ≤ s4.nodes.length)
    (hinv : LinkInv s4.nodes A x (ht + 1) s'.nodes) (hlevel : s'.level = s4.level)
    (hbuf : s'.buf = s4.buf) (hstuck : s'.stuck = s4.stuck)
    (hst1 : s'.stats.levelNodesCount = addAt s4.stats.levelNodesCount ht 1)
    (hst2 : s'.stats.softDeletes = s4.stats.softDeletes) (hst3 : s'.stats.nodeFrees = s4.stats.nodeFrees) :
    Rep s' (A ++ x :: B) := by
  have hr := c.rep
  have hikey : ∀ m, ikey s'.nodes m = ikey s4.nodes m := fun m => ikey_congr (hinv.key m)
  have hmax : ht ≤ Gen.maxLevel := by have := c.htle; have := hr.lvl; omega
  have hxk : ikey s4.nodes x = k := ikey_of_keyOf hxkey
  have hlow : ∀ n ∈ A ++ B, 3 ≤ n := fun n hn => (hr.nodes n hn).lo
  refine ⟨⟨?_, ?_, ?_, ?_, ?_⟩, by rw [hlevel]; exact hr.lvl, ?_, ?_, ?_, ⟨?_, ?_, ?_, ?_⟩, ?_, ?_, ?_, ?_⟩
  · rw [hinv.len]; exact hr.base.len
  · rw [hinv.key]; exact hr.base.headKey
  · rw [hinv.key]; exact hr.base.tailKey
  · rw [hinv.nlen]; exact hr.base.headLen
  · intro l
    rw [hinv.links]
    have : ¬ (l < ht + 1 ∧ tailId = predAt s4.nodes A l) := by
      intro h
      rcases predAt_mem s4.nodes A l with h1 | ⟨h1, _⟩
      · rw [h1] at h; simp [tailId, headId] at h
      · have := hlow _ (List.mem_append_left _ h1); rw [← h.2] at this; simp [tailId] at this
    rw [if_neg this]; exact hr.base.tailFlag l
  · intro n hn
    have hcases : n ∈ A ++ B ∨ n = x := by
      simp only [List.mem_append, List.mem_cons] at hn ⊢
      rcases hn with h | h | h
      · exact Or.inl (Or.inl h)
      · exact Or.inr h
      · exact Or.inl (Or.inr h)
    rcases hcases with h | h
    · have ho := hr.nodes n h
      exact ⟨ho.lo, by rw [hinv.len]; exact ho.hi, by rw [hinv.key, hikey]; exact ho.key,
        by rw [hinv.lvl, hlevel]; exact ho.lvl, by rw [hinv.nlen, hinv.lvl]; exact ho.len⟩
    · subst h
      exact ⟨c.xlo, by rw [hinv.len]; exact hxlt, by rw [hinv.key, hikey, hxk]; exact hxkey,
        by rw [hinv.lvl, hlevel, hxlvl]; exact c.htle, by rw [hinv.nlen, hinv.lvl, hxlvl]; exact hxlen⟩
  · have hs := hr.sorted
    rw [List.pairwise_append] at hs ⊢
    refine ⟨?_, ?_, ?_⟩
    · apply List.Pairwise.imp _ hs.1
      intro a b hab; rw [hikey, hikey]; exact hab
    · rw [List.pairwise_cons]
      refine ⟨?_, ?_⟩
      · intro b hb; rw [hikey, hikey, hxk]; exact hB b hb
      · apply List.Pairwise.imp _ hs.2.1
        intro a b hab; rw [hikey, hikey]; exact hab
    · intro a ha b hb
      rw [hikey, hikey]
      rcases List.mem_cons.mp hb with rfl | hb'
      · rw [hxk]; exact hA a ha
      · exact hs.2.2 a ha b hb'
  · intro l hl
    have hLL : LL s'.nodes (A ++ x :: B) l
        = LL s4.nodes A l ++ (if l ≤ ht then x :: LL s4.nodes B l else LL s4.nodes B l) := by
      rw [LL_congr l (fun n _ => hinv.lvl n), LL_append, LL_cons, hxlvl]
    rw [hLL]
    have hpath0 := hr.paths l hl
    rw [LL_append] at hpath0
    by_cases hlh : l ≤ ht
    · rw [if_pos hlh]
      have hslot := c.pred_slot hl
      rw [path_congr (h := setNext s4.nodes (predAt s4.nodes A l) l (x, false)) (mk := nomk)]
      · have hnd := level_nodup (h := s4.nodes) hr.nodup hlow l
        have hx : x ∉ headId :: LL s4.nodes (A ++ B) l ++ [tailId] := by
          simp only [List.cons_append, List.mem_cons, List.mem_append, List.not_mem_nil, or_false, not_or]
          refine ⟨?_, ?_, ?_⟩
          · have := c.xlo; simp [headId]; omega
          · intro hm; exact c.xnot (mem_LL.mp hm).1
          · have := c.xlo; simp [tailId]; omega
        have := level_link (by simpa using hpath0) hnd hx (c.xlinks l hlh) hslot
        simpa using this
      · intro a _
        refine ⟨?_, rfl⟩
        rw [hinv.links, getNext_setNext hslot]
        by_cases ha : a = predAt s4.nodes A l
        · subst ha; simp; omega
        · have h1 : ¬ (l < ht + 1 ∧ a = predAt s4.nodes A l) := fun h => ha h.2
          have h2 : ¬ (predAt s4.nodes A l = a ∧ l = l) := fun h => ha h.1.symm
          rw [if_neg h1, if_neg h2]
    · rw [if_neg hlh]
      rw [path_congr (h := s4.nodes) (mk := nomk)]
      · simpa using hpath0
      · intro a _
        refine ⟨?_, rfl⟩
        rw [hinv.links]
        have : ¬ (l < ht + 1 ∧ a = predAt s4.nodes A l) := by omega
        rw [if_neg this]
  · rw [hst1, length_addAt]; exact hr.stats.len
  · intro g hg
    rw [hst1, getD_addAt _ _ _ _ (by rw [hr.stats.len]; omega), hr.stats.dist g hg,
      cntLevel_congr g (fun n _ => hinv.lvl n), cntLevel_append, cntLevel_append, cntLevel_cons, hxlvl]
    by_cases hgh : ht = g
    · simp [hgh]; omega
    · simp [hgh]
  · rw [hst2]; exact hr.stats.soft
  · rw [hst3]; exact hr.stats.frees
  · rw [hinv.len]; simp at hsize ⊢; omega
  · rw [hbuf]; exact hr.bufP
  · rw [hbuf]; exact hr.bufS
  · rw [hstuck]; exact hr.live

end NitroVerif.SkipSeq

namespace NitroVerif.SkipSeq
open NitroVerif

theorem predAt_congr {h h' : Heap} {A : List Nat} (l : Nat) (hl : ∀ n ∈ A, levelOf h' n = levelOf h n) :
    predAt h' A l = predAt h A l := by
  unfold predAt; rw [LL_congr l hl]

theorem succAt_congr {h h' : Heap} {B : List Nat} (l : Nat) (hl : ∀ n ∈ B, levelOf h' n = levelOf h n) :
    succAt h' B l = succAt h B l := by
  unfold succAt; rw [LL_congr l hl]

/-- `Insert4` when the key is present: nothing but the buffer changes -/
theorem insert4_hit {s : SL} {L0 : List Nat} {k : Int} (hr : Rep s L0) (hk : k ∈ L0.map (ikey s.nodes))
    (x ht f : Nat) :
    ∃ s' d, insert4 (.item k) x ht (f + 1) s = (s', d, false) ∧ SameBut s s' := by
  rcases hr.split k with ⟨A, B, hAB, hA, hB⟩
  rcases findPath_quiescent hr hAB hA hB with ⟨s3, he, hsb, _⟩
  subst hAB
  have hc := (hr.hit_iff hA hB).mpr hk
  have hne := hr.succ_ne_nil hB hc
  rw [if_pos hc] at he
  refine ⟨s3, succAt s.nodes B 0, ?_, hsb⟩
  rw [insert4, he]
  simp [hne]

/-- `Insert4` when the key is absent -/
theorem insert4_miss {s : SL} {A B : List Nat} {k : Int} {x ht : Nat} (hr : Rep s (A ++ B))
    (hA : ∀ a ∈ A, ikey s.nodes a < k) (hB : ∀ b ∈ B, k ≤ ikey s.nodes b)
    (hk : k ∉ (A ++ B).map (ikey s.nodes))
    (hht : ht ≤ s.level) (hxlo : 3 ≤ x) (hxnot : x ∉ A ++ B) (hxlt : x < s.nodes.length)
    (hxkey : keyOf s.nodes x = .item k) (hxlvl : levelOf s.nodes x = ht) (hxlen : nextLen s.nodes x = ht + 1)
    (hsize : (A ++ B).length + 4 ≤ s.nodes.length) (f : Nat) :
    ∃ s', insert4 (.item k) x ht (f + 1) s = (s', x, true) ∧ Rep s' (A ++ x :: B) ∧
      s'.nodes.length = s.nodes.length ∧ s'.level = s.level ∧
      (∀ m, keyOf s'.nodes m = keyOf s.nodes m ∧ levelOf s'.nodes m = levelOf s.nodes m) ∧
      (∀ m, m ∉ A ++ B → m ≠ headId → m ≠ x → ∀ l, getNext s'.nodes m l = getNext s.nodes m l) ∧
      s'.stats.nodeAllocs = s.stats.nodeAllocs + 1 ∧ (∀ b ∈ B, k < ikey s.nodes b) := by
  rcases findPath_quiescent hr rfl hA hB with ⟨s3, he, hsb, hbuf⟩
  have hc : ¬ compare (keyOf s.nodes (succAt s.nodes B 0)) (.item k) = 0 := fun h => hk ((hr.hit_iff hA hB).mp h)
  have hBgt := hr.miss_gt hB hc
  rw [if_neg hc] at he
  have hr3 : Rep s3 (A ++ B) := hr.of_sameBut hsb
  -- x.setNext(i, succs[i]) for i ≤ ht
  have hsn := setNexts_spec x (ht + 1) 0 s3 (by intro j _ h2; rw [hsb.nodes, hxlen]; omega)
  generalize hs4 : setNexts x (ht + 1) 0 s3 = s4 at hsn
  rcases hsn with ⟨n1, n2, n3, n4, n5, n6, n7⟩
  have hlv4 : ∀ m, levelOf s4.nodes m = levelOf s.nodes m := fun m => by rw [(n6 m).2.1, hsb.nodes]
  have hkey4 : ∀ m, keyOf s4.nodes m = keyOf s.nodes m := fun m => by rw [(n6 m).1, hsb.nodes]
  have hr4 : Rep s4 (A ++ B) := by
    apply hr3.congr (by rw [n5]; exact Nat.le_refl _) _ (by rw [n1]; exact Nat.le_refl _) (by rw [n1]; exact hr3.lvl) n2
      (by rw [n3]) (by rw [n3]) n4
    intro m hm
    refine ⟨(n6 m).1, (n6 m).2.1, (n6 m).2.2, fun l => ?_⟩
    rw [n7 m l]
    have : ¬ (m = x ∧ 0 ≤ l ∧ l < 0 + (ht + 1)) := by
      intro h
      rcases hm with h1 | h1 | h1
      · exact hxnot (h.1 ▸ h1)
      · rw [h.1] at h1; rw [h1] at hxlo; simp [headId] at hxlo
      · rw [h.1] at h1; rw [h1] at hxlo; simp [tailId] at hxlo
    rw [if_neg this]
  have hbuf4 : BufOK s4 s4.nodes A B s4.level := by
    intro j hj
    rw [n1, hsb.level] at hj
    have := hbuf j hj
    rw [n3, predAt_congr j (fun n _ => hlv4 n), succAt_congr j (fun n _ => hlv4 n)]
    exact this
  have hctx : InsCtx s4 A B x ht := by
    refine ⟨hr4, by rw [n1, hsb.level]; exact hht, hxlo, hxnot, ?_, hbuf4⟩
    intro l hl
    rw [n7 x l, if_pos ⟨rfl, Nat.zero_le _, by omega⟩, succAt_congr l (fun n _ => hlv4 n)]
    rw [(hbuf l (by omega)).2]
  have hmax0 : 0 ≤ Gen.maxLevel := Nat.zero_le _
  have hcas := hctx.pred_link hmax0
  have hp0 : s4.buf.preds.getD 0 0 = predAt s4.nodes A 0 := (hbuf4 0 (Nat.zero_le _)).1
  have hs0 : s4.buf.succs.getD 0 0 = succAt s4.nodes B 0 := (hbuf4 0 (Nat.zero_le _)).2
  have hinv1 : LinkInv s4.nodes A x (0 + 1) (setNext s4.nodes (predAt s4.nodes A 0) 0 (x, false)) :=
    (LinkInv.zero s4.nodes A x).step (hctx.pred_slot hmax0)
  have hlu := linkUpper_spec (.item k) hctx ht 1
    { s4 with nodes := setNext s4.nodes (predAt s4.nodes A 0) 0 (x, false) }
    (ht + 1 + s4.nodes.length) (by omega) hinv1 rfl (by omega)
  generalize hs5 : linkUpper (.item k) x ht (ht + 1 + s4.nodes.length)
    { s4 with nodes := setNext s4.nodes (predAt s4.nodes A 0) 0 (x, false) } 1 = s5 at hlu
  rcases hlu with ⟨l1, l2, l3, l4, l5⟩
  simp only at l2 l3 l4 l5
  have hfin : insert4 (.item k) x ht (f + 1) s =
      ({ s5 with stats := { s5.stats with nodeAllocs := s5.stats.nodeAllocs + 1,
                                          levelNodesCount := addAt s5.stats.levelNodesCount ht 1 } }, x, true) := by
    rw [insert4, he]
    simp only [bne_self_eq_false, Bool.false_eq_true, if_false, hs4, hp0, hs0, dcasNext_ok hcas,
      Bool.not_true, hs5]
  refine ⟨_, hfin, ?_, ?_, ?_, ?_, ?_, ?_, hBgt⟩
  · refine rep_after_link (k := k) hctx ?_ ?_ ?_ ?_ ?_ ?_ ?_ ?_ ?_ ?_ ?_ ?_ ?_ ?_
    · rw [n5, hsb.nodes]; exact hxlt
    · rw [hkey4]; exact hxkey
    · rw [hlv4]; exact hxlvl
    · rw [(n6 x).2.2, hsb.nodes]; exact hxlen
    · intro a ha; rw [ikey_congr (hkey4 a)]; exact hA a ha
    · intro b hb; rw [ikey_congr (hkey4 b)]; exact hBgt b hb
    · rw [n5, hsb.nodes]; exact hsize
    · exact l1
    · exact l2
    · exact l4
    · exact l5
    · simp only; rw [l3]
    · simp only; rw [l3]
    · simp only; rw [l3]
  · simp only; rw [l1.len, n5, hsb.nodes]
  · simp only; rw [l2, n1, hsb.level]
  · intro m; simp only
    exact ⟨by rw [l1.key, hkey4], by rw [l1.lvl, hlv4]⟩
  · intro m hm1 hm2 hm3 l
    simp only
    rw [l1.links, n7]
    have h1 : ¬ (l < ht + 1 ∧ m = predAt s4.nodes A l) := by
      intro h
      rcases predAt_mem s4.nodes A l with h2 | ⟨h2, _⟩
      · exact hm2 (h.2.trans h2)
      · exact hm1 (by rw [h.2]; exact List.mem_append_left _ h2)
    have h2 : ¬ (m = x ∧ 0 ≤ l ∧ l < 0 + (ht + 1)) := fun h => hm3 h.1
    rw [if_neg h1, if_neg h2, hsb.nodes]
  · simp only; rw [l3, n2, hsb.stats]

end NitroVerif.SkipSeq
