/-
  The abstract access barrier: `acquire`, `release`, `flush`, `cleanup` and the token invariant.
-/
import NitroVerif.Lemmas.MvccConcInvThr

namespace NitroVerif.MvccConc
open NitroVerif

/-! ### takeWhile -/

theorem takeWhile_length_lt {α : Type} (p : α → Bool) : ∀ (l : List α) (c : α), l.getLast? = some c → p c = false →
    (l.takeWhile p).length < l.length
  | [], c, h, _ => by simp at h
  | [x], c, h, hp => by
    simp at h; subst h
    simp [List.takeWhile_cons, hp]
  | x :: y :: r, c, h, hp => by
    have h' : (y :: r).getLast? = some c := by simpa [List.getLast?_cons_cons] using h
    have ih := takeWhile_length_lt p (y :: r) c h' hp
    rw [List.takeWhile_cons]
    split
    · simp only [List.length_cons] at ih ⊢; omega
    · simp

theorem takeWhile_stop {α : Type} (p : α → Bool) : ∀ (l : List α) (s : α),
    l[(l.takeWhile p).length]? = some s → p s = false
  | [], s, h => by simp at h
  | x :: xs, s, h => by
    rw [List.takeWhile_cons] at h
    by_cases hx : p x = true
    · simp only [hx, if_true, List.length_cons, List.getElem?_cons_succ] at h
      exact takeWhile_stop p xs s h
    · simp only [hx] at h
      simp at h; subst h; simpa using hx

theorem takeWhile_all {α : Type} (p : α → Bool) : ∀ (l : List α) (i : Nat) (s : α),
    i < (l.takeWhile p).length → l[i]? = some s → p s = true
  | [], i, s, h, _ => by simp at h
  | x :: xs, i, s, h, hg => by
    rw [List.takeWhile_cons] at h
    by_cases hx : p x = true
    · simp only [hx, if_true, List.length_cons] at h
      cases i with
      | zero => simp at hg; subst hg; exact hx
      | succ i => simp at hg; exact takeWhile_all p xs i s (by omega) hg
    · simp [hx] at h

/-! ### sessions after a barrier operation -/

theorem relSess_get {sess : List Sess} {tok : Nat} {h : Holder} {i : Nat} {s' : Sess}
    (hg : (relSess sess tok h)[i]? = some s') :
    ∃ s, sess[i]? = some s ∧ s'.flushed = s.flushed ∧ s'.list = s.list ∧
      s'.holders = if tok = i then s.holders.erase h else s.holders := by
  unfold relSess at hg
  rw [List.getElem?_modify] at hg
  cases hs : sess[i]? with
  | none => rw [hs] at hg; simp at hg
  | some s =>
    rw [hs] at hg; simp at hg
    refine ⟨s, rfl, ?_⟩
    by_cases he : tok = i
    · simp [he] at hg ⊢; subst hg; simp
    · simp [he] at hg ⊢; subst hg; simp

theorem relSess_get_of {sess : List Sess} (tok : Nat) (h : Holder) {i : Nat} {s : Sess} (hg : sess[i]? = some s) :
    (relSess sess tok h)[i]? =
      some { s with holders := if tok = i then s.holders.erase h else s.holders } := by
  unfold relSess
  rw [List.getElem?_modify, hg]
  by_cases he : tok = i <;> simp [he]

theorem relSess_length (sess : List Sess) (tok : Nat) (h : Holder) : (relSess sess tok h).length = sess.length := by
  unfold relSess; simp

theorem acqSess_get {sess : List Sess} {h : Holder} {i : Nat} {s' : Sess}
    (hg : (acqSess sess h)[i]? = some s') :
    ∃ s, sess[i]? = some s ∧ s'.flushed = s.flushed ∧ s'.list = s.list ∧
      s'.holders = if sess.length - 1 = i then s.holders ++ [h] else s.holders := by
  unfold acqSess at hg
  rw [List.getElem?_modify] at hg
  cases hs : sess[i]? with
  | none => rw [hs] at hg; simp at hg
  | some s =>
    rw [hs] at hg; simp at hg
    refine ⟨s, rfl, ?_⟩
    by_cases he : sess.length - 1 = i
    · simp [he] at hg ⊢; subst hg; simp
    · simp [he] at hg ⊢; subst hg; simp

theorem acqSess_get_of {sess : List Sess} (h : Holder) {i : Nat} {s : Sess} (hg : sess[i]? = some s) :
    (acqSess sess h)[i]? =
      some { s with holders := if sess.length - 1 = i then s.holders ++ [h] else s.holders } := by
  unfold acqSess
  rw [List.getElem?_modify, hg]
  by_cases he : sess.length - 1 = i <;> simp [he]

theorem acqSess_length (sess : List Sess) (h : Holder) : (acqSess sess h).length = sess.length := by
  unfold acqSess; simp

theorem flushSess_length (sess : List Sess) (L : List Nat) : (flushSess sess L).length = sess.length + 1 := by
  unfold flushSess; simp

theorem flushSess_get {sess : List Sess} {L : List Nat} {i : Nat} {s' : Sess}
    (hg : (flushSess sess L)[i]? = some s') :
    (i = sess.length ∧ s' = ⟨[], false, []⟩) ∨
    ∃ s, sess[i]? = some s ∧ s'.holders = s.holders ∧
      ((sess.length - 1 = i ∧ s'.flushed = true ∧ s'.list = L) ∨
       (sess.length - 1 ≠ i ∧ s'.flushed = s.flushed ∧ s'.list = s.list)) := by
  unfold flushSess at hg
  rw [List.getElem?_append] at hg
  simp only [List.length_modify] at hg
  by_cases hi : i < sess.length
  · simp only [hi, if_true] at hg
    rw [List.getElem?_modify] at hg
    right
    cases hs : sess[i]? with
    | none => rw [hs] at hg; simp at hg
    | some s =>
      rw [hs] at hg; simp at hg
      refine ⟨s, rfl, ?_⟩
      by_cases he : sess.length - 1 = i
      · simp [he] at hg ⊢; subst hg; simp
      · simp [he] at hg ⊢; subst hg; simp
  · simp only [hi, if_false] at hg
    left
    have : i - sess.length = 0 := by
      cases hk : i - sess.length with
      | zero => rfl
      | succ k => rw [hk] at hg; simp at hg
    rw [this] at hg; simp at hg
    exact ⟨by omega, hg.symm⟩

theorem flushSess_get_of {sess : List Sess} (L : List Nat) {i : Nat} {s : Sess} (hg : sess[i]? = some s) :
    ∃ s', (flushSess sess L)[i]? = some s' ∧ s'.holders = s.holders ∧
      (sess.length - 1 ≠ i → s'.list = s.list) ∧ (sess.length - 1 = i → s'.list = L) := by
  have hi : i < sess.length := (List.getElem?_eq_some_iff.mp hg).1
  unfold flushSess
  rw [List.getElem?_append]
  simp only [List.length_modify, hi, if_true]
  rw [List.getElem?_modify, hg]
  by_cases he : sess.length - 1 = i
  · exact ⟨{ s with flushed := true, list := L }, by simp [he], rfl, fun h => absurd he h, fun _ => rfl⟩
  · exact ⟨s, by simp [he], rfl, fun _ => rfl, fun h => absurd h he⟩

/-! ### cleanup -/

theorem TokPre.last {threads : List Pc} {sess : List Sess} {iters : List ((Nat × Nat) × Iter)} {fs : Nat}
    (h : TokPre threads sess iters fs) :
    ∃ c, sess.getLast? = some c ∧ sess[sess.length - 1]? = some c ∧ c.flushed = false ∧ c.list = [] := by
  have hlt := h.lt
  have hne : sess.length - 1 < sess.length := by omega
  refine ⟨sess[sess.length - 1], ?_, List.getElem?_eq_getElem hne, ?_⟩
  · rw [List.getLast?_eq_getElem?, List.getElem?_eq_getElem hne]
  · have hf := h.flushed (sess.length - 1) _ (List.getElem?_eq_getElem hne)
    have hfl : sess[sess.length - 1].flushed = false := by
      cases hb : sess[sess.length - 1].flushed
      · rfl
      · have := hf.mp hb; omega
    exact ⟨hfl, h.nolist _ _ (List.getElem?_eq_getElem hne) hfl⟩

/-- `cleanup` re-establishes the fixpoint -/
theorem TokPre.cleanup {threads : List Pc} {sess : List Sess} {iters : List ((Nat × Nat) × Iter)} {fs : Nat}
    (h : TokPre threads sess iters fs) : TokInv threads sess iters (fs + (readySess sess fs).length) := by
  obtain ⟨c, hc, hci, hcf, _⟩ := h.last
  have hlast : (sess.drop fs).getLast? = some c := by rw [getLast?_drop _ _ h.lt]; exact hc
  have hterm : Sess.terminated c = false := by simp [Sess.terminated, hcf]
  have hlen := takeWhile_length_lt Sess.terminated (sess.drop fs) c hlast hterm
  simp only [List.length_drop] at hlen
  refine ⟨⟨h.thr, h.it, h.keys, ?_, ?_, h.flushed, h.nolist, h.conv⟩, ?_⟩
  · intro i s hi hs
    by_cases hlt : i < fs
    · exact h.destr i s hlt hs
    · have hd : (sess.drop fs)[i - fs]? = some s := by
        rw [List.getElem?_drop]; rw [show fs + (i - fs) = i by omega]; exact hs
      have := takeWhile_all Sess.terminated (sess.drop fs) (i - fs) s (by unfold readySess at hi; omega) hd
      simp [Sess.terminated] at this
      exact this.2
  · unfold readySess; omega
  · intro s hs
    have hd : (sess.drop fs)[((sess.drop fs).takeWhile Sess.terminated).length]? = some s := by
      rw [List.getElem?_drop]; exact hs
    exact takeWhile_stop Sess.terminated _ s hd

/-! ### release -/

/-- dropping the token `h` of session `tok` together with the claim behind it -/
theorem TokPre.release {threads threads' : List Pc} {sess : List Sess} {iters iters' : List ((Nat × Nat) × Iter)}
    {fs tok : Nat} {h : Holder} (hp : TokPre threads sess iters fs)
    (hthr : ∀ (t' : Nat) (pc : Pc) (tk : Nat), threads'[t']? = some pc → pc.tok = some tk →
              threads[t']? = some pc ∧ Holder.thr t' ≠ h)
    (hit : ∀ (t' j : Nat) (it : Iter), ((t', j), it) ∈ iters' → ((t', j), it) ∈ iters ∧ Holder.it t' j ≠ h)
    (hkeys : iters'.Pairwise (fun a b => a.1 ≠ b.1))
    (hcl : ∀ (i : Nat) (h' : Holder), h' ≠ h → claims threads iters i h' → claims threads' iters' i h')
    (huniq : ∀ i, claims threads iters i h → i = tok) :
    TokPre threads' (relSess sess tok h) iters' fs := by
  refine ⟨?_, ?_, hkeys, ?_, by rw [relSess_length]; exact hp.lt, ?_, ?_, ?_⟩
  · intro t' pc tk hg htk
    have ⟨hg', hne⟩ := hthr t' pc tk hg htk
    obtain ⟨s, hs, hm⟩ := hp.thr t' pc tk hg' htk
    refine ⟨_, relSess_get_of tok h hs, ?_⟩
    simp only
    split
    · exact (List.mem_erase_of_ne hne).mpr hm
    · exact hm
  · intro t' j it hm
    have ⟨hm', hne⟩ := hit t' j it hm
    obtain ⟨s, hs, hmem⟩ := hp.it t' j it hm'
    refine ⟨_, relSess_get_of tok h hs, ?_⟩
    simp only
    split
    · exact (List.mem_erase_of_ne hne).mpr hmem
    · exact hmem
  · intro i s' hi hg
    obtain ⟨s, hs, _, _, hh⟩ := relSess_get hg
    have := hp.destr i s hi hs
    rw [hh, this]; simp
  · intro i s' hg
    obtain ⟨s, hs, hf, _, _⟩ := relSess_get hg
    rw [hf, relSess_length]; exact hp.flushed i s hs
  · intro i s' hg hfl
    obtain ⟨s, hs, hf, hl, _⟩ := relSess_get hg
    rw [hl]; exact hp.nolist i s hs (by rw [← hf]; exact hfl)
  · intro i s' hg
    obtain ⟨s, hs, _, _, hh⟩ := relSess_get hg
    have ⟨hnd, hcs⟩ := hp.conv i s hs
    rw [hh]
    by_cases he : tok = i
    · simp only [he, if_true]
      refine ⟨hnd.erase h, ?_⟩
      intro h' hm
      have := (List.Nodup.mem_erase_iff hnd).mp hm
      exact hcl i h' this.1 (hcs h' this.2)
    · simp only [he, if_false]
      refine ⟨hnd, ?_⟩
      intro h' hm
      have hne : h' ≠ h := by
        intro heq; subst heq
        exact he (huniq i (hcs h' hm)).symm
      exact hcl i h' hne (hcs h' hm)

/-! ### acquire -/

theorem TokInv.acquire {threads threads' : List Pc} {sess : List Sess} {iters iters' : List ((Nat × Nat) × Iter)}
    {fs : Nat} {h : Holder} (hp : TokInv threads sess iters fs)
    (hthr : ∀ (t' : Nat) (pc : Pc) (tk : Nat), threads'[t']? = some pc → pc.tok = some tk →
              threads[t']? = some pc ∨ (Holder.thr t' = h ∧ tk = sess.length - 1))
    (hit : ∀ (t' j : Nat) (it : Iter), ((t', j), it) ∈ iters' →
              ((t', j), it) ∈ iters ∨ (Holder.it t' j = h ∧ it.tok = sess.length - 1))
    (hkeys : iters'.Pairwise (fun a b => a.1 ≠ b.1))
    (hcl : ∀ (i : Nat) (h' : Holder), claims threads iters i h' → claims threads' iters' i h')
    (hnew : claims threads' iters' (sess.length - 1) h)
    (hfresh : ∀ i, ¬ claims threads iters i h) :
    TokInv threads' (acqSess sess h) iters' fs := by
  obtain ⟨c, _, hci, hcf, _⟩ := hp.toTokPre.last
  refine ⟨⟨?_, ?_, hkeys, ?_, by rw [acqSess_length]; exact hp.lt, ?_, ?_, ?_⟩, ?_⟩
  · intro t' pc tk hg htk
    rcases hthr t' pc tk hg htk with hg' | ⟨he, htk'⟩
    · obtain ⟨s, hs, hm⟩ := hp.thr t' pc tk hg' htk
      refine ⟨_, acqSess_get_of h hs, ?_⟩
      simp only; split
      · exact List.mem_append_left _ hm
      · exact hm
    · subst htk'
      refine ⟨_, acqSess_get_of h hci, ?_⟩
      simp [he]
  · intro t' j it hm
    rcases hit t' j it hm with hm' | ⟨he, htk'⟩
    · obtain ⟨s, hs, hmem⟩ := hp.it t' j it hm'
      refine ⟨_, acqSess_get_of h hs, ?_⟩
      simp only; split
      · exact List.mem_append_left _ hmem
      · exact hmem
    · rw [htk']
      refine ⟨_, acqSess_get_of h hci, ?_⟩
      simp [he]
  · intro i s' hi hg
    obtain ⟨s, hs, _, _, hh⟩ := acqSess_get hg
    have hlt := hp.lt
    have : sess.length - 1 ≠ i := by omega
    rw [hh]; simp only [this, if_false]
    exact hp.destr i s hi hs
  · intro i s' hg
    obtain ⟨s, hs, hf, _, _⟩ := acqSess_get hg
    rw [hf, acqSess_length]; exact hp.flushed i s hs
  · intro i s' hg hfl
    obtain ⟨s, hs, hf, hl, _⟩ := acqSess_get hg
    rw [hl]; exact hp.nolist i s hs (by rw [← hf]; exact hfl)
  · intro i s' hg
    obtain ⟨s, hs, _, _, hh⟩ := acqSess_get hg
    have ⟨hnd, hcs⟩ := hp.conv i s hs
    rw [hh]
    by_cases he : sess.length - 1 = i
    · simp only [he, if_true]
      constructor
      · rw [List.nodup_append]
        refine ⟨hnd, by simp, ?_⟩
        intro a ha b hb
        simp at hb; subst hb
        intro heq; subst heq
        exact hfresh i (hcs a ha)
      · intro h' hm
        rcases List.mem_append.mp hm with hm | hm
        · exact hcl i h' (hcs h' hm)
        · simp at hm; subst hm; rw [← he]; exact hnew
    · simp only [he, if_false]
      exact ⟨hnd, fun h' hm => hcl i h' (hcs h' hm)⟩
  · intro s' hg
    obtain ⟨s, hs, hf, _, hh⟩ := acqSess_get hg
    have := hp.fix s hs
    simp only [Sess.terminated, Bool.and_eq_false_iff] at this ⊢
    rcases this with h1 | h1
    · left; rw [hf]; exact h1
    · right
      rw [hh]; split
      · simp
      · exact h1

/-! ### flush -/

theorem TokPre.flush {threads : List Pc} {sess : List Sess} {iters : List ((Nat × Nat) × Iter)} {fs : Nat}
    (hp : TokPre threads sess iters fs) (L : List Nat) : TokPre threads (flushSess sess L) iters fs := by
  have hlt := hp.lt
  refine ⟨?_, ?_, hp.keys, ?_, by rw [flushSess_length]; omega, ?_, ?_, ?_⟩
  · intro t' pc tk hg htk
    obtain ⟨s, hs, hm⟩ := hp.thr t' pc tk hg htk
    obtain ⟨s', hs', hh, _⟩ := flushSess_get_of L hs
    exact ⟨s', hs', by rw [hh]; exact hm⟩
  · intro t' j it hm
    obtain ⟨s, hs, hmem⟩ := hp.it t' j it hm
    obtain ⟨s', hs', hh, _⟩ := flushSess_get_of L hs
    exact ⟨s', hs', by rw [hh]; exact hmem⟩
  · intro i s' hi hg
    rcases flushSess_get hg with ⟨_, he⟩ | ⟨s, hs, hh, _⟩
    · subst he; rfl
    · rw [hh]; exact hp.destr i s hi hs
  · intro i s' hg
    rw [flushSess_length]
    rcases flushSess_get hg with ⟨hi, he⟩ | ⟨s, hs, _, ⟨hi, hf, _⟩ | ⟨hi, hf, _⟩⟩
    · subst he; simp; omega
    · have : i < sess.length := (List.getElem?_eq_some_iff.mp hs).1
      simp [hf]; omega
    · have := hp.flushed i s hs
      have hil : i < sess.length := (List.getElem?_eq_some_iff.mp hs).1
      rw [hf, this]; omega
  · intro i s' hg hfl
    rcases flushSess_get hg with ⟨_, he⟩ | ⟨s, hs, _, ⟨_, hf, _⟩ | ⟨_, hf, hl⟩⟩
    · subst he; rfl
    · rw [hf] at hfl; cases hfl
    · rw [hl]; exact hp.nolist i s hs (by rw [← hf]; exact hfl)
  · intro i s' hg
    rcases flushSess_get hg with ⟨_, he⟩ | ⟨s, hs, hh, _⟩
    · subst he; simp
    · rw [hh]; exact hp.conv i s hs

end NitroVerif.MvccConc
