import NitroVerif.Lemmas.SkipConcLinCall
/-!
  The EXPLICIT sequential history of a run (computable): `linearization n as : List Entry`.

  An `Entry` is a linearized call: thread, entry position of the call (the pair identifies the call), kind
  (`Kind.ins k`, `Kind.del k`, `Kind.look k`) and Boolean result.  The history is built position by position:
  `bucket n as i` = the READS placed at state `i` (completed Insert-false / Delete-false / Lookup calls whose chosen
  instant is `i` — the first position of their interval at which the answer is true of the abstract set, found with
  the decidable `absB`), followed by the UPDATE made by action `i`, if that action is a successful publish / winning
  level-0 mark (recognised by its effect on the heap).  `linearization n as` is the concatenation of the buckets
  `0 … as.length`.

  This file: the definitions and the characterisation of each ingredient
  (`startOf_inCall`, `retAt_of_call` / `call_of_retAt`, `readPoint_spec`, `upd_class`).
-/
namespace NitroVerif.SkipConc
open NitroVerif

/-! ### decidable versions of `unmarked0` and `absOf` -/

def unmarked0B (h : Heap) (n : Nat) : Bool :=
  match word? h n 0 with
  | some (_, false) => true
  | _ => false

theorem unmarked0B_iff (h : Heap) (n : Nat) : unmarked0B h n = true ↔ unmarked0 h n := by
  unfold unmarked0B unmarked0
  cases hw : word? h n 0 with
  | none => simp
  | some w =>
    obtain ⟨p, m⟩ := w
    cases m <;> simp

def absB (h : Heap) (k : Nat) : Bool :=
  (List.range h.length).any fun n => unmarked0B h n && (keyOf h n == .fin k)

theorem absB_iff (h : Heap) (k : Nat) : absB h k = true ↔ absOf h k := by
  unfold absB absOf
  rw [List.any_eq_true]
  constructor
  · rintro ⟨m, _, hm⟩
    simp only [Bool.and_eq_true, beq_iff_eq] at hm
    exact ⟨m, (unmarked0B_iff h m).mp hm.1, hm.2⟩
  · rintro ⟨m, hu, hk⟩
    refine ⟨m, List.mem_range.mpr (unmarked0_lt hu), ?_⟩
    simp only [Bool.and_eq_true, beq_iff_eq]
    exact ⟨(unmarked0B_iff h m).mpr hu, hk⟩

theorem absB_false_iff (h : Heap) (k : Nat) : absB h k = false ↔ ¬ absOf h k := by
  rw [← absB_iff]; cases absB h k <;> simp

/-! ### the entry position of the call a thread is in -/

/-- the position of the last accepted call entry of thread `t` before position `j` (0 if none) -/
def startOf (n : Nat) (as : List Action) (t : Nat) : Nat → Nat
  | 0 => 0
  | j + 1 =>
    match as[j]?, thrAt n as t j with
    | some (.start t' _), some th => if t' = t ∧ isIdle th.pc = true then j else startOf n as t j
    | _, _ => startOf n as t j

theorem startOf_inCall {n : Nat} {as : List Action} {t : Nat} {op : Op} {s : Nat} :
    ∀ {j : Nat}, InCall n as t op s j → startOf n as t j = s := by
  intro j
  induction j with
  | zero => intro h; exact absurd h.2.1 (by omega)
  | succ j ih =>
    intro h
    by_cases hsj : s = j
    · subst hsj
      obtain ⟨haj, th, hth, hidle⟩ := h.1
      simp only [startOf, haj, hth, hidle, and_self, if_true]
    · have hsj' : s < j := by have := h.2.1; omega
      have h0 := h.prev hsj'
      obtain ⟨th, hth, hb⟩ := h0.busy
      have hrec := ih h0
      unfold startOf
      split
      · rename_i t' op' th' h1 h2
        rw [hth] at h2
        have : th = th' := by simpa using h2
        subst this
        rw [if_neg (by rw [hb]; simp)]
        exact hrec
      · exact hrec

/-- the kind of the call entered at action `s` -/
def opAt (as : List Action) (s : Nat) : Kind :=
  match as[s]? with
  | some (.start _ op) => opKind op
  | _ => .none

/-! ### completed calls, computed -/

/-- the call returned by action `e`, if any: thread, entry position, kind, printed line -/
def retAt (n : Nat) (as : List Action) (e : Nat) : Option (Nat × Nat × Kind × String) :=
  match as[e]? with
  | some (.step t) =>
    match thrAt n as t e, thrAt n as t (e + 1) with
    | some th, some th' =>
      if isIdle th.pc = false ∧ isIdle th'.pc = true then
        some (t, startOf n as t e, opAt as (startOf n as t e), ((stAt n as e).step t).2)
      else none
    | _, _ => none
  | _ => none

theorem retAt_of_call {n : Nat} {as : List Action} {t : Nat} {op : Op} {s e : Nat} {out : String}
    (c : Call n as t op s e out) : retAt n as e = some (t, s, opKind op, out) := by
  obtain ⟨th, hth, hb⟩ := c.inCall.busy
  obtain ⟨th', hth', hidle⟩ := c.idle
  have hop : opAt as s = opKind op := by unfold opAt; rw [c.inCall.1.1]
  simp only [retAt, c.step, hth, hth', hb, hidle, and_self, if_true, startOf_inCall c.inCall, hop, c.out]

theorem call_of_retAt {n : Nat} {as : List Action} {e t s : Nat} {K : Kind} {out : String}
    (h : retAt n as e = some (t, s, K, out)) : ∃ op, Call n as t op s e out ∧ K = opKind op := by
  unfold retAt at h
  split at h
  · rename_i t' haj
    split at h
    · rename_i th th' hth hth'
      split at h
      · rename_i hc
        simp only [Option.some.injEq, Prod.mk.injEq] at h
        obtain ⟨rfl, hs, hK, ho⟩ := h
        obtain ⟨op, s', hin⟩ := busy_inCall n as e t' ⟨th, hth, hc.1⟩
        have hs' := startOf_inCall hin
        rw [hs'] at hs hK
        subst hs
        refine ⟨op, ⟨hin, haj, ⟨th', hth', hc.2⟩, ho⟩, ?_⟩
        rw [← hK]; unfold opAt; rw [hin.1.1]
      · simp at h
    · simp at h
  · simp at h

/-! ### the instant chosen for a read -/

/-- the first position in `(s, e]` at which membership of `k` in the abstract set is `want` (default `e`) -/
def readPoint (n : Nat) (as : List Action) (s e k : Nat) (want : Bool) : Nat :=
  ((List.range (e + 1)).find? fun q => decide (s < q) && (absB (heapAt n as q) k == want)).getD e

theorem readPoint_spec {n : Nat} {as : List Action} {s e k : Nat} {want : Bool}
    (h : ∃ q, s < q ∧ q ≤ e ∧ absB (heapAt n as q) k = want) :
    s < readPoint n as s e k want ∧ readPoint n as s e k want ≤ e ∧
      absB (heapAt n as (readPoint n as s e k want)) k = want := by
  unfold readPoint
  cases hf : (List.range (e + 1)).find? fun q => decide (s < q) && (absB (heapAt n as q) k == want) with
  | none =>
    obtain ⟨q, h1, h2, h3⟩ := h
    have := List.find?_eq_none.mp hf q (List.mem_range.mpr (by omega))
    simp [h1, h3] at this
  | some r =>
    have h1 := List.find?_some hf
    have h2 := List.mem_range.mp (List.mem_of_find?_eq_some hf)
    simp only [Bool.and_eq_true, decide_eq_true_eq, beq_iff_eq] at h1
    exact ⟨h1.1, by simp only [Option.getD_some]; omega, h1.2⟩

/-! ### entries -/

/-- a linearized call: `(t, s)` identifies the call (thread, position of its entry) -/
structure Entry where
  t : Nat
  s : Nat
  kind : Kind
  res : Bool
deriving DecidableEq, Repr

/-- the update made by action `i`, recognised by its effect: INS_PUBLISH that lengthens the heap, SOFT_MARK after
    which the node is no longer unmarked at level 0 -/
def updAt (n : Nat) (as : List Action) (i : Nat) : List Entry :=
  match as[i]? with
  | some (.step t) =>
    match thrAt n as t i with
    | some th =>
      match th.pc with
      | .insPublish k _ =>
        if (heapAt n as (i + 1)).length = (heapAt n as i).length + 1 then [⟨t, startOf n as t i, .ins k, true⟩]
        else []
      | .softMark k nd _ _ _ =>
        if unmarked0B (heapAt n as i) nd = true ∧ unmarked0B (heapAt n as (i + 1)) nd = false then
          [⟨t, startOf n as t i, .del k, true⟩]
        else []
      | _ => []
    | none => []
  | _ => []

/-- every action, with the update entry computed for it -/
theorem upd_class (n : Nat) (as : List Action) (p : Nat) :
    (UnmSame (heapAt n as p) (heapAt n as (p + 1)) ∧ updAt n as p = []) ∨
    (∃ t op s k lvl, InCall n as t op s p ∧ op = .ins k lvl ∧ InsPoint n as t k p ∧
      updAt n as p = [⟨t, s, .ins k, true⟩] ∧ NoOwnChange n as t s p) ∨
    (∃ t s k, InCall n as t (.del k) s p ∧ DelPoint n as t k p ∧ updAt n as p = [⟨t, s, .del k, true⟩] ∧
      NoOwnChange n as t s p) := by
  have hI := stAt_invR n as p
  have e1 := heap_ext_succ n as p
  rcases step_class n as p with u | ⟨t, th, k, lvl, haj, hth, hpc, pe⟩ |
      ⟨t, th, item, nd, next, marked, haj, hth, hpc, me⟩
  · refine .inl ⟨u, ?_⟩
    unfold updAt
    split
    · split
      · split
        · rw [if_neg (by rw [u.1]; omega)]
        · rename_i k nd _ _ _ _
          have : ¬ (unmarked0B (heapAt n as p) nd = true ∧ unmarked0B (heapAt n as (p + 1)) nd = false) := by
            rintro ⟨h1, h2⟩
            have := (unmarked0B_iff _ _).mpr ((u.2 nd).mpr ((unmarked0B_iff _ _).mp h1))
            rw [h2] at this; simp at this
          rw [if_neg this]
        · rfl
      · rfl
    · rfl
  · have hb : BusyAt n as t p := ⟨th, hth, by rw [hpc]; rfl⟩
    obtain ⟨op, s, hc⟩ := busy_inCall n as p t hb
    have hev := ev_invariant n as p t op s th hc hth
    rw [hpc] at hev
    obtain ⟨lvl', rfl⟩ := opKind_ins hev.1
    refine .inr (.inl ⟨t, _, s, k, lvl', hc, rfl, ⟨haj, (pe.abs e1).1, (pe.abs e1).2⟩, ?_, hev.2⟩)
    simp only [updAt, haj, hth, hpc, pe.1, if_true, startOf_inCall hc]
  · have hb : BusyAt n as t p := ⟨th, hth, by rw [hpc]; rfl⟩
    obtain ⟨op, s, hc⟩ := busy_inCall n as p t hb
    have hev := ev_invariant n as p t op s th hc hth
    rw [hpc] at hev
    have hop := opKind_del hev.1
    subst hop
    have hab := me.abs hI.1.1 hI.2 e1 hev.2.1
    have hno : NoOwnChange n as t s p := by
      cases marked with
      | false => exact (hev.2.2.1 rfl).1
      | true => exact absurd me.2.1 (not_unmarked0_of_marked0 (hev.2.2.2 rfl).1)
    refine .inr (.inr ⟨t, s, item, hc, ⟨haj, hab.1, hab.2⟩, ?_, hno⟩)
    have h1 : unmarked0B (heapAt n as p) nd = true := (unmarked0B_iff _ _).mpr me.2.1
    have h2 : unmarked0B (heapAt n as (p + 1)) nd = false := by
      cases hu : unmarked0B (heapAt n as (p + 1)) nd with
      | false => rfl
      | true => exact absurd ((unmarked0B_iff _ _).mp hu) (not_unmarked0_of_marked0 me.2.2.1)
    simp only [updAt, haj, hth, hpc, h1, h2, and_self, if_true, startOf_inCall hc]

end NitroVerif.SkipConc
