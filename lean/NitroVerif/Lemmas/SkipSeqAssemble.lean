import NitroVerif.Lemmas.SkipSeqBuild
/-!
  `Builder.Assemble`, the consequences: statistics are the sums, every level walks to the
  concatenation of the segments, and with ascending keys the result is a well-formed skiplist
  (representation invariant), on which every later operation behaves as on a list built by inserts.
-/
namespace NitroVerif.SkipSeq
open NitroVerif

theorem addDist_length : ∀ (a b : List Int), a.length = b.length → (addDist a b).length = a.length := by
  intro a
  induction a with
  | nil => intro b _; cases b <;> simp [addDist]
  | cons x r ih =>
    intro b hb
    cases b with
    | nil => simp at hb
    | cons y t => simp [addDist, ih t (by simpa using hb)]

theorem addDist_getD : ∀ (a b : List Int) (g : Nat), a.length = b.length →
    (addDist a b).getD g 0 = a.getD g 0 + b.getD g 0 := by
  intro a
  induction a with
  | nil => intro b g hb; cases b <;> simp_all [addDist]
  | cons x r ih =>
    intro b g hb
    cases b with
    | nil => simp at hb
    | cons y t =>
      cases g with
      | zero => simp [addDist]
      | succ g => simp only [addDist, List.getD_cons_succ]; exact ih t g (by simpa using hb)

theorem allNodes_nil : allNodes [] = [] := rfl

theorem mergeStats_spec (h : Heap) : ∀ (segs : List (Segment × List Nat)) (st : Stats),
    (∀ e ∈ segs, SegStats h e.1 e.2) → st.levelNodesCount.length = Gen.maxLevel + 1 →
    (mergeStats (segs.map (·.1)) st).levelNodesCount.length = Gen.maxLevel + 1 ∧
    (∀ g, g ≤ Gen.maxLevel → (mergeStats (segs.map (·.1)) st).levelNodesCount.getD g 0
        = st.levelNodesCount.getD g 0 + (cntLevel h (allNodes segs) g : Int)) ∧
    (mergeStats (segs.map (·.1)) st).softDeletes = st.softDeletes ∧
    (mergeStats (segs.map (·.1)) st).nodeFrees = st.nodeFrees ∧
    (mergeStats (segs.map (·.1)) st).nodeAllocs = st.nodeAllocs + ((allNodes segs).length : Int) := by
  intro segs
  induction segs with
  | nil => intro st _ hl; simp [mergeStats, allNodes_nil, cntLevel, hl]
  | cons e r ih =>
    intro st hs hl
    have he := hs e (by simp)
    have hlen1 : (st.merge e.1.sts).levelNodesCount.length = Gen.maxLevel + 1 := by
      simp only [Stats.merge]; rw [addDist_length _ _ (by rw [hl, he.len])]; exact hl
    rcases ih (st.merge e.1.sts) (fun e' he' => hs e' (List.mem_cons_of_mem _ he')) hlen1
      with ⟨i1, i2, i3, i4, i5⟩
    simp only [List.map_cons, mergeStats]
    refine ⟨i1, ?_, ?_, ?_, ?_⟩
    · intro g hg
      rw [i2 g hg, allNodes_cons, cntLevel_append]
      simp only [Stats.merge]
      rw [addDist_getD _ _ _ (by rw [hl, he.len]), he.dist g hg]
      omega
    · rw [i3]; simp [Stats.merge, he.soft]
    · rw [i4]; simp [Stats.merge, he.frees]
    · rw [i5, allNodes_cons]; simp [Stats.merge, he.allocs]; omega

/-- C18, heap level: after `Assemble` the walk of every level is the concatenation of the segments'
    nodes of that height, whatever the keys are -/
theorem assemble_walk {s : SL} {segs : List (Segment × List Nat)} (b : BuildOK s segs) {l : Nat}
    (hl : l ≤ Gen.maxLevel) :
    walkLevel (assemble s (segs.map (·.1))).1 l = some (LL s.nodes (allNodes segs) l) := by
  rcases assemble_heap b with ⟨hp, hlen, _, _⟩
  unfold walkLevel
  have hpl := hp l hl
  have hlink : getNext (assemble s (segs.map (·.1))).1.nodes headId l
      = (((LL s.nodes (allNodes segs) l).head?).getD tailId, nomk headId) := path_head_link hpl
  rw [hlink]
  apply walkFrom_path (mk := nomk) _ _ (path_tail (by simpa using hpl))
  · intro x hx
    have := b.lo x (mem_LL.mp hx).1
    simp [tailId, nilId]; omega
  · have h1 : (LL s.nodes (allNodes segs) l).length ≤ (allNodes segs).length := List.length_filter_le _ _
    have := b.size
    rw [hlen]; omega

/-- C18/C14: with strictly ascending keys the assembled list satisfies the representation invariant -/
theorem assemble_rep {s : SL} {segs : List (Segment × List Nat)} (b : BuildOK s segs)
    (hsorted : (allNodes segs).Pairwise (fun a c => ikey s.nodes a < ikey s.nodes c)) :
    Rep (assemble s (segs.map (·.1))).1 (allNodes segs) := by
  rcases assemble_heap b with ⟨hp, hlen, hmeta, hframe⟩
  rcases assemble_fields s (segs.map (·.1)) with ⟨f1, f2, f3, f4⟩
  have hr := b.rep
  have hik : ∀ m, ikey (assemble s (segs.map (·.1))).1.nodes m = ikey s.nodes m :=
    fun m => ikey_congr (hmeta m).1
  have hms := mergeStats_spec s.nodes segs s.stats b.stats hr.stats.len
  refine ⟨⟨?_, ?_, ?_, ?_, ?_⟩, by rw [f1]; exact hr.lvl, ?_, ?_, ?_, ⟨?_, ?_, ?_, ?_⟩, ?_, ?_, ?_, ?_⟩
  · rw [hlen]; exact hr.base.len
  · rw [(hmeta _).1]; exact hr.base.headKey
  · rw [(hmeta _).1]; exact hr.base.tailKey
  · rw [(hmeta _).2.2]; exact hr.base.headLen
  · intro l
    rw [hframe tailId (by
      intro hm
      rcases List.mem_cons.mp hm with e | e
      · simp [tailId, headId] at e
      · have := b.lo _ e; simp [tailId] at this) l]
    exact hr.base.tailFlag l
  · intro n hn
    exact ⟨b.lo n hn, by rw [hlen]; exact b.hi n hn, by rw [(hmeta n).1, hik]; exact b.keys n hn,
      by rw [(hmeta n).2.1, f1]; exact b.lvls n hn, by rw [(hmeta n).2.2, (hmeta n).2.1]; exact b.slots n hn⟩
  · apply List.Pairwise.imp _ hsorted
    intro a c hac; rw [hik, hik]; exact hac
  · intro l hl
    rw [LL_congr l (fun n _ => (hmeta n).2.1)]
    exact hp l hl
  · rw [f4]; exact hms.1
  · intro g hg
    rw [f4, hms.2.1 g hg, hr.stats.dist g hg, cntLevel_congr g (fun n _ => (hmeta n).2.1)]
    simp [cntLevel]
  · rw [f4, hms.2.2.1]; exact hr.stats.soft
  · rw [f4, hms.2.2.2.1]; exact hr.stats.frees
  · rw [hlen]; exact b.size
  · rw [f2]; exact hr.bufP
  · rw [f2]; exact hr.bufS
  · rw [f3]; exact hr.live

end NitroVerif.SkipSeq
