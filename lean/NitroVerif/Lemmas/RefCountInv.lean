import NitroVerif.Lemmas.RefCountBase
/-!
  The inductive invariant of the fixed reference-count / collector protocol, and the lemma for the
  steps that only move a thread (no shared-memory effect).
-/
namespace NitroVerif.RefCount

/-- what a parked thread knows -/
def PCok (st : St) : PC → Prop
  | .openLoad s => 1 ≤ s ∧ s ≤ st.snaps.length
  | .closeDec s => 1 ≤ s ∧ s ≤ st.snaps.length
  | .closeRetire s => 1 ≤ s ∧ s ≤ st.snaps.length
  | .closeRetire2 s => 1 ≤ s ∧ s ≤ st.snaps.length
  | .openCas s rc => 1 ≤ s ∧ s ≤ st.snaps.length ∧ 0 < rc
  | .collectSend s => s = st.lastGCSn + 1 ∧ s ∈ st.dead
  | _ => True

structure Inv (cfg : Cfg) (st : St) : Prop where
  /-- counting invariant: count = held references + references in flight to their decrement -/
  count : ∀ s, 1 ≤ s → s ≤ st.snaps.length →
    (getS st s).refs = ((getS st s).held : Int) + (cnt (uDec s) st.ths : Int)
  /-- a snapshot whose count is 0 was retired once or its closer is parked before one of the two
      list operations; a snapshot whose count is not 0 was never retired and nobody is about to -/
  retire : ∀ s, 1 ≤ s → s ≤ st.snaps.length →
    (getS st s).retired + cnt (uRet s) st.ths + cnt (uRet2 s) st.ths =
      if (getS st s).refs = 0 then 1 else 0
  pcs : ∀ (j : Nat) (pc : PC), st.ths[j]? = some pc → PCok st pc
  /-- a retired snapshot is in the dead list or was handed to the workers -/
  place : ∀ s, 1 ≤ s → s ≤ st.snaps.length →
    ((getS st s).retired = 1 ↔ (s ∈ st.dead ∨ s ≤ st.lastGCSn))
  /-- in the live list: not retired and not between the two list operations of its closer -/
  live_iff : ∀ s, s ∈ st.live ↔
    (1 ≤ s ∧ s ≤ st.snaps.length ∧ (getS st s).retired = 0 ∧ cnt (uRet2 s) st.ths = 0)
  dead_valid : ∀ s, s ∈ st.dead → 1 ≤ s ∧ s ≤ st.snaps.length ∧ st.lastGCSn < s
  gc_le : st.lastGCSn ≤ st.snaps.length
  dead_sorted : st.dead.Pairwise (· < ·)
  live_sorted : st.live.Pairwise (· < ·)
  sent : st.sent = List.range' 1 st.lastGCSn
  /-- mutual exclusion of the collector -/
  excl : cnt uCrit st.ths = if st.flag then 1 else 0
  /-- responsibility (L2): a collectable head has somebody who will collect it -/
  resp : cfg.fixedGC = true → (st.lastGCSn + 1) ∈ st.dead → 1 ≤ cnt uResp st.ths

theorem PCok_mono {st st' : St} {pc : PC} (hl : st'.snaps.length = st.snaps.length)
    (hs : ∀ s, pc = .collectSend s → s = st.lastGCSn + 1 → s ∈ st.dead →
      s = st'.lastGCSn + 1 ∧ s ∈ st'.dead)
    (h : PCok st pc) : PCok st' pc := by
  cases pc with
  | collectSend s => exact hs s rfl h.1 h.2
  | _ => simp_all [PCok]

theorem Inv.refs_nonneg {cfg : Cfg} {st : St} (h : Inv cfg st) (s : Nat) (h1 : 1 ≤ s)
    (h2 : s ≤ st.snaps.length) : 0 ≤ (getS st s).refs := by
  have := h.count s h1 h2; omega

theorem Inv.retired_le_one {cfg : Cfg} {st : St} (h : Inv cfg st) (s : Nat) (h1 : 1 ≤ s)
    (h2 : s ≤ st.snaps.length) : (getS st s).retired ≤ 1 := by
  have := h.retire s h1 h2; split at this <;> omega

/-- the head of the dead list is collectable iff `lastGCSn + 1` is in the dead list -/
theorem Inv.head_of_mem {cfg : Cfg} {st : St} (h : Inv cfg st) (hm : st.lastGCSn + 1 ∈ st.dead) :
    ∃ tl, st.dead = (st.lastGCSn + 1) :: tl :=
  RefCount.head_of_mem h.dead_sorted (fun x hx => (h.dead_valid x hx).2.2) hm

/-- a step that only moves thread `i` from `pc` to `pc'` -/
theorem inv_setT {cfg : Cfg} {st : St} {i : Nat} {pc pc' : PC} (h : Inv cfg st)
    (hi : st.ths[i]? = some pc) (hok : PCok st pc')
    (hdec : ∀ s, uDec s pc' = uDec s pc) (hret : ∀ s, uRet s pc' = uRet s pc)
    (hret2 : ∀ s, uRet2 s pc' = uRet2 s pc) (hcrit : uCrit pc' = uCrit pc)
    (hresp : cfg.fixedGC = true → (st.lastGCSn + 1) ∈ st.dead → uResp pc ≤ uResp pc' ∨ st.flag = true) :
    Inv cfg (setT st i pc') := by
  have hc2 : ∀ s, cnt (uRet2 s) (st.ths.set i pc') = cnt (uRet2 s) st.ths := by
    intro s
    have e := cnt_set (uRet2 s) st.ths i pc pc' hi
    rw [hret2] at e; omega
  constructor
  · intro s h1 h2
    have := h.count s h1 h2
    have e := cnt_set (uDec s) st.ths i pc pc' hi
    rw [hdec] at e
    show (getS st s).refs = ((getS st s).held : Int) + (cnt (uDec s) (st.ths.set i pc') : Int)
    omega
  · intro s h1 h2
    have := h.retire s h1 h2
    have e := cnt_set (uRet s) st.ths i pc pc' hi
    rw [hret] at e
    show (getS st s).retired + cnt (uRet s) (st.ths.set i pc') + cnt (uRet2 s) (st.ths.set i pc') =
      if (getS st s).refs = 0 then 1 else 0
    rw [hc2]
    omega
  · intro j pcj hj
    rcases set_getElem?_cases hj with ⟨_, rfl⟩ | ⟨_, hj'⟩
    · exact PCok_mono rfl (fun _ _ a b => ⟨a, b⟩) hok
    · exact PCok_mono rfl (fun _ _ a b => ⟨a, b⟩) (h.pcs j pcj hj')
  · exact h.place
  · intro s
    show s ∈ st.live ↔ (1 ≤ s ∧ s ≤ st.snaps.length ∧ (getS st s).retired = 0 ∧
      cnt (uRet2 s) (st.ths.set i pc') = 0)
    rw [hc2]; exact h.live_iff s
  · exact h.dead_valid
  · exact h.gc_le
  · exact h.dead_sorted
  · exact h.live_sorted
  · exact h.sent
  · have := h.excl
    have e := cnt_set uCrit st.ths i pc pc' hi
    rw [hcrit] at e
    show cnt uCrit (st.ths.set i pc') = if st.flag then 1 else 0
    omega
  · intro hg hm
    have e := cnt_set uResp st.ths i pc pc' hi
    have e2 := cnt_set uCrit st.ths i pc pc' hi
    have hx := h.excl
    have hmono := cnt_mono uCrit uResp uCrit_le_uResp (st.ths.set i pc')
    rw [hcrit] at e2
    show 1 ≤ cnt uResp (st.ths.set i pc')
    rcases hresp hg hm with hle | hf
    · have := h.resp hg hm; omega
    · simp [hf] at hx; omega

end NitroVerif.RefCount
