import NitroVerif.Lemmas.SkipSeqPath
import NitroVerif.Lemmas.SkipSeqGen
/-!
  The representation invariant of a quiescent skiplist: `Rep s L0` says that the heap of `s` holds,
  on every level `l`, the unmarked chain `head → (nodes of L0 with height ≥ l) → tail`, that `L0` is
  strictly ascending by key, and that the statistics count exactly `L0`.
-/
namespace NitroVerif.SkipSeq
open NitroVerif

structure Base (h : Heap) : Prop where
  len : 3 ≤ h.length
  headKey : keyOf h headId = .min
  tailKey : keyOf h tailId = .max
  headLen : nextLen h headId = Gen.maxLevel + 1
  tailFlag : ∀ l, (getNext h tailId l).2 = false

structure NodeOK (s : SL) (n : Nat) : Prop where
  lo : 3 ≤ n
  hi : n < s.nodes.length
  key : keyOf s.nodes n = .item (ikey s.nodes n)
  lvl : levelOf s.nodes n ≤ s.level
  len : nextLen s.nodes n = levelOf s.nodes n + 1

/-- number of nodes of `L` with height exactly `g` -/
def cntLevel (h : Heap) (L : List Nat) (g : Nat) : Nat := (L.filter fun n => levelOf h n == g).length

structure StatsOK (s : SL) (L0 : List Nat) : Prop where
  len : s.stats.levelNodesCount.length = Gen.maxLevel + 1
  dist : ∀ g, g ≤ Gen.maxLevel → s.stats.levelNodesCount.getD g 0 = (cntLevel s.nodes L0 g : Int)
  soft : s.stats.softDeletes = 0
  frees : s.stats.nodeFrees = 0

structure Rep (s : SL) (L0 : List Nat) : Prop where
  base : Base s.nodes
  lvl : s.level ≤ Gen.maxLevel
  nodes : ∀ n ∈ L0, NodeOK s n
  sorted : L0.Pairwise (fun a b => ikey s.nodes a < ikey s.nodes b)
  paths : ∀ l, l ≤ Gen.maxLevel → Path s.nodes nomk l (headId :: LL s.nodes L0 l ++ [tailId])
  stats : StatsOK s L0
  size : L0.length + 3 ≤ s.nodes.length
  bufP : s.buf.preds.length = Gen.maxLevel + 1
  bufS : s.buf.succs.length = Gen.maxLevel + 1
  live : s.stuck = false

/-- `s'` differs from `s` in the action buffer only -/
structure SameBut (s s' : SL) : Prop where
  nodes : s'.nodes = s.nodes
  level : s'.level = s.level
  stats : s'.stats = s.stats
  stuck : s'.stuck = s.stuck
  bufP : s'.buf.preds.length = s.buf.preds.length
  bufS : s'.buf.succs.length = s.buf.succs.length

theorem SameBut.refl (s : SL) : SameBut s s := ⟨rfl, rfl, rfl, rfl, rfl, rfl⟩

theorem SameBut.trans {a b c : SL} (h1 : SameBut a b) (h2 : SameBut b c) : SameBut a c :=
  ⟨h2.nodes.trans h1.nodes, h2.level.trans h1.level, h2.stats.trans h1.stats, h2.stuck.trans h1.stuck,
   h2.bufP.trans h1.bufP, h2.bufS.trans h1.bufS⟩

theorem sameBut_setBuf (s : SL) (i p c : Nat) : SameBut s (s.setBuf i p c) :=
  ⟨rfl, rfl, rfl, rfl, by simp [SL.setBuf], by simp [SL.setBuf]⟩

theorem Rep.of_sameBut {s s' : SL} {L0 : List Nat} (hr : Rep s L0) (hs : SameBut s s') : Rep s' L0 := by
  rcases hr with ⟨b, l, n, so, p, st, sz, bp, bs, lv⟩
  rcases hs with ⟨e1, e2, e3, e4, e5, e6⟩
  refine ⟨by rw [e1]; exact b, by rw [e2]; exact l, ?_, by rw [e1]; exact so, by rw [e1]; exact p, ?_,
    by rw [e1]; exact sz, by rw [e5]; exact bp, by rw [e6]; exact bs, by rw [e4]; exact lv⟩
  · intro m hm
    rcases n m hm with ⟨a1, a2, a3, a4, a5⟩
    exact ⟨a1, by rw [e1]; exact a2, by rw [e1]; exact a3, by rw [e1, e2]; exact a4, by rw [e1]; exact a5⟩
  · rcases st with ⟨a1, a2, a3, a4⟩
    exact ⟨by rw [e3]; exact a1, by rw [e3, e1]; exact a2, by rw [e3]; exact a3, by rw [e3]; exact a4⟩

/-- nodes of `L0` are real nodes: not nil, head or tail -/
theorem Rep.ne_head {s : SL} {L0 : List Nat} (hr : Rep s L0) {n : Nat} (hn : n ∈ L0) : n ≠ headId := by
  have := (hr.nodes n hn).lo; unfold headId; omega

theorem Rep.ne_tail {s : SL} {L0 : List Nat} (hr : Rep s L0) {n : Nat} (hn : n ∈ L0) : n ≠ tailId := by
  have := (hr.nodes n hn).lo; unfold tailId; omega

theorem pairwise_lt_nodup {L : List Nat} {f : Nat → Int} (h : L.Pairwise (fun a b => f a < f b)) : L.Nodup := by
  unfold List.Nodup
  apply List.Pairwise.imp _ h
  intro a b hab e; subst e; omega

theorem Rep.nodup {s : SL} {L0 : List Nat} (hr : Rep s L0) : L0.Nodup := pairwise_lt_nodup hr.sorted

/-- `LL B l ++ [tail]` starts with `succAt B l` -/
theorem succ_split (h : Heap) (B : List Nat) (l : Nat) :
    ∃ R, LL h B l ++ [tailId] = succAt h B l :: R := by
  unfold succAt
  cases hB : LL h B l with
  | nil => exact ⟨[], by simp⟩
  | cons c R => exact ⟨R ++ [tailId], by simp⟩

/-- the link word of `succAt` is unmarked in a quiescent list -/
theorem Rep.succ_unmarked {s : SL} {A B : List Nat} (hr : Rep s (A ++ B)) {l : Nat} (hl : l ≤ Gen.maxLevel) :
    (getNext s.nodes (succAt s.nodes B l) l).2 = false := by
  rcases succAt_mem s.nodes B l with h1 | ⟨h1, h2⟩
  · rw [h1]; exact hr.base.tailFlag l
  · have hp := hr.paths l hl
    have hm : succAt s.nodes B l ∈ headId :: LL s.nodes (A ++ B) l := by
      apply List.mem_cons_of_mem
      exact mem_LL.mpr ⟨List.mem_append_right _ h1, h2⟩
    have := path_mem_flag (headId :: LL s.nodes (A ++ B) l) (by simpa using hp) _ hm
    simpa [nomk] using this

/-- key of `succAt` is not below `k` when all of `B` is `≥ k` -/
theorem Rep.succ_ge {s : SL} {A B : List Nat} (hr : Rep s (A ++ B)) {k : Int}
    (hB : ∀ b ∈ B, k ≤ ikey s.nodes b) (l : Nat) :
    ¬ compare (keyOf s.nodes (succAt s.nodes B l)) (.item k) < 0 := by
  rcases succAt_mem s.nodes B l with h1 | ⟨h1, _⟩
  · rw [h1, hr.base.tailKey, compare_max_item]; omega
  · rw [(hr.nodes _ (List.mem_append_right _ h1)).key, compare_item_item]
    have := hB _ h1; omega

theorem getD_set_same {α : Type} (l : List α) (i : Nat) (v d : α) (hi : i < l.length) :
    (l.set i v).getD i d = v := by
  simp [List.getD_eq_getElem?_getD, hi]

theorem getD_set_ne {α : Type} (l : List α) (i j : Nat) (v d : α) (hij : i ≠ j) :
    (l.set i v).getD j d = l.getD j d := by
  simp [List.getD_eq_getElem?_getD, List.getElem?_set, hij]

end NitroVerif.SkipSeq
