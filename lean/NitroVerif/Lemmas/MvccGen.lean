/-
  Characterisation of every generated definition the M6 model relies on.  A change of the Go
  condition changes the `Gen.*` definition and breaks the lemma named after it.
-/
import NitroVerif.Model.MvccStep

namespace NitroVerif.Mvcc
open NitroVerif

/-! ### guards -/

theorem skipUnwanted_false_iff (b d sn : Nat) :
    Gen.skipUnwanted b d sn = false ↔ b ≤ sn ∧ (d = 0 ∨ sn < d) := by
  unfold Gen.skipUnwanted; simp; omega

theorem skipUnwanted_true_iff (b d sn : Nat) :
    Gen.skipUnwanted b d sn = true ↔ sn < b ∨ (d ≠ 0 ∧ d ≤ sn) := by
  unfold Gen.skipUnwanted; simp; omega

theorem insertCompare_neg_iff (c : Int) (a b : Nat) :
    Gen.insertCompare c a b < 0 ↔ c < 0 ∨ (c = 0 ∧ a < b) := by
  unfold Gen.insertCompare; split <;> simp_all <;> omega

theorem insertCompare_zero_iff (c : Int) (a b : Nat) :
    Gen.insertCompare c a b = 0 ↔ c = 0 ∧ a = b := by
  unfold Gen.insertCompare; split <;> simp_all <;> omega

theorem iterCompare_eq (c : Int) : Gen.iterCompare c = c := rfl

theorem existCompare_zero_iff (c : Int) (a b : Nat) :
    Gen.existCompare c a b = 0 ↔ a = 0 ∧ b = 0 ∧ c = 0 := by
  unfold Gen.existCompare; split <;> simp_all <;> omega

theorem sameEpoch_iff (b sn : Nat) : Gen.sameEpoch b sn = true ↔ b = sn := by
  unfold Gen.sameEpoch; simp

theorem gcStop_false_iff (sn g : Nat) : Gen.gcStop sn g = false ↔ sn = g + 1 := by
  unfold Gen.gcStop; simp

theorem openRefuse_iff (rc : Int) : Gen.openRefuse rc = true ↔ rc = 0 := by
  unfold Gen.openRefuse; simp

theorem closeRetire_iff (rc : Int) : Gen.closeRetire rc = true ↔ rc = 0 := by
  unfold Gen.closeRetire; simp

theorem refreshDue_iff (rate count : Int) :
    Gen.refreshDue rate count = true ↔ 0 < rate ∧ rate < count := by
  unfold Gen.refreshDue; simp

theorem findAdvance_iff (c : Int) : Gen.findAdvance c = true ↔ c < 0 := by
  unfold Gen.findAdvance; simp

theorem findFound_iff (c : Int) : Gen.findFound c = true ↔ c = 0 := by
  unfold Gen.findFound; simp

theorem visitorPivotCmp_eq : Gen.visitorPivotCmp = .iter := rfl
theorem visitorEndCmp_eq : Gen.visitorEndCmp = .iter := rfl

theorem visitorPivotKeep_iff (c : Int) : Gen.visitorPivotKeep c = true ↔ 0 < c := by
  unfold Gen.visitorPivotKeep; simp

theorem visitorEndStop_iff (c : Int) : Gen.visitorEndStop c = true ↔ 0 ≤ c := by
  unfold Gen.visitorEndStop; simp

/-! ### skeletons: source order of the effectful operations the model mirrors -/

theorem skeleton_skipUnwanted_ok : Gen.skeleton_skipUnwanted = ["it.iter.Next"] := rfl
theorem skeleton_IteratorNext_ok :
    Gen.skeleton_IteratorNext = ["it.iter.Next", "it.skipUnwanted", "it.Refresh"] := rfl
theorem skeleton_IteratorRefresh_ok :
    Gen.skeleton_IteratorRefresh = ["it.snap.db.ptrToItem", "it.iter.Close", "it.iter.Seek", "it.skipUnwanted"] := rfl
theorem skeleton_IteratorSeek_ok :
    Gen.skeleton_IteratorSeek = ["it.iter.Seek", "it.skipUnwanted"] := rfl
theorem skeleton_IteratorSeekFirst_ok :
    Gen.skeleton_IteratorSeekFirst = ["it.iter.SeekFirst", "it.skipUnwanted"] := rfl
theorem skeleton_DeleteNode_ok :
    Gen.skeleton_DeleteNode = ["defer", "w.store.DeleteNode", "x.SetLink", "barrier.FlushSession",
      "atomic.CompareAndSwapUint32(gotItem.deadSn)", "x.SetLink", "w.gctail.SetLink"] := rfl
theorem skeleton_Delete2_ok :
    Gen.skeleton_Delete2 = ["barrier.Acquire", "defer", "barrier.Release"] := rfl
theorem skeleton_Put2_ok : Gen.skeleton_Put2 = ["w.store.Insert2", "w.freeItem"] := rfl
theorem skeleton_collectDead_ok :
    Gen.skeleton_collectDead = ["defer", "defer", "defer", "iter.Close", "iter.SeekFirst", "iter.Next",
      "atomic.StoreUint32(m.lastGCSn)", "send(m.gcchan)", "m.gcsnapshots.DeleteNode"] := rfl
theorem skeleton_GC_ok :
    Gen.skeleton_GC = ["atomic.CompareAndSwapInt32(m.isGCRunning)", "m.collectDead",
      "atomic.CompareAndSwapInt32(m.isGCRunning)", "m.hasCollectableSnapshot"] := rfl
theorem skeleton_Open_ok :
    Gen.skeleton_Open = ["atomic.LoadInt32(s.refCount)", "atomic.CompareAndSwapInt32(s.refCount)"] := rfl
theorem skeleton_Close_ok :
    Gen.skeleton_Close = ["atomic.AddInt32(s.refCount)", "defer", "s.db.snapshots.Delete",
      "s.db.gcsnapshots.Insert", "s.db.GC"] := rfl
theorem skeleton_NewSnapshot_ok :
    Gen.skeleton_NewSnapshot = ["defer", "tail.SetLink", "atomic.AddInt64(m.itemsCount)",
      "atomic.AddUint32(m.currSn)"] := rfl
theorem skeleton_collectionWorker_ok :
    Gen.skeleton_collectionWorker = ["defer", "defer", "close", "m.store.DeleteNode",
      "barrier.FlushSession"] := rfl
theorem skeleton_Visitor_ok :
    Gen.skeleton_Visitor = ["defer", "tmpIter.Close", "barrier.Acquire", "defer", "barrier.Release",
      "m.store.GetRangeSplitItems", "m.ptrToItem", "tmpIter.Seek", "defer", "defer", "itr.Close", "itr.SeekFirst",
      "itr.Seek", "send(wch)", "close"] := rfl
theorem skeleton_deleteNode_ok : Gen.skeleton_deleteNode = ["s.softDelete", "s.findPath"] := rfl

/-! ### the comparators on versions -/

/-- the physical order: `(key, born)` lexicographic -/
def vlt (a b : Ver) : Prop := a.key < b.key ∨ (a.key = b.key ∧ a.born < b.born)

theorem keyCmp_neg (a b : Nat) : keyCmp a b < 0 ↔ a < b := by
  unfold keyCmp; (repeat' split) <;> omega

theorem keyCmp_zero (a b : Nat) : keyCmp a b = 0 ↔ a = b := by
  unfold keyCmp; (repeat' split) <;> omega

theorem keyCmp_pos (a b : Nat) : 0 < keyCmp a b ↔ b < a := by
  unfold keyCmp; (repeat' split) <;> omega

theorem insCmp_neg (a b : Ver) : insCmp a b < 0 ↔ vlt a b := by
  unfold insCmp vlt; rw [insertCompare_neg_iff, keyCmp_neg, keyCmp_zero]

theorem insCmp_zero (a b : Ver) : insCmp a b = 0 ↔ a.key = b.key ∧ a.born = b.born := by
  unfold insCmp; rw [insertCompare_zero_iff, keyCmp_zero]

theorem insLt_iff (a b : Ver) : insLt a b = true ↔ vlt a b := by
  unfold insLt; simp [insCmp_neg]

theorem iterCmp_neg (a b : Ver) : iterCmp a b < 0 ↔ a.key < b.key := by
  unfold iterCmp; rw [iterCompare_eq, keyCmp_neg]

theorem iterCmp_pos (a b : Ver) : 0 < iterCmp a b ↔ b.key < a.key := by
  unfold iterCmp; rw [iterCompare_eq, keyCmp_pos]

theorem iterCmp_nonneg (a b : Ver) : 0 ≤ iterCmp a b ↔ b.key ≤ a.key := by
  have := iterCmp_neg a b; omega

theorem existCmp_zero (a b : Ver) :
    existCmp a b = 0 ↔ a.dead = 0 ∧ b.dead = 0 ∧ a.key = b.key := by
  unfold existCmp; rw [existCompare_zero_iff, keyCmp_zero]

theorem sameId_iff (a b : Ver) : sameId a b = true ↔ a.key = b.key ∧ a.born = b.born := by
  unfold sameId; simp

theorem visible_iff (sn : Nat) (v : Ver) :
    visible sn v = true ↔ v.born ≤ sn ∧ (v.dead = 0 ∨ sn < v.dead) := by
  unfold visible; rw [Bool.not_eq_true', skipUnwanted_false_iff]

theorem vlt_trans {a b c : Ver} (h1 : vlt a b) (h2 : vlt b c) : vlt a c := by
  unfold vlt at *; omega

theorem vlt_irrefl (a : Ver) : ¬ vlt a a := by unfold vlt; omega

theorem vlt_total (a b : Ver) : vlt a b ∨ (a.key = b.key ∧ a.born = b.born) ∨ vlt b a := by
  unfold vlt; omega

end NitroVerif.Mvcc

namespace NitroVerif.MvccGenExtra
open NitroVerif
/-- iterator.go: snapshot iterators walk the store with the INSERT comparator, so the skiplist iterator's
    re-search after the node under the cursor was unlinked lands after that node (the model's cursor holds the
    version and "physical next" is the first store element greater than it under the insert comparator). With the
    key-only comparator the re-search lands on the oldest version of the key (witness C01_unfixed_duplicate). -/
theorem iteratorStoreCmp_ok : Gen.iteratorStoreCmp = Gen.CmpKind.ins := rfl
end NitroVerif.MvccGenExtra

namespace NitroVerif.MvccGenExtra
open NitroVerif
/-- nitro.go Visitor: the dispatcher sends exactly as many shard indexes as the work channel can hold, so it never
    blocks even when every worker has stopped receiving after a callback error (termination half of C10; the number
    of shards is `len(pivotItems) - 1`, which `C10_visitor_partition` bounds by the number of pivots plus one). -/
theorem visitor_channel_holds_every_shard : Gen.visitorChanCap = Gen.visitorDispatchBound := rfl
theorem visitorChanCap_ok : Gen.visitorChanCap = "len(pivotItems) - 1" := rfl
end NitroVerif.MvccGenExtra
