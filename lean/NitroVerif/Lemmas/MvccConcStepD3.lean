/-
  The invariant is preserved by the DEL_NODE_CAS step and by `NewSnapshot`.
-/
import NitroVerif.Lemmas.MvccConcStepD2

namespace NitroVerif.MvccConc
open NitroVerif
open NitroVerif.Mvcc (Ver isAlive Sorted Chains)

theorem absAlive_length (l : List Ver) : (Mvcc.absAlive l).length = (l.filter isAlive).length := by
  unfold Mvcc.absAlive; simp

/-- the number of alive versions after a winning `deadSn` compare-and-swap -/
theorem alive_markDeadNode {s : List Node} {cur : Nat} (hs : Sorted (vers s)) (hc : Chains cur (vers s))
    (hn : (storeIds s).Nodup) {n : Nat} {x : Node} (hf : findNode s n = some x) (hd : x.ver.dead = 0)
    (hcur : cur ≠ 0) :
    ((vers (markDeadNode s n cur)).filter isAlive).length + 1 = ((vers s).filter isAlive).length := by
  have ⟨hx, _⟩ := findNode_some hf
  have hxv : x.ver ∈ vers s := List.mem_map.mpr ⟨x, hx, rfl⟩
  have h1 := Mvcc.absAlive_markDead hs hc hxv hd cur hcur
  have h2 := Mvcc.absAlive_removeId hs hc hxv hd
  have h3 : (Mvcc.absAlive (Mvcc.markDead (vers s) x.ver cur)).length =
      (Mvcc.absAlive (Mvcc.removeId (vers s) x.ver)).length := by rw [h1, h2]
  rw [absAlive_length, absAlive_length, ← vers_markDeadNode hs hn hf, ← vers_removeNode hs hn hf] at h3
  have h4 := alive_removeNode hn hf
  simp only [hd, if_true] at h4
  omega

theorem mem_markDeadNode_of_ne {s : List Node} {n sn : Nat} {y : Node} (hy : y ∈ s) (hne : y.id ≠ n) :
    y ∈ markDeadNode s n sn := by
  unfold markDeadNode
  exact List.mem_map.mpr ⟨y, hy, by simp [hne]⟩

theorem mem_markDeadNode_self {s : List Node} {n sn : Nat} {x : Node} (hx : x ∈ s) (hid : x.id = n) :
    ({ x with ver := { x.ver with dead := sn } } : Node) ∈ markDeadNode s n sn := by
  unfold markDeadNode
  exact List.mem_map.mpr ⟨x, hx, by simp [hid]⟩

/-- the state after a winning compare-and-swap on a linked node, before the token goes back -/
theorem inv_casWin_store {σ : State} {t n tok k : Nat} {x : Node} (h : Inv σ)
    (ht : σ.threads[t]? = some (.delCas n tok k)) (hf : findNode σ.store n = some x) (hd : x.ver.dead = 0) :
    Inv { σ with store := markDeadNode σ.store n σ.currSn,
                 writers := updWriter t (fun y => { count := y.count - 1, gc := y.gc ++ [n] }) σ.writers } := by
  have ⟨hx, hid⟩ := findNode_some hf
  have hst := h.store
  have ⟨hw, hnlt, hnres, hnode, hunl⟩ := h.pc.cas t n tok k ht
  have ⟨hxk, hxb⟩ := hnode x hx hid
  have hcur : σ.currSn ≠ 0 := by have := hst.cur_pos; omega
  have hxv : x.ver ∈ vers σ.store := List.mem_map.mpr ⟨x, hx, rfl⟩
  have hgarb0 : garbC σ.writers σ.snaps σ.gcJobs n = 0 := by
    cases hc : garbC σ.writers σ.snaps σ.gcJobs n with
    | zero => rfl
    | succ c =>
      obtain ⟨y, hy, hyid, hyd, _⟩ := h.garb.linked n (by omega)
      have := id_unique hst.ids hy hx (by omega)
      subst this; exact absurd hd hyd
  have hids := storeIds_markDeadNode σ.store n σ.currSn
  refine ⟨?_, ?_, ?_, ?_, h.tok, ?_⟩
  · -- store
    refine ⟨?_, ?_, ?_, hst.cur_pos, by rw [hids]; exact hst.ids, ?_, ?_, hst.snaps_inc, hst.snaps_lt, hst.rc_dead⟩
    · show Sorted (vers (markDeadNode σ.store n σ.currSn))
      rw [vers_markDeadNode hst.sorted hst.ids hf]; exact Mvcc.sorted_markDead hst.sorted _ _
    · show Chains σ.currSn (vers (markDeadNode σ.store n σ.currSn))
      rw [vers_markDeadNode hst.sorted hst.ids hf]
      exact Mvcc.chains_markDead hst.sorted hst.chains hxv hd hxb
    · show σ.itemsCount + ((updWriter t (fun y => { count := y.count - 1, gc := y.gc ++ [n] }) σ.writers).map
        (·.count)).sum = (((vers (markDeadNode σ.store n σ.currSn)).filter isAlive).length : Nat)
      rw [sum_updWriter (-1) (fun _ => by simp; omega) hw]
      have h1 := alive_markDeadNode hst.sorted hst.chains hst.ids hf hd hcur
      have h2 := hst.cnt
      omega
    · intro y hy
      have := hst.unl y hy
      exact ⟨by show y.id ∉ storeIds (markDeadNode σ.store n σ.currSn); rw [hids]; exact this.1, this.2⟩
    · intro y hy
      obtain ⟨z, hz, hyz, _⟩ := mem_markDeadNode hy
      rw [hyz]; exact hst.id_lt z hz
  · -- pc
    have hpc := h.pc
    show PcInv σ.threads (updWriter t _ σ.writers).length σ.currSn (markDeadNode σ.store n σ.currSn) σ.unlinked
      σ.nextId σ.gcFlag σ.snaps
    rw [updWriter_length]
    refine ⟨hpc.len, hpc.put, ?_, ?_, hpc.fl, hpc.coll, hpc.excl⟩
    · intro t' m tk k' hg
      have := hpc.phys t' m tk k' hg
      refine ⟨this.1, this.2.1, this.2.2.1, ?_⟩
      intro y hy hym
      obtain ⟨z, hz, hyz, hk, _, hb, _⟩ := mem_markDeadNode hy
      rw [hk, hb]; exact this.2.2.2 z hz (by omega)
    · intro t' m tk k' hg
      have := hpc.cas t' m tk k' hg
      refine ⟨this.1, this.2.1, this.2.2.1, ?_, this.2.2.2.2⟩
      intro y hy hym
      obtain ⟨z, hz, hyz, hk, _, hb, _⟩ := mem_markDeadNode hy
      rw [hk, hb]; exact this.2.2.2.1 z hz (by omega)
  · -- garb
    show GarbInv (updWriter t (fun y => { count := y.count - 1, gc := y.gc ++ [n] }) σ.writers) σ.snaps σ.gcJobs
      (markDeadNode σ.store n σ.currSn) σ.currSn
    have hg : ∀ m, garbC (updWriter t (fun y => { count := y.count - 1, gc := y.gc ++ [n] }) σ.writers) σ.snaps
        σ.gcJobs m = garbC σ.writers σ.snaps σ.gcJobs m + (if n = m then 1 else 0) := by
      intro m; unfold garbC
      rw [garbW_updWriter_app (w := t) (f := fun y => { count := y.count - 1, gc := y.gc ++ [n] }) (g0 := n)
        (fun _ => rfl) hw m]
      omega
    refine ⟨?_, ?_, h.garb.jobs⟩
    · intro m
      rw [hg]
      by_cases he : n = m
      · subst he; simp [hgarb0]
      · simp [he]; exact h.garb.le m
    · intro m hm
      rw [hg] at hm
      by_cases he : n = m
      · subst he
        exact ⟨_, mem_markDeadNode_self hx hid, hid, hcur, hxb⟩
      · simp [he] at hm
        obtain ⟨y, hy, hym, h1⟩ := h.garb.linked m hm
        exact ⟨y, mem_markDeadNode_of_ne hy (by omega), hym, h1⟩
  · -- own
    refine h.own.congr ?_ (fun _ => Iff.rfl)
    intro m
    show ownC (markDeadNode σ.store n σ.currSn) σ.threads σ.gcJobs σ.sess σ.freeSeq σ.frJobs m = _
    unfold ownC; rw [hids]
  · -- prot
    show ProtInv σ.threads (markDeadNode σ.store n σ.currSn) σ.gcJobs σ.sess σ.iters
    have hP : ∀ m tk, Prot σ.threads σ.store σ.gcJobs σ.sess m tk →
        Prot σ.threads (markDeadNode σ.store n σ.currSn) σ.gcJobs σ.sess m tk := by
      intro m tk hpr
      exact hpr.mono (fun h => Or.inl (by rw [hids]; exact h)) (fun tk k h => Or.inr (Or.inl ⟨tk, k, h⟩))
        (fun h => Or.inr (Or.inr (Or.inl h))) (fun i s h1 h2 h3 => Or.inr (Or.inr (Or.inr ⟨i, s, h1, h2, h3⟩)))
    exact ⟨fun t' m tk k' hg => hP _ _ (h.prot.phys t' m tk k' hg),
      fun t' m tk k' hg => hP _ _ (h.prot.cas t' m tk k' hg),
      fun key it c hm hc => hP _ _ (h.prot.it key it c hm hc)⟩

theorem inv_stepDelCas {σ : State} {t n tok k : Nat} (h : Inv σ) (ht : σ.threads[t]? = some (.delCas n tok k)) :
    Inv (stepDelCas σ t n tok).1 := by
  unfold stepDelCas
  have hlose : Inv (casLose σ t tok).1 := by
    unfold casLose
    exact inv_release_thr h ht rfl rfl (by intros; simp) (by intros; simp)
  split
  · exact h
  · cases hf : findNode σ.store n with
    | some x =>
      simp only
      split
      · rename_i hd
        unfold casWin
        exact inv_release_thr (inv_casWin_store h ht hf hd) ht rfl rfl (by intros; simp) (by intros; simp)
      · exact hlose
    | none =>
      simp only
      cases hu : findNode σ.unlinked n with
      | some x =>
        simp only
        split
        · rename_i hd
          exfalso
          have ⟨hx, hid⟩ := findNode_some hu
          exact (h.pc.cas t n tok k ht).2.2.2.2 x hx hid hd
        · exact hlose
      | none => exact hlose

/-! ### NewSnapshot -/

theorem writersIdle_spec {σ : State} (h : writersIdle σ = true) {t : Nat} (ht : t < σ.writers.length) {pc : Pc}
    (hg : σ.threads[t]? = some pc) : pc = .idle := by
  unfold writersIdle at h
  rw [List.all_eq_true] at h
  have hlen : t < σ.threads.length := (List.getElem?_eq_some_iff.mp hg).1
  have hm : pc ∈ σ.threads.take σ.writers.length := by
    rw [List.mem_iff_getElem?]
    exact ⟨t, by rw [List.getElem?_take]; simp [ht, hg]⟩
  have := h pc hm
  simpa using this

theorem sum_map_const_zero (l : List Writer) : ((l.map (fun _ => (⟨0, []⟩ : Writer))).map (·.count)).sum = 0 := by
  induction l with
  | nil => rfl
  | cons x xs ih => simp at ih ⊢; exact ih

theorem inv_snap {σ : State} (h : Inv σ) (hi : writersIdle σ = true) : Inv (snap σ).1 := by
  unfold snap
  have hst := h.store
  have hpc := h.pc
  refine Inv.mk' (store := σ.store) (unl := σ.unlinked) (cur := σ.currSn + 1)
    (items := σ.itemsCount + (σ.writers.map (·.count)).sum)
    (writers := σ.writers.map (fun _ => (⟨0, []⟩ : Writer)))
    (snaps := σ.snaps ++ [⟨σ.currSn, 1, σ.itemsCount + (σ.writers.map (·.count)).sum,
        (σ.writers.reverse.map (·.gc)).flatten, .live, true⟩]) (threads := σ.threads)
    (nextId := σ.nextId) (gcFlag := σ.gcFlag) (gcJobs := σ.gcJobs) (sess := σ.sess) (fs := σ.freeSeq)
    (frJobs := σ.frJobs) (iters := σ.iters) (allocd := σ.allocd) (freed := σ.freed) (bad := σ.bad)
    rfl rfl rfl rfl rfl rfl rfl rfl rfl rfl rfl rfl rfl rfl rfl rfl rfl ?_ ?_ ?_ h.own h.tok h.prot
  · -- store
    refine ⟨hst.sorted, Mvcc.chains_mono (by omega) hst.chains, ?_, by omega, hst.ids, hst.unl, hst.id_lt, ?_, ?_, ?_⟩
    · rw [sum_map_const_zero]; have := hst.cnt; omega
    · rw [List.pairwise_append]
      refine ⟨hst.snaps_inc, by simp, ?_⟩
      intro a ha b hb
      simp at hb; subst hb
      exact hst.snaps_lt a ha
    · intro s hs
      rcases List.mem_append.mp hs with hs | hs
      · have := hst.snaps_lt s hs; omega
      · simp at hs; subst hs; simp
    · intro s hs hne
      rcases List.mem_append.mp hs with hs | hs
      · exact hst.rc_dead s hs hne
      · simp at hs; subst hs; simp at hne
  · -- pc
    rw [List.length_map]
    refine ⟨hpc.len, ?_, ?_, ?_, hpc.fl, ?_, hpc.excl⟩
    · intro t n k v b hg
      have := (hpc.put t n k v b hg).1
      have := writersIdle_spec hi this hg; cases this
    · intro t n tk k hg
      have := (hpc.phys t n tk k hg).1
      have := writersIdle_spec hi this hg; cases this
    · intro t n tk k hg
      have := (hpc.cas t n tk k hg).1
      have := writersIdle_spec hi this hg; cases this
    · intro t sn a hg
      obtain ⟨hf, x, hx, h1⟩ := hpc.coll t sn a hg
      exact ⟨hf, x, List.mem_append_left _ hx, h1⟩
  · -- garb
    have hg : ∀ m, garbC (σ.writers.map (fun _ => (⟨0, []⟩ : Writer)))
        (σ.snaps ++ [⟨σ.currSn, 1, σ.itemsCount + (σ.writers.map (·.count)).sum,
          (σ.writers.reverse.map (·.gc)).flatten, .live, true⟩]) σ.gcJobs m = garbC σ.writers σ.snaps σ.gcJobs m := by
      intro m
      unfold garbC garbW garbS
      rw [flatMap_map_const_nil σ.writers _ _ rfl, List.flatMap_append]
      have e : snapGarb ⟨σ.currSn, 1, σ.itemsCount + (σ.writers.map (·.count)).sum,
          (σ.writers.reverse.map (·.gc)).flatten, .live, true⟩ = σ.writers.reverse.flatMap (·.gc) := by
        simp [snapGarb, List.flatMap_def]
      simp only [List.flatMap_cons, List.flatMap_nil, List.append_nil, List.count_append, List.count_nil, e]
      rw [count_flatMap_reverse]
      omega
    refine ⟨fun m => by rw [hg]; exact h.garb.le m, ?_, h.garb.jobs⟩
    intro m hm
    obtain ⟨y, hy, hym, hyd, hyb⟩ := h.garb.linked m (by rw [← hg]; exact hm)
    exact ⟨y, hy, hym, hyd, by omega⟩

end NitroVerif.MvccConc

