/-
  Sorted-list lemmas for the physical store: `findPath` splits a sorted list into the elements
  below the probe and the rest; both parts are filters.
-/
import NitroVerif.Lemmas.MvccGen

namespace NitroVerif.Mvcc
open NitroVerif

/-- V1: the store is strictly sorted by the insert comparator -/
def Sorted (s : List Ver) : Prop := s.Pairwise vlt

/-! ### generic list facts -/

theorem dropWhile_eq_filter {α : Type} (R : α → α → Prop) (p : α → Bool) :
    ∀ (l : List α), l.Pairwise R → (∀ a b, R a b → p a = false → p b = false) →
      l.dropWhile p = l.filter (fun x => !p x)
  | [], _, _ => rfl
  | x :: xs, h, hm => by
    have hxs := List.pairwise_cons.mp h
    rw [List.dropWhile_cons]
    by_cases hx : p x = true
    · simp [hx, dropWhile_eq_filter R p xs hxs.2 hm]
    · have hx' : p x = false := by simpa using hx
      have : ∀ y ∈ xs, (!p y) = true := by
        intro y hy; simp [hm x y (hxs.1 y hy) hx']
      simp [hx', List.filter_eq_self.mpr this]

theorem takeWhile_eq_filter {α : Type} (R : α → α → Prop) (p : α → Bool) :
    ∀ (l : List α), l.Pairwise R → (∀ a b, R a b → p a = false → p b = false) →
      l.takeWhile p = l.filter p
  | [], _, _ => rfl
  | x :: xs, h, hm => by
    have hxs := List.pairwise_cons.mp h
    rw [List.takeWhile_cons]
    by_cases hx : p x = true
    · simp [hx, takeWhile_eq_filter R p xs hxs.2 hm]
    · have hx' : p x = false := by simpa using hx
      have : ∀ y ∈ xs, ¬ (p y = true) := by
        intro y hy; simp [hm x y (hxs.1 y hy) hx']
      simp [hx', List.filter_eq_nil_iff.mpr this]

theorem pairwise_mem_trichotomy {α : Type} {R : α → α → Prop} :
    ∀ {l : List α}, l.Pairwise R → ∀ {a b : α}, a ∈ l → b ∈ l → a = b ∨ R a b ∨ R b a
  | [], _, _, _, ha, _ => by simp at ha
  | x :: xs, h, a, b, ha, hb => by
    have hxs := List.pairwise_cons.mp h
    rcases List.mem_cons.mp ha with rfl | ha' <;> rcases List.mem_cons.mp hb with rfl | hb'
    · exact Or.inl rfl
    · exact Or.inr (Or.inl (hxs.1 b hb'))
    · exact Or.inr (Or.inr (hxs.1 a ha'))
    · exact pairwise_mem_trichotomy hxs.2 ha' hb'

/-- in a sorted store a node identity `(key, born)` names at most one version -/
theorem sorted_id_unique {s : List Ver} (hs : Sorted s) {a b : Ver} (ha : a ∈ s) (hb : b ∈ s)
    (hk : a.key = b.key) (hb' : a.born = b.born) : a = b := by
  rcases pairwise_mem_trichotomy hs ha hb with h | h | h
  · exact h
  · unfold vlt at h; omega
  · unfold vlt at h; omega

theorem getLast_max {l : List Ver} (hl : Sorted l) {p : Ver} (hp : l.getLast? = some p) :
    p ∈ l ∧ ∀ v ∈ l, v = p ∨ vlt v p := by
  induction l with
  | nil => simp at hp
  | cons x xs ih =>
    cases xs with
    | nil => simp at hp; subst hp; simp
    | cons y ys =>
      have hp' : (y :: ys).getLast? = some p := by simpa [List.getLast?_cons_cons] using hp
      have ⟨hm, hmax⟩ := ih (List.Pairwise.of_cons hl) hp'
      refine ⟨List.mem_cons_of_mem _ hm, ?_⟩
      intro v hv
      rcases List.mem_cons.mp hv with rfl | hv
      · right; exact (List.pairwise_cons.mp hl).1 p hm
      · exact hmax v hv

/-! ### `findPath` -/

theorem findPath_eq (cmp : Ver → Ver → Int) (p : Ver) (s : List Ver) :
    findPath cmp p s = (s.takeWhile (fun x => Gen.findAdvance (cmp x p)),
                        s.dropWhile (fun x => Gen.findAdvance (cmp x p))) := by
  induction s with
  | nil => rfl
  | cons x xs ih =>
    unfold findPath
    by_cases h : Gen.findAdvance (cmp x p) = true
    · simp [h, ih]
    · simp [h]

theorem findPath_append (cmp : Ver → Ver → Int) (p : Ver) (s : List Ver) :
    (findPath cmp p s).1 ++ (findPath cmp p s).2 = s := by
  rw [findPath_eq]; exact List.takeWhile_append_dropWhile

/-- under the insert comparator: the passed nodes are those below the probe -/
theorem findPath_ins_fst {s : List Ver} (hs : Sorted s) (p : Ver) :
    (findPath insCmp p s).1 = s.filter (fun x => insLt x p) := by
  rw [findPath_eq]
  have : (fun x => Gen.findAdvance (insCmp x p)) = (fun x => insLt x p) := by
    funext x; unfold insLt Gen.findAdvance; rfl
  rw [this]
  apply takeWhile_eq_filter vlt _ s hs
  intro a b hab ha
  cases hb : insLt b p
  · rfl
  · have := (insLt_iff b p).mp hb
    have h2 := (insLt_iff a p).mpr (vlt_trans hab this)
    rw [ha] at h2; cases h2

theorem findPath_ins_snd {s : List Ver} (hs : Sorted s) (p : Ver) :
    (findPath insCmp p s).2 = s.filter (fun x => !insLt x p) := by
  rw [findPath_eq]
  have : (fun x => Gen.findAdvance (insCmp x p)) = (fun x => insLt x p) := by
    funext x; unfold insLt Gen.findAdvance; rfl
  rw [this]
  apply dropWhile_eq_filter vlt _ s hs
  intro a b hab ha
  cases hb : insLt b p
  · rfl
  · have := (insLt_iff b p).mp hb
    have h2 := (insLt_iff a p).mpr (vlt_trans hab this)
    rw [ha] at h2; cases h2

/-- under the iterator (key-only) comparator: `succs[0]` onwards are the nodes with key ≥ probe -/
theorem seekRest_eq {s : List Ver} (hs : Sorted s) (p : Ver) :
    seekRest p s = s.filter (fun x => decide (p.key ≤ x.key)) := by
  unfold seekRest
  rw [findPath_eq]
  rw [dropWhile_eq_filter vlt _ s hs]
  · apply List.filter_congr
    intro x _
    have := iterCmp_neg x p
    unfold Gen.findAdvance
    by_cases h : p.key ≤ x.key
    · simp [h]; omega
    · simp [h]; omega
  · intro a b hab ha
    have h1 := iterCmp_neg a p
    have h2 := iterCmp_neg b p
    unfold Gen.findAdvance at *
    simp at ha ⊢
    unfold vlt at hab; omega

/-- the nodes after `v` -/
theorem afterRest_eq {s : List Ver} (hs : Sorted s) (v : Ver) :
    afterRest v s = s.filter (fun x => insLt v x) := by
  unfold afterRest
  rw [dropWhile_eq_filter vlt _ s hs]
  · apply List.filter_congr; intro x _; simp
  · intro a b hab ha
    simp at ha ⊢
    exact (insLt_iff v b).mpr (vlt_trans ((insLt_iff v a).mp ha) hab)

theorem sorted_filter {s : List Ver} (hs : Sorted s) (p : Ver → Bool) : Sorted (s.filter p) :=
  List.Pairwise.filter p hs

theorem sorted_append_iff {l r : List Ver} :
    Sorted (l ++ r) ↔ Sorted l ∧ Sorted r ∧ ∀ a ∈ l, ∀ b ∈ r, vlt a b := List.pairwise_append

end NitroVerif.Mvcc
