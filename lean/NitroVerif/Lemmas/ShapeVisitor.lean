import NitroVerif.Gen.Shapes
/-!
  Pinned control shapes, area Visitor: the functions of /repo the models of this area mirror have, today, exactly
  these shapes (tools/gofacts/shapes.go).  `Gen/Shapes.lean` is regenerated from the working tree on every run; a change
  of an operator, bound, call, early return or loop in one of these functions breaks the lemma named after it.
  Expectations are maintained by hand (bootstrap: `go run . -shape-lemmas Visitor`).
-/
namespace NitroVerif.ShapeTie.Visitor
open NitroVerif.Gen.Shape

/-- nitro.go `*Nitro.Visitor` -/
theorem shape_Visitor_ok : Visitor_Visitor =
    ["if(== nil)", "panic", "NewIterator", "if(== nil)", "panic", "defer", "Close", "GetAccesBarrier", "Acquire", "defer", "Release", "GetRangeSplitItems", "range", "ptrToItem", "Seek", "Bytes", "if()", "Valid", "if(== nil || > 0)", "iterCmp", "for(<)", "++", "Add", "go", "defer", "Done", "range", "NewIterator", "if(== nil)", "panic", "defer", "Close", "SetRefreshRate", "if-else(== nil)", "SeekFirst", "Seek", "Bytes", "label loop", "for()", "Valid", "Next", "if(!= nil && >= 0)", "iterCmp", "Item", "GetNode", "break loop", "Item", "GetNode", "if(!= nil)", "callb", "return()", "for(< - 1)", "++", "send", "close", "Wait", "range", "if(!= nil)", "return(_)", "return(nil)"] := rfl

/-- skiplist/skiplist.go `*Skiplist.GetRangeSplitItems` -/
theorem shape_GetRangeSplitItems_ok : Visitor_GetRangeSplitItems =
    ["label repeat", "LoadInt32", "for(>= 0)", "--", "LoadInt64", "if(>=)", "for(!= && !)", "++", "if(==)", "Item", "getNext", "if()", "goto repeat", "break", "return(_)"] := rfl

end NitroVerif.ShapeTie.Visitor
